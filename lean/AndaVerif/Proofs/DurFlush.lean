import AndaVerif.Proofs.DurOps
/-
C01 helper lemmas, part 4: `flush_inner`. The model interprets the generated order
`Gen.CollectionOrder.flushOrder`; the proof starts by rewriting with `gen_flush_order`, so the
lemmas below are about the order the source has *now*. Every stage is a (possibly empty) sequence
of backend mutations cut anywhere by any fault; the invariant holds after every prefix, and a
flush that reports success leaves bitmap and committed indexes exactly describing the documents.
-/
namespace AndaVerif.Durability
open AndaVerif.Gen.CollectionOrder

macro "triv" : tactic => `(tactic| first | rfl | trivial)

/-- nothing left to repair: any set of retained intents is harmless -/
structure Settled (D : Durable) : Prop extends Cons D where
  docs_le : ∀ id, (D.docs id).isSome = true → id ≤ bound D
  cp_le : D.cp ≤ D.metaMax
  ids_le : ∀ id, D.ids id = true → id ≤ D.metaMax

theorem Settled.durInv {D : Durable} (h : Settled D) : DurInv D :=
  h.toCons.durInv h.docs_le h.cp_le h.ids_le

/-! ### index commits -/

theorem le_foldl_max (l : List Nat) (a x : Nat) (h : x ∈ l ∨ x ≤ a) : x ≤ l.foldl max a := by
  induction l generalizing a with
  | nil => simpa using h
  | cons y r ih =>
    simp only [List.foldl]
    apply ih
    rcases h with h | h
    · rcases List.mem_cons.mp h with h | h
      · right; subst h; exact Nat.le_max_right _ _
      · left; exact h
    · right; exact Nat.le_trans h (Nat.le_max_left _ _)

theorem mem_dirtyIxs (v : Volatile) (ix : Nat) : ix ∈ dirtyIxs v ↔ ix ∈ v.dirty := by
  simp only [dirtyIxs, List.mem_filter, List.mem_range, decide_eq_true_eq]
  constructor
  · exact fun h => h.2
  · intro h
    exact ⟨Nat.lt_succ_of_le (le_foldl_max _ _ _ (Or.inl h)), h⟩

def commits (ixs : List Nat) (x : Idx) : List (Ev × (Durable → Durable)) :=
  ixs.map (fun ix => (Ev.ixc ix, commitIdx ix x))

theorem commits_fold (x : Idx) : ∀ (ixs : List Nat) (D : Durable),
    let D' := (commits ixs x).foldl (fun D ef => ef.2 D) D
    D'.docs = D.docs ∧ D'.ids = D.ids ∧ D'.metaMax = D.metaMax ∧ D'.metaVer = D.metaVer ∧ D'.cp = D.cp ∧
      D'.cpSaved = D.cpSaved ∧ D'.wm = D.wm ∧ D'.intents = D.intents ∧
      ∀ id k, D'.idx id k = if k.1 ∈ ixs then x id k else D.idx id k := by
  intro ixs
  induction ixs with
  | nil => intro D; simp [commits]
  | cons ix r ih =>
    intro D
    have := ih (commitIdx ix x D)
    simp only [commits, List.map_cons, List.foldl_cons] at this ⊢
    obtain ⟨h1, h2, h3, h4, h5, h6, h7, h8, h9⟩ := this
    refine ⟨by rw [h1]; rfl, by rw [h2]; rfl, by rw [h3]; rfl, by rw [h4]; rfl, by rw [h5]; rfl, by rw [h6]; rfl, by rw [h7]; rfl, by rw [h8]; rfl, ?_⟩
    intro id k
    rw [h9]
    by_cases hr : k.1 ∈ r
    · simp [hr]
    · by_cases hx : k.1 = ix
      · simp [hr, hx, commitIdx]
      · simp [hr, hx, commitIdx]

/-- every prefix of the index commits of a handle in sync keeps the invariant -/
theorem commits_durInv {D0 : Durable} {x : Idx} (hD : DurInv D0) (hx : ∀ id k, x id k = keysOf (D0.docs id) k)
    (ixs : List Nat) (w : World) (hw : w.D = D0) :
    let D' := (w.attemptAll (commits ixs x)).1.D
    DurInv D' ∧ D'.docs = D0.docs ∧ D'.ids = D0.ids ∧ D'.metaMax = D0.metaMax ∧ D'.cp = D0.cp ∧ D'.wm = D0.wm ∧
      D'.intents = D0.intents := by
  have key := attemptAll_inv
    (fun D' => (D'.docs = D0.docs ∧ D'.ids = D0.ids ∧ D'.metaMax = D0.metaMax ∧ D'.cp = D0.cp ∧ D'.wm = D0.wm ∧ D'.intents = D0.intents) ∧
      ∀ id k, D'.idx id k = D0.idx id k ∨ D'.idx id k = keysOf (D0.docs id) k)
    (commits ixs x) w ?_ ?_
  · obtain ⟨hs, hi⟩ := key
    exact ⟨hD.idx_toward hs hi, hs⟩
  · intro ef hm D' ⟨hs, hi⟩
    simp only [commits, List.mem_map] at hm
    obtain ⟨ix, _, rfl⟩ := hm
    refine ⟨hs, ?_⟩
    intro id k
    simp only [commitIdx]
    by_cases hk : k.1 = ix
    · simp [hk, hx]
    · simpa [hk] using hi id k
  · subst hw
    exact ⟨⟨rfl, rfl, rfl, rfl, rfl, rfl⟩, fun _ _ => Or.inl rfl⟩

/-! ### retiring intents -/

theorem filter_true_self {α : Type} (l : List α) : l.filter (fun _ => true) = l :=
  List.filter_eq_self.2 (by simp)

def retires (seqs : List Nat) : List (Ev × (Durable → Durable)) :=
  seqs.map (fun s => (Ev.intentDel, delIntent s))

theorem retires_fold : ∀ (seqs : List Nat) (D : Durable),
    let D' := (retires seqs).foldl (fun D ef => ef.2 D) D
    D'.docs = D.docs ∧ D'.ids = D.ids ∧ D'.metaMax = D.metaMax ∧ D'.metaVer = D.metaVer ∧ D'.cp = D.cp ∧
      D'.cpSaved = D.cpSaved ∧ D'.wm = D.wm ∧ D'.idx = D.idx ∧
      D'.intents = D.intents.filter (fun it => decide (it.seq ∉ seqs)) := by
  intro seqs
  induction seqs with
  | nil => intro D; simp [retires, filter_true_self]
  | cons s r ih =>
    intro D
    have := ih (delIntent s D)
    simp only [retires, List.map_cons, List.foldl_cons] at this ⊢
    obtain ⟨h1, h2, h3, h4, h5, h6, h7, h8, h9⟩ := this
    refine ⟨by rw [h1]; rfl, by rw [h2]; rfl, by rw [h3]; rfl, by rw [h4]; rfl, by rw [h5]; rfl, by rw [h6]; rfl, by rw [h7]; rfl, by rw [h8]; rfl, ?_⟩
    rw [h9]
    simp only [delIntent, List.filter_filter]
    congr 1
    funext it
    by_cases h1 : it.seq = s <;> by_cases h2 : it.seq ∈ r <;> simp [h1, h2]

theorem Settled.of_same {D D' : Durable} (h : Settled D)
    (hs : D'.docs = D.docs ∧ D'.ids = D.ids ∧ D'.metaMax = D.metaMax ∧ D'.cp = D.cp ∧ D'.wm = D.wm ∧ D'.idx = D.idx) :
    Settled D' := by
  obtain ⟨h1, h2, h3, h4, h5, h6⟩ := hs
  obtain ⟨⟨a, b⟩, c, d, e⟩ := h
  refine ⟨⟨?_, ?_⟩, ?_, ?_, ?_⟩
  · intro id; rw [h2, h1]; exact a id
  · intro id k; rw [h6, h1]; exact b id k
  · intro id hs; simpa [bound, h3, h5] using c id (by simpa [h1] using hs)
  · simpa [h4, h3] using d
  · intro id hs; simpa [h3] using e id (by simpa [h2] using hs)

/-- every prefix of the intent retirement of a settled state is settled -/
theorem retires_settled {D0 : Durable} (hD : Settled D0) (seqs : List Nat) (w : World) (hw : w.D = D0) :
    let D' := (w.attemptAll (retires seqs)).1.D
    Settled D' ∧ D'.docs = D0.docs ∧ D'.ids = D0.ids ∧ D'.metaMax = D0.metaMax ∧ D'.cp = D0.cp ∧ D'.wm = D0.wm ∧ D'.idx = D0.idx := by
  have key := attemptAll_inv
    (fun D' => D'.docs = D0.docs ∧ D'.ids = D0.ids ∧ D'.metaMax = D0.metaMax ∧ D'.cp = D0.cp ∧ D'.wm = D0.wm ∧ D'.idx = D0.idx)
    (retires seqs) w ?_ ?_
  · exact ⟨hD.of_same key, key⟩
  · intro ef hm D' hs
    simp only [retires, List.mem_map] at hm
    obtain ⟨s, _, rfl⟩ := hm
    simpa [delIntent] using hs
  · subst hw; exact ⟨rfl, rfl, rfl, rfl, rfl, rfl⟩

/-! ### the whole flush -/

theorem storeCp_cases (c : FlushCtx) (cpArg now : Nat) :
    storeCp c cpArg now = c ∨
    ∃ ncp nsv, ncp = (if cpArg > 0 then max c.v.cp cpArg else c.v.cp) ∧
      (((c.w.attempt .cp (putCp ncp nsv)).2 = true ∧
          storeCp c cpArg now = { c with w := (c.w.attempt .cp (putCp ncp nsv)).1, v := { c.v with cp := ncp, cpSaved := nsv } }) ∨
        ((c.w.attempt .cp (putCp ncp nsv)).2 = false ∧
          storeCp c cpArg now = { c with w := (c.w.attempt .cp (putCp ncp nsv)).1, failed := true })) := by
  unfold storeCp
  dsimp only
  by_cases hskip : (max c.v.cpSaved now == c.v.cpSaved && (if cpArg > 0 then max c.v.cp cpArg else c.v.cp) == c.v.cp) = true
  · left; rw [if_pos hskip]
  · right
    rw [if_neg hskip]
    refine ⟨(if cpArg > 0 then max c.v.cp cpArg else c.v.cp), max c.v.cpSaved now, rfl, ?_⟩
    by_cases h : (c.w.attempt .cp (putCp (if cpArg > 0 then max c.v.cp cpArg else c.v.cp) (max c.v.cpSaved now))).2 = true
    · left; exact ⟨h, by rw [if_pos h]⟩
    · right; exact ⟨by simpa using h, by rw [if_neg h]⟩

/-- what a flush that reported success guarantees -/
structure FlushOk (D0 : Durable) (v0 : Volatile) (D : Durable) (v : Volatile) : Prop where
  sync : SyncV D v
  settled : Settled D
  poisoned : v.poisoned = v0.poisoned
  closed : v.closed = v0.closed
  pending : v.pending = []
  intents : D.intents = D0.intents.filter (fun it => decide (it.seq ∉ v0.pending))
  maxId : v.maxId = v0.maxId
  ids : v.ids = v0.ids
  idx : v.idx = v0.idx
  wm : v.wm = v0.wm ∧ D.wm = D0.wm

/-- frame facts that hold after every prefix of a flush, successful or not -/
structure FlushFrame (D0 D : Durable) : Prop where
  docs : D.docs = D0.docs
  metaMax : D0.metaMax ≤ D.metaMax
  wm : D.wm = D0.wm

theorem flushInner_good {w : World} {v : Volatile} (now : Nat) (hD : DurInv w.D) (hS : SyncV w.D v) :
    DurInv (flushInner w v now).1.D ∧ FlushFrame w.D (flushInner w v now).1.D ∧
      ((flushInner w v now).2.2.isSome = true →
        FlushOk w.D v (flushInner w v now).1.D (flushInner w v now).2.1) := by
  obtain ⟨⟨⟨s1, s2, s3, s4, s5, s6, s7, s8⟩, s9⟩, s10⟩ := hS
  have hcons_idx : v.dirty = [] → ∀ id k, w.D.idx id k = keysOf (w.D.docs id) k := by
    intro hd id k
    rw [← s6]
    exact s7 k.1 (by simp [hd]) id k rfl
  unfold flushInner
  simp only [gen_flush_order, List.foldl_cons, List.foldl_nil]
  by_cases hfast : (!decide (v.savedVer < v.version) && !!v.dirty.isEmpty && !!v.pending.isEmpty) = true
  · -- nothing pending: no write at all
    simp only [hfast, if_true]
    simp only [Bool.not_not, Bool.and_eq_true, Bool.not_eq_true', decide_eq_false_iff_not, Nat.not_lt, List.isEmpty_iff] at hfast
    obtain ⟨⟨hver, hdirty⟩, hpend⟩ := hfast
    refine ⟨hD, ⟨rfl, Nat.le_refl _, rfl⟩, fun _ => ?_⟩
    have hset : Settled w.D := ⟨⟨fun id => by rw [s9 hver, s5], hcons_idx hdirty⟩, hD.docs_le, hD.cp_le, hD.ids_le⟩
    exact ⟨⟨⟨⟨s1, s2, s3, s4, s5, s6, s7, s8⟩, s9⟩, s10⟩, hset, rfl, rfl, hpend, by simp [hpend, filter_true_self], rfl, rfl, rfl, rfl, rfl⟩
  simp only [hfast, Bool.false_eq_true, if_false]
  clear hfast
  -- stage 1: index commits
  have hx : ∀ id k, v.idx id k = keysOf (w.D.docs id) k := s6
  generalize hc1 : flushStep now (decide (v.savedVer < v.version)) (!v.dirty.isEmpty) (!v.pending.isEmpty)
      ⟨w, v, false, false, false⟩ .indexes = c1
  have h1 : DurInv c1.w.D ∧ c1.w.D.docs = w.D.docs ∧ c1.w.D.ids = w.D.ids ∧ c1.w.D.metaMax = w.D.metaMax ∧
      c1.w.D.cp = w.D.cp ∧ c1.w.D.wm = w.D.wm ∧ c1.w.D.intents = w.D.intents ∧ c1.metaStored = false ∧
      (c1.failed = false → (∀ id k, c1.w.D.idx id k = keysOf (w.D.docs id) k) ∧
        c1.v = { v with dirty := [] }) := by
    subst hc1
    simp only [flushStep, Bool.false_eq_true, if_false]
    split
    · generalize hpre : (dirtyIxs v).takeWhile (fun ix => !w.ixStale.contains ix) = pre
      have hcm := commits_durInv hD hx pre w rfl
      simp only [commits] at hcm
      obtain ⟨a1, a2, a3, a4, a5, a6, a7⟩ := hcm
      split
      · rename_i hok
        split
        · rename_i hlen
          have hpe : pre = dirtyIxs v := by
            have hpl : pre.length = (dirtyIxs v).length := by simpa using hlen
            have hpf : pre <+: dirtyIxs v := by rw [← hpre]; exact List.takeWhile_prefix _
            exact hpf.eq_of_length hpl
          refine ⟨a1, a2, a3, a4, a5, a6, a7, rfl, fun _ => ⟨?_, rfl⟩⟩
          have hfold := attemptAll_ok _ w hok
          have hcf := commits_fold v.idx pre w.D
          simp only [commits] at hcf
          intro id k
          rw [hfold, hcf.2.2.2.2.2.2.2.2 id k, hpe]
          by_cases hk : k.1 ∈ dirtyIxs v
          · simp [hk, hx]
          · simp only [hk, if_false]
            rw [← hx]
            exact s7 k.1 (by rwa [mem_dirtyIxs] at hk) id k rfl
        · -- a stale manifest version: the conditional PUT is rejected, the flush fails
          simp only [reject_D]
          exact ⟨a1, a2, a3, a4, a5, a6, a7, by triv, fun h => by simp at h⟩
      · exact ⟨a1, a2, a3, a4, a5, a6, a7, rfl, fun h => by simp at h⟩
    · rename_i hp
      have hd : v.dirty = [] := by simpa using hp
      refine ⟨hD, rfl, rfl, rfl, rfl, rfl, rfl, rfl, fun _ => ⟨hcons_idx hd, ?_⟩⟩
      cases v; simp_all
  obtain ⟨d1, f1docs, f1ids, f1max, f1cp, f1wm, f1int, f1ms, h1ok⟩ := h1
  by_cases hf1 : c1.failed = true
  · -- the flush stops here
    have hstop : ∀ s, flushStep now (decide (v.savedVer < v.version)) (!v.dirty.isEmpty) (!v.pending.isEmpty) c1 s = c1 := by
      intro s; simp [flushStep, hf1]
    simp only [hstop, hf1, if_true]
    exact ⟨d1, ⟨f1docs, by omega, f1wm⟩, fun h => by simp at h⟩
  have hf1 : c1.failed = false := by simpa using hf1
  obtain ⟨i1, v1eq⟩ := h1ok hf1
  -- stages 2–4: metadata, bitmap, checkpoint (only when the version moved)
  by_cases hpm : v.savedVer < v.version
  · simp only [hpm, decide_true]
    -- metadata
    generalize hc2 : flushStep now true (!v.dirty.isEmpty) (!v.pending.isEmpty) c1 .metaPut = c2
    have h2 : DurInv c2.w.D ∧ c2.w.D.docs = w.D.docs ∧ c2.w.D.ids = w.D.ids ∧ w.D.metaMax ≤ c2.w.D.metaMax ∧
        c2.w.D.cp = w.D.cp ∧ c2.w.D.wm = w.D.wm ∧ c2.w.D.intents = w.D.intents ∧ c2.w.D.idx = c1.w.D.idx ∧
        (c2.failed = false → c2.w.D.metaMax = v.maxId ∧
          c2.v = { v with dirty := [], savedVer := max v.savedVer v.version }) := by
      subst hc2
      simp only [flushStep, hf1, Bool.false_eq_true, if_false, if_true]
      have hge : c1.w.D.metaMax ≤ c1.v.maxId := by rw [f1max, v1eq]; exact s1
      by_cases hst : c1.w.metaStale = true
      · -- the conditional PUT is rejected: nothing lands
        simp only [hst, if_true]
        rw [reject_D]
        exact ⟨d1, f1docs, f1ids, by rw [f1max]; exact Nat.le_refl _, f1cp, f1wm, f1int, rfl, fun h => by simp at h⟩
      simp only [hst, Bool.false_eq_true, if_false]
      rcases attempt_cases c1.w .metaPut (putMeta c1.v.maxId c1.v.version) with ⟨hok, hDD⟩ | ⟨hno, hDD⟩
      · simp only [hok, if_true]
        rw [hDD]
        refine ⟨d1.putMeta hge, f1docs, f1ids, by simp only [putMeta]; rw [v1eq]; exact s1, f1cp, f1wm, f1int, rfl, fun _ => ⟨by simp [putMeta, v1eq], by simp [v1eq]⟩⟩
      · simp only [hno, Bool.false_eq_true, if_false]
        refine ⟨?_, ?_, ?_, ?_, ?_, ?_, ?_, ?_, fun h => by simp at h⟩ <;> rcases hDD with h | h <;> rw [h]
        all_goals first
          | exact d1
          | exact d1.putMeta hge
          | assumption
          | rfl
          | (simp only [putMeta]; assumption)
          | (simp only [putMeta]; rw [v1eq]; exact s1)
          | (rw [f1max]; exact Nat.le_refl _)
    obtain ⟨d2, f2docs, f2ids, f2max, f2cp, f2wm, f2int, f2idx, h2ok⟩ := h2
    by_cases hf2 : c2.failed = true
    · have hstop : ∀ s, flushStep now true (!v.dirty.isEmpty) (!v.pending.isEmpty) c2 s = c2 := by
        intro s; simp [flushStep, hf2]
      simp only [hstop, hf2, if_true]
      exact ⟨d2, ⟨f2docs, f2max, f2wm⟩, fun h => by simp at h⟩
    have hf2 : c2.failed = false := by simpa using hf2
    obtain ⟨m2, v2eq⟩ := h2ok hf2
    -- bitmap
    generalize hc3 : flushStep now true (!v.dirty.isEmpty) (!v.pending.isEmpty) c2 .idsPut = c3
    have hv2ids : c2.v.ids = v.ids := by rw [v2eq]
    have hidsle : ∀ id, c2.v.ids id = true → id ≤ c2.w.D.metaMax := by
      intro id hi; rw [m2]; exact s2 id (by rw [← s5, ← hv2ids]; exact hi)
    have hidseq : ∀ id, c2.v.ids id = (c2.w.D.docs id).isSome := by intro id; rw [f2docs, hv2ids]; exact s5 id
    have h3 : DurInv c3.w.D ∧ c3.w.D.docs = w.D.docs ∧ c3.w.D.metaMax = c2.w.D.metaMax ∧
        c3.w.D.cp = w.D.cp ∧ c3.w.D.wm = w.D.wm ∧ c3.w.D.intents = w.D.intents ∧ c3.w.D.idx = c1.w.D.idx ∧
        (c3.failed = false → c3.w.D.ids = v.ids ∧ c3.v = c2.v) := by
      subst hc3
      simp only [flushStep, hf2, Bool.false_eq_true, if_false, if_true]
      rcases attempt_cases c2.w .idsPut (putIds c2.v.ids) with ⟨hok, hDD⟩ | ⟨hno, hDD⟩
      · simp only [hok, if_true]
        rw [hDD]
        exact ⟨d2.putIds hidseq hidsle, f2docs, rfl, f2cp, f2wm, f2int, f2idx, fun _ => ⟨hv2ids, trivial⟩⟩
      · simp only [hno, Bool.false_eq_true, if_false]
        refine ⟨?_, ?_, ?_, ?_, ?_, ?_, ?_, fun h => by simp at h⟩ <;> rcases hDD with h | h <;> rw [h]
        all_goals first
          | exact d2
          | exact d2.putIds hidseq hidsle
          | assumption
          | rfl
    obtain ⟨d3, f3docs, f3max, f3cp, f3wm, f3int, f3idx, h3ok⟩ := h3
    by_cases hf3 : c3.failed = true
    · have hstop : ∀ s, flushStep now true (!v.dirty.isEmpty) (!v.pending.isEmpty) c3 s = c3 := by
        intro s; simp [flushStep, hf3]
      simp only [hstop, hf3, if_true]
      exact ⟨d3, ⟨f3docs, by rw [f3max]; exact f2max, f3wm⟩, fun h => by simp at h⟩
    have hf3 : c3.failed = false := by simpa using hf3
    obtain ⟨i3, v3eq⟩ := h3ok hf3
    have hset3 : Settled c3.w.D := by
      refine ⟨⟨?_, ?_⟩, d3.docs_le, d3.cp_le, d3.ids_le⟩
      · intro id; rw [i3, f3docs]; exact s5 id
      · intro id k; rw [f3idx, f3docs]; exact i1 id k
    -- checkpoint
    generalize hc4 : flushStep now true (!v.dirty.isEmpty) (!v.pending.isEmpty) c3 .checkpoint = c4
    have hcpv : c3.v.cp = c3.w.D.cp := by rw [v3eq, v2eq, f3cp]; exact s8
    have hmaxv : c3.v.maxId = c3.w.D.metaMax := by rw [v3eq, v2eq, f3max, m2]
    have h4 : Settled c4.w.D ∧ c4.w.D.docs = w.D.docs ∧ c4.w.D.metaMax = c2.w.D.metaMax ∧ c4.w.D.ids = v.ids ∧
        c4.w.D.wm = w.D.wm ∧ c4.w.D.intents = w.D.intents ∧ c4.w.D.idx = c1.w.D.idx ∧ c4.metaStored = c3.metaStored ∧
        c4.idxSaved = c3.idxSaved ∧
        (c4.failed = false → c4.v.cp = c4.w.D.cp ∧ c4.v.pending = v.pending ∧
          ({ c4.v with cp := 0, cpSaved := 0 } : Volatile) = { c3.v with cp := 0, cpSaved := 0 }) := by
      subst hc4
      simp only [flushStep, hf3, Bool.false_eq_true, if_false, if_true]
      rcases storeCp_cases c3 c3.v.maxId now with h | ⟨ncp, nsv, hncp, ⟨hok, h⟩ | ⟨hno, h⟩⟩
      · rw [h]
        exact ⟨hset3, f3docs, f3max, i3, f3wm, f3int, f3idx, rfl, rfl, fun _ => ⟨hcpv, by rw [v3eq, v2eq], rfl⟩⟩
      all_goals
        have hncple : ncp ≤ c3.w.D.metaMax := by
          have := d3.cp_le
          subst hncp
          split <;> omega
        have hsetcp : Settled (putCp ncp nsv c3.w.D) := by
          obtain ⟨⟨a, b⟩, c, _, e⟩ := hset3
          exact ⟨⟨a, b⟩, c, hncple, e⟩
      · rw [h]
        rcases attempt_cases c3.w .cp (putCp ncp nsv) with ⟨_, hDD⟩ | ⟨hno, _⟩
        · simp only
          rw [hDD]
          exact ⟨hsetcp, f3docs, f3max, i3, f3wm, f3int, f3idx, by triv, by triv, fun _ => ⟨by triv, by rw [v3eq, v2eq], by triv⟩⟩
        · rw [hno] at hok; cases hok
      · rw [h]
        rcases attempt_cases c3.w .cp (putCp ncp nsv) with ⟨hok, _⟩ | ⟨_, hDD⟩
        · rw [hok] at hno; cases hno
        · simp only
          refine ⟨?_, ?_, ?_, ?_, ?_, ?_, ?_, by triv, by triv, fun h => by simp at h⟩ <;> rcases hDD with h | h <;> rw [h]
          all_goals first
            | exact hset3
            | exact hsetcp
            | assumption
            | rfl
    obtain ⟨set4, f4docs, f4max, f4ids, f4wm, f4int, f4idx, f4ms, f4is, h4ok⟩ := h4
    by_cases hf4 : c4.failed = true
    · have hstop : ∀ s, flushStep now true (!v.dirty.isEmpty) (!v.pending.isEmpty) c4 s = c4 := by
        intro s; simp [flushStep, hf4]
      simp only [hstop, hf4, if_true]
      exact ⟨set4.durInv, ⟨f4docs, by rw [f4max]; exact f2max, f4wm⟩, fun h => by simp at h⟩
    have hf4 : c4.failed = false := by simpa using hf4
    obtain ⟨cp4, pend4, v4eq⟩ := h4ok hf4
    -- retirement of the intents
    generalize hc5 : flushStep now true (!v.dirty.isEmpty) (!v.pending.isEmpty) c4 .retire = c5
    have h5 : Settled c5.w.D ∧ c5.w.D.docs = w.D.docs ∧ c5.w.D.metaMax = c2.w.D.metaMax ∧ c5.w.D.ids = v.ids ∧
        c5.w.D.wm = w.D.wm ∧ c5.w.D.idx = c1.w.D.idx ∧ c5.w.D.cp = c4.w.D.cp ∧
        (c5.failed = false → c5.w.D.intents = w.D.intents.filter (fun it => decide (it.seq ∉ v.pending)) ∧
          c5.v = { c4.v with pending := [] }) := by
      subst hc5
      simp only [flushStep, hf4, Bool.false_eq_true, if_false]
      by_cases hp : (!v.pending.isEmpty) = true
      · simp only [hp, if_true]
        have hr := retires_settled set4 c4.v.pending c4.w rfl
        simp only [retires] at hr
        obtain ⟨r0, r1, r2, r3, r4, r5, r6⟩ := hr
        split
        · rename_i hok
          refine ⟨r0, by rw [r1, f4docs], by rw [r3, f4max], by rw [r2, f4ids], by rw [r5, f4wm], by rw [r6, f4idx], r4, fun _ => ⟨?_, rfl⟩⟩
          have hfold := attemptAll_ok _ c4.w hok
          have hrf := retires_fold c4.v.pending c4.w.D
          simp only [retires] at hrf
          rw [hfold, hrf.2.2.2.2.2.2.2.2, f4int, pend4]
        · exact ⟨r0, by rw [r1, f4docs], by rw [r3, f4max], by rw [r2, f4ids], by rw [r5, f4wm], by rw [r6, f4idx], r4, fun h => by simp at h⟩
      · simp only [hp, Bool.false_eq_true, if_false]
        have hpe : v.pending = [] := by simpa using hp
        refine ⟨set4, f4docs, f4max, f4ids, f4wm, f4idx, by triv, fun _ => ⟨by simp [f4int, hpe, filter_true_self], ?_⟩⟩
        have : c4.v.pending = [] := by rw [pend4, hpe]
        cases hc : c4.v; simp_all
    obtain ⟨set5, f5docs, f5max, f5ids, f5wm, f5idx, f5cp, h5ok⟩ := h5
    by_cases hf5 : c5.failed = true
    · simp only [hf5, if_true]
      exact ⟨set5.durInv, ⟨f5docs, by rw [f5max]; exact f2max, f5wm⟩, fun h => by simp at h⟩
    have hf5 : c5.failed = false := by simpa using hf5
    obtain ⟨int5, v5eq⟩ := h5ok hf5
    simp only [hf5, Bool.false_eq_true, if_false]
    refine ⟨set5.durInv, ⟨f5docs, by rw [f5max]; exact f2max, f5wm⟩, fun _ => ?_⟩
    -- the handle after a successful full flush
    have hv5 : ({ c5.v with cp := 0, cpSaved := 0 } : Volatile) =
        { v with dirty := [], savedVer := max v.savedVer v.version, pending := [], cp := 0, cpSaved := 0 } := by
      rw [v5eq]
      have := congrArg (fun x : Volatile => ({ x with pending := [] } : Volatile)) v4eq
      simp only at this
      rw [this, v3eq, v2eq]
    have e_ids : c5.v.ids = v.ids := by have := congrArg Volatile.ids hv5; simpa using this
    have e_max : c5.v.maxId = v.maxId := by have := congrArg Volatile.maxId hv5; simpa using this
    have e_ver : c5.v.version = v.version := by have := congrArg Volatile.version hv5; simpa using this
    have e_sav : c5.v.savedVer = max v.savedVer v.version := by have := congrArg Volatile.savedVer hv5; simpa using this
    have e_wm : c5.v.wm = v.wm := by have := congrArg Volatile.wm hv5; simpa using this
    have e_idx : c5.v.idx = v.idx := by have := congrArg Volatile.idx hv5; simpa using this
    have e_dirty : c5.v.dirty = [] := by have := congrArg Volatile.dirty hv5; simpa using this
    have e_pend : c5.v.pending = [] := by have := congrArg Volatile.pending hv5; simpa using this
    have e_poi : c5.v.poisoned = v.poisoned := by have := congrArg Volatile.poisoned hv5; simpa using this
    have e_clo : c5.v.closed = v.closed := by have := congrArg Volatile.closed hv5; simpa using this
    have e_cp : c5.v.cp = c5.w.D.cp := by rw [v5eq, f5cp]; exact cp4
    refine ⟨⟨⟨⟨?_, ?_, ?_, ?_, ?_, ?_, ?_, e_cp⟩, ?_⟩, ?_⟩, set5, e_poi, e_clo, e_pend, int5, e_max, e_ids, e_idx, e_wm, f5wm⟩
    · rw [f5max, m2, e_max]; exact Nat.le_refl _
    · intro id hs; rw [e_max]; exact s2 id (by rw [← f5docs]; exact hs)
    · rw [e_wm]; simp only [bound, f5wm, f5max, m2]; simp only [bound] at s3; omega
    · rw [f5wm, e_wm, e_max]; exact s4
    · intro id; rw [e_ids, f5docs]; exact s5 id
    · intro id k; rw [e_idx, f5docs]; exact s6 id k
    · intro ix _ id k _; rw [f5idx, e_idx, i1 id k]; exact (s6 id k).symm
    · intro _ id; rw [f5ids, e_ids]
    · rw [e_sav, e_ver]; omega
  · -- the version did not move: metadata, bitmap and checkpoint are skipped
    simp only [hpm, decide_false]
    have hskip : ∀ s, s = FlushStep.metaPut ∨ s = FlushStep.idsPut ∨ s = FlushStep.checkpoint →
        flushStep now false (!v.dirty.isEmpty) (!v.pending.isEmpty) c1 s = c1 := by
      intro s hs
      rcases hs with h | h | h <;> subst h <;> simp [flushStep, hf1]
    rw [hskip _ (Or.inl rfl), hskip _ (Or.inr (Or.inl rfl)), hskip _ (Or.inr (Or.inr rfl))]
    have hver : v.version ≤ v.savedVer := by omega
    have hset1 : Settled c1.w.D := by
      refine ⟨⟨?_, ?_⟩, d1.docs_le, d1.cp_le, d1.ids_le⟩
      · intro id; rw [f1ids, f1docs, s9 hver id]; exact s5 id
      · intro id k; rw [f1docs]; exact i1 id k
    generalize hc5 : flushStep now false (!v.dirty.isEmpty) (!v.pending.isEmpty) c1 .retire = c5
    have h5 : Settled c5.w.D ∧ c5.w.D.docs = w.D.docs ∧ c5.w.D.metaMax = w.D.metaMax ∧ c5.w.D.ids = w.D.ids ∧
        c5.w.D.wm = w.D.wm ∧ c5.w.D.idx = c1.w.D.idx ∧ c5.w.D.cp = w.D.cp ∧
        (c5.failed = false → c5.w.D.intents = w.D.intents.filter (fun it => decide (it.seq ∉ v.pending)) ∧
          c5.v = { v with dirty := [], pending := [] }) := by
      subst hc5
      simp only [flushStep, hf1, Bool.false_eq_true, if_false]
      by_cases hp : (!v.pending.isEmpty) = true
      · simp only [hp, if_true]
        have hr := retires_settled hset1 c1.v.pending c1.w rfl
        simp only [retires] at hr
        obtain ⟨r0, r1, r2, r3, r4, r5, r6⟩ := hr
        have hpend1 : c1.v.pending = v.pending := by rw [v1eq]
        split
        · rename_i hok
          refine ⟨r0, by rw [r1, f1docs], by rw [r3, f1max], by rw [r2, f1ids], by rw [r5, f1wm], r6, by rw [r4, f1cp], fun _ => ⟨?_, by rw [v1eq]⟩⟩
          have hfold := attemptAll_ok _ c1.w hok
          have hrf := retires_fold c1.v.pending c1.w.D
          simp only [retires] at hrf
          rw [hfold, hrf.2.2.2.2.2.2.2.2, f1int, hpend1]
        · exact ⟨r0, by rw [r1, f1docs], by rw [r3, f1max], by rw [r2, f1ids], by rw [r5, f1wm], r6, by rw [r4, f1cp], fun h => by simp at h⟩
      · simp only [hp, Bool.false_eq_true, if_false]
        have hpe : v.pending = [] := by simpa using hp
        refine ⟨hset1, f1docs, f1max, f1ids, f1wm, by triv, f1cp, fun _ => ⟨by simp [f1int, hpe, filter_true_self], ?_⟩⟩
        rw [v1eq]; cases v; simp_all
    obtain ⟨set5, f5docs, f5max, f5ids, f5wm, f5idx, f5cp, h5ok⟩ := h5
    by_cases hf5 : c5.failed = true
    · simp only [hf5, if_true]
      exact ⟨set5.durInv, ⟨f5docs, by rw [f5max]; exact Nat.le_refl _, f5wm⟩, fun h => by simp at h⟩
    have hf5 : c5.failed = false := by simpa using hf5
    obtain ⟨int5, v5eq⟩ := h5ok hf5
    simp only [hf5, Bool.false_eq_true, if_false]
    refine ⟨set5.durInv, ⟨f5docs, by rw [f5max]; exact Nat.le_refl _, f5wm⟩, fun _ => ?_⟩
    rw [v5eq]
    refine ⟨⟨⟨⟨?_, ?_, ?_, ?_, ?_, ?_, ?_, ?_⟩, ?_⟩, ?_⟩, set5, rfl, rfl, rfl, int5, rfl, rfl, rfl, rfl, f5wm⟩
    · rw [f5max]; exact s1
    · intro id hs; exact s2 id (by rw [← f5docs]; exact hs)
    · simp only [bound, f5wm, f5max]; exact s3
    · rw [f5wm]; exact s4
    · intro id; rw [f5docs]; exact s5 id
    · intro id k; rw [f5docs]; exact s6 id k
    · intro ix _ id k _; rw [f5idx, i1 id k]; exact (s6 id k).symm
    · rw [f5cp]; exact s8
    · intro _ id; rw [f5ids]; exact s9 hver id
    · exact s10

end AndaVerif.Durability
