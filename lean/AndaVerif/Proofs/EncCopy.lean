/-
C09: `copy_opts` / `rename_opts` never launder tampered state: what becomes a commit of the target is a
commit of the source.
-/
import AndaVerif.Proofs.EncTamper
import AndaVerif.Proofs.EncWriter

namespace AndaVerif.Enc
open AndaVerif.Gen.EncAad

theorem retryVerifies_true : retryVerifies = true := by
  unfold retryVerifies
  rw [gen_resolveLoopsVerified.1, gen_resolveLoopsVerified.2]
  decide

/-- The metadata seal call a copy makes. -/
def copyRec (A : AEAD) (to : Bytes) (d : Meta) (f : Fresh) : SealRec :=
  ⟨f.authNonce, metaAad to d, [], (A.enc f.authNonce (metaAad to d) []).1, (A.enc f.authNonce (metaAad to d) []).2⟩

/-- A verified iteration: the source document is a commit of the source key and the target document is
that commit's, re-sealed. -/
theorem copyWith_verified {A : AEAD} {H : List SealRec} {commits : List Commit}
    (hI : Ideal A H) (hH : Honest H commits) {strict : Bool} {B : Backend} {src to : Bytes} {f : Fresh}
    {doc : Except RErr Meta} (hfit : ∀ m, doc = .ok m → m.fits src = true)
    (hmode : strict = true ∨ ∀ m, doc = .ok m → ¬ legacyShaped m)
    {p : Bytes} {d : Meta} (h : copyWith A strict B src to f true doc = .ok (p, d)) :
    ∃ m k, doc = .ok m ∧ k ∈ commits ∧ k.loc = src ∧ m.unsealed = k.doc.unsealed ∧ m.fits src = true ∧
      ∃ v, chunkAadVersion m = .ok v ∧
        d = sealMeta A to f.authNonce
          { m with eTag := some f.eTag, generation := some f.generation, originalTag := none,
                   originalVersion := none, chunkAadVersion := some v,
                   committedAtMs := some f.committedAtMs } := by
  unfold copyWith at h
  cases hm : doc with
  | error e => simp [hm] at h
  | ok m =>
    simp only [hm, if_true] at h
    cases hv : verifyMetadata A strict src m with
    | error e => simp [hv] at h
    | ok a =>
      simp only [hv] at h
      have hmode' : strict = true ∨ ¬ legacyShaped m := hmode.imp id (fun h => h m hm)
      obtain ⟨_, n, t, q, _, _, hd⟩ := verify_authenticated hv hmode'
      obtain ⟨k, hk, hloc, hun⟩ := authenticated_is_commit hI hH (hfit m hm) hd
      cases hp : B.payload src m.generation with
      | none => simp [hp] at h
      | some pl =>
        simp only [hp] at h
        unfold copyMeta at h
        cases hc : chunkAadVersion m with
        | error e => simp [hc] at h
        | ok v =>
          simp only [hc] at h
          injection h with h
          simp only [Prod.mk.injEq] at h
          exact ⟨m, k, rfl, hk, hloc, hun, hfit m hm, v, hc, h.2.symm⟩

/-- The history and the commits after the copy are honest again: the new commit of `to` carries the
plaintext of the authenticated commit of the source. -/
theorem copy_extends_honest {A : AEAD} {H : List SealRec} {commits : List Commit}
    (hH : Honest H commits) {src to : Bytes} {f : Fresh} {m : Meta} {k : Commit} {v : Nat}
    (hk : k ∈ commits) (hun : m.unsealed = k.doc.unsealed) (hmfit : m.fits src = true)
    (hv : chunkAadVersion m = .ok v)
    (hto : to.length < U64) (hetag : f.eTag.length < U64) (hgen : f.generation.length < U64)
    (hts : f.committedAtMs < U64) :
    let d := sealMeta A to f.authNonce
      { m with eTag := some f.eTag, generation := some f.generation, originalTag := none,
               originalVersion := none, chunkAadVersion := some v, committedAtMs := some f.committedAtMs }
    Honest (H ++ [copyRec A to d f]) (commits ++ [⟨to, k.plain, k.c, d⟩]) := by
  intro d
  obtain ⟨f1, _, f3, f4, f5, f6, _, _⟩ := unsealed_fields hun
  have hvb : v = chunkAadBound := by
    unfold chunkAadVersion at hv
    rw [f6, hH.bound k hk] at hv
    simp only at hv
    split at hv
    · injection hv with hv; exact hv.symm
    · cases hv
  have mem_old : ∀ {k'}, k' ∈ commits → k' ∈ commits ++ [⟨to, k.plain, k.c, d⟩] :=
    fun h => List.mem_append_left _ h
  have split : ∀ k', k' ∈ commits ++ [(⟨to, k.plain, k.c, d⟩ : Commit)] →
      k' ∈ commits ∨ k' = ⟨to, k.plain, k.c, d⟩ := by
    intro k' h
    rcases List.mem_append.mp h with h | h
    · exact Or.inl h
    · exact Or.inr (List.mem_singleton.mp h)
  refine ⟨?_, ?_, ?_, ?_, ?_, ?_, ?_⟩
  · intro r hr
    rcases List.mem_append.mp hr with hr | hr
    · rcases hH.classify r hr with ⟨k', hk', ha⟩ | hc
      · exact Or.inl ⟨k', mem_old hk', ha⟩
      · exact Or.inr hc
    · rw [List.mem_singleton.mp hr]
      exact Or.inl ⟨_, List.mem_append_right _ (List.mem_singleton.mpr rfl), rfl⟩
  · intro k' hk'
    rcases split k' hk' with h | h
    · exact hH.fits k' h
    · rw [h]
      simp only [Meta.fits, Bool.and_eq_true, decide_eq_true_eq, List.all_eq_true] at hmfit
      obtain ⟨⟨⟨⟨⟨⟨⟨⟨⟨⟨_, m2⟩, _⟩, _⟩, _⟩, m6⟩, m7⟩, m8⟩, m9⟩, _⟩, _⟩ := hmfit
      simp only [d, sealMeta, Meta.fits, optFits, optNatFits, Bool.and_eq_true, decide_eq_true_eq,
        List.all_eq_true]
      exact ⟨⟨⟨⟨⟨⟨⟨⟨⟨⟨hto, m2⟩, hetag⟩, trivial⟩, trivial⟩, m6⟩, m7⟩, m8⟩, m9⟩, hgen⟩, hts⟩
  · intro k' hk'
    rcases split k' hk' with h | h
    · exact hH.size k' h
    · rw [h]; show m.size = k.plain.length; rw [f1, hH.size k hk]
  · intro k' hk'
    rcases split k' hk' with h | h
    · exact hH.chunk k' h
    · rw [h]; show m.chunkSize = some k.c ∧ _; rw [f5]; exact hH.chunk k hk
  · intro k' hk'
    rcases split k' hk' with h | h
    · exact hH.bound k' h
    · rw [h]; show some v = some chunkAadBound; rw [hvb]
  · intro k' hk'
    rcases split k' hk' with h | h
    · exact hH.ntags k' h
    · rw [h]; show m.aesTags.length = _; rw [f4]; exact hH.ntags k hk
  · intro k' hk' i ch hch
    rcases split k' hk' with h | h
    · obtain ⟨r, hr, e1, e2⟩ := hH.sealed k' h i ch hch
      exact ⟨r, List.mem_append_left _ hr, e1, e2⟩
    · rw [h] at hch ⊢
      obtain ⟨r, hr, e1, e2⟩ := hH.sealed k hk i ch hch
      refine ⟨r, List.mem_append_left _ hr, ?_, e2⟩
      rw [e1]; show _ = deriveNonceBytes m.aesNonce i; rw [f3]

theorem ideal_mono {A : AEAD} {H : List SealRec} (hI : Ideal A H) (extra : List SealRec) :
    Ideal A (H ++ extra) :=
  fun n a ct t p h => List.mem_append_left _ (hI n a ct t p h)

theorem nonceRespecting_snoc {H : List SealRec} (hN : NonceRespecting H) (r : SealRec)
    (hfresh : ∀ r' ∈ H, r'.nonce ≠ r.nonce) : NonceRespecting (H ++ [r]) := by
  intro r1 h1 r2 h2 he
  rcases List.mem_append.mp h1 with h1 | h1 <;> rcases List.mem_append.mp h2 with h2 | h2
  · exact hN r1 h1 r2 h2 he
  · rw [List.mem_singleton.mp h2] at he; exact absurd he (hfresh r1 h1)
  · rw [List.mem_singleton.mp h1] at he; exact absurd he.symm (hfresh r2 h2)
  · rw [List.mem_singleton.mp h1, List.mem_singleton.mp h2]

/-- `copy_opts` / `rename_opts` on a warm or cold instance over an arbitrary backend: if it completes,
the document sealed for the target is the re-sealed document of a commit **of the source**, and the
history extended by the copy is honest for "target := that commit's plaintext". -/
theorem copyObjectWarm_ok {A : AEAD} {H : List SealRec} {commits : List Commit}
    (hI : Ideal A H) (hN : NonceRespecting H) (hH : Honest H commits)
    (strict : Bool) (B : Backend) (hB : ∀ loc m, B.metaDoc loc = .ok m → m.fits loc = true)
    (src to : Bytes) (f : Fresh) (cached : Option Meta)
    (hcfit : ∀ m, cached = some m → m.fits src = true)
    (hmode : strict = true ∨
      ((∀ m, B.metaDoc src = .ok m → ¬ legacyShaped m) ∧ ∀ m, cached = some m → ¬ legacyShaped m))
    (hto : to.length < U64) (hetag : f.eTag.length < U64) (hgen : f.generation.length < U64)
    (hts : f.committedAtMs < U64) (hfresh : ∀ r ∈ H, r.nonce ≠ f.authNonce)
    {p : Bytes} {d : Meta} (h : copyObjectWarm A strict B src to f cached = .ok (p, d)) :
    ∃ k ∈ commits, k.loc = src ∧
      Ideal A (H ++ [copyRec A to d f]) ∧ NonceRespecting (H ++ [copyRec A to d f]) ∧
      Honest (H ++ [copyRec A to d f]) (commits ++ [⟨to, k.plain, k.c, d⟩]) := by
  -- every way the operation can complete is a verified iteration on some document
  have key : ∀ doc : Except RErr Meta, (∀ m, doc = .ok m → m.fits src = true) →
      (strict = true ∨ ∀ m, doc = .ok m → ¬ legacyShaped m) →
      copyWith A strict B src to f true doc = .ok (p, d) →
      ∃ k ∈ commits, k.loc = src ∧
        Ideal A (H ++ [copyRec A to d f]) ∧ NonceRespecting (H ++ [copyRec A to d f]) ∧
        Honest (H ++ [copyRec A to d f]) (commits ++ [⟨to, k.plain, k.c, d⟩]) := by
    intro doc hfit hm hc
    obtain ⟨m, k, _, hk, hloc, hun, hmfit, v, hv, hd⟩ := copyWith_verified hI hH hfit hm hc
    refine ⟨k, hk, hloc, ideal_mono hI _, nonceRespecting_snoc hN _ (fun r hr => hfresh r hr), ?_⟩
    rw [hd]
    exact copy_extends_honest hH hk hun hmfit hv hto hetag hgen hts
  have cold := key (B.metaDoc src) (hB src) (hmode.imp id (·.1))
  unfold copyObjectWarm at h
  cases cached with
  | none => exact cold h
  | some m0 =>
    simp only at h
    split at h
    · rw [retryVerifies_true] at h
      exact cold h
    · exact key (.ok m0) (fun m hm => by injection hm with hm; exact hcfit m (by rw [hm]))
        (hmode.imp id (fun h' m hm => by injection hm with hm; exact h'.2 m (by rw [hm]))) h

end AndaVerif.Enc
