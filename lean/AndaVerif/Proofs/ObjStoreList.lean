import AndaVerif.Proofs.ObjStoreCrash
/-
Listings enumerate commit points only; under the invariant every listed entry is the logical
object a read returns.
-/
namespace AndaVerif.ObjStore

theorem mem_metaKeys {be : Backend} {k : Path} {t : Nat} (h : (k, t) ∈ metaKeys be) :
    ∃ e, (BPath.mt k, e) ∈ be ∧ e.time = t := by
  unfold metaKeys at h
  rw [List.mem_filterMap] at h
  obtain ⟨⟨p, e⟩, hmem, hf⟩ := h
  cases p with
  | mt k' =>
      simp only [Option.some.injEq, Prod.mk.injEq] at hf
      obtain ⟨h1, h2⟩ := hf
      subst h1
      exact ⟨e, hmem, h2⟩
  | gen k' g => simp at hf
  | data k' => simp at hf

theorem metaKeys_of_mem {be : Backend} {k : Path} {e : BEnt} (h : (BPath.mt k, e) ∈ be) :
    (k, e.time) ∈ metaKeys be := by
  unfold metaKeys
  rw [List.mem_filterMap]
  exact ⟨(.mt k, e), h, rfl⟩

/-- under the invariant, the listing entry of a listed commit point is the logical object -/
theorem listingEntry_spec {w : W} (hw : WInv w) {k : Path} {t : Nat} (hk : (k, t) ∈ metaKeys w.be) :
    ∃ d b bt, docAt w.be k = some d ∧ aget w.be (payloadPath k d.gen) = some ⟨.blob b, bt⟩ ∧ d.size = b.length ∧
      listingEntry w k t = some { path := k, size := d.size, tok := d.etag, time := (logicalLM d).getD t } := by
  obtain ⟨e, hmem, _⟩ := mem_metaKeys hk
  have hget : aget w.be (.mt k) = some e := (mem_iff_aget w.be hw.be.nodup _ _).1 hmem
  obtain ⟨d, hd⟩ := hw.be.decodes k e hget
  have hdoc : docAt w.be k = some d := by
    obtain ⟨o, t'⟩ := e
    simp only at hd
    subst hd
    exact docAt_of_aget hget
  obtain ⟨b, bt, hb, hs⟩ := hw.be.ptr k d hdoc
  refine ⟨d, b, bt, hdoc, hb, hs, ?_⟩
  unfold listingEntry
  cases hc : aget w.cache k with
  | some d' =>
      have := hw.cache k d' hc
      rw [hdoc] at this
      simp only [Option.some.injEq] at this
      subst this
      rfl
  | none =>
      simp only []
      rw [loadMeta_of_inv hw.be, hdoc]
      rfl

end AndaVerif.ObjStore
