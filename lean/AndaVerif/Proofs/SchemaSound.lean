import AndaVerif.Proofs.SchemaInd
/-
`Conforms`: an independent, relational statement of "the value has its declared field type,
nullability, map key set and tuple arity" (it does not mention `validateInner`), and `InBudget`, the
relational statement of the complexity budget. Soundness of the executable checks against them.
-/
namespace AndaVerif.Schema

/-- the three sentinels of a homogeneous map -/
def IsSentinel (k : FieldKey) : Prop :=
  k = .text "*" ∨ k = .bytes [42] ∨ k = .i64 i64Min

/-- What a declared type admits. The documented read-back shapes are admitted next to the declared
variant (`I64 ← U64 ≤ i64::MAX`, `F32 ← an f64 a stored f32 reads back as`, `Vector ← array of u16
bit patterns`); `Json` is dynamically typed and admits every value; an absent key of an explicitly
keyed map counts as `Null`. -/
inductive Conforms (fm : FloatModel) : FieldType → FieldValue → Prop
  | bool (b) : Conforms fm .bool (.bool b)
  | i64 (i) : Conforms fm .i64 (.i64 i)
  | i64_readback (n : Nat) : (n : Int) ≤ i64Max → Conforms fm .i64 (.u64 n)
  | u64 (n) : Conforms fm .u64 (.u64 n)
  | f64 (d) : fm.isNaN64 d = false → Conforms fm .f64 (.f64 d)
  | f32 (x) : fm.isNaN32 x = false → Conforms fm .f32 (.f32 x)
  | f32_readback (d) : isF32ReadBack fm d = true → Conforms fm .f32 (.f64 d)
  | bytes (b) : Conforms fm .bytes (.bytes b)
  | text (s) : Conforms fm .text (.text s)
  | json (v) : Conforms fm .json v
  | vector (bs) : Conforms fm .vector (.vector bs)
  | vector_readback (vs) : (∀ v ∈ vs, ∃ n, v = .u64 n ∧ n ≤ u16Max) → Conforms fm .vector (.array vs)
  | array_any (vs) : Conforms fm (.array []) (.array vs)
  | array_homogeneous (t vs) : (∀ v ∈ vs, Conforms fm t v) → Conforms fm (.array [t]) (.array vs)
  | array_tuple (ts vs) : 2 ≤ ts.length → ts.length = vs.length →
      (∀ i (h₁ : i < ts.length) (h₂ : i < vs.length), Conforms fm ts[i] vs[i]) →
      Conforms fm (.array ts) (.array vs)
  | map_any (kvs) : Conforms fm (.map []) (.map kvs)
  | map_wildcard (w t kvs) : IsSentinel w →
      (∀ kv ∈ kvs, kv.1.sameVariant w = true) → (∀ kv ∈ kvs, Conforms fm t kv.2) →
      Conforms fm (.map [(w, t)]) (.map kvs)
  | map_keyed (kts kvs) : kts ≠ [] → (∀ w t, kts = [(w, t)] → ¬ IsSentinel w) →
      (∀ kv ∈ kvs, ∃ kt ∈ kts, kt.1 = kv.1) →
      (∀ kt ∈ kts, ∀ v, kvs.lookup kt.1 = some v → Conforms fm kt.2 v) →
      (∀ kt ∈ kts, kvs.lookup kt.1 = none → Conforms fm kt.2 .null) →
      Conforms fm (.map kts) (.map kvs)
  | option_null (t) : Conforms fm (.option t) .null
  | option_some (t v) : v ≠ .null → Conforms fm t v → Conforms fm (.option t) v

/-- Relational form of the complexity budget below a node at depth `d`. -/
inductive JsonInBudget (b : Budget) : Nat → Json → Prop
  | arr (d xs) : d ≤ b.maxDepth → xs.length ≤ b.maxArrayLen → (∀ x ∈ xs, JsonInBudget b (d + 1) x) →
      JsonInBudget b d (.arr xs)
  | obj (d kvs) : d ≤ b.maxDepth → kvs.length ≤ b.maxMapEntries → (∀ kv ∈ kvs, JsonInBudget b (d + 1) kv.2) →
      JsonInBudget b d (.obj kvs)
  | leaf (d j) : d ≤ b.maxDepth → (∀ xs, j ≠ .arr xs) → (∀ kvs, j ≠ .obj kvs) → JsonInBudget b d j

inductive InBudget (b : Budget) : Nat → FieldValue → Prop
  | array (d vs) : d ≤ b.maxDepth → vs.length ≤ b.maxArrayLen → (∀ v ∈ vs, InBudget b (d + 1) v) →
      InBudget b d (.array vs)
  | map (d kvs) : d ≤ b.maxDepth → kvs.length ≤ b.maxMapEntries → (∀ kv ∈ kvs, InBudget b (d + 1) kv.2) →
      InBudget b d (.map kvs)
  | json (d j) : d ≤ b.maxDepth → JsonInBudget b (d + 1) j → InBudget b d (.json j)
  | leaf (d v) : d ≤ b.maxDepth → (∀ vs, v ≠ .array vs) → (∀ kvs, v ≠ .map kvs) → (∀ j, v ≠ .json j) →
      InBudget b d v

theorem isWildcardKey_iff (k : FieldKey) : isWildcardKey k = true ↔ IsSentinel k := by
  simp [isWildcardKey, IsSentinel, or_assoc]

theorem isBf16Bits_iff (v : FieldValue) : isBf16Bits v = true ↔ ∃ n, v = .u64 n ∧ n ≤ u16Max := by
  cases v <;> simp [isBf16Bits]

theorem zipAll_map_iff (fm : FloatModel) (ts : List FieldType) (vs : List FieldValue) :
    zipAll (ts.map (validateInner fm)) vs = true ↔
      ts.length = vs.length ∧
        ∀ i (h₁ : i < ts.length) (h₂ : i < vs.length), validateInner fm ts[i] vs[i] = true := by
  induction ts generalizing vs with
  | nil => cases vs <;> simp [zipAll]
  | cons t ts ih =>
    cases vs with
    | nil => simp [zipAll]
    | cons v vs =>
      simp only [List.map_cons, zipAll, Bool.and_eq_true, ih, List.length_cons, Nat.add_right_cancel_iff]
      constructor
      · rintro ⟨h0, hl, hr⟩
        refine ⟨hl, ?_⟩
        intro i h₁ h₂
        cases i with
        | zero => simpa using h0
        | succ i =>
          simp only [List.getElem_cons_succ]
          exact hr i (by simpa using h₁) (by simpa using h₂)
      · rintro ⟨hl, hr⟩
        refine ⟨by simpa using hr 0 (by simp) (by simp), hl, ?_⟩
        intro i h₁ h₂
        have := hr (i + 1) (by simpa using h₁) (by simpa using h₂)
        simpa only [List.getElem_cons_succ] using this

theorem validateInner_sound (fm : FloatModel) : ∀ ft v, validateInner fm ft v = true → Conforms fm ft v := by
  intro ft
  induction ft using FieldType.ind with
  | hbool => intro v h; cases v <;> simp [validateInner] at h; exact .bool _
  | hi64 =>
    intro v h
    cases v <;> simp [validateInner] at h
    · exact .i64 _
    · exact .i64_readback _ h
  | hu64 => intro v h; cases v <;> simp [validateInner] at h; exact .u64 _
  | hf64 => intro v h; cases v <;> simp [validateInner] at h; exact .f64 _ h
  | hf32 =>
    intro v h
    cases v <;> simp [validateInner] at h
    · exact .f32_readback _ h
    · exact .f32 _ h
  | hbytes => intro v h; cases v <;> simp [validateInner] at h; exact .bytes _
  | htext => intro v h; cases v <;> simp [validateInner] at h; exact .text _
  | hjson => intro v _; exact .json v
  | hvector =>
    intro v h
    cases v <;> simp [validateInner] at h
    · exact .vector _
    · exact .vector_readback _ (fun v hv => (isBf16Bits_iff v).1 (h v hv))
  | harray ts ih =>
    intro v h
    cases v <;> try (simp [validateInner] at h; done)
    rename_i vs
    match ts, ih, h with
    | [], _, _ => exact .array_any vs
    | [t], ih, h =>
      simp [validateInner] at h
      exact .array_homogeneous t vs (fun v hv => ih t (by simp) v (h v hv))
    | t₁ :: t₂ :: ts, ih, h =>
      simp only [validateInner, validators_eq] at h
      have h' := (zipAll_map_iff fm (t₁ :: t₂ :: ts) vs).1 h
      refine .array_tuple _ vs (by simp) h'.1 ?_
      intro i h₁ h₂
      exact ih _ (List.getElem_mem h₁) _ (h'.2 i h₁ h₂)
  | hmap kts ih =>
    intro v h
    cases v <;> simp [validateInner] at h
    rename_i kvs
    simp only [validateMap, keyValidators_eq] at h
    by_cases hemp : kts = []
    · subst hemp; exact .map_any kvs
    · have hne : (kts.map (fun kt => (kt.1, validateInner fm kt.2))).isEmpty = false := by
        cases kts with
        | nil => exact absurd rfl hemp
        | cons _ _ => simp
      rw [hne] at h
      simp only [Bool.false_eq_true, if_false] at h
      rw [asWildcard_map] at h
      cases hw : asWildcard kts with
      | some wt =>
        obtain ⟨w, t⟩ := wt
        obtain ⟨rfl, hs⟩ := asWildcard_some hw
        simp [hw] at h
        refine .map_wildcard w t kvs ((isWildcardKey_iff w).1 hs) ?_ ?_
        · intro kv hkv
          obtain ⟨k, x⟩ := kv
          exact (h k x hkv).1
        · intro kv hkv
          obtain ⟨k, x⟩ := kv
          exact ih (w, t) (by simp) x (h k x hkv).2
      | none =>
        simp [hw] at h
        obtain ⟨hkeys, hvals⟩ := h
        refine .map_keyed kts kvs hemp ?_ ?_ ?_ ?_
        · intro w t hkts hsent
          subst hkts
          have : isWildcardKey w = true := (isWildcardKey_iff w).2 hsent
          simp [asWildcard, this] at hw
        · intro kv hkv
          obtain ⟨k, x⟩ := kv
          obtain ⟨t, ht⟩ := hkeys k x hkv
          exact ⟨(k, t), ht, rfl⟩
        · intro kt hkt v hv
          obtain ⟨k, t⟩ := kt
          have := hvals k t hkt
          try simp only [lookup_map_snd] at this
          simp only at hv
          rw [hv] at this
          exact ih (k, t) hkt v this
        · intro kt hkt hv
          obtain ⟨k, t⟩ := kt
          have := hvals k t hkt
          simp only at hv
          rw [hv] at this
          exact ih (k, t) hkt .null this
  | hopt t ih =>
    intro v h
    cases v <;> simp [validateInner] at h
    all_goals first
      | exact .option_null t
      | exact .option_some t _ (by simp) (ih _ h)

end AndaVerif.Schema

namespace AndaVerif.Schema

theorem Json.shapeOkL_iff (b : Budget) (d : Nat) (xs : List Json) :
    Json.shapeOkL b d xs = true ↔ ∀ x ∈ xs, Json.shapeOk b d x = true := by
  induction xs with
  | nil => simp [Json.shapeOkL]
  | cons x xs ih => simp [Json.shapeOkL, ih]

theorem Json.shapeOkO_iff (b : Budget) (d : Nat) (kvs : List (String × Json)) :
    Json.shapeOkO b d kvs = true ↔ ∀ kv ∈ kvs, Json.shapeOk b d kv.2 = true := by
  induction kvs with
  | nil => simp [Json.shapeOkO]
  | cons kv kvs ih => obtain ⟨k, x⟩ := kv; simp [Json.shapeOkO, ih]

theorem FieldValue.shapeOkL_iff (b : Budget) (d : Nat) (vs : List FieldValue) :
    FieldValue.shapeOkL b d vs = true ↔ ∀ v ∈ vs, FieldValue.shapeOk b d v = true := by
  induction vs with
  | nil => simp [FieldValue.shapeOkL]
  | cons v vs ih => simp [FieldValue.shapeOkL, ih]

theorem FieldValue.shapeOkM_iff (b : Budget) (d : Nat) (kvs : List (FieldKey × FieldValue)) :
    FieldValue.shapeOkM b d kvs = true ↔ ∀ kv ∈ kvs, FieldValue.shapeOk b d kv.2 = true := by
  induction kvs with
  | nil => simp [FieldValue.shapeOkM]
  | cons kv kvs ih => obtain ⟨k, x⟩ := kv; simp [FieldValue.shapeOkM, ih]

theorem Json.shapeOk_sound (b : Budget) : ∀ j d, Json.shapeOk b d j = true → JsonInBudget b d j := by
  intro j
  induction j using Json.ind with
  | harr xs ih =>
    intro d h
    simp only [Json.shapeOk, Bool.and_eq_true, decide_eq_true_eq, Json.shapeOkL_iff] at h
    exact .arr d xs h.1.1 h.1.2 (fun x hx => ih x hx _ (h.2 x hx))
  | hobj kvs ih =>
    intro d h
    simp only [Json.shapeOk, Bool.and_eq_true, decide_eq_true_eq, Json.shapeOkO_iff] at h
    exact .obj d kvs h.1.1 h.1.2 (fun kv hkv => ih kv hkv _ (h.2 kv hkv))
  | _ =>
    intro d h
    simp only [Json.shapeOk, decide_eq_true_eq] at h
    exact .leaf d _ h (by simp) (by simp)

theorem FieldValue.shapeOk_sound (b : Budget) : ∀ v d, FieldValue.shapeOk b d v = true → InBudget b d v := by
  intro v
  induction v using FieldValue.ind with
  | harray vs ih =>
    intro d h
    simp only [FieldValue.shapeOk, Bool.and_eq_true, decide_eq_true_eq, FieldValue.shapeOkL_iff] at h
    exact .array d vs h.1.1 h.1.2 (fun x hx => ih x hx _ (h.2 x hx))
  | hmap kvs ih =>
    intro d h
    simp only [FieldValue.shapeOk, Bool.and_eq_true, decide_eq_true_eq, FieldValue.shapeOkM_iff] at h
    exact .map d kvs h.1.1 h.1.2 (fun kv hkv => ih kv hkv _ (h.2 kv hkv))
  | hjson j =>
    intro d h
    simp only [FieldValue.shapeOk, Bool.and_eq_true, decide_eq_true_eq] at h
    exact .json d j h.1 (Json.shapeOk_sound b j _ h.2)
  | _ =>
    intro d h
    simp only [FieldValue.shapeOk, decide_eq_true_eq] at h
    exact .leaf d _ h (by simp) (by simp) (by simp)

end AndaVerif.Schema

namespace AndaVerif.Schema

/-! ### completeness: nothing conforming is refused -/

theorem asWildcard_none_of {α : Type} (kts : List (FieldKey × α))
    (h : ∀ w t, kts = [(w, t)] → ¬ IsSentinel w) : asWildcard kts = none := by
  match kts, h with
  | [], _ => simp [asWildcard]
  | [(k, t)], h =>
    have : isWildcardKey k = false := by
      cases hk : isWildcardKey k with
      | false => rfl
      | true => exact absurd ((isWildcardKey_iff k).1 hk) (h k t rfl)
    simp [asWildcard, this]
  | _ :: _ :: _, _ => simp [asWildcard]

theorem validateInner_complete (fm : FloatModel) {ft : FieldType} {v : FieldValue}
    (h : Conforms fm ft v) : validateInner fm ft v = true := by
  induction h with
  | bool b => simp [validateInner]
  | i64 i => simp [validateInner]
  | i64_readback n h => simp [validateInner, h]
  | u64 n => simp [validateInner]
  | f64 d h => simp [validateInner, h]
  | f32 x h => simp [validateInner, h]
  | f32_readback d h => simp [validateInner, h]
  | bytes b => simp [validateInner]
  | text s => simp [validateInner]
  | json v => simp [validateInner]
  | vector bs => simp [validateInner]
  | vector_readback vs h =>
    simp only [validateInner, List.all_eq_true]
    exact fun v hv => (isBf16Bits_iff v).2 (h v hv)
  | array_any vs => simp [validateInner]
  | array_homogeneous t vs _ ih =>
    simp only [validateInner, List.all_eq_true]
    exact ih
  | array_tuple ts vs h2 hl _ ih =>
    match ts, h2, hl, ih with
    | t₁ :: t₂ :: ts, _, hl, ih =>
      simp only [validateInner, validators_eq]
      exact (zipAll_map_iff fm _ vs).2 ⟨hl, ih⟩
  | map_any kvs => simp [validateInner, keyValidators, validateMap]
  | map_wildcard w t kvs hs h1 _ ih =>
    have hw : isWildcardKey w = true := (isWildcardKey_iff w).2 hs
    simp only [validateInner, keyValidators, validateMap, List.isEmpty_cons, Bool.false_eq_true, if_false,
      asWildcard, hw, if_true, List.all_eq_true, Bool.and_eq_true]
    exact fun kv hkv => ⟨h1 kv hkv, ih kv hkv⟩
  | map_keyed kts kvs hne hnw hkeys _ _ ihs ihn =>
    have hemp : (kts.map (fun kt => (kt.1, validateInner fm kt.2))).isEmpty = false := by
      cases kts with
      | nil => exact absurd rfl hne
      | cons _ _ => simp
    simp only [validateInner, validateMap, keyValidators_eq, hemp, Bool.false_eq_true, if_false,
      asWildcard_map, asWildcard_none_of kts hnw, Option.map_none, Bool.and_eq_true, List.all_eq_true]
    refine ⟨?_, ?_⟩
    · intro kv hkv
      obtain ⟨kt, hkt, he⟩ := hkeys kv hkv
      simp only [List.any_map, List.any_eq_true]
      exact ⟨kt, hkt, by simp [he]⟩
    · intro c hc
      obtain ⟨kt, hkt, rfl⟩ := List.mem_map.1 hc
      simp only
      cases hl : kvs.lookup kt.1 with
      | none => exact ihn kt hkt hl
      | some x => exact ihs kt hkt x hl
  | option_null t => simp [validateInner]
  | option_some t v hv _ ih =>
    cases v <;> simp [validateInner] at hv ⊢ <;> exact ih

theorem Json.shapeOk_complete (b : Budget) {d : Nat} {j : Json} (h : JsonInBudget b d j) :
    Json.shapeOk b d j = true := by
  induction h with
  | arr d xs h1 h2 _ ih =>
    simp only [Json.shapeOk, Bool.and_eq_true, decide_eq_true_eq, Json.shapeOkL_iff]
    exact ⟨⟨h1, h2⟩, ih⟩
  | obj d kvs h1 h2 _ ih =>
    simp only [Json.shapeOk, Bool.and_eq_true, decide_eq_true_eq, Json.shapeOkO_iff]
    exact ⟨⟨h1, h2⟩, ih⟩
  | leaf d j h1 ha ho =>
    cases j with
    | arr xs => exact absurd rfl (ha xs)
    | obj kvs => exact absurd rfl (ho kvs)
    | _ => simp [Json.shapeOk, h1]

theorem FieldValue.shapeOk_complete (b : Budget) {d : Nat} {v : FieldValue} (h : InBudget b d v) :
    FieldValue.shapeOk b d v = true := by
  induction h with
  | array d vs h1 h2 _ ih =>
    simp only [FieldValue.shapeOk, Bool.and_eq_true, decide_eq_true_eq, FieldValue.shapeOkL_iff]
    exact ⟨⟨h1, h2⟩, ih⟩
  | map d kvs h1 h2 _ ih =>
    simp only [FieldValue.shapeOk, Bool.and_eq_true, decide_eq_true_eq, FieldValue.shapeOkM_iff]
    exact ⟨⟨h1, h2⟩, ih⟩
  | json d j h1 h2 =>
    simp only [FieldValue.shapeOk, Bool.and_eq_true, decide_eq_true_eq]
    exact ⟨h1, Json.shapeOk_complete b h2⟩
  | leaf d v h1 ha hm hj =>
    cases v with
    | array vs => exact absurd rfl (ha vs)
    | map kvs => exact absurd rfl (hm kvs)
    | json j => exact absurd rfl (hj j)
    | _ => simp [FieldValue.shapeOk, h1]

end AndaVerif.Schema
