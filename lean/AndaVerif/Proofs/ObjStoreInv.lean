import AndaVerif.Proofs.ObjStoreBasic
/-
Backend invariant of the sidecar layout and the effect of every atomic backend step on cold reads.
These single-step facts are what both the refinement (C07) and the crash / GC theorems (C08) are
assembled from.
-/
namespace AndaVerif.ObjStore

/-- the decoded commit point of `k`, if any -/
def docAt (be : Backend) (k : Path) : Option Doc :=
  match aget be (.mt k) with
  | some ⟨.doc d, _⟩ => some d
  | _ => none

theorem docAt_eq_some {be : Backend} {k : Path} {d : Doc} (h : docAt be k = some d) :
    ∃ t, aget be (.mt k) = some ⟨.doc d, t⟩ := by
  unfold docAt at h
  split at h
  · rename_i d' t heq
    simp only [Option.some.injEq] at h
    subst h
    exact ⟨t, heq⟩
  · simp at h

theorem docAt_of_aget {be : Backend} {k : Path} {d : Doc} {t : Nat} (h : aget be (.mt k) = some ⟨.doc d, t⟩) :
    docAt be k = some d := by
  simp [docAt, h]

@[simp] theorem payloadPath_ne_mt (k : Path) (g : Option Gen) (x : Path) : payloadPath k g ≠ .mt x := by
  cases g <;> simp [payloadPath]

@[simp] theorem mt_ne_payloadPath (k : Path) (g : Option Gen) (x : Path) : BPath.mt x ≠ payloadPath k g := by
  cases g <;> simp [payloadPath]

theorem payloadPath_key_ne {k x : Path} (h : x ≠ k) (g g' : Option Gen) : payloadPath x g ≠ payloadPath k g' := by
  cases g <;> cases g' <;> simp [payloadPath, h]

/-- `readCold` only looks at the commit point of `x` and at the payload it points to. -/
theorem readCold_congr (be be' : Backend) (x : Path)
    (hm : aget be' (.mt x) = aget be (.mt x))
    (hp : ∀ d, docAt be x = some d → aget be' (payloadPath x d.gen) = aget be (payloadPath x d.gen)) :
    readCold be' x = readCold be x := by
  unfold readCold
  rw [hm]
  cases h : aget be (.mt x) with
  | none => rfl
  | some e =>
      obtain ⟨o, t⟩ := e
      cases o with
      | doc d => simp only [resolveDoc]; rw [hp d (docAt_of_aget h)]
      | blob b => rfl
      | junk => rfl

theorem readCold_of_doc {be : Backend} {x : Path} {d : Doc} {t : Nat} {b : Bytes} {bt : Nat}
    (hm : aget be (.mt x) = some ⟨.doc d, t⟩) (hp : aget be (payloadPath x d.gen) = some ⟨.blob b, bt⟩) :
    readCold be x = some ⟨b, d.etag.getD .empty, (logicalLM d).getD bt⟩ := by
  simp [readCold, resolveDoc, hm, hp]

theorem readCold_none_of_no_meta {be : Backend} {x : Path} (hm : aget be (.mt x) = none) : readCold be x = none := by
  simp [readCold, hm]

/-- Invariant of the backend under the sidecar protocol. `n` bounds the generation ids in use. -/
structure BInv (be : Backend) (n : Nat) : Prop where
  nodup : NodupKeys be
  /-- Referenced ⊆ Present, with the recorded size -/
  ptr : ∀ k d, docAt be k = some d →
    ∃ b bt, aget be (payloadPath k d.gen) = some ⟨.blob b, bt⟩ ∧ d.size = b.length
  /-- every generation object on the backend was minted before `n` -/
  fresh : ∀ k g, (aget be (.gen k g)).isSome → g.id < n
  /-- commit points decode (external corruption is outside the model's invariant) -/
  decodes : ∀ k e, aget be (.mt k) = some e → ∃ d, e.obj = .doc d

theorem BInv.init : BInv [] 0 :=
  ⟨nodupKeys_nil, by simp [docAt], by simp, by simp⟩

theorem BInv.mono {be : Backend} {n m : Nat} (h : BInv be n) (hnm : n ≤ m) : BInv be m :=
  ⟨h.nodup, h.ptr, fun k g hg => Nat.lt_of_lt_of_le (h.fresh k g hg) hnm, h.decodes⟩

/-- a path nobody's commit point refers to -/
def Unreferenced (be : Backend) (p : BPath) : Prop :=
  ∀ x d, docAt be x = some d → payloadPath x d.gen ≠ p

theorem unreferenced_of_fresh {be : Backend} {n : Nat} (h : BInv be n) (k : Path) (g : Gen) (hg : n ≤ g.id) :
    Unreferenced be (.gen k g) := by
  intro x d hd heq
  obtain ⟨b, bt, hb, _⟩ := h.ptr x d hd
  rw [heq] at hb
  have := h.fresh k g (by simp [hb])
  omega

/-! ### S1: writing a blob to an unreferenced payload path -/

theorem docAt_aset_payload (be : Backend) (k : Path) (g : Option Gen) (e : BEnt) (x : Path) :
    docAt (aset be (payloadPath k g) e) x = docAt be x := by
  unfold docAt
  rw [aget_aset_ne _ _ _ _ (mt_ne_payloadPath k g x)]

theorem readCold_aset_unref (be : Backend) (p : BPath) (e : BEnt) (hp : ∀ x, p ≠ .mt x)
    (hu : Unreferenced be p) (x : Path) : readCold (aset be p e) x = readCold be x := by
  apply readCold_congr
  · exact aget_aset_ne _ _ _ _ (fun h => hp x h.symm)
  · intro d hd
    exact aget_aset_ne _ _ _ _ (hu x d hd)

theorem BInv.putBlob {be : Backend} {n : Nat} (h : BInv be n) (k : Path) (g : Gen) (b : Bytes) (t : Nat)
    (hu : Unreferenced be (.gen k g)) : BInv (aset be (.gen k g) ⟨.blob b, t⟩) (max n (g.id + 1)) := by
  refine ⟨nodupKeys_aset _ _ _ h.nodup, ?_, ?_, ?_⟩
  · intro x d hd
    have hd' : docAt be x = some d := by
      rw [← hd]; exact (docAt_aset_payload be k (some g) _ x).symm
    obtain ⟨b', bt, hb, hs⟩ := h.ptr x d hd'
    refine ⟨b', bt, ?_, hs⟩
    rw [aget_aset_ne _ _ _ _ (hu x d hd')]
    exact hb
  · intro k' g' hg
    rw [aget_aset] at hg
    split at hg
    · rename_i heq
      injection heq with h1 h2
      subst h2
      omega
    · have := h.fresh k' g' hg
      omega
  · intro x e he
    rw [aget_aset_ne _ _ _ _ (by simp)] at he
    exact h.decodes x e he

/-! ### S2: publishing a commit point whose payload is present -/

theorem docAt_aset_mt (be : Backend) (k : Path) (d : Doc) (t : Nat) (x : Path) :
    docAt (aset be (.mt k) ⟨.doc d, t⟩) x = if x = k then some d else docAt be x := by
  unfold docAt
  rw [aget_aset]
  by_cases h : x = k
  · subst h; simp
  · simp [h]

theorem readCold_putDoc (be : Backend) (k : Path) (d : Doc) (t : Nat) (x : Path) :
    readCold (aset be (.mt k) ⟨.doc d, t⟩) x =
      if x = k then resolveDoc be k d else readCold be x := by
  by_cases h : x = k
  · subst h
    simp only [if_true]
    unfold readCold
    rw [aget_aset_eq]
    simp only [resolveDoc]
    rw [aget_aset_ne _ _ _ _ (payloadPath_ne_mt x d.gen x)]
  · simp only [h, if_false]
    apply readCold_congr
    · exact aget_aset_ne _ _ _ _ (by simp [h])
    · intro d' _
      exact aget_aset_ne _ _ _ _ (by simp)

theorem BInv.putDoc {be : Backend} {n : Nat} (h : BInv be n) (k : Path) (d : Doc) (t : Nat) (b : Bytes) (bt : Nat)
    (hp : aget be (payloadPath k d.gen) = some ⟨.blob b, bt⟩) (hs : d.size = b.length) :
    BInv (aset be (.mt k) ⟨.doc d, t⟩) n := by
  refine ⟨nodupKeys_aset _ _ _ h.nodup, ?_, ?_, ?_⟩
  · intro x d' hd
    rw [docAt_aset_mt] at hd
    by_cases hx : x = k
    · subst hx
      simp only [if_true, Option.some.injEq] at hd
      subst hd
      exact ⟨b, bt, by rw [aget_aset_ne _ _ _ _ (by simp)]; exact hp, hs⟩
    · simp only [hx, if_false] at hd
      obtain ⟨b', bt', hb, hs'⟩ := h.ptr x d' hd
      exact ⟨b', bt', by rw [aget_aset_ne _ _ _ _ (by simp)]; exact hb, hs'⟩
  · intro k' g' hg
    rw [aget_aset_ne _ _ _ _ (by simp)] at hg
    exact h.fresh k' g' hg
  · intro x e he
    rw [aget_aset] at he
    split at he
    · simp only [Option.some.injEq] at he
      subst he
      exact ⟨d, rfl⟩
    · exact h.decodes x e he

/-! ### S3: deleting an unreferenced payload object -/

theorem docAt_adel_payload (be : Backend) (p : BPath) (hp : ∀ x, p ≠ .mt x) (x : Path) :
    docAt (adel be p) x = docAt be x := by
  unfold docAt
  rw [aget_adel_ne _ _ _ (fun h => hp x h.symm)]

theorem readCold_adel_unref (be : Backend) (p : BPath) (hp : ∀ x, p ≠ .mt x) (hu : Unreferenced be p) (x : Path) :
    readCold (adel be p) x = readCold be x := by
  apply readCold_congr
  · exact aget_adel_ne _ _ _ (fun h => hp x h.symm)
  · intro d hd
    exact aget_adel_ne _ _ _ (hu x d hd)

theorem BInv.delUnref {be : Backend} {n : Nat} (h : BInv be n) (p : BPath) (hp : ∀ x, p ≠ .mt x)
    (hu : Unreferenced be p) : BInv (adel be p) n := by
  refine ⟨nodupKeys_adel _ _ h.nodup, ?_, ?_, ?_⟩
  · intro x d hd
    rw [docAt_adel_payload be p hp] at hd
    obtain ⟨b, bt, hb, hs⟩ := h.ptr x d hd
    exact ⟨b, bt, by rw [aget_adel_ne _ _ _ (hu x d hd)]; exact hb, hs⟩
  · intro k g hg
    rw [aget_adel] at hg
    split at hg
    · simp at hg
    · exact h.fresh k g hg
  · intro x e he
    rw [aget_adel_ne _ _ _ (fun h => hp x h.symm)] at he
    exact h.decodes x e he

/-! ### S4: deleting a commit point -/

theorem docAt_adel_mt (be : Backend) (k x : Path) :
    docAt (adel be (.mt k)) x = if x = k then none else docAt be x := by
  unfold docAt
  rw [aget_adel]
  by_cases h : x = k
  · subst h; simp
  · simp [h]

theorem readCold_delDoc (be : Backend) (k x : Path) :
    readCold (adel be (.mt k)) x = if x = k then none else readCold be x := by
  by_cases h : x = k
  · subst h
    simp only [if_true]
    exact readCold_none_of_no_meta (aget_adel_eq _ _)
  · simp only [h, if_false]
    apply readCold_congr
    · exact aget_adel_ne _ _ _ (by simp [h])
    · intro d _
      exact aget_adel_ne _ _ _ (by simp)

theorem BInv.delDoc {be : Backend} {n : Nat} (h : BInv be n) (k : Path) : BInv (adel be (.mt k)) n := by
  refine ⟨nodupKeys_adel _ _ h.nodup, ?_, ?_, ?_⟩
  · intro x d hd
    rw [docAt_adel_mt] at hd
    by_cases hx : x = k
    · simp [hx] at hd
    · simp only [hx, if_false] at hd
      obtain ⟨b, bt, hb, hs⟩ := h.ptr x d hd
      exact ⟨b, bt, by rw [aget_adel_ne _ _ _ (by simp)]; exact hb, hs⟩
  · intro k' g hg
    rw [aget_adel_ne _ _ _ (by simp)] at hg
    exact h.fresh k' g hg
  · intro x e he
    rw [aget_adel] at he
    split at he
    · simp at he
    · exact h.decodes x e he

/-- after its commit point is gone, the payload of `k` is unreferenced -/
theorem unreferenced_after_delDoc (be : Backend) (k : Path) (g : Option Gen) :
    Unreferenced (adel be (.mt k)) (payloadPath k g) := by
  intro x d hd heq
  rw [docAt_adel_mt] at hd
  by_cases hx : x = k
  · simp [hx] at hd
  · exact payloadPath_key_ne hx _ _ heq

/-- after the pointer of `k` moved to `d`, any other payload path of `k` is unreferenced -/
theorem unreferenced_after_putDoc (be : Backend) (k : Path) (d : Doc) (t : Nat) (g : Option Gen)
    (hne : payloadPath k g ≠ payloadPath k d.gen) :
    Unreferenced (aset be (.mt k) ⟨.doc d, t⟩) (payloadPath k g) := by
  intro x d' hd heq
  rw [docAt_aset_mt] at hd
  by_cases hx : x = k
  · subst hx
    simp only [if_true, Option.some.injEq] at hd
    subst hd
    exact hne heq.symm
  · exact payloadPath_key_ne hx _ _ heq

end AndaVerif.ObjStore
