import AndaVerif.Proofs.ConcRmw
/-
The metadata object and the conditional writes: the handle always knows the current version of
`meta.cbor` (`extension_write_gate` + the exclusive gate serialize its writers), the
version-conditioned document PUT of `update` always finds the version it read — so no
`Precondition` error is ever returned and the handle is never poisoned.
-/
namespace AndaVerif.ConcColl

def Thread.extCrit (th : Thread) : Bool := match th.op with | .ext _ _ => th.pc == .extPut | _ => false
def Thread.atFMeta (th : Thread) : Bool := match th.op with | .flush => th.pc == .fMeta | _ => false

theorem stepThread_meta (sh : Shared) (t : Nat) (th : Thread) (sh' : Shared) (th' : Thread)
    (h : stepThread sh t th = some (sh', th')) :
    (th.extCrit = false → th'.extCrit = false → sh'.extLock = sh.extLock) ∧
    (th.extCrit = false → th'.extCrit = true →
      sh.extLock = none ∧ sh'.extLock = some t ∧ th'.ver = sh.metaKnownVer ∧
      sh'.metaObjVer = sh.metaObjVer ∧ sh'.metaKnownVer = sh.metaKnownVer) ∧
    (th.extCrit = true → th'.extCrit = false ∧ sh'.extLock = none) ∧
    (th.extCrit = false → th.atFMeta = false →
      sh'.metaObjVer = sh.metaObjVer ∧ sh'.metaKnownVer = sh.metaKnownVer) ∧
    (sh.metaKnownVer = sh.metaObjVer → sh'.metaKnownVer = sh'.metaObjVer) ∧
    (th'.atFMeta = true → th.atFMeta = false ∧ th'.ver = sh.metaKnownVer) ∧
    (th.atFMeta = true → th'.atFMeta = false) := by
  step_cases h
  all_goals simp_all [Thread.extCrit, Thread.atFMeta]

/-- the only ways a handle gets poisoned or a `Precondition` / lifecycle error is returned -/
theorem stepThread_poison (sh : Shared) (t : Nat) (th : Thread) (sh' : Shared) (th' : Thread)
    (h : stepThread sh t th = some (sh', th')) :
    let badUpd := ∃ id fk fu fv, th.op = .upd id fk fu fv ∧ th.pc = .putWait ∧ ∀ d, sh.store id ≠ some (d, th.ver)
    let badFlush := th.atFMeta = true ∧ th.ver ≠ sh.metaObjVer
    let badExt := th.extCrit = true ∧ th.ver ≠ sh.metaObjVer
    (sh'.poisoned = true → sh.poisoned = true ∨ badUpd ∨ badFlush ∨ sh.conf.fine = true) ∧
    (th'.res = some (.err .precond) → th.res = some (.err .precond) ∨ badUpd ∨ badFlush ∨ badExt) ∧
    (th'.res = some (.err .state) → th.res = some (.err .state) ∨ sh.poisoned = true) := by
  step_cases h
  all_goals (try simp_all [Thread.extCrit, Thread.atFMeta, flushResult])

structure MetaInv (c : Cfg) : Prop where
  known : c.sh.metaKnownVer = c.sh.metaObjVer
  extl : ∀ (x : Nat), c.sh.extLock = some x ↔ ∃ th, c.th[x]? = some th ∧ th.extCrit = true
  extv : ∀ (x : Nat) (th : Thread), c.th[x]? = some th → th.extCrit = true → th.ver = c.sh.metaObjVer
  flv : ∀ (x : Nat) (th : Thread), c.th[x]? = some th → th.atFMeta = true → th.ver = c.sh.metaObjVer

theorem extCrit_mut (th : Thread) (h : th.extCrit = true) : th.isMut = true ∧ th.pc.active = true := by
  unfold Thread.extCrit at h; unfold Thread.isMut
  split at h <;> simp_all [Pc.active]

theorem atFMeta_flush (th : Thread) (h : th.atFMeta = true) : th.isFlush = true ∧ th.pc.active = true := by
  unfold Thread.atFMeta at h; unfold Thread.isFlush
  split at h <;> simp_all [Pc.active]

theorem MetaInv.init (c : Cfg) (hk : c.sh.metaKnownVer = c.sh.metaObjVer) (he : c.sh.extLock = none)
    (hidle : ∀ (x : Nat) (th : Thread), c.th[x]? = some th → th.pc = .idle) : MetaInv c := by
  refine ⟨hk, fun x => ?_, ?_, ?_⟩
  · simp only [he, reduceCtorEq, false_iff]
    rintro ⟨th, hx, hc⟩
    have := (extCrit_mut th hc).2; simp [hidle x th hx, Pc.active] at this
  · intro x th hx hc
    have := (extCrit_mut th hc).2; simp [hidle x th hx, Pc.active] at this
  · intro x th hx hc
    have := (atFMeta_flush th hc).2; simp [hidle x th hx, Pc.active] at this

theorem MetaInv.step {t : Nat} {c c' : Cfg} (inv : MetaInv c) (g : GateInv c)
    (h : step t c = some c') : MetaInv c' := by
  obtain ⟨th, sh', th', hth, hst, rfl⟩ := step_elim h
  obtain ⟨h00, h01, h1, hsame, hknown, hfm, hfm'⟩ := stepThread_meta _ _ _ _ _ hst
  have hself : (c.th.set t th')[t]? = some th' := getElem?_set_self' _ _ _ _ hth
  have hext : ∀ x, c.sh.extLock = some x ↔ ∃ th, c.th[x]? = some th ∧ th.extCrit = true := inv.extl
  have htl : c.sh.extLock = some t ↔ th.extCrit = true := by rw [hext]; simp [hth]
  -- a thread other than `t` in a metadata critical section prevents `t` from changing the version
  have hver : ∀ (x : Nat) (thx : Thread), x ≠ t → c.th[x]? = some thx →
      (thx.extCrit = true ∨ thx.atFMeta = true) → sh'.metaObjVer = c.sh.metaObjVer := by
    intro x thx hxt hx hcx
    by_cases hte : th.extCrit = true
    · -- t holds the extension gate
      rcases hcx with hcx | hcx
      · have h1 := (hext x).mpr ⟨thx, hx, hcx⟩
        rw [htl.mpr hte] at h1
        exact absurd (Option.some.inj h1).symm hxt
      · obtain ⟨hfx, hax⟩ := atFMeta_flush thx hcx
        have hw := (g.writer x).mpr ⟨thx, hx, hfx, hax⟩
        have hr := g.excl (by simp [hw])
        obtain ⟨hmt, hat⟩ := extCrit_mut th hte
        have := (g.readers t).mpr ⟨th, hth, hmt, hat⟩
        simp [hr] at this
    · by_cases htf : th.atFMeta = true
      · obtain ⟨hft, hat⟩ := atFMeta_flush th htf
        have hwt := (g.writer t).mpr ⟨th, hth, hft, hat⟩
        rcases hcx with hcx | hcx
        · obtain ⟨hmx, hax⟩ := extCrit_mut thx hcx
          have hr := g.excl (by simp [hwt])
          have := (g.readers x).mpr ⟨thx, hx, hmx, hax⟩
          simp [hr] at this
        · obtain ⟨hfx, hax⟩ := atFMeta_flush thx hcx
          have hw := (g.writer x).mpr ⟨thx, hx, hfx, hax⟩
          rw [hwt] at hw
          exact absurd (Option.some.inj hw).symm hxt
      · exact (hsame (by simpa using hte) (by simpa using htf)).1
  refine ⟨hknown inv.known, fun x => ?_, ?_, ?_⟩
  · -- the extension gate
    rcases hc : th.extCrit with _ | _
    · rcases hc' : th'.extCrit with _ | _
      · rw [h00 hc hc']
        by_cases hx : x = t
        · subst hx; rw [hself, hext]; simp [hth, hc, hc']
        · rw [getElem?_set_ne' _ _ _ _ hx]; exact hext x
      · obtain ⟨hfree, hl, _⟩ := h01 hc hc'
        rw [hl]
        by_cases hx : x = t
        · subst hx; rw [hself]; simp [hc']
        · rw [getElem?_set_ne' _ _ _ _ hx]
          simp only [Option.some.injEq]
          constructor
          · intro hh; exact absurd hh.symm hx
          · intro hex
            have := (hext x).mpr hex
            rw [hfree] at this; cases this
    · obtain ⟨hc', hl⟩ := h1 hc
      rw [hl]
      simp only [reduceCtorEq, false_iff]
      by_cases hx : x = t
      · subst hx; rw [hself]; simp [hc']
      · rw [getElem?_set_ne' _ _ _ _ hx]
        intro hex
        have h2 := (hext x).mpr hex
        rw [htl.mpr hc] at h2
        exact hx (Option.some.inj h2).symm
  · intro x thx hx hcx
    by_cases hxt : x = t
    · subst hxt
      rw [hself] at hx; cases hx
      rcases hc : th.extCrit with _ | _
      · obtain ⟨_, _, hv, ho, _⟩ := h01 hc hcx
        rw [hv, ho]; exact inv.known
      · have := (h1 hc).1; rw [this] at hcx; cases hcx
    · rw [getElem?_set_ne' _ _ _ _ hxt] at hx
      rw [hver x thx hxt hx (Or.inl hcx)]
      exact inv.extv x thx hx hcx
  · intro x thx hx hcx
    by_cases hxt : x = t
    · subst hxt
      rw [hself] at hx; cases hx
      obtain ⟨hnf, hv⟩ := hfm hcx
      have hne : th.extCrit = false := by
        unfold Thread.extCrit; unfold Thread.atFMeta at hcx
        obtain ⟨hop, _, _⟩ := stepThread_gate _ _ _ _ _ hst
        rw [hop] at hcx
        split at hcx <;> simp_all
      rw [hv, (hsame hne hnf).1]; exact inv.known
    · rw [getElem?_set_ne' _ _ _ _ hxt] at hx
      rw [hver x thx hxt hx (Or.inr hcx)]
      exact inv.flv x thx hx hcx

/-- The handle is never poisoned and no call ever fails a version precondition or the lifecycle
check (at the granularity of a single-threaded executor: `fine = false`). -/
structure CleanInv (c : Cfg) : Prop where
  coarse : c.sh.conf.fine = false
  clean : c.sh.poisoned = false
  noErr : ∀ (x : Nat) (th : Thread), c.th[x]? = some th →
    th.res ≠ some (.err .precond) ∧ th.res ≠ some (.err .state)

theorem CleanInv.step {t : Nat} {c c' : Cfg} (inv : CleanInv c) (m : MetaInv c) (rs : ReadStab c)
    (h : step t c = some c') : CleanInv c' := by
  obtain ⟨th, sh', th', hth, hst, rfl⟩ := step_elim h
  obtain ⟨hp, hpre, hstate⟩ := stepThread_poison _ _ _ _ _ hst
  obtain ⟨_, _, _, hconf, _, _, _⟩ := stepThread_gate _ _ _ _ _ hst
  have hself : (c.th.set t th')[t]? = some th' := getElem?_set_self' _ _ _ _ hth
  have hnoUpd : ¬ ∃ id fk fu fv, th.op = .upd id fk fu fv ∧ th.pc = .putWait ∧ ∀ d, c.sh.store id ≠ some (d, th.ver) := by
    rintro ⟨id, fk, fu, fv, hop, hpc, hall⟩
    have := rs t th hth
    unfold Thread.RS at this
    simp only [hop] at this
    obtain ⟨d, _, hs, _⟩ := this (Or.inr (Or.inr hpc))
    exact hall d hs
  have hnoFl : ¬ (th.atFMeta = true ∧ th.ver ≠ c.sh.metaObjVer) := fun ⟨ha, hv⟩ => hv (m.flv t th hth ha)
  have hnoExt : ¬ (th.extCrit = true ∧ th.ver ≠ c.sh.metaObjVer) := fun ⟨ha, hv⟩ => hv (m.extv t th hth ha)
  refine ⟨by show sh'.conf.fine = false; rw [hconf]; exact inv.coarse, ?_, ?_⟩
  · rcases hpp : sh'.poisoned with _ | _
    · rfl
    · rcases hp hpp with h1 | h1 | h1 | h1
      · rw [inv.clean] at h1; cases h1
      · exact absurd h1 hnoUpd
      · exact absurd h1 hnoFl
      · rw [inv.coarse] at h1; cases h1
  · intro x thx hx
    by_cases hxt : x = t
    · subst hxt
      rw [hself] at hx; cases hx
      have hold := inv.noErr x th hth
      refine ⟨fun hr => ?_, fun hr => ?_⟩
      · rcases hpre hr with h1 | h1 | h1 | h1
        · exact hold.1 h1
        · exact hnoUpd h1
        · exact hnoFl h1
        · exact hnoExt h1
      · rcases hstate hr with h1 | h1
        · exact hold.2 h1
        · rw [inv.clean] at h1; cases h1
    · rw [getElem?_set_ne' _ _ _ _ hxt] at hx
      exact inv.noErr x thx hx

end AndaVerif.ConcColl
