import AndaVerif.Proofs.DurInv
/-
C01 helper lemmas, part 3: `add`, `update`, `remove` keep `DurInv` at every cut and under every
fault outcome of each of their backend calls, and keep a handle that stays healthy in `Sync`.
-/
namespace AndaVerif.Durability
open AndaVerif.Gen.CollectionOrder

structure SyncV (D : Durable) (V : Volatile) : Prop extends Sync D V where
  saved_le : V.savedVer ≤ V.version

/-- the combined invariant of a world and its (possibly dead) handle -/
def Good (D : Durable) (V : Volatile) : Prop := DurInv D ∧ (V.dead = false → SyncV D V)

theorem add_poison : addPoisonsOnCleanupError = true := by decide
theorem upd_poison : updatePoisonsOnPutError = true := by decide
theorem rem_poison : removePoisonsOnDeleteError = true := by decide
theorem flush_poison : flushPoisonsOnError = true := by decide
theorem close_poison : closePoisonsOnError = true := by decide

/-! ### index bookkeeping -/

theorem not_mem_touchAdd {x : Idx} {dirty : List Nat} {id : Nat} {ks : List (Nat × Nat)} {ix : Nat}
    (h : ix ∉ touchAdd x dirty id ks) : ix ∉ dirty ∧ ∀ k ∈ ks, k.1 = ix → x id k = true := by
  simp only [touchAdd, List.mem_append, List.mem_map, List.mem_filter, not_or, not_exists, not_and] at h
  refine ⟨h.1, ?_⟩
  intro k hk hix
  cases hx : x id k with
  | true => rfl
  | false => exact absurd hix (h.2 k ⟨hk, by simp [hx]⟩)

theorem not_mem_touchDel {x : Idx} {dirty : List Nat} {id : Nat} {ks : List (Nat × Nat)} {ix : Nat}
    (h : ix ∉ touchDel x dirty id ks) : ix ∉ dirty ∧ ∀ k ∈ ks, k.1 = ix → x id k = false := by
  simp only [touchDel, List.mem_append, List.mem_map, List.mem_filter, not_or, not_exists, not_and] at h
  refine ⟨h.1, ?_⟩
  intro k hk hix
  cases hx : x id k with
  | false => rfl
  | true => exact absurd hix (h.2 k ⟨hk, by simp [hx]⟩)

/-- an index that stays clean across an insert saw no change -/
theorem idxAdd_clean {x : Idx} {dirty : List Nat} {id : Nat} {ks : List (Nat × Nat)} {ix : Nat}
    (h : ix ∉ touchAdd x dirty id ks) (j : Nat) (k : Nat × Nat) (hk : k.1 = ix) : idxAdd x id ks j k = x j k := by
  have h2 := (not_mem_touchAdd h).2
  unfold idxAdd
  by_cases hj : j = id
  · subst hj
    by_cases hm : k ∈ ks
    · simp [hm, h2 k hm hk]
    · simp [hm]
  · simp [hj]

theorem idxDel_clean {x : Idx} {dirty : List Nat} {id : Nat} {ks : List (Nat × Nat)} {ix : Nat}
    (h : ix ∉ touchDel x dirty id ks) (j : Nat) (k : Nat × Nat) (hk : k.1 = ix) : idxDel x id ks j k = x j k := by
  have h2 := (not_mem_touchDel h).2
  unfold idxDel
  by_cases hj : j = id
  · subst hj
    by_cases hm : k ∈ ks
    · simp [hm, h2 k hm hk]
    · simp [hm]
  · simp [hj]

/-! ### add -/

theorem SyncV.bumpMax {D : Durable} {v : Volatile} (h : SyncV D v) :
    SyncV D { v with maxId := v.maxId + 1 } := by
  obtain ⟨⟨⟨h1, h2, h3, h4, h5, h6, h7, h8⟩, h9⟩, h10⟩ := h
  refine ⟨⟨⟨?_, ?_, h3, ?_, h5, h6, h7, h8⟩, h9⟩, h10⟩
  · simp only; omega
  · intro id hs; have := h2 id hs; simp only; omega
  · simp only; omega

/-- `add_impl` from the index insert on, for a fresh id covered by the watermark -/
theorem addCreate_good {w : World} {v : Volatile} {id : Nat} {d : Doc}
    (hD : DurInv w.D) (hS : SyncV w.D v) (hdead : v.dead = false)
    (hfresh : w.D.docs id = none) (hmeta : w.D.metaMax < id) (hmax : v.maxId = id) (hwm : id ≤ v.wm) :
    Good (addCreate w v id d).1.D (addCreate w v id d).2.1 := by
  have hidx0 : ∀ k, v.idx id k = false := by intro k; rw [hS.idx_eq, hfresh]; rfl
  have hcp : w.D.cp < id := by have := hD.cp_le; omega
  have hb : id ≤ bound w.D := by have := hS.wm_le; omega
  have hdd : v.poisoned = false ∧ v.closed = false := by simpa [Volatile.dead] using hdead
  -- the rolled-back handle is in sync with the unchanged durable state
  have hroll : SyncV w.D (addRollback { v with idx := idxAdd v.idx id d.keys, dirty := touchAdd v.idx v.dirty id d.keys } id d) := by
    obtain ⟨⟨⟨h1, h2, h3, h4, h5, h6, h7, h8⟩, h9⟩, h10⟩ := hS
    refine ⟨⟨⟨h1, h2, h3, h4, h5, ?_, ?_, h8⟩, h9⟩, h10⟩
    · intro j k
      simp only [addRollback, idxDel, idxAdd]
      by_cases hj : j = id
      · subst hj; simp [hidx0, ← h6]
      · simp [hj, h6]
    · intro ix hix j k hk
      simp only [addRollback] at hix ⊢
      have ha := (not_mem_touchDel hix).1
      rw [idxDel_clean hix j k hk, idxAdd_clean ha j k hk]
      exact h7 ix (not_mem_touchAdd ha).1 j k hk
  unfold addCreate
  simp only [hfresh, Option.isSome_none, Bool.false_eq_true, if_false]
  rcases attempt_cases w (.doc id) (putDoc id d) with ⟨hok, hDD⟩ | ⟨hno, hDD⟩
  · -- the create landed and was acknowledged
    simp only [hok, if_true]
    refine ⟨by rw [hDD]; exact hD.putDoc_fresh d hfresh hb hcp, fun _ => ?_⟩
    rw [hDD]
    obtain ⟨⟨⟨h1, h2, h3, h4, h5, h6, h7, h8⟩, h9⟩, h10⟩ := hS
    refine ⟨⟨⟨by simpa [putDoc] using h1, ?_, by simpa [putDoc, bound] using h3, by simpa [putDoc] using h4, ?_, ?_, ?_, by simpa [putDoc] using h8⟩, ?_⟩, ?_⟩
    · intro j hs
      by_cases hj : j = id
      · subst hj; simp [hmax]
      · exact h2 j (by simpa [putDoc, hj] using hs)
    · intro j
      by_cases hj : j = id
      · subst hj; simp [putDoc, setB]
      · simp [putDoc, setB, hj, h5]
    · intro j k
      by_cases hj : j = id
      · subst hj; simp [putDoc, idxAdd, hidx0, keysOf]
      · simp [putDoc, idxAdd, hj, h6]
    · intro ix hix j k hk
      simp only [putDoc] at hix ⊢
      rw [idxAdd_clean hix j k hk]
      exact h7 ix (not_mem_touchAdd hix).1 j k hk
    · intro hle; simp only at hle; omega
    · simp only; omega
  · -- the create reported a failure: roll back, compensate
    simp only [hno, Bool.false_eq_true, if_false]
    have hD1 : DurInv (w.attempt (.doc id) (putDoc id d)).1.D := by
      rcases hDD with h | h <;> rw [h]
      · exact hD
      · exact hD.putDoc_fresh d hfresh hb hcp
    rcases attempt_cases (w.attempt (.doc id) (putDoc id d)).1 (.del id) (delDoc id) with ⟨hok2, hD2⟩ | ⟨hno2, hD2⟩
    · simp only [hok2, if_true]
      have hback : ((w.attempt (.doc id) (putDoc id d)).1.attempt (.del id) (delDoc id)).1.D = w.D := by
        rw [hD2]
        rcases hDD with h | h <;> rw [h]
        · exact delDoc_absent hfresh
        · exact delDoc_putDoc_fresh d hfresh
      rw [hback]
      exact ⟨hD, fun _ => hroll⟩
    · simp only [hno2, Bool.false_eq_true, if_false]
      refine ⟨?_, fun hd => ?_⟩
      · rcases hD2 with h | h <;> rw [h]
        · exact hD1
        · have : delDoc id (w.attempt (.doc id) (putDoc id d)).1.D = w.D := by
            rcases hDD with h' | h' <;> rw [h']
            · exact delDoc_absent hfresh
            · exact delDoc_putDoc_fresh d hfresh
          rw [this]; exact hD
      · simp [Volatile.dead, add_poison] at hd

theorem addOp_good {w : World} {v : Volatile} {d : Doc} (h : Good w.D v) :
    Good (addOp w v d).1.D (addOp w v d).2.1 := by
  unfold addOp
  by_cases hdead : v.dead = true
  · simp only [hdead, if_true]; exact h
  · have hdead : v.dead = false := by simpa using hdead
    simp only [hdead, Bool.false_eq_true, if_false]
    obtain ⟨hD, hS⟩ := h
    have hS := hS hdead
    have hfresh : w.D.docs (v.maxId + 1) = none := by
      cases hd : w.D.docs (v.maxId + 1) with
      | none => rfl
      | some x => have := hS.docs_le_max (v.maxId + 1) (by simp [hd]); omega
    have hmeta : w.D.metaMax < v.maxId + 1 := by have := hS.max_ge_meta; omega
    have hS1 := hS.bumpMax
    have hdead1 : ({ v with maxId := v.maxId + 1 } : Volatile).dead = false := by simpa [Volatile.dead] using hdead
    split
    · rename_i hle
      exact addCreate_good hD hS1 hdead1 hfresh hmeta rfl hle
    · rename_i hgt
      simp only [Nat.not_le] at hgt
      have hwmle : w.D.wm ≤ v.maxId + 1 + stride := by
        have := hS.wm_dur
        omega
      rcases attempt_cases w (.wm (v.maxId + 1 + stride)) (putWm (v.maxId + 1 + stride)) with ⟨hok, hDD⟩ | ⟨hno, hDD⟩
      · simp only [hok, if_true]
        have hD' : DurInv (w.attempt (.wm (v.maxId + 1 + stride)) (putWm (v.maxId + 1 + stride))).1.D := by
          rw [hDD]; exact hD.putWm hwmle
        refine addCreate_good hD' ?_ (by simpa [Volatile.dead] using hdead) (by rw [hDD]; exact hfresh) (by rw [hDD]; exact hmeta) rfl (by simp only; omega)
        rw [hDD]
        obtain ⟨⟨⟨h1, h2, h3, h4, h5, h6, h7, h8⟩, h9⟩, h10⟩ := hS1
        refine ⟨⟨⟨h1, h2, ?_, ?_, h5, h6, h7, h8⟩, h9⟩, h10⟩
        · simp only [bound, putWm] at h3 ⊢; omega
        · simp only [putWm]; omega
      · simp only [hno, Bool.false_eq_true, if_false]
        refine ⟨?_, fun _ => ?_⟩
        · rcases hDD with h | h <;> rw [h]
          · exact hD
          · exact hD.putWm hwmle
        · rcases hDD with h | h <;> rw [h]
          · exact hS1
          · obtain ⟨⟨⟨h1, h2, h3, h4, h5, h6, h7, h8⟩, h9⟩, h10⟩ := hS1
            refine ⟨⟨⟨h1, h2, ?_, ?_, h5, h6, h7, h8⟩, h9⟩, h10⟩
            · simp only [bound, putWm] at h3 ⊢; omega
            · simp only [putWm]; omega

/-! ### update -/

theorem mem_newKeys_touches {p : Patch} {k : Nat × Nat} (h : k ∈ p.newKeys) : p.touches k.1 = true := by
  simp only [Patch.newKeys, List.mem_flatMap, List.mem_map] at h
  obtain ⟨r, hr, c, _, hk⟩ := h
  subst hk
  simp only [Patch.touches, List.any_eq_true]
  exact ⟨r, hr, by simp⟩

theorem mem_applyPatch {old : Doc} {p : Patch} {k : Nat × Nat} :
    k ∈ (applyPatch old p).keys ↔ (k ∈ old.keys ∧ p.touches k.1 = false) ∨ k ∈ p.newKeys := by
  simp [applyPatch]

/-- on a handle whose index holds exactly the old document's keys, the index part of `update_impl`
leaves exactly the new document's keys -/
theorem updateIdx_keys {old : Doc} {p : Patch} {x : Idx} {id : Nat}
    (hx : ∀ k, x id k = decide (k ∈ old.keys)) (k : Nat × Nat) :
    idxAdd (idxDel x id (old.keys.filter (updTouched p old (applyPatch old p)))) id
        ((applyPatch old p).keys.filter (updTouched p old (applyPatch old p))) id k
      = decide (k ∈ (applyPatch old p).keys) := by
  simp only [idxAdd, idxDel, if_true, hx, List.mem_filter]
  cases hT : updTouched p old (applyPatch old p) k with
  | true => simp
  | false =>
    simp only [Bool.false_eq_true, and_false, decide_false, Bool.not_false, Bool.and_true, Bool.or_false, decide_eq_decide]
    simp only [updTouched, Bool.and_eq_false_iff, Bool.not_eq_false', Bool.and_eq_true, beq_iff_eq] at hT
    rcases hT with hT | ⟨_, hT⟩
    · rw [mem_applyPatch]
      constructor
      · intro h; exact Or.inl ⟨h, hT⟩
      · rintro (h | h)
        · exact h.1
        · rw [mem_newKeys_touches h] at hT; cases hT
    · have h1 : k ∈ old.keys ↔ k ∈ old.keys.filter (fun j => j.1 == k.1) := by simp
      have h2 : k ∈ (applyPatch old p).keys ↔ k ∈ (applyPatch old p).keys.filter (fun j => j.1 == k.1) := by simp
      rw [h1, h2, hT]

theorem updateOp_good {w : World} {v : Volatile} {id : Nat} {p : Patch} (h : Good w.D v) :
    Good (updateOp w v id p).1.D (updateOp w v id p).2.1 := by
  unfold updateOp
  by_cases hdead : v.dead = true
  · simp only [hdead, if_true]; exact h
  have hdead : v.dead = false := by simpa using hdead
  simp only [hdead, Bool.false_eq_true, if_false]
  split
  · exact h
  rename_i hids
  split
  · exact h
  split
  · exact h
  rename_i old hold
  obtain ⟨hD, hS⟩ := h
  have hS := hS hdead
  have hdd : v.poisoned = false ∧ v.closed = false := by simpa [Volatile.dead] using hdead
  -- the intent PUT
  generalize hit : ({ seq := w.clk, id := id, prev := some old, next := some (applyPatch old p) } : Intent) = it
  generalize hw1 : ({ w with clk := w.clk + 1 } : World) = w1
  have hw1D : w1.D = w.D := by subst hw1; rfl
  have hSi : ∀ D', (D' = w.D ∨ D' = putIntent it w.D) → SyncV D' v := by
    rintro D' (h | h) <;> subst h
    · exact hS
    · obtain ⟨⟨⟨h1, h2, h3, h4, h5, h6, h7, h8⟩, h9⟩, h10⟩ := hS
      exact ⟨⟨⟨h1, h2, h3, h4, h5, h6, h7, h8⟩, h9⟩, h10⟩
  rcases attempt_cases w1 (.intentPut id) (putIntent it) with ⟨hok, hDD⟩ | ⟨hno, hDD⟩
  · simp only [hok, Bool.not_true, Bool.false_eq_true, if_false]
    rw [hw1D] at hDD
    have hD1 : DurInv (w1.attempt (.intentPut id) (putIntent it)).1.D := by rw [hDD]; exact hD.putIntent it
    have hmem : it ∈ (putIntent it w.D).intents := by simp [putIntent]
    have hold1 : (putIntent it w.D).docs id = some old := by simpa [putIntent] using hold
    have hD2 : DurInv (putDoc id (applyPatch old p) (putIntent it w.D)) :=
      (hD.putIntent it).putDoc_update hold1 hmem (by subst hit; rfl) (by subst hit; rfl)
    rcases attempt_cases (w1.attempt (.intentPut id) (putIntent it)).1 (.doc id) (putDoc id (applyPatch old p)) with ⟨hok2, hDD2⟩ | ⟨hno2, hDD2⟩
    · simp only [hok2, if_true]
      rw [hDD] at hDD2
      refine ⟨by rw [hDD2]; exact hD2, fun _ => ?_⟩
      rw [hDD2]
      obtain ⟨⟨⟨h1, h2, h3, h4, h5, h6, h7, h8⟩, h9⟩, h10⟩ := hS
      have hx : ∀ k, v.idx id k = decide (k ∈ old.keys) := by intro k; rw [h6, hold]; rfl
      refine ⟨⟨⟨by simpa [putDoc, putIntent, updateIdx] using h1, ?_, by simpa [putDoc, putIntent, bound, updateIdx] using h3, by simpa [putDoc, putIntent, updateIdx] using h4, ?_, ?_, ?_, by simpa [putDoc, putIntent, updateIdx] using h8⟩, ?_⟩, ?_⟩
      · intro j hs
        by_cases hj : j = id
        · subst hj; exact h2 j (by simp [hold])
        · exact h2 j (by simpa [putDoc, putIntent, hj] using hs)
      · intro j
        by_cases hj : j = id
        · subst hj; simpa [putDoc, updateIdx] using hids
        · simp [putDoc, putIntent, updateIdx, hj, h5]
      · intro j k
        by_cases hj : j = id
        · subst hj
          simp only [updateIdx, putDoc, if_true, keysOf_some]
          exact updateIdx_keys hx k
        · simp [putDoc, putIntent, updateIdx, idxAdd, idxDel, hj, h6]
      · intro ix hix j k hk
        simp only [updateIdx, putDoc, putIntent] at hix ⊢
        have ha := (not_mem_touchAdd hix).1
        rw [idxAdd_clean hix j k hk, idxDel_clean ha j k hk]
        exact h7 ix (not_mem_touchDel ha).1 j k hk
      · intro hle; simp only [updateIdx] at hle; omega
      · simp only [updateIdx]; omega
    · simp only [hno2, Bool.false_eq_true, if_false]
      refine ⟨?_, fun hd => ?_⟩
      · rcases hDD2 with h | h <;> rw [h]
        · exact hD1
        · rw [hDD]; exact hD2
      · simp [Volatile.dead, upd_poison] at hd
  · simp only [hno, Bool.not_false, if_true]
    rw [hw1D] at hDD
    refine ⟨?_, fun _ => hSi _ hDD⟩
    rcases hDD with h | h <;> rw [h]
    · exact hD
    · exact hD.putIntent it

/-! ### remove -/

theorem removeOp_good {w : World} {v : Volatile} {id : Nat} (h : Good w.D v) :
    Good (removeOp w v id).1.D (removeOp w v id).2.1 := by
  unfold removeOp
  by_cases hdead : v.dead = true
  · simp only [hdead, if_true]; exact h
  have hdead : v.dead = false := by simpa using hdead
  simp only [hdead, Bool.false_eq_true, if_false]
  split
  · exact h
  rename_i hids
  split
  · exact h
  obtain ⟨hD, hS⟩ := h
  have hS := hS hdead
  have hdd : v.poisoned = false ∧ v.closed = false := by simpa [Volatile.dead] using hdead
  split
  · -- the bitmap names an id without an object: impossible on a handle in sync
    rename_i hnone
    have := hS.ids_eq id
    simp [hnone] at this
    simp [this] at hids
  rename_i doc hold
  generalize hit : ({ seq := w.clk, id := id, prev := some doc, next := none } : Intent) = it
  generalize hw1 : ({ w with clk := w.clk + 1 } : World) = w1
  have hw1D : w1.D = w.D := by subst hw1; rfl
  have hSi : ∀ D', (D' = w.D ∨ D' = putIntent it w.D) → SyncV D' v := by
    rintro D' (h | h) <;> subst h
    · exact hS
    · obtain ⟨⟨⟨h1, h2, h3, h4, h5, h6, h7, h8⟩, h9⟩, h10⟩ := hS
      exact ⟨⟨⟨h1, h2, h3, h4, h5, h6, h7, h8⟩, h9⟩, h10⟩
  rcases attempt_cases w1 (.intentPut id) (putIntent it) with ⟨hok, hDD⟩ | ⟨hno, hDD⟩
  · simp only [hok, Bool.not_true, Bool.false_eq_true, if_false]
    rw [hw1D] at hDD
    have hD1 : DurInv (w1.attempt (.intentPut id) (putIntent it)).1.D := by rw [hDD]; exact hD.putIntent it
    have hmem : it ∈ (putIntent it w.D).intents := by simp [putIntent]
    have hold1 : (putIntent it w.D).docs id = some doc := by simpa [putIntent] using hold
    have hD2 : DurInv (delDoc id (putIntent it w.D)) :=
      (hD.putIntent it).delDoc_remove hold1 hmem (by subst hit; rfl) (by subst hit; rfl)
    rcases attempt_cases (w1.attempt (.intentPut id) (putIntent it)).1 (.del id) (delDoc id) with ⟨hok2, hDD2⟩ | ⟨hno2, hDD2⟩
    · simp only [hok2, if_true]
      rw [hDD] at hDD2
      refine ⟨by rw [hDD2]; exact hD2, fun _ => ?_⟩
      rw [hDD2]
      obtain ⟨⟨⟨h1, h2, h3, h4, h5, h6, h7, h8⟩, h9⟩, h10⟩ := hS
      have hx : ∀ k, v.idx id k = decide (k ∈ doc.keys) := by intro k; rw [h6, hold]; rfl
      refine ⟨⟨⟨by simpa [delDoc, putIntent] using h1, ?_, by simpa [delDoc, putIntent, bound] using h3, by simpa [delDoc, putIntent] using h4, ?_, ?_, ?_, by simpa [delDoc, putIntent] using h8⟩, ?_⟩, ?_⟩
      · intro j hs
        by_cases hj : j = id
        · subst hj; simp [delDoc] at hs
        · exact h2 j (by simpa [delDoc, putIntent, hj] using hs)
      · intro j
        by_cases hj : j = id
        · subst hj; simp [delDoc, setB]
        · simp [delDoc, putIntent, setB, hj, h5]
      · intro j k
        by_cases hj : j = id
        · subst hj
          simp [delDoc, idxDel, hx, keysOf]
        · simp [delDoc, putIntent, idxDel, hj, h6]
      · intro ix hix j k hk
        simp only [delDoc, putIntent] at hix ⊢
        rw [idxDel_clean hix j k hk]
        exact h7 ix (not_mem_touchDel hix).1 j k hk
      · intro hle; simp only at hle; omega
      · simp only; omega
    · simp only [hno2, Bool.false_eq_true, if_false]
      refine ⟨?_, fun hd => ?_⟩
      · rcases hDD2 with h | h <;> rw [h]
        · exact hD1
        · rw [hDD]; exact hD2
      · simp [Volatile.dead, rem_poison] at hd
  · simp only [hno, Bool.not_false, if_true]
    rw [hw1D] at hDD
    refine ⟨?_, fun _ => hSi _ hDD⟩
    rcases hDD with h | h <;> rw [h]
    · exact hD
    · exact hD.putIntent it

end AndaVerif.Durability
