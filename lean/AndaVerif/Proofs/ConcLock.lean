import AndaVerif.Proofs.ConcIds
/-
The per-document lock stripes: `lock s = some x` exactly when call `x` is inside the critical
section (from having acquired `doc_lock(id)` to its return) of a document of stripe `s`.
-/
namespace AndaVerif.ConcColl

/-- the document whose stripe lock the call holds -/
def Thread.crit (th : Thread) : Option Nat :=
  match th.op with
  | .upd id _ _ _ =>
    if th.pc = .getWait ∨ th.pc = .intentWait ∨ th.pc = .idxU ∨ th.pc = .putWait then some id else none
  | .rm id => if th.pc = .getWait ∨ th.pc = .intentWait ∨ th.pc = .delWait then some id else none
  | _ => none

theorem stepThread_lock (sh : Shared) (t : Nat) (th : Thread) (sh' : Shared) (th' : Thread)
    (h : stepThread sh t th = some (sh', th')) :
    (th.crit = none → th'.crit = none → sh'.lock = sh.lock) ∧
    (∀ id, th.crit = none → th'.crit = some id →
      sh.lock (stripe sh id) = none ∧ sh'.lock = fun s => if s = stripe sh id then some t else sh.lock s) ∧
    (∀ id, th.crit = some id →
      (th'.crit = some id ∧ sh'.lock = sh.lock) ∨
      (th'.crit = none ∧ sh'.lock = fun s => if s = stripe sh id then none else sh.lock s)) := by
  step_cases h
  all_goals (try simp only [stripe] at *)
  all_goals (try simp [*, Thread.crit, stripe])
  all_goals (try rfl)

def LockInv (c : Cfg) : Prop :=
  ∀ (s x : Nat), c.sh.lock s = some x ↔
    ∃ (thx : Thread) (id : Nat), c.th[x]? = some thx ∧ thx.crit = some id ∧ stripe c.sh id = s

theorem LockInv.init (c : Cfg) (hl : ∀ s, c.sh.lock s = none)
    (hidle : ∀ (x : Nat) (th : Thread), c.th[x]? = some th → th.pc = .idle) : LockInv c := by
  intro s x
  simp only [hl, reduceCtorEq, false_iff]
  rintro ⟨thx, id, hx, hc, _⟩
  have := hidle x thx hx
  unfold Thread.crit at hc
  split at hc <;> simp [this] at hc

theorem LockInv.step {t : Nat} {c c' : Cfg} (inv : LockInv c) (h : step t c = some c') : LockInv c' := by
  obtain ⟨th, sh', th', hth, hst, rfl⟩ := step_elim h
  obtain ⟨_, _, _, hconf, _, _, _⟩ := stepThread_gate _ _ _ _ _ hst
  obtain ⟨h00, h01, h1⟩ := stepThread_lock _ _ _ _ _ hst
  have hself : (c.th.set t th')[t]? = some th' := getElem?_set_self' _ _ _ _ hth
  have hstr : ∀ id, stripe sh' id = stripe c.sh id := fun id => by simp [stripe, hconf]
  -- what the invariant says about `t` itself before the step
  have ht : ∀ s, c.sh.lock s = some t ↔ ∃ id, th.crit = some id ∧ stripe c.sh id = s := by
    intro s; rw [inv s t]; simp [hth]
  intro s x
  simp only [hstr]
  rcases hc : th.crit with _ | id
  · rcases hc' : th'.crit with _ | id'
    · rw [h00 hc hc']
      by_cases hx : x = t
      · subst hx
        rw [hself, ht]; simp [hc, hc']
      · rw [getElem?_set_ne' _ _ _ _ hx]; exact inv s x
    · obtain ⟨hfree, hl⟩ := h01 id' hc hc'
      rw [hl]
      by_cases hx : x = t
      · subst hx
        rw [hself]
        by_cases hs : s = stripe c.sh id'
        · simp [hs, hc']
        · simp only [hs, if_false, ht, hc, reduceCtorEq, false_and, exists_false, false_iff]
          rintro ⟨thx, id, he, hcr, hss⟩
          cases he
          rw [hc'] at hcr; cases hcr
          exact hs hss.symm
      · rw [getElem?_set_ne' _ _ _ _ hx]
        by_cases hs : s = stripe c.sh id'
        · subst hs
          simp only [if_true, Option.some.injEq]
          constructor
          · intro hh; exact absurd hh.symm hx
          · intro hex
            have := (inv _ x).mpr hex
            rw [hfree] at this; cases this
        · simp only [hs, if_false]; exact inv s x
  · rcases h1 id hc with ⟨hc', hl⟩ | ⟨hc', hl⟩
    · rw [hl]
      by_cases hx : x = t
      · subst hx
        rw [hself, ht]; simp [hc, hc']
      · rw [getElem?_set_ne' _ _ _ _ hx]; exact inv s x
    · rw [hl]
      have hheld : c.sh.lock (stripe c.sh id) = some t := (ht _).mpr ⟨id, hc, rfl⟩
      by_cases hx : x = t
      · subst hx
        rw [hself]
        constructor
        · intro hlk
          by_cases hs : s = stripe c.sh id
          · simp [hs] at hlk
          · simp only [hs, if_false] at hlk
            obtain ⟨id2, hid2, hss⟩ := (ht s).mp hlk
            rw [hc] at hid2; cases hid2; exact absurd hss.symm hs
        · rintro ⟨thx, id2, he, hcr, _⟩
          cases he; rw [hc'] at hcr; cases hcr
      · rw [getElem?_set_ne' _ _ _ _ hx]
        by_cases hs : s = stripe c.sh id
        · subst hs
          simp only [if_true, reduceCtorEq, false_iff]
          intro hex
          have := (inv _ x).mpr hex
          rw [hheld] at this
          exact hx (Option.some.inj this).symm
        · simp only [hs, if_false]; exact inv s x

/-- Mutual exclusion: two calls inside critical sections of the same stripe are the same call. -/
theorem LockInv.excl {c : Cfg} (inv : LockInv c) (x y : Nat) (thx thy : Thread) (i j : Nat)
    (hx : c.th[x]? = some thx) (hy : c.th[y]? = some thy)
    (hcx : thx.crit = some i) (hcy : thy.crit = some j) (hs : stripe c.sh i = stripe c.sh j) : x = y := by
  have h1 := (inv (stripe c.sh i) x).mpr ⟨thx, i, hx, hcx, rfl⟩
  have h2 := (inv (stripe c.sh i) y).mpr ⟨thy, j, hy, hcy, hs.symm⟩
  rw [h1] at h2
  exact Option.some.inj h2

end AndaVerif.ConcColl
