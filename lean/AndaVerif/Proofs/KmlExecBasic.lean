import AndaVerif.Model.KmlExec
/-
C16 helper lemmas, part 8: the per-field loop of the executor's `set_fields`.
-/
namespace AndaVerif.KmlExec

open AndaVerif.Gen

theorem setFieldsLoop_ok : ∀ (fs : List (String × JsonShape)) (written : List String),
    setFieldsLoop fs = .ok written → written = fs.map Prod.fst ∧ ∀ f ∈ fs, fieldRule f.1 f.2 = "ok" := by
  intro fs
  induction fs with
  | nil => intro w h; simp [setFieldsLoop] at h; subst h; simp
  | cons x xs ih =>
    obtain ⟨f, s⟩ := x
    intro w h
    simp only [setFieldsLoop] at h
    split at h
    · rename_i hok
      split at h
      · cases h
      · rename_i ws hws
        cases h
        obtain ⟨i1, i2⟩ := ih ws hws
        refine ⟨by simp [i1], ?_⟩
        intro g hg
        rcases List.mem_cons.mp hg with rfl | hg
        · exact hok
        · exact i2 g hg
    · cases h

theorem fieldRule_ok_writable {f : String} {s : JsonShape} (h : fieldRule f s = "ok") : f ∈ writableCore := by
  unfold fieldRule at h
  split at h
  · rename_i a ha
    have hm := List.mem_of_find?_eq_some ha
    have hp := List.find?_some ha
    simp only [decide_eq_true_eq] at hp
    simp only [writableCore, List.mem_map, List.mem_filter, decide_eq_true_eq]
    exact ⟨a, ⟨hm, h⟩, hp.1⟩
  · exact absurd h (by decide)

end AndaVerif.KmlExec
