/-
C15 — lemmas about the model of the JSON sub-parser (`Model/KipJson.lean`): the nesting fuel is only
a termination device (more fuel never changes an answer), and it bounds the depth of the tree.
-/
import AndaVerif.Model.KipJson

namespace AndaVerif.Proofs.KipJson
open AndaVerif.Model.KipLex AndaVerif.Model.KipJson

/-- `q` answers like `p` wherever `p` has an answer (did not run out of fuel). -/
def Ref {α : Type} (p q : List Char → R α) : Prop := ∀ s, p s ≠ .oof → q s = p s

theorem sepLoop_ref {α : Type} {p q : List Char → R α} (h : Ref p q) :
    ∀ (fuel : Nat) (acc : List α) (s : List Char),
      sepLoop p fuel acc s ≠ .oof → sepLoop q fuel acc s = sepLoop p fuel acc s := by
  intro fuel
  induction fuel with
  | zero => intro acc s hne; simp [sepLoop] at hne
  | succ f ih =>
    intro acc s hne
    simp only [sepLoop] at hne ⊢
    cases hw : wsChar ',' s with
    | none => rfl
    | some s1 =>
      simp only [hw] at hne ⊢
      cases hp : p s1 with
      | ok v rest =>
        have hq := h s1 (by rw [hp]; intro c; cases c)
        rw [hq, hp]
        simp only [hp] at hne
        exact ih _ _ hne
      | err => have hq := h s1 (by rw [hp]; intro c; cases c); rw [hq, hp]
      | fail => have hq := h s1 (by rw [hp]; intro c; cases c); rw [hq, hp]
      | oof => simp [hp] at hne

theorem sepList_ref {α : Type} {p q : List Char → R α} (h : Ref p q) : Ref (sepList p) (sepList q) := by
  intro s hne
  simp only [sepList] at hne ⊢
  cases hp : p s with
  | ok v rest =>
    have hq := h s (by rw [hp]; intro c; cases c)
    rw [hq, hp]
    simp only [hp] at hne
    exact sepLoop_ref h _ _ _ hne
  | err => have hq := h s (by rw [hp]; intro c; cases c); rw [hq, hp]
  | fail => have hq := h s (by rw [hp]; intro c; cases c); rw [hq, hp]
  | oof => simp [hp] at hne

theorem bracketed_ref {α : Type} {p q : List Char → R α} (h : Ref p q) (close : Char) :
    Ref (bracketed p close) (bracketed q close) := by
  intro s hne
  simp only [bracketed] at hne ⊢
  cases hp : sepList p (skipTrivia s) with
  | ok items rest => rw [sepList_ref h _ (by rw [hp]; intro c; cases c), hp]
  | err => rw [sepList_ref h _ (by rw [hp]; intro c; cases c), hp]
  | fail => rw [sepList_ref h _ (by rw [hp]; intro c; cases c), hp]
  | oof => simp [hp] at hne

theorem pPair_ref {p q : List Char → R Json} (h : Ref p q) : Ref (pPair p) (pPair q) := by
  intro s hne
  simp only [pPair] at hne ⊢
  cases hk : pKey s with
  | err => rfl
  | fail => rfl
  | oof => rfl
  | ok k rest =>
    simp only [hk] at hne ⊢
    cases hw : wsChar ':' rest with
    | none => rfl
    | some rest1 =>
      simp only [hw] at hne ⊢
      cases hp : p rest1 with
      | ok v r2 => rw [h rest1 (by rw [hp]; intro c; cases c), hp]
      | err => rw [h rest1 (by rw [hp]; intro c; cases c), hp]
      | fail => rw [h rest1 (by rw [hp]; intro c; cases c), hp]
      | oof => simp [hp] at hne

theorem pValueBody_ref {p q : List Char → R Json} (h : Ref p q) : Ref (pValueBody p) (pValueBody q) := by
  intro s hne
  unfold pValueBody at hne ⊢
  cases h1 : startsWith ['n', 'u', 'l', 'l'] s with
  | some r => rfl
  | none =>
    simp only [h1] at hne ⊢
    cases h2 : startsWith ['t', 'r', 'u', 'e'] s with
    | some r => rfl
    | none =>
      simp only [h2] at hne ⊢
      cases h3 : startsWith ['f', 'a', 'l', 's', 'e'] s with
      | some r => rfl
      | none =>
        simp only [h3] at hne ⊢
        cases h4 : pString s with
        | ok v r => rfl
        | fail => rfl
        | oof => rfl
        | err =>
          simp only [h4] at hne ⊢
          cases h5 : pNumber s with
          | ok v r => rfl
          | fail => rfl
          | oof => rfl
          | err =>
            simp only [h5] at hne ⊢
            cases s with
            | nil => rfl
            | cons c rest =>
              simp only at hne ⊢
              by_cases hb : c = '['
              · subst hb
                simp only [beq_self_eq_true, if_true] at hne ⊢
                cases hp : bracketed p ']' rest with
                | ok items r => rw [bracketed_ref h ']' rest (by rw [hp]; intro c; cases c), hp]
                | err => rw [bracketed_ref h ']' rest (by rw [hp]; intro c; cases c), hp]
                | fail => rw [bracketed_ref h ']' rest (by rw [hp]; intro c; cases c), hp]
                | oof => simp [hp] at hne
              · have hb' : (c == '[') = false := by simpa using hb
                simp only [hb', Bool.false_eq_true, if_false] at hne ⊢
                by_cases hc : c = '{'
                · subst hc
                  simp only [beq_self_eq_true, if_true] at hne ⊢
                  cases hp : bracketed (pPair p) '}' rest with
                  | ok items r => rw [bracketed_ref (pPair_ref h) '}' rest (by rw [hp]; intro c; cases c), hp]
                  | err => rw [bracketed_ref (pPair_ref h) '}' rest (by rw [hp]; intro c; cases c), hp]
                  | fail => rw [bracketed_ref (pPair_ref h) '}' rest (by rw [hp]; intro c; cases c), hp]
                  | oof => simp [hp] at hne
                · have hc' : (c == '{') = false := by simpa using hc
                  simp only [hc', Bool.false_eq_true, if_false]

theorem pValue_succ_ref : ∀ n, Ref (pValue n) (pValue (n + 1)) := by
  intro n
  induction n with
  | zero => intro s hne; simp [pValue] at hne
  | succ n ih =>
    show Ref (pValueBody (pValue n)) (pValueBody (pValue (n + 1)))
    exact pValueBody_ref ih

theorem pValue_mono (n k : Nat) : Ref (pValue n) (pValue (n + k)) := by
  induction k with
  | zero => intro s _; rfl
  | succ k ih =>
    intro s hne
    have h1 := ih s hne
    have h2 := pValue_succ_ref (n + k) s (by rw [h1]; exact hne)
    rw [← Nat.add_assoc] at *
    rw [h2, h1]


/-! ### the fuel bounds the depth of the tree -/

theorem sepLoop_all {α : Type} (P : α → Prop) {item : List Char → R α}
    (hi : ∀ s v r, item s = .ok v r → P v) :
    ∀ (fuel : Nat) (acc : List α) (s : List Char) (l : List α) (r : List Char),
      (∀ a ∈ acc, P a) → sepLoop item fuel acc s = .ok l r → ∀ a ∈ l, P a := by
  intro fuel
  induction fuel with
  | zero => intro acc s l r _ h; simp [sepLoop] at h
  | succ f ih =>
    intro acc s l r hacc h
    simp only [sepLoop] at h
    cases hw : wsChar ',' s with
    | none =>
      simp only [hw] at h
      injection h with h1 _; subst h1
      intro a ha; exact hacc a (by simpa using ha)
    | some s1 =>
      simp only [hw] at h
      cases hp : item s1 with
      | ok v rest =>
        simp only [hp] at h
        refine ih (v :: acc) rest l r ?_ h
        intro a ha
        rcases List.mem_cons.mp ha with rfl | ha
        · exact hi _ _ _ hp
        · exact hacc a ha
      | err =>
        simp only [hp] at h
        injection h with h1 _; subst h1
        intro a ha; exact hacc a (by simpa using ha)
      | fail => simp [hp] at h
      | oof => simp [hp] at h

theorem bracketed_all {α : Type} (P : α → Prop) {item : List Char → R α}
    (hi : ∀ s v r, item s = .ok v r → P v) (close : Char) (s : List Char) (l : List α) (r : List Char)
    (h : bracketed item close s = .ok l r) : ∀ a ∈ l, P a := by
  simp only [bracketed, sepList] at h
  cases hp : item (skipTrivia s) with
  | ok v rest =>
    simp only [hp] at h
    cases hl : sepLoop item (rest.length + 1) [v] rest with
    | ok items rest' =>
      simp only [hl] at h
      have hall := sepLoop_all P hi _ _ _ _ _ (by intro a ha; simp at ha; subst ha; exact hi _ _ _ hp) hl
      split at h
      · split at h
        · injection h with h1 _; subst h1; exact hall
        · cases h
      · cases h
    | err => simp [hl] at h
    | fail => simp [hl] at h
    | oof => simp [hl] at h
  | err =>
    simp only [hp] at h
    split at h
    · split at h
      · injection h with h1 _; subst h1; intro a ha; cases ha
      · cases h
    · cases h
  | fail => simp [hp] at h
  | oof => simp [hp] at h

theorem depthList_le (d : Nat) : ∀ (items : List Json), (∀ v ∈ items, v.depth ≤ d) →
    Json.depth.depthList items ≤ d := by
  intro items
  induction items with
  | nil => intro _; simp [Json.depth.depthList]
  | cons v vs ih =>
    intro h
    simp only [Json.depth.depthList]
    exact Nat.max_le.mpr ⟨h v (by simp), ih (fun w hw => h w (by simp [hw]))⟩

theorem depthFields_le (d : Nat) : ∀ (fs : List (List Char × Json)), (∀ p ∈ fs, p.2.depth ≤ d) →
    Json.depth.depthFields fs ≤ d := by
  intro fs
  induction fs with
  | nil => intro _; simp [Json.depth.depthFields]
  | cons p ps ih =>
    intro h
    obtain ⟨k, v⟩ := p
    simp only [Json.depth.depthFields]
    exact Nat.max_le.mpr ⟨h (k, v) (by simp), ih (fun w hw => h w (by simp [hw]))⟩

theorem numValue_depth {lx : NumLex} {v : Json} (h : numValue lx = some v) : v.depth = 0 := by
  unfold numValue at h
  split at h
  · cases h
  · split at h
    · split at h
      · injection h with h; subst h; simp [Json.depth]
      · cases h
    · split at h
      · cases h
      · injection h with h; subst h; simp [Json.depth]

theorem pNumber_depth {s : List Char} {v : Json} {r : List Char} (h : pNumber s = .ok v r) :
    v.depth = 0 := by
  unfold pNumber at h
  cases hr : recognizeFloat s with
  | ok lx rest =>
    simp only [hr] at h
    cases hn : numValue lx with
    | some w => simp only [hn] at h; injection h with h1 _; subst h1; exact numValue_depth hn
    | none => simp [hn] at h
  | err => simp [hr] at h
  | fail => simp [hr] at h
  | oof => simp [hr] at h

theorem pPair_all (P : Json → Prop) {pv : List Char → R Json} (hi : ∀ s v r, pv s = .ok v r → P v)
    (s : List Char) (kv : List Char × Json) (r : List Char) (h : pPair pv s = .ok kv r) : P kv.2 := by
  simp only [pPair] at h
  cases hk : pKey s with
  | ok k rest =>
    simp only [hk] at h
    cases hw : wsChar ':' rest with
    | none => simp [hw] at h
    | some rest1 =>
      simp only [hw] at h
      cases hp : pv rest1 with
      | ok v r2 =>
        simp only [hp] at h
        injection h with h1 _; subst h1
        exact hi _ _ _ hp
      | err => simp [hp] at h
      | fail => simp [hp] at h
      | oof => simp [hp] at h
  | err => simp [hk] at h
  | fail => simp [hk] at h
  | oof => simp [hk] at h

theorem pValueBody_depth (d : Nat) {pv : List Char → R Json}
    (hi : ∀ s v r, pv s = .ok v r → v.depth ≤ d) (s : List Char) (v : Json) (r : List Char)
    (h : pValueBody pv s = .ok v r) : v.depth ≤ d + 1 := by
  unfold pValueBody at h
  cases h1 : startsWith ['n', 'u', 'l', 'l'] s with
  | some r1 => simp only [h1] at h; injection h with hv _; subst hv; simp [Json.depth]
  | none =>
    simp only [h1] at h
    cases h2 : startsWith ['t', 'r', 'u', 'e'] s with
    | some r1 => simp only [h2] at h; injection h with hv _; subst hv; simp [Json.depth]
    | none =>
      simp only [h2] at h
      cases h3 : startsWith ['f', 'a', 'l', 's', 'e'] s with
      | some r1 => simp only [h3] at h; injection h with hv _; subst hv; simp [Json.depth]
      | none =>
        simp only [h3] at h
        cases h4 : pString s with
        | ok w r1 => simp only [h4] at h; injection h with hv _; subst hv; simp [Json.depth]
        | fail => simp [h4] at h
        | oof => simp [h4] at h
        | err =>
          simp only [h4] at h
          cases h5 : pNumber s with
          | ok w r1 =>
            simp only [h5] at h; injection h with hv _; subst hv
            rw [pNumber_depth h5]; omega
          | fail => simp [h5] at h
          | oof => simp [h5] at h
          | err =>
            simp only [h5] at h
            cases s with
            | nil => simp at h
            | cons c rest =>
              simp only at h
              by_cases hb : c = '['
              · subst hb
                simp only [beq_self_eq_true, if_true] at h
                cases hp : bracketed pv ']' rest with
                | ok items r1 =>
                  simp only [hp] at h; injection h with hv _; subst hv
                  have := depthList_le d items (bracketed_all (fun v => v.depth ≤ d) hi ']' rest items r1 hp)
                  simp only [Json.depth]; omega
                | err => simp [hp] at h
                | fail => simp [hp] at h
                | oof => simp [hp] at h
              · have hb' : (c == '[') = false := by simpa using hb
                simp only [hb', Bool.false_eq_true, if_false] at h
                by_cases hc : c = '{'
                · subst hc
                  simp only [beq_self_eq_true, if_true] at h
                  cases hp : bracketed (pPair pv) '}' rest with
                  | ok fields r1 =>
                    simp only [hp] at h
                    split at h
                    · cases h
                    · injection h with hv _; subst hv
                      have hall := bracketed_all (fun (p : List Char × Json) => p.2.depth ≤ d)
                        (fun s kv r hkv => pPair_all (fun v => v.depth ≤ d) hi s kv r hkv) '}' rest fields r1 hp
                      have := depthFields_le d fields hall
                      simp only [Json.depth]; omega
                  | err => simp [hp] at h
                  | fail => simp [hp] at h
                  | oof => simp [hp] at h
                · have hc' : (c == '{') = false := by simpa using hc
                  simp [hc'] at h

theorem pValue_depth : ∀ (n : Nat) (s : List Char) (v : Json) (r : List Char),
    pValue n s = .ok v r → v.depth ≤ n := by
  intro n
  induction n with
  | zero => intro s v r h; simp [pValue] at h
  | succ n ih =>
    intro s v r h
    exact pValueBody_depth n ih s v r h

end AndaVerif.Proofs.KipJson
