import AndaVerif.Proofs.ConcLinB
/-
Linearization, part C: the remaining aspect lemmas (pending views, the id bitmap versus the
objects, predicted return values).
-/
namespace AndaVerif.ConcColl

/-- the call's pending effect: the document the specification already shows differently from the
backend — between the call's linearization point and its backend write -/
def Thread.view (th : Thread) : Option (Nat × Option Doc) :=
  match th.op with
  | .add d => if th.pc = .createWait then some (th.id, some d) else none
  | .upd id _ _ _ => if th.pc = .putWait then some (id, some th.new) else none
  | .rm id => if th.pc = .delWait then some (id, none) else none
  | _ => none

/-- the return value a call that passed its linearization point is going to produce -/
def Thread.expected (th : Thread) : Option Res :=
  match th.op with
  | .add _ => if th.pc = .createWait then some (.added th.id) else none
  | .upd _ _ _ _ => if th.pc = .putWait then some (.doc th.new) else none
  | .rm _ => if th.pc = .delWait then some (.doc (th.old.getD default)) else none
  | .ext _ _ => if th.pc = .extWait ∨ th.pc = .extPut then some .ok else none
  | _ => none

theorem mem_insertSorted (x : Nat) (l : List Nat) (i : Nat) : i ∈ insertSorted x l ↔ i = x ∨ i ∈ l := by
  induction l with
  | nil => simp [insertSorted]
  | cons y ys ih =>
    unfold insertSorted
    split
    · simp
    · split
      · next h => subst h; simp
      · simp [ih]; constructor
        · rintro (h | h | h) <;> simp [h]
        · rintro (h | h | h) <;> simp [h]

theorem stepThread_idxU (sh : Shared) (t : Nat) (th : Thread) (sh' : Shared) (th' : Thread)
    (h : stepThread sh t th = some (sh', th')) (hc : sh.conf.fine = false) : th'.pc ≠ .idxU := by
  step_cases h
  all_goals simp_all

theorem stepThread_idsAbs (sh : Shared) (t : Nat) (th : Thread) (sh' : Shared) (th' : Thread)
    (h : stepThread sh t th = some (sh', th')) (habs : ∀ i, i ∈ sh.ids ↔ sh.store i ≠ none) (i : Nat) :
    i ∈ sh'.ids ↔ sh'.store i ≠ none := by
  have hi := habs i
  step_cases h
  all_goals (try simp only [leave_ids, leave_store, unlockDoc_ids, unlockDoc_store, linS_ids, linS_store,
    enter_ids, enter_store, unlockGate_ids, unlockGate_store, rmBitmap_ids, rmBitmap_store, rmIndexes_ids,
    rmIndexes_store, addRollback_ids, addRollback_store, updRollback_ids, updRollback_store, lockDoc_ids, lockDoc_store])
  all_goals (try exact hi)
  all_goals (try simp only [mem_insertSorted, List.mem_filter, bne_iff_ne, ne_eq])
  all_goals grind

theorem stepThread_view (sh : Shared) (t : Nat) (th : Thread) (sh' : Shared) (th' : Thread)
    (h : stepThread sh t th = some (sh', th')) (hc : sh.conf.fine = false) (hnoU : th.pc ≠ .idxU) :
    (th.view = none → th'.view = none → sh'.gdocs = sh.gdocs ∧ sh'.store = sh.store) ∧
    (∀ id v, th.view = none → th'.view = some (id, v) →
      sh'.gdocs = setDoc sh.gdocs id v ∧ sh'.store = sh.store) ∧
    (∀ id v, th.view = some (id, v) →
      th'.view = none ∧ sh'.gdocs = sh.gdocs ∧ (∀ i, i ≠ id → sh'.store i = sh.store i) ∧
      ((sh'.store id).map (·.1) = v ∨ th'.res = some (.err .precond) ∨
        (th.isAdd = true ∧ th.pc = .createWait ∧ sh.store th.id ≠ none))) := by
  step_cases h
  all_goals (try simp_all [Thread.view, Thread.isAdd])
  all_goals (try rfl)
  all_goals (try (simp only [setDoc]; grind))

theorem stepThread_pred (sh : Shared) (t : Nat) (th : Thread) (sh' : Shared) (th' : Thread)
    (h : stepThread sh t th = some (sh', th')) (hc : sh.conf.fine = false) (hnoU : th.pc ≠ .idxU)
    (hexp : th.pred = th.expected) :
    (th'.pc ≠ .done → th'.pred = th'.expected) ∧
    (th'.pc = .done → (th.isMut = true ∨ th.isFlush = true) →
      th'.pred = th'.res ∨ th'.res = some (.err .precond) ∨
        (th.isAdd = true ∧ th.pc = .createWait ∧ sh.store th.id ≠ none)) ∧
    (sh'.glog ≠ sh.glog → th.expected = none) := by
  step_cases h
  all_goals (try simp_all [Thread.expected, Thread.isAdd, Thread.isMut, Thread.isFlush, flushResult])

theorem stepThread_pids (sh : Shared) (t : Nat) (th : Thread) (sh' : Shared) (th' : Thread)
    (h : stepThread sh t th = some (sh', th')) (hop : th.op = .flush) :
    (th'.pids = th.pids ∧ th'.f3 = th.f3) ∨ th'.f3 = true := by
  step_cases h
  all_goals simp_all

theorem stepThread_doneRes (sh : Shared) (t : Nat) (th : Thread) (sh' : Shared) (th' : Thread)
    (h : stepThread sh t th = some (sh', th')) :
    (th'.pc = .done → th'.res ≠ none) ∧ (th.isMut = false → th.isFlush = false → th'.pred = th.pred) := by
  step_cases h
  all_goals simp_all [Thread.isMut, Thread.isFlush]

def Pc.isFlushPc (pc : Pc) : Bool :=
  match pc with
  | .idle | .fIdx | .fMeta | .fIds | .fSto | .fClr | .done => true
  | _ => false

theorem stepThread_flushPc (sh : Shared) (t : Nat) (th : Thread) (sh' : Shared) (th' : Thread)
    (h : stepThread sh t th = some (sh', th')) (hop : th.op = .flush) : th'.pc.isFlushPc = true := by
  step_cases h
  all_goals simp_all [Pc.isFlushPc]

end AndaVerif.ConcColl
