import AndaVerif.Proofs.DurMachine
/-
C01 helper lemmas, part 7: what the property theorems need beyond the invariant — which document
object an operation may change (and that an acknowledged one did), monotonicity of the persisted
`max_document_id`, the behaviour of a world without faults, and the fixpoint of recovery.
-/
namespace AndaVerif.Durability
open AndaVerif.Gen.CollectionOrder

/-! ### the document object an operation writes -/

/-- the one document-object effect an operation has when its document step lands -/
def effect (s : State) : Op → Option (Nat × Option Doc)
  | .add d => s.h.map (fun v => (v.maxId + 1, some d))
  | .update id p => (s.w.D.docs id).map (fun old => (id, some (applyPatch old p)))
  | .remove id => some (id, none)
  | _ => none

/-- frame of add/update/remove: they touch no durable piece but documents, watermark, intents -/
structure OpFrame (D D' : Durable) : Prop where
  ids : D'.ids = D.ids
  metaMax : D'.metaMax = D.metaMax
  cp : D'.cp = D.cp
  idx : D'.idx = D.idx

theorem OpFrame.refl (D : Durable) : OpFrame D D := ⟨rfl, rfl, rfl, rfl⟩

theorem attempt_docs_cases (w : World) (e : Ev) (f : Durable → Durable) :
    (w.attempt e f).1.D = w.D ∨ (w.attempt e f).1.D = f w.D := by
  rcases attempt_cases w e f with ⟨_, h⟩ | ⟨_, h | h⟩
  · exact Or.inr h
  · exact Or.inl h
  · exact Or.inr h

/-- `add`: each document is untouched or it is the new id holding the complete new document; an
acknowledged add landed. (No assumption on the state.) -/
theorem addOp_docs (w : World) (v : Volatile) (d : Doc) :
    OpFrame w.D (addOp w v d).1.D ∧
    (∀ j, (addOp w v d).1.D.docs j = w.D.docs j ∨ (j = v.maxId + 1 ∧ (addOp w v d).1.D.docs j = some d ∧ w.D.docs j = none)) ∧
    (∀ id, (addOp w v d).2.2 = .okId id → id = v.maxId + 1 ∧ (addOp w v d).1.D.docs id = some d ∧ v.dead = false) := by
  have hcreate : ∀ (w : World) (v : Volatile) (id : Nat),
      OpFrame w.D (addCreate w v id d).1.D ∧
      (∀ j, (addCreate w v id d).1.D.docs j = w.D.docs j ∨ (j = id ∧ (addCreate w v id d).1.D.docs j = some d ∧ w.D.docs j = none)) ∧
      (∀ i, (addCreate w v id d).2.2 = .okId i → i = id ∧ (addCreate w v id d).1.D.docs id = some d) := by
    intro w v id
    unfold addCreate
    dsimp only
    split
    · exact ⟨OpFrame.refl _, fun j => Or.inl rfl, fun i h => by cases h⟩
    · rename_i hnone
      have hnone : w.D.docs id = none := by simpa using hnone
      rcases attempt_cases w (.doc id) (putDoc id d) with ⟨hok, hDD⟩ | ⟨hno, hDD⟩
      · simp only [hok, if_true]
        rw [hDD]
        refine ⟨⟨rfl, rfl, rfl, rfl⟩, ?_, ?_⟩
        · intro j
          by_cases hj : j = id
          · exact Or.inr ⟨hj, by simp [putDoc, hj], by rw [hj]; exact hnone⟩
          · exact Or.inl (by simp [putDoc, hj])
        · intro i h
          have : id = i := by simpa using h
          exact ⟨this.symm, by simp [putDoc]⟩
      · simp only [hno, Bool.false_eq_true, if_false]
        have hfin : ∀ D2, (D2 = (w.attempt (.doc id) (putDoc id d)).1.D ∨ D2 = delDoc id (w.attempt (.doc id) (putDoc id d)).1.D) →
            OpFrame w.D D2 ∧ ∀ j, D2.docs j = w.D.docs j ∨ (j = id ∧ D2.docs j = some d ∧ w.D.docs j = none) := by
          intro D2 h2
          rcases h2 with h2 | h2 <;> rcases hDD with h1 | h1 <;> rw [h2, h1]
          · exact ⟨OpFrame.refl _, fun j => Or.inl rfl⟩
          · refine ⟨⟨rfl, rfl, rfl, rfl⟩, fun j => ?_⟩
            by_cases hj : j = id
            · exact Or.inr ⟨hj, by simp [putDoc, hj], by rw [hj]; exact hnone⟩
            · exact Or.inl (by simp [putDoc, hj])
          · rw [delDoc_absent hnone]; exact ⟨OpFrame.refl _, fun j => Or.inl rfl⟩
          · rw [delDoc_putDoc_fresh d hnone]; exact ⟨OpFrame.refl _, fun j => Or.inl rfl⟩
        split
        · obtain ⟨a, b⟩ := hfin _ (attempt_docs_cases _ (.del id) (delDoc id))
          exact ⟨a, b, fun i h => by cases h⟩
        · obtain ⟨a, b⟩ := hfin _ (attempt_docs_cases _ (.del id) (delDoc id))
          exact ⟨a, b, fun i h => by cases h⟩
  unfold addOp
  by_cases hdead : v.dead = true
  · simp only [hdead, if_true]
    exact ⟨OpFrame.refl _, fun j => Or.inl (by triv), fun i h => by cases h⟩
  have hdead : v.dead = false := by simpa using hdead
  simp only [hdead, Bool.false_eq_true, if_false]
  split
  · obtain ⟨a, b, c⟩ := hcreate w { v with maxId := v.maxId + 1 } (v.maxId + 1)
    exact ⟨a, b, fun i h => ⟨(c i h).1, by rw [(c i h).1]; exact (c i h).2, by triv⟩⟩
  · rcases attempt_cases w (.wm (v.maxId + 1 + stride)) (putWm (v.maxId + 1 + stride)) with ⟨hok, hDD⟩ | ⟨hno, hDD⟩
    · simp only [hok, if_true]
      obtain ⟨a, b, c⟩ := hcreate (w.attempt (.wm (v.maxId + 1 + stride)) (putWm (v.maxId + 1 + stride))).1
        { v with maxId := v.maxId + 1, wm := max v.wm (v.maxId + 1 + stride) } (v.maxId + 1)
      rw [hDD] at a b
      refine ⟨⟨a.ids, a.metaMax, a.cp, a.idx⟩, b, fun i h => ⟨(c i h).1, by rw [(c i h).1]; exact (c i h).2, by triv⟩⟩
    · simp only [hno, Bool.false_eq_true, if_false]
      refine ⟨?_, ?_, fun i h => by cases h⟩ <;> rcases hDD with h | h <;> rw [h]
      · exact OpFrame.refl _
      · exact ⟨rfl, rfl, rfl, rfl⟩
      · exact fun j => Or.inl rfl
      · exact fun j => Or.inl rfl

theorem updateOp_docs (w : World) (v : Volatile) (id : Nat) (p : Patch) :
    OpFrame w.D (updateOp w v id p).1.D ∧
    (∀ j, (updateOp w v id p).1.D.docs j = w.D.docs j ∨
      (j = id ∧ ∃ old, w.D.docs id = some old ∧ (updateOp w v id p).1.D.docs j = some (applyPatch old p))) ∧
    ((updateOp w v id p).2.2 = .ok →
      ∃ old, w.D.docs id = some old ∧ (updateOp w v id p).1.D.docs id = some (applyPatch old p)) := by
  unfold updateOp
  split
  · exact ⟨OpFrame.refl _, fun j => Or.inl rfl, fun h => by cases h⟩
  split
  · exact ⟨OpFrame.refl _, fun j => Or.inl rfl, fun h => by cases h⟩
  split
  · exact ⟨OpFrame.refl _, fun j => Or.inl rfl, fun h => by cases h⟩
  split
  · exact ⟨OpFrame.refl _, fun j => Or.inl rfl, fun h => by cases h⟩
  rename_i old hold
  dsimp only
  generalize hit : ({ seq := w.clk, id := id, prev := some old, next := some (applyPatch old p) } : Intent) = it
  generalize hw1 : ({ w with clk := w.clk + 1 } : World) = w1
  have hw1D : w1.D = w.D := by subst hw1; rfl
  have h1 : ∀ D1, (D1 = w.D ∨ D1 = putIntent it w.D) → OpFrame w.D D1 ∧ D1.docs = w.D.docs := by
    rintro D1 (h | h) <;> subst h
    · exact ⟨OpFrame.refl _, rfl⟩
    · exact ⟨⟨rfl, rfl, rfl, rfl⟩, rfl⟩
  have hc1 := attempt_docs_cases w1 (.intentPut id) (putIntent it)
  rw [hw1D] at hc1
  obtain ⟨fr1, dc1⟩ := h1 _ hc1
  split
  · exact ⟨fr1, fun j => Or.inl (by rw [dc1]), fun h => by cases h⟩
  · rcases attempt_cases (w1.attempt (.intentPut id) (putIntent it)).1 (.doc id) (putDoc id (applyPatch old p)) with ⟨hok, hDD⟩ | ⟨hno, hDD⟩
    · simp only [hok, if_true]
      rw [hDD]
      refine ⟨⟨fr1.ids, fr1.metaMax, fr1.cp, fr1.idx⟩, ?_, fun _ => ⟨old, hold, by simp [putDoc]⟩⟩
      intro j
      by_cases hj : j = id
      · exact Or.inr ⟨hj, old, hold, by simp [putDoc, hj]⟩
      · exact Or.inl (by simp [putDoc, hj, dc1])
    · simp only [hno, Bool.false_eq_true, if_false]
      refine ⟨?_, ?_, fun h => by cases h⟩ <;> rcases hDD with h | h <;> rw [h]
      · exact fr1
      · exact ⟨fr1.ids, fr1.metaMax, fr1.cp, fr1.idx⟩
      · exact fun j => Or.inl (by rw [dc1])
      · intro j
        by_cases hj : j = id
        · exact Or.inr ⟨hj, old, hold, by simp [putDoc, hj]⟩
        · exact Or.inl (by simp [putDoc, hj, dc1])

theorem removeOp_docs (w : World) (v : Volatile) (id : Nat) :
    OpFrame w.D (removeOp w v id).1.D ∧
    (∀ j, (removeOp w v id).1.D.docs j = w.D.docs j ∨ (j = id ∧ (removeOp w v id).1.D.docs j = none)) ∧
    (∀ x, (removeOp w v id).2.2 = .okDoc x → v.ids id = true → (removeOp w v id).1.D.docs id = none) := by
  unfold removeOp
  split
  · exact ⟨OpFrame.refl _, fun j => Or.inl rfl, fun x h => by cases h⟩
  split
  · rename_i hids
    exact ⟨OpFrame.refl _, fun j => Or.inl rfl, fun x _ hi => by simp [hi] at hids⟩
  split
  · exact ⟨OpFrame.refl _, fun j => Or.inl rfl, fun x h => by cases h⟩
  split
  · rename_i hnone
    exact ⟨OpFrame.refl _, fun j => Or.inl rfl, fun x _ _ => hnone⟩
  rename_i doc hold
  dsimp only
  generalize hit : ({ seq := w.clk, id := id, prev := some doc, next := none } : Intent) = it
  generalize hw1 : ({ w with clk := w.clk + 1 } : World) = w1
  have hw1D : w1.D = w.D := by subst hw1; rfl
  have h1 : ∀ D1, (D1 = w.D ∨ D1 = putIntent it w.D) → OpFrame w.D D1 ∧ D1.docs = w.D.docs := by
    rintro D1 (h | h) <;> subst h
    · exact ⟨OpFrame.refl _, rfl⟩
    · exact ⟨⟨rfl, rfl, rfl, rfl⟩, rfl⟩
  have hc1 := attempt_docs_cases w1 (.intentPut id) (putIntent it)
  rw [hw1D] at hc1
  obtain ⟨fr1, dc1⟩ := h1 _ hc1
  split
  · exact ⟨fr1, fun j => Or.inl (by rw [dc1]), fun x h => by cases h⟩
  · rcases attempt_cases (w1.attempt (.intentPut id) (putIntent it)).1 (.del id) (delDoc id) with ⟨hok, hDD⟩ | ⟨hno, hDD⟩
    · simp only [hok, if_true]
      rw [hDD]
      refine ⟨⟨fr1.ids, fr1.metaMax, fr1.cp, fr1.idx⟩, ?_, fun _ _ _ => by simp [delDoc]⟩
      intro j
      by_cases hj : j = id
      · exact Or.inr ⟨hj, by simp [delDoc, hj]⟩
      · exact Or.inl (by simp [delDoc, hj, dc1])
    · simp only [hno, Bool.false_eq_true, if_false]
      refine ⟨?_, ?_, fun x h => by cases h⟩ <;> rcases hDD with h | h <;> rw [h]
      · exact fr1
      · exact ⟨fr1.ids, fr1.metaMax, fr1.cp, fr1.idx⟩
      · exact fun j => Or.inl (by rw [dc1])
      · intro j
        by_cases hj : j = id
        · exact Or.inr ⟨hj, by simp [delDoc, hj]⟩
        · exact Or.inl (by simp [delDoc, hj, dc1])

/-! ### flush / close / reopen never touch a document object; `max_document_id` never goes back -/

theorem flushOp_frame {w : World} {v : Volatile} (now : Nat) (h : Good w.D v) :
    FlushFrame w.D (flushOp w v now).1.D := by
  unfold flushOp
  by_cases hdead : v.dead = true
  · rw [if_pos hdead]; exact ⟨rfl, Nat.le_refl _, rfl⟩
  have hdead : v.dead = false := by simpa using hdead
  rw [if_neg (by simp [hdead])]
  obtain ⟨_, g2, _⟩ := flushInner_good (w := { w with preFail := false }) now h.1 (h.2 hdead)
  dsimp only
  cases hr : (flushInner { w with preFail := false } v now).2.2 <;> exact g2

theorem closeOp_frame {w : World} {v : Volatile} (now : Nat) (h : Good w.D v) :
    FlushFrame w.D (closeOp w v now).1.D := by
  unfold closeOp
  by_cases hp : v.poisoned = true
  · rw [if_pos hp]; exact ⟨rfl, Nat.le_refl _, rfl⟩
  rw [if_neg hp]
  have hp : v.poisoned = false := by simpa using hp
  by_cases hc : v.closed = true
  · rw [if_pos hc]; exact ⟨rfl, Nat.le_refl _, rfl⟩
  rw [if_neg hc]
  have hc : v.closed = false := by simpa using hc
  obtain ⟨_, g2, _⟩ := flushInner_good (w := { w with preFail := false }) now h.1 (h.2 (by simp [Volatile.dead, hp, hc]))
  dsimp only
  cases hr : (flushInner { w with preFail := false } v now).2.2 <;> exact g2

theorem saveExtOp_frame {w : World} {v : Volatile} (h : Good w.D v) :
    FlushFrame w.D (saveExtOp w v).1.D := by
  unfold saveExtOp
  by_cases hdead : v.dead = true
  · rw [if_pos hdead]; exact ⟨rfl, Nat.le_refl _, rfl⟩
  have hdead : v.dead = false := by simpa using hdead
  rw [if_neg (by simp [hdead])]
  have hge := (h.2 hdead).max_ge_meta
  dsimp only
  by_cases hst : w.metaStale = true
  · rw [if_pos hst]; simp only [reject_D]; exact ⟨rfl, Nat.le_refl _, rfl⟩
  rw [if_neg hst]
  have hfin : ∀ D', (D' = w.D ∨ D' = putMeta v.maxId (v.version + 1) w.D) → FlushFrame w.D D' := by
    rintro D' (h | h) <;> subst h
    · exact ⟨rfl, Nat.le_refl _, rfl⟩
    · exact ⟨rfl, hge, rfl⟩
  split
  · exact hfin _ (attempt_docs_cases w .metaPut _)
  · exact hfin _ (attempt_docs_cases w .metaPut _)

theorem compactOp_frame (w : World) (v : Volatile) (ix : Nat) (c d : Bool) :
    FlushFrame w.D (compactOp w v ix c d).1.D := by
  unfold compactOp
  split
  · exact ⟨rfl, Nat.le_refl _, rfl⟩
  split
  · exact ⟨rfl, Nat.le_refl _, rfl⟩
  dsimp only
  split
  · simp only [reject_D]; exact ⟨rfl, Nat.le_refl _, rfl⟩
  · have hfin : ∀ D', (D' = w.D ∨ D' = commitIdx ix v.idx w.D) → FlushFrame w.D D' := by
      rintro D' (h | h) <;> subst h <;> exact ⟨rfl, Nat.le_refl _, rfl⟩
    split
    · exact hfin _ (attempt_docs_cases ({ w with preFail := false } : World) (.ixc ix) _)
    · exact hfin _ (attempt_docs_cases ({ w with preFail := false } : World) (.ixc ix) _)

theorem reopenOp_frame {w : World} (now : Nat) (hD : DurInv w.D) : FlushFrame w.D (reopenOp w now).1.D := by
  unfold reopenOp
  dsimp only
  obtain ⟨_, g2, _⟩ := flushInner_good (w := { w with off := false, metaStale := false, preFail := false, ixStale := [] }) now hD (recoverV_good hD).sync
  cases hf : (flushInner { w with off := false, metaStale := false, preFail := false, ixStale := [] } (recoverV w.D) now).2.2 <;> simp only [hf] <;> exact g2

/-- every step leaves each document object as it was, or writes exactly the operation's effect -/
theorem step_docs {s : State} (op : Op) (h : Inv s) (j : Nat) :
    (step s op).1.w.D.docs j = s.w.D.docs j ∨
      ∃ x, effect s op = some (j, x) ∧ (step s op).1.w.D.docs j = x := by
  cases op with
  | add d =>
    simp only [step, lift]
    cases hh : s.h with
    | none => exact Or.inl rfl
    | some v =>
      rcases (addOp_docs s.w v d).2.1 j with h1 | ⟨h1, h2, _⟩
      · exact Or.inl h1
      · exact Or.inr ⟨some d, by simp [effect, hh, h1], h2⟩
  | update id p =>
    simp only [step, lift]
    cases hh : s.h with
    | none => exact Or.inl rfl
    | some v =>
      rcases (updateOp_docs s.w v id p).2.1 j with h1 | ⟨h1, old, h2, h3⟩
      · exact Or.inl h1
      · exact Or.inr ⟨some (applyPatch old p), by simp [effect, h2, h1], h3⟩
  | remove id =>
    simp only [step, lift]
    cases hh : s.h with
    | none => exact Or.inl rfl
    | some v =>
      rcases (removeOp_docs s.w v id).2.1 j with h1 | ⟨h1, h2⟩
      · exact Or.inl h1
      · exact Or.inr ⟨none, by simp [effect, h1], h2⟩
  | flush now =>
    simp only [step, lift]
    cases hh : s.h with
    | none => exact Or.inl rfl
    | some v => exact Or.inl (by rw [(flushOp_frame now ⟨h.1, fun hd => h.2 v hh hd⟩).docs])
  | close now =>
    simp only [step, lift]
    cases hh : s.h with
    | none => exact Or.inl rfl
    | some v => exact Or.inl (by rw [(closeOp_frame now ⟨h.1, fun hd => h.2 v hh hd⟩).docs])
  | saveExt =>
    simp only [step, lift]
    cases hh : s.h with
    | none => exact Or.inl rfl
    | some v => exact Or.inl (by rw [(saveExtOp_frame ⟨h.1, fun hd => h.2 v hh hd⟩).docs])
  | compact ix c d =>
    simp only [step, lift]
    cases hh : s.h with
    | none => exact Or.inl rfl
    | some v => exact Or.inl (by rw [(compactOp_frame s.w v ix c d).docs])
  | reopen now => exact Or.inl (by simp only [step]; rw [(reopenOp_frame now h.1).docs])
  | arm l => exact Or.inl rfl

theorem step_metaMax_mono {s : State} (op : Op) (h : Inv s) : s.w.D.metaMax ≤ (step s op).1.w.D.metaMax := by
  cases op with
  | add d =>
    simp only [step, lift]
    cases hh : s.h with
    | none => exact Nat.le_refl _
    | some v => simp only; rw [(addOp_docs s.w v d).1.metaMax]; exact Nat.le_refl _
  | update id p =>
    simp only [step, lift]
    cases hh : s.h with
    | none => exact Nat.le_refl _
    | some v => simp only; rw [(updateOp_docs s.w v id p).1.metaMax]; exact Nat.le_refl _
  | remove id =>
    simp only [step, lift]
    cases hh : s.h with
    | none => exact Nat.le_refl _
    | some v => simp only; rw [(removeOp_docs s.w v id).1.metaMax]; exact Nat.le_refl _
  | flush now =>
    simp only [step, lift]
    cases hh : s.h with
    | none => exact Nat.le_refl _
    | some v => exact (flushOp_frame now ⟨h.1, fun hd => h.2 v hh hd⟩).metaMax
  | close now =>
    simp only [step, lift]
    cases hh : s.h with
    | none => exact Nat.le_refl _
    | some v => exact (closeOp_frame now ⟨h.1, fun hd => h.2 v hh hd⟩).metaMax
  | saveExt =>
    simp only [step, lift]
    cases hh : s.h with
    | none => exact Nat.le_refl _
    | some v => exact (saveExtOp_frame ⟨h.1, fun hd => h.2 v hh hd⟩).metaMax
  | compact ix c d =>
    simp only [step, lift]
    cases hh : s.h with
    | none => exact Nat.le_refl _
    | some v => exact (compactOp_frame s.w v ix c d).metaMax
  | reopen now => simp only [step]; exact (reopenOp_frame now h.1).metaMax
  | arm l => exact Nat.le_refl _

theorem run_metaMax_mono {s : State} (ops : List Op) (h : Inv s) : s.w.D.metaMax ≤ (run s ops).w.D.metaMax := by
  induction ops generalizing s with
  | nil => exact Nat.le_refl _
  | cons op r ih => exact Nat.le_trans (step_metaMax_mono op h) (ih (step_inv op h))

/-- an acknowledged flush leaves bitmap and committed indexes exactly describing the documents,
all of them at or below the persisted `max_document_id` -/
theorem flushOp_ok_settled {w : World} {v : Volatile} {now : Nat} {b : Bool} (h : Good w.D v)
    (hok : (flushOp w v now).2.2 = .okBool b) : Settled (flushOp w v now).1.D := by
  unfold flushOp at hok ⊢
  by_cases hdead : v.dead = true
  · simp [hdead] at hok
  have hdead : v.dead = false := by simpa using hdead
  rw [if_neg (by simp [hdead])] at hok ⊢
  obtain ⟨_, _, g3⟩ := flushInner_good (w := { w with preFail := false }) now h.1 (h.2 hdead)
  dsimp only at hok ⊢
  cases hr : (flushInner { w with preFail := false } v now).2.2 with
  | none => simp [hr, failOut] at hok; split at hok <;> cases hok
  | some x => simp only [hr]; exact (g3 (by simp [hr])).settled

/-! ### a successful flush did not meet a power loss -/

theorem attempt_ok_off {w : World} {e : Ev} {f : Durable → Durable} (h : (w.attempt e f).2 = true) :
    (w.attempt e f).1.off = w.off := by
  unfold World.attempt at h ⊢
  split
  · rfl
  · split <;> simp_all

theorem attemptAll_ok_off : ∀ (fs : List (Ev × (Durable → Durable))) {w : World},
    (w.attemptAll fs).2 = true → (w.attemptAll fs).1.off = w.off := by
  intro fs
  induction fs with
  | nil => intro w _; rfl
  | cons ef r ih =>
    intro w h
    obtain ⟨e, f⟩ := ef
    simp only [World.attemptAll] at h ⊢
    split at h
    · rename_i hok
      simp only [hok, if_true]
      rw [ih h, attempt_ok_off hok]
    · cases h

theorem flushStep_ok_off (now : Nat) (pm pi pu : Bool) (c : FlushCtx) (s : FlushStep)
    (h : (flushStep now pm pi pu c s).failed = false) :
    (flushStep now pm pi pu c s).w.off = c.w.off ∧ c.failed = false := by
  unfold flushStep at h ⊢
  by_cases hf : c.failed = true
  · simp [hf] at h
  have hf : c.failed = false := by simpa using hf
  simp only [hf, Bool.false_eq_true, if_false] at h ⊢
  refine ⟨?_, trivial⟩
  cases s with
  | indexes =>
    simp only at h ⊢
    split
    · rename_i h1
      simp only [h1, if_true] at h
      split
      · rename_i hok
        rw [if_pos hok] at h
        split
        · exact attemptAll_ok_off _ hok
        · rename_i hlen; rw [if_neg hlen] at h; simp at h
      · rename_i hno; rw [if_neg hno] at h; simp at h
    · rfl
  | metaPut =>
    simp only at h ⊢
    split
    · rename_i h1
      simp only [h1, if_true] at h
      by_cases hst : c.w.metaStale = true
      · simp [hst] at h
      · rw [if_neg hst] at h ⊢
        split
        · rename_i hok; exact attempt_ok_off hok
        · rename_i hno; simp [hno] at h
    · rfl
  | idsPut =>
    simp only at h ⊢
    split
    · split
      · rename_i hok; exact attempt_ok_off hok
      · rename_i h1 hno; simp [h1, hno] at h
    · rfl
  | checkpoint =>
    simp only at h ⊢
    split
    · rename_i h1
      simp only [h1, if_true] at h
      rcases storeCp_cases c c.v.maxId now with h2 | ⟨ncp, nsv, _, ⟨hok, h2⟩ | ⟨_, h2⟩⟩
      · rw [h2]
      · rw [h2]; exact attempt_ok_off hok
      · rw [h2] at h; simp at h
    · rfl
  | retire =>
    simp only at h ⊢
    split
    · split
      · rename_i hok; exact attemptAll_ok_off _ hok
      · rename_i h1 hno; simp [h1, hno] at h
    · rfl

theorem flushInner_ok_off {w : World} (v : Volatile) (now : Nat)
    (h : (flushInner w v now).2.2.isSome = true) : (flushInner w v now).1.off = w.off := by
  unfold flushInner at h ⊢
  simp only at h ⊢
  split
  · rfl
  · rename_i hfast
    simp only [hfast, Bool.false_eq_true, if_false] at h
    have key : ∀ (l : List FlushStep) (c : FlushCtx),
        (l.foldl (flushStep now (decide (v.savedVer < v.version)) (!v.dirty.isEmpty) (!v.pending.isEmpty)) c).failed = false →
        (l.foldl (flushStep now (decide (v.savedVer < v.version)) (!v.dirty.isEmpty) (!v.pending.isEmpty)) c).w.off = c.w.off ∧ c.failed = false := by
      intro l
      induction l with
      | nil => intro c hc; exact ⟨rfl, hc⟩
      | cons s r ih =>
        intro c hc
        simp only [List.foldl_cons] at hc ⊢
        obtain ⟨a, b⟩ := ih _ hc
        obtain ⟨a', b'⟩ := flushStep_ok_off now _ _ _ c s b
        exact ⟨a.trans a', b'⟩
    split at h
    · cases h
    · rename_i hnf
      simp only [hnf, Bool.false_eq_true, if_false]
      exact (key flushOrder ⟨w, v, false, false, false⟩ (by simpa using hnf)).1

/-! ### a handle in sync answers `get` from the stored documents -/

theorem get_of_sync {w : World} {v : Volatile} (hS : SyncV w.D v) (hoff : w.off = false) (id : Nat) :
    getOp w v id = match w.D.docs id with
      | some d => .okDoc (some d)
      | none => .errNotFound := by
  unfold getOp
  rw [hS.ids_eq id, hoff]
  cases hd : w.D.docs id <;> simp

/-! ### recovery is a fixpoint on a settled state -/

theorem idxAdd_noop {x : Idx} {id : Nat} {ks : List (Nat × Nat)} (h : ∀ k ∈ ks, x id k = true) (i : Nat) (k : Nat × Nat) :
    idxAdd x id ks i k = x i k := by
  unfold idxAdd
  by_cases hi : i = id
  · subst hi
    by_cases hk : k ∈ ks
    · simp [hk, h k hk]
    · simp [hk]
  · simp [hi]

theorem touchAdd_noop {x : Idx} {dirty : List Nat} {id : Nat} {ks : List (Nat × Nat)} (h : ∀ k ∈ ks, x id k = true) :
    touchAdd x dirty id ks = dirty := by
  unfold touchAdd
  have : ks.filter (fun k => !x id k) = [] := by
    rw [List.filter_eq_nil_iff]
    intro k hk
    simp [h k hk]
  simp [this]

theorem repair_fold_settled (D : Durable) (l : List Nat) : ∀ s : Volatile × Nat,
    (∀ i, s.1.ids i = (D.docs i).isSome) → (∀ i k, s.1.idx i k = keysOf (D.docs i) k) →
    let s' := l.foldl (repairId D) s
    s'.2 = s.2 ∧ s'.1.version = s.1.version ∧ s'.1.dirty = s.1.dirty := by
  induction l with
  | nil => intro s _ _; exact ⟨rfl, rfl, rfl⟩
  | cons a r ih =>
    intro s h1 h2
    simp only [List.foldl_cons]
    have hstep : (repairId D s a).2 = s.2 ∧ (repairId D s a).1.version = s.1.version ∧ (repairId D s a).1.dirty = s.1.dirty ∧
        (∀ i, (repairId D s a).1.ids i = (D.docs i).isSome) ∧ (∀ i k, (repairId D s a).1.idx i k = keysOf (D.docs i) k) := by
      unfold repairId
      cases hd : D.docs a with
      | none => exact ⟨rfl, rfl, rfl, h1, h2⟩
      | some doc =>
        have hid : s.1.ids a = true := by rw [h1, hd]; rfl
        have hk : ∀ k ∈ doc.keys, s.1.idx a k = true := by
          intro k hk; rw [h2, hd]; simp [keysOf, hk]
        simp only [hid, Bool.not_true, Bool.false_eq_true, if_false]
        refine ⟨by triv, by triv, touchAdd_noop hk, h1, ?_⟩
        intro i k
        rw [idxAdd_noop hk]; exact h2 i k
    obtain ⟨b1, b2, b3, b4, b5⟩ := hstep
    obtain ⟨c1, c2, c3⟩ := ih (repairId D s a) b4 b5
    exact ⟨c1.trans b1, c2.trans b2, c3.trans b3⟩

/-- on a settled state without retained intents the reopen path finds nothing to do and writes
nothing — whatever faults are scheduled -/
theorem reopen_fixpoint {w : World} (hS : Settled w.D) (hI : w.D.intents = []) (now : Nat) :
    (reopenOp w now).1 = { w with off := false, metaStale := false, preFail := false, ixStale := [] } ∧ (reopenOp w now).2.2 = .ok ∧
      (reopenOp w now).2.1 = some (recoverV w.D) := by
  have hrep : replay w.D (loadV w.D) = loadV w.D := by simp [replay, hI]
  have hscan := repair_fold_settled w.D
    (List.range' ((loadV w.D).cp + 1) (max (loadV w.D).maxId (loadV w.D).wm - (loadV w.D).cp)) (loadV w.D, 0)
    (fun i => by simp [loadV, hS.ids_eq]) (fun i k => by simp [loadV, hS.idx_eq])
  simp only at hscan
  obtain ⟨f0, fver, fdirty⟩ := hscan
  have hver : (recoverV w.D).version = w.D.metaVer ∧ (recoverV w.D).dirty = [] ∧ (recoverV w.D).savedVer = w.D.metaVer ∧
      (recoverV w.D).pending = [] := by
    unfold recoverV scan
    rw [hrep]
    simp only [scan_wm, if_true, f0]
    obtain ⟨_, _, _, _, _, c5, _, _, c8, _⟩ := repair_fold w.D
      (List.range' ((loadV w.D).cp + 1) (max (loadV w.D).maxId (loadV w.D).wm - (loadV w.D).cp)) (loadV w.D, 0)
    simp only at c5 c8
    refine ⟨?_, ?_, ?_, ?_⟩
    · simp only [Nat.lt_irrefl, if_false, fver]; rfl
    · simp only [Nat.lt_irrefl, if_false, fdirty]; rfl
    · simp only [Nat.lt_irrefl, if_false, c5]; rfl
    · simp only [Nat.lt_irrefl, if_false, c8]; rfl
  obtain ⟨h1, h2, h3, h4⟩ := hver
  have hfast : flushInner { w with off := false, metaStale := false, preFail := false, ixStale := [] } (recoverV w.D) now =
      ({ w with off := false, metaStale := false, preFail := false, ixStale := [] }, recoverV w.D, some false) := by
    unfold flushInner
    simp [h1, h2, h3, h4]
  unfold reopenOp
  simp only [hfast]
  exact ⟨by triv, by triv, by triv⟩

/-! ### operations in a world without faults -/

theorem addOp_quiet {w : World} {v : Volatile} (d : Doc) (hq : Quiet w) (hdead : v.dead = false)
    (hfresh : w.D.docs (v.maxId + 1) = none) :
    (addOp w v d).2.2 = .okId (v.maxId + 1) ∧ Quiet (addOp w v d).1 := by
  have hcreate : ∀ (w : World) (v : Volatile) (id : Nat), Quiet w → w.D.docs id = none →
      (addCreate w v id d).2.2 = .okId id ∧ Quiet (addCreate w v id d).1 := by
    intro w v id hq hn
    unfold addCreate
    obtain ⟨a, b, _⟩ := attempt_quiet hq (.doc id) (putDoc id d)
    simp [hn, a, b]
  unfold addOp
  simp only [hdead, Bool.false_eq_true, if_false]
  split
  · exact hcreate _ _ _ hq hfresh
  · obtain ⟨a, b, c⟩ := attempt_quiet hq (.wm (v.maxId + 1 + stride)) (putWm (v.maxId + 1 + stride))
    simp only [a, if_true]
    exact hcreate _ _ _ b (by rw [c]; exact hfresh)

theorem flushOp_quiet {w : World} {v : Volatile} (now : Nat) (hq : Quiet w) (hdead : v.dead = false) :
    (∃ b, (flushOp w v now).2.2 = .okBool b) ∧ Quiet (flushOp w v now).1 := by
  unfold flushOp
  simp only [hdead, Bool.false_eq_true, if_false]
  have hq' : Quiet ({ w with preFail := false } : World) := hq
  obtain ⟨a, b⟩ := flushInner_quiet v now hq'
  cases hr : (flushInner { w with preFail := false } v now).2.2 with
  | some x => exact ⟨⟨x, rfl⟩, b⟩
  | none => simp [hr] at a

/-! ### building blocks of `accepts_writes_after_recovery` -/

/-- a reopen that meets no fault succeeds, leaves a quiet world and a live handle -/
theorem reopen_quiet {s : State} (hinv : Inv s) (hsched : s.w.sched = []) (now : Nat) :
    (step s (.reopen now)).2 = .ok ∧ Quiet (step s (.reopen now)).1.w ∧
      ∃ V, (step s (.reopen now)).1.h = some V ∧ V.dead = false := by
  simp only [step, reopenOp]
  have hq : Quiet ({ s.w with off := false, metaStale := false, preFail := false, ixStale := [] } : World) := ⟨rfl, hsched, rfl, rfl⟩
  obtain ⟨a, b⟩ := flushInner_quiet (recoverV s.w.D) now hq
  have hr := recoverV_good hinv.1
  obtain ⟨_, _, g3⟩ := flushInner_good (w := { s.w with off := false, metaStale := false, preFail := false, ixStale := [] }) now hinv.1 hr.sync
  cases hf : (flushInner { s.w with off := false, metaStale := false, preFail := false, ixStale := [] } (recoverV s.w.D) now).2.2 with
  | none => simp [hf] at a
  | some x =>
    have ok := g3 (by simp [hf])
    have ha := hr.alive
    simp only [Volatile.dead, Bool.or_eq_false_iff] at ha
    simp only [hf]
    exact ⟨by triv, b, _, rfl, by simp [Volatile.dead, ok.poisoned, ok.closed, ha.1, ha.2]⟩

/-- in a quiet world a live handle acknowledges an add with the next id, stores the document and
stays alive -/
theorem add_quiet_state {s : State} (hinv : Inv s) (hq : Quiet s.w) {V : Volatile} (hV : s.h = some V)
    (hal : V.dead = false) (d : Doc) :
    (step s (.add d)).2 = .okId (V.maxId + 1) ∧ Quiet (step s (.add d)).1.w ∧
      (step s (.add d)).1.w.D.docs (V.maxId + 1) = some d ∧
      ∃ V2, (step s (.add d)).1.h = some V2 ∧ V2.dead = false := by
  have hS := hinv.2 V hV hal
  have hfresh : s.w.D.docs (V.maxId + 1) = none := by
    cases hd : s.w.D.docs (V.maxId + 1) with
    | none => rfl
    | some x => have := hS.docs_le_max (V.maxId + 1) (by simp [hd]); omega
  obtain ⟨hadd, hq2⟩ := addOp_quiet d hq hal hfresh
  have hdoc := ((addOp_docs s.w V d).2.2 _ hadd).2.1
  -- an acknowledged add took no poisoning branch
  have hc : ∀ (w : World) (v : Volatile) (id : Nat), v.dead = false → (addCreate w v id d).2.2 = .okId id →
      (addCreate w v id d).2.1.dead = false := by
    intro w v id hv h
    unfold addCreate at h ⊢
    dsimp only at h ⊢
    by_cases hs : (w.D.docs id).isSome = true
    · rw [if_pos hs] at h; cases h
    · rw [if_neg hs] at h ⊢
      by_cases hok : (w.attempt (.doc id) (putDoc id d)).2 = true
      · rw [if_pos hok]; simpa [Volatile.dead] using hv
      · rw [if_neg hok] at h
        split at h <;> cases h
  have halive : (addOp s.w V d).2.1.dead = false := by
    unfold addOp at hadd ⊢
    simp only [hal, Bool.false_eq_true, if_false] at hadd ⊢
    split at hadd
    · rename_i hle
      simp only [hle, if_true]
      exact hc _ _ _ (by simpa [Volatile.dead] using hal) hadd
    · rename_i hgt
      simp only [hgt, if_false] at hadd ⊢
      split at hadd
      · rename_i hok
        simp only [hok, if_true]
        exact hc _ _ _ (by simpa [Volatile.dead] using hal) hadd
      · cases hadd
  simp only [step, lift, hV]
  exact ⟨hadd, hq2, hdoc, _, rfl, halive⟩

theorem flush_quiet_state {s : State} (hq : Quiet s.w) {V : Volatile} (hV : s.h = some V)
    (hal : V.dead = false) (now : Nat) :
    (∃ b, (step s (.flush now)).2 = .okBool b) ∧ (step s (.flush now)).1.w.sched = [] := by
  obtain ⟨a, b⟩ := flushOp_quiet (w := s.w) (v := V) now hq hal
  simp only [step, lift, hV]
  exact ⟨a, b.2.1⟩

/-- everything a reopen that reports success guarantees -/
theorem reopen_ok_spec {s : State} (hinv : Inv s) (now : Nat) (hok : (step s (.reopen now)).2 = .ok) :
    ∃ V, (step s (.reopen now)).1.h = some V ∧ V.dead = false ∧ (step s (.reopen now)).1.w.off = false ∧
      (step s (.reopen now)).1.w.D.docs = s.w.D.docs ∧ SyncV (step s (.reopen now)).1.w.D V ∧
      Settled (step s (.reopen now)).1.w.D ∧ (step s (.reopen now)).1.w.D.intents = [] := by
  simp only [step, reopenOp] at hok ⊢
  have hr := recoverV_good hinv.1
  obtain ⟨_, g2, g3⟩ := flushInner_good (w := { s.w with off := false, metaStale := false, preFail := false, ixStale := [] }) now hinv.1 hr.sync
  cases hf : (flushInner { s.w with off := false, metaStale := false, preFail := false, ixStale := [] } (recoverV s.w.D) now).2.2 with
  | none => simp [hf] at hok
  | some b =>
    have ok := g3 (by simp [hf])
    have hoff := flushInner_ok_off (w := { s.w with off := false, metaStale := false, preFail := false, ixStale := [] }) (recoverV s.w.D) now (by simp [hf])
    have ha := hr.alive
    simp only [Volatile.dead, Bool.or_eq_false_iff] at ha
    simp only [hf]
    refine ⟨_, rfl, by simp [Volatile.dead, ok.poisoned, ok.closed, ha.1, ha.2], hoff, g2.docs, ok.sync, ok.settled, ?_⟩
    rw [ok.intents, hr.pending]
    rw [List.filter_eq_nil_iff]
    intro it hit
    simp only [List.mem_map, decide_eq_true_eq]
    exact fun h => h ⟨it, hit, rfl⟩

/-- after a reopen that reports success, `get` answers from the stored documents -/
theorem reopen_get {s : State} (hinv : Inv s) (now : Nat) (hok : (step s (.reopen now)).2 = .ok) (id : Nat) :
    (step s (.reopen now)).1.get id = match s.w.D.docs id with
      | some d => .okDoc (some d)
      | none => .errNotFound := by
  simp only [step, reopenOp] at hok ⊢
  have hr := recoverV_good hinv.1
  obtain ⟨_, g2, g3⟩ := flushInner_good (w := { s.w with off := false, metaStale := false, preFail := false, ixStale := [] }) now hinv.1 hr.sync
  cases hf : (flushInner { s.w with off := false, metaStale := false, preFail := false, ixStale := [] } (recoverV s.w.D) now).2.2 with
  | none => simp [hf] at hok
  | some x =>
    have ok := g3 (by simp [hf])
    have hoff := flushInner_ok_off (w := { s.w with off := false, metaStale := false, preFail := false, ixStale := [] }) (recoverV s.w.D) now (by simp [hf])
    simp only [hf, State.get]
    rw [get_of_sync ok.sync hoff, g2.docs]

end AndaVerif.Durability
