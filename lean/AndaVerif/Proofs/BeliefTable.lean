import AndaVerif.Model.Belief
/-
The eligibility stages of the model are driven by tables and operators regenerated from the source
(`Gen/BeliefPolicy.lean`). Here the generated program is evaluated once, by the kernel, into the
closed forms the proofs work with. If the source drifts, these lemmas (and with them every property
theorem) stop checking.
-/
namespace AndaVerif.Belief

theorem lifecycleExclusion_eq (st : Status) :
    lifecycleExclusion st = match st with
      | .active => none | .retracted => some .retracted | .superseded => some .superseded
      | .expired => some .expired | .other => some .invalidSchema := by
  cases st <;> decide

theorem notYetValid_eq (f now : Nat) : notYetValid f now = decide (now < f) := by
  simp [notYetValid, evalCmp, Gen.BeliefPolicy.validFromExcludedWhen]

theorem noLongerValid_eq (u now : Nat) : noLongerValid u now = decide (u ≤ now) := by
  simp [noLongerValid, evalCmp, Gen.BeliefPolicy.validUntilExcludedWhen]

theorem windowReason_eq : windowReason = .outsideValidTime := by decide

theorem notVisibleReason_eq : notVisibleReason = .notVisible := by decide

theorem isUnstated_eq (c : Int) : isUnstated c = decide (c < 0) := by
  simp [isUnstated, Gen.BeliefPolicy.unstatedWhenConfidence]

/-- `Policy::mode_exclusion` in closed form. -/
def modeExclusionSpec : Option Mode → Reason
  | some .hypothetical => .hypotheticalNotRequested
  | some .predicted => .predictionNotRequested
  | none => .invalidSchema
  | _ => .policyExcluded

theorem modeExclusion_eq (m : Option Mode) : modeExclusion m = modeExclusionSpec m := by
  cases m with
  | none => decide
  | some m => cases m <;> decide

/-- `Context::eligible` in closed form (what the generated tables currently say). -/
def eligibleSpec (pol : Policy) (now : Nat) (r : Row) : Except Reason Cand :=
  match r.status with
  | .retracted => .error .retracted
  | .superseded => .error .superseded
  | .expired => .error .expired
  | .other => .error .invalidSchema
  | .active =>
    if !r.visible then .error .notVisible
    else if (match r.validFrom with | some f => decide (now < f) | none => false) then .error .outsideValidTime
    else if (match r.validUntil with | some u => decide (u ≤ now) | none => false) then .error .outsideValidTime
    else if !pol.admits r.mode then .error (modeExclusionSpec r.mode)
    else .ok {
      id := r.id
      actor := match r.actor with | some a => .actor a | none => .anon r.id
      evidence := r.evidence
      stance := r.stance
      conf := if r.conf < 0 then pol.unstated else r.conf
      opposes := false }

theorem eligible_eq_spec (pol : Policy) (now : Nat) (r : Row) : eligible pol now r = eligibleSpec pol now r := by
  unfold eligible eligibleSpec
  rw [lifecycleExclusion_eq]
  cases r.status <;> simp only []
  simp only [notVisibleReason_eq, windowReason_eq, notYetValid_eq, noLongerValid_eq, modeExclusion_eq, isUnstated_eq,
    decide_eq_true_eq]
  first | rfl | (repeat' split) <;> simp_all

end AndaVerif.Belief
