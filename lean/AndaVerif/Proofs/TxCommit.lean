import AndaVerif.Proofs.TxStaged
import AndaVerif.Proofs.TxExec
/-
The commit write loop: what it wrote, what it left alone, what it appended to the version log.
-/
namespace AndaVerif.Tx

/-- the element `Transaction::write` stores for a staged row -/
def writtenElem (q : Nat) (i : Id) (x : Staged) : Elem :=
  { row := x.row, version := (changeOf i x).version, state := if x.state = .pending then .active else x.state, seq := q }

theorem writtenElem_not_pending (q : Nat) (i : Id) (x : Staged) : (writtenElem q i x).state ≠ .pending := by
  simp only [writtenElem]
  split
  · intro h; cases h
  · assumption

theorem eraseAll_nil (log : List VEntry) : eraseAll [] log = log := by
  simp [eraseAll]

theorem purgeVersions_eq (log : List VEntry) (i : Id) : purgeVersions log i = eraseAll [i] log := by
  unfold purgeVersions eraseAll
  congr 1
  funext v
  by_cases h : v.id = i <;> simp [h]

theorem eraseAll_eraseAll (a b : List Id) (log : List VEntry) : eraseAll a (eraseAll b log) = eraseAll (b ++ a) log := by
  unfold eraseAll
  rw [List.filter_filter]
  congr 1
  funext v
  simp only [List.contains_append, Bool.not_or, Bool.and_comm]

theorem eraseAll_cons_keep (a : List Id) (v : VEntry) (log : List VEntry) (h : v.id ∉ a) :
    eraseAll a (v :: log) = v :: eraseAll a log := by
  unfold eraseAll
  rw [List.filter_cons]
  simp [h]

theorem eraseAll_append (a : List Id) (x y : List VEntry) : eraseAll a (x ++ y) = eraseAll a x ++ eraseAll a y := by
  unfold eraseAll; exact List.filter_append ..

theorem mem_eraseAll {a : List Id} {log : List VEntry} {v : VEntry} (h : v ∈ eraseAll a log) : v ∈ log ∧ v.id ∉ a := by
  unfold eraseAll at h
  have := List.mem_filter.mp h
  exact ⟨this.1, by simpa using this.2⟩

/-- the rows a write destroys first: those of the element itself when a purge of it is staged -/
def erasedBy (i : Id) (x : Staged) : List Id := if x.erase = true then [i] else []

theorem writeOne_ok {s s' : Store} {q : Nat} {i : Id} {x : Staged} (h : writeOne s q i x = .ok s') :
    (s.elems i).isSome = true ∧ s'.elems = setElem s.elems i (some (writtenElem q i x)) ∧
    s'.vlog = { id := i, version := (changeOf i x).version, seq := q, op := x.op, elem := writtenElem q i x } ::
        eraseAll (erasedBy i x) s.vlog ∧
    s'.next = s.next ∧ s'.seq = s.seq ∧ s'.journal = s.journal := by
  have hloop : Gen.NexusOrder.purgeErasureInLoop = true := Gen.NexusOrder.gen_purge_in_loop
  unfold writeOne at h
  split at h
  · cases h
  · rename_i e he
    split at h
    · cases h
    · cases h
      refine ⟨by simp [he], rfl, ?_, rfl, rfl, rfl⟩
      simp only [hloop, and_true, erasedBy]
      cases her : x.erase with
      | true => simp only [if_true]; rw [purgeVersions_eq]; rfl
      | false => simp only [Bool.false_eq_true, if_false]; rw [eraseAll_nil]; rfl

theorem writeOne_WF {s s' : Store} {q : Nat} {i : Id} {x : Staged} (hwf : WF s) (h : writeOne s q i x = .ok s') : WF s' := by
  obtain ⟨hsome, hel, _, hnext, _, _⟩ := writeOne_ok h
  intro j hj
  rw [hel]
  simp only [setElem]
  split
  · rename_i heq
    subst heq
    rw [hnext] at hj
    have := hwf j hj
    rw [this] at hsome; cases hsome
  · rw [hnext] at hj; exact hwf j hj

/-- what one run of the loop over `m` (entries with pairwise distinct ids) does, in terms of the
change records `w'` it adds -/
structure LoopSpec (q : Nat) (s : Store) (m : List (Id × Staged)) (acc : List Change)
    (r : Store × List Change × Option Err) (w' : List Change) (extra : List VEntry) (erased : List Id) : Prop where
  changes : r.2.1 = acc ++ w'
  frame : ∀ i, (∀ c ∈ w', c.id ≠ i) → r.1.elems i = s.elems i
  written : ∀ c ∈ w', ∃ x, (c.id, x) ∈ m ∧ x.changed = true ∧ c = changeOf c.id x ∧
      r.1.elems c.id = some (writtenElem q c.id x) ∧ (s.elems c.id).isSome = true
  ids : ∀ c ∈ w', c.id ∈ m.map (·.1)
  nodup : (w'.map (·.id)).Nodup
  /-- the log: the rows the loop appended, on top of the old log minus the rows of purged elements -/
  vlog : r.1.vlog = extra ++ eraseAll erased s.vlog
  /-- only elements the loop wrote, whose staged row carries a purge, lose rows -/
  erasedSub : ∀ i ∈ erased, i ∈ w'.map (·.id) ∧ ∃ x, (i, x) ∈ m ∧ x.erase = true
  erasedAll : r.2.2 = none → erased = erasedIds m
  extraIds : extra.map (·.id) = (w'.map (·.id)).reverse
  extraOK : ∀ v ∈ extra, v.seq = q ∧ r.1.elems v.id = some v.elem ∧ v.version = v.elem.version ∧ v.elem.state ≠ .pending
  complete : r.2.2 = none → w' = changeRecords m
  wf : WF s → WF r.1

theorem changeRecords_cons_changed (i : Id) (x : Staged) (m : List (Id × Staged)) (h : x.changed = true) :
    changeRecords ((i, x) :: m) = changeOf i x :: changeRecords m := by
  simp [changeRecords, h]

theorem changeRecords_cons_unchanged (i : Id) (x : Staged) (m : List (Id × Staged)) (h : x.changed = false) :
    changeRecords ((i, x) :: m) = changeRecords m := by
  simp [changeRecords, h]

theorem writeLoop_spec (q : Nat) (m : List (Id × Staged)) (hn : (m.map (·.1)).Nodup) :
    ∀ (s : Store) (acc : List Change), ∃ w' extra erased, LoopSpec q s m acc (writeLoop q s m acc) w' extra erased := by
  induction m with
  | nil =>
      intro s acc
      refine ⟨[], [], [], ?_⟩
      exact { changes := by simp [writeLoop], frame := fun _ _ => rfl, written := (by intro c hc; cases hc),
              ids := (by intro c hc; cases hc), nodup := by simp, vlog := (by rw [eraseAll_nil]; rfl), extraIds := rfl,
              erasedSub := (by intro i hi; cases hi), erasedAll := fun _ => rfl,
              extraOK := (by intro v hv; cases hv), complete := fun _ => rfl, wf := fun h => h }
  | cons p rest ih =>
      obtain ⟨i, x⟩ := p
      simp only [List.map_cons, List.nodup_cons] at hn
      intro s acc
      simp only [writeLoop]
      cases hc : x.changed with
      | false =>
          simp only [Bool.false_eq_true, if_false]
          obtain ⟨w', extra, erased, sp⟩ := ih hn.2 s acc
          refine ⟨w', extra, erased, ?_⟩
          exact { changes := sp.changes, frame := sp.frame,
                  written := by
                    intro c hcm
                    obtain ⟨y, hy, rest'⟩ := sp.written c hcm
                    exact ⟨y, List.mem_cons_of_mem _ hy, rest'⟩,
                  ids := fun c hcm => List.mem_cons_of_mem _ (sp.ids c hcm), nodup := sp.nodup, vlog := sp.vlog,
                  erasedSub := (by
                    intro j hj
                    obtain ⟨h1, y, hy, hye⟩ := sp.erasedSub j hj
                    exact ⟨h1, y, List.mem_cons_of_mem _ hy, hye⟩),
                  erasedAll := (by
                    intro h
                    rw [sp.erasedAll h]
                    simp [erasedIds, List.filter_cons, hc]),
                  extraIds := sp.extraIds, extraOK := sp.extraOK,
                  complete := by intro h; rw [changeRecords_cons_unchanged i x rest hc]; exact sp.complete h,
                  wf := sp.wf }
      | true =>
          simp only [if_true]
          cases hw : writeOne s q i x with
          | error e =>
              refine ⟨[], [], [], ?_⟩
              exact { changes := by simp, frame := fun _ _ => rfl, written := (by intro c hcm; cases hcm),
                      ids := (by intro c hcm; cases hcm), nodup := by simp, vlog := (by rw [eraseAll_nil]; rfl), extraIds := rfl,
                      erasedSub := (by intro j hj; cases hj), erasedAll := (by intro h; cases h),
                      extraOK := (by intro v hv; cases hv), complete := (by intro h; cases h), wf := fun h => h }
          | ok s1 =>
              simp only []
              obtain ⟨hsome, hel, hvl, hnx, hsq, hjn⟩ := writeOne_ok hw
              obtain ⟨w'', extra'', erased'', sp⟩ := ih hn.2 s1 (acc ++ [changeOf i x])
              have hne : ∀ c ∈ w'', c.id ≠ i := by
                intro c hcm heq
                exact hn.1 (heq ▸ sp.ids c hcm)
              have hcur : (writeLoop q s1 rest (acc ++ [changeOf i x])).1.elems i = some (writtenElem q i x) := by
                rw [sp.frame i hne, hel]; simp [setElem]
              refine ⟨changeOf i x :: w'',
                extra'' ++ [{ id := i, version := (changeOf i x).version, seq := q, op := x.op, elem := writtenElem q i x }],
                erasedBy i x ++ erased'', ?_⟩
              have hnotin : i ∉ erased'' := by
                intro hi
                obtain ⟨h1, _⟩ := sp.erasedSub i hi
                obtain ⟨c, hcm, hci⟩ := List.mem_map.mp h1
                exact hne c hcm hci
              exact {
                changes := by rw [sp.changes]; simp,
                frame := by
                  intro j hj
                  have hji : j ≠ i := fun h => hj (changeOf i x) List.mem_cons_self (by simp [changeOf, h])
                  rw [sp.frame j (fun c hcm => hj c (List.mem_cons_of_mem _ hcm)), hel]
                  simp [setElem, hji],
                written := by
                  intro c hcm
                  rcases List.mem_cons.mp hcm with h | h
                  · subst h
                    exact ⟨x, List.mem_cons_self, hc, rfl, hcur, hsome⟩
                  · obtain ⟨y, hy, h1, h2, h3, h4⟩ := sp.written c h
                    refine ⟨y, List.mem_cons_of_mem _ hy, h1, h2, h3, ?_⟩
                    rw [hel] at h4
                    simpa [setElem, hne c h] using h4,
                ids := by
                  intro c hcm
                  rcases List.mem_cons.mp hcm with h | h
                  · subst h; exact List.mem_cons_self
                  · exact List.mem_cons_of_mem _ (sp.ids c h),
                nodup := by
                  simp only [List.map_cons, List.nodup_cons]
                  refine ⟨?_, sp.nodup⟩
                  intro hm
                  obtain ⟨c, hcm, hci⟩ := List.mem_map.mp hm
                  exact hne c hcm hci,
                vlog := by
                  rw [sp.vlog, hvl, eraseAll_cons_keep _ _ _ hnotin, eraseAll_eraseAll]
                  simp,
                erasedSub := by
                  intro j hj
                  rcases List.mem_append.mp hj with h1 | h1
                  · unfold erasedBy at h1
                    split at h1
                    · rename_i her
                      simp only [List.mem_singleton] at h1
                      subst h1
                      exact ⟨by simp [changeOf], x, List.mem_cons_self, her⟩
                    · cases h1
                  · obtain ⟨h2, y, hy, hye⟩ := sp.erasedSub j h1
                    exact ⟨by simp only [List.map_cons, List.mem_cons]; exact .inr h2, y, List.mem_cons_of_mem _ hy, hye⟩,
                erasedAll := by
                  intro h
                  rw [sp.erasedAll h]
                  unfold erasedBy
                  cases her : x.erase <;> simp [erasedIds, List.filter_cons, hc, her],
                extraIds := by simp [sp.extraIds, changeOf],
                extraOK := by
                  intro v hv
                  rcases List.mem_append.mp hv with h | h
                  · exact sp.extraOK v h
                  · simp only [List.mem_singleton] at h
                    subst h
                    exact ⟨rfl, hcur, rfl, writtenElem_not_pending q i x⟩,
                complete := by
                  intro h
                  rw [changeRecords_cons_changed i x rest hc, sp.complete h],
                wf := fun h => sp.wf (writeOne_WF h hw) }

end AndaVerif.Tx
