import AndaVerif.Gen.Bm25Order
import AndaVerif.Model.Bm25
import Mathlib.Analysis.SpecialFunctions.Log.Basic
import Mathlib.Tactic.Linarith
import Mathlib.Tactic.Positivity
/-
The BM25 formula of `score_term` over the reals, for the parameters `BM25Params::sanitized` lets
through. (The f32 evaluation is *measured* by the harness on every returned score; here: the exact
formula is non-negative, its denominators are positive, and it is bounded — so a finite result is
what the real-number reading predicts for every input the code can be given.)
-/
namespace AndaVerif
namespace Bm25Score

/-- the classes of f32 values a deserialised parameter can have -/
inductive Param where
  | nan
  | posInf
  | negInf
  | fin (x : ℝ)

/-- `f32::clamp(lo, hi)` on a finite value -/
noncomputable def clamp (x lo hi : ℝ) : ℝ := if x < lo then lo else if x > hi then hi else x

open Gen.Bm25Order in
/-- `BM25Params::sanitized`: non-finite → default, `k1` clamped to `[0, MAX_K1]`, `b` to `[0, 1]`;
the defaults and bounds are the ones regenerated from the source (thousandths) -/
noncomputable def sanitizeK1 : Param → ℝ
  | .fin x => clamp x ((k1ClampMilli.1 : ℝ) / 1000) ((k1ClampMilli.2 : ℝ) / 1000)
  | _ => (defaultK1Milli : ℝ) / 1000

open Gen.Bm25Order in
noncomputable def sanitizeB : Param → ℝ
  | .fin x => clamp x ((bClampMilli.1 : ℝ) / 1000) ((bClampMilli.2 : ℝ) / 1000)
  | _ => (defaultBMilli : ℝ) / 1000

/-- `BM25Params::MAX_K1` -/
noncomputable def maxK1 : ℝ := (Gen.Bm25Order.maxK1Milli : ℝ) / 1000

theorem clamp_range {x lo hi : ℝ} (h : lo ≤ hi) : lo ≤ clamp x lo hi ∧ clamp x lo hi ≤ hi := by
  unfold clamp
  split
  · exact ⟨le_refl _, h⟩
  · split
    · exact ⟨h, le_refl _⟩
    · constructor <;> linarith

open Gen.Bm25Order in
theorem sanitized_range (k b : Param) :
    0 ≤ sanitizeK1 k ∧ sanitizeK1 k ≤ maxK1 ∧ 0 ≤ sanitizeB b ∧ sanitizeB b ≤ 1 := by
  obtain ⟨_, hk, hb, hdk, hdb, _⟩ := gen_sanitized
  have hmax : (0 : ℝ) ≤ maxK1 := by unfold maxK1; positivity
  have hdk' : ((defaultK1Milli : ℝ)) / 1000 ≤ maxK1 := by
    unfold maxK1
    have : (defaultK1Milli : ℝ) ≤ (maxK1Milli : ℝ) := by exact_mod_cast hdk
    linarith
  have hdb' : ((defaultBMilli : ℝ)) / 1000 ≤ 1 := by
    have : (defaultBMilli : ℝ) ≤ 1000 := by exact_mod_cast hdb
    linarith
  have hk1 : ((k1ClampMilli.1 : ℝ)) / 1000 = 0 := by rw [hk]; simp
  have hk2 : ((k1ClampMilli.2 : ℝ)) / 1000 = maxK1 := by rw [hk]; simp [maxK1]
  have hb1 : ((bClampMilli.1 : ℝ)) / 1000 = 0 := by rw [hb]; simp
  have hb2 : ((bClampMilli.2 : ℝ)) / 1000 = 1 := by rw [hb]; norm_num
  refine ⟨?_, ?_, ?_, ?_⟩
  · cases k with
    | fin x => simp only [sanitizeK1, hk1, hk2]; exact (clamp_range hmax).1
    | nan => simp only [sanitizeK1]; positivity
    | posInf => simp only [sanitizeK1]; positivity
    | negInf => simp only [sanitizeK1]; positivity
  · cases k with
    | fin x => simp only [sanitizeK1, hk1, hk2]; exact (clamp_range hmax).2
    | nan => exact hdk'
    | posInf => exact hdk'
    | negInf => exact hdk'
  · cases b with
    | fin x => simp only [sanitizeB, hb1, hb2]; exact (clamp_range (by norm_num)).1
    | nan => simp only [sanitizeB]; positivity
    | posInf => simp only [sanitizeB]; positivity
    | negInf => simp only [sanitizeB]; positivity
  · cases b with
    | fin x => simp only [sanitizeB, hb1, hb2]; exact (clamp_range (by norm_num)).2
    | nan => exact hdb'
    | posInf => exact hdb'
    | negInf => exact hdb'

/-- `ln(1 + (N - df + 0.5)/(df + 0.5))` -/
noncomputable def idf (N df : ℝ) : ℝ := Real.log ((N - df + 0.5) / (df + 0.5) + 1)

/-- `(tf · (k1 + 1)) / (tf + k1 · (1 − b + b · |d| / avgdl))` -/
noncomputable def tfComponent (k1 b tf dl avg : ℝ) : ℝ :=
  (tf * (k1 + 1)) / (tf + k1 * (1 - b + b * dl / avg))

theorem idf_arg_ge_one {N df : ℝ} (h1 : 1 ≤ df) (h2 : df ≤ N) : 1 ≤ (N - df + 0.5) / (df + 0.5) + 1 := by
  have : 0 ≤ (N - df + 0.5) / (df + 0.5) := by
    apply div_nonneg <;> linarith
  linarith

theorem idf_nonneg {N df : ℝ} (h1 : 1 ≤ df) (h2 : df ≤ N) : 0 ≤ idf N df :=
  Real.log_nonneg (idf_arg_ge_one h1 h2)

theorem idf_le {N df : ℝ} (h1 : 1 ≤ df) (h2 : df ≤ N) : idf N df ≤ Real.log (N + 1) := by
  unfold idf
  have hpos : 0 < (N - df + 0.5) / (df + 0.5) + 1 := by have := idf_arg_ge_one h1 h2; linarith
  apply Real.log_le_log hpos
  have hd : 0 < df + 0.5 := by linarith
  have : (N - df + 0.5) / (df + 0.5) ≤ N - df + 0.5 := by
    apply div_le_self <;> linarith
  linarith

theorem norm_nonneg' {b dl avg : ℝ} (hb0 : 0 ≤ b) (hb1 : b ≤ 1) (hdl : 0 ≤ dl) (havg : 1 ≤ avg) :
    0 ≤ 1 - b + b * dl / avg := by
  have : 0 ≤ b * dl / avg := by
    apply div_nonneg (mul_nonneg hb0 hdl); linarith
  linarith

theorem denominator_pos {k1 b tf dl avg : ℝ} (hk : 0 ≤ k1) (hb0 : 0 ≤ b) (hb1 : b ≤ 1) (htf : 1 ≤ tf)
    (hdl : 0 ≤ dl) (havg : 1 ≤ avg) : 0 < tf + k1 * (1 - b + b * dl / avg) := by
  have := mul_nonneg hk (norm_nonneg' hb0 hb1 hdl havg)
  linarith

theorem tfComponent_nonneg {k1 b tf dl avg : ℝ} (hk : 0 ≤ k1) (hb0 : 0 ≤ b) (hb1 : b ≤ 1) (htf : 1 ≤ tf)
    (hdl : 0 ≤ dl) (havg : 1 ≤ avg) : 0 ≤ tfComponent k1 b tf dl avg := by
  unfold tfComponent
  apply div_nonneg
  · apply mul_nonneg <;> linarith
  · exact le_of_lt (denominator_pos hk hb0 hb1 htf hdl havg)

theorem tfComponent_le {k1 b tf dl avg : ℝ} (hk : 0 ≤ k1) (hb0 : 0 ≤ b) (hb1 : b ≤ 1) (htf : 1 ≤ tf)
    (hdl : 0 ≤ dl) (havg : 1 ≤ avg) : tfComponent k1 b tf dl avg ≤ k1 + 1 := by
  unfold tfComponent
  have hd := denominator_pos hk hb0 hb1 htf hdl havg
  rw [div_le_iff₀ hd]
  have := mul_nonneg hk (norm_nonneg' hb0 hb1 hdl havg)
  nlinarith [mul_nonneg (by linarith : (0:ℝ) ≤ k1 + 1) this]

theorem sum_nonneg_of_all (l : List ℝ) (h : ∀ x ∈ l, 0 ≤ x) : 0 ≤ l.sum := by
  induction l with
  | nil => simp
  | cons x xs ih =>
    simp only [List.sum_cons]
    have := h x (List.mem_cons_self)
    have := ih (fun y hy => h y (List.mem_cons_of_mem _ hy))
    linarith

/-! ### the score of the model's `scoreInputs` in exact arithmetic (ℚ)

`idf` is a logarithm and has no rational value: it enters as an arbitrary non-negative weight per query
token (`idf_nonneg` shows the real one is). Everything else of the formula is rational. -/

/-- `(tf · (k1 + 1)) / (tf + k1 · (1 − b + b · |d| / avgdl))` over ℚ -/
def tfcQ (k1 b tf dl avg : ℚ) : ℚ := (tf * (k1 + 1)) / (tf + k1 * (1 - b + b * dl / avg))

/-- `avg_doc_tokens().max(1.0)` (`0` documents: `0.0.max(1.0)`) -/
def avgQ (n total : Nat) : ℚ := max ((total : ℚ) / (n : ℚ)) 1

theorem avgQ_ge_one (n total : Nat) : 1 ≤ avgQ n total := le_max_right _ _

theorem tfcQ_nonneg {k1 b tf dl avg : ℚ} (hk : 0 ≤ k1) (hb0 : 0 ≤ b) (hb1 : b ≤ 1) (htf : 0 ≤ tf)
    (hdl : 0 ≤ dl) (havg : 1 ≤ avg) : 0 ≤ tfcQ k1 b tf dl avg := by
  unfold tfcQ
  have h1 : 0 ≤ b * dl / avg := div_nonneg (mul_nonneg hb0 hdl) (by linarith)
  have h2 : 0 ≤ k1 * (1 - b + b * dl / avg) := mul_nonneg hk (by linarith)
  exact div_nonneg (mul_nonneg htf (by linarith)) (by linarith)

theorem tfcQ_le {k1 b tf dl avg : ℚ} (hk : 0 ≤ k1) (hb0 : 0 ≤ b) (hb1 : b ≤ 1) (htf : 0 ≤ tf)
    (hdl : 0 ≤ dl) (havg : 1 ≤ avg) : tfcQ k1 b tf dl avg ≤ k1 + 1 := by
  unfold tfcQ
  have h1 : 0 ≤ b * dl / avg := div_nonneg (mul_nonneg hb0 hdl) (by linarith)
  have h2 : 0 ≤ k1 * (1 - b + b * dl / avg) := mul_nonneg hk (by linarith)
  by_cases hd : tf + k1 * (1 - b + b * dl / avg) = 0
  · rw [hd, div_zero]; linarith
  · have hpos : 0 < tf + k1 * (1 - b + b * dl / avg) := lt_of_le_of_ne (by linarith) (Ne.symm hd)
    rw [div_le_iff₀ hpos]
    nlinarith [mul_nonneg (by linarith : (0:ℚ) ≤ k1 + 1) h2]

/-- the larger the term frequency the larger the contribution (same document length) -/
theorem tfcQ_mono_tf {k1 b tf tf' dl avg : ℚ} (hk : 0 ≤ k1) (hb0 : 0 ≤ b) (hb1 : b ≤ 1) (htf : 0 < tf)
    (hle : tf ≤ tf') (hdl : 0 ≤ dl) (havg : 1 ≤ avg) : tfcQ k1 b tf dl avg ≤ tfcQ k1 b tf' dl avg := by
  unfold tfcQ
  have h1 : 0 ≤ b * dl / avg := div_nonneg (mul_nonneg hb0 hdl) (by linarith)
  have h2 : 0 ≤ k1 * (1 - b + b * dl / avg) := mul_nonneg hk (by linarith)
  have hd : 0 < tf + k1 * (1 - b + b * dl / avg) := by linarith
  have hd' : 0 < tf' + k1 * (1 - b + b * dl / avg) := by linarith
  rw [div_le_div_iff₀ hd hd']
  nlinarith [mul_nonneg (by linarith : (0:ℚ) ≤ k1 + 1) h2, mul_nonneg (sub_nonneg.2 hle) (mul_nonneg (by linarith : (0:ℚ) ≤ k1 + 1) h2)]

open Bm25 in
/-- contribution of one query token (with weight `w`) to document `i` -/
def tokenScoreQ (w k1 b avg : ℚ) (info : List (Nat × Nat × Nat)) (i : Nat) : ℚ :=
  ((info.filter (fun x => x.1 == i)).map (fun x => w * tfcQ k1 b (x.2.1 : ℚ) (x.2.2 : ℚ) avg)).sum

/-- the score `score_term` accumulates for document `i`, read off the model's `scoreInputs`
(`w t` stands for `idf` of token `t`) -/
def docScoreQ (w : Nat → ℚ) (k1 b : ℚ) (inp : Nat × Nat × List (Nat × List (Nat × Nat × Nat))) (i : Nat) : ℚ :=
  (inp.2.2.map (fun p => tokenScoreQ (w p.1) k1 b (avgQ inp.1 inp.2.1) p.2 i)).sum

theorem tokenScoreQ_nonneg {w k1 b avg : ℚ} (hw : 0 ≤ w) (hk : 0 ≤ k1) (hb0 : 0 ≤ b) (hb1 : b ≤ 1)
    (havg : 1 ≤ avg) (info : List (Nat × Nat × Nat)) (i : Nat) : 0 ≤ tokenScoreQ w k1 b avg info i := by
  unfold tokenScoreQ
  apply List.sum_nonneg
  intro x hx
  obtain ⟨y, _, rfl⟩ := List.mem_map.1 hx
  exact mul_nonneg hw (tfcQ_nonneg hk hb0 hb1 (by positivity) (by positivity) havg)

/-- **score ≥ 0** in exact arithmetic, for every state, query, document, non-negative idf weights and
sanitised parameters -/
theorem docScoreQ_nonneg {w : Nat → ℚ} {k1 b : ℚ} (hw : ∀ t, 0 ≤ w t) (hk : 0 ≤ k1) (hb0 : 0 ≤ b) (hb1 : b ≤ 1)
    (inp : Nat × Nat × List (Nat × List (Nat × Nat × Nat))) (i : Nat) : 0 ≤ docScoreQ w k1 b inp i := by
  unfold docScoreQ
  apply List.sum_nonneg
  intro x hx
  obtain ⟨p, _, rfl⟩ := List.mem_map.1 hx
  exact tokenScoreQ_nonneg (hw p.1) hk hb0 hb1 (avgQ_ge_one _ _) p.2 i

/-- **repeated queries agree** in exact arithmetic: the score does not depend on the order in which the
query tokens are visited (the real code visits them in the order of a freshly seeded hash map) -/
theorem docScoreQ_perm (w : Nat → ℚ) (k1 b : ℚ) (n total : Nat)
    {l₁ l₂ : List (Nat × List (Nat × Nat × Nat))} (h : l₁.Perm l₂) (i : Nat) :
    docScoreQ w k1 b (n, total, l₁) i = docScoreQ w k1 b (n, total, l₂) i := by
  unfold docScoreQ
  exact (h.map _).sum_eq

end Bm25Score
end AndaVerif
