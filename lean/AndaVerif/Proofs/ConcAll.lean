import AndaVerif.Proofs.ConcHist
/-
All invariants together, and their validity in every configuration produced by any schedule.
-/
namespace AndaVerif.ConcColl

/-- The calls `ops`, none issued yet, on a handle in state `sh`. -/
def start (sh : Shared) (ops : List Op) : Cfg :=
  { sh := sh, th := ops.map mkThread, stamps := ops.map (fun _ => {}) }

/-- A healthy handle with nothing in flight (what `open` / a drained handle looks like). -/
structure WF (sh : Shared) : Prop where
  readers : sh.readers = []
  writer : sh.writer = none
  lock : ∀ s, sh.lock s = none
  wm : sh.wmLock = none
  ext : sh.extLock = none
  clean : sh.poisoned = false
  known : sh.metaKnownVer = sh.metaObjVer
  dom : ∀ (i : Nat), sh.store i ≠ none → i ≤ sh.maxId
  hist : ∀ (i : Nat) (d : Doc) (v : Nat), sh.store i = some (d, v) → (i, d) ∈ sh.hist

structure AllInv (M0 : Nat) (H0 : List (Nat × Doc)) (c : Cfg) : Prop where
  ids : IdsInv M0 c
  gate : GateInv c
  lock : LockInv c
  store : StoreInv c
  rs : ReadStab c
  mta : MetaInv c
  rm : RemoveInv c
  flush : FlushInv c
  hist : HistInv H0 c

theorem AllInv.step {M0 : Nat} {H0 : List (Nat × Doc)} {t : Nat} {c c' : Cfg} (inv : AllInv M0 H0 c)
    (h : step t c = some c') : AllInv M0 H0 c' :=
  { ids := inv.ids.step h
    gate := inv.gate.step h
    lock := inv.lock.step h
    store := inv.store.step inv.ids h
    rs := inv.rs.step inv.lock h
    mta := inv.mta.step inv.gate h
    rm := inv.rm.step inv.lock inv.store inv.rs inv.ids h
    flush := inv.flush.step inv.gate h
    hist := inv.hist.step inv.ids h }

theorem start_idle (sh : Shared) (ops : List Op) (x : Nat) (th : Thread)
    (h : (start sh ops).th[x]? = some th) :
    th.pc = .idle ∧ th.id = 0 ∧ th.res = none ∧ th.old = none ∧ th.f3 = false := by
  simp only [start, List.getElem?_map, Option.map_eq_some_iff] at h
  obtain ⟨op, _, rfl⟩ := h
  simp [mkThread]

theorem AllInv.init (sh : Shared) (wf : WF sh) (ops : List Op) :
    AllInv sh.maxId sh.hist (start sh ops) :=
  let c := start sh ops
  have hi := start_idle sh ops
  { ids := IdsInv.init c (fun x th h => ⟨(hi x th h).1, (hi x th h).2.1, (hi x th h).2.2.1⟩)
    gate := GateInv.init c wf.readers wf.writer (fun x th h => (hi x th h).1)
    lock := LockInv.init c wf.lock (fun x th h => (hi x th h).1)
    store := ⟨wf.dom, fun x th h _ ha => by simp [(hi x th h).1, Pc.active] at ha⟩
    rs := ReadStab.init c (fun x th h => (hi x th h).1)
    mta := MetaInv.init c wf.known wf.ext (fun x th h => (hi x th h).1)
    rm := RemoveInv.init c (fun x th h => ⟨(hi x th h).2.2.2.1, (hi x th h).2.2.1⟩)
    flush := FlushInv.init c (fun x th h => ⟨(hi x th h).1, (hi x th h).2.2.2.2⟩)
    hist := HistInv.init c wf.hist (fun x th h => (hi x th h).2.2.1) }

/-- Every invariant holds in every configuration reached by any schedule. -/
theorem allInv_run (sh : Shared) (wf : WF sh) (ops : List Op) (s : List Nat) :
    AllInv sh.maxId sh.hist (run s (start sh ops)) :=
  Sched.sched_inv step (AllInv sh.maxId sh.hist) (fun _ _ _ inv h => inv.step h) s _
    (AllInv.init sh wf ops)

/-- … and, at the granularity of a single-threaded executor, the handle stays clean. -/
theorem cleanInv_run (sh : Shared) (wf : WF sh) (hfine : sh.conf.fine = false) (ops : List Op) (s : List Nat) :
    CleanInv (run s (start sh ops)) := by
  have : AllInv sh.maxId sh.hist (run s (start sh ops)) ∧ CleanInv (run s (start sh ops)) :=
    Sched.sched_inv step (fun c => AllInv sh.maxId sh.hist c ∧ CleanInv c)
      (fun _ _ _ inv h => ⟨inv.1.step h, inv.2.step inv.1.mta inv.1.rs h⟩) s _
      ⟨AllInv.init sh wf ops,
       ⟨hfine, wf.clean, fun x th h => by simp [(start_idle sh ops x th h).2.2.1]⟩⟩
  exact this.2

theorem initShared_WF (conf : Config) : WF (initShared conf) := by
  refine ⟨rfl, rfl, fun _ => rfl, rfl, rfl, rfl, rfl, ?_, ?_⟩ <;> simp [initShared]

end AndaVerif.ConcColl
