import AndaVerif.Model.BTreeConc
/-
Assoc-list and thread-list lemmas for the concurrent B-tree model.
-/
namespace AndaVerif
namespace BTreeConc

theorem pget_perase (k k' : Int) : ∀ m : PMap, pget (perase m k) k' = if k = k' then none else pget m k'
  | [] => by simp [perase, pget]
  | (k₀, p) :: r => by
    have ih := pget_perase k k' r
    unfold perase at ih ⊢
    simp only [List.filter_cons]
    by_cases h0 : k₀ = k
    · subst h0
      simp only [beq_self_eq_true, Bool.not_true, Bool.false_eq_true, if_false, ih, pget]
      by_cases e : k₀ = k'
      · simp [e]
      · simp [e]
    · have : (k₀ == k) = false := by simpa using h0
      simp only [this, Bool.not_false, if_true, pget, ih]
      by_cases e : k₀ = k'
      · subst e
        have : ¬ k = k₀ := fun e' => h0 e'.symm
        simp [this]
      · simp [e]

theorem pget_pset (m : PMap) (k : Int) (p : Posting) (k' : Int) :
    pget (pset m k p) k' = if k = k' then some p else pget m k' := by
  unfold pset
  simp only [pget]
  by_cases e : k = k'
  · simp [e]
  · simp [e, pget_perase]

theorem pget_rebucket (f : Int → Nat) (k : Int) : ∀ m : PMap,
    pget (m.map (fun e => (e.1, { e.2 with bucket := f e.1 }))) k
      = (pget m k).map (fun p => { p with bucket := f k })
  | [] => rfl
  | (k₀, p) :: r => by
    simp only [List.map_cons, pget]
    by_cases e : k₀ = k
    · subst e; simp
    · simp [e, pget_rebucket f k r]

theorem mem_rebuild (f : Int → Nat) (k : Int) : ∀ (m : PMap) (p : Posting), pget m k = some p →
    (f k, k) ∈ m.map (fun e => (f e.1, e.1))
  | [], _, h => by simp [pget] at h
  | (k₀, p₀) :: r, p, h => by
    simp only [pget] at h
    by_cases e : k₀ = k
    · subst e; simp
    · simp only [e, if_false] at h
      exact List.mem_cons_of_mem _ (mem_rebuild f k r p h)

theorem pget_none_of_isEmpty (m : PMap) (h : m.isEmpty = true) (k : Int) : pget m k = none := by
  have : m = [] := by simpa using h
  subst this; rfl

theorem mem_unlist (l : List (Nat × Int)) (b : Nat) (k : Int) (e : Nat × Int) :
    e ∈ unlist l b k ↔ e ∈ l ∧ ¬ (e.1 = b ∧ e.2 = k) := by
  simp only [unlist, List.mem_filter, Bool.not_eq_true', Bool.and_eq_false_iff, beq_eq_false_iff_ne, ne_eq]
  constructor
  · rintro ⟨h1, h2⟩; exact ⟨h1, fun ⟨a, b⟩ => h2.elim (fun h => h a) (fun h => h b)⟩
  · rintro ⟨h1, h2⟩
    refine ⟨h1, ?_⟩
    by_cases a : e.1 = b
    · exact Or.inr (fun b' => h2 ⟨a, b'⟩)
    · exact Or.inl a

-- thread lists ---------------------------------------------------------------------------------------

theorem th_set_ne (l : List Thread) (t i : Nat) (x : Thread) (h : i ≠ t) : (l.set t x)[i]? = l[i]? := by
  rw [List.getElem?_set]
  have : ¬ t = i := fun e => h e.symm
  simp [this]

theorem th_set_self (l : List Thread) (t : Nat) (x y : Thread) (h : l[t]? = some y) : (l.set t x)[t]? = some x := by
  rw [List.getElem?_set]
  have : t < l.length := by
    rcases Nat.lt_or_ge t l.length with h' | h'
    · exact h'
    · rw [List.getElem?_eq_none h'] at h; cases h
  simp [this]

/-- a witness among the threads, after thread `t` was replaced: either another thread (unchanged) or
the new value of `t` -/
theorem ex_set {W : Thread → Prop} (l : List Thread) (t : Nat) (x y : Thread) (h : l[t]? = some y) :
    (∃ (i : Nat) (th : Thread), (l.set t x)[i]? = some th ∧ W th) ↔ (W x ∨ ∃ (i : Nat) (th : Thread), i ≠ t ∧ l[i]? = some th ∧ W th) := by
  constructor
  · rintro ⟨i, th, hi, hw⟩
    by_cases e : i = t
    · subst e
      rw [th_set_self l i x y h] at hi
      cases hi; exact Or.inl hw
    · rw [th_set_ne l t i x e] at hi
      exact Or.inr ⟨i, th, e, hi, hw⟩
  · rintro (hw | ⟨i, th, e, hi, hw⟩)
    · exact ⟨t, x, th_set_self l t x y h, hw⟩
    · exact ⟨i, th, by rw [th_set_ne l t i x e]; exact hi, hw⟩

theorem ex_split {W : Thread → Prop} (l : List Thread) (t : Nat) (y : Thread) (h : l[t]? = some y) :
    (∃ (i : Nat) (th : Thread), l[i]? = some th ∧ W th) ↔ (W y ∨ ∃ (i : Nat) (th : Thread), i ≠ t ∧ l[i]? = some th ∧ W th) := by
  constructor
  · rintro ⟨i, th, hi, hw⟩
    by_cases e : i = t
    · subst e; rw [h] at hi; cases hi; exact Or.inl hw
    · exact Or.inr ⟨i, th, e, hi, hw⟩
  · rintro (hw | ⟨i, th, _, hi, hw⟩)
    · exact ⟨t, y, h, hw⟩
    · exact ⟨i, th, hi, hw⟩

end BTreeConc
end AndaVerif
