import AndaVerif.Proofs.ConcLinE
/-
Linearization, real time: every call's linearization point lies between its issue and its return
(ghost stamps `t0 ≤ tl ≤ t1`, counted in actions), and the log is ordered by linearization time.
Hence a call that returned before another was issued precedes it in the explaining order.
-/
namespace AndaVerif.ConcColl

/-- the configuration after thread `t` took an action (the literal `step` builds) -/
def stepCfg (c : Cfg) (t : Nat) (th : Thread) (sh' : Shared) (th' : Thread) : Cfg :=
  { sh := sh', th := c.th.set t th', clock := c.clock + 1, stamps := c.stamps.set t (stampOf c.clock th th' (c.stamps.getD t {})) }

/-- linearization time of a logged call -/
def tlOf (c : Cfg) (x : Nat) : Nat := ((c.stamps[x]?).getD {}).tl

structure RtInv (c : Cfg) : Prop where
  t0 : ∀ (x : Nat) (th : Thread) (s : Stamp), c.th[x]? = some th → c.stamps[x]? = some s →
    th.pc ≠ .idle → s.t0 < c.clock
  tl : ∀ (x : Nat) (th : Thread) (s : Stamp), c.th[x]? = some th → c.stamps[x]? = some s →
    th.pred ≠ none → s.t0 ≤ s.tl ∧ s.tl < c.clock
  t1 : ∀ (x : Nat) (th : Thread) (s : Stamp), c.th[x]? = some th → c.stamps[x]? = some s →
    th.pc = .done → th.pred ≠ none → s.tl ≤ s.t1
  len : c.stamps.length = c.th.length
  sorted : (c.sh.glog.map (fun p => tlOf c p.1)).Pairwise (· > ·)

theorem RtInv.init (sh : Shared) (g0 : GhostInit sh) (ops : List Op) : RtInv (start sh ops) := by
  have hi : ∀ (x : Nat) (th : Thread), (start sh ops).th[x]? = some th → th.pc = .idle ∧ th.pred = none := by
    intro x th h
    simp only [start, List.getElem?_map, Option.map_eq_some_iff] at h
    obtain ⟨op, _, rfl⟩ := h
    simp [mkThread]
  refine ⟨?_, ?_, ?_, by simp [start], ?_⟩
  · intro x th s hx _ hpc; exact absurd (hi x th hx).1 hpc
  · intro x th s hx _ hp; exact absurd (hi x th hx).2 hp
  · intro x th s hx _ hpc; simp [(hi x th hx).1] at hpc
  · show ((sh.glog).map _).Pairwise _
    rw [g0.log]; simp

theorem RtInv.step {M0 : Nat} {H0 : List (Nat × Doc)} {conf : Config} {ops : List Op} {a0 : SpecState}
    {t : Nat} {c c' : Cfg} (rt : RtInv c) (inv : LinInv conf ops a0 c) (all : AllInv M0 H0 c) (cl : CleanInv c)
    (ok : OpsOK M0 ops) (h : step t c = some c') : RtInv c' := by
  obtain ⟨th, sh', th', hth, hst, rfl⟩ := step_elim h
  obtain ⟨hop, hnd, hni, _, _, _, _⟩ := stepThread_gate _ _ _ _ _ hst
  have hself : (c.th.set t th')[t]? = some th' := getElem?_set_self' _ _ _ _ hth
  have hother : ∀ x, x ≠ t → (c.th.set t th')[x]? = c.th[x]? := fun x hx => getElem?_set_ne' _ _ _ _ hx
  have pre := linPre_of_inv all cl inv ok t th hth hnd
  obtain ⟨_, hlin⟩ := stepThread_lin _ _ _ _ _ hst pre
  have hexp := inv.expected t th hth hnd
  obtain ⟨_, _, hlogexp⟩ := stepThread_pred _ _ _ _ _ hst cl.coarse (inv.noU t th hth) hexp
  have hpred0 : sh'.glog ≠ c.sh.glog → th.pred = none := fun hne => by rw [hexp, hlogexp hne]
  -- a call that has not been issued has no prediction
  have hidle : th.pc = .idle → th.pred = none := by
    intro hpc
    rw [hexp]
    unfold Thread.expected
    split <;> simp [hpc]
  have htlt : t < c.stamps.length := by
    rw [rt.len]
    rcases Nat.lt_or_ge t c.th.length with hlt | hge
    · exact hlt
    · simp [List.getElem?_eq_none hge] at hth
  obtain ⟨s, hs⟩ : ∃ s, c.stamps[t]? = some s := ⟨_, List.getElem?_eq_getElem htlt⟩
  have hgetD : c.stamps.getD t {} = s := by simp [List.getD_eq_getElem?_getD, hs]
  have hsself : (c.stamps.set t (stampOf c.clock th th' (c.stamps.getD t {})))[t]? =
      some (stampOf c.clock th th' s) := by
    rw [hgetD]; exact getElem?_set_self' _ _ _ _ hs
  have hsother : ∀ x, x ≠ t → (c.stamps.set t (stampOf c.clock th th' (c.stamps.getD t {})))[x]? = c.stamps[x]? :=
    fun x hx => getElem?_set_ne' _ _ _ _ hx
  -- the prediction of the acting call: kept, or set now
  have hpred' : th'.pred = th.pred ∨ (th.pred = none ∧ th'.pred ≠ none ∧ sh'.glog ≠ c.sh.glog) := by
    rcases hlin with ⟨_, _, hp⟩ | ⟨r, hl, hp, _⟩
    · exact Or.inl hp
    · have hne : sh'.glog ≠ c.sh.glog := by
        rw [hl]; exact fun h => by simpa using congrArg List.length h
      exact Or.inr ⟨hpred0 hne, by simp [hp], hne⟩
  have hs0 := rt.t0 t th s hth hs
  have hsl := rt.tl t th s hth hs
  refine ⟨?_, ?_, ?_, ?_, ?_⟩
  · intro x thx sx hx hsx hpc
    show sx.t0 < c.clock + 1
    by_cases hxt : x = t
    · subst hxt
      rw [hsself] at hsx; cases hsx
      simp only [stampOf]
      split
      · omega
      · next hi => have := hs0 hi; omega
    · rw [hother x hxt] at hx; rw [hsother x hxt] at hsx
      have := rt.t0 x thx sx hx hsx hpc; omega
  · intro x thx sx hx hsx hp
    show sx.t0 ≤ sx.tl ∧ sx.tl < c.clock + 1
    by_cases hxt : x = t
    · subst hxt
      rw [hself] at hx; cases hx
      rw [hsself] at hsx; cases hsx
      simp only [stampOf]
      rcases hpred' with hsame | ⟨hnone, hsome, _⟩
      · have hp0 : th.pred ≠ none := by rw [← hsame]; exact hp
        have hni0 : th.pc ≠ .idle := fun hi => hp0 (hidle hi)
        obtain ⟨h1, h2⟩ := hsl hp0
        simp only [hni0, if_false, hp0, false_and]
        omega
      · simp only [hnone, hsome, ne_eq, not_false_eq_true, and_self, if_true]
        split
        · omega
        · next hi => have := hs0 hi; omega
    · rw [hother x hxt] at hx; rw [hsother x hxt] at hsx
      obtain ⟨h1, h2⟩ := rt.tl x thx sx hx hsx hp
      exact ⟨h1, by omega⟩
  · intro x thx sx hx hsx hpc hp
    by_cases hxt : x = t
    · subst hxt
      rw [hself] at hx; cases hx
      rw [hsself] at hsx; cases hsx
      simp only [stampOf, hpc, if_true]
      split
      · omega
      · next hnn =>
        have hp0 : th.pred ≠ none := by
          rcases hpred' with hsame | ⟨hnone, hsome, _⟩
          · rw [← hsame]; exact hp
          · exact absurd ⟨hnone, hsome⟩ hnn
        have := (hsl hp0).2; omega
    · rw [hother x hxt] at hx; rw [hsother x hxt] at hsx
      exact rt.t1 x thx sx hx hsx hpc hp
  · show (c.stamps.set t _).length = (c.th.set t th').length
    simp [rt.len]
  · -- the log stays ordered by linearization time
    have htl_other : ∀ x, x ≠ t →
        tlOf (stepCfg c t th sh' th') x = tlOf c x := by
      intro x hx
      simp only [tlOf, stepCfg]
      rw [hsother x hx]
    have htl_self_keep : th.pred ≠ none →
        tlOf (stepCfg c t th sh' th') t = tlOf c t := by
      intro hp0
      simp only [tlOf, stepCfg]
      rw [hsself, hs]
      simp [stampOf, hp0]
    -- logged calls keep their stamp
    have hkeep : ∀ p, p ∈ c.sh.glog →
        tlOf (stepCfg c t th sh' th') p.1 = tlOf c p.1 := by
      intro p hp
      by_cases hpt : p.1 = t
      · rw [hpt]
        apply htl_self_keep
        obtain ⟨th2, h2, hp2⟩ := (inv.mem p.1 p.2).mp hp
        rw [hpt, hth] at h2; cases h2
        simp [hp2]
      · exact htl_other p.1 hpt
    rcases hlin with ⟨hl, _, _⟩ | ⟨r, hl, hpr, _⟩
    · show (sh'.glog.map (fun p => tlOf (stepCfg c t th sh' th') p.1)).Pairwise _
      rw [hl, List.map_congr_left hkeep]
      exact rt.sorted
    · show (sh'.glog.map (fun p => tlOf (stepCfg c t th sh' th') p.1)).Pairwise _
      have hne : sh'.glog ≠ c.sh.glog := by
        rw [hl]; exact fun h => by simpa using congrArg List.length h
      have hnone := hpred0 hne
      rw [hl, List.map_cons, List.pairwise_cons, List.map_congr_left hkeep]
      refine ⟨?_, rt.sorted⟩
      intro a ha
      simp only [List.mem_map] at ha
      obtain ⟨p, hp, rfl⟩ := ha
      -- the new entry's time is the current clock; older entries are earlier
      have hnow : tlOf (stepCfg c t th sh' th') t = c.clock := by
        simp only [tlOf, stepCfg]
        rw [hsself]
        simp [stampOf, hnone, hpr]
      show _ > tlOf c p.1
      rw [hnow]
      obtain ⟨thp, hxp, hpp⟩ := (inv.mem p.1 p.2).mp hp
      have hlt : p.1 < c.stamps.length := by
        rw [rt.len]
        rcases Nat.lt_or_ge p.1 c.th.length with hlt | hge
        · exact hlt
        · simp [List.getElem?_eq_none hge] at hxp
      have hsp : c.stamps[p.1]? = some (c.stamps[p.1]'hlt) := List.getElem?_eq_getElem hlt
      have := (rt.tl p.1 thp _ hxp hsp (by simp [hpp])).2
      simp only [tlOf, hsp, Option.getD_some]
      omega

/-- in a list ordered by decreasing key, an element with a larger key stands nearer the head -/
theorem pairwise_gt_order {α : Type} (f : α → Nat) :
    ∀ (l : List α), (l.map f).Pairwise (· > ·) → ∀ a b, a ∈ l → b ∈ l → f a < f b →
      ∃ l1 l2, l = l1 ++ b :: l2 ∧ a ∈ l2 := by
  intro l
  induction l with
  | nil => intro _ a b ha; cases ha
  | cons x xs ih =>
    intro hp a b ha hb hlt
    rw [List.map_cons, List.pairwise_cons] at hp
    obtain ⟨hx, hxs⟩ := hp
    rcases List.mem_cons.mp hb with rfl | hb'
    · rcases List.mem_cons.mp ha with rfl | ha'
      · omega
      · exact ⟨[], xs, rfl, ha'⟩
    · rcases List.mem_cons.mp ha with rfl | ha'
      · have := hx (f b) (List.mem_map_of_mem hb')
        omega
      · obtain ⟨l1, l2, hl, hm⟩ := ih hxs a b ha' hb' hlt
        exact ⟨x :: l1, l2, by rw [hl]; rfl, hm⟩

theorem rtInv_run (sh : Shared) (wf : WF sh) (ag : Agree sh) (g0 : GhostInit sh)
    (hfine : sh.conf.fine = false) (ops : List Op) (ok : OpsOK sh.maxId ops) (s : List Nat) :
    RtInv (run s (start sh ops)) ∧ LinInv sh.conf ops (specOf sh) (run s (start sh ops)) := by
  have : ((AllInv sh.maxId sh.hist (run s (start sh ops)) ∧ CleanInv (run s (start sh ops))) ∧
      LinInv sh.conf ops (specOf sh) (run s (start sh ops))) ∧ RtInv (run s (start sh ops)) :=
    Sched.sched_inv step
      (fun c => ((AllInv sh.maxId sh.hist c ∧ CleanInv c) ∧ LinInv sh.conf ops (specOf sh) c) ∧ RtInv c)
      (fun _ _ _ inv h =>
        ⟨⟨⟨inv.1.1.1.step h, inv.1.1.2.step inv.1.1.1.mta inv.1.1.1.rs h⟩, inv.1.2.step inv.1.1.1 inv.1.1.2 ok h⟩,
         inv.2.step inv.1.2 inv.1.1.1 inv.1.1.2 ok h⟩) s _
      ⟨⟨⟨AllInv.init sh wf ops,
        ⟨hfine, wf.clean, fun x th h => by simp [(start_idle sh ops x th h).2.2.1]⟩⟩,
       LinInv.init sh ag g0 ops⟩, RtInv.init sh g0 ops⟩
  exact ⟨this.2, this.1.2⟩

end AndaVerif.ConcColl
