import AndaVerif.Proofs.DurBasic
/-
C01 helper lemmas, part 2: the durability invariant `DurInv` (a property of the durable state
alone — it is what survives a crash), the relation `Sync` between a healthy handle and the durable
state, and their preservation by every single backend mutation the code issues.
-/
namespace AndaVerif.Durability

def hasIntent (D : Durable) (id : Nat) : Prop := ∃ it ∈ D.intents, it.id = id

def imgKey (D : Durable) (id : Nat) (k : Nat × Nat) : Prop :=
  ∃ it ∈ D.intents, it.id = id ∧ imgHas it k = true

/-- upper end of the reopen repair scan -/
def bound (D : Durable) : Nat := max D.metaMax D.wm

/--
`DurInv D` — every disagreement between the durable pieces is one the reopen path repairs:

* `docs_le`  every document object lies at or below the scan bound `max(meta.max_id, watermark)`;
* `cp_le`    the storage checkpoint never runs ahead of the persisted `max_document_id`;
* `ids_le`   the persisted bitmap only holds ids at or below the persisted `max_document_id`;
* `orphan`   an object missing from the bitmap is above the checkpoint (the scan finds it) or has
             a retained intent (the replay registers it);
* `dead`     a bitmap id without an object has a retained intent (the replay drops it);
* `stale`    a committed posting the stored document does not own is named by a retained image;
* `missing`  a posting the stored document owns but the committed index lacks belongs to an id
             above the checkpoint or with a retained intent.
-/
structure DurInv (D : Durable) : Prop where
  docs_le : ∀ id, (D.docs id).isSome = true → id ≤ bound D
  cp_le : D.cp ≤ D.metaMax
  ids_le : ∀ id, D.ids id = true → id ≤ D.metaMax
  orphan : ∀ id, (D.docs id).isSome = true → D.ids id = false → D.cp < id ∨ hasIntent D id
  dead : ∀ id, D.docs id = none → D.ids id = true → hasIntent D id
  stale : ∀ id k, D.idx id k = true → keysOf (D.docs id) k = false → imgKey D id k
  missing : ∀ id k, keysOf (D.docs id) k = true → D.idx id k = false → D.cp < id ∨ hasIntent D id

/-- bitmap and committed indexes describe exactly the stored documents -/
structure Cons (D : Durable) : Prop where
  ids_eq : ∀ id, D.ids id = (D.docs id).isSome
  idx_eq : ∀ id k, D.idx id k = keysOf (D.docs id) k

/-- a healthy handle (`Sync0`: the part that also holds in the middle of a flush) -/
structure Sync0 (D : Durable) (V : Volatile) : Prop where
  max_ge_meta : D.metaMax ≤ V.maxId
  docs_le_max : ∀ id, (D.docs id).isSome = true → id ≤ V.maxId
  wm_le : V.wm ≤ bound D
  wm_dur : D.wm ≤ max V.wm (V.maxId + stride)
  ids_eq : ∀ id, V.ids id = (D.docs id).isSome
  idx_eq : ∀ id k, V.idx id k = keysOf (D.docs id) k
  clean_idx : ∀ ix, ix ∉ V.dirty → ∀ id k, k.1 = ix → D.idx id k = V.idx id k
  cp_eq : V.cp = D.cp

structure Sync (D : Durable) (V : Volatile) : Prop extends Sync0 D V where
  saved_ids : V.version ≤ V.savedVer → ∀ id, D.ids id = V.ids id

/-! ### pure facts -/

theorem keysOf_some (d : Doc) (k : Nat × Nat) : keysOf (some d) k = decide (k ∈ d.keys) := rfl
theorem keysOf_none (k : Nat × Nat) : keysOf none k = false := rfl

theorem Cons.durInv {D : Durable} (h : Cons D) (hd : ∀ id, (D.docs id).isSome = true → id ≤ bound D)
    (hc : D.cp ≤ D.metaMax) (hi : ∀ id, D.ids id = true → id ≤ D.metaMax) : DurInv D where
  docs_le := hd
  cp_le := hc
  ids_le := hi
  orphan := by intro id h1 h2; rw [h.ids_eq] at h2; simp [h1] at h2
  dead := by intro id h1 h2; rw [h.ids_eq, h1] at h2; simp at h2
  stale := by intro id k h1 h2; rw [h.idx_eq] at h1; simp [h1] at h2
  missing := by intro id k h1 h2; rw [h.idx_eq] at h2; simp [h1] at h2

theorem hasIntent_mono {D D' : Durable} {id : Nat} (h : ∀ it ∈ D.intents, it ∈ D'.intents) :
    hasIntent D id → hasIntent D' id := by
  rintro ⟨it, hm, hid⟩; exact ⟨it, h it hm, hid⟩

theorem imgKey_mono {D D' : Durable} {id : Nat} {k : Nat × Nat} (h : ∀ it ∈ D.intents, it ∈ D'.intents) :
    imgKey D id k → imgKey D' id k := by
  rintro ⟨it, hm, hid⟩; exact ⟨it, h it hm, hid⟩

/-! ### single mutations preserve `DurInv` -/

/-- publishing a larger watermark -/
theorem DurInv.putWm {D : Durable} (h : DurInv D) {t : Nat} (ht : D.wm ≤ t) : DurInv (putWm t D) where
  docs_le := by
    intro id hs
    have := h.docs_le id hs
    simp only [bound, AndaVerif.Durability.putWm] at *
    omega
  cp_le := h.cp_le
  ids_le := h.ids_le
  orphan := h.orphan
  dead := h.dead
  stale := h.stale
  missing := h.missing

/-- recording an intent -/
theorem DurInv.putIntent {D : Durable} (h : DurInv D) (it : Intent) : DurInv (putIntent it D) := by
  have hm : ∀ i ∈ D.intents, i ∈ (AndaVerif.Durability.putIntent it D).intents := by
    intro i hi; simp [AndaVerif.Durability.putIntent, hi]
  exact {
    docs_le := h.docs_le
    cp_le := h.cp_le
    ids_le := h.ids_le
    orphan := fun id h1 h2 => (h.orphan id h1 h2).imp (fun x => x) (hasIntent_mono hm)
    dead := fun id h1 h2 => hasIntent_mono hm (h.dead id h1 h2)
    stale := fun id k h1 h2 => imgKey_mono hm (h.stale id k h1 h2)
    missing := fun id k h1 h2 => (h.missing id k h1 h2).imp (fun x => x) (hasIntent_mono hm) }

/-- `storage.create` of a fresh id that is already covered by the watermark and above the checkpoint -/
theorem DurInv.putDoc_fresh {D : Durable} (h : DurInv D) {id : Nat} (d : Doc)
    (hnone : D.docs id = none) (hb : id ≤ bound D) (hcp : D.cp < id) : DurInv (putDoc id d D) where
  docs_le := by
    intro j hs
    by_cases hj : j = id
    · subst hj; simpa [putDoc, bound] using hb
    · have : (D.docs j).isSome = true := by simpa [putDoc, hj] using hs
      simpa [putDoc, bound] using h.docs_le j this
  cp_le := h.cp_le
  ids_le := h.ids_le
  orphan := by
    intro j hs hi
    by_cases hj : j = id
    · subst hj; exact Or.inl hcp
    · have : (D.docs j).isSome = true := by simpa [putDoc, hj] using hs
      exact h.orphan j this hi
  dead := by
    intro j hn hi
    by_cases hj : j = id
    · subst hj; simp [putDoc] at hn
    · have : D.docs j = none := by simpa [putDoc, hj] using hn
      exact h.dead j this hi
  stale := by
    intro j k hx hk
    by_cases hj : j = id
    · subst hj
      exact h.stale j k hx (by simp [hnone, keysOf])
    · have : keysOf (D.docs j) k = false := by simpa [putDoc, hj] using hk
      exact h.stale j k hx this
  missing := by
    intro j k hk hx
    by_cases hj : j = id
    · subst hj; exact Or.inl hcp
    · have : keysOf (D.docs j) k = true := by simpa [putDoc, hj] using hk
      exact h.missing j k this hx

/-- a compensating delete after a `create` of a fresh id restores the state exactly -/
theorem delDoc_putDoc_fresh {D : Durable} {id : Nat} (d : Doc) (hnone : D.docs id = none) :
    delDoc id (putDoc id d D) = D := by
  cases D
  simp only [putDoc, delDoc, Durable.mk.injEq, and_true]
  funext j
  by_cases hj : j = id <;> simp_all

theorem delDoc_absent {D : Durable} {id : Nat} (hnone : D.docs id = none) : delDoc id D = D := by
  cases D
  simp only [delDoc, Durable.mk.injEq, and_true]
  funext j
  by_cases hj : j = id <;> simp_all

/-- the versioned PUT of an update whose intent (before, after) is retained -/
theorem DurInv.putDoc_update {D : Durable} (h : DurInv D) {id : Nat} {old new : Doc}
    (hold : D.docs id = some old) {it : Intent} (hit : it ∈ D.intents) (hid : it.id = id)
    (hprev : it.prev = some old) : DurInv (putDoc id new D) where
  docs_le := by
    intro j hs
    by_cases hj : j = id
    · subst hj; simpa [putDoc, bound] using h.docs_le j (by simp [hold])
    · have : (D.docs j).isSome = true := by simpa [putDoc, hj] using hs
      simpa [putDoc, bound] using h.docs_le j this
  cp_le := h.cp_le
  ids_le := h.ids_le
  orphan := by
    intro j hs hi
    by_cases hj : j = id
    · subst hj; exact Or.inr ⟨it, hit, hid⟩
    · have : (D.docs j).isSome = true := by simpa [putDoc, hj] using hs
      exact h.orphan j this hi
  dead := by
    intro j hn hi
    by_cases hj : j = id
    · subst hj; simp [putDoc] at hn
    · have : D.docs j = none := by simpa [putDoc, hj] using hn
      exact h.dead j this hi
  stale := by
    intro j k hx hk
    by_cases hj : j = id
    · subst hj
      by_cases hko : keysOf (some old) k = true
      · exact ⟨it, hit, hid, by simp [imgHas, hprev, hko]⟩
      · exact h.stale j k hx (by simpa [hold] using hko)
    · have : keysOf (D.docs j) k = false := by simpa [putDoc, hj] using hk
      exact h.stale j k hx this
  missing := by
    intro j k hk hx
    by_cases hj : j = id
    · subst hj; exact Or.inr ⟨it, hit, hid⟩
    · have : keysOf (D.docs j) k = true := by simpa [putDoc, hj] using hk
      exact h.missing j k this hx

/-- the DELETE of a remove whose intent (before, none) is retained -/
theorem DurInv.delDoc_remove {D : Durable} (h : DurInv D) {id : Nat} {doc : Doc}
    (hold : D.docs id = some doc) {it : Intent} (hit : it ∈ D.intents) (hid : it.id = id)
    (hprev : it.prev = some doc) : DurInv (delDoc id D) where
  docs_le := by
    intro j hs
    by_cases hj : j = id
    · subst hj; simp [delDoc] at hs
    · have : (D.docs j).isSome = true := by simpa [delDoc, hj] using hs
      simpa [delDoc, bound] using h.docs_le j this
  cp_le := h.cp_le
  ids_le := h.ids_le
  orphan := by
    intro j hs hi
    by_cases hj : j = id
    · subst hj; simp [delDoc] at hs
    · have : (D.docs j).isSome = true := by simpa [delDoc, hj] using hs
      exact h.orphan j this hi
  dead := by
    intro j hn hi
    by_cases hj : j = id
    · subst hj; exact ⟨it, hit, hid⟩
    · have : D.docs j = none := by simpa [delDoc, hj] using hn
      exact h.dead j this hi
  stale := by
    intro j k hx hk
    by_cases hj : j = id
    · subst hj
      by_cases hko : keysOf (some doc) k = true
      · exact ⟨it, hit, hid, by simp [imgHas, hprev, hko]⟩
      · exact h.stale j k hx (by simpa [hold] using hko)
    · have : keysOf (D.docs j) k = false := by simpa [delDoc, hj] using hk
      exact h.stale j k hx this
  missing := by
    intro j k hk hx
    by_cases hj : j = id
    · subst hj; simp [delDoc, keysOf] at hk
    · have : keysOf (D.docs j) k = true := by simpa [delDoc, hj] using hk
      exact h.missing j k this hx

/-- committing (part of) the in-memory indexes of a healthy handle: each committed posting becomes
what the stored document owns -/
theorem DurInv.idx_toward {D D' : Durable} (h : DurInv D)
    (hsame : D'.docs = D.docs ∧ D'.ids = D.ids ∧ D'.metaMax = D.metaMax ∧ D'.cp = D.cp ∧ D'.wm = D.wm ∧ D'.intents = D.intents)
    (hidx : ∀ id k, D'.idx id k = D.idx id k ∨ D'.idx id k = keysOf (D.docs id) k) : DurInv D' := by
  obtain ⟨hd, hi, hm, hc, hw, hn⟩ := hsame
  have hI : ∀ id, hasIntent D id → hasIntent D' id := fun id => by simp [hasIntent, hn]
  have hK : ∀ id k, imgKey D id k → imgKey D' id k := fun id k => by simp [imgKey, hn]
  exact {
    docs_le := by intro id hs; simpa [bound, hm, hw] using h.docs_le id (by simpa [hd] using hs)
    cp_le := by simpa [hc, hm] using h.cp_le
    ids_le := by intro id hs; simpa [hm] using h.ids_le id (by simpa [hi] using hs)
    orphan := by
      intro id h1 h2
      rw [hc]
      exact (h.orphan id (by simpa [hd] using h1) (by simpa [hi] using h2)).imp (fun x => x) (hI id)
    dead := by
      intro id h1 h2
      exact hI id (h.dead id (by simpa [hd] using h1) (by simpa [hi] using h2))
    stale := by
      intro id k h1 h2
      rw [hd] at h2
      rcases hidx id k with he | he
      · exact hK id k (h.stale id k (by rw [← he]; exact h1) h2)
      · rw [he, h2] at h1; simp at h1
    missing := by
      intro id k h1 h2
      rw [hd] at h1
      rw [hc]
      rcases hidx id k with he | he
      · exact (h.missing id k h1 (by rw [← he]; exact h2)).imp (fun x => x) (hI id)
      · rw [he, h1] at h2; simp at h2 }

/-- `store_metadata`: a `max_document_id` at least as large as the persisted one -/
theorem DurInv.putMeta {D : Durable} (h : DurInv D) {m ver : Nat} (hm : D.metaMax ≤ m) : DurInv (putMeta m ver D) where
  docs_le := by
    intro id hs
    have := h.docs_le id hs
    simp only [bound, AndaVerif.Durability.putMeta] at *
    omega
  cp_le := by have := h.cp_le; simp only [AndaVerif.Durability.putMeta]; omega
  ids_le := by intro id hs; have := h.ids_le id hs; simp only [AndaVerif.Durability.putMeta] at *; omega
  orphan := h.orphan
  dead := h.dead
  stale := h.stale
  missing := h.missing

/-- `store_ids` of a bitmap that is exactly the set of stored documents, all at or below the
persisted `max_document_id` -/
theorem DurInv.putIds {D : Durable} (h : DurInv D) {ids : Nat → Bool}
    (heq : ∀ id, ids id = (D.docs id).isSome) (hle : ∀ id, ids id = true → id ≤ D.metaMax) : DurInv (putIds ids D) where
  docs_le := h.docs_le
  cp_le := h.cp_le
  ids_le := hle
  orphan := by intro id h1 h2; simp only [AndaVerif.Durability.putIds] at *; rw [heq, h1] at h2; simp at h2
  dead := by intro id h1 h2; simp only [AndaVerif.Durability.putIds] at *; rw [heq, h1] at h2; simp at h2
  stale := h.stale
  missing := h.missing

end AndaVerif.Durability
