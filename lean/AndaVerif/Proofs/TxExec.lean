import AndaVerif.Gen.NexusOrderFacts
import AndaVerif.Proofs.TxPlan
/-
`Transaction::commit` and `kml::execute` under the order generated from the source:
a closed form of the commit, and what each kind of outcome leaves behind.
-/
namespace AndaVerif.Tx
open AndaVerif.Gen.NexusOrder

def journalEntry (tx : Tx) (time : Nat) (w : List Change) : JEntry :=
  { seq := tx.seq, status := if w.isEmpty then .noEffect else .committed, changes := w, time := time }

/-- the commit in closed form, under the generated order: three checks, then the write loop, then
discard / journal / flush -/
def commitClosed (s : Store) (tx : Tx) (time : Nat) : Store × Outcome :=
  if tx.dry then (discardShells s tx.shells, .dryRun (changeRecords tx.staged))
  else
    match checkKeys s tx.staged [] with
    | .error e => (discardShells s tx.shells, .refusedCheck e)
    | .ok _ =>
        match writeLoop tx.seq s tx.staged [] with
        | (s', w, some e) => (s', .refusedWrite e w)
        | (s', w, none) =>
            ({ (discardUnstaged s' tx.shells (w.map (·.id))) with
                 journal := journalEntry tx time w :: (discardUnstaged s' tx.shells (w.map (·.id))).journal },
             .done tx.seq (if w.isEmpty then .noEffect else .committed) w)

theorem commit_eq (s : Store) (tx : Tx) (time : Nat) :
    commitWith commitOrder checkFailureDiscardsShells s tx time = commitClosed s tx time := by
  rw [gen_check_failure_discards]
  unfold commitWith commitClosed
  split
  · rfl
  · rw [gen_commit_order]
    cases hk : checkKeys s tx.staged [] with
    | error e => simp [List.foldl, commitStep, hk, finish]
    | ok u =>
        rcases hw : writeLoop tx.seq s tx.staged [] with ⟨s', w, oe⟩
        cases oe with
        | some e => simp [List.foldl, commitStep, hk, hw, finish]
        | none => simp [List.foldl, commitStep, hk, hw, finish, journalEntry, discardUnstaged]

/-! ## The write loop keeps journal, seq and next; shells only disappear -/

theorem writeOne_env {s s' : Store} {seq : Nat} {i : Id} {x : Staged} (h : writeOne s seq i x = .ok s') :
    s'.envs = s.envs ∧ s'.envVersion = s.envVersion := by
  unfold writeOne at h
  split at h
  · cases h
  · split at h
    · cases h
    · cases h; exact ⟨rfl, rfl⟩

theorem writeLoop_env (seq : Nat) (s : Store) (m : List (Id × Staged)) (acc : List Change) :
    (writeLoop seq s m acc).1.envs = s.envs ∧ (writeLoop seq s m acc).1.envVersion = s.envVersion := by
  induction m generalizing s acc with
  | nil => exact ⟨rfl, rfl⟩
  | cons p r ih =>
      obtain ⟨i, x⟩ := p
      simp only [writeLoop]
      split
      · split
        · exact ⟨rfl, rfl⟩
        · rename_i s1 h1
          have := writeOne_env h1
          have ih' := ih s1 (acc ++ [changeOf i x])
          exact ⟨ih'.1.trans this.1, ih'.2.trans this.2⟩
      · exact ih s acc

theorem writeOne_meta {s s' : Store} {seq : Nat} {i : Id} {x : Staged} (h : writeOne s seq i x = .ok s') :
    s'.journal = s.journal ∧ s'.seq = s.seq ∧ s'.next = s.next := by
  unfold writeOne at h
  split at h
  · cases h
  · split at h
    · cases h
    · cases h; exact ⟨rfl, rfl, rfl⟩

theorem writeLoop_meta (seq : Nat) (s : Store) (m : List (Id × Staged)) (acc : List Change) :
    (writeLoop seq s m acc).1.journal = s.journal ∧ (writeLoop seq s m acc).1.seq = s.seq ∧
    (writeLoop seq s m acc).1.next = s.next := by
  induction m generalizing s acc with
  | nil => exact ⟨rfl, rfl, rfl⟩
  | cons p r ih =>
      obtain ⟨i, x⟩ := p
      simp only [writeLoop]
      split
      · split
        · exact ⟨rfl, rfl, rfl⟩
        · rename_i s1 h1
          have := writeOne_meta h1
          have ih' := ih s1 (acc ++ [changeOf i x])
          exact ⟨ih'.1.trans this.1, ih'.2.1.trans this.2.1, ih'.2.2.trans this.2.2⟩
      · exact ih s acc

/-! ## `kml::execute` in closed form -/

/-- the planning state of a statement -/
def planned (s : Store) (st : Stmt) : PS := plan st.clauses (begin s st.dry)

theorem planned_inv {s : Store} (hwf : WF s) (st : Stmt) :
    RInv { s with seq := s.seq + 1 } (s.seq + 1) st.dry (planned s st) :=
  (RInv.begin hwf st.dry).plan st.clauses


/-- the store a successful commit leaves -/
def committedStore (s' : Store) (tx : Tx) (time : Nat) (w : List Change) : Store :=
  { (discardUnstaged s' tx.shells (w.map (·.id))) with
      journal := journalEntry tx time w :: (discardUnstaged s' tx.shells (w.map (·.id))).journal }

/-- the four ways a commit ends -/
inductive CommitCase (s : Store) (tx : Tx) (time : Nat) (r : Store × Outcome) : Prop where
  | dry (hd : tx.dry = true) (hr : r = (discardShells s tx.shells, .dryRun (changeRecords tx.staged)))
  | check (hd : tx.dry = false) (e : Err) (hk : checkKeys s tx.staged [] = .error e)
      (hr : r = (discardShells s tx.shells, .refusedCheck e))
  | write (hd : tx.dry = false) (u : Unit) (hk : checkKeys s tx.staged [] = .ok u) (s' : Store) (w : List Change) (e : Err)
      (hw : writeLoop tx.seq s tx.staged [] = (s', w, some e)) (hr : r = (s', .refusedWrite e w))
  | done (hd : tx.dry = false) (u : Unit) (hk : checkKeys s tx.staged [] = .ok u) (s' : Store) (w : List Change)
      (hw : writeLoop tx.seq s tx.staged [] = (s', w, none))
      (hr : r = (committedStore s' tx time w, .done tx.seq (if w.isEmpty then .noEffect else .committed) w))

theorem commitClosed_cases (s : Store) (tx : Tx) (time : Nat) : CommitCase s tx time (commitClosed s tx time) := by
  unfold commitClosed
  cases hd : tx.dry with
  | true => exact .dry hd (by simp)
  | false =>
      simp only [Bool.false_eq_true, if_false]
      cases hk : checkKeys s tx.staged [] with
      | error e => exact .check hd e hk rfl
      | ok u =>
          rcases hw : writeLoop tx.seq s tx.staged [] with ⟨s', w, oe⟩
          cases oe with
          | some e => exact .write hd u hk s' w e hw rfl
          | none => exact .done hd u hk s' w hw rfl

/-- how `kml::execute` ends -/
inductive ExecCase (s : Store) (st : Stmt) (r : Store × Outcome) : Prop where
  | plan (e : Err) (he : (planned s st).err = some e)
      (hr : r = (discardShells (planned s st).s (planned s st).tx.shells, .refusedPlan e))
  | commit (he : (planned s st).err = none)
      (hc : CommitCase (planned s st).s (planned s st).tx st.time r)

theorem exec_cases (s : Store) (st : Stmt) : ExecCase s st (exec s st) := by
  have hab : abortOnPlanError = true := by decide
  simp only [exec, execWith, commit_eq, hab, if_true]
  change ExecCase s st (match (planned s st).err with
    | some e => (discardShells (planned s st).s (planned s st).tx.shells, Outcome.refusedPlan e)
    | none => commitClosed (planned s st).s (planned s st).tx st.time)
  cases he : (planned s st).err with
  | some e => exact .plan e he rfl
  | none => exact .commit he (commitClosed_cases _ _ _)

/-! ## Refusals and dry runs -/

/-- everything a refusal — while planning or by a pre-commit check — leaves: the Space sequence
moved, nothing else -/
theorem exec_refused {s : Store} (hwf : WF s) (st : Stmt) (e : Err)
    (h : (exec s st).2 = .refusedPlan e ∨ (exec s st).2 = .refusedCheck e) :
    (∀ i, (exec s st).1.elems i = s.elems i) ∧ (exec s st).1.journal = s.journal ∧
    (exec s st).1.vlog = s.vlog ∧ (exec s st).1.seq = s.seq + 1 := by
  have hinv := planned_inv hwf st
  have quiet : (∀ i, (discardShells (planned s st).s (planned s st).tx.shells).elems i = s.elems i) ∧
      (discardShells (planned s st).s (planned s st).tx.shells).journal = s.journal ∧
      (discardShells (planned s st).s (planned s st).tx.shells).vlog = s.vlog ∧
      (discardShells (planned s st).s (planned s st).tx.shells).seq = s.seq + 1 :=
    ⟨fun i => hinv.discard_raw i, hinv.journal, hinv.vlog, hinv.seq⟩
  rcases exec_cases s st with ⟨e', he, hr⟩ | ⟨he, hc⟩
  · rw [hr]; exact quiet
  · cases hc with
    | dry hd hr => rw [hr] at h; simp at h
    | check hd e' hk hr => rw [hr]; exact quiet
    | write hd u hk s' w e' hw hr => rw [hr] at h; simp at h
    | done hd u hk s' w hw hr => rw [hr] at h; simp at h

/-- a dry run: the Space sequence moved, nothing else (the raw collections included) -/
theorem exec_dry {s : Store} (hwf : WF s) (st : Stmt) (hd : st.dry = true) :
    (∀ i, (exec s st).1.elems i = s.elems i) ∧ (exec s st).1.journal = s.journal ∧
    (exec s st).1.vlog = s.vlog ∧ (exec s st).1.seq = s.seq + 1 ∧
    ((∃ e, (exec s st).2 = .refusedPlan e) ∨ ∃ cs, (exec s st).2 = .dryRun cs) := by
  have hinv := planned_inv hwf st
  have hdry : (planned s st).tx.dry = true := hinv.txdry.trans hd
  rcases exec_cases s st with ⟨e', he, hr⟩ | ⟨he, hc⟩
  · rw [hr]
    exact ⟨fun i => hinv.discard_raw i, hinv.journal, hinv.vlog, hinv.seq, .inl ⟨e', rfl⟩⟩
  · cases hc with
    | dry hd' hr =>
        rw [hr]
        exact ⟨fun i => hinv.discard_raw i, hinv.journal, hinv.vlog, hinv.seq, .inr ⟨_, rfl⟩⟩
    | check hd' e' hk hr => rw [hdry] at hd'; cases hd'
    | write hd' u hk s' w e' hw hr => rw [hdry] at hd'; cases hd'
    | done hd' u hk s' w hw hr => rw [hdry] at hd'; cases hd'

/-- every statement, whatever its outcome, takes exactly the next Space sequence, and only a
commit adds a journal row — carrying that sequence -/
theorem exec_seq_journal {s : Store} (hwf : WF s) (st : Stmt) :
    (exec s st).1.seq = s.seq + 1 ∧
    ((exec s st).1.journal = s.journal ∨
      ∃ w, (exec s st).2 = .done (s.seq + 1) (if w.isEmpty then .noEffect else .committed) w ∧
        (exec s st).1.journal = { seq := s.seq + 1, status := if w.isEmpty then .noEffect else .committed,
                                  changes := w, time := st.time } :: s.journal) := by
  have hinv := planned_inv hwf st
  rcases exec_cases s st with ⟨e', he, hr⟩ | ⟨he, hc⟩
  · rw [hr]; exact ⟨hinv.seq, .inl hinv.journal⟩
  · cases hc with
    | dry hd' hr => rw [hr]; exact ⟨hinv.seq, .inl hinv.journal⟩
    | check hd' e' hk hr => rw [hr]; exact ⟨hinv.seq, .inl hinv.journal⟩
    | write hd' u hk s' w e' hw hr =>
        have hm := writeLoop_meta (planned s st).tx.seq (planned s st).s (planned s st).tx.staged []
        rw [hw] at hm
        rw [hr]; exact ⟨hm.2.1.trans hinv.seq, .inl (hm.1.trans hinv.journal)⟩
    | done hd' u hk s' w hw hr =>
        have hm := writeLoop_meta (planned s st).tx.seq (planned s st).s (planned s st).tx.staged []
        rw [hw] at hm
        rw [hr]
        refine ⟨hm.2.1.trans hinv.seq, .inr ⟨w, ?_, ?_⟩⟩
        · simp [hinv.txseq]
        · simp only [committedStore, journalEntry, discardUnstaged, discardShells, hinv.txseq]
          rw [hm.1, hinv.journal]

/-- a statement never touches the Schema Environment registry -/
theorem exec_env {s : Store} (hwf : WF s) (st : Stmt) :
    (exec s st).1.envs = s.envs ∧ (exec s st).1.envVersion = s.envVersion := by
  have hinv := planned_inv hwf st
  rcases exec_cases s st with ⟨e', he, hr⟩ | ⟨he, hc⟩
  · rw [hr]; exact hinv.env
  · cases hc with
    | dry hd' hr => rw [hr]; exact hinv.env
    | check hd' e' hk hr => rw [hr]; exact hinv.env
    | write hd' u hk s' w e' hw hr =>
        have hm := writeLoop_env (planned s st).tx.seq (planned s st).s (planned s st).tx.staged []
        rw [hw] at hm
        rw [hr]; exact ⟨hm.1.trans hinv.env.1, hm.2.trans hinv.env.2⟩
    | done hd' u hk s' w hw hr =>
        have hm := writeLoop_env (planned s st).tx.seq (planned s st).s (planned s st).tx.staged []
        rw [hw] at hm
        rw [hr]; exact ⟨hm.1.trans hinv.env.1, hm.2.trans hinv.env.2⟩

end AndaVerif.Tx
