import AndaVerif.Proofs.ObjStoreStep
/-
Histories: calls, re-opens and crashes (a call cut after any number of its backend steps, followed by
a restart with a cold cache). Every state such a history reaches satisfies the wrapper invariant.
-/
namespace AndaVerif.ObjStore
open Gen.SidecarOrder

theorem crashState_inv {w : W} (hw : WInv w) (now : Nat) (c : Call) (n : Nat) : WInv (crashState w now c n) :=
  WInv.cold w.flavor ((cutsOK_stepsOf hw now c) n).1

end AndaVerif.ObjStore
