import AndaVerif.Model.KmlSafe
/-
C16 helper lemmas, part 5: the ASSERT shorthand.
-/
namespace AndaVerif.KmlGuard

open AndaVerif.Gen

/-- the optional ASSERT members and the Assertion field each one becomes (Spec §55.1) -/
def optionalRenames : List (String × String) :=
  [("confidence", "confidence"), ("at", "asserted_at"), ("valid", "valid_time")]

/-- the fields the normative expansion carries: the four mandatory ones (stance defaulted), then
exactly the optional members the author wrote, renamed -/
def expectedFields (ph : String) (by_ mode : MutationValue) (members : Assignments) : Assignments :=
  [("proposition", .handle ph), ("asserted_by", by_), ("mode", mode),
   ("stance", (lookupMember "stance" members).getD (.value supportLit))] ++
    optionalRenames.filterMap (fun mf => (lookupMember mf.1 members).map (fun v => (mf.2, v)))

/-- one `("evidence", ref) {role: "support"}` edge per cited artifact -/
def expectedEdges (members : Assignments) : Option (List StructuralEdge) :=
  match lookupMember "evidence" members with
  | none => none
  | some v =>
    match evidenceRefs v with
    | [] => none
    | r :: rs => some ((r :: rs).map evidenceEdge)

def expectedExpansion (src : AssertSrc) (seq : Nat) (by_ mode : MutationValue) (ck : Option Scalar) : List MutationClause :=
  let ah := src.handle.getD ("#assert" ++ toString seq)
  let ph := ah ++ "#proposition"
  [ .ensureProposition { handle := some ph, subject := src.subject, predicate := src.predicate,
                         object := src.object, expectVersion := false },
    .createAssertion { handle := ah, clientKey := ck, setFields := some (expectedFields ph by_ mode src.members),
                       setFacets := [], setStructural := expectedEdges src.members } ] ++
  (match src.superseding with
   | none => []
   | some t => [.supersedeAssertion { target := t, by_ := .handle ah, expectState := false }])

theorem assertSetFields_eq (ph : String) (by_ mode : MutationValue) (members : Assignments) :
    assertSetFields ph by_ mode members = expectedFields ph by_ mode members := by
  simp only [assertSetFields, expectedFields, optionalRenames, List.filterMap_cons, List.filterMap_nil]
  cases lookupMember "confidence" members <;> cases lookupMember "at" members <;>
    cases lookupMember "valid" members <;> rfl

theorem assertEdges_eq (members : Assignments) : assertEdges members = expectedEdges members := by
  simp only [assertEdges, expectedEdges]
  cases lookupMember "evidence" members with
  | none => rfl
  | some v =>
    simp only
    cases evidenceRefs v <;> simp

theorem assertClauses_eq (src : AssertSrc) (seq : Nat) (by_ mode : MutationValue) (ck : Option Scalar) :
    assertClauses src seq by_ mode ck = expectedExpansion src seq by_ mode ck := by
  simp only [assertClauses, expectedExpansion, assertSetFields_eq, assertEdges_eq]
  cases src.superseding <;> rfl

theorem desugarAssert_ok {src : AssertSrc} {seq : Nat} {cs : List MutationClause}
    (h : desugarAssert src seq = .ok cs) :
    (∀ m ∈ src.members, m.1 ∈ KipGuardTables.assertMembers) ∧
    ∃ by_ mode ck, lookupMember "by" src.members = some by_ ∧ lookupMember "mode" src.members = some mode ∧
      assertClientKey (lookupMember "key" src.members) = .ok ck ∧
      cs = expectedExpansion src seq by_ mode ck := by
  unfold desugarAssert at h
  split at h
  · cases h
  · rename_i hmem
    refine ⟨?_, ?_⟩
    · intro m hm
      have := hmem
      simp only [List.any_eq_true, not_exists, not_and, Bool.not_eq_true] at this
      have hm' := this m hm
      simpa using hm'
    · cases hby : lookupMember "by" src.members with
      | none => rw [hby] at h; cases h
      | some by_ =>
        rw [hby] at h
        simp only at h
        cases hmode : lookupMember "mode" src.members with
        | none => rw [hmode] at h; cases h
        | some mode =>
          rw [hmode] at h
          simp only at h
          cases hck : assertClientKey (lookupMember "key" src.members) with
          | error e => rw [hck] at h; cases h
          | ok ck =>
            rw [hck] at h
            simp only at h
            refine ⟨by_, mode, ck, rfl, rfl, rfl, ?_⟩
            cases h
            exact assertClauses_eq src seq by_ mode ck

theorem desugarAssert_refuses_unknown {src : AssertSrc} {seq : Nat} {m : String × MutationValue}
    (hm : m ∈ src.members) (hu : m.1 ∉ KipGuardTables.assertMembers) :
    desugarAssert src seq = .error .unknownMember := by
  unfold desugarAssert
  have : (src.members.any fun m => !KipGuardTables.assertMembers.contains m.1) = true := by
    rw [List.any_eq_true]
    exact ⟨m, hm, by simpa using hu⟩
  rw [if_pos this]

theorem desugarAssert_refuses_missing {src : AssertSrc} {seq : Nat}
    (h : lookupMember "by" src.members = none ∨ lookupMember "mode" src.members = none) :
    ∃ e, desugarAssert src seq = .error e := by
  unfold desugarAssert
  split
  · exact ⟨_, rfl⟩
  · cases hby : lookupMember "by" src.members with
    | none => exact ⟨_, rfl⟩
    | some b =>
      rcases h with h | h
      · rw [hby] at h; cases h
      · simp only [h]; exact ⟨_, rfl⟩

end AndaVerif.KmlGuard
