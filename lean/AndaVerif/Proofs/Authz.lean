/-
Helper lemmas for the governance decision model (property C19).
-/
import AndaVerif.Model.Authz

namespace AndaVerif.Authz

/-! ## `minByKey` -/

theorem minByKey_eq_none {α : Type} (key : α → Nat) : ∀ l : List α, minByKey key l = none → l = []
  | [], _ => rfl
  | x :: xs, h => by
    simp only [minByKey] at h
    cases hm : minByKey key xs with
    | none => simp [hm] at h
    | some y => simp [hm] at h; split at h <;> simp at h

theorem minByKey_mem {α : Type} (key : α → Nat) : ∀ (l : List α) (x : α), minByKey key l = some x → x ∈ l
  | [], x, h => by simp [minByKey] at h
  | a :: as, x, h => by
    simp only [minByKey] at h
    cases hm : minByKey key as with
    | none => simp [hm] at h; simp [h]
    | some y =>
      simp [hm] at h
      split at h
      · simp at h; subst h; exact List.mem_cons_of_mem _ (minByKey_mem key as y hm)
      · simp at h; simp [h]

theorem minByKey_le {α : Type} (key : α → Nat) : ∀ (l : List α) (x : α), minByKey key l = some x → ∀ y ∈ l, key x ≤ key y
  | [], x, h => by simp [minByKey] at h
  | a :: as, x, h => by
    intro y hy
    simp only [minByKey] at h
    cases hm : minByKey key as with
    | none =>
      simp [hm] at h; subst h
      have := minByKey_eq_none key as hm; subst this
      simp at hy; subst hy; exact Nat.le_refl _
    | some m =>
      simp [hm] at h
      have ih := minByKey_le key as m hm
      split at h
      · rename_i hlt
        simp at h; subst h
        rcases List.mem_cons.mp hy with rfl | hy'
        · exact Nat.le_of_lt hlt
        · exact ih y hy'
      · rename_i hnlt
        simp at h; subst h
        rcases List.mem_cons.mp hy with rfl | hy'
        · exact Nat.le_refl _
        · exact Nat.le_trans (Nat.le_of_not_lt hnlt) (ih y hy')

/-! ## `authorize`, stage by stage -/

theorem denied_decision (ea : EA) (perm : String) : (ea.denied perm).decision = .deny := rfl
theorem denied_used (ea : EA) (perm : String) : (ea.denied perm).authoritiesUsed = [] := rfl

/-- The stage tag a refusal carries (it does not enter any decision field the theorems speak about). -/
def denyStage (ea : EA) (perm : String) (res : Resource) (a : Auth) (now : Nat) : String :=
  if ea.principalStatus ≠ "active" then "inactive"
  else if ea.spaceStatus = "suspended" then "suspended"
  else if ea.denyMatches perm (ea.effectiveResource res) a now then "explicit_deny"
  else "nothing_grants:" ++ (ea.effectiveResource res).label

theorem authorize_inactive (ea : EA) (perm : String) (res : Resource) (a : Auth) (now : Nat)
    (h : ea.principalStatus ≠ "active") :
    authorize ea perm res a now = ea.denied perm (denyStage ea perm res a now) := by
  simp [authorize, denyStage, h]

theorem authorize_suspended (ea : EA) (perm : String) (res : Resource) (a : Auth) (now : Nat)
    (h : ea.spaceStatus = "suspended") :
    authorize ea perm res a now = ea.denied perm (denyStage ea perm res a now) := by
  unfold authorize denyStage
  split
  · rfl
  · simp [h]

theorem authorize_deny (ea : EA) (perm : String) (res : Resource) (a : Auth) (now : Nat)
    (h : ea.denyMatches perm (ea.effectiveResource res) a now = true) :
    authorize ea perm res a now = ea.denied perm (denyStage ea perm res a now) := by
  unfold authorize denyStage
  split
  · rfl
  · split
    · rfl
    · simp [h]

/-- When no allow exists the decision is the denial. -/
theorem authorize_no_allows (ea : EA) (perm : String) (res : Resource) (a : Auth) (now : Nat)
    (h : ea.allows perm (ea.effectiveResource res) a now = []) :
    authorize ea perm res a now = ea.denied perm (denyStage ea perm res a now) := by
  unfold authorize denyStage
  split
  · rfl
  · split
    · rfl
    · simp only []
      split
      · rfl
      · simp [h, minByKey]

/-- The shape of every decision that is not the denial: active Principal, Space not suspended, no
matching deny, and a chosen least-restrictive member of `allows`. -/
theorem authorize_not_denied (ea : EA) (perm : String) (res : Resource) (a : Auth) (now : Nat)
    (h : (authorize ea perm res a now).decision ≠ .deny) :
    ea.principalStatus = "active" ∧ ea.spaceStatus ≠ "suspended" ∧
    ea.denyMatches perm (ea.effectiveResource res) a now = false ∧
    ∃ chosen, minByKey Candidate.restrictiveness (ea.allows perm (ea.effectiveResource res) a now) = some chosen ∧
      (authorize ea perm res a now).authoritiesUsed = [chosen.id] ∧
      (authorize ea perm res a now).constraints = chosen.constraints := by
  by_cases h1 : ea.principalStatus ≠ "active"
  · rw [authorize_inactive ea perm res a now h1] at h; exact absurd rfl h
  by_cases h2 : ea.spaceStatus = "suspended"
  · rw [authorize_suspended ea perm res a now h2] at h; exact absurd rfl h
  cases h3 : ea.denyMatches perm (ea.effectiveResource res) a now with
  | true => rw [authorize_deny ea perm res a now h3] at h; exact absurd rfl h
  | false =>
    refine ⟨by simpa using h1, h2, rfl, ?_⟩
    cases hm : minByKey Candidate.restrictiveness (ea.allows perm (ea.effectiveResource res) a now) with
    | none =>
      have := minByKey_eq_none _ _ hm
      rw [authorize_no_allows ea perm res a now this] at h; exact absurd rfl h
    | some chosen =>
      refine ⟨chosen, rfl, ?_, ?_⟩ <;>
      · unfold authorize
        simp only [h1, h2, h3, hm]
        simp
        split <;> rfl

/-! ## membership in `allows` -/

theorem mem_allows (ea : EA) (perm : String) (r : Resource) (a : Auth) (now : Nat) (c : Candidate)
    (h : c ∈ ea.allows perm r a now) :
    (ea.isOwner = true ∧ c = ownerCandidate ea.principalId) ∨
    (c ∈ ea.candidates ∧ candidateMatches c perm r a now = true) ∨
    (∃ s ∈ ea.statements, s.effect = "allow" ∧ statementMatches ea s perm r a now = true ∧ c = statementCandidate ea s) := by
  unfold EA.allows at h
  rcases List.mem_append.mp h with h | h
  · rcases List.mem_append.mp h with h | h
    · left
      by_cases ho : ea.isOwner = true
      · simp [ho] at h; exact ⟨ho, h⟩
      · simp [ho] at h
    · right; left
      simpa [List.mem_filter] using h
  · right; right
    simp only [List.mem_map, EA.allowStatements, List.mem_filter] at h
    obtain ⟨s, ⟨hs, hm⟩, rfl⟩ := h
    simp at hm
    exact ⟨s, hs, hm.1, hm.2, rfl⟩

/-! ## containment implies matching (delegation attenuation) -/

theorem covers_of_narrows (p c : List String) (v : String) (h : narrows p c = true) (hc : covers c v = true) :
    covers p v = true := by
  unfold narrows at h
  unfold covers at *
  cases hp : p.isEmpty with
  | true => simp
  | false =>
    simp [hp] at h
    obtain ⟨hne, hall⟩ := h
    have hce : c.isEmpty = false := by simpa using hne
    simp [hce] at hc
    simp
    exact ⟨hc.1, hall v hc.2⟩

theorem scopeMatches_of_contains (p c : Scope) (r : Resource) (h : p.contains c = true) (hc : scopeMatches c r = true) :
    scopeMatches p r = true := by
  unfold Scope.contains at h
  unfold scopeMatches at *
  simp only [Bool.and_eq_true] at h hc ⊢
  obtain ⟨⟨⟨h1, h2⟩, h3⟩, h4⟩ := h
  obtain ⟨⟨⟨c1, c2⟩, c3⟩, c4⟩ := hc
  exact ⟨⟨⟨covers_of_narrows _ _ _ h1 c1, covers_of_narrows _ _ _ h2 c2⟩, covers_of_narrows _ _ _ h3 c3⟩,
    covers_of_narrows _ _ _ h4 c4⟩

theorem reaches_of_contains (p c : Constraints) (r : Resource) (h : p.contains c = true)
    (hc : reachesClassification c r = true) : reachesClassification p r = true := by
  unfold Constraints.contains at h
  simp only [Bool.and_eq_true] at h
  obtain ⟨⟨⟨_, _⟩, hcl⟩, _⟩ := h
  unfold withinCeiling at hcl
  unfold reachesClassification at *
  by_cases hp : p.maxClassification = ""
  · simp [hp]
  · simp [hp] at hcl
    obtain ⟨hcne, hle⟩ := hcl
    simp [hcne] at hc
    simp [hp]
    exact Nat.le_trans hc hle

theorem conditionsHold_iff (c : Conditions) (a : Auth) (now : Nat) :
    conditionsHold c a now = true ↔
      (c.validFrom = 0 ∨ c.validFrom ≤ now) ∧ (c.validUntil = 0 ∨ now < c.validUntil) ∧
      authStrengthRank c.minAuthStrength ≤ authStrengthRank a.authStrength ∧
      purposeRank c.minPurposeAssurance ≤ purposeRank a.purposeAssurance ∧
      (c.purpose = [] ∨ a.purpose ∈ c.purpose) := by
  unfold conditionsHold
  split
  · rename_i h; simp; intro h1; omega
  · rename_i h1
    split
    · rename_i h; simp; intro _ h2; omega
    · rename_i h2
      split
      · rename_i h; simp; intro _ _ h3; omega
      · rename_i h3
        split
        · rename_i h; simp; intro _ _ _ h4; omega
        · rename_i h4
          split
          · rename_i h
            simp at h
            simp
            intro _ _ _ _
            exact ⟨by simpa using h.1, h.2⟩
          · rename_i h5
            simp at h5
            simp
            refine ⟨by omega, by omega, by omega, by omega, ?_⟩
            by_cases he : c.purpose = []
            · exact Or.inl he
            · exact Or.inr (h5 (by simpa using he))

theorem conditionsHold_of_contains (p c : Conditions) (a : Auth) (now : Nat) (h : p.contains c = true)
    (hc : conditionsHold c a now = true) : conditionsHold p a now = true := by
  unfold Conditions.contains at h
  simp only [Bool.and_eq_true, decide_eq_true_eq] at h
  obtain ⟨⟨⟨⟨hpu, hpa⟩, has⟩, hfrom⟩, huntil⟩ := h
  rw [conditionsHold_iff] at hc ⊢
  obtain ⟨c1, c2, c3, c4, c5⟩ := hc
  unfold atLeast at hfrom
  unfold atMost at huntil
  simp at hfrom huntil
  refine ⟨by omega, by omega, by omega, by omega, ?_⟩
  unfold narrows at hpu
  by_cases he : p.purpose = []
  · exact Or.inl he
  · right
    have hpe : p.purpose.isEmpty = false := by simpa using he
    simp [hpe] at hpu
    obtain ⟨hcne, hall⟩ := hpu
    rcases c5 with c5 | c5
    · exact absurd c5 hcne
    · exact hall _ c5

theorem any_congr_mem {α : Type} (f g : α → Bool) : ∀ (l : List α), (∀ x ∈ l, f x = g x) → l.any f = l.any g
  | [], _ => rfl
  | x :: xs, h => by
    simp only [List.any_cons, h x List.mem_cons_self, any_congr_mem f g xs (fun y hy => h y (List.mem_cons_of_mem _ hy))]

theorem filter_congr_mem {α : Type} (f g : α → Bool) : ∀ (l : List α), (∀ x ∈ l, f x = g x) → l.filter f = l.filter g
  | [], _ => rfl
  | x :: xs, h => by
    simp only [List.filter_cons, h x List.mem_cons_self, filter_congr_mem f g xs (fun y hy => h y (List.mem_cons_of_mem _ hy))]

/-! ## containment is transitive (attenuation composes along a chain) -/

theorem narrows_trans (p q r : List String) (h1 : narrows p q = true) (h2 : narrows q r = true) : narrows p r = true := by
  unfold narrows at *
  cases hp : p.isEmpty with
  | true => simp
  | false =>
    simp [hp] at h1
    obtain ⟨hqne, hqp⟩ := h1
    have hqe : q.isEmpty = false := by simpa using hqne
    simp [hqe] at h2
    obtain ⟨hrne, hrq⟩ := h2
    simp
    exact ⟨hrne, fun x hx => hqp x (hrq x hx)⟩

/-- Two non-empty lists with nothing in common: neither narrows the other. -/
theorem narrows_disjoint (p q : List String) (hp : p ≠ []) (hq : q ≠ []) (hd : ∀ x ∈ q, x ∉ p) : narrows p q = false := by
  unfold narrows
  have hpe : p.isEmpty = false := by simpa using hp
  cases q with
  | nil => exact absurd rfl hq
  | cons x xs =>
    have hx : x ∉ p := hd x (by simp)
    simp [hpe]
    intro h
    exact absurd h hx

theorem withinCeiling_trans (rank : String → Nat) (p q r : String)
    (h1 : withinCeiling rank p q = true) (h2 : withinCeiling rank q r = true) : withinCeiling rank p r = true := by
  unfold withinCeiling at *
  by_cases hp : p = ""
  · simp [hp]
  · simp [hp] at h1
    obtain ⟨hq, hqp⟩ := h1
    simp [hq] at h2
    obtain ⟨hr, hrq⟩ := h2
    simp [hp, hr]
    omega

theorem Scope.contains_trans (p q r : Scope) (h1 : p.contains q = true) (h2 : q.contains r = true) : p.contains r = true := by
  unfold Scope.contains at *
  simp only [Bool.and_eq_true] at *
  obtain ⟨⟨⟨a1, a2⟩, a3⟩, a4⟩ := h1
  obtain ⟨⟨⟨b1, b2⟩, b3⟩, b4⟩ := h2
  exact ⟨⟨⟨narrows_trans _ _ _ a1 b1, narrows_trans _ _ _ a2 b2⟩, narrows_trans _ _ _ a3 b3⟩, narrows_trans _ _ _ a4 b4⟩

theorem Constraints.contains_trans (p q r : Constraints) (h1 : p.contains q = true) (h2 : q.contains r = true) :
    p.contains r = true := by
  unfold Constraints.contains at *
  simp only [Bool.and_eq_true] at *
  obtain ⟨⟨⟨⟨a1, a2⟩, a3⟩, a4⟩, a5⟩ := h1
  obtain ⟨⟨⟨⟨b1, b2⟩, b3⟩, b4⟩, b5⟩ := h2
  refine ⟨⟨⟨⟨narrows_trans _ _ _ a1 b1, ?_⟩, withinCeiling_trans _ _ _ _ a3 b3⟩, withinCeiling_trans _ _ _ _ a4 b4⟩, ?_⟩
  · cases hp : p.maxResults with
    | none => rfl
    | some pm =>
      simp only [hp] at a2
      cases hq : q.maxResults with
      | none => simp [hq] at a2
      | some qm =>
        simp only [hq] at a2 b2
        cases hr : r.maxResults with
        | none => simp [hr] at b2
        | some rm =>
          simp only [hr] at b2
          simp at a2 b2 ⊢
          omega
  · cases hpe : p.mayExport <;> cases hqe : q.mayExport <;> cases hre : r.mayExport <;> simp_all

theorem Conditions.contains_trans (p q r : Conditions) (h1 : p.contains q = true) (h2 : q.contains r = true) :
    p.contains r = true := by
  unfold Conditions.contains at *
  simp only [Bool.and_eq_true, decide_eq_true_eq] at *
  obtain ⟨⟨⟨⟨a1, a2⟩, a3⟩, a4⟩, a5⟩ := h1
  obtain ⟨⟨⟨⟨b1, b2⟩, b3⟩, b4⟩, b5⟩ := h2
  refine ⟨⟨⟨⟨narrows_trans _ _ _ a1 b1, by omega⟩, by omega⟩, ?_⟩, ?_⟩
  · unfold atLeast at *
    simp at a4 b4 ⊢
    rcases a4 with a4 | a4
    · exact Or.inl a4
    · rcases b4 with b4 | b4
      · exact absurd b4 a4.1
      · exact Or.inr ⟨b4.1, by omega⟩
  · unfold atMost at *
    simp at a5 b5 ⊢
    rcases a5 with a5 | a5
    · exact Or.inl a5
    · rcases b5 with b5 | b5
      · exact absurd b5 a5.1
      · exact Or.inr ⟨b5.1, by omega⟩

end AndaVerif.Authz
