import AndaVerif.Proofs.ConcLock
/-
The document objects: who may write `data/{id}.cbor`, that the object a read–modify–write read is
still the stored one when it writes (no lost update), and that in-flight adds own a free path.
-/
namespace AndaVerif.ConcColl

theorem stepThread_store (sh : Shared) (t : Nat) (th : Thread) (sh' : Shared) (th' : Thread)
    (h : stepThread sh t th = some (sh', th')) (i : Nat) :
    sh'.store i = sh.store i ∨
    (th.crit = some i ∧ (sh'.store i = none ∨ sh.store i ≠ none)) ∨
    (th.isAdd = true ∧ th.pc = .createWait ∧ i = th.id ∧ sh.store i = none) := by
  step_cases h
  all_goals (try simp [*, Thread.crit, Thread.isAdd])
  all_goals grind

theorem stepThread_create_done (sh : Shared) (t : Nat) (th : Thread) (sh' : Shared) (th' : Thread)
    (h : stepThread sh t th = some (sh', th')) (hk : th.isAdd = true) (hpc : th.pc = .createWait) :
    th'.pc = .done := by
  step_cases h
  all_goals simp_all [Thread.isAdd]

structure StoreInv (c : Cfg) : Prop where
  /-- objects only exist at allocated ids -/
  dom : ∀ (i : Nat), c.sh.store i ≠ none → i ≤ c.sh.maxId
  /-- the path of an in-flight add is free -/
  free : ∀ (x : Nat) (th : Thread), c.th[x]? = some th → th.isAdd = true → th.pc.active = true →
    c.sh.store th.id = none

theorem StoreInv.step {M0 t : Nat} {c c' : Cfg} (inv : StoreInv c) (ids : IdsInv M0 c)
    (h : step t c = some c') : StoreInv c' := by
  have ids' : IdsInv M0 c' := ids.step h
  obtain ⟨th, sh', th', hth, hst, rfl⟩ := step_elim h
  obtain ⟨hop, hnd, hni, _, _, _, _⟩ := stepThread_gate _ _ _ _ _ hst
  obtain ⟨hna, ha⟩ := stepThread_alloc _ _ _ _ _ hst
  have hself : (c.th.set t th')[t]? = some th' := getElem?_set_self' _ _ _ _ hth
  have hmono : c.sh.maxId ≤ sh'.maxId := by
    have := ids'.mono; have := ids.mono
    rcases hk : th.isAdd with _ | _
    · rw [hna hk]; exact Nat.le_refl _
    · obtain ⟨h1, h2, _⟩ := ha hk
      by_cases hi : th.pc = .idle
      · rcases h1 hi with ⟨_, hm, _⟩ | ⟨_, hm⟩ <;> omega
      · rw [(h2 hi).2]; exact Nat.le_refl _
  have hdom : ∀ (i : Nat), sh'.store i ≠ none → i ≤ sh'.maxId := by
    intro i hne
    rcases stepThread_store _ _ _ _ _ hst i with he | ⟨_, hn | hs⟩ | ⟨hk, hpc, hi, _⟩
    · rw [he] at hne; exact Nat.le_trans (inv.dom i hne) hmono
    · exact absurd hn hne
    · exact Nat.le_trans (inv.dom i hs) hmono
    · have hact : th.pc.active = true := by simp [hpc, Pc.active]
      have := (ids.range t th hth hk (ids.flight t th hth hk hact)).2
      omega
  refine ⟨hdom, ?_⟩
  intro x thx hx hk hact
  by_cases hxt : x = t
  · subst hxt
    rw [hself] at hx; cases hx
    have hk0 : th.isAdd = true := (isAdd_of_op hop) ▸ hk
    obtain ⟨h1, h2, _⟩ := ha hk0
    by_cases hi : th.pc = .idle
    · rcases h1 hi with ⟨_, _, hd, _⟩ | ⟨he, hm⟩
      · simp [hd, Pc.active] at hact
      · -- freshly allocated: above every object
        rcases hs : sh'.store th'.id with _ | v
        · rfl
        · have := hdom th'.id (by simp [hs])
          have : sh'.store th'.id = c.sh.store th'.id := by
            rcases stepThread_store _ _ _ _ _ hst th'.id with he' | ⟨hc, _⟩ | ⟨_, hpc, _, _⟩
            · exact he'
            · unfold Thread.crit at hc; unfold Thread.isAdd at hk0; split at hk0 <;> simp_all
            · simp [hi] at hpc
          rw [this] at hs
          have := inv.dom th'.id (by simp [hs])
          omega
    · have hid : th'.id = th.id := (h2 hi).1
      have hact0 : th.pc.active = true := by rw [Pc.active_iff]; exact ⟨hi, hnd⟩
      have hfree := inv.free x th hth hk0 hact0
      rw [hid]
      rcases stepThread_store _ _ _ _ _ hst th.id with he | ⟨_, hn | hs⟩ | ⟨_, hpc, _, _⟩
      · rw [he]; exact hfree
      · exact hn
      · exact absurd hfree hs
      · -- it was the create itself: the call has returned
        have : th'.pc = .done := by
          have := stepThread_create_done _ _ _ _ _ hst hk0 hpc
          exact this
        simp [this, Pc.active] at hact
  · rw [getElem?_set_ne' _ _ _ _ hxt] at hx
    have hfree := inv.free x thx hx hk hact
    rcases stepThread_store _ _ _ _ _ hst thx.id with he | ⟨_, hn | hs⟩ | ⟨hk0, hpc, hi, _⟩
    · rw [he]; exact hfree
    · exact hn
    · exact absurd hfree hs
    · -- another add created at our id: impossible, ids are distinct
      have hact0 : th.pc.active = true := by simp [hpc, Pc.active]
      exact absurd hi (ids.distinct x t thx th hx hth hxt hk hk0 (ids.flight x thx hx hk hact))

end AndaVerif.ConcColl
