import AndaVerif.Model.Lifecycle
/-
C06 — invariants of the lifecycle / gate / cancellation machine (`Model/Lifecycle`).

`TI s i t`   what thread `i` and the shared state agree on (who holds the gate, nobody is inside a
             body once the handle is CLOSED / DELETED, a dropper's listing covers the store);
`Inv c`      `TI` for every thread + shape of the gate;
`Eff`        what a single step / cancellation may do to the shared state (frame conditions).
`inv_run`    `Inv` holds in every configuration reachable from `init` under every schedule,
             every spawn, every cancellation point.
-/
namespace AndaVerif.Lifecycle

structure TI (s : Shared) (i : Nat) (t : Thread) : Prop where
  excl : t.holdsExcl = true ↔ s.gateW = some i
  shared : t.holdsShared = true ↔ i ∈ s.gateR
  retired : (s.lc = .closed ∨ s.lc = .deleted) → t.bodyRegion = false
  deleted : s.lc = .deleted → t.dropRegion = false
  snap : ∀ snap r, t.pc = .dDel snap r → ∀ o ∈ s.store, o ∈ snap
  storeEmpty : t.pc = .dStore → s.store = []
  relDel : t.pc = .dRelease true → s.lc = .deleted
  closerLc : t.closeRegion = true → s.lc = .closing ∨ s.lc = .deleting
  dropLc : t.dropStarted = true → s.lc ≠ .active
  pre : t.preBody = true → writesBy i s.log = 0

/-- what a log entry may look like: a mutator never wrote while CLOSED / DELETED, `close` only while
CLOSING (or DELETING, when a delete began during its flush), `drop_data` never while ACTIVE / after DELETED -/
def entryOK (e : Nat × L × W) : Prop :=
  match e.2.2 with
  | .mut => e.2.1 ≠ .closed ∧ e.2.1 ≠ .deleted
  | .close => e.2.1 = .closing ∨ e.2.1 = .deleting
  | .drop => e.2.1 ≠ .active ∧ e.2.1 ≠ .deleted

structure Inv (c : Cfg) : Prop where
  gate : ∀ w, c.s.gateW = some w → c.s.gateR = []
  boundW : ∀ w, c.s.gateW = some w → w < c.ts.length
  boundR : ∀ r ∈ c.s.gateR, r < c.ts.length
  thr : ∀ i t, c.ts[i]? = some t → TI c.s i t
  delEmpty : c.s.lc = .deleted → c.s.store = []
  logB : ∀ e ∈ c.s.log, e.1 < c.ts.length
  logSound : ∀ e ∈ c.s.log, entryOK e

/-- what one step / one cancellation of thread `i` may do to the shared state -/
structure Eff (i : Nat) (s s' : Shared) (t : Thread) : Prop where
  gate :
    (s'.gateW = s.gateW ∧ s'.gateR = s.gateR) ∨
    (s.gateW = none ∧ s.gateR = [] ∧ s'.gateW = some i ∧ s'.gateR = []) ∨
    (s.gateW = none ∧ s'.gateW = none ∧ s'.gateR = i :: s.gateR) ∨
    (s'.gateW = (if s.gateW = some i then none else s.gateW) ∧ s'.gateR = s.gateR.filter (· ≠ i))
  lc : s'.lc = s.lc ∨ (s'.lc ≠ .closed ∧ s'.lc ≠ .deleted) ∨ t.holdsExcl = true
  store : s'.store = s.store ∨ t.holdsExcl = true ∨ t.holdsShared = true
  lcAct : s'.lc = .active → s.lc = .active
  lcDel : s.lc = .deleted → s'.lc = .deleted ∨ t.bodyRegion = true
  lcClose : s'.lc = s.lc ∨ s'.lc = .deleting ∨ s.lc = .active ∨ t.holdsExcl = true ∨ t.holdsShared = true
  becomesDeleted : s'.lc = .deleted → s.lc = .deleted ∨ (t.pc = .dStore ∧ s'.store = s.store)
  storeRegion : s'.store = s.store ∨ t.bodyRegion = true ∨ t.dropRegion = true
  log : s'.log = s.log ∨ (s'.log = (i, s.lc, .mut) :: s.log ∧ t.mutBody = true) ∨
    (s'.log = (i, s.lc, .close) :: s.log ∧ t.closeRegion = true) ∨
    (s'.log = (i, s.lc, .drop) :: s.log ∧ t.dropRegion = true)

theorem poisonL_cases (l : L) : poisonL l = l ∨ poisonL l = .poisoned := by
  cases l <;> simp [poisonL]

theorem poisonL_ne_active (l : L) : poisonL l ≠ .active := by
  cases l <;> simp [poisonL]

theorem poisonL_eq_deleted {l : L} (h : poisonL l = .deleted) : l = .deleted := by
  cases l <;> simp_all [poisonL]

theorem writesBy_cons_ne {i j : Nat} {l : L} {w : W} {log : List (Nat × L × W)} (h : j ≠ i) :
    writesBy i ((j, l, w) :: log) = writesBy i log := by
  have : ((j, l, w).1 == i) = false := by simpa using h
  simp [writesBy, this]

/-! ### a step of thread `i`: effect on the shared state, and on `i`'s own invariant -/

set_option maxHeartbeats 2000000 in
theorem stepT_eff {i : Nat} {s s' : Shared} {t t' : Thread}
    (h : stepT i s t = some (s', t')) : Eff i s s' t := by
  unfold stepT at h
  split at h
  all_goals (repeat' split at h)
  all_goals (try (simp at h; done))
  all_goals (simp only [Option.some.injEq, Prod.mk.injEq] at h; obtain ⟨rfl, rfl⟩ := h)
  all_goals
    constructor <;>
    simp_all [Thread.holdsExcl, Thread.holdsShared, Thread.bodyRegion, Thread.dropRegion, Thread.closeRegion,
      Thread.mutBody, Shared.release, Shared.putObj, Shared.delObj]
  all_goals (try (rcases poisonL_cases s.lc with hp | hp <;> simp [hp]; done))
  all_goals (try (cases hl : s.lc <;> simp_all [poisonL]; done))

set_option maxHeartbeats 2000000 in
theorem stepT_self {i : Nat} {s s' : Shared} {t t' : Thread}
    (h : stepT i s t = some (s', t')) (hti : TI s i t) (hg : ∀ w, s.gateW = some w → s.gateR = []) :
    TI s' i t' := by
  obtain ⟨he, hs, hr, hd, hsn, hse, hrd, hcl, hdl, hpre⟩ := hti
  unfold stepT at h
  split at h
  all_goals (repeat' split at h)
  all_goals (try (simp at h; done))
  all_goals (simp only [Option.some.injEq, Prod.mk.injEq] at h; obtain ⟨rfl, rfl⟩ := h)
  all_goals
    constructor <;>
    simp_all [Thread.holdsExcl, Thread.holdsShared, Thread.bodyRegion, Thread.dropRegion, Thread.closeRegion,
      Thread.dropStarted, Thread.preBody, Shared.release, Shared.putObj, Shared.delObj, ensureMutable]
  all_goals (try (rename_i heq; split at heq <;> simp_all; done))
  all_goals (try (exact List.eq_nil_iff_forall_not_mem.mpr (by assumption)))
  all_goals (try (cases hl : s.lc <;> simp_all [poisonL]; done))

theorem cancelT_eff (i : Nat) (s : Shared) (t : Thread) : Eff i s (cancelT i s t).1 t := by
  unfold cancelT
  split
  · exact ⟨.inl ⟨rfl, rfl⟩, .inl rfl, .inl rfl, id, .inl, .inl rfl, fun h => .inl h, .inl rfl, .inl rfl⟩
  · exact ⟨.inl ⟨rfl, rfl⟩, .inl rfl, .inl rfl, id, .inl, .inl rfl, fun h => .inl h, .inl rfl, .inl rfl⟩
  · by_cases ha : t.armed = true
    · have hlease : t.holdsExcl = true ∨ t.holdsShared = true := by
        unfold Thread.armed at ha
        split at ha <;> simp_all [Thread.holdsExcl, Thread.holdsShared]
        all_goals (cases t.excl <;> simp)
      constructor
      · right; right; right; simp [ha, Shared.release]
      · rcases poisonL_cases s.lc with hp | hp <;> simp [ha, Shared.release, hp]
      · left; simp [ha, Shared.release]
      · intro h; simp [ha, Shared.release] at h; exact absurd h (poisonL_ne_active _)
      · intro h; left; simp [ha, Shared.release, h, poisonL]
      · rcases hlease with h | h
        · right; right; right; left; exact h
        · right; right; right; right; exact h
      · intro h; left; simp [ha, Shared.release] at h; exact poisonL_eq_deleted h
      · left; simp [ha, Shared.release]
      · left; simp [ha, Shared.release]
    · constructor
      · right; right; right; simp [ha, Shared.release]
      · left; simp [ha, Shared.release]
      · left; simp [ha, Shared.release]
      · intro h; simpa [ha, Shared.release] using h
      · intro h; left; simpa [ha, Shared.release] using h
      · left; simp [ha, Shared.release]
      · intro h; left; simpa [ha, Shared.release] using h
      · left; simp [ha, Shared.release]
      · left; simp [ha, Shared.release]

theorem cancelT_self {i : Nat} {s : Shared} {t : Thread} (hti : TI s i t) :
    TI (cancelT i s t).1 i (cancelT i s t).2 := by
  unfold cancelT
  split
  · exact hti
  · exact hti
  · obtain ⟨he, hs, hr, hd, hsn, hse, hrd, hcl, hdl, hpre⟩ := hti
    by_cases ha : t.armed = true
    · constructor <;>
        simp_all [Thread.holdsExcl, Thread.holdsShared, Thread.bodyRegion, Thread.dropRegion, Thread.closeRegion,
          Thread.dropStarted, Thread.preBody, Shared.release]
    · constructor <;>
        simp_all [Thread.holdsExcl, Thread.holdsShared, Thread.bodyRegion, Thread.dropRegion, Thread.closeRegion,
          Thread.dropStarted, Thread.preBody, Shared.release]

/-! ### frame: what the step of another thread preserves -/

theorem bodyRegion_lease {t : Thread} (h : t.bodyRegion = true) : t.holdsExcl = true ∨ t.holdsShared = true := by
  unfold Thread.bodyRegion at h
  split at h <;> simp_all [Thread.holdsExcl, Thread.holdsShared]
  all_goals (cases t.excl <;> simp)

theorem dropRegion_excl {t : Thread} (h : t.dropRegion = true) : t.holdsExcl = true := by
  unfold Thread.dropRegion at h
  split at h <;> simp_all [Thread.holdsExcl]

theorem closeRegion_excl {t : Thread} (h : t.closeRegion = true) : t.holdsExcl = true := by
  unfold Thread.closeRegion at h
  split at h <;> simp_all [Thread.holdsExcl]

/-- if thread `i` holds the exclusive gate, no other thread holds any lease -/
theorem no_lease_of_other_excl {s : Shared} {i j : Nat} {t u : Thread}
    (hg : ∀ w, s.gateW = some w → s.gateR = []) (hti : TI s i t) (htj : TI s j u) (hij : i ≠ j)
    (hx : t.holdsExcl = true) : u.holdsExcl = false ∧ u.holdsShared = false := by
  have hw : s.gateW = some i := hti.excl.mp hx
  have hr : s.gateR = [] := hg i hw
  constructor
  · cases hu : u.holdsExcl with
    | false => rfl
    | true =>
      have : s.gateW = some j := htj.excl.mp hu
      rw [hw] at this
      exact absurd (Option.some.inj this) hij
  · cases hu : u.holdsShared with
    | false => rfl
    | true =>
      have : j ∈ s.gateR := htj.shared.mp hu
      rw [hr] at this
      exact absurd this (List.not_mem_nil)

/-- if thread `i` holds a shared lease, no other thread holds the exclusive gate -/
theorem no_excl_of_other_shared {s : Shared} {i j : Nat} {t u : Thread}
    (hg : ∀ w, s.gateW = some w → s.gateR = []) (hti : TI s i t) (htj : TI s j u)
    (hx : t.holdsShared = true) : u.holdsExcl = false := by
  cases hu : u.holdsExcl with
  | false => rfl
  | true =>
    have hw : s.gateW = some j := htj.excl.mp hu
    have hr : s.gateR = [] := hg j hw
    have : i ∈ s.gateR := hti.shared.mp hx
    rw [hr] at this
    exact absurd this (List.not_mem_nil)

/-- while `u` (thread `j`) holds the exclusive gate, a step of another thread `i` leaves the store alone -/
theorem store_frame {i j : Nat} {s s' : Shared} {t u : Thread}
    (hg : ∀ w, s.gateW = some w → s.gateR = []) (hti : TI s i t) (htj : TI s j u) (hij : i ≠ j)
    (he : Eff i s s' t) (hux : u.holdsExcl = true) : s'.store = s.store := by
  rcases he.store with h | hx | hx
  · exact h
  · have := (no_lease_of_other_excl hg hti htj hij hx).1
    rw [this] at hux; exact absurd hux (by simp)
  · have := no_excl_of_other_shared hg hti htj hx
    rw [this] at hux; exact absurd hux (by simp)

theorem frame {i j : Nat} {s s' : Shared} {t u : Thread}
    (hg : ∀ w, s.gateW = some w → s.gateR = []) (hti : TI s i t) (htj : TI s j u) (hij : i ≠ j)
    (he : Eff i s s' t) : TI s' j u := by
  have hji : j ≠ i := fun h => hij h.symm
  constructor
  · -- exclusive gate
    rcases he.gate with ⟨hw, _⟩ | ⟨hw0, _, hw, _⟩ | ⟨hw0, hw, _⟩ | ⟨hw, _⟩
    · rw [hw]; exact htj.excl
    · rw [hw]
      constructor
      · intro hu; have := htj.excl.mp hu; rw [hw0] at this; exact absurd this (by simp)
      · intro h; exact absurd (Option.some.inj h) hij
    · rw [hw]
      constructor
      · intro hu; have := htj.excl.mp hu; rw [hw0] at this; exact absurd this (by simp)
      · intro h; exact absurd h (by simp)
    · rw [hw]
      by_cases hwi : s.gateW = some i
      · simp only [hwi, if_true]
        constructor
        · intro hu; have := htj.excl.mp hu; rw [hwi] at this; exact absurd (Option.some.inj this) hij
        · intro h; exact absurd h (by simp)
      · simp only [hwi, if_false]; exact htj.excl
  · -- shared leases
    rcases he.gate with ⟨_, hr⟩ | ⟨_, hr0, _, hr⟩ | ⟨_, _, hr⟩ | ⟨_, hr⟩
    · rw [hr]; exact htj.shared
    · rw [hr]; have := htj.shared; rw [hr0] at this; exact this
    · rw [hr]
      constructor
      · intro hu; exact List.mem_cons_of_mem _ (htj.shared.mp hu)
      · intro h
        rcases List.mem_cons.mp h with h | h
        · exact absurd h hji
        · exact htj.shared.mpr h
    · rw [hr]
      constructor
      · intro hu; exact List.mem_filter.mpr ⟨htj.shared.mp hu, by simpa using hji⟩
      · intro h; exact htj.shared.mpr (List.mem_filter.mp h).1
  · -- nobody inside a body once CLOSED / DELETED
    intro hl
    rcases he.lc with h | ⟨h1, h2⟩ | hx
    · rw [h] at hl; exact htj.retired hl
    · rcases hl with hl | hl
      · exact absurd hl h1
      · exact absurd hl h2
    · cases hb : u.bodyRegion with
      | false => rfl
      | true =>
        have := no_lease_of_other_excl hg hti htj hij hx
        rcases bodyRegion_lease hb with h | h
        · rw [this.1] at h; exact absurd h (by simp)
        · rw [this.2] at h; exact absurd h (by simp)
  · intro hl
    rcases he.lc with h | ⟨_, h2⟩ | hx
    · rw [h] at hl; exact htj.deleted hl
    · exact absurd hl h2
    · cases hb : u.dropRegion with
      | false => rfl
      | true =>
        have := no_lease_of_other_excl hg hti htj hij hx
        have h := dropRegion_excl hb
        rw [this.1] at h; exact absurd h (by simp)
  · -- a dropper's listing still covers the store
    intro snap r hpc o ho
    have hux : u.holdsExcl = true := by simp [Thread.holdsExcl, hpc]
    rw [store_frame hg hti htj hij he hux] at ho
    exact htj.snap snap r hpc o ho
  · intro hpc
    have hux : u.holdsExcl = true := by simp [Thread.holdsExcl, hpc]
    rw [store_frame hg hti htj hij he hux]
    exact htj.storeEmpty hpc
  · intro hpc
    have hd := htj.relDel hpc
    rcases he.lcDel hd with h | h
    · exact h
    · have := hti.retired (.inr hd); rw [this] at h; exact absurd h (by simp)
  · intro hc
    have hux := closeRegion_excl hc
    have hcur := htj.closerLc hc
    rcases he.lcClose with h | h | h | h | h
    · rw [h]; exact hcur
    · right; exact h
    · rcases hcur with h' | h' <;> (rw [h] at h'; exact absurd h' (by simp))
    · have := (no_lease_of_other_excl hg hti htj hij h).1
      rw [this] at hux; exact absurd hux (by simp)
    · have := no_excl_of_other_shared hg hti htj h
      rw [this] at hux; exact absurd hux (by simp)
  · intro hd h
    exact htj.dropLc hd (he.lcAct h)
  · intro hp
    have h0 := htj.pre hp
    rcases he.log with h | ⟨h, _⟩ | ⟨h, _⟩ | ⟨h, _⟩
    · rw [h]; exact h0
    · rw [h, writesBy_cons_ne hij]; exact h0
    · rw [h, writesBy_cons_ne hij]; exact h0
    · rw [h, writesBy_cons_ne hij]; exact h0

/-- the gate keeps its shape (writer ⇒ no readers; only existing threads hold it) -/
theorem gate_shape {i n : Nat} {s s' : Shared} {t : Thread} (hi : i < n)
    (hg : ∀ w, s.gateW = some w → s.gateR = [])
    (hbw : ∀ w, s.gateW = some w → w < n) (hbr : ∀ r ∈ s.gateR, r < n)
    (he : Eff i s s' t) :
    (∀ w, s'.gateW = some w → s'.gateR = []) ∧ (∀ w, s'.gateW = some w → w < n) ∧ (∀ r ∈ s'.gateR, r < n) := by
  rcases he.gate with ⟨hw, hr⟩ | ⟨_, _, hw, hr⟩ | ⟨_, hw, hr⟩ | ⟨hw, hr⟩
  · rw [hw, hr]; exact ⟨hg, hbw, hbr⟩
  · rw [hw, hr]
    refine ⟨fun _ _ => rfl, ?_, ?_⟩
    · intro w h; rw [← Option.some.inj h]; exact hi
    · intro r h; exact absurd h (List.not_mem_nil)
  · rw [hw, hr]
    refine ⟨fun w h => absurd h (by simp), fun w h => absurd h (by simp), ?_⟩
    intro r h
    rcases List.mem_cons.mp h with h | h
    · rw [h]; exact hi
    · exact hbr r h
  · rw [hw, hr]
    refine ⟨?_, ?_, ?_⟩
    · intro w h
      by_cases hwi : s.gateW = some i
      · simp [hwi] at h
      · simp only [hwi, if_false] at h; rw [hg w h]; rfl
    · intro w h
      by_cases hwi : s.gateW = some i
      · simp [hwi] at h
      · simp only [hwi, if_false] at h; exact hbw w h
    · intro r h; exact hbr r (List.mem_filter.mp h).1

/-! ### the invariant along runs -/

theorem inv_init (store : List Nat) : Inv (init store) := by
  constructor <;> simp [init]

theorem writesBy_zero_of_bound {n : Nat} {log : List (Nat × L × W)} (h : ∀ e ∈ log, e.1 < n) : writesBy n log = 0 := by
  unfold writesBy
  rw [List.length_eq_zero_iff, List.filter_eq_nil_iff]
  intro e he hc
  have := h e he
  have : e.1 = n := by simpa using hc
  omega

theorem fresh_TI (k : Kind) (b : List B) (s : Shared) (n : Nat)
    (hw : s.gateW ≠ some n) (hr : n ∉ s.gateR) (hl : writesBy n s.log = 0) : TI s n (fresh k b) := by
  cases k <;>
    (constructor <;> simp_all [fresh, Thread.holdsExcl, Thread.holdsShared, Thread.bodyRegion, Thread.dropRegion,
      Thread.closeRegion, Thread.dropStarted, Thread.preBody])

theorem inv_update {c : Cfg} {i : Nat} {t t' : Thread} {s' : Shared} (hinv : Inv c)
    (hget : c.ts[i]? = some t) (he : Eff i c.s s' t) (hself : TI s' i t') :
    Inv { s := s', ts := c.ts.set i t' } := by
  have hi : i < c.ts.length := (List.getElem?_eq_some_iff.mp hget).1
  have hti : TI c.s i t := hinv.thr i t hget
  obtain ⟨h1, h2, h3⟩ := gate_shape hi hinv.gate hinv.boundW hinv.boundR he
  refine ⟨h1, ?_, ?_, ?_, ?_, ?_, ?_⟩
  · intro w h; simpa using h2 w h
  · intro r h; simpa using h3 r h
  · intro j u hj
    by_cases hij : i = j
    · subst hij
      simp only [List.getElem?_set_self hi, Option.some.injEq] at hj
      subst hj; exact hself
    · rw [List.getElem?_set_ne hij] at hj
      exact frame hinv.gate hti (hinv.thr j u hj) hij he
  · -- DELETED ⇒ nothing stored
    intro hd
    show s'.store = []
    rcases he.becomesDeleted hd with h | ⟨hpc, hst⟩
    · have hb := hti.retired (.inr h)
      have hdr := hti.deleted h
      rcases he.storeRegion with h' | h' | h'
      · rw [h']; exact hinv.delEmpty h
      · rw [hb] at h'; exact absurd h' (by simp)
      · rw [hdr] at h'; exact absurd h' (by simp)
    · rw [hst]; exact hti.storeEmpty hpc
  · -- log entries name existing threads
    intro e hel
    show e.1 < (c.ts.set i t').length
    rw [List.length_set]
    have hel' : e ∈ s'.log := hel
    rcases he.log with h | ⟨h, _⟩ | ⟨h, _⟩ | ⟨h, _⟩
    · rw [h] at hel'; exact hinv.logB e hel'
    all_goals
      rw [h] at hel'
      rcases List.mem_cons.mp hel' with h' | h'
      · rw [h']; exact hi
      · exact hinv.logB e h'
  · -- log entries are sound
    intro e hel
    have hel' : e ∈ s'.log := hel
    rcases he.log with h | ⟨h, hr⟩ | ⟨h, hr⟩ | ⟨h, hr⟩
    · rw [h] at hel'; exact hinv.logSound e hel'
    · rw [h] at hel'
      rcases List.mem_cons.mp hel' with h' | h'
      · rw [h']
        have hb : t.bodyRegion = true := by
          unfold Thread.mutBody at hr; split at hr <;> simp_all [Thread.bodyRegion]
        refine ⟨?_, ?_⟩
        · intro hl; have := hti.retired (.inl hl); rw [hb] at this; exact absurd this (by simp)
        · intro hl; have := hti.retired (.inr hl); rw [hb] at this; exact absurd this (by simp)
      · exact hinv.logSound e h'
    · rw [h] at hel'
      rcases List.mem_cons.mp hel' with h' | h'
      · rw [h']; exact hti.closerLc hr
      · exact hinv.logSound e h'
    · rw [h] at hel'
      rcases List.mem_cons.mp hel' with h' | h'
      · rw [h']
        have hds : t.dropStarted = true := by
          unfold Thread.dropRegion at hr; split at hr <;> simp_all [Thread.dropStarted]
        refine ⟨hti.dropLc hds, ?_⟩
        intro hl; have := hti.deleted hl; rw [hr] at this; exact absurd this (by simp)
      · exact hinv.logSound e h'

theorem inv_apply {c : Cfg} (hinv : Inv c) (e : Ev) : Inv (c.apply e) := by
  cases e with
  | spawn k b =>
    simp only [Cfg.apply]
    refine ⟨hinv.gate, ?_, ?_, ?_, hinv.delEmpty, ?_, hinv.logSound⟩
    · intro w h; have := hinv.boundW w h; simp; omega
    · intro r h; have := hinv.boundR r h; simp; omega
    · intro j u hj
      by_cases hlt : j < c.ts.length
      · rw [List.getElem?_append_left hlt] at hj; exact hinv.thr j u hj
      · have hge : c.ts.length ≤ j := Nat.le_of_not_lt hlt
        rw [List.getElem?_append_right hge] at hj
        have hj0 : j - c.ts.length = 0 := by
          cases hjj : j - c.ts.length with
          | zero => rfl
          | succ m => rw [hjj] at hj; simp at hj
        rw [hj0] at hj
        simp only [List.getElem?_cons_zero, Option.some.injEq] at hj
        have hje : j = c.ts.length := by omega
        subst hj; subst hje
        apply fresh_TI
        · intro h; exact absurd (hinv.boundW _ h) (Nat.lt_irrefl _)
        · intro h; exact absurd (hinv.boundR _ h) (Nat.lt_irrefl _)
        · exact writesBy_zero_of_bound hinv.logB
    · intro e he; have := hinv.logB e he; simp; omega
  | step i =>
    simp only [Cfg.apply]
    cases hget : c.ts[i]? with
    | none => exact hinv
    | some t =>
      simp only
      cases hst : stepT i c.s t with
      | none => exact hinv
      | some p =>
        obtain ⟨s', t'⟩ := p
        exact inv_update hinv hget (stepT_eff hst) (stepT_self hst (hinv.thr i t hget) hinv.gate)
  | cancel i =>
    simp only [Cfg.apply]
    cases hget : c.ts[i]? with
    | none => exact hinv
    | some t => exact inv_update hinv hget (cancelT_eff i c.s t) (cancelT_self (hinv.thr i t hget))

theorem inv_run {c : Cfg} (hinv : Inv c) (evs : List Ev) : Inv (c.run evs) := by
  induction evs generalizing c with
  | nil => exact hinv
  | cons e es ih => exact ih (inv_apply hinv e)

end AndaVerif.Lifecycle
