import AndaVerif.Model.Lifecycle
/-
C06 — invariants of the lifecycle / gate / cancellation machine (`Model/Lifecycle`).

`TI s i t`   what thread `i` and the shared state agree on (who holds the gate, nobody is inside a
             body once the handle is CLOSED / DELETED, a dropper's listing covers the store);
`Inv c`      `TI` for every thread + shape of the gate;
`Eff`        what a single step / cancellation may do to the shared state (frame conditions).
`inv_run`    `Inv` holds in every configuration reachable from `init` under every schedule,
             every spawn, every cancellation point.
-/
namespace AndaVerif.Lifecycle

structure TI (s : Shared) (i : Nat) (t : Thread) : Prop where
  excl : t.holdsExcl = true ↔ s.gateW = some i
  shared : t.holdsShared = true ↔ i ∈ s.gateR
  retired : (s.lc = .closed ∨ s.lc = .deleted) → t.bodyRegion = false
  deleted : s.lc = .deleted → t.dropRegion = false
  snap : ∀ snap r, t.pc = .dDel snap r → ∀ o ∈ s.store, o ∈ snap

structure Inv (c : Cfg) : Prop where
  gate : ∀ w, c.s.gateW = some w → c.s.gateR = []
  boundW : ∀ w, c.s.gateW = some w → w < c.ts.length
  boundR : ∀ r ∈ c.s.gateR, r < c.ts.length
  thr : ∀ i t, c.ts[i]? = some t → TI c.s i t

/-- what one step / one cancellation of thread `i` may do to the shared state -/
structure Eff (i : Nat) (s s' : Shared) (t : Thread) : Prop where
  gate :
    (s'.gateW = s.gateW ∧ s'.gateR = s.gateR) ∨
    (s.gateW = none ∧ s.gateR = [] ∧ s'.gateW = some i ∧ s'.gateR = []) ∨
    (s.gateW = none ∧ s'.gateW = none ∧ s'.gateR = i :: s.gateR) ∨
    (s'.gateW = (if s.gateW = some i then none else s.gateW) ∧ s'.gateR = s.gateR.filter (· ≠ i))
  lc : s'.lc = s.lc ∨ (s'.lc ≠ .closed ∧ s'.lc ≠ .deleted) ∨ t.holdsExcl = true
  store : s'.store = s.store ∨ t.holdsExcl = true ∨ t.holdsShared = true

theorem poisonL_cases (l : L) : poisonL l = l ∨ poisonL l = .poisoned := by
  cases l <;> simp [poisonL]

theorem poisonL_ne_active (l : L) : poisonL l ≠ .active := by
  cases l <;> simp [poisonL]

/-! ### a step of thread `i`: effect on the shared state, and on `i`'s own invariant -/

set_option maxHeartbeats 1000000 in
theorem stepT_eff {i : Nat} {s s' : Shared} {t t' : Thread}
    (h : stepT i s t = some (s', t')) : Eff i s s' t := by
  unfold stepT at h
  split at h
  all_goals (repeat' split at h)
  all_goals (try (simp at h; done))
  all_goals (simp only [Option.some.injEq, Prod.mk.injEq] at h; obtain ⟨rfl, rfl⟩ := h)
  all_goals
    constructor <;>
    simp_all [Thread.holdsExcl, Thread.holdsShared, Shared.release, Shared.putObj, Shared.delObj]
  all_goals (rcases poisonL_cases s.lc with hp | hp <;> simp [hp])

set_option maxHeartbeats 1000000 in
theorem stepT_self {i : Nat} {s s' : Shared} {t t' : Thread}
    (h : stepT i s t = some (s', t')) (hti : TI s i t) (hg : ∀ w, s.gateW = some w → s.gateR = []) :
    TI s' i t' := by
  obtain ⟨he, hs, hr, hd, hsn⟩ := hti
  unfold stepT at h
  split at h
  all_goals (repeat' split at h)
  all_goals (try (simp at h; done))
  all_goals (simp only [Option.some.injEq, Prod.mk.injEq] at h; obtain ⟨rfl, rfl⟩ := h)
  all_goals
    constructor <;>
    simp_all [Thread.holdsExcl, Thread.holdsShared, Thread.bodyRegion, Thread.dropRegion, Shared.release,
      Shared.putObj, Shared.delObj, ensureMutable]
  all_goals (rename_i heq; split at heq <;> simp_all)

theorem cancelT_eff (i : Nat) (s : Shared) (t : Thread) : Eff i s (cancelT i s t).1 t := by
  unfold cancelT
  split
  · exact ⟨.inl ⟨rfl, rfl⟩, .inl rfl, .inl rfl⟩
  · exact ⟨.inl ⟨rfl, rfl⟩, .inl rfl, .inl rfl⟩
  · constructor
    · right; right; right
      by_cases ha : t.armed = true <;> simp [ha, Shared.release]
    · by_cases ha : t.armed = true
      · rcases poisonL_cases s.lc with hp | hp <;> simp [ha, Shared.release, hp]
      · simp [ha, Shared.release]
    · left
      by_cases ha : t.armed = true <;> simp [ha, Shared.release]

theorem cancelT_self {i : Nat} {s : Shared} {t : Thread} (hti : TI s i t) :
    TI (cancelT i s t).1 i (cancelT i s t).2 := by
  unfold cancelT
  split
  · exact hti
  · exact hti
  · obtain ⟨he, hs, hr, hd, hsn⟩ := hti
    by_cases ha : t.armed = true
    · constructor <;>
        simp_all [Thread.holdsExcl, Thread.holdsShared, Thread.bodyRegion, Thread.dropRegion, Shared.release]
    · constructor <;>
        simp_all [Thread.holdsExcl, Thread.holdsShared, Thread.bodyRegion, Thread.dropRegion, Shared.release]

/-! ### frame: what the step of another thread preserves -/

theorem bodyRegion_lease {t : Thread} (h : t.bodyRegion = true) : t.holdsExcl = true ∨ t.holdsShared = true := by
  unfold Thread.bodyRegion at h
  split at h <;> simp_all [Thread.holdsExcl, Thread.holdsShared]
  all_goals (cases t.excl <;> simp)

theorem dropRegion_excl {t : Thread} (h : t.dropRegion = true) : t.holdsExcl = true := by
  unfold Thread.dropRegion at h
  split at h <;> simp_all [Thread.holdsExcl]

/-- if thread `i` holds the exclusive gate, no other thread holds any lease -/
theorem no_lease_of_other_excl {s : Shared} {i j : Nat} {t u : Thread}
    (hg : ∀ w, s.gateW = some w → s.gateR = []) (hti : TI s i t) (htj : TI s j u) (hij : i ≠ j)
    (hx : t.holdsExcl = true) : u.holdsExcl = false ∧ u.holdsShared = false := by
  have hw : s.gateW = some i := hti.excl.mp hx
  have hr : s.gateR = [] := hg i hw
  constructor
  · cases hu : u.holdsExcl with
    | false => rfl
    | true =>
      have : s.gateW = some j := htj.excl.mp hu
      rw [hw] at this
      exact absurd (Option.some.inj this) hij
  · cases hu : u.holdsShared with
    | false => rfl
    | true =>
      have : j ∈ s.gateR := htj.shared.mp hu
      rw [hr] at this
      exact absurd this (List.not_mem_nil)

/-- if thread `i` holds a shared lease, no other thread holds the exclusive gate -/
theorem no_excl_of_other_shared {s : Shared} {i j : Nat} {t u : Thread}
    (hg : ∀ w, s.gateW = some w → s.gateR = []) (hti : TI s i t) (htj : TI s j u)
    (hx : t.holdsShared = true) : u.holdsExcl = false := by
  cases hu : u.holdsExcl with
  | false => rfl
  | true =>
    have hw : s.gateW = some j := htj.excl.mp hu
    have hr : s.gateR = [] := hg j hw
    have : i ∈ s.gateR := hti.shared.mp hx
    rw [hr] at this
    exact absurd this (List.not_mem_nil)

theorem frame {i j : Nat} {s s' : Shared} {t u : Thread}
    (hg : ∀ w, s.gateW = some w → s.gateR = []) (hti : TI s i t) (htj : TI s j u) (hij : i ≠ j)
    (he : Eff i s s' t) : TI s' j u := by
  have hji : j ≠ i := fun h => hij h.symm
  constructor
  · -- exclusive gate
    rcases he.gate with ⟨hw, _⟩ | ⟨hw0, _, hw, _⟩ | ⟨hw0, hw, _⟩ | ⟨hw, _⟩
    · rw [hw]; exact htj.excl
    · rw [hw]
      constructor
      · intro hu; have := htj.excl.mp hu; rw [hw0] at this; exact absurd this (by simp)
      · intro h; exact absurd (Option.some.inj h) hij
    · rw [hw]
      constructor
      · intro hu; have := htj.excl.mp hu; rw [hw0] at this; exact absurd this (by simp)
      · intro h; exact absurd h (by simp)
    · rw [hw]
      by_cases hwi : s.gateW = some i
      · simp only [hwi, if_true]
        constructor
        · intro hu; have := htj.excl.mp hu; rw [hwi] at this; exact absurd (Option.some.inj this) hij
        · intro h; exact absurd h (by simp)
      · simp only [hwi, if_false]; exact htj.excl
  · -- shared leases
    rcases he.gate with ⟨_, hr⟩ | ⟨_, hr0, _, hr⟩ | ⟨_, _, hr⟩ | ⟨_, hr⟩
    · rw [hr]; exact htj.shared
    · rw [hr]; have := htj.shared; rw [hr0] at this; exact this
    · rw [hr]
      constructor
      · intro hu; exact List.mem_cons_of_mem _ (htj.shared.mp hu)
      · intro h
        rcases List.mem_cons.mp h with h | h
        · exact absurd h hji
        · exact htj.shared.mpr h
    · rw [hr]
      constructor
      · intro hu; exact List.mem_filter.mpr ⟨htj.shared.mp hu, by simpa using hji⟩
      · intro h; exact htj.shared.mpr (List.mem_filter.mp h).1
  · -- nobody inside a body once CLOSED / DELETED
    intro hl
    rcases he.lc with h | ⟨h1, h2⟩ | hx
    · rw [h] at hl; exact htj.retired hl
    · rcases hl with hl | hl
      · exact absurd hl h1
      · exact absurd hl h2
    · cases hb : u.bodyRegion with
      | false => rfl
      | true =>
        have := no_lease_of_other_excl hg hti htj hij hx
        rcases bodyRegion_lease hb with h | h
        · rw [this.1] at h; exact absurd h (by simp)
        · rw [this.2] at h; exact absurd h (by simp)
  · intro hl
    rcases he.lc with h | ⟨_, h2⟩ | hx
    · rw [h] at hl; exact htj.deleted hl
    · exact absurd hl h2
    · cases hb : u.dropRegion with
      | false => rfl
      | true =>
        have := no_lease_of_other_excl hg hti htj hij hx
        have h := dropRegion_excl hb
        rw [this.1] at h; exact absurd h (by simp)
  · -- a dropper's listing still covers the store
    intro snap r hpc o ho
    have hux : u.holdsExcl = true := by simp [Thread.holdsExcl, hpc]
    rcases he.store with h | hx | hx
    · rw [h] at ho; exact htj.snap snap r hpc o ho
    · have := (no_lease_of_other_excl hg hti htj hij hx).1
      rw [this] at hux; exact absurd hux (by simp)
    · have := no_excl_of_other_shared hg hti htj hx
      rw [this] at hux; exact absurd hux (by simp)

/-- the gate keeps its shape (writer ⇒ no readers; only existing threads hold it) -/
theorem gate_shape {i n : Nat} {s s' : Shared} {t : Thread} (hi : i < n)
    (hg : ∀ w, s.gateW = some w → s.gateR = [])
    (hbw : ∀ w, s.gateW = some w → w < n) (hbr : ∀ r ∈ s.gateR, r < n)
    (he : Eff i s s' t) :
    (∀ w, s'.gateW = some w → s'.gateR = []) ∧ (∀ w, s'.gateW = some w → w < n) ∧ (∀ r ∈ s'.gateR, r < n) := by
  rcases he.gate with ⟨hw, hr⟩ | ⟨_, _, hw, hr⟩ | ⟨_, hw, hr⟩ | ⟨hw, hr⟩
  · rw [hw, hr]; exact ⟨hg, hbw, hbr⟩
  · rw [hw, hr]
    refine ⟨fun _ _ => rfl, ?_, ?_⟩
    · intro w h; rw [← Option.some.inj h]; exact hi
    · intro r h; exact absurd h (List.not_mem_nil)
  · rw [hw, hr]
    refine ⟨fun w h => absurd h (by simp), fun w h => absurd h (by simp), ?_⟩
    intro r h
    rcases List.mem_cons.mp h with h | h
    · rw [h]; exact hi
    · exact hbr r h
  · rw [hw, hr]
    refine ⟨?_, ?_, ?_⟩
    · intro w h
      by_cases hwi : s.gateW = some i
      · simp [hwi] at h
      · simp only [hwi, if_false] at h; rw [hg w h]; rfl
    · intro w h
      by_cases hwi : s.gateW = some i
      · simp [hwi] at h
      · simp only [hwi, if_false] at h; exact hbw w h
    · intro r h; exact hbr r (List.mem_filter.mp h).1

/-! ### the invariant along runs -/

theorem inv_init (store : List Nat) : Inv (init store) := by
  constructor <;> simp [init]

theorem fresh_TI (k : Kind) (b : List B) (s : Shared) (n : Nat)
    (hw : s.gateW ≠ some n) (hr : n ∉ s.gateR) : TI s n (fresh k b) := by
  cases k <;>
    (constructor <;> simp_all [fresh, Thread.holdsExcl, Thread.holdsShared, Thread.bodyRegion, Thread.dropRegion])

theorem inv_update {c : Cfg} {i : Nat} {t t' : Thread} {s' : Shared} (hinv : Inv c)
    (hget : c.ts[i]? = some t) (he : Eff i c.s s' t) (hself : TI s' i t') :
    Inv { s := s', ts := c.ts.set i t' } := by
  have hi : i < c.ts.length := (List.getElem?_eq_some_iff.mp hget).1
  have hti : TI c.s i t := hinv.thr i t hget
  obtain ⟨h1, h2, h3⟩ := gate_shape hi hinv.gate hinv.boundW hinv.boundR he
  refine ⟨h1, ?_, ?_, ?_⟩
  · intro w h; simpa using h2 w h
  · intro r h; simpa using h3 r h
  · intro j u hj
    by_cases hij : i = j
    · subst hij
      simp only [List.getElem?_set_self hi, Option.some.injEq] at hj
      subst hj; exact hself
    · rw [List.getElem?_set_ne hij] at hj
      exact frame hinv.gate hti (hinv.thr j u hj) hij he

theorem inv_apply {c : Cfg} (hinv : Inv c) (e : Ev) : Inv (c.apply e) := by
  cases e with
  | spawn k b =>
    simp only [Cfg.apply]
    refine ⟨hinv.gate, ?_, ?_, ?_⟩
    · intro w h; have := hinv.boundW w h; simp; omega
    · intro r h; have := hinv.boundR r h; simp; omega
    · intro j u hj
      by_cases hlt : j < c.ts.length
      · rw [List.getElem?_append_left hlt] at hj; exact hinv.thr j u hj
      · have hge : c.ts.length ≤ j := Nat.le_of_not_lt hlt
        rw [List.getElem?_append_right hge] at hj
        have hj0 : j - c.ts.length = 0 := by
          cases hjj : j - c.ts.length with
          | zero => rfl
          | succ m => rw [hjj] at hj; simp at hj
        rw [hj0] at hj
        simp only [List.getElem?_cons_zero, Option.some.injEq] at hj
        have hje : j = c.ts.length := by omega
        subst hj; subst hje
        apply fresh_TI
        · intro h; exact absurd (hinv.boundW _ h) (Nat.lt_irrefl _)
        · intro h; exact absurd (hinv.boundR _ h) (Nat.lt_irrefl _)
  | step i =>
    simp only [Cfg.apply]
    cases hget : c.ts[i]? with
    | none => exact hinv
    | some t =>
      simp only
      cases hst : stepT i c.s t with
      | none => exact hinv
      | some p =>
        obtain ⟨s', t'⟩ := p
        exact inv_update hinv hget (stepT_eff hst) (stepT_self hst (hinv.thr i t hget) hinv.gate)
  | cancel i =>
    simp only [Cfg.apply]
    cases hget : c.ts[i]? with
    | none => exact hinv
    | some t => exact inv_update hinv hget (cancelT_eff i c.s t) (cancelT_self (hinv.thr i t hget))

theorem inv_run {c : Cfg} (hinv : Inv c) (evs : List Ev) : Inv (c.run evs) := by
  induction evs generalizing c with
  | nil => exact hinv
  | cons e es ih => exact ih (inv_apply hinv e)

end AndaVerif.Lifecycle
