import AndaVerif.Proofs.BeliefProject
/-
What one more candidate does to the groups and to the score (repetition is not support), and
monotonicity of the score in the confidences.
-/
namespace AndaVerif.Belief

/-- `a ≤ b` on exact scores (positive denominators). -/
def Frac.le (a b : Frac) : Prop := a.num * (b.den : Int) ≤ b.num * (a.den : Int)

/-- Complement product of a list of confidences. -/
def cprod (den : Nat) (cs : List Int) : Int := (cs.map (factor den)).prod

theorem compProd_eq_cprod (den : Nat) (gs : List Group) : compProd den gs = cprod den (gs.map (·.2)) :=
  compProd_eq_listProd den gs

theorem cprod_perm (den : Nat) {a b : List Int} (h : a.Perm b) : cprod den a = cprod den b :=
  (h.map _).prod_eq

theorem cprod_cons (den : Nat) (c : Int) (cs : List Int) : cprod den (c :: cs) = factor den c * cprod den cs := by
  simp [cprod]

theorem cprod_append (den : Nat) (a b : List Int) : cprod den (a ++ b) = cprod den a * cprod den b := by
  simp [cprod]

theorem cprod_nonneg (den : Nat) (cs : List Int) : 0 ≤ cprod den cs := by
  induction cs with
  | nil => simp [cprod]
  | cons c cs ih => rw [cprod_cons]; exact mul_nonneg (factor_nonneg den c) ih

theorem cprod_le (den : Nat) (cs : List Int) : cprod den cs ≤ (den : Int) ^ cs.length := by
  induction cs with
  | nil => simp [cprod]
  | cons c cs ih =>
    rw [cprod_cons, List.length_cons, pow_succ, mul_comm ((den : Int) ^ cs.length)]
    exact mul_le_mul (factor_le den c) ih (cprod_nonneg den cs) (by positivity)

theorem scoreOf_eq (den : Nat) (gs : List Group) :
    scoreOf den gs = { num := (den : Int) ^ gs.length - cprod den (gs.map (·.2)), den := den ^ gs.length } := by
  unfold scoreOf; rw [compProd_eq_cprod]; simp

-- ------------------------------------------------------------------------------------------
-- the confidences after one more candidate
-- ------------------------------------------------------------------------------------------

theorem addSpec_confs (keys : List Key) (conf : Int) (gs : List Group) :
    ((addSpec keys conf gs).map (·.2)).Perm (maxConf conf (hitsOf keys gs) :: (missesOf keys gs).map (·.2)) := by
  induction gs with
  | nil => simp [addSpec, hitsOf, missesOf, maxConf]
  | cons g gs ih =>
    unfold addSpec
    by_cases hh : hit keys g = true
    · simp [hh, hitsOf, missesOf, maxConf, max_comm]
    · have hf : hit keys g = false := by simpa using hh
      simp only [hf, Bool.false_eq_true, if_false, List.map_cons]
      have : hitsOf keys (g :: gs) = hitsOf keys gs := by simp [hitsOf, hf]
      have hm : missesOf keys (g :: gs) = g :: missesOf keys gs := by simp [missesOf, hf]
      rw [this, hm, List.map_cons]
      exact (List.Perm.cons _ ih).trans (List.Perm.swap _ _ _)

theorem confs_partition (keys : List Key) (gs : List Group) :
    (gs.map (·.2)).Perm ((hitsOf keys gs).map (·.2) ++ (missesOf keys gs).map (·.2)) := by
  rw [← List.map_append]
  exact (List.filter_append_perm (hit keys) gs).symm.map _

theorem maxConf_ge (c : Int) (gs : List Group) : c ≤ maxConf c gs :=
  (maxConf_le_iff.1 le_rfl).1

theorem maxConf_ge_mem (c : Int) {gs : List Group} {g : Group} (h : g ∈ gs) : g.2 ≤ maxConf c gs :=
  (maxConf_le_iff.1 le_rfl).2 g h

/-- The running maximum is the seed or one of the members. -/
theorem maxConf_mem (c : Int) (gs : List Group) : maxConf c gs = c ∨ ∃ g ∈ gs, maxConf c gs = g.2 := by
  induction gs generalizing c with
  | nil => exact Or.inl rfl
  | cons g gs ih =>
    have : maxConf c (g :: gs) = maxConf (max c g.2) gs := rfl
    rw [this]
    rcases ih (max c g.2) with h | ⟨x, hx, h⟩
    · rcases max_choice c g.2 with h' | h'
      · exact Or.inl (h.trans h')
      · exact Or.inr ⟨g, List.mem_cons_self, h.trans h'⟩
    · exact Or.inr ⟨x, List.mem_cons_of_mem _ hx, h⟩

/-- One member's factor, times full weight for the others, bounds the product. -/
theorem cprod_le_of_mem (den : Nat) {cs : List Int} {c : Int} (h : c ∈ cs) :
    cprod den cs ≤ factor den c * (den : Int) ^ (cs.length - 1) := by
  have hp := List.perm_cons_erase h
  rw [cprod_perm den hp, cprod_cons]
  have hl : (cs.erase c).length = cs.length - 1 := List.length_erase_of_mem h
  rw [← hl]
  exact mul_le_mul_of_nonneg_left (cprod_le den _) (factor_nonneg den c)

theorem bridge_arith (X Y Pm Ph f : Int) (hX : 0 ≤ X) (hPm : 0 ≤ Pm) (h : Ph ≤ f * Y) :
    (X - f * Pm) * (Y * X) ≤ (Y * X - Ph * Pm) * X := by
  have key := mul_le_mul_of_nonneg_right h (mul_nonneg hPm hX)
  nlinarith [key]

/-- Group count after one more candidate that touches at least one group. -/
theorem addSpec_length_le {keys : List Key} {gs : List Group} (h : hitsOf keys gs ≠ []) (conf : Int) :
    (addSpec keys conf gs).length ≤ gs.length := by
  rw [addSpec_length]
  have := hits_misses_length keys gs
  have : 0 < (hitsOf keys gs).length := List.length_pos_of_ne_nil h
  omega

/-- **A candidate that is not stronger than everything in the group(s) it joins never raises the
score** (it lowers it when it bridges several groups: they were not independent). -/
theorem addSpec_score_le (den : Nat) {keys : List Key} {conf : Int} {gs : List Group}
    (hweak : ∃ g ∈ hitsOf keys gs, conf ≤ g.2) :
    (scoreOf den (addSpec keys conf gs)).le (scoreOf den gs) := by
  obtain ⟨g0, hg0, hc⟩ := hweak
  -- the merged maximum is a member's
  obtain ⟨h1, hh1, hmax⟩ : ∃ h ∈ hitsOf keys gs, maxConf conf (hitsOf keys gs) = h.2 := by
    rcases maxConf_mem conf (hitsOf keys gs) with h | h
    · refine ⟨g0, hg0, ?_⟩
      have := maxConf_ge_mem conf hg0
      omega
    · exact h
  set H := (hitsOf keys gs).map (·.2) with hH
  set Ms := (missesOf keys gs).map (·.2) with hMs
  have hmem : h1.2 ∈ H := List.mem_map_of_mem hh1
  have hHlen : 1 ≤ H.length := List.length_pos_of_mem hmem
  have hbound := cprod_le_of_mem den hmem
  rw [scoreOf_eq, scoreOf_eq]
  simp only [Frac.le]
  rw [cprod_perm den (addSpec_confs keys conf gs), cprod_perm den (confs_partition keys gs), cprod_cons,
    cprod_append, hmax]
  have hHl : H.length = (hitsOf keys gs).length := by simp [hH]
  have hMl : Ms.length = (missesOf keys gs).length := by simp [hMs]
  have hlen1 : (addSpec keys conf gs).length = Ms.length + 1 := by rw [addSpec_length, hMl]
  have hlen2 : gs.length = (H.length - 1) + (Ms.length + 1) := by
    have := hits_misses_length keys gs
    omega
  rw [hlen1, hlen2]
  push_cast
  have hp : (den : Int) ^ (H.length - 1 + (Ms.length + 1)) =
      (den : Int) ^ (H.length - 1) * (den : Int) ^ (Ms.length + 1) := pow_add _ _ _
  rw [hp]
  have := bridge_arith ((den : Int) ^ (Ms.length + 1)) ((den : Int) ^ (H.length - 1)) (cprod den Ms) (cprod den H)
    (factor den h1.2) (by positivity) (cprod_nonneg den Ms) hbound
  linarith [this]

/-- **A candidate that joins exactly one group and is not stronger than it changes neither the
number of groups nor the score.** -/
theorem addSpec_score_eq (den : Nat) {keys : List Key} {conf : Int} {gs : List Group} {g : Group}
    (hone : hitsOf keys gs = [g]) (hc : conf ≤ g.2) :
    scoreOf den (addSpec keys conf gs) = scoreOf den gs ∧ (addSpec keys conf gs).length = gs.length := by
  have hlen : (addSpec keys conf gs).length = gs.length := by
    rw [addSpec_length]
    have := hits_misses_length keys gs
    rw [hone] at this; simp at this; omega
  refine ⟨?_, hlen⟩
  rw [scoreOf_eq, scoreOf_eq, hlen, cprod_perm den (addSpec_confs keys conf gs),
    cprod_perm den (confs_partition keys gs), hone]
  simp [maxConf, max_eq_right hc]

/-- A stronger candidate can only raise the score of the one group it joins. -/
theorem addSpec_score_ge_single (den : Nat) {keys : List Key} {conf : Int} {gs : List Group} {g : Group}
    (hone : hitsOf keys gs = [g]) :
    (scoreOf den gs).le (scoreOf den (addSpec keys conf gs)) := by
  have hlen : (addSpec keys conf gs).length = gs.length := by
    rw [addSpec_length]
    have := hits_misses_length keys gs
    rw [hone] at this; simp at this; omega
  rw [scoreOf_eq, scoreOf_eq, hlen, cprod_perm den (addSpec_confs keys conf gs),
    cprod_perm den (confs_partition keys gs), hone]
  simp only [Frac.le, maxConf, List.foldl_cons, List.foldl_nil, List.map_cons, List.map_nil,
    List.cons_append, List.nil_append, cprod_cons]
  have h1 : factor den (max conf g.2) ≤ factor den g.2 := factor_anti den (le_max_right _ _)
  have h2 := cprod_nonneg den ((missesOf keys gs).map (·.2))
  have h3 : (0 : Int) ≤ ((den ^ gs.length : Nat) : Int) := by positivity
  have := mul_le_mul_of_nonneg_right h1 h2
  nlinarith [this]

-- ------------------------------------------------------------------------------------------
-- coverage: every key that was ever seen sits in some group
-- ------------------------------------------------------------------------------------------

def covered (gs : List Group) (k : Key) : Prop := ∃ g ∈ gs, k ∈ g.1

theorem mem_addSpec_keys {keys : List Key} {conf : Int} {gs : List Group} {k : Key} :
    covered (addSpec keys conf gs) k ↔ k ∈ keys ∨ covered gs k := by
  induction gs with
  | nil => simp [addSpec, covered]
  | cons g gs ih =>
    unfold addSpec
    by_cases hh : hit keys g = true
    · simp only [hh, if_true, covered, List.mem_cons, exists_eq_or_imp, List.mem_append, mem_flatKeys,
        hitsOf, missesOf, List.mem_filter]
      constructor
      · rintro (((h | h) | ⟨x, ⟨hx, _⟩, hk⟩) | ⟨x, ⟨hx, _⟩, hk⟩)
        · exact Or.inr (Or.inl h)
        · exact Or.inl h
        · exact Or.inr (Or.inr ⟨x, hx, hk⟩)
        · exact Or.inr (Or.inr ⟨x, hx, hk⟩)
      · rintro (h | h | ⟨x, hx, hk⟩)
        · exact Or.inl (Or.inl (Or.inr h))
        · exact Or.inl (Or.inl (Or.inl h))
        · by_cases hx2 : hit keys x = true
          · exact Or.inl (Or.inr ⟨x, ⟨hx, hx2⟩, hk⟩)
          · exact Or.inr ⟨x, ⟨hx, by simpa using hx2⟩, hk⟩
    · have hf : hit keys g = false := by simpa using hh
      simp only [hf, Bool.false_eq_true, if_false]
      have : covered (g :: addSpec keys conf gs) k ↔ k ∈ g.1 ∨ covered (addSpec keys conf gs) k := by
        simp [covered]
      rw [this, ih]
      simp only [covered, List.mem_cons, exists_eq_or_imp]
      tauto

theorem covered_groupsSpec {gs : List Group} {cands : List Cand} {k : Key} :
    covered (groupsSpec gs cands) k ↔ covered gs k ∨ ∃ c ∈ cands, k ∈ c.keys := by
  induction cands generalizing gs with
  | nil => simp [groupsSpec]
  | cons c rest ih =>
    have : groupsSpec gs (c :: rest) = groupsSpec (addSpec c.keys c.conf gs) rest := rfl
    rw [this, ih, mem_addSpec_keys]
    simp only [List.mem_cons, exists_eq_or_imp]
    tauto

/-- A candidate sharing a key with an earlier candidate touches a group. -/
theorem hitsOf_ne_nil_of_shared {cands : List Cand} {keys : List Key}
    (h : ∃ c ∈ cands, ∃ k ∈ c.keys, k ∈ keys) : hitsOf keys (groupsSpec [] cands) ≠ [] := by
  obtain ⟨c, hc, k, hk, hk'⟩ := h
  have : covered (groupsSpec [] cands) k := covered_groupsSpec.2 (Or.inr ⟨c, hc, hk⟩)
  obtain ⟨g, hg, hkg⟩ := this
  intro hnil
  have : g ∈ hitsOf keys (groupsSpec [] cands) := by
    unfold hitsOf; rw [List.mem_filter]
    exact ⟨hg, overlaps_iff.2 ⟨k, hkg, hk'⟩⟩
  rw [hnil] at this; cases this

theorem groupsSpec_append (gs : List Group) (a b : List Cand) :
    groupsSpec gs (a ++ b) = groupsSpec (groupsSpec gs a) b := by
  unfold groupsSpec; rw [List.foldl_append]

-- ------------------------------------------------------------------------------------------
-- monotonicity in the confidences
-- ------------------------------------------------------------------------------------------

/-- Same groups (same keys, same order), confidences pointwise no smaller. -/
def Dom : List Group → List Group → Prop
  | [], [] => True
  | g :: gs, g' :: gs' => g.1 = g'.1 ∧ g.2 ≤ g'.2 ∧ Dom gs gs'
  | _, _ => False

theorem Dom.refl : ∀ gs, Dom gs gs
  | [] => trivial
  | _ :: gs => ⟨rfl, le_rfl, Dom.refl gs⟩

theorem Dom.filter (p : List Key → Bool) : ∀ {gs gs' : List Group}, Dom gs gs' →
    Dom (gs.filter (fun g => p g.1)) (gs'.filter (fun g => p g.1))
  | [], [], _ => trivial
  | g :: gs, g' :: gs', ⟨hk, hc, hd⟩ => by
    simp only [List.filter_cons, hk]
    split
    · exact ⟨hk, hc, Dom.filter p hd⟩
    · exact Dom.filter p hd
  | [], _ :: _, h => h.elim
  | _ :: _, [], h => h.elim

theorem Dom.flatKeys : ∀ {gs gs' : List Group}, Dom gs gs' → flatKeys gs = flatKeys gs'
  | [], [], _ => rfl
  | g :: gs, g' :: gs', ⟨hk, _, hd⟩ => by
    simp only [AndaVerif.Belief.flatKeys, List.flatMap_cons, hk]
    congr 1; exact Dom.flatKeys hd
  | [], _ :: _, h => h.elim
  | _ :: _, [], h => h.elim

theorem Dom.maxConf : ∀ {gs gs' : List Group} {c c' : Int}, Dom gs gs' → c ≤ c' →
    maxConf c gs ≤ maxConf c' gs'
  | [], [], _, _, _, h => h
  | g :: gs, g' :: gs', c, c', ⟨_, hc, hd⟩, h => by
    show AndaVerif.Belief.maxConf (max c g.2) gs ≤ AndaVerif.Belief.maxConf (max c' g'.2) gs'
    exact Dom.maxConf hd (max_le_max h hc)
  | [], _ :: _, _, _, h, _ => h.elim
  | _ :: _, [], _, _, h, _ => h.elim

theorem Dom.addSpec (keys : List Key) {c c' : Int} (hc : c ≤ c') : ∀ {gs gs' : List Group}, Dom gs gs' →
    Dom (addSpec keys c gs) (addSpec keys c' gs')
  | [], [], _ => ⟨rfl, hc, trivial⟩
  | g :: gs, g' :: gs', ⟨hk, hg, hd⟩ => by
    unfold AndaVerif.Belief.addSpec
    have hhit : hit keys g = hit keys g' := by simp [hit, hk]
    have hH : Dom (hitsOf keys gs) (hitsOf keys gs') := Dom.filter (fun ks => overlaps ks keys) hd
    have hM : Dom (missesOf keys gs) (missesOf keys gs') := Dom.filter (fun ks => !overlaps ks keys) hd
    rw [← hhit]
    split
    · exact ⟨by rw [hk, Dom.flatKeys hH], Dom.maxConf hH (max_le_max hg hc), hM⟩
    · exact ⟨hk, hg, Dom.addSpec keys hc hd⟩
  | [], _ :: _, h => h.elim
  | _ :: _, [], h => h.elim

/-- Candidate lists that differ only by (pointwise) larger confidences. -/
def Raised : List Cand → List Cand → Prop
  | [], [] => True
  | a :: as, b :: bs => a.keys = b.keys ∧ a.conf ≤ b.conf ∧ Raised as bs
  | _, _ => False

theorem Dom.groupsSpec : ∀ {a b : List Cand} {gs gs' : List Group}, Raised a b → Dom gs gs' →
    Dom (groupsSpec gs a) (groupsSpec gs' b)
  | [], [], _, _, _, hd => hd
  | x :: a, y :: b, gs, gs', ⟨hk, hc, hr⟩, hd => by
    show Dom (AndaVerif.Belief.groupsSpec (AndaVerif.Belief.addSpec x.keys x.conf gs) a)
      (AndaVerif.Belief.groupsSpec (AndaVerif.Belief.addSpec y.keys y.conf gs') b)
    rw [← hk]
    exact Dom.groupsSpec hr (Dom.addSpec x.keys hc hd)
  | [], _ :: _, _, _, h, _ => h.elim
  | _ :: _, [], _, _, h, _ => h.elim

theorem Dom.length : ∀ {gs gs' : List Group}, Dom gs gs' → gs.length = gs'.length
  | [], [], _ => rfl
  | _ :: _, _ :: _, ⟨_, _, hd⟩ => by simp [Dom.length hd]
  | [], _ :: _, h => h.elim
  | _ :: _, [], h => h.elim

theorem Dom.compProd (den : Nat) : ∀ {gs gs' : List Group}, Dom gs gs' → compProd den gs' ≤ compProd den gs
  | [], [], _ => le_rfl
  | g :: gs, g' :: gs', ⟨_, hc, hd⟩ => by
    rw [compProd_cons, compProd_cons]
    exact mul_le_mul (factor_anti den hc) (Dom.compProd den hd) (compProd_nonneg den gs') (factor_nonneg den g.2)
  | [], _ :: _, h => h.elim
  | _ :: _, [], h => h.elim

/-- **Raising confidences never lowers the score and never changes the grouping.** -/
theorem scoreOf_mono (den : Nat) {gs gs' : List Group} (h : Dom gs gs') :
    (scoreOf den gs).den = (scoreOf den gs').den ∧ (scoreOf den gs).num ≤ (scoreOf den gs').num ∧
      gs.length = gs'.length := by
  have hl := Dom.length h
  have hp := Dom.compProd den h
  simp only [scoreOf, hl]
  exact ⟨trivial, by omega, trivial⟩

/-- Candidate lists that differ only by (pointwise) larger confidences, sides unchanged. -/
def RaisedC : List Cand → List Cand → Prop
  | [], [] => True
  | a :: as, b :: bs =>
    a.keys = b.keys ∧ a.stance = b.stance ∧ a.opposes = b.opposes ∧ a.conf ≤ b.conf ∧ RaisedC as bs
  | _, _ => False

theorem RaisedC.refl : ∀ cs, RaisedC cs cs
  | [] => trivial
  | _ :: cs => ⟨rfl, rfl, rfl, le_rfl, RaisedC.refl cs⟩

theorem RaisedC.side (opposing : Bool) : ∀ {a b : List Cand}, RaisedC a b →
    Raised (a.filter (onSide opposing)) (b.filter (onSide opposing))
  | [], [], _ => trivial
  | x :: a, y :: b, ⟨hk, hs, ho, hc, hr⟩ => by
    have hside : onSide opposing x = onSide opposing y := by simp [onSide, hs, ho]
    simp only [List.filter_cons, hside]
    split
    · exact ⟨hk, hc, RaisedC.side opposing hr⟩
    · exact RaisedC.side opposing hr
  | [], _ :: _, h => h.elim
  | _ :: _, [], h => h.elim

theorem Raised.length : ∀ {a b : List Cand}, Raised a b → a.length = b.length
  | [], [], _ => rfl
  | _ :: _, _ :: _, ⟨_, _, hr⟩ => by simp [Raised.length hr]
  | [], _ :: _, h => h.elim
  | _ :: _, [], h => h.elim

/-- **`aggregate` is monotone in the confidences**: same number of groups, same denominator,
numerator no smaller. -/
theorem aggregate_mono (den : Nat) {c₁ c₂ : List Cand} (h : RaisedC c₁ c₂) (opposing : Bool) :
    ∃ s₁ s₂ g, aggregate den c₁ opposing = some (s₁, g) ∧ aggregate den c₂ opposing = some (s₂, g) ∧
      s₁.den = s₂.den ∧ s₁.num ≤ s₂.num := by
  have hr := RaisedC.side opposing h
  have hl := Raised.length hr
  rw [aggregate_eq, aggregate_eq]
  have hempty : (c₁.filter (onSide opposing)).isEmpty = (c₂.filter (onSide opposing)).isEmpty := by
    rw [Bool.eq_iff_iff, List.isEmpty_iff, List.isEmpty_iff, ← List.length_eq_zero_iff,
      ← List.length_eq_zero_iff, hl]
  rw [hempty]
  split
  · exact ⟨_, _, _, rfl, rfl, rfl, le_rfl⟩
  · obtain ⟨h1, h2, h3⟩ := scoreOf_mono den (Dom.groupsSpec hr (Dom.refl []))
    rw [← h3]
    exact ⟨_, _, _, rfl, rfl, h1, h2⟩

theorem onSide_excl {opposing : Bool} {c : Cand} (h : onSide opposing c = true) : onSide (!opposing) c = false := by
  cases opposing <;> cases ho : c.opposes <;> cases hs : c.stance <;> simp_all [onSide]

/-- **Repetition is not support** (one more candidate on one side; the other side is untouched).
`G` are the groups of that side before; `hitsOf c.keys G` the group(s) the newcomer joins. -/
theorem aggregate_repetition (den : Nat) (cands : List Cand) (c : Cand) (opposing : Bool)
    (hside : onSide opposing c = true)
    (hshare : ∃ c' ∈ cands, onSide opposing c' = true ∧ ∃ k ∈ c'.keys, k ∈ c.keys)
    {cands' : List Cand} (hperm : cands'.Perm (cands ++ [c])) :
    ∃ s g s' g',
      aggregate den cands opposing = some (s, g) ∧ aggregate den cands' opposing = some (s', g') ∧
      aggregate den cands' (!opposing) = aggregate den cands (!opposing) ∧
      g' ≤ g ∧
      ((∃ h ∈ hitsOf c.keys (groupsSpec [] (cands.filter (onSide opposing))), c.conf ≤ h.2) → s'.le s) ∧
      (∀ h, hitsOf c.keys (groupsSpec [] (cands.filter (onSide opposing))) = [h] → c.conf ≤ h.2 →
        s' = s ∧ g' = g) ∧
      (∀ h, hitsOf c.keys (groupsSpec [] (cands.filter (onSide opposing))) = [h] → s.le s') := by
  rw [aggregate_perm den hperm, aggregate_perm den hperm]
  have hf : (cands ++ [c]).filter (onSide opposing) = cands.filter (onSide opposing) ++ [c] := by
    simp [List.filter_append, hside]
  have hf' : (cands ++ [c]).filter (onSide (!opposing)) = cands.filter (onSide (!opposing)) := by
    simp [List.filter_append, onSide_excl hside]
  obtain ⟨c', hc', hs', k, hk, hk'⟩ := hshare
  have hne : cands.filter (onSide opposing) ≠ [] := by
    intro h0
    have : c' ∈ cands.filter (onSide opposing) := List.mem_filter.2 ⟨hc', hs'⟩
    rw [h0] at this; cases this
  have hhits : hitsOf c.keys (groupsSpec [] (cands.filter (onSide opposing))) ≠ [] :=
    hitsOf_ne_nil_of_shared ⟨c', List.mem_filter.2 ⟨hc', hs'⟩, k, hk, hk'⟩
  have hG : groupsSpec [] (cands.filter (onSide opposing) ++ [c]) =
      addSpec c.keys c.conf (groupsSpec [] (cands.filter (onSide opposing))) := by
    rw [groupsSpec_append]; rfl
  refine ⟨scoreOf den (groupsSpec [] (cands.filter (onSide opposing))),
    (groupsSpec [] (cands.filter (onSide opposing))).length,
    scoreOf den (addSpec c.keys c.conf (groupsSpec [] (cands.filter (onSide opposing)))),
    (addSpec c.keys c.conf (groupsSpec [] (cands.filter (onSide opposing)))).length, ?_, ?_, ?_, ?_, ?_, ?_, ?_⟩
  · rw [aggregate_eq, if_neg (by simpa [List.isEmpty_iff] using hne)]
  · rw [aggregate_eq, hf, if_neg (by simp), hG]
  · rw [aggregate_eq, aggregate_eq, hf']
  · exact addSpec_length_le hhits _
  · intro hweak; exact addSpec_score_le den hweak
  · intro h hone hc; exact addSpec_score_eq den hone hc
  · intro h hone; exact addSpec_score_ge_single den hone

end AndaVerif.Belief
