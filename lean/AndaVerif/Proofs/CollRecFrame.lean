import AndaVerif.Model.CollCrash
import AndaVerif.Proofs.CollStep
namespace AndaVerif.Collection.Crash
open AndaVerif.Collection

/-- what recovery may not touch: the stored document objects and the schema -/
def Frame (a b : State) : Prop := b.docs = a.docs ∧ b.schema = a.schema

theorem Frame.refl (a : State) : Frame a a := ⟨rfl, rfl⟩
theorem Frame.trans {a b c : State} (h1 : Frame a b) (h2 : Frame b c) : Frame a c :=
  ⟨h2.1.trans h1.1, h2.2.trans h1.2⟩

theorem reindexOne_frame (s : State) (id : Nat) : Frame s (reindexOne s id) := by
  unfold reindexOne; split <;> exact ⟨rfl, rfl⟩

theorem replayReindex_frame (ids : List Nat) : ∀ s : State, Frame s (replayReindex s ids) := by
  induction ids with
  | nil => intro s; exact Frame.refl s
  | cons id rest ih => intro s; exact (reindexOne_frame s id).trans (ih _)

theorem replayFusedLoop_frame (intents : List Intent) (ids : List Nat) :
    ∀ s : State, Frame s (replayFusedLoop s intents ids) := by
  induction ids with
  | nil => intro s; exact Frame.refl s
  | cons id rest ih =>
    intro s
    show Frame s (replayFusedLoop (reindexOne { s with ix := replayRemoveImages s.ix (intents.filter (fun it => it.id == id)) } id) intents rest)
    exact Frame.trans (Frame.trans (b := { s with ix := replayRemoveImages s.ix (intents.filter (fun it => it.id == id)) }) ⟨rfl, rfl⟩ (reindexOne_frame _ id)) (ih _)

theorem replayWith_frame (mode : ReplayMode) (s : State) (intents : List Intent) :
    Frame s (replayWith mode s intents) := by
  unfold replayWith
  split
  · exact Frame.refl s
  · cases mode
    · exact Frame.trans (Frame.trans (b := { s with ix := replayRemoveImages s.ix intents }) ⟨rfl, rfl⟩
        (replayReindex_frame _ _)) ⟨rfl, rfl⟩
    · exact Frame.trans (replayFusedLoop_frame intents _ s) ⟨rfl, rfl⟩

theorem scanFold_frame (ids : List Nat) : ∀ s : State,
    Frame s (ids.foldl (fun s id => match lookupD s.docs id with | some d => scanOne s id d | none => s) s) := by
  induction ids with
  | nil => intro s; exact Frame.refl s
  | cons id rest ih =>
    intro s
    rw [List.foldl_cons]
    refine Frame.trans ?_ (ih _)
    split
    · exact ⟨rfl, rfl⟩
    · exact Frame.refl s

theorem repairScan_frame (s : State) (cp : Nat) : Frame s (repairScan s cp) := by
  unfold repairScan; exact scanFold_frame _ s

theorem runPhase_frame (cfg : RecCfg) (x : DState) (s : State) (p : Phase) : Frame s (runPhase cfg x s p) := by
  cases p
  · exact replayWith_frame _ _ _
  · exact repairScan_frame _ _

theorem phases_frame (cfg : RecCfg) (x : DState) (ps : List Phase) : ∀ s : State,
    Frame s (ps.foldl (runPhase cfg x) s) := by
  induction ps with
  | nil => intro s; exact Frame.refl s
  | cons p rest ih => intro s; rw [List.foldl_cons]; exact (runPhase_frame cfg x s p).trans (ih _)

theorem flush_frame (s : State) : Frame s (flush s) := by
  unfold flush; split <;> exact ⟨rfl, rfl⟩

theorem dflush_frame (x : DState) : Frame x.s (dflush x).s := by
  unfold dflush
  by_cases h : x.s.dirty <;> simp [h] <;> exact flush_frame _

theorem flush_not_dirty (s : State) : (flush s).dirty = false := by
  unfold flush; split
  · rfl
  · simp_all

end AndaVerif.Collection.Crash
