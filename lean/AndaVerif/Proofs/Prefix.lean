import AndaVerif.Model.Prefix
/-
The prefix scan returns exactly the entries whose key starts with the prefix: in a byte-wise
lexicographically ordered key set the keys with a given prefix are a contiguous block that begins at
the first key not below the prefix.
-/
namespace AndaVerif
namespace Prefix

theorem prefix_not_lt : ∀ (pre k : SKey), pre.isPrefixOf k = true → lexLt k pre = false
  | [], [], _ => rfl
  | [], _ :: _, _ => rfl
  | _ :: _, [], h => by simp [List.isPrefixOf] at h
  | a :: pre, b :: k, h => by
    simp only [List.isPrefixOf, Bool.and_eq_true, beq_iff_eq] at h
    have ih := prefix_not_lt pre k h.2
    simp [lexLt, h.1, ih]

theorem no_prefix_after : ∀ (pre k k' : SKey), lexLt k pre = false → pre.isPrefixOf k = false →
    lexLt k k' = true → pre.isPrefixOf k' = false
  | [], k, _, _, h2, _ => by cases k <;> simp [List.isPrefixOf] at h2
  | _ :: _, [], _, h1, _, _ => by simp [lexLt] at h1
  | _ :: _, _ :: _, [], _, _, h3 => by simp [lexLt] at h3
  | a :: pre, b :: k, c :: k', h1, h2, h3 => by
    simp only [lexLt] at h1 h3
    simp only [List.isPrefixOf, Bool.and_eq_false_iff, beq_eq_false_iff_ne, ne_eq] at h2 ⊢
    by_cases hac : a = c
    · right
      subst hac
      by_cases hba : b < a
      · simp [hba] at h1
      · simp only [hba, if_false] at h1 h3
        by_cases hbe : b = a
        · subst hbe
          simp only [if_true] at h1 h3
          have h2' : pre.isPrefixOf k = false := by
            rcases h2 with h | h
            · exact absurd rfl h
            · exact h
          exact no_prefix_after pre k k' h1 h2' h3
        · simp [hbe] at h3
    · left; exact hac

def SSortedLex (m : SMap) : Prop := (m.map (·.1)).Pairwise (fun a b => lexLt a b = true)

theorem takeWhile_eq_filter (pre : SKey) : ∀ (l : SMap), SSortedLex l → (∀ e ∈ l, lexLt e.1 pre = false) →
    l.takeWhile (fun e => pre.isPrefixOf e.1) = l.filter (fun e => pre.isPrefixOf e.1)
  | [], _, _ => rfl
  | e :: l, hs, hge => by
    simp only [SSortedLex, List.map_cons, List.pairwise_cons] at hs
    have ih := takeWhile_eq_filter pre l hs.2 (fun e' he' => hge e' (List.mem_cons_of_mem _ he'))
    simp only [List.takeWhile_cons, List.filter_cons]
    cases hp : pre.isPrefixOf e.1 with
    | true => simp only [if_true]; rw [ih]
    | false =>
      simp only [Bool.false_eq_true, if_false]
      symm
      rw [List.filter_eq_nil_iff]
      intro e' he'
      have hlt := hs.1 e'.1 (List.mem_map.2 ⟨e', he', rfl⟩)
      have := no_prefix_after pre e.1 e'.1 (hge e (by simp)) hp hlt
      simp [this]

theorem prefix_block (m : SMap) (h : SSortedLex m) (pre : SKey) :
    (m.filter (fun e => !lexLt e.1 pre)).takeWhile (fun e => pre.isPrefixOf e.1)
      = m.filter (fun e => pre.isPrefixOf e.1) := by
  rw [takeWhile_eq_filter pre]
  · rw [List.filter_filter]
    apply List.filter_congr
    intro e _
    cases hp : pre.isPrefixOf e.1 with
    | false => simp
    | true => simp [prefix_not_lt pre e.1 hp]
  · exact List.Pairwise.sublist (List.Sublist.map _ List.filter_sublist) h
  · intro e he
    have := (List.mem_filter.1 he).2
    simpa using this

theorem sWalk_pcbStop_some {ρ : Type} (g : SKey → List Nat → Option ρ) (n : Nat) :
    ∀ (es : List (SKey × List Nat)) (c : Nat),
      sWalk (pcbStop (some n) g) es c = (es.take (max (n - c) 1)).filterMap (fun e => g e.1 e.2)
  | [], c => by simp [sWalk]
  | (k, p) :: es, c => by
    simp only [sWalk, pcbStop]
    by_cases h : c + 1 < n
    · simp only [h, decide_true, if_true]
      rw [sWalk_pcbStop_some g n es (c + 1)]
      have h1 : max (n - c) 1 = (max (n - (c + 1)) 1) + 1 := by omega
      rw [h1, List.take_succ_cons, List.filterMap_cons]
      cases hg : g k p <;> simp [hg]
    · simp only [h, decide_false]
      have h1 : max (n - c) 1 = 1 := by omega
      rw [h1]
      cases hg : g k p <;> simp [hg]

theorem sWalk_pcbStop_none {ρ : Type} (g : SKey → List Nat → Option ρ) :
    ∀ (es : List (SKey × List Nat)) (c : Nat),
      sWalk (pcbStop none g) es c = es.filterMap (fun e => g e.1 e.2)
  | [], c => by simp [sWalk]
  | (k, p) :: es, c => by
    simp only [sWalk, pcbStop, if_true, List.filterMap_cons]
    rw [sWalk_pcbStop_none g es (c + 1)]
    cases hg : g k p <;> simp [hg]

-- the string-keyed map stays ordered ---------------------------------------------------------------

theorem lexLt_irrefl : ∀ a : SKey, lexLt a a = false
  | [] => rfl
  | a :: as => by simp [lexLt, lexLt_irrefl as]

theorem lexLt_trans : ∀ a b c : SKey, lexLt a b = true → lexLt b c = true → lexLt a c = true
  | [], [], _, h, _ => by simp [lexLt] at h
  | [], _ :: _, [], _, h => by simp [lexLt] at h
  | [], _ :: _, _ :: _, _, _ => rfl
  | _ :: _, [], _, h, _ => by simp [lexLt] at h
  | _ :: _, _ :: _, [], _, h => by simp [lexLt] at h
  | a :: as, b :: bs, c :: cs, h1, h2 => by
    simp only [lexLt] at h1 h2 ⊢
    by_cases hab : a < b
    · by_cases hbc : b < c
      · have : a < c := by omega
        simp [this]
      · simp only [hbc, if_false] at h2
        by_cases e : b = c
        · subst e; simp [hab]
        · simp [e] at h2
    · simp only [hab, if_false] at h1
      by_cases e : a = b
      · subst e
        simp only [if_true] at h1
        by_cases hbc : a < c
        · simp [hbc]
        · simp only [hbc, if_false] at h2 ⊢
          by_cases e2 : a = c
          · subst e2
            simp only [if_true] at h2 ⊢
            exact lexLt_trans as bs cs h1 h2
          · simp [e2] at h2
      · simp [e] at h1

theorem lexLt_total : ∀ a b : SKey, lexLt a b = false → a ≠ b → lexLt b a = true
  | [], [], _, h => absurd rfl h
  | [], _ :: _, h, _ => by simp [lexLt] at h
  | _ :: _, [], _, _ => rfl
  | a :: as, b :: bs, h, hne => by
    simp only [lexLt] at h ⊢
    by_cases hab : a < b
    · simp [hab] at h
    · simp only [hab, if_false] at h
      by_cases e : a = b
      · subst e
        simp only [if_true] at h
        have : as ≠ bs := fun e' => hne (by rw [e'])
        simp [lexLt_total as bs h this]
      · have : b < a := by omega
        simp [this]

theorem mem_keys_sIns (k : SKey) (d : Nat) : ∀ (m : SMap) (a : SKey),
    a ∈ (sIns k d m).map (·.1) → a = k ∨ a ∈ m.map (·.1)
  | [], a, h => by simp [sIns] at h; exact Or.inl h
  | (k', p) :: m, a, h => by
    simp only [sIns] at h
    split at h
    · simp only [List.map_cons, List.mem_cons] at h ⊢
      rcases h with h | h | h
      · exact Or.inl h
      · exact Or.inr (Or.inl h)
      · exact Or.inr (Or.inr h)
    · split at h
      · simp only [List.map_cons, List.mem_cons] at h ⊢; exact Or.inr h
      · simp only [List.map_cons, List.mem_cons] at h ⊢
        rcases h with h | h
        · exact Or.inr (Or.inl h)
        · rcases mem_keys_sIns k d m a h with h' | h'
          · exact Or.inl h'
          · exact Or.inr (Or.inr h')

theorem sorted_sIns (k : SKey) (d : Nat) : ∀ m : SMap, SSortedLex m → SSortedLex (sIns k d m)
  | [], _ => by simp [sIns, SSortedLex]
  | (k', p) :: m, h => by
    have h' : (∀ a ∈ m.map (·.1), lexLt k' a = true) ∧ SSortedLex m := by
      simpa [SSortedLex, List.pairwise_cons] using h
    simp only [sIns]
    split
    · rename_i hlt
      simp only [SSortedLex, List.map_cons, List.pairwise_cons]
      refine ⟨?_, ?_, h'.2⟩
      · intro a ha
        rcases List.mem_cons.1 ha with e | ha
        · rw [e]; exact hlt
        · exact lexLt_trans k k' a hlt (h'.1 a ha)
      · exact h'.1
    · split
      · simpa [SSortedLex, List.pairwise_cons] using h
      · rename_i hnlt hne
        simp only [SSortedLex, List.map_cons, List.pairwise_cons]
        refine ⟨?_, sorted_sIns k d m h'.2⟩
        intro a ha
        rcases mem_keys_sIns k d m a ha with e | ha
        · rw [e]; exact lexLt_total k k' (by simpa using hnlt) hne
        · exact h'.1 a ha

theorem mem_keys_sDel (k : SKey) (d : Nat) : ∀ (m : SMap) (a : SKey),
    a ∈ (sDel k d m).map (·.1) → a ∈ m.map (·.1)
  | [], _, h => by simp [sDel] at h
  | (k', p) :: m, a, h => by
    simp only [sDel] at h
    split at h
    · split at h
      · split at h
        · exact List.mem_cons_of_mem _ h
        · simpa using h
      · exact h
    · simp only [List.map_cons, List.mem_cons] at h ⊢
      rcases h with h | h
      · exact Or.inl h
      · exact Or.inr (mem_keys_sDel k d m a h)

theorem sorted_sDel (k : SKey) (d : Nat) : ∀ m : SMap, SSortedLex m → SSortedLex (sDel k d m)
  | [], _ => by simp [sDel, SSortedLex]
  | (k', p) :: m, h => by
    have h' : (∀ a ∈ m.map (·.1), lexLt k' a = true) ∧ SSortedLex m := by
      simpa [SSortedLex, List.pairwise_cons] using h
    simp only [sDel]
    split
    · split
      · split
        · exact h'.2
        · simpa [SSortedLex, List.pairwise_cons] using h
      · exact h
    · simp only [SSortedLex, List.map_cons, List.pairwise_cons]
      exact ⟨fun a ha => h'.1 a (mem_keys_sDel k d m a ha), sorted_sDel k d m h'.2⟩

end Prefix
end AndaVerif
