import AndaVerif.Proofs.ConcGate
/-
The id allocator: every add that got past `fetch_add` owns an id that is non-zero, at most
`max_document_id`, above the initial `max_document_id`, and different from every other add's.
-/
namespace AndaVerif.ConcColl

theorem GateInv.init (c : Cfg) (hr : c.sh.readers = []) (hw : c.sh.writer = none)
    (hidle : ∀ (x : Nat) (th : Thread), c.th[x]? = some th → th.pc = .idle) : GateInv c := by
  refine ⟨fun x => ?_, fun x => ?_, ?_⟩
  · simp only [hr, List.not_mem_nil, false_iff]
    rintro ⟨th, hth, _, ha⟩
    simp [hidle x th hth, Pc.active] at ha
  · simp only [hw, reduceCtorEq, false_iff]
    rintro ⟨th, hth, _, ha⟩
    simp [hidle x th hth, Pc.active] at ha
  · simp [hw]

-- ------------------------------------------------------------------------------------------
-- aspect: the allocator
-- ------------------------------------------------------------------------------------------

theorem stepThread_alloc (sh : Shared) (t : Nat) (th : Thread) (sh' : Shared) (th' : Thread)
    (h : stepThread sh t th = some (sh', th')) :
    (th.isAdd = false → sh'.maxId = sh.maxId) ∧
    (th.isAdd = true →
      (th.pc = .idle → (th'.id = th.id ∧ sh'.maxId = sh.maxId ∧ th'.pc = .done ∧ th'.res = some (.err .state)) ∨
                       (th'.id = sh.maxId + 1 ∧ sh'.maxId = sh.maxId + 1)) ∧
      (th.pc ≠ .idle → th'.id = th.id ∧ sh'.maxId = sh.maxId) ∧
      (∀ a, th'.res = some (.added a) → th.res = some (.added a) ∨ (a = th'.id ∧ th.pc = .createWait))) := by
  step_cases h
  all_goals simp [*, Thread.isAdd]

/-- `M0` is the allocator's value before the calls were issued. -/
structure IdsInv (M0 : Nat) (c : Cfg) : Prop where
  mono : M0 ≤ c.sh.maxId
  /-- an add that has not been issued, or failed the lifecycle check, has no id -/
  idle : ∀ (x : Nat) (th : Thread), c.th[x]? = some th → th.isAdd = true → th.pc = .idle → th.id = 0
  /-- an allocated id lies in `(M0, max_document_id]` -/
  range : ∀ (x : Nat) (th : Thread), c.th[x]? = some th → th.isAdd = true → th.id ≠ 0 → M0 < th.id ∧ th.id ≤ c.sh.maxId
  /-- in-flight adds own an id -/
  flight : ∀ (x : Nat) (th : Thread), c.th[x]? = some th → th.isAdd = true → th.pc.active = true → th.id ≠ 0
  distinct : ∀ (x y : Nat) (thx thy : Thread), c.th[x]? = some thx → c.th[y]? = some thy → x ≠ y →
    thx.isAdd = true → thy.isAdd = true → thx.id ≠ 0 → thx.id ≠ thy.id
  /-- the id an add returns is the one it allocated -/
  res : ∀ (x : Nat) (th : Thread) (a : Nat), c.th[x]? = some th → th.res = some (.added a) → th.isAdd = true ∧ a = th.id ∧ a ≠ 0
  /-- only a returned call has a result -/
  resdone : ∀ (x : Nat) (th : Thread), c.th[x]? = some th → th.res ≠ none → th.pc = .done

theorem stepThread_res (sh : Shared) (t : Nat) (th : Thread) (sh' : Shared) (th' : Thread)
    (h : stepThread sh t th = some (sh', th')) :
    (th'.res = th.res ∨ th'.pc = .done) ∧
    (∀ a, th'.res = some (.added a) → th.res = some (.added a) ∨ th.isAdd = true) := by
  step_cases h
  all_goals simp [*, Thread.isAdd, flushResult]

theorem IdsInv.step {M0 t : Nat} {c c' : Cfg} (inv : IdsInv M0 c) (h : step t c = some c') :
    IdsInv M0 c' := by
  obtain ⟨th, sh', th', hth, hst, rfl⟩ := step_elim h
  obtain ⟨hop, hnd, hni, _, _, _, _⟩ := stepThread_gate _ _ _ _ _ hst
  obtain ⟨hna, ha⟩ := stepThread_alloc _ _ _ _ _ hst
  have hself : (c.th.set t th')[t]? = some th' := getElem?_set_self' _ _ _ _ hth
  have hadd' : th'.isAdd = th.isAdd := isAdd_of_op hop
  have hmono : c.sh.maxId ≤ sh'.maxId := by
    rcases hk : th.isAdd with _ | _
    · rw [hna hk]; exact Nat.le_refl _
    · obtain ⟨h1, h2, _⟩ := ha hk
      by_cases hi : th.pc = .idle
      · rcases h1 hi with ⟨_, hm, _⟩ | ⟨_, hm⟩ <;> omega
      · rw [(h2 hi).2]; exact Nat.le_refl _
  -- the stepping thread's new id: unchanged, or fresh
  have hid : th'.isAdd = true → (th'.id = th.id) ∨ (th.pc = .idle ∧ th'.id = c.sh.maxId + 1 ∧ sh'.maxId = c.sh.maxId + 1) := by
    intro hk
    rw [hadd'] at hk
    obtain ⟨h1, h2, _⟩ := ha hk
    by_cases hi : th.pc = .idle
    · rcases h1 hi with ⟨he, _⟩ | ⟨he, hm⟩
      · exact Or.inl he
      · exact Or.inr ⟨hi, he, hm⟩
    · exact Or.inl (h2 hi).1
  have hres0 : th.res = none := by
    by_cases hn : th.res = none
    · exact hn
    · exact absurd (inv.resdone t th hth hn) hnd
  refine ⟨Nat.le_trans inv.mono hmono, ?_, ?_, ?_, ?_, ?_, ?_⟩
  · intro x thx hx hk hi
    by_cases hxt : x = t
    · subst hxt
      rw [hself] at hx; cases hx
      exact absurd hi hni
    · rw [getElem?_set_ne' _ _ _ _ hxt] at hx
      exact inv.idle x thx hx hk hi
  · intro x thx hx hk hne
    by_cases hxt : x = t
    · subst hxt
      rw [hself] at hx; cases hx
      rcases hid hk with he | ⟨_, he, hm⟩
      · rw [he] at hne ⊢
        have := inv.range x th hth (hadd' ▸ hk) hne
        exact ⟨this.1, Nat.le_trans this.2 hmono⟩
      · rw [he, hm]
        have := inv.mono
        omega
    · rw [getElem?_set_ne' _ _ _ _ hxt] at hx
      have := inv.range x thx hx hk hne
      exact ⟨this.1, Nat.le_trans this.2 hmono⟩
  · intro x thx hx hk hact
    by_cases hxt : x = t
    · subst hxt
      rw [hself] at hx; cases hx
      rw [hadd'] at hk
      obtain ⟨h1, h2, _⟩ := ha hk
      by_cases hi : th.pc = .idle
      · rcases h1 hi with ⟨_, _, hd, _⟩ | ⟨he, _⟩
        · simp [hd, Pc.active] at hact
        · rw [he]; omega
      · rw [(h2 hi).1]
        apply inv.flight x th hth hk
        rw [Pc.active_iff]; exact ⟨hi, hnd⟩
    · rw [getElem?_set_ne' _ _ _ _ hxt] at hx
      exact inv.flight x thx hx hk hact
  · intro x y thx thy hx hy hxy hkx hky hne
    by_cases hxt : x = t
    · subst hxt
      rw [hself] at hx; cases hx
      rw [getElem?_set_ne' _ _ _ _ (Ne.symm hxy)] at hy
      rcases hid hkx with he | ⟨_, he, _⟩
      · rw [he] at hne ⊢
        exact inv.distinct x y th thy hth hy hxy (hadd' ▸ hkx) hky hne
      · rw [he]
        intro heq
        by_cases hy0 : thy.id = 0
        · omega
        · have := (inv.range y thy hy hky hy0).2
          omega
    · rw [getElem?_set_ne' _ _ _ _ hxt] at hx
      by_cases hyt : y = t
      · subst hyt
        rw [hself] at hy; cases hy
        rcases hid hky with he | ⟨_, he, _⟩
        · rw [he]
          exact inv.distinct x y thx th hx hth hxy hkx (hadd' ▸ hky) hne
        · rw [he]
          have := (inv.range x thx hx hkx hne).2
          omega
      · rw [getElem?_set_ne' _ _ _ _ hyt] at hy
        exact inv.distinct x y thx thy hx hy hxy hkx hky hne
  · intro x thx a hx hr
    by_cases hxt : x = t
    · subst hxt
      rw [hself] at hx; cases hx
      have hk : th.isAdd = true := by
        rcases (stepThread_res _ _ _ _ _ hst).2 a hr with hold | hk
        · simp [hres0] at hold
        · exact hk
      obtain ⟨_, h2, h3⟩ := ha hk
      obtain ⟨hae, hpc⟩ : a = th'.id ∧ th.pc = .createWait := by
        rcases h3 a hr with hold | hh
        · simp [hres0] at hold
        · exact hh
      refine ⟨hadd' ▸ hk, hae, ?_⟩
      rw [hae, (h2 (by simp [hpc])).1]
      apply inv.flight x th hth hk
      simp [hpc, Pc.active]
    · rw [getElem?_set_ne' _ _ _ _ hxt] at hx
      exact inv.res x thx a hx hr
  · intro x thx hx hr
    by_cases hxt : x = t
    · subst hxt
      rw [hself] at hx; cases hx
      rcases (stepThread_res _ _ _ _ _ hst).1 with he | hd
      · rw [he, hres0] at hr; exact absurd rfl hr
      · exact hd
    · rw [getElem?_set_ne' _ _ _ _ hxt] at hx
      exact inv.resdone x thx hx hr

theorem IdsInv.init (c : Cfg) (hidle : ∀ (x : Nat) (th : Thread), c.th[x]? = some th → th.pc = .idle ∧ th.id = 0 ∧ th.res = none) :
    IdsInv c.sh.maxId c := by
  refine ⟨Nat.le_refl _, ?_, ?_, ?_, ?_, ?_, ?_⟩
  · intro x th hx _ _; exact (hidle x th hx).2.1
  · intro x th hx _ hne; exact absurd (hidle x th hx).2.1 hne
  · intro x th hx _ ha; simp [(hidle x th hx).1, Pc.active] at ha
  · intro x y thx thy hx _ _ _ _ hne; exact absurd (hidle x thx hx).2.1 hne
  · intro x th a hx hr; simp [(hidle x th hx).2.2] at hr
  · intro x th hx hr; exact absurd (hidle x th hx).2.2 hr

end AndaVerif.ConcColl
