import AndaVerif.Model.Bm25Flush
/-
The crash argument of the manifest protocol for the BM25 index: a loader reads the metadata and only
the objects it references, so writes that stay outside the referenced set are invisible to it.
-/
namespace AndaVerif
namespace Bm25

theorem applyAll_append (D : Durable) (a b : List Write) : applyAll D (a ++ b) = applyAll (applyAll D a) b := by
  induction a generalizing D with
  | nil => rfl
  | cons w a ih => simp [applyAll, ih]

theorem getObj_dropObj (objs : List (Obj × Payload)) (o o' : Obj) :
    getObj (dropObj objs o) o' = if o = o' then none else getObj objs o' := by
  induction objs with
  | nil => simp [dropObj, getObj]
  | cons e objs ih =>
    obtain ⟨k, p⟩ := e
    unfold dropObj at ih ⊢
    by_cases hk : k = o
    · subst hk
      simp only [List.filter_cons, beq_self_eq_true, Bool.not_true, Bool.false_eq_true, if_false, ih]
      by_cases h : k = o'
      · simp [h]
      · simp [h, getObj]
    · have hb : (k == o) = false := by simp [hk]
      simp only [List.filter_cons, hb, Bool.not_false, if_true, getObj, ih]
      by_cases h : k = o'
      · subst h
        have : ¬ o = k := fun e => hk e.symm
        simp [this]
      · simp [h]

/-- a write that cannot be seen through the reference set `refs` -/
def outside (refs : List Obj) (w : Write) : Bool := isPutObjOutside refs w || isDelOutside refs w

theorem apply_outside {refs : List Obj} {w : Write} (D : Durable) (h : outside refs w = true) :
    (D.apply w).md = D.md ∧ ∀ o ∈ refs, getObj (D.apply w).objs o = getObj D.objs o := by
  cases w with
  | putObj o' p =>
    have hn : o' ∉ refs := by simpa [outside, isPutObjOutside, isDelOutside] using h
    refine ⟨rfl, fun o ho => ?_⟩
    have hne : ¬ o' = o := fun e => hn (e ▸ ho)
    simp [Durable.apply, getObj, hne, getObj_dropObj]
  | putMeta m => simp [outside, isPutObjOutside, isDelOutside] at h
  | delObj o' =>
    have hn : o' ∉ refs := by simpa [outside, isPutObjOutside, isDelOutside] using h
    refine ⟨rfl, fun o ho => ?_⟩
    have hne : ¬ o' = o := fun e => hn (e ▸ ho)
    simp [Durable.apply, hne, getObj_dropObj]

theorem applyAll_outside {refs : List Obj} : ∀ (ws : List Write) (D : Durable), ws.all (outside refs) = true →
    (applyAll D ws).md = D.md ∧ ∀ o ∈ refs, getObj (applyAll D ws).objs o = getObj D.objs o
  | [], D, _ => ⟨rfl, fun _ _ => rfl⟩
  | w :: ws, D, h => by
    simp only [List.all_cons, Bool.and_eq_true] at h
    have h1 := apply_outside D h.1
    have h2 := applyAll_outside ws (D.apply w) h.2
    unfold applyAll
    exact ⟨h2.1.trans h1.1, fun o ho => (h2.2 o ho).trans (h1.2 o ho)⟩

theorem gather_congr {objs objs' : List (Obj × Payload)} : ∀ (os : List Obj) (acc : Postings × List (Nat × Nat)),
    (∀ o ∈ os, getObj objs o = getObj objs' o) → gather objs os acc = gather objs' os acc
  | [], _, _ => rfl
  | o :: os, acc, h => by
    unfold gather
    rw [h o List.mem_cons_self]
    cases getObj objs' o with
    | none => exact gather_congr os acc (fun o' ho' => h o' (List.mem_cons_of_mem _ ho'))
    | some p => exact gather_congr os _ (fun o' ho' => h o' (List.mem_cons_of_mem _ ho'))

/-- the loader sees the metadata and the referenced objects, nothing else -/
theorem load_congr {D D' : Durable} (hm : D'.md = D.md)
    (ho : ∀ o ∈ committedRefs D, getObj D'.objs o = getObj D.objs o) : load D' = load D := by
  unfold load
  rw [hm]
  cases hmd : D.md with
  | none => rfl
  | some m =>
    have : gather D'.objs (referenced m) ([], []) = gather D.objs (referenced m) ([], []) :=
      gather_congr _ _ (fun o h => ho o (by simpa [committedRefs, hmd] using h))
    simp only [this]

theorem load_outside {D : Durable} (ws : List Write) (h : ws.all (outside (committedRefs D)) = true) :
    load (applyAll D ws) = load D := by
  have := applyAll_outside ws D h
  exact load_congr this.1 this.2

theorem splitCommit_eq : ∀ {ws puts dels : List Write} {m : Meta}, splitCommit ws = some (puts, m, dels) →
    ws = puts ++ .putMeta m :: dels
  | [], _, _, _, h => by simp [splitCommit] at h
  | .putMeta m' :: r, puts, dels, m, h => by
    simp only [splitCommit, Option.some.injEq, Prod.mk.injEq] at h
    obtain ⟨rfl, rfl, rfl⟩ := h; rfl
  | .putObj o p :: r, puts, dels, m, h => by
    simp only [splitCommit] at h
    cases hr : splitCommit r with
    | none => rw [hr] at h; cases h
    | some x =>
      obtain ⟨a, m', b⟩ := x
      rw [hr] at h
      simp only [Option.some.injEq, Prod.mk.injEq] at h
      obtain ⟨rfl, rfl, rfl⟩ := h
      simp [splitCommit_eq hr]
  | .delObj o :: r, puts, dels, m, h => by
    simp only [splitCommit] at h
    cases hr : splitCommit r with
    | none => rw [hr] at h; cases h
    | some x =>
      obtain ⟨a, m', b⟩ := x
      rw [hr] at h
      simp only [Option.some.injEq, Prod.mk.injEq] at h
      obtain ⟨rfl, rfl, rfl⟩ := h
      simp [splitCommit_eq hr]

theorem all_outside_of_put {refs : List Obj} {ws : List Write} (h : ws.all (isPutObjOutside refs) = true) :
    ws.all (outside refs) = true := by
  rw [List.all_eq_true] at *
  intro w hw; simp [outside, h w hw]

theorem all_outside_of_del {refs : List Obj} {ws : List Write} (h : ws.all (isDelOutside refs) = true) :
    ws.all (outside refs) = true := by
  rw [List.all_eq_true] at *
  intro w hw; simp [outside, h w hw]

theorem all_take {α : Type} {p : α → Bool} {l : List α} (k : Nat) (h : l.all p = true) : (l.take k).all p = true := by
  rw [List.all_eq_true] at *
  intro x hx; exact h x (List.mem_of_mem_take hx)

/-- Crash prefixes of a flush. -/
theorem load_prefix (D : Durable) (ws : List Write) (h : flushShape D ws = true) (k : Nat) :
    load (applyAll D (ws.take k)) = if k < commitLen ws then load D else load (applyAll D ws) := by
  unfold flushShape at h
  cases ws with
  | nil => simp [applyAll]
  | cons w0 r =>
    simp only [] at h
    cases hs : splitCommit (w0 :: r) with
    | none => rw [hs] at h; cases h
    | some x =>
      obtain ⟨puts, m, dels⟩ := x
      rw [hs] at h
      simp only [Bool.and_eq_true] at h
      have hw := splitCommit_eq hs
      have hcl : commitLen (w0 :: r) = puts.length + 1 := by unfold commitLen; rw [hs]
      rw [hcl, hw]
      by_cases hk : k < puts.length + 1
      · simp only [hk, if_true]
        have : (puts ++ Write.putMeta m :: dels).take k = puts.take k := by
          rw [List.take_append_of_le_length (by omega)]
        rw [this]
        exact load_outside _ (all_outside_of_put (all_take k h.1))
      · simp only [hk, if_false]
        have hk' : puts.length + 1 ≤ k := by omega
        have e1 : (puts ++ Write.putMeta m :: dels).take k
            = puts ++ Write.putMeta m :: dels.take (k - (puts.length + 1)) := by
          rw [List.take_append]
          have : puts.take k = puts := List.take_of_length_le (by omega)
          rw [this]
          have : k - puts.length = (k - (puts.length + 1)) + 1 := by omega
          rw [this, List.take_succ_cons]
        rw [e1, applyAll_append, applyAll_append]
        simp only [applyAll]
        have hD1 : committedRefs ((applyAll D puts).apply (.putMeta m)) = referenced m := rfl
        rw [load_outside (D := (applyAll D puts).apply (.putMeta m)) _
              (by rw [hD1]; exact all_outside_of_del (all_take _ h.2)),
            load_outside (D := (applyAll D puts).apply (.putMeta m)) _
              (by rw [hD1]; exact all_outside_of_del h.2)]

theorem splitCommit_puts {refs : List Obj} (m : Meta) (dels : List Write) : ∀ (puts : List Write),
    puts.all (isPutObjOutside refs) = true → splitCommit (puts ++ .putMeta m :: dels) = some (puts, m, dels)
  | [], _ => rfl
  | w :: puts, h => by
    simp only [List.all_cons, Bool.and_eq_true] at h
    cases w with
    | putObj o p => simp [splitCommit, splitCommit_puts m dels puts h.2]
    | putMeta m' => simp [isPutObjOutside] at h
    | delObj o => simp [isPutObjOutside] at h

theorem arrange_eq (puts : List Write) (m : Meta) :
    arrange Gen.Bm25Order.flushOrder puts m = puts ++ [.putMeta m] := by
  rw [Gen.Bm25Order.gen_flushOrder]; simp [arrange]

/-- The write sequence in the order regenerated from `flush_with` has the shape the crash theorem
needs, whatever the bucket payloads are, as long as they go to objects the committed metadata does
not reference. -/
theorem arranged_shape (D : Durable) (puts : List Write) (m : Meta)
    (h : puts.all (isPutObjOutside (committedRefs D)) = true) :
    flushShape D (arrange Gen.Bm25Order.flushOrder puts m) = true := by
  rw [arrange_eq]
  unfold flushShape
  have hs := splitCommit_puts (refs := committedRefs D) m [] puts h
  cases hp : puts ++ [Write.putMeta m] with
  | nil => simp at hp
  | cons w r =>
    simp only []
    rw [← hp, hs]
    simp [h]

end Bm25
end AndaVerif
