import AndaVerif.Proofs.BeliefScore
/-
`aggregate` score bounds, `classify` case analysis, and the shape of `project`.
-/
namespace AndaVerif.Belief

/-- The score of a side is a fraction in `[0,1]` with a positive denominator. -/
structure Frac.InUnit (s : Frac) : Prop where
  den_pos : 0 < s.den
  num_nonneg : 0 ≤ s.num
  num_le : s.num ≤ s.den

theorem scoreOf_inUnit {den : Nat} (h : 0 < den) (gs : List Group) : (scoreOf den gs).InUnit :=
  ⟨scoreOf_den_pos h gs, scoreOf_num_nonneg den gs, scoreOf_num_le den gs⟩

theorem aggregate_inUnit {den : Nat} (h : 0 < den) {cands : List Cand} {opposing : Bool} {s : Frac} {g : Nat}
    (hagg : aggregate den cands opposing = some (s, g)) : s.InUnit := by
  unfold aggregate at hagg
  simp only at hagg
  split at hagg
  · cases hagg; exact ⟨by decide, by decide, by decide⟩
  · split at hagg
    · cases hagg
    · cases hagg; exact scoreOf_inUnit h _

/-- With no group there is no score. -/
theorem aggregate_zero_groups {den : Nat} {cands : List Cand} {opposing : Bool} {s : Frac}
    (hagg : aggregate den cands opposing = some (s, 0)) : s.num = 0 := by
  unfold aggregate at hagg
  simp only at hagg
  split at hagg
  · cases hagg; rfl
  · split at hagg
    · cases hagg
    · rename_i gs _
      simp only [Option.some.injEq, Prod.mk.injEq] at hagg
      obtain ⟨hs, hg⟩ := hagg
      have : gs = [] := List.eq_nil_of_length_eq_zero hg
      subst this; subst hs; simp [scoreOf, compProd]

theorem aggregate_empty_side {den : Nat} {cands : List Cand} {opposing : Bool}
    (h : cands.filter (onSide opposing) = []) :
    aggregate den cands opposing = some ({ num := 0, den := 1 }, 0) := by
  unfold aggregate; simp [h]

theorem classify_insufficient_iff (sup opp : Frac) (sg og : Nat) (u : List Nat) (pol : Policy) :
    classify sup opp sg og u pol = .insufficient ↔ (sg = 0 ∧ og = 0 ∧ u = []) := by
  unfold classify
  constructor
  · intro h
    by_cases hs : sg = 0 <;> by_cases ho : og = 0 <;> cases u <;> simp_all <;>
      (repeat' split at h) <;> simp_all
  · rintro ⟨rfl, rfl, rfl⟩; simp

/-- What `rejected` means in terms of the four threshold comparisons. -/
theorem classify_rejected {sup opp : Frac} {sg og : Nat} {u : List Nat} {pol : Policy}
    (h : classify sup opp sg og u pol = .rejected) :
    opp.ge pol.accept pol.den = true ∧ sup.lt pol.material pol.den = true ∧
      ¬ (sup.ge pol.accept pol.den = true ∧ opp.lt pol.material pol.den = true) := by
  unfold classify at h
  simp only at h
  repeat' split at h
  all_goals simp_all

theorem classify_accepted {sup opp : Frac} {sg og : Nat} {u : List Nat} {pol : Policy}
    (h : classify sup opp sg og u pol = .accepted) :
    sup.ge pol.accept pol.den = true ∧ opp.lt pol.material pol.den = true := by
  unfold classify at h
  simp only at h
  repeat' split at h
  all_goals simp_all

theorem Frac.ge_iff (s : Frac) (t : Int) (den : Nat) :
    s.ge t den = true ↔ t * (s.den : Int) ≤ s.num * (den : Int) := by simp [Frac.ge]

theorem Frac.lt_iff (s : Frac) (t : Int) (den : Nat) :
    s.lt t den = true ↔ s.num * (den : Int) < t * (s.den : Int) := by simp [Frac.lt, Frac.ge]

/-- `project` unfolded. -/
theorem project_eq (pol : Policy) (now : Nat) (rows : List Row) (functional : Bool) (slot : List Nat)
    (target : Nat) :
    project pol now rows functional slot target =
      projectCands pol now (collect pol now rows target (rivalsOf functional slot target)).1
        (collect pol now rows target (rivalsOf functional slot target)).2 := by
  unfold project; rfl

theorem projectCands_some {pol : Policy} {now : Nat} {ledger : Ledger} {cands : List Cand} {a : Answer}
    (h : projectCands pol now ledger cands = some a) :
    ∃ sup sg opp og,
      aggregate pol.den cands false = some (sup, sg) ∧ aggregate pol.den cands true = some (opp, og) ∧
      a = { status := classify sup opp sg og ledger.uncertain pol, support := sup, supportGroups := sg,
            opposition := opp, oppositionGroups := og, ledger := ledger, policyId := pol.id,
            policyVersion := pol.version, validAt := now } := by
  unfold projectCands at h
  split at h
  · rename_i sup sg opp og h1 h2
    exact ⟨sup, sg, opp, og, h1, h2, by cases h; rfl⟩
  · cases h

theorem ite_ok_some_ne_none {c : Prop} [Decidable c] {n : Int} {e : PolicyErr} :
    ((if c then Except.ok (some n) else Except.error e : Except PolicyErr (Option Int)) = Except.ok none) ↔ False := by
  split <;> simp

theorem parseModesOpt_some_ne_none (v : List (Option Mode)) :
    (parseModesOpt (some v) = Except.ok none) ↔ False := by
  simp only [parseModesOpt]
  split <;> simp

theorem parseModesOpt_none : parseModesOpt none = Except.ok none := rfl

end AndaVerif.Belief
