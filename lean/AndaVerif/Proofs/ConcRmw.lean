import AndaVerif.Proofs.ConcStore
/-
Read–modify–write under the document lock: the object an `update` (or `remove`) read is still the
stored object when it writes — nobody else wrote in between — so every acknowledged update is
applied exactly once on top of the previous one and the version-conditioned PUT never fails.
-/
namespace AndaVerif.ConcColl

/-- the document the call targets -/
def Thread.target (th : Thread) : Option Nat :=
  match th.op with
  | .upd id _ _ _ => some id
  | .rm id => some id
  | _ => none

/-- Read stability of one call w.r.t. the current store. -/
def Thread.RS (sh : Shared) (th : Thread) : Prop :=
  match th.op with
  | .upd id fk fu fv => (th.pc = .intentWait ∨ th.pc = .idxU ∨ th.pc = .putWait) →
      ∃ d, th.old = some d ∧ sh.store id = some (d, th.ver) ∧ th.new = applyFields d fk fu fv
  | .rm id => (th.pc = .intentWait ∨ th.pc = .delWait) →
      ∃ d v, th.old = some d ∧ sh.store id = some (d, v)
  | _ => True

theorem stepThread_RS (sh : Shared) (t : Nat) (th : Thread) (sh' : Shared) (th' : Thread)
    (h : stepThread sh t th = some (sh', th')) (hrs : th.RS sh) : th'.RS sh' := by
  step_cases h
  all_goals (try simp_all [Thread.RS])

def ReadStab (c : Cfg) : Prop := ∀ (x : Nat) (th : Thread), c.th[x]? = some th → th.RS c.sh

theorem ReadStab.init (c : Cfg) (hidle : ∀ (x : Nat) (th : Thread), c.th[x]? = some th → th.pc = .idle) :
    ReadStab c := by
  intro x th hx
  have := hidle x th hx
  unfold Thread.RS
  split <;> simp [this]

theorem ReadStab.step {t : Nat} {c c' : Cfg} (inv : ReadStab c) (lk : LockInv c)
    (h : step t c = some c') : ReadStab c' := by
  obtain ⟨th, sh', th', hth, hst, rfl⟩ := step_elim h
  have hself : (c.th.set t th')[t]? = some th' := getElem?_set_self' _ _ _ _ hth
  intro x thx hx
  by_cases hxt : x = t
  · subst hxt
    rw [hself] at hx; cases hx
    exact stepThread_RS _ _ _ _ _ hst (inv x th hth)
  · rw [getElem?_set_ne' _ _ _ _ hxt] at hx
    have hrs := inv x thx hx
    unfold Thread.RS at hrs ⊢
    split
    · next id fk fu fv hop =>
      simp only [hop] at hrs
      intro hpc
      obtain ⟨d, ho, hs, hn⟩ := hrs hpc
      refine ⟨d, ho, ?_, hn⟩
      have hcx : thx.crit = some id := by
        unfold Thread.crit; simp only [hop]
        rcases hpc with h | h | h <;> simp [h]
      rcases stepThread_store _ _ _ _ _ hst id with he | ⟨hct, _⟩ | ⟨_, _, _, hnone⟩
      · rw [he]; exact hs
      · exact absurd (lk.excl x t thx th id id hx hth hcx hct rfl) hxt
      · rw [hnone] at hs; cases hs
    · next id hop =>
      simp only [hop] at hrs
      intro hpc
      obtain ⟨d, v, ho, hs⟩ := hrs hpc
      have hcx : thx.crit = some id := by
        unfold Thread.crit; simp only [hop]
        rcases hpc with h | h <;> simp [h]
      rcases stepThread_store _ _ _ _ _ hst id with he | ⟨hct, _⟩ | ⟨_, _, _, hnone⟩
      · exact ⟨d, v, ho, by rw [he]; exact hs⟩
      · exact absurd (lk.excl x t thx th id id hx hth hcx hct rfl) hxt
      · rw [hnone] at hs; cases hs
    · trivial

end AndaVerif.ConcColl
