import AndaVerif.Proofs.ObjStoreGc
import AndaVerif.Proofs.ObjStorePrecond
/-
Refinement: every call on the wrapper answers what the reference store answers on the abstraction
(`readCold`), and the abstraction commutes.
-/
namespace AndaVerif.ObjStore
open Gen.SidecarOrder

/-- every commit point is of the layout this version writes: generation pointer, explicit commit
time, logical tag (legacy pre-0.10 documents fall back to backend timestamps and are outside the
refinement) -/
def Modern (be : Backend) : Prop :=
  ∀ k d, docAt be k = some d → (∃ g, d.gen = some g) ∧ (∃ t, d.time = some t) ∧ (∃ e, d.etag = some e)

/-- the simulation relation between a wrapper state and a reference state -/
structure Sim (w : W) (r : Ref) : Prop where
  inv : WInv w
  modern : Modern w.be
  refNodup : NodupKeys r
  agree : ∀ x, aget r x = readCold w.be x

theorem Sim.init (fl : Wrapper) : Sim { W.init with flavor := fl } [] :=
  ⟨WInv.init fl, by intro k d h; simp [docAt, W.init] at h, nodupKeys_nil, by intro x; simp [readCold, W.init]⟩

/-- what the abstraction says about one key -/
theorem view_spec {w : W} (hw : WInv w) (hm : Modern w.be) (k : Path) :
    (docAt w.be k = none ∧ readCold w.be k = none) ∨
    ∃ d b bt g t tok, docAt w.be k = some d ∧ d.gen = some g ∧ d.time = some t ∧ d.etag = some tok ∧
      d.size = b.length ∧ aget w.be (payloadPath k d.gen) = some ⟨.blob b, bt⟩ ∧ readCold w.be k = some ⟨b, tok, t⟩ := by
  cases hd : docAt w.be k with
  | none => exact Or.inl ⟨rfl, readCold_none_of_docAt_none hd⟩
  | some d =>
      right
      obtain ⟨⟨g, hg⟩, ⟨t, ht⟩, ⟨tok, he⟩⟩ := hm k d hd
      obtain ⟨b, bt, hb, hs, hr⟩ := readCold_of_docAt hw.be hd
      refine ⟨d, b, bt, g, t, tok, rfl, hg, ht, he, hs, hb, ?_⟩
      rw [hr]
      simp [committed, he, logicalLM, ht]

/-- listings are compared as sets (the order of a listing is not part of the contract) -/
def OutEq : Out → Out → Prop
  | .listed a, .listed b => ∀ m, m ∈ a ↔ m ∈ b
  | .listedDelim pa a, .listedDelim pb b => (∀ p, p ∈ pa ↔ p ∈ pb) ∧ (∀ m, m ∈ a ↔ m ∈ b)
  | a, b => a = b

theorem OutEq.rfl' (o : Out) : OutEq o o := by
  cases o <;> simp [OutEq]

/-! ### reads -/

theorem asRange_err (r : Range) (len : Nat) (e : Err) (h : asRange r len = .error e) : e = .generic := by
  cases r with
  | bounded s e' =>
      simp only [asRange] at h
      split at h
      · cases h; rfl
      · split at h
        · cases h; rfl
        · split at h <;> cases h
  | offset o =>
      simp only [asRange] at h
      split at h
      · cases h; rfl
      · cases h
  | suffix n => simp [asRange] at h

/-- `EncryptedStore`'s early range check answers what the backend's range resolution would -/
theorem readRange_of_rangeFails (b : Bytes) (r : Option Range) (h : rangeFails r b.length = true) :
    readRange b r = .error .generic := by
  cases r with
  | none => simp [rangeFails] at h
  | some r =>
      simp only [rangeFails] at h
      simp only [readRange]
      cases ha : asRange r b.length with
      | error e => rw [asRange_err r _ e ha]
      | ok v => simp [ha] at h

theorem refine_get {w : W} {r : Ref} (h : Sim w r) (now : Nat) (k : Path) (o : GetOpts) (tok : Tok) :
    Sim (wStep w now (.get k o)).1 (refStep r tok now (.get k o)).1 ∧
    (wStep w now (.get k o)).2 = (refStep r tok now (.get k o)).2 := by
  obtain ⟨w1, hg, hw1, hbe1, hn1, hf1⟩ := getMeta_spec h.inv k
  have hsim1 : Sim w1 r := ⟨hw1, by rw [hbe1]; exact h.modern, h.refNodup, by rw [hbe1]; exact h.agree⟩
  simp only [wStep, refStep, readLoop]
  rw [hg, h.agree k]
  rcases view_spec h.inv h.modern k with ⟨hd, hr⟩ | ⟨d, b, bt, g, t, tk, hd, hgen, ht, he, hs, hb, hr⟩
  · rw [hd, hr]
    exact ⟨hsim1, rfl⟩
  · rw [hd, hr]
    simp only []
    have hlm : logicalLM d = some t := by simp [logicalLM, ht]
    have hatt : ∀ enc, getAttempt enc w1.be k d o =
        .done (match rfcPrecond o (some tk) t with
          | some e => .error e
          | none =>
              match readRange b o.range with
              | .error e => .error e
              | .ok (rng, data) => .ok (.got { path := k, size := b.length, tok := some tk, time := t } rng data)) := by
      intro enc
      unfold getAttempt
      simp only [hlm, he]
      rw [checkGet_eq]
      cases hp : rfcPrecond o (some tk) t with
      | some e => rfl
      | none =>
          simp only [getFetch]
          by_cases hrf : (enc && rangeFails o.range d.size) = true
          · simp only [hrf, if_true]
            simp only [Bool.and_eq_true] at hrf
            rw [hs] at hrf
            rw [readRange_of_rangeFails b o.range hrf.2]
          · simp only [hrf, Bool.false_eq_true, if_false, servedOut, hbe1, hb, checkRef_stripped, hlm, he, Option.getD_some]
            cases readRange b o.range with
            | error e => rfl
            | ok v => obtain ⟨rng, data⟩ := v; simp [hs]
    rw [hatt, checkRef_eq]
    simp only []
    cases hp : rfcPrecond o (some tk) t with
    | some e => exact ⟨hsim1, rfl⟩
    | none =>
        simp only []
        cases readRange b o.range with
        | error e => exact ⟨hsim1, rfl⟩
        | ok v => obtain ⟨rng, data⟩ := v; exact ⟨hsim1, by simp [outOf, REnt.toMeta]⟩

end AndaVerif.ObjStore

namespace AndaVerif.ObjStore
open Gen.SidecarOrder

/-- `validate_ranges` followed by the backend's `get_ranges` equals the reference's `get_ranges`
as long as no range ends beyond the object (where the wrapper rejects and InMemory clips) -/
theorem ranges_agree (data : Bytes) (rs : List (Nat × Nat)) (h : ∀ p ∈ rs, p.2 ≤ data.length) :
    (match validateRanges data.length rs with
     | .error e => .error e
     | .ok () => memGetRanges data rs) = memGetRanges data rs := by
  induction rs with
  | nil => simp [validateRanges]
  | cons p ps ih =>
      obtain ⟨s, e⟩ := p
      have he : e ≤ data.length := h (s, e) (by simp)
      have ih' := ih (fun q hq => h q (by simp [hq]))
      simp only [validateRanges, memGetRanges, asRange]
      by_cases h1 : s ≥ data.length
      · by_cases h2 : e ≤ s
        · simp [h1, h2]
        · simp [h1, h2]
      · by_cases h2 : e ≤ s
        · simp [h1, h2]
        · have h3 : ¬ e > data.length := by omega
          simp only [h1, h2, h3, if_false]
          cases hv : validateRanges data.length ps with
          | error er =>
              rw [hv] at ih'
              simp only [] at ih' ⊢
              rw [← ih']
          | ok u => rfl

theorem refine_getRanges {w : W} {r : Ref} (h : Sim w r) (now : Nat) (k : Path) (rs : List (Nat × Nat)) (tok : Tok)
    (hc1 : rs = [] → (aget r k).isSome) (hc2 : ∀ e, aget r k = some e → ∀ p ∈ rs, p.2 ≤ e.data.length) :
    Sim (wStep w now (.getRanges k rs)).1 (refStep r tok now (.getRanges k rs)).1 ∧
    (wStep w now (.getRanges k rs)).2 = (refStep r tok now (.getRanges k rs)).2 := by
  simp only [wStep, refStep]
  by_cases hr : rs.isEmpty
  · have hnil : rs = [] := by simpa using hr
    subst hnil
    simp only [List.isEmpty_nil, if_true]
    have := hc1 rfl
    cases hg : aget r k with
    | none => simp [hg] at this
    | some e => exact ⟨h, by simp [memGetRanges]⟩
  · simp only [hr]
    obtain ⟨w1, hg, hw1, hbe1, hn1, hf1⟩ := getMeta_spec h.inv k
    have hsim1 : Sim w1 r := ⟨hw1, by rw [hbe1]; exact h.modern, h.refNodup, by rw [hbe1]; exact h.agree⟩
    simp only [readLoop]
    rw [hg]
    have hc2' := hc2
    rw [h.agree k] at hc2' ⊢
    rcases view_spec h.inv h.modern k with ⟨hd, hrd⟩ | ⟨d, b, bt, g, t, tk, hd, hgen, ht, he, hs, hb, hrd⟩
    · rw [hd, hrd]
      exact ⟨hsim1, rfl⟩
    · rw [hd, hrd]
      simp only []
      have hle := hc2' _ hrd
      simp only at hle
      have hatt : rangesAttempt w1.be k d rs = .done (match memGetRanges b rs with | .error e => .error e | .ok bs => .ok (.ranges bs)) := by
        unfold rangesAttempt
        have := ranges_agree b rs hle
        rw [hs]
        cases hv : validateRanges b.length rs with
        | error e =>
            rw [hv] at this
            simp only [] at this ⊢
            rw [← this]
        | ok u =>
            simp only [hbe1, hb]
            cases memGetRanges b rs <;> rfl
      rw [hatt]
      cases memGetRanges b rs with
      | error e => exact ⟨hsim1, rfl⟩
      | ok bs => exact ⟨hsim1, rfl⟩

/-! ### listings -/

theorem mem_dedupPaths (l : List Path) (p : Path) : p ∈ dedupPaths l ↔ p ∈ l := by
  induction l with
  | nil => simp [dedupPaths]
  | cons q qs ih =>
      simp only [dedupPaths]
      by_cases hc : qs.contains q
      · simp only [hc, if_true, ih, List.mem_cons]
        have hq : q ∈ qs := by simpa using hc
        constructor
        · intro h; exact Or.inr h
        · rintro (h | h)
          · subst h; exact hq
          · exact h
      · simp only [hc, List.mem_cons, Bool.false_eq_true, if_false]
        rw [ih]

/-- a listed commit point and the reference's entry of the same key are the same object -/
theorem listing_mem {w : W} {r : Ref} (h : Sim w r) (sel : Path → Bool) (m : Meta) :
    m ∈ (metaKeys w.be).filterMap (fun kt => if sel kt.1 then listingEntry w kt.1 kt.2 else none) ↔
    m ∈ r.filterMap (fun kv => if sel kv.1 then some (kv.2.toMeta kv.1) else none) := by
  simp only [List.mem_filterMap]
  constructor
  · rintro ⟨⟨k, t⟩, hk, hsel⟩
    by_cases hs : sel k
    · simp only [hs, if_true] at hsel
      obtain ⟨d, b, bt, hdoc, hb, hsz, hle⟩ := listingEntry_spec h.inv hk
      rw [hle] at hsel
      simp only [Option.some.injEq] at hsel
      rcases view_spec h.inv h.modern k with ⟨hd, _⟩ | ⟨d', b', bt', g, t', tk, hd, hgen, ht, he, hs', hb', hrd⟩
      · rw [hd] at hdoc; cases hdoc
      · rw [hd] at hdoc
        simp only [Option.some.injEq] at hdoc
        subst hdoc
        rw [hb] at hb'
        simp only [Option.some.injEq, BEnt.mk.injEq, Obj.blob.injEq] at hb'
        obtain ⟨hbb, _⟩ := hb'
        subst hbb
        refine ⟨(k, ⟨b, tk, t'⟩), ?_, ?_⟩
        · rw [mem_iff_aget r h.refNodup, h.agree k]; exact hrd
        · simp only [hs, if_true, Option.some.injEq]
          rw [← hsel]
          simp [REnt.toMeta, hsz, he, logicalLM, ht]
    · simp [hs] at hsel
  · rintro ⟨⟨k, e⟩, hk, hsel⟩
    by_cases hs : sel k
    · simp only [hs, if_true, Option.some.injEq] at hsel
      have hget : aget r k = some e := (mem_iff_aget r h.refNodup k e).1 hk
      rw [h.agree k] at hget
      rcases view_spec h.inv h.modern k with ⟨_, hrd⟩ | ⟨d, b, bt, g, t, tk, hd, hgen, ht, he, hs', hb, hrd⟩
      · rw [hrd] at hget; cases hget
      · rw [hrd] at hget
        simp only [Option.some.injEq] at hget
        subst hget
        obtain ⟨mt, hmt⟩ := docAt_eq_some hd
        have hmem : (BPath.mt k, (⟨.doc d, mt⟩ : BEnt)) ∈ w.be := (mem_iff_aget w.be h.inv.be.nodup _ _).2 hmt
        have hkm := metaKeys_of_mem hmem
        refine ⟨(k, mt), hkm, ?_⟩
        simp only [hs, if_true]
        obtain ⟨d2, b2, bt2, hdoc2, hb2, hsz2, hle2⟩ := listingEntry_spec h.inv hkm
        rw [hd] at hdoc2
        simp only [Option.some.injEq] at hdoc2
        subst hdoc2
        rw [hle2, ← hsel]
        simp [REnt.toMeta, hs', he, logicalLM, ht]
    · simp [hs] at hsel

/-- the same keys carry a commit point and a reference entry -/
theorem keys_agree {w : W} {r : Ref} (h : Sim w r) (k : Path) :
    (∃ t, (k, t) ∈ metaKeys w.be) ↔ (∃ e, (k, e) ∈ r) := by
  constructor
  · rintro ⟨t, hk⟩
    obtain ⟨d, b, bt, hdoc, hb, hsz, hle⟩ := listingEntry_spec h.inv hk
    obtain ⟨b', bt', _, _, hr⟩ := readCold_of_docAt h.inv.be hdoc
    exact ⟨_, (mem_iff_aget r h.refNodup k _).2 (by rw [h.agree k]; exact hr)⟩
  · rintro ⟨e, hk⟩
    have hget : aget r k = some e := (mem_iff_aget r h.refNodup k e).1 hk
    rw [h.agree k] at hget
    obtain ⟨d, hd⟩ := docAt_of_readCold hget
    obtain ⟨mt, hmt⟩ := docAt_eq_some hd
    exact ⟨mt, metaKeys_of_mem ((mem_iff_aget w.be h.inv.be.nodup _ _).2 hmt)⟩

theorem refine_list {w : W} {r : Ref} (h : Sim w r) (now : Nat) (pre : Path) (off : Option Path) (tok : Tok) :
    Sim (wStep w now (.list pre off)).1 (refStep r tok now (.list pre off)).1 ∧
    OutEq (wStep w now (.list pre off)).2 (refStep r tok now (.list pre off)).2 := by
  refine ⟨h, ?_⟩
  simp only [wStep, refStep, OutEq, wList, refList]
  exact fun m => listing_mem h (listSel pre off) m

theorem refine_listDelim {w : W} {r : Ref} (h : Sim w r) (now : Nat) (pre : Path) (tok : Tok) :
    Sim (wStep w now (.listDelim pre)).1 (refStep r tok now (.listDelim pre)).1 ∧
    OutEq (wStep w now (.listDelim pre)).2 (refStep r tok now (.listDelim pre)).2 := by
  refine ⟨h, ?_⟩
  simp only [wStep, refStep, OutEq, wListDelim, refListDelim]
  refine ⟨fun p => ?_, fun m => listing_mem h (directChild pre) m⟩
  rw [mem_dedupPaths, mem_dedupPaths]
  simp only [List.mem_filterMap]
  constructor
  · rintro ⟨⟨k, t⟩, hk, hp⟩
    obtain ⟨e, he⟩ := (keys_agree h k).1 ⟨t, hk⟩
    exact ⟨(k, e), he, hp⟩
  · rintro ⟨⟨k, e⟩, hk, hp⟩
    obtain ⟨t, ht⟩ := (keys_agree h k).2 ⟨e, hk⟩
    exact ⟨(k, t), ht, hp⟩

end AndaVerif.ObjStore

namespace AndaVerif.ObjStore
open Gen.SidecarOrder

/-! ### writes -/

theorem agree_aset {w' : W} {w : W} {r : Ref} (h : Sim w r) (k : Path) (e : REnt)
    (hr : ∀ x, readCold w'.be x = if x = k then some e else readCold w.be x) :
    ∀ x, aget (aset r k e) x = readCold w'.be x := by
  intro x
  rw [aget_aset, hr x]
  by_cases hx : x = k <;> simp [hx, h.agree x]

theorem agree_adel {w' : W} {w : W} {r : Ref} (h : Sim w r) (k : Path)
    (hr : ∀ x, readCold w'.be x = if x = k then none else readCold w.be x) :
    ∀ x, aget (adel r k) x = readCold w'.be x := by
  intro x
  rw [aget_adel, hr x]
  by_cases hx : x = k <;> simp [hx, h.agree x]

theorem modern_doc_update {be be' : Backend} (hm : Modern be) (k : Path) (d : Doc)
    (hd : (∃ g, d.gen = some g) ∧ (∃ t, d.time = some t) ∧ (∃ e, d.etag = some e))
    (hdoc : ∀ x, docAt be' x = if x = k then some d else docAt be x) : Modern be' := by
  intro x d' hx
  rw [hdoc x] at hx
  by_cases hxk : x = k
  · simp only [hxk, if_true, Option.some.injEq] at hx
    subst hx; exact hd
  · simp only [hxk, if_false] at hx
    exact hm x d' hx

theorem modern_doc_remove {be be' : Backend} (hm : Modern be) (hdoc : ∀ x, docAt be' x = none ∨ docAt be' x = docAt be x) :
    Modern be' := by
  intro x d' hx
  rcases hdoc x with h0 | h1
  · rw [h0] at hx; cases hx
  · rw [h1] at hx; exact hm x d' hx

/-- a committed write is, on the abstraction, the reference's insert with the wrapper's token -/
theorem write_commit_sim {w : W} {r : Ref} (h : Sim w r) (order : List CommitPhase)
    (ho : order = [.payload, .pointer, .reclaim]) (seeded : Bool) (now : Nat) (k : Path) (mode : PutMode) (data : Bytes)
    (hout : ∀ e, (planWrite w order seeded now k mode data).out ≠ .err e) :
    Sim (runPlan w now (planWrite w order seeded now k mode data) 1).1
      (aset r k ⟨data, mkPutTok seeded ⟨now, w.nextId⟩ data, now⟩) ∧
    (runPlan w now (planWrite w order seeded now k mode data) 1).2 = .put (some (mkPutTok seeded ⟨now, w.nextId⟩ data)) := by
  rcases planWrite_steps w order seeded now k mode data with ⟨_, _, e, he⟩ | ⟨d, hg, hs, het, htime, hsteps, hout', hcache⟩
  · exact absurd he (hout e)
  · have hinv := stepOK_write h.inv order ho seeded now k mode data
    have hpre := write_prefix h.inv.be now k ⟨now, w.nextId⟩ rfl data d hg hs
    have hlen : 2 ≤ ([Step.putBlob (.gen k ⟨now, w.nextId⟩) data] ++ Step.putDoc k d ::
        reclaimOf ((docAt w.be k).map (fun c => payloadPath k c.gen)) k d).length := by simp
    have hreads : ∀ x, readCold (runPlan w now (planWrite w order seeded now k mode data) 1).1.be x =
        if x = k then some ⟨data, mkPutTok seeded ⟨now, w.nextId⟩ data, now⟩ else readCold w.be x := by
      intro x
      simp only [runPlan]
      rw [hsteps, ho, commitSteps_std, curOf_doc, applySteps_eq_prefix, (hpre _).2 x]
      by_cases hx : x = k
      · simp [hx, committed, het, logicalLM, htime]
      · simp [hx]
    have hdocs : ∀ x, docAt (runPlan w now (planWrite w order seeded now k mode data) 1).1.be x =
        if x = k then some d else docAt w.be x := by
      intro x
      simp only [runPlan]
      rw [hsteps, ho, commitSteps_std, curOf_doc, docAt_write_full]
    refine ⟨⟨hinv, modern_doc_update h.modern k d ⟨⟨_, hg⟩, ⟨_, htime⟩, ⟨_, het⟩⟩ hdocs,
      nodupKeys_aset _ _ _ h.refNodup, agree_aset h k _ hreads⟩, ?_⟩
    simp only [runPlan, hout', het]

/-- a refused write touches nothing -/
theorem write_refused_sim {w : W} {r : Ref} (h : Sim w r) (order : List CommitPhase)
    (ho : order = [.payload, .pointer, .reclaim]) (seeded : Bool) (now : Nat) (k : Path) (mode : PutMode) (data : Bytes)
    (e : Err) (hout : (planWrite w order seeded now k mode data).out = .err e) :
    Sim (runPlan w now (planWrite w order seeded now k mode data) 1).1 r ∧
    (runPlan w now (planWrite w order seeded now k mode data) 1).2 = .err e := by
  rcases planWrite_steps w order seeded now k mode data with ⟨hs, hc, _⟩ | ⟨d, _, _, _, _, _, hout', _⟩
  · refine ⟨⟨stepOK_write h.inv order ho seeded now k mode data, ?_, h.refNodup, ?_⟩, by simp [runPlan, hout]⟩
    · simp only [runPlan, hs, applySteps_nil]; exact h.modern
    · simp only [runPlan, hs, applySteps_nil]; exact h.agree
  · rw [hout] at hout'; cases hout'

theorem refine_put {w : W} {r : Ref} (h : Sim w r) (order : List CommitPhase)
    (ho : order = [.payload, .pointer, .reclaim]) (seeded : Bool) (now : Nat) (k : Path) (mode : PutMode) (data : Bytes)
    (hc1 : ∀ et, mode ≠ .update et true) (hc2 : ∀ hv, mode = .update none hv → aget r k = none) :
    Sim (runPlan w now (planWrite w order seeded now k mode data) 1).1
      (refStep r (mkPutTok seeded ⟨now, w.nextId⟩ data) now (.put k mode data)).1 ∧
    (runPlan w now (planWrite w order seeded now k mode data) 1).2 =
      (refStep r (mkPutTok seeded ⟨now, w.nextId⟩ data) now (.put k mode data)).2 := by
  have hcur := curOf_of_inv h.inv.be k
  rcases view_spec h.inv h.modern k with ⟨hd, hrd⟩ | ⟨d, b, bt, g, t, tk, hd, hgen, ht, he, hs, hb, hrd⟩
  · -- absent
    rw [hd] at hcur
    have hag : aget r k = none := by rw [h.agree k]; exact hrd
    cases mode with
    | overwrite =>
        simp only [refStep]
        exact write_commit_sim h order ho seeded now k _ data (by simp [planWrite, hcur])
    | create =>
        simp only [refStep, hag]
        exact write_commit_sim h order ho seeded now k _ data (by simp [planWrite, hcur])
    | update et hv =>
        simp only [refStep, hag]
        exact write_refused_sim h order ho seeded now k _ data .precond (by simp [planWrite, hcur, Cur.doc?])
  · rw [hd] at hcur
    have hag : aget r k = some ⟨b, tk, t⟩ := by rw [h.agree k]; exact hrd
    cases mode with
    | overwrite =>
        simp only [refStep]
        exact write_commit_sim h order ho seeded now k _ data (by simp [planWrite, hcur])
    | create =>
        simp only [refStep, hag]
        exact write_refused_sim h order ho seeded now k _ data .exists (by simp [planWrite, hcur])
    | update et hv =>
        cases hv with
        | true => exact absurd rfl (hc1 et)
        | false =>
            cases et with
            | none => have := hc2 false rfl; rw [hag] at this; cases this
            | some t' =>
                simp only [refStep, hag]
                by_cases htt : t' = tk
                · subst htt
                  simp only [if_true]
                  exact write_commit_sim h order ho seeded now k _ data
                    (by simp [planWrite, hcur, Cur.doc?, checkUpdateVersion, he])
                · simp only [htt, if_false]
                  exact write_refused_sim h order ho seeded now k _ data .precond
                    (by
                      have : ¬ tk = t' := fun h => htt h.symm
                      simp [planWrite, hcur, Cur.doc?, checkUpdateVersion, he, this])

end AndaVerif.ObjStore

namespace AndaVerif.ObjStore
open Gen.SidecarOrder

/-! ### delete, copy, rename -/

theorem planDelete_out (w : W) (cache : List (Path × Doc)) {be : Backend} {m : Nat} (h : BInv be m) (k : Path) :
    (planDelete w cache be k).out = match docAt be k with | some _ => .unit | none => .err .notFound := by
  unfold planDelete
  rw [curOf_of_inv h]
  cases docAt be k <;> rfl

theorem sim_of_same_backend {w w1 : W} {r : Ref} (h : Sim w r) (hw1 : WInv w1) (hbe : w1.be = w.be) : Sim w1 r :=
  ⟨hw1, by rw [hbe]; exact h.modern, h.refNodup, by rw [hbe]; exact h.agree⟩

/-- delete of a present key -/
theorem refine_delete_present {w : W} {r : Ref} (h : Sim w r) (now : Nat) (k : Path) (d : Doc)
    (hd : docAt w.be k = some d) :
    Sim (runPlan w now (planDelete w w.cache w.be k) 0).1 (adel r k) ∧
    (runPlan w now (planDelete w w.cache w.be k) 0).2 = .unit := by
  have hinv := stepOK_delete h.inv now k
  have hsteps := planDelete_steps w w.cache h.inv.be k
  have hreads : ∀ x, readCold (runPlan w now (planDelete w w.cache w.be k) 0).1.be x =
      if x = k then none else readCold w.be x := by
    intro x
    simp only [runPlan]
    rw [hsteps, hd]
    have := (delete_prefix h.inv.be now k 2).2 x
    simp only [hd] at this
    simp only [deleteSteps]
    rw [applySteps_eq_prefix]
    simp only [List.length_cons, List.length_nil]
    rw [this]
    by_cases hx : x = k <;> simp [hx]
  have hdocs : ∀ x, docAt (runPlan w now (planDelete w w.cache w.be k) 0).1.be x = none ∨
      docAt (runPlan w now (planDelete w w.cache w.be k) 0).1.be x = docAt w.be x := by
    intro x
    simp only [runPlan]
    rw [hsteps, docAt_delete_full]
    by_cases hx : x = k
    · left; simp [hx, hd]
    · right; simp [hx]
  refine ⟨⟨hinv, modern_doc_remove h.modern hdocs, nodupKeys_adel _ _ h.refNodup, agree_adel h k hreads⟩, ?_⟩
  simp only [runPlan]
  rw [planDelete_out w w.cache h.inv.be k, hd]

/-- the commit half of a copy, the source already resolved -/
theorem refine_copyCommit {w : W} {r : Ref} (h : Sim w r) (now : Nat) (src dst : Path) (create : Bool)
    (ds : Doc) (bs : Bytes) (bts : Nat) (tks : Tok) (ts : Nat)
    (hds : docAt w.be src = some ds) (hbs : aget w.be (payloadPath src ds.gen) = some ⟨.blob bs, bts⟩)
    (hsz : ds.size = bs.length) (hrs : aget r src = some ⟨bs, tks, ts⟩) :
    Sim (runPlan w now (planCopyCommit w w.cache now ds (payloadPath src ds.gen) dst create) 1).1
      (refStep r (mkCopyTok ⟨now, w.nextId⟩ ds.etag) now (.copy src dst create)).1 ∧
    (runPlan w now (planCopyCommit w w.cache now ds (payloadPath src ds.gen) dst create) 1).2 =
      (refStep r (mkCopyTok ⟨now, w.nextId⟩ ds.etag) now (.copy src dst create)).2 := by
  have hinv := stepOK_copyCommit h.inv now src ds hds dst create
  simp only [refStep, hrs]
  have hcur := curOf_of_inv h.inv.be dst
  have hpres : (aget r dst).isSome = true ↔ ∃ c, curOf w.be dst = .present c := by
    rw [h.agree dst, hcur]
    rcases view_spec h.inv h.modern dst with ⟨hd, hrd⟩ | ⟨d, b, bt, g, t, tk, hd, _, _, _, _, _, hrd⟩
    · simp [hd, hrd]
    · simp [hd, hrd]
  rcases planCopyCommit_steps w w.cache now ds (payloadPath src ds.gen) dst create with
    ⟨hsteps, hout, hcache, hcr, hex⟩ | ⟨hsteps, hout, hcache, hcr⟩
  · -- refused: one unreferenced generation is left behind
    have hcond : (create && (aget r dst).isSome) = true := by simp [hcr, hpres.2 hex]
    simp only [hcond, if_true]
    have hg := copy_garbage_prefix h.inv.be now dst ⟨now, w.nextId⟩ rfl _ bs bts hbs 1
    refine ⟨⟨hinv, ?_, h.refNodup, ?_⟩, by simp [runPlan, hout]⟩
    · intro x d hx
      simp only [runPlan, hsteps] at hx
      rw [docAt_copyBlob] at hx
      exact h.modern x d hx
    · intro x
      simp only [runPlan, hsteps]
      rw [h.agree x, applySteps_eq_prefix]
      exact (hg.2 x).symm
  · have hcond : (create && (aget r dst).isSome) = false := by
      cases hc : create with
      | false => simp
      | true =>
          have := hcr hc
          cases hs : (aget r dst).isSome with
          | false => simp
          | true =>
              obtain ⟨c, hc'⟩ := hpres.1 hs
              exact absurd hc' (this c)
    simp only [hcond, Bool.false_eq_true, if_false]
    have hpre := copy_prefix h.inv.be now dst ⟨now, w.nextId⟩ rfl _ bs bts hbs (copyDoc now w.nextId ds) rfl
      (by simp [copyDoc, hsz])
    have hreads : ∀ x, readCold (runPlan w now (planCopyCommit w w.cache now ds (payloadPath src ds.gen) dst create) 1).1.be x =
        if x = dst then some ⟨bs, mkCopyTok ⟨now, w.nextId⟩ ds.etag, now⟩ else readCold w.be x := by
      intro x
      simp only [runPlan]
      rw [hsteps, gen_copy_order, commitSteps_std, curOf_doc, applySteps_eq_prefix, (hpre _).2 x]
      by_cases hx : x = dst
      · simp [hx, committed, copyDoc, logicalLM]
      · simp [hx]
    have hdocs : ∀ x, docAt (runPlan w now (planCopyCommit w w.cache now ds (payloadPath src ds.gen) dst create) 1).1.be x =
        if x = dst then some (copyDoc now w.nextId ds) else docAt w.be x := by
      intro x
      simp only [runPlan]
      rw [hsteps, gen_copy_order, commitSteps_std, curOf_doc, docAt_copy_full]
    refine ⟨⟨hinv, modern_doc_update h.modern dst _ ⟨⟨_, rfl⟩, ⟨_, rfl⟩, ⟨_, rfl⟩⟩ hdocs,
      nodupKeys_aset _ _ _ h.refNodup, agree_aset h dst _ hreads⟩, by simp [runPlan, hout]⟩

end AndaVerif.ObjStore

namespace AndaVerif.ObjStore
open Gen.SidecarOrder

/-- The five call shapes on which the wrapper deliberately answers differently from InMemory
(recorded as known findings of C07) plus the documented absence of object versions. `r` is the
reference state the call is issued in. -/
def KnownDivergence (r : Ref) : Call → Prop
  /- `delete-missing-key`: wrapper `NotFound`, InMemory `Ok` -/
  | .delete k => aget r k = none
  /- `update-without-etag` on an existing key: wrapper `Precondition`, InMemory `Generic`;
     a caller-supplied *version* never matches on the wrapper (documented absence of versions) -/
  | .put k (.update et hv) _ => hv = true ∨ (et = none ∧ (aget r k).isSome)
  /- `get-ranges-empty-on-missing-key` (wrapper `Ok([])`, InMemory `NotFound`) and
     `get-ranges-end-beyond-length` (wrapper `Generic`, InMemory clips the end) -/
  | .getRanges k rs =>
      match aget r k with
      | none => rs = []
      | some e => ∃ p ∈ rs, e.data.length < p.2
  /- `self-rename-overwrite`: wrapper keeps the object, InMemory's copy + delete loses it -/
  | .rename src dst create => src = dst ∧ create = false ∧ (aget r src).isSome
  | _ => False

/-- the token the wrapper mints if the call commits (the reference is run with the same one:
InMemory's own tokens are a counter, the theorems need only freshness, `tokens_fresh`) -/
def commitTok (w : W) (now : Nat) : Call → Tok
  | .put _ _ data => mkPutTok (putTagSeeded w.flavor) ⟨now, w.nextId⟩ data
  | .mput _ parts => mkPutTok (completeTagSeeded w.flavor) ⟨now, w.nextId⟩ (concatParts parts)
  | .copy src _ _ => mkCopyTok ⟨now, w.nextId⟩ ((docAt w.be src).bind (·.etag))
  | .rename src _ _ => mkCopyTok ⟨now, w.nextId⟩ ((docAt w.be src).bind (·.etag))
  | _ => .empty

/-- **One call refines the reference.** -/
theorem refine_step {w : W} {r : Ref} (h : Sim w r) (now : Nat) (c : Call) (hc : ¬ KnownDivergence r c) :
    Sim (wStep w now c).1 (refStep r (commitTok w now c) now c).1 ∧
    OutEq (wStep w now c).2 (refStep r (commitTok w now c) now c).2 := by
  cases c with
  | put k mode data =>
      have := refine_put h _ (gen_put_order w.flavor) (putTagSeeded w.flavor) now k mode data
        (by
          intro et hm; subst hm
          exact hc (Or.inl rfl))
        (by
          intro hv hm; subst hm
          cases hg : aget r k with
          | none => rfl
          | some e => exact absurd (Or.inr ⟨rfl, by simp [hg]⟩) hc)
      exact ⟨this.1, by rw [show (wStep w now (.put k mode data)).2 = _ from this.2]; exact OutEq.rfl' _⟩
  | mput k parts =>
      have := refine_put h _ (gen_complete_order w.flavor) (completeTagSeeded w.flavor) now k .overwrite (concatParts parts)
        (by intro et hm; cases hm) (by intro hv hm; cases hm)
      exact ⟨this.1, by rw [show (wStep w now (.mput k parts)).2 = _ from this.2]; exact OutEq.rfl' _⟩
  | get k o =>
      have := refine_get h now k o (commitTok w now (.get k o))
      exact ⟨this.1, by rw [this.2]; exact OutEq.rfl' _⟩
  | getRanges k rs =>
      have := refine_getRanges h now k rs (commitTok w now (.getRanges k rs))
        (by
          intro hrs
          cases hg : aget r k with
          | none => simp only [KnownDivergence, hg] at hc; exact absurd hrs hc
          | some e => rfl)
        (by
          intro e he p hp
          apply Nat.le_of_not_lt
          intro hlt
          simp only [KnownDivergence, he] at hc
          exact hc ⟨p, hp, hlt⟩)
      exact ⟨this.1, by rw [this.2]; exact OutEq.rfl' _⟩
  | delete k =>
      have hpres : aget r k ≠ none := hc
      rw [h.agree k] at hpres
      rcases view_spec h.inv h.modern k with ⟨_, hrd⟩ | ⟨d, b, bt, g, t, tk, hd, _, _, _, _, _, _⟩
      · exact absurd hrd hpres
      · have := refine_delete_present h now k d hd
        exact ⟨this.1, by rw [show (wStep w now (.delete k)).2 = _ from this.2]; exact OutEq.rfl' _⟩
  | copy src dst create =>
      simp only [wStep, commitTok]
      obtain ⟨w1, hr, hw1, hbe, hn, hf⟩ := resolveSource_spec h.inv src
      have hsim1 := sim_of_same_backend h hw1 hbe
      rw [hr]
      rcases view_spec h.inv h.modern src with ⟨hd, hrd⟩ | ⟨d, b, bt, g, t, tk, hd, _, _, he, hs, hb, hrd⟩
      · rw [hd]
        simp only [refStep, h.agree src, hrd]
        exact ⟨hsim1, OutEq.rfl' _⟩
      · rw [hd]
        simp only [Option.bind_some]
        have := refine_copyCommit hsim1 now src dst create d b bt tk t (by rw [hbe]; exact hd)
          (by rw [hbe]; exact hb) hs (by rw [h.agree src]; exact hrd)
        rw [hn] at this
        exact ⟨this.1, by rw [this.2]; exact OutEq.rfl' _⟩
  | rename src dst create =>
      simp only [wStep, commitTok, rename_guard, rename_order_std, if_true]
      by_cases hsd : src = dst
      · subst hsd
        simp only [if_true]
        obtain ⟨w1, hg, hw1, hbe, hn, hf⟩ := getMeta_spec h.inv src
        have hsim1 := sim_of_same_backend h hw1 hbe
        rw [hg]
        rcases view_spec h.inv h.modern src with ⟨hd, hrd⟩ | ⟨d, b, bt, g, t, tk, hd, _, _, he, hs, hb, hrd⟩
        · rw [hd]
          simp only [refStep, h.agree src, hrd]
          exact ⟨hsim1, OutEq.rfl' _⟩
        · rw [hd]
          have hcr : create = true := by
            cases hcr : create with
            | true => rfl
            | false => exact absurd ⟨rfl, hcr, by rw [h.agree src, hrd]; rfl⟩ hc
          subst hcr
          simp only [refStep, h.agree src, hrd, Bool.true_and, Option.isSome_some, if_true]
          exact ⟨hsim1, OutEq.rfl' _⟩
      · simp only [hsd, if_false]
        obtain ⟨w1, hr, hw1, hbe, hn, hf⟩ := resolveSource_spec h.inv src
        have hsim1 := sim_of_same_backend h hw1 hbe
        rw [hr]
        rcases view_spec h.inv h.modern src with ⟨hd, hrd⟩ | ⟨d, b, bt, g, t, tk, hd, _, _, he, hs, hb, hrd⟩
        · rw [hd]
          simp only [refStep, h.agree src, hrd]
          exact ⟨hsim1, OutEq.rfl' _⟩
        · rw [hd]
          simp only [Option.bind_some]
          have hcopy := refine_copyCommit hsim1 now src dst create d b bt tk t (by rw [hbe]; exact hd)
            (by rw [hbe]; exact hb) hs (by rw [h.agree src]; exact hrd)
          rw [hn] at hcopy
          have hrs : aget r src = some ⟨b, tk, t⟩ := by rw [h.agree src]; exact hrd
          simp only [refStep, hrs] at hcopy ⊢
          cases hcond : (create && (aget r dst).isSome) with
          | true =>
              simp only [hcond, if_true] at hcopy ⊢
              obtain ⟨hs2, ho2⟩ := hcopy
              rw [show (runPlan w1 now (planCopyCommit w1 w1.cache now d (payloadPath src d.gen) dst create) 1) =
                ((runPlan w1 now (planCopyCommit w1 w1.cache now d (payloadPath src d.gen) dst create) 1).1,
                 (runPlan w1 now (planCopyCommit w1 w1.cache now d (payloadPath src d.gen) dst create) 1).2) from rfl]
              simp only [ho2]
              exact ⟨hs2, OutEq.rfl' _⟩
          | false =>
              simp only [hcond, Bool.false_eq_true, if_false] at hcopy ⊢
              obtain ⟨hs2, ho2⟩ := hcopy
              rw [show (runPlan w1 now (planCopyCommit w1 w1.cache now d (payloadPath src d.gen) dst create) 1) =
                ((runPlan w1 now (planCopyCommit w1 w1.cache now d (payloadPath src d.gen) dst create) 1).1,
                 (runPlan w1 now (planCopyCommit w1 w1.cache now d (payloadPath src d.gen) dst create) 1).2) from rfl]
              simp only [ho2]
              -- the source is still there after the copy (src ≠ dst); delete it
              have hsrc2 : ∃ d2, docAt (runPlan w1 now (planCopyCommit w1 w1.cache now d (payloadPath src d.gen) dst create) 1).1.be src = some d2 := by
                have := hs2.agree src
                rw [aget_aset_ne _ _ _ _ hsd, hrs] at this
                exact docAt_of_readCold this.symm
              obtain ⟨d2, hd2⟩ := hsrc2
              have hdel := refine_delete_present hs2 now src d2 hd2
              rw [show (runPlan (runPlan w1 now (planCopyCommit w1 w1.cache now d (payloadPath src d.gen) dst create) 1).1 now
                    (planDelete _ _ _ src) 0) =
                  ((runPlan (runPlan w1 now (planCopyCommit w1 w1.cache now d (payloadPath src d.gen) dst create) 1).1 now
                    (planDelete _ _ _ src) 0).1,
                   (runPlan (runPlan w1 now (planCopyCommit w1 w1.cache now d (payloadPath src d.gen) dst create) 1).1 now
                    (planDelete _ _ _ src) 0).2) from rfl]
              simp only [hdel.2]
              exact ⟨hdel.1, OutEq.rfl' _⟩
  | list pre off => exact refine_list h now pre off _
  | listDelim pre => exact refine_listDelim h now pre _

end AndaVerif.ObjStore
