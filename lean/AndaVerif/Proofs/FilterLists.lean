import AndaVerif.Model.Filter
/-
List lemmas behind C03: `pushUnique`/`dedup` (UniqueVec), `isort` (sort_unstable), `walk`.
-/
namespace AndaVerif.Filter

theorem mem_pushUnique (acc xs : List Nat) (i : Nat) : i ∈ pushUnique acc xs ↔ i ∈ acc ∨ i ∈ xs := by
  induction xs generalizing acc with
  | nil => simp [pushUnique]
  | cons x xs ih =>
    simp only [pushUnique]
    split
    · rename_i h
      have hx : x ∈ acc := by simpa using h
      rw [ih]; constructor
      · rintro (h | h) <;> simp [h]
      · rintro (h | h)
        · exact Or.inl h
        · rcases List.mem_cons.mp h with rfl | h
          · exact Or.inl hx
          · exact Or.inr h
    · rw [ih]; simp only [List.mem_append, List.mem_cons]; grind

theorem nodup_pushUnique (acc xs : List Nat) (h : acc.Nodup) : (pushUnique acc xs).Nodup := by
  induction xs generalizing acc with
  | nil => simpa [pushUnique]
  | cons x xs ih =>
    simp only [pushUnique]
    split
    · exact ih acc h
    · rename_i hx
      apply ih
      have : x ∉ acc := by simpa using hx
      rw [List.nodup_append]
      refine ⟨h, by simp, ?_⟩
      intro a ha b hb
      simp at hb; subst hb
      intro hab; subst hab; exact this ha

theorem mem_dedup (xs : List Nat) (i : Nat) : i ∈ dedup xs ↔ i ∈ xs := by
  simp [dedup, mem_pushUnique]

theorem nodup_dedup (xs : List Nat) : (dedup xs).Nodup := nodup_pushUnique [] xs (by simp)

theorem perm_insertSorted (x : Nat) (ys : List Nat) : (insertSorted x ys).Perm (x :: ys) := by
  induction ys with
  | nil => simp [insertSorted]
  | cons y ys ih =>
    simp only [insertSorted]
    split
    · exact List.Perm.refl _
    · exact (List.Perm.cons y ih).trans (List.Perm.swap x y ys)

theorem perm_isort (xs : List Nat) : (isort xs).Perm xs := by
  induction xs with
  | nil => simp [isort]
  | cons x xs ih => exact (perm_insertSorted x (isort xs)).trans (List.Perm.cons x ih)

theorem mem_isort (xs : List Nat) (i : Nat) : i ∈ isort xs ↔ i ∈ xs := (perm_isort xs).mem_iff

theorem sorted_insertSorted (x : Nat) (ys : List Nat) (h : ys.Pairwise (· ≤ ·)) :
    (insertSorted x ys).Pairwise (· ≤ ·) := by
  induction ys with
  | nil => simp [insertSorted]
  | cons y ys ih =>
    simp only [insertSorted]
    split
    · rename_i hxy
      rw [List.pairwise_cons] at h ⊢
      refine ⟨?_, List.pairwise_cons.mpr h⟩
      intro a ha
      rcases List.mem_cons.mp ha with rfl | ha
      · exact hxy
      · exact Nat.le_trans hxy (h.1 a ha)
    · rename_i hxy
      rw [List.pairwise_cons] at h ⊢
      refine ⟨?_, ih h.2⟩
      intro a ha
      rcases List.mem_cons.mp ((perm_insertSorted x ys).mem_iff.mp ha) with rfl | ha
      · omega
      · exact h.1 a ha

theorem sorted_isort (xs : List Nat) : (isort xs).Pairwise (· ≤ ·) := by
  induction xs with
  | nil => simp [isort]
  | cons x xs ih => exact sorted_insertSorted x _ ih

theorem strict_of_sorted_nodup : ∀ (xs : List Nat), xs.Pairwise (· ≤ ·) → xs.Nodup → xs.Pairwise (· < ·)
  | [], _, _ => List.Pairwise.nil
  | x :: xs, h, hn => by
    rw [List.pairwise_cons] at h ⊢
    rw [List.nodup_cons] at hn
    refine ⟨?_, strict_of_sorted_nodup xs h.2 hn.2⟩
    intro a ha
    have := h.1 a ha
    have : a ≠ x := fun e => hn.1 (e ▸ ha)
    omega

theorem strict_isort (xs : List Nat) (h : xs.Nodup) : (isort xs).Pairwise (· < ·) :=
  strict_of_sorted_nodup _ (sorted_isort xs) ((perm_isort xs).nodup_iff.mpr h)

/-- Two strictly ascending lists with the same members are equal. -/
theorem strict_ext : ∀ (xs ys : List Nat), xs.Pairwise (· < ·) → ys.Pairwise (· < ·) →
    (∀ i, i ∈ xs ↔ i ∈ ys) → xs = ys
  | [], [], _, _, _ => rfl
  | [], y :: ys, _, _, h => by have := (h y).mpr (by simp); simp at this
  | x :: xs, [], _, _, h => by have := (h x).mp (by simp); simp at this
  | x :: xs, y :: ys, hx, hy, h => by
    rw [List.pairwise_cons] at hx hy
    have hxy : x = y := by
      have h1 := (h x).mp (by simp)
      have h2 := (h y).mpr (by simp)
      rcases List.mem_cons.mp h1 with e | h1
      · exact e
      · rcases List.mem_cons.mp h2 with e | h2
        · exact e.symm
        · have := hy.1 x h1; have := hx.1 y h2; omega
    subst hxy
    congr 1
    apply strict_ext xs ys hx.2 hy.2
    intro i
    constructor
    · intro hi
      have := (h i).mp (List.mem_cons_of_mem _ hi)
      rcases List.mem_cons.mp this with e | h'
      · subst e; have := hx.1 i hi; omega
      · exact h'
    · intro hi
      have := (h i).mpr (List.mem_cons_of_mem _ hi)
      rcases List.mem_cons.mp this with e | h'
      · subst e; have := hy.1 i hi; omega
      · exact h'

theorem nodup_of_strict (xs : List Nat) (h : xs.Pairwise (· < ·)) : xs.Nodup := by
  unfold List.Nodup
  exact h.imp (fun hab => Nat.ne_of_lt hab)

theorem isort_of_strict (xs : List Nat) (h : xs.Pairwise (· < ·)) : isort xs = xs :=
  strict_ext _ _ (strict_isort xs (nodup_of_strict xs h)) h (mem_isort xs)

/-- The set-level specification of an unbounded evaluation: `r` lists, without repetition and in
some order, exactly the live ids satisfying `p`. -/
def SetSpec (ids : List Nat) (p : Nat → Bool) (r : List Nat) : Prop :=
  r.Nodup ∧ ∀ i, i ∈ r ↔ (i ∈ ids ∧ p i = true)

theorem isort_eq_filter {ids : List Nat} {p : Nat → Bool} {r : List Nat}
    (hids : ids.Pairwise (· < ·)) (h : SetSpec ids p r) : isort r = ids.filter p := by
  apply strict_ext _ _ (strict_isort r h.1) (hids.filter p)
  intro i
  rw [mem_isort, h.2, List.mem_filter]

theorem setSpec_filter {ids : List Nat} (p : Nat → Bool) (hids : ids.Pairwise (· < ·)) :
    SetSpec ids p (ids.filter p) :=
  ⟨nodup_of_strict _ (hids.filter p), fun i => by rw [List.mem_filter]⟩

theorem setSpec_congr {ids : List Nat} {p q : Nat → Bool} {r : List Nat}
    (h : SetSpec ids p r) (hpq : ∀ i, i ∈ ids → p i = q i) : SetSpec ids q r :=
  ⟨h.1, fun i => by rw [h.2]; constructor <;> rintro ⟨hi, hp⟩ <;> exact ⟨hi, by simpa [hpq i hi] using hp⟩⟩

/-- first / last `l` elements (`l = 0`: all) -/
def takeEnd (desc : Bool) (l : Nat) (ys : List Nat) : List Nat :=
  if l = 0 then ys else if desc then ys.drop (ys.length - l) else ys.take l

theorem walk_eq (xs : List Nat) (cands : Option (List Nat)) (l : Nat) (d : Bool) :
    walk xs cands l d = takeEnd d l (xs.filter (inC cands)) := by
  unfold walk takeEnd
  cases d <;> simp
  · split <;> simp_all <;> omega
  · split
    · rename_i h
      have : l ≠ 0 := by omega
      simp [this, List.take_reverse]
    · have : l = 0 := by omega
      simp [this]

theorem takeEnd_sublist (d : Bool) (l : Nat) (ys : List Nat) : (takeEnd d l ys).Sublist ys := by
  unfold takeEnd
  split
  · exact List.Sublist.refl _
  · split
    · exact List.drop_sublist _ _
    · exact List.take_sublist _ _

theorem takeEnd_length_le (d : Bool) (l : Nat) (ys : List Nat) (hl : l ≠ 0) : (takeEnd d l ys).length ≤ l := by
  unfold takeEnd
  simp [hl]
  split <;> simp <;> omega

theorem truncate_eq_takeEnd (d : Bool) (r : List Nat) (l : Nat) : truncate d r l = takeEnd d l r := by
  unfold truncate takeEnd
  by_cases hl : l = 0
  · simp [hl]
  · simp [hl]
    by_cases hlen : r.length ≤ l
    · simp [hlen]
      cases d <;> simp
      exact (List.take_of_length_le hlen).symm
    · simp [hlen]

theorem truncate_takeEnd (d : Bool) (ys : List Nat) (l : Nat) :
    truncate d (takeEnd d l ys) l = takeEnd d l ys := by
  by_cases hl : l = 0
  · simp [truncate, hl]
  · have := takeEnd_length_le d l ys hl
    simp [truncate, this]

end AndaVerif.Filter
