import AndaVerif.Model.ObjStore
/-
Association-list lemmas and small facts about the pure helpers of `Model/ObjStore.lean`.
-/
namespace AndaVerif.ObjStore

section alist
variable {α β : Type} [DecidableEq α]

@[simp] theorem aget_nil (k : α) : aget ([] : List (α × β)) k = none := rfl

theorem aget_aset_eq (m : List (α × β)) (k : α) (v : β) : aget (aset m k v) k = some v := by
  induction m with
  | nil => simp [aset, aget]
  | cons p t ih =>
      obtain ⟨k', v'⟩ := p
      by_cases h : k' = k
      · simp [aset, aget, h]
      · simp [aset, aget, h, ih]

theorem aget_aset_ne (m : List (α × β)) (k k' : α) (v : β) (h : k' ≠ k) :
    aget (aset m k v) k' = aget m k' := by
  induction m with
  | nil => simp [aset, aget, Ne.symm h]
  | cons p t ih =>
      obtain ⟨k0, v0⟩ := p
      by_cases h0 : k0 = k
      · subst h0
        simp [aset, aget, Ne.symm h]
      · by_cases h1 : k0 = k'
        · subst h1; simp [aset, aget, h0]
        · simp [aset, aget, h0, h1, ih]

theorem aget_aset (m : List (α × β)) (k k' : α) (v : β) :
    aget (aset m k v) k' = if k' = k then some v else aget m k' := by
  by_cases h : k' = k
  · subst h; simp [aget_aset_eq]
  · simp [h, aget_aset_ne _ _ _ _ h]

theorem aget_adel_eq (m : List (α × β)) (k : α) : aget (adel m k) k = none := by
  induction m with
  | nil => rfl
  | cons p t ih =>
      obtain ⟨k', v'⟩ := p
      by_cases h : k' = k
      · simp [adel, h, ih]
      · simp [adel, aget, h, ih]

theorem aget_adel_ne (m : List (α × β)) (k k' : α) (h : k' ≠ k) : aget (adel m k) k' = aget m k' := by
  induction m with
  | nil => rfl
  | cons p t ih =>
      obtain ⟨k0, v0⟩ := p
      by_cases h0 : k0 = k
      · subst h0
        simp [adel, aget, Ne.symm h, ih]
      · by_cases h1 : k0 = k'
        · subst h1; simp [adel, aget, h0]
        · simp [adel, aget, h0, h1, ih]

theorem aget_adel (m : List (α × β)) (k k' : α) :
    aget (adel m k) k' = if k' = k then none else aget m k' := by
  by_cases h : k' = k
  · subst h; simp [aget_adel_eq]
  · simp [h, aget_adel_ne _ _ _ h]

/-- keys are pairwise distinct -/
def NodupKeys (m : List (α × β)) : Prop := (m.map (·.1)).Nodup

omit [DecidableEq α] in
theorem nodupKeys_nil : NodupKeys ([] : List (α × β)) := List.nodup_nil

theorem mem_keys_aset (m : List (α × β)) (k : α) (v : β) (x : α) :
    x ∈ (aset m k v).map (·.1) ↔ x = k ∨ x ∈ m.map (·.1) := by
  induction m with
  | nil => simp [aset]
  | cons p t ih =>
      obtain ⟨k0, v0⟩ := p
      by_cases h0 : k0 = k
      · subst h0; simp [aset]
      · simp only [aset, h0, if_false, List.map_cons, List.mem_cons, ih]
        constructor
        · rintro (h | h | h) <;> simp [h]
        · rintro (h | h | h) <;> simp [h]

theorem nodupKeys_aset (m : List (α × β)) (k : α) (v : β) (h : NodupKeys m) : NodupKeys (aset m k v) := by
  induction m with
  | nil => simp [aset, NodupKeys]
  | cons p t ih =>
      obtain ⟨k0, v0⟩ := p
      simp only [NodupKeys, List.map_cons, List.nodup_cons] at h
      by_cases h0 : k0 = k
      · subst h0
        simp only [aset, if_true, NodupKeys, List.map_cons, List.nodup_cons]
        exact h
      · simp only [aset, h0, if_false, NodupKeys, List.map_cons, List.nodup_cons]
        refine ⟨?_, ih h.2⟩
        intro hm
        rcases (mem_keys_aset t k v k0).1 hm with h1 | h1
        · exact h0 h1
        · exact h.1 h1

theorem mem_keys_adel (m : List (α × β)) (k : α) (x : α) :
    x ∈ (adel m k).map (·.1) ↔ x ≠ k ∧ x ∈ m.map (·.1) := by
  induction m with
  | nil => simp [adel]
  | cons p t ih =>
      obtain ⟨k0, v0⟩ := p
      by_cases h0 : k0 = k
      · subst h0
        simp only [adel, if_true, ih, List.map_cons, List.mem_cons]
        constructor
        · rintro ⟨h1, h2⟩; exact ⟨h1, Or.inr h2⟩
        · rintro ⟨h1, h2 | h2⟩
          · exact absurd h2 h1
          · exact ⟨h1, h2⟩
      · simp only [adel, h0, if_false, List.map_cons, List.mem_cons, ih]
        constructor
        · rintro (h | ⟨h1, h2⟩)
          · subst h; exact ⟨h0, Or.inl rfl⟩
          · exact ⟨h1, Or.inr h2⟩
        · rintro ⟨h1, h2 | h2⟩
          · exact Or.inl h2
          · exact Or.inr ⟨h1, h2⟩

theorem nodupKeys_adel (m : List (α × β)) (k : α) (h : NodupKeys m) : NodupKeys (adel m k) := by
  induction m with
  | nil => simp [adel, NodupKeys]
  | cons p t ih =>
      obtain ⟨k0, v0⟩ := p
      simp only [NodupKeys, List.map_cons, List.nodup_cons] at h
      by_cases h0 : k0 = k
      · subst h0
        simp only [adel, if_true]
        exact ih h.2
      · simp only [adel, h0, if_false, NodupKeys, List.map_cons, List.nodup_cons]
        refine ⟨?_, ih h.2⟩
        intro hm
        exact h.1 ((mem_keys_adel t k k0).1 hm).2

/-- with distinct keys, membership of a pair is lookup -/
theorem mem_iff_aget (m : List (α × β)) (h : NodupKeys m) (k : α) (v : β) :
    (k, v) ∈ m ↔ aget m k = some v := by
  induction m with
  | nil => simp
  | cons p t ih =>
      obtain ⟨k0, v0⟩ := p
      simp only [NodupKeys, List.map_cons, List.nodup_cons] at h
      by_cases h0 : k0 = k
      · subst h0
        simp only [aget, if_true, List.mem_cons, Prod.mk.injEq, true_and, Option.some.injEq]
        constructor
        · rintro (h1 | h1)
          · exact h1.symm
          · exact absurd (List.mem_map_of_mem (f := (·.1)) h1) h.1
        · intro h1; exact Or.inl h1.symm
      · simp only [aget, h0, if_false, List.mem_cons, Prod.mk.injEq]
        rw [← ih h.2]
        constructor
        · rintro (⟨h1, _⟩ | h1)
          · exact absurd h1.symm h0
          · exact h1
        · intro h1; exact Or.inr h1

theorem aget_isSome_iff_mem_keys (m : List (α × β)) (k : α) :
    (aget m k).isSome ↔ k ∈ m.map (·.1) := by
  induction m with
  | nil => simp
  | cons p t ih =>
      obtain ⟨k0, v0⟩ := p
      by_cases h0 : k0 = k
      · subst h0; simp [aget]
      · simp only [aget, h0, if_false, ih, List.map_cons, List.mem_cons]
        constructor
        · intro h; exact Or.inr h
        · rintro (h | h)
          · exact absurd h.symm h0
          · exact h

end alist

end AndaVerif.ObjStore
