import AndaVerif.Model.Tx
/-
Planning never touches anything but fresh shell rows: every clause of `kml::plan` either leaves the
store alone or mints one `pending` shell at the next free id of a collection.
-/
namespace AndaVerif.Tx

/-- ids at or above a collection's next id are free -/
def WF (s : Store) : Prop := ∀ i : Id, s.next i.kind ≤ i.n → s.elems i = none

theorem init_WF : WF Store.init := by intro i _; rfl

/-- what a transaction-only step keeps of the transaction -/
def TxSame (a b : Tx) : Prop := b.shells = a.shells ∧ b.seq = a.seq ∧ b.dry = a.dry

theorem TxSame.rfl' (a : Tx) : TxSame a a := ⟨rfl, rfl, rfl⟩
theorem TxSame.trans {a b c : Tx} (h1 : TxSame a b) (h2 : TxSame b c) : TxSame a c :=
  ⟨h2.1.trans h1.1, h2.2.1.trans h1.2.1, h2.2.2.trans h1.2.2⟩

/-- One planning step: store untouched, or exactly one shell minted. -/
inductive Step (s : Store) (tx : Tx) (p : PS) : Prop where
  | same (hs : p.s = s) (ht : TxSame tx p.tx)
  | mint (k : Kind) (hs : p.s = (mintShell s tx k).1)
      (hsh : p.tx.shells = tx.shells ++ [⟨k, s.next k⟩]) (hseq : p.tx.seq = tx.seq) (hdry : p.tx.dry = tx.dry)

theorem load_same {s : Store} {tx tx' : Tx} {id : Id} {x : Staged} (h : load s tx id = .ok (tx', x)) :
    TxSame tx tx' := by
  unfold load at h
  split at h
  · cases h; exact TxSame.rfl' _
  · split at h
    · cases h
    · cases h; exact ⟨rfl, rfl, rfl⟩

theorem expectVersion_same {s : Store} {tx tx' : Tx} {id : Id} {v : Nat} (h : expectVersion s tx id v = .ok tx') :
    TxSame tx tx' := by
  unfold expectVersion at h
  split at h
  · cases h
  · rename_i tx1 x hl
    split at h
    · cases h; exact load_same hl
    · cases h

theorem bindExisting_step (s : Store) (tx : Tx) (h : Nat) (id : Id) :
    (bindExisting s tx h id).s = s ∧ TxSame tx (bindExisting s tx h id).tx := by
  unfold bindExisting
  split <;> exact ⟨rfl, rfl, rfl, rfl⟩

theorem declare_step (s : Store) (tx : Tx) (h : Nat) (k : Kind) : Step s tx (declare s tx h k) := by
  unfold declare
  split
  · exact .same rfl (TxSame.rfl' _)
  · exact .mint k rfl rfl rfl rfl

theorem declareClause_step (c : Clause) (s : Store) (tx : Tx) : Step s tx (declareClause c s tx) := by
  unfold declareClause
  split
  · exact declare_step ..
  · exact declare_step ..
  · exact .same rfl (TxSame.rfl' _)

theorem pFail_step (e : Err) (s : Store) (tx : Tx) : Step s tx (pFail e s tx) := .same rfl (TxSame.rfl' _)

theorem pGuard_step (b : Bool) (e : Err) (s : Store) (tx : Tx) : Step s tx (pGuard b e s tx) := by
  unfold pGuard; split <;> exact .same rfl (TxSame.rfl' _)

theorem pLoad_step (id : Id) (s : Store) (tx : Tx) : Step s tx (pLoad id s tx) := by
  unfold pLoad
  split
  · exact .same rfl (TxSame.rfl' _)
  · rename_i hl; exact .same rfl (load_same hl)

theorem pExpect_step (id : Id) (expect : Option Nat) (s : Store) (tx : Tx) : Step s tx (pExpect id expect s tx) := by
  unfold pExpect
  split
  · exact .same rfl (TxSame.rfl' _)
  · split
    · exact .same rfl (TxSame.rfl' _)
    · rename_i hl; exact .same rfl (expectVersion_same hl)

theorem pBind_step (h : Option Nat) (id : Id) (s : Store) (tx : Tx) : Step s tx (pBind h id s tx) := by
  unfold pBind
  split
  · exact .same rfl (TxSame.rfl' _)
  · have := bindExisting_step s tx ‹Nat› id; exact .same this.1 this.2

theorem pStageNew_step (id : Id) (row : Row) (s : Store) (tx : Tx) : Step s tx (pStageNew id row s tx) :=
  .same rfl ⟨rfl, rfl, rfl⟩

theorem pAssign_step (id : Id) (val : Option Nat) (s : Store) (tx : Tx) : Step s tx (pAssign id val s tx) := by
  unfold pAssign
  split
  · exact .same rfl (TxSame.rfl' _)
  · rename_i tx1 x hl
    have h1 := load_same hl
    split
    · exact .same rfl h1
    · split
      · exact .same rfl h1
      · exact .same rfl ⟨h1.1, h1.2.1, h1.2.2⟩

theorem pSetState_step (id : Id) (to : St) (expect : Option St) (s : Store) (tx : Tx) :
    Step s tx (pSetState id to expect s tx) := by
  unfold pSetState
  split
  · exact .same rfl (TxSame.rfl' _)
  · rename_i tx1 x hl
    have h1 := load_same hl
    repeat' split
    all_goals first | exact .same rfl h1 | exact .same rfl ⟨h1.1, h1.2.1, h1.2.2⟩

theorem pRetract_step (id : Id) (expect : Option Nat) (s : Store) (tx : Tx) :
    Step s tx (pRetract id expect s tx) := by
  unfold pRetract
  split
  · exact .same rfl (TxSame.rfl' _)
  · rename_i tx1 x hl
    have h1 := load_same hl
    repeat' split
    all_goals first | exact .same rfl h1 | exact .same rfl ⟨h1.1, h1.2.1, h1.2.2⟩

theorem pCheck2_step (a b : Id) (pred : Staged → Staged → Option Err) (s : Store) (tx : Tx) :
    Step s tx (pCheck2 a b pred s tx) := by
  unfold pCheck2
  split
  · exact .same rfl (TxSame.rfl' _)
  · rename_i tx1 x hl
    have h1 := load_same hl
    split
    · exact .same rfl h1
    · rename_i tx2 y hl2
      have h2 := h1.trans (load_same hl2)
      split <;> exact .same rfl h2

theorem pExpectStatus_step (id : Id) (expect : Option Nat) (s : Store) (tx : Tx) :
    Step s tx (pExpectStatus id expect s tx) := by
  unfold pExpectStatus
  split
  · exact .same rfl (TxSame.rfl' _)
  · exact pCheck2_step _ _ _ _ _

theorem pEdit_step (id : Id) (k : Option Kind) (g : Staged → Option Err) (f : Row → Row) (al : Bool) (op : Op)
    (s : Store) (tx : Tx) : Step s tx (pEdit id k g f al op s tx) := by
  unfold pEdit
  split
  · exact .same rfl (TxSame.rfl' _)
  · rename_i tx1 x hl
    have h1 := load_same hl
    repeat' split
    all_goals first | exact .same rfl h1 | exact .same rfl ⟨h1.1, h1.2.1, h1.2.2⟩

theorem pMergeInto_step (a b : Id) (s : Store) (tx : Tx) : Step s tx (pMergeInto a b s tx) := by
  unfold pMergeInto
  split
  · exact .same rfl (TxSame.rfl' _)
  · rename_i tx1 x hl
    have h1 := load_same hl
    repeat' split
    all_goals first | exact .same rfl h1 | exact .same rfl ⟨h1.1, h1.2.1, h1.2.2⟩

theorem pAct_step (id : Id) (a : Act) (s : Store) (tx : Tx) : Step s tx (pAct id a s tx) := by
  unfold pAct
  split
  · exact .same rfl (TxSame.rfl' _)
  · rename_i tx1 x hl
    have h1 := load_same hl
    split
    · exact .same rfl h1
    · exact .same rfl ⟨h1.1, h1.2.1, h1.2.2⟩

theorem pPurge_step (id : Id) (bad : Bool) (s : Store) (tx : Tx) : Step s tx (pPurge id bad s tx) := by
  unfold pPurge
  split
  · exact .same rfl (TxSame.rfl' _)
  · rename_i tx1 x hl
    have h1 := load_same hl
    repeat' split
    all_goals first | exact .same rfl h1 | exact .same rfl ⟨h1.1, h1.2.1, h1.2.2⟩

/-! ## The planning invariant -/

/-- Relation between the store a statement began on (`base`, after `begin_transaction`) and the
planning state: the store is `base` plus exactly the transaction's shells, at ids that were free. -/
structure RInv (base : Store) (q : Nat) (d : Bool) (p : PS) : Prop where
  wf : WF p.s
  raw : ∀ i, p.s.elems i = if i ∈ p.tx.shells then some (shellElem i.kind q) else base.elems i
  fresh : ∀ i ∈ p.tx.shells, base.elems i = none
  journal : p.s.journal = base.journal
  vlog : p.s.vlog = base.vlog
  seq : p.s.seq = base.seq
  txseq : p.tx.seq = q
  txdry : p.tx.dry = d
  env : p.s.envs = base.envs ∧ p.s.envVersion = base.envVersion
  next : ∀ k, base.next k ≤ p.s.next k

theorem RInv.of_step {base : Store} {q : Nat} {d : Bool} {s : Store} {tx : Tx} {e : Option Err} {p : PS}
    (h0 : RInv base q d { s := s, tx := tx, err := e }) (hp : Step s tx p) : RInv base q d p := by
  have h : WF s ∧ (∀ i, s.elems i = if i ∈ tx.shells then some (shellElem i.kind q) else base.elems i) ∧
      (∀ i ∈ tx.shells, base.elems i = none) ∧ s.journal = base.journal ∧ s.vlog = base.vlog ∧ s.seq = base.seq ∧
      tx.seq = q ∧ (∀ k, base.next k ≤ s.next k) ∧ tx.dry = d ∧ (s.envs = base.envs ∧ s.envVersion = base.envVersion) :=
    ⟨h0.wf, h0.raw, h0.fresh, h0.journal, h0.vlog, h0.seq, h0.txseq, h0.next, h0.txdry, h0.env⟩
  obtain ⟨hwf, hraw, hfresh, hj, hv, hsq, hq, hnext, hd, henv⟩ := h
  cases hp with
  | same hs ht =>
      exact { wf := hs ▸ hwf, raw := by rw [hs, ht.1]; exact hraw, fresh := by rw [ht.1]; exact hfresh,
              journal := hs ▸ hj, vlog := hs ▸ hv, seq := hs ▸ hsq,
              txseq := ht.2.1.trans hq, txdry := ht.2.2.trans hd, next := hs ▸ hnext, env := hs ▸ henv }
  | mint k hs hsh hseq hdry =>
      have hfree : s.elems ⟨k, s.next k⟩ = none := hwf ⟨k, s.next k⟩ (Nat.le_refl _)
      have hnot : (⟨k, s.next k⟩ : Id) ∉ tx.shells := by
        intro hm
        have := hraw ⟨k, s.next k⟩
        simp only [hm, if_true] at this
        rw [hfree] at this; cases this
      have hbase : base.elems ⟨k, s.next k⟩ = none := by
        have := hraw ⟨k, s.next k⟩
        simp only [hnot, if_false] at this
        rw [← this]; exact hfree
      refine { wf := ?_, raw := ?_, fresh := ?_, journal := ?_, vlog := ?_, seq := ?_, txseq := hseq.trans hq, txdry := hdry.trans hd, next := ?_, env := (by rw [hs]; exact henv) }
      · rw [hs]; intro i hi
        simp only [mintShell, setElem, bump] at hi ⊢
        split
        · rename_i heq; subst heq; simp at hi; omega
        · apply hwf; split at hi <;> omega
      · intro i
        rw [hs, hsh]
        simp only [mintShell, setElem, List.mem_append, List.mem_singleton]
        by_cases hi : i = ⟨k, s.next k⟩
        · simp [hi, hq]
        · simp only [hi, if_false, or_false]; exact hraw i
      · intro i hi
        rw [hsh] at hi
        simp only [List.mem_append, List.mem_singleton] at hi
        rcases hi with hi | hi
        · exact hfresh i hi
        · rw [hi]; exact hbase
      · rw [hs]; exact hj
      · rw [hs]; exact hv
      · rw [hs]; exact hsq
      · intro k'
        rw [hs]
        simp only [mintShell, bump]
        have := hnext k'
        split <;> omega

theorem RInv.andThen {base : Store} {q : Nat} {d : Bool} {p : PS} (h : RInv base q d p) (f : Store → Tx → PS)
    (hf : ∀ s tx, Step s tx (f s tx)) : RInv base q d (p.andThen f) := by
  unfold PS.andThen
  split
  · exact h
  · exact RInv.of_step (e := p.err) (by cases p; exact h) (hf p.s p.tx)

/-- a planning function that keeps the invariant -/
def Pres (f : Store → Tx → PS) : Prop :=
  ∀ (base : Store) (q : Nat) (d : Bool) (s : Store) (tx : Tx) (e : Option Err), RInv base q d { s := s, tx := tx, err := e } → RInv base q d (f s tx)

theorem Pres.of_step {f : Store → Tx → PS} (hf : ∀ s tx, Step s tx (f s tx)) : Pres f :=
  fun _ _ _ s tx _ h => RInv.of_step h (hf s tx)

theorem RInv.andThen' {base : Store} {q : Nat} {d : Bool} {p : PS} (h : RInv base q d p) {f : Store → Tx → PS}
    (hf : Pres f) : RInv base q d (p.andThen f) := by
  unfold PS.andThen
  split
  · exact h
  · exact hf base q d p.s p.tx p.err (by cases p; exact h)

theorem Pres.pMint (k : Kind) {cont : Id → Store → Tx → PS} (hc : ∀ id, Pres (cont id)) : Pres (pMint k cont) := by
  intro base q d s tx e h
  unfold Tx.pMint
  refine hc _ base q d _ _ none ?_
  exact RInv.of_step h (.mint k rfl rfl rfl rfl)

theorem Pres.fail' (e : Err) : Pres (fun s tx => PS.fail s tx e) := Pres.of_step (fun _ _ => .same rfl (TxSame.rfl' _))

theorem pres_pGuard (b : Bool) (e : Err) : Pres (pGuard b e) := Pres.of_step (pGuard_step b e)
theorem pres_pLoad (id : Id) : Pres (pLoad id) := Pres.of_step (pLoad_step id)
theorem pres_pExpect (id : Id) (x : Option Nat) : Pres (pExpect id x) := Pres.of_step (pExpect_step id x)
theorem pres_pBind (h : Option Nat) (id : Id) : Pres (pBind h id) := Pres.of_step (pBind_step h id)
theorem pres_pStageNew (id : Id) (row : Row) : Pres (pStageNew id row) := Pres.of_step (pStageNew_step id row)
theorem pres_pAssign (id : Id) (v : Option Nat) : Pres (pAssign id v) := Pres.of_step (pAssign_step id v)
theorem pres_pSetState (id : Id) (to : St) (x : Option St) : Pres (pSetState id to x) := Pres.of_step (pSetState_step id to x)
theorem pres_pRetract (id : Id) (x : Option Nat) : Pres (pRetract id x) := Pres.of_step (pRetract_step id x)
theorem pres_pPurge (id : Id) (b : Bool) : Pres (pPurge id b) := Pres.of_step (pPurge_step id b)
theorem pres_pAct (id : Id) (a : Act) : Pres (pAct id a) := Pres.of_step (pAct_step id a)
theorem pres_pMergeInto (a b : Id) : Pres (pMergeInto a b) := Pres.of_step (pMergeInto_step a b)
theorem pres_pCheck2 (a b : Id) (pred : Staged → Staged → Option Err) : Pres (pCheck2 a b pred) :=
  Pres.of_step (pCheck2_step a b pred)
theorem pres_pExpectStatus (id : Id) (x : Option Nat) : Pres (pExpectStatus id x) := Pres.of_step (pExpectStatus_step id x)
theorem pres_pEdit (id : Id) (k : Option Kind) (g : Staged → Option Err) (f : Row → Row) (al : Bool) (op : Op) :
    Pres (pEdit id k g f al op) := Pres.of_step (pEdit_step id k g f al op)

theorem RInv.pActs {base : Store} {q : Nat} {d : Bool} (id : Id) (acts : List Act) {p : PS} (h : RInv base q d p) :
    RInv base q d (pActs id acts p) := by
  unfold Tx.pActs
  induction acts generalizing p with
  | nil => exact h
  | cons a r ih => exact ih (h.andThen' (pres_pAct id a))

theorem Pres.chain {f g : Store → Tx → PS} (hf : Pres f) (hg : Pres g) : Pres (fun s tx => (f s tx).andThen g) :=
  fun base q d s tx e h => (hf base q d s tx e h).andThen' hg

/-- closes `RInv base q d (chain of primitives)` given `h : RInv base q d ⟨s, tx, _⟩` -/
macro "pres_chain" h:ident : tactic => `(tactic|
  repeat' (first
    | exact pres_pGuard _ _ _ _ _ _ _ _ $h
    | exact pres_pLoad _ _ _ _ _ _ _ $h
    | exact pres_pExpect _ _ _ _ _ _ _ _ $h
    | exact pres_pBind _ _ _ _ _ _ _ _ $h
    | exact pres_pStageNew _ _ _ _ _ _ _ _ $h
    | exact pres_pSetState _ _ _ _ _ _ _ _ _ $h
    | exact pres_pRetract _ _ _ _ _ _ _ _ $h
    | exact pres_pPurge _ _ _ _ _ _ _ _ $h
    | exact pres_pAssign _ _ _ _ _ _ _ _ $h
    | exact pres_pEdit _ _ _ _ _ _ _ _ _ _ _ _ $h
    | exact pres_pMergeInto _ _ _ _ _ _ _ _ $h
    | exact pres_pCheck2 _ _ _ _ _ _ _ _ _ $h
    | exact pres_pExpectStatus _ _ _ _ _ _ _ _ $h
    | exact Pres.fail' _ _ _ _ _ _ _ $h
    | exact pres_pGuard _ _
    | exact pres_pLoad _
    | exact pres_pExpect _ _
    | exact pres_pBind _ _
    | exact pres_pStageNew _ _
    | exact pres_pAssign _ _
    | exact pres_pEdit _ _ _ _ _ _
    | exact pres_pMergeInto _ _
    | exact pres_pCheck2 _ _ _
    | exact pres_pExpectStatus _ _
    | apply RInv.andThen'
    | apply Pres.pMint
    | (intro _id; apply Pres.chain)
    | apply Pres.chain))

theorem applyClause_pres (c : Clause) : Pres (applyClause c) := by
  intro base q d s tx e h
  cases c with
  | update t acts expect bad =>
      simp only [applyClause]
      split
      · pres_chain h
      · apply RInv.pActs
        pres_chain h
  | _ => simp only [applyClause] <;> (repeat' split) <;> pres_chain h

theorem RInv.declareAll {base : Store} {q : Nat} {d : Bool} (cs : List Clause) {p : PS} (h : RInv base q d p) :
    RInv base q d (declareAll cs p) := by
  unfold Tx.declareAll
  induction cs generalizing p with
  | nil => exact h
  | cons c cs ih => exact ih (h.andThen _ (declareClause_step c))

theorem RInv.applyPass {base : Store} {q : Nat} {d : Bool} (pass : Nat) (cs : List Clause) {p : PS} (h : RInv base q d p) :
    RInv base q d (applyPass pass cs p) := by
  unfold Tx.applyPass
  induction cs generalizing p with
  | nil => exact h
  | cons c cs ih =>
      simp only [List.foldl_cons]
      split
      · exact ih (h.andThen' (applyClause_pres c))
      · exact ih h

theorem RInv.plan {base : Store} {q : Nat} {d : Bool} (cs : List Clause) {p : PS} (h : RInv base q d p) :
    RInv base q d (plan cs p) :=
  (((h.declareAll cs).applyPass 0 cs).applyPass 1 cs).applyPass 2 cs

/-- `begin_transaction`: only the Space row's `seq` moves. -/
theorem RInv.begin {s : Store} (hwf : WF s) (dry : Bool) :
    RInv { s with seq := s.seq + 1 } (s.seq + 1) dry (begin s dry) :=
  { wf := hwf, raw := by intro i; simp [Tx.begin, PS.ok], fresh := by intro i hi; simp [Tx.begin, PS.ok] at hi,
    journal := rfl, vlog := rfl, seq := rfl, txseq := rfl, txdry := rfl, env := ⟨rfl, rfl⟩, next := fun _ => Nat.le_refl _ }

/-! ## Discarding shells -/

theorem discard_elems (f : Id → Option Elem) (shells : List Id) (i : Id) :
    (shells.foldl (fun f i => setElem f i none) f) i = if i ∈ shells then none else f i := by
  induction shells generalizing f with
  | nil => simp
  | cons a r ih =>
      simp only [List.foldl_cons, ih, List.mem_cons]
      by_cases h1 : i ∈ r
      · simp [h1]
      · by_cases h2 : i = a
        · simp [h2, setElem]
        · simp [h1, h2, setElem]

/-- after `abort` / a dry run the element collections are exactly what they were -/
theorem RInv.discard_raw {base : Store} {q : Nat} {d : Bool} {p : PS} (h : RInv base q d p) (i : Id) :
    (discardShells p.s p.tx.shells).elems i = base.elems i := by
  simp only [discardShells, discard_elems]
  split
  · rename_i hm; exact (h.fresh i hm).symm
  · rename_i hm; have := h.raw i; simp only [hm, if_false] at this; exact this

theorem visible_shell (k : Kind) (q : Nat) : visible (some (shellElem k q)) = none := by simp [visible, shellElem]

/-- without the discard the collections differ from `base` only by `pending` rows -/
theorem RInv.visible_same {base : Store} {q : Nat} {d : Bool} {p : PS} (h : RInv base q d p) (i : Id) :
    visible (p.s.elems i) = visible (base.elems i) := by
  rw [h.raw i]
  split
  · rename_i hm; rw [h.fresh i hm, visible_shell]; rfl
  · rfl

theorem discardShells_WF {s : Store} (h : WF s) (shells : List Id) : WF (discardShells s shells) := by
  intro i hi
  simp only [discardShells, discard_elems]
  split
  · rfl
  · exact h i hi

end AndaVerif.Tx
