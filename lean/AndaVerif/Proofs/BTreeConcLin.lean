import AndaVerif.Proofs.BTreeConcInv
/-
The linearisation invariant: the pair set denoted by the shared maps is the one obtained by applying
the recorded element operations in history order, and (non-unique index) every recorded effect is
the sequential effect at that place.
-/
namespace AndaVerif
namespace BTreeConc

structure Lin (r0 : List (Int × Nat)) (c : Cfg) : Prop where
  pairs : ∀ k d, (k, d) ∈ applyHist r0 c.hist ↔ Pairs c.sh k d
  effects : c.sh.unique = false → EffectsSeq r0 c.hist

theorem pairs_congr (sh sh' : Shared) (h : ∀ k d, Pairs sh' k d ↔ Pairs sh k d)
    (r : List (Int × Nat)) (hr : ∀ k d, (k, d) ∈ r ↔ Pairs sh k d) : ∀ k d, (k, d) ∈ r ↔ Pairs sh' k d :=
  fun k d => (hr k d).trans (h k d).symm

theorem lin_act (r0 : List (Int × Nat)) (c : Cfg) (hi : Inv c) (h : Lin r0 c) (t : Nat) (th : Thread)
    {sh' : Shared} {th' : Thread} {evs : List Ev} (hact : Act c t th sh' th' evs) :
    Lin r0 (after c t sh' th' evs) := by
  -- actions without an event that leave every posting's ids alone
  have quiet : evs = [] → (∀ k d, Pairs sh' k d ↔ Pairs c.sh k d) → sh'.unique = c.sh.unique →
      Lin r0 (after c t sh' th' evs) := by
    intro he hp hu
    subst he
    exact ⟨pairs_congr c.sh sh' hp _ h.pairs, fun hu' => h.effects (by rw [← hu]; exact hu')⟩
  cases hact <;> first
    | (apply quiet rfl (fun _ _ => Iff.rfl) rfl; done)
    | skip
  case insErr d k sp rest p hpc hprog hg hp hu hd =>
    refine ⟨?_, fun hu' => by simp only at hu'; rw [hu] at hu'; cases hu'⟩
    intro k₁ d₁
    simp only [List.singleton_append, applyHist, applyEv, Bool.false_eq_true, if_false]
    exact h.pairs k₁ d₁
  case insHas d k sp rest p hpc hprog hg hp hd =>
    refine ⟨?_, fun hu' => ⟨h.effects hu', ?_⟩⟩
    · intro k₁ d₁
      simp only [List.singleton_append, applyHist, applyEv, Bool.false_eq_true, if_false]
      exact h.pairs k₁ d₁
    · have : (k, d) ∈ applyHist r0 c.hist := (h.pairs k d).2 ⟨p, hp, hd⟩
      simp [specEffect, this]
  case insApp d k sp rest p hpc hprog hg hp hu hd =>
    have hnot : (k, d) ∉ applyHist r0 c.hist := fun hm => by
      obtain ⟨q, hq, hdq⟩ := (h.pairs k d).1 hm
      rw [hp] at hq; cases hq; exact hd hdq
    refine ⟨?_, fun hu' => ⟨h.effects hu, ?_⟩⟩
    · intro k₁ d₁
      simp only [List.singleton_append, applyHist, applyEv, if_true, List.mem_cons, Prod.mk.injEq, Pairs, pget_pset]
      constructor
      · rintro (⟨e1, e2⟩ | hm)
        · subst e1; subst e2
          exact ⟨{ p with ids := p.ids ++ [d₁] }, by simp, by simp⟩
        · obtain ⟨q, hq, hdq⟩ := (h.pairs k₁ d₁).1 hm
          by_cases e : k = k₁
          · subst e; rw [hp] at hq; cases hq
            exact ⟨{ p with ids := p.ids ++ [d] }, by simp, by simp [hdq]⟩
          · exact ⟨q, by simp [e, hq], hdq⟩
      · rintro ⟨q, hq, hdq⟩
        by_cases e : k = k₁
        · subst e
          simp only [if_true, Option.some.injEq] at hq
          subst hq
          simp only [List.mem_append, List.mem_singleton] at hdq
          rcases hdq with hdq | hdq
          · exact Or.inr ((h.pairs k d₁).2 ⟨p, hp, hdq⟩)
          · exact Or.inl ⟨rfl, hdq⟩
        · simp only [e, if_false] at hq
          exact Or.inr ((h.pairs k₁ d₁).2 ⟨q, hq, hdq⟩)
    · simp [specEffect, hnot]
  case insNew d k sp rest hpc hprog hg hp =>
    have hnot : (k, d) ∉ applyHist r0 c.hist := fun hm => by
      obtain ⟨q, hq, _⟩ := (h.pairs k d).1 hm
      rw [hp] at hq; cases hq
    refine ⟨?_, fun hu' => ⟨h.effects hu', ?_⟩⟩
    · intro k₁ d₁
      simp only [List.singleton_append, applyHist, applyEv, if_true, List.mem_cons, Prod.mk.injEq, Pairs, pget_pset]
      constructor
      · rintro (⟨e1, e2⟩ | hm)
        · subst e1; subst e2
          exact ⟨⟨c.sh.maxBucket, [d₁]⟩, by simp, by simp⟩
        · obtain ⟨q, hq, hdq⟩ := (h.pairs k₁ d₁).1 hm
          have e : ¬ k = k₁ := fun e => by subst e; rw [hp] at hq; cases hq
          exact ⟨q, by simp [e, hq], hdq⟩
      · rintro ⟨q, hq, hdq⟩
        by_cases e : k = k₁
        · subst e
          simp only [if_true, Option.some.injEq] at hq
          subst hq
          simp only [List.mem_singleton] at hdq
          exact Or.inl ⟨rfl, hdq⟩
        · simp only [e, if_false] at hq
          exact Or.inr ((h.pairs k₁ d₁).2 ⟨q, hq, hdq⟩)
    · simp [specEffect, hnot]
  case ins2SpillSome target d k rest p hpc hprog hp =>
    apply quiet rfl _ rfl
    intro k₁ d₁
    simp only [Pairs, pget_pset]
    by_cases e : k = k₁
    · subst e
      simp only [if_true, Option.some.injEq, exists_eq_left', hp]
    · simp [e]
  case remHit d k rest p hpc hprog hg hp hd =>
    have hin : (k, d) ∈ applyHist r0 c.hist := (h.pairs k d).2 ⟨p, hp, hd⟩
    refine ⟨?_, fun hu' => ⟨h.effects hu', ?_⟩⟩
    · intro k₁ d₁
      simp only [List.singleton_append, applyHist, applyEv, if_true, Bool.false_eq_true, if_false, List.mem_filter,
        Bool.not_eq_true', beq_eq_false_iff_ne, ne_eq, Prod.mk.injEq, Pairs, pget_pset]
      constructor
      · rintro ⟨hm, hne⟩
        obtain ⟨q, hq, hdq⟩ := (h.pairs k₁ d₁).1 hm
        by_cases e : k = k₁
        · subst e; rw [hp] at hq; cases hq
          refine ⟨{ p with ids := p.ids.filter (fun x => !(x == d)) }, by simp, ?_⟩
          simp only [List.mem_filter, Bool.not_eq_true', beq_eq_false_iff_ne, ne_eq]
          exact ⟨hdq, fun e' => hne ⟨rfl, e'⟩⟩
        · exact ⟨q, by simp [e, hq], hdq⟩
      · rintro ⟨q, hq, hdq⟩
        by_cases e : k = k₁
        · subst e
          simp only [if_true, Option.some.injEq] at hq
          subst hq
          simp only [List.mem_filter, Bool.not_eq_true', beq_eq_false_iff_ne, ne_eq] at hdq
          exact ⟨(h.pairs k d₁).2 ⟨p, hp, hdq.1⟩, fun ⟨_, e'⟩ => hdq.2 e'⟩
        · simp only [e, if_false] at hq
          exact ⟨(h.pairs k₁ d₁).2 ⟨q, hq, hdq⟩, fun ⟨e', _⟩ => e e'.symm⟩
    · simp [specEffect, hin]
  case remMiss d k rest p hpc hprog hg hp hd =>
    have hnot : (k, d) ∉ applyHist r0 c.hist := fun hm => by
      obtain ⟨q, hq, hdq⟩ := (h.pairs k d).1 hm
      rw [hp] at hq; cases hq; exact hd hdq
    refine ⟨?_, fun hu' => ⟨h.effects hu', ?_⟩⟩
    · intro k₁ d₁
      simp only [List.singleton_append, applyHist, applyEv, Bool.false_eq_true, if_false]
      exact h.pairs k₁ d₁
    · simp [specEffect, hnot]
  case remAbsent d k rest hpc hprog hg hp =>
    have hnot : (k, d) ∉ applyHist r0 c.hist := fun hm => by
      obtain ⟨q, hq, _⟩ := (h.pairs k d).1 hm
      rw [hp] at hq; cases hq
    refine ⟨?_, fun hu' => ⟨h.effects hu', ?_⟩⟩
    · intro k₁ d₁
      simp only [List.singleton_append, applyHist, applyEv, Bool.false_eq_true, if_false]
      exact h.pairs k₁ d₁
    · simp [specEffect, hnot]
  case rem1Erase b d k rest p hpc hprog hp he =>
    apply quiet rfl _ rfl
    intro k₁ d₁
    simp only [Pairs, pget_perase]
    by_cases e : k = k₁
    · subst e
      simp only [if_true, hp, Option.some.injEq, exists_eq_left', he, List.not_mem_nil, iff_false]
      rintro ⟨q, hq, _⟩; cases hq
    · simp [e]
  case cmp2 skip assign rest hpc hprog =>
    apply quiet rfl _ rfl
    intro k₁ d₁
    simp only [Pairs, pget_rebucket]
    cases hq : pget c.sh.post k₁ with
    | none => simp
    | some q => simp

theorem lin_step (r0 : List (Int × Nat)) (t : Nat) (c c' : Cfg) (hi : Inv c) (h : Lin r0 c)
    (hs : step t c = some c') : Lin r0 c' := by
  obtain ⟨th, sh', th', evs, _, hact, rfl⟩ := step_act t c c' hs
  exact lin_act r0 c hi h t th hact

-- start ----------------------------------------------------------------------------------------------------

theorem initCfg_idle (sh : Shared) (progs : List (List Op)) (i : Nat) (th : Thread)
    (h : (initCfg sh progs).threads[i]? = some th) : th.pc = PC.idle := by
  simp only [initCfg, List.getElem?_map] at h
  cases hp : progs[i]? with
  | none => simp [hp] at h
  | some p => simp only [hp, Option.map_some, Option.some.injEq] at h; subst h; rfl

theorem not_any_of_idle (c : Cfg) (W : Thread → Prop)
    (hidle : ∀ (i : Nat) (th : Thread), c.threads[i]? = some th → th.pc = PC.idle)
    (hW : ∀ th, W th → th.pc ≠ PC.idle) : ¬ Any c W := by
  rintro ⟨i, th, hi, hw⟩
  exact hW th hw (hidle i th hi)

theorem inv_init (sh : Shared) (progs : List (List Op)) (h : Clean sh) : Inv (initCfg sh progs) :=
  { keyed := fun k p hp => Or.inl (h.keyed k p hp)
    posted := fun k hk => Or.inl (h.posted k hk)
    nonempty := fun k p hp he => absurd he (h.nonempty k p hp)
    listedI := Or.inr (fun k p hp _ => Or.inl (h.listed k p hp))
    excl := fun i th hi hc => by
      have := initCfg_idle sh progs i th hi
      rw [this] at hc; cases hc
    nodup := h.nodup
    uniq := h.uniq }

/-- the pair list of a clean start -/
theorem lin_init (sh : Shared) (progs : List (List Op)) (r0 : List (Int × Nat))
    (hr : ∀ k d, (k, d) ∈ r0 ↔ Pairs sh k d) : Lin r0 (initCfg sh progs) :=
  ⟨hr, fun _ => trivial⟩

theorem inv_sched (sh : Shared) (progs : List (List Op)) (hc : Clean sh) (s : List Nat) :
    Inv (Sched.runSchedule step s (initCfg sh progs)) :=
  Sched.sched_inv step Inv (fun t c c' h hs => inv_step t c c' h hs) s _ (inv_init sh progs hc)

/-- both invariants along every schedule -/
theorem inv_lin_sched (sh : Shared) (progs : List (List Op)) (r0 : List (Int × Nat)) (hc : Clean sh)
    (hr : ∀ k d, (k, d) ∈ r0 ↔ Pairs sh k d) (s : List Nat) :
    Inv (Sched.runSchedule step s (initCfg sh progs)) ∧ Lin r0 (Sched.runSchedule step s (initCfg sh progs)) :=
  Sched.sched_inv step (fun c => Inv c ∧ Lin r0 c)
    (fun t c c' h hs => ⟨inv_step t c c' h.1 hs, lin_step r0 t c c' h.1 h.2 hs⟩)
    s _ ⟨inv_init sh progs hc, lin_init sh progs r0 hr⟩

theorem unique_step (t : Nat) (c c' : Cfg) (hs : step t c = some c') : c'.sh.unique = c.sh.unique := by
  obtain ⟨th, sh', th', evs, _, hact, rfl⟩ := step_act t c c' hs
  cases hact <;> rfl

theorem unique_sched (sh : Shared) (progs : List (List Op)) (s : List Nat) :
    (Sched.runSchedule step s (initCfg sh progs)).sh.unique = sh.unique :=
  Sched.sched_inv step (fun c => c.sh.unique = sh.unique)
    (fun t c c' h hs => (unique_step t c c' hs).trans h) s _ rfl

/-- at quiescence nobody owes anything -/
theorem quiescent_no_obligation (c : Cfg) (hq : Quiescent c) (W : Thread → Prop) (hW : ∀ th, W th → th.pc ≠ PC.idle) :
    ¬ Any c W :=
  not_any_of_idle c W (fun i th hi => allIdle_get c hq i th hi) hW

end BTreeConc
end AndaVerif
