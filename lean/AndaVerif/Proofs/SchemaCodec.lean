import AndaVerif.Proofs.SchemaInd
import AndaVerif.Model.SchemaCanon
/-
Encoding a well-formed, NaN-free value with `toDM` (serde `Serialize`, CBOR branch) and decoding it
with `readBack` (the schema-less visitor) always succeeds and yields exactly `generic v`.
-/
namespace AndaVerif.Schema

/-- The IEEE facts the round trip needs, as hypotheses about the opaque float model. -/
structure FloatModel.Lawful (fm : FloatModel) : Prop where
  widen_not_nan : ∀ x, fm.isNaN32 x = false → fm.isNaN64 (fm.widen x) = false
  narrow_widen : ∀ x, fm.isNaN32 x = false → fm.narrow (fm.widen x) = x
  inf_widen : ∀ x, fm.isNaN32 x = false → fm.isInf32 x = true → fm.isFinite64 (fm.widen x) = false

mutual
def noNaN (fm : FloatModel) : FieldValue → Bool
  | .f64 d => !fm.isNaN64 d
  | .f32 x => !fm.isNaN32 x
  | .array vs => noNaNL fm vs
  | .map kvs => noNaNM fm kvs
  | _ => true
def noNaNL (fm : FloatModel) : List FieldValue → Bool
  | [] => true
  | v :: vs => noNaN fm v && noNaNL fm vs
def noNaNM (fm : FloatModel) : List (FieldKey × FieldValue) → Bool
  | [] => true
  | (_, v) :: vs => noNaN fm v && noNaNM fm vs
end

/-! ### list forms of the mutual helpers -/

theorem genericL_eq (fm : FloatModel) (vs : List FieldValue) : genericL fm vs = vs.map (generic fm) := by
  induction vs with
  | nil => simp [genericL]
  | cons v vs ih => simp [genericL, ih]

theorem genericM_eq (fm : FloatModel) (kvs : List (FieldKey × FieldValue)) :
    genericM fm kvs = kvs.map (fun kv => (kv.1, generic fm kv.2)) := by
  induction kvs with
  | nil => simp [genericM]
  | cons kv kvs ih => obtain ⟨k, v⟩ := kv; simp [genericM, ih]

theorem jshapeL_eq (xs : List Json) : jshapeL xs = xs.map jshape := by
  induction xs with
  | nil => simp [jshapeL]
  | cons x xs ih => simp [jshapeL, ih]

theorem jshapeO_eq (kvs : List (String × Json)) :
    jshapeO kvs = kvs.map (fun kv => (FieldKey.text kv.1, jshape kv.2)) := by
  induction kvs with
  | nil => simp [jshapeO]
  | cons kv kvs ih => obtain ⟨k, v⟩ := kv; simp [jshapeO, ih]

theorem WFL_iff (fm : FloatModel) (vs : List FieldValue) :
    FieldValue.WFL fm vs = true ↔ ∀ v ∈ vs, v.WF fm = true := by
  induction vs with
  | nil => simp [FieldValue.WFL]
  | cons v vs ih => simp [FieldValue.WFL, ih]

theorem noNaNL_iff (fm : FloatModel) (vs : List FieldValue) :
    noNaNL fm vs = true ↔ ∀ v ∈ vs, noNaN fm v = true := by
  induction vs with
  | nil => simp [noNaNL]
  | cons v vs ih => simp [noNaNL, ih]

theorem noNaNM_iff (fm : FloatModel) (kvs : List (FieldKey × FieldValue)) :
    noNaNM fm kvs = true ↔ ∀ kv ∈ kvs, noNaN fm kv.2 = true := by
  induction kvs with
  | nil => simp [noNaNM]
  | cons kv kvs ih => obtain ⟨k, v⟩ := kv; simp [noNaNM, ih]

/-! ### keys -/

theorem readKey_keyToDM (k : FieldKey) (h : k.WF = true) : readKey (keyToDM k) = some k := by
  cases k with
  | text s => simp [keyToDM, readKey]
  | i64 i =>
    simp only [FieldKey.WF, Bool.and_eq_true, decide_eq_true_eq] at h
    simp [keyToDM, readKey, h.1, h.2]
  | bytes b => simp [keyToDM, readKey]

/-! ### sequences -/

theorem codecL (fm : FloatModel) (vs : List FieldValue)
    (h : ∀ v ∈ vs, ∃ dm, toDM fm v = some dm ∧ readBack fm dm = some (generic fm v)) :
    ∃ xs, toDML fm vs = some xs ∧ readBackL fm xs = some (vs.map (generic fm)) := by
  induction vs with
  | nil => exact ⟨[], by simp [toDML], by simp [readBackL]⟩
  | cons v vs ih =>
    obtain ⟨dm, h1, h2⟩ := h v (by simp)
    obtain ⟨xs, h3, h4⟩ := ih (fun x hx => h x (by simp [hx]))
    exact ⟨dm :: xs, by simp [toDML, h1, h3], by simp [readBackL, h2, h4]⟩

theorem codecM (fm : FloatModel) (kvs : List (FieldKey × FieldValue))
    (hk : ∀ kv ∈ kvs, kv.1.WF = true)
    (hd : kvs.Pairwise (fun a b => a.1 ≠ b.1))
    (h : ∀ kv ∈ kvs, ∃ dm, toDM fm kv.2 = some dm ∧ readBack fm dm = some (generic fm kv.2)) :
    ∃ xs, toDMM fm kvs = some xs ∧
      readBackM fm xs = some (kvs.map (fun kv => (kv.1, generic fm kv.2))) := by
  induction kvs with
  | nil => exact ⟨[], by simp [toDMM], by simp [readBackM]⟩
  | cons kv kvs ih =>
    obtain ⟨k, v⟩ := kv
    obtain ⟨dm, h1, h2⟩ := h (k, v) (by simp)
    rw [List.pairwise_cons] at hd
    obtain ⟨xs, h3, h4⟩ := ih (fun x hx => hk x (by simp [hx])) hd.2 (fun x hx => h x (by simp [hx]))
    refine ⟨(keyToDM k, dm) :: xs, by simp [toDMM, h1, h3], ?_⟩
    have hkey := readKey_keyToDM k (hk (k, v) (by simp))
    have hnodup : (kvs.map (fun kv => (kv.1, generic fm kv.2))).any (fun kv => kv.1 == k) = false := by
      rw [List.any_eq_false]
      intro x hx
      rw [List.mem_map] at hx
      obtain ⟨y, hy, rfl⟩ := hx
      have := hd.1 y hy
      simp only [beq_iff_eq]
      exact fun e => this e.symm
    simp only at h1 h2
    simp [readBackM, hkey, h2, h4, hnodup]

theorem WFM_iff (fm : FloatModel) (kvs : List (FieldKey × FieldValue)) :
    FieldValue.WFM fm kvs = true ↔
      (∀ kv ∈ kvs, kv.1.WF = true) ∧ (∀ kv ∈ kvs, kv.2.WF fm = true) ∧
        kvs.Pairwise (fun a b => a.1 ≠ b.1) := by
  induction kvs with
  | nil => simp [FieldValue.WFM]
  | cons kv kvs ih =>
    obtain ⟨k, v⟩ := kv
    simp only [FieldValue.WFM, Bool.and_eq_true, ih, List.mem_cons, forall_eq_or_imp,
      List.pairwise_cons, Bool.not_eq_true', List.any_eq_false, beq_iff_eq]
    constructor
    · rintro ⟨⟨⟨h1, h2⟩, h3, h4, h5⟩, h6⟩
      exact ⟨⟨h1, h3⟩, ⟨h2, h4⟩, fun x hx e => h6 x hx e.symm, h5⟩
    · rintro ⟨⟨h1, h3⟩, ⟨h2, h4⟩, h6, h5⟩
      exact ⟨⟨⟨h1, h2⟩, h3, h4, h5⟩, fun x hx e => h6 x hx e.symm⟩

/-! ### JSON payloads -/

theorem Json.WFL_iff (fm : FloatModel) (xs : List Json) :
    Json.WFL fm xs = true ↔ ∀ x ∈ xs, x.WF fm = true := by
  induction xs with
  | nil => simp [Json.WFL]
  | cons x xs ih => simp [Json.WFL, ih]

theorem Json.WFO_iff (fm : FloatModel) (kvs : List (String × Json)) :
    Json.WFO fm kvs = true ↔
      (∀ kv ∈ kvs, kv.2.WF fm = true) ∧ kvs.Pairwise (fun a b => a.1 ≠ b.1) := by
  induction kvs with
  | nil => simp [Json.WFO]
  | cons kv kvs ih =>
    obtain ⟨k, v⟩ := kv
    simp only [Json.WFO, Bool.and_eq_true, ih, List.mem_cons, forall_eq_or_imp,
      List.pairwise_cons, Bool.not_eq_true', List.any_eq_false, beq_iff_eq]
    constructor
    · rintro ⟨⟨h1, h2, h3⟩, h4⟩
      exact ⟨⟨h1, h2⟩, fun x hx e => h4 x hx e.symm, h3⟩
    · rintro ⟨⟨h1, h2⟩, h4, h3⟩
      exact ⟨⟨h1, h2, h3⟩, fun x hx e => h4 x hx e.symm⟩

theorem jsonToDML_eq (xs : List Json) : jsonToDML xs = xs.map jsonToDM := by
  induction xs with
  | nil => simp [jsonToDML]
  | cons x xs ih => simp [jsonToDML, ih]

theorem jsonToDMO_eq (kvs : List (String × Json)) :
    jsonToDMO kvs = kvs.map (fun kv => (DM.text kv.1, jsonToDM kv.2)) := by
  induction kvs with
  | nil => simp [jsonToDMO]
  | cons kv kvs ih => obtain ⟨k, v⟩ := kv; simp [jsonToDMO, ih]

theorem readBackL_map (fm : FloatModel) {α : Type} (f : α → DM) (g : α → FieldValue) (xs : List α)
    (h : ∀ x ∈ xs, readBack fm (f x) = some (g x)) :
    readBackL fm (xs.map f) = some (xs.map g) := by
  induction xs with
  | nil => simp [readBackL]
  | cons x xs ih =>
    simp [readBackL, h x (by simp), ih (fun y hy => h y (by simp [hy]))]

theorem readBackM_text (fm : FloatModel) (kvs : List (String × Json))
    (hd : kvs.Pairwise (fun a b => a.1 ≠ b.1))
    (h : ∀ kv ∈ kvs, readBack fm (jsonToDM kv.2) = some (jshape kv.2)) :
    readBackM fm (kvs.map (fun kv => (DM.text kv.1, jsonToDM kv.2))) =
      some (kvs.map (fun kv => (FieldKey.text kv.1, jshape kv.2))) := by
  induction kvs with
  | nil => simp [readBackM]
  | cons kv kvs ih =>
    obtain ⟨k, v⟩ := kv
    rw [List.pairwise_cons] at hd
    have h4 := ih hd.2 (fun x hx => h x (by simp [hx]))
    have h2 := h (k, v) (by simp)
    have hnodup : (kvs.map (fun kv => (FieldKey.text kv.1, jshape kv.2))).any (fun kv => kv.1 == FieldKey.text k) = false := by
      rw [List.any_eq_false]
      intro x hx
      rw [List.mem_map] at hx
      obtain ⟨y, hy, rfl⟩ := hx
      have := hd.1 y hy
      simp only [beq_iff_eq, FieldKey.text.injEq]
      exact fun e => this e.symm
    simp only at h2
    simp [readBackM, readKey, h2, h4, hnodup]

theorem readBack_json (fm : FloatModel) : ∀ j : Json, j.WF fm = true →
    readBack fm (jsonToDM j) = some (jshape j) := by
  intro j
  induction j using Json.ind with
  | hnull => intro _; simp [jsonToDM, readBack, jshape]
  | hbool b => intro _; simp [jsonToDM, readBack, jshape]
  | huint n =>
    intro h
    simp only [Json.WF, decide_eq_true_eq] at h
    have h' : (n : Int) ≤ (u64Max : Int) := by exact_mod_cast h
    simp [jsonToDM, readBack, jshape, h']
  | hnint i =>
    intro h
    simp only [Json.WF, Bool.and_eq_true, decide_eq_true_eq] at h
    have : ¬ (0 ≤ i) := by omega
    simp [jsonToDM, readBack, jshape, this, h.1]
  | hfloat d =>
    intro h
    simp only [Json.WF, Bool.and_eq_true, Bool.not_eq_true'] at h
    simp [jsonToDM, readBack, jshape, h.2]
  | hstr s => intro _; simp [jsonToDM, readBack, jshape]
  | harr xs ih =>
    intro h
    simp only [Json.WF, Json.WFL_iff] at h
    have := readBackL_map fm jsonToDM jshape xs (fun x hx => ih x hx (h x hx))
    simp [jsonToDM, readBack, jshape, jsonToDML_eq, jshapeL_eq, this]
  | hobj kvs ih =>
    intro h
    simp only [Json.WF, Json.WFO_iff] at h
    have := readBackM_text fm kvs h.2 (fun kv hkv => ih kv hkv (h.1 kv hkv))
    simp [jsonToDM, readBack, jshape, jsonToDMO_eq, jshapeO_eq, this]

/-! ### the codec lemma -/

theorem readBackL_bits (fm : FloatModel) (bs : List Nat) (h : ∀ b ∈ bs, b ≤ u16Max) :
    readBackL fm (bs.map (fun (b : Nat) => DM.int (b : Int))) = some (bs.map FieldValue.u64) := by
  apply readBackL_map
  intro b hb
  have h1 := h b hb
  have : (b : Int) ≤ (u64Max : Int) := by
    have : b ≤ u64Max := Nat.le_trans h1 (by decide)
    exact_mod_cast this
  simp [readBack, this]

theorem codec (fm : FloatModel) (hfm : fm.Lawful) : ∀ v : FieldValue, v.WF fm = true → noNaN fm v = true →
    ∃ dm, toDM fm v = some dm ∧ readBack fm dm = some (generic fm v) := by
  intro v
  induction v using FieldValue.ind with
  | hbool b => intro _ _; exact ⟨.bool b, by simp [toDM], by simp [readBack, generic]⟩
  | hi64 i =>
    intro h _
    simp only [FieldValue.WF, Bool.and_eq_true, decide_eq_true_eq] at h
    obtain ⟨hlo, hhi⟩ := h
    refine ⟨.int i, by simp [toDM], ?_⟩
    by_cases h0 : 0 ≤ i
    · have : i ≤ (u64Max : Int) := by unfold i64Max at hhi; unfold u64Max; omega
      simp [readBack, generic, h0, this]
    · simp [readBack, generic, h0, hlo]
  | hu64 n =>
    intro h _
    simp only [FieldValue.WF, decide_eq_true_eq] at h
    have h' : (n : Int) ≤ (u64Max : Int) := by exact_mod_cast h
    exact ⟨.int n, by simp [toDM], by simp [readBack, generic, h']⟩
  | hf64 d =>
    intro _ h
    simp only [noNaN, Bool.not_eq_true'] at h
    exact ⟨.float d, by simp [toDM, h], by simp [readBack, generic, h]⟩
  | hf32 x =>
    intro _ h
    simp only [noNaN, Bool.not_eq_true'] at h
    exact ⟨.float (fm.widen x), by simp [toDM, h], by simp [readBack, generic, hfm.widen_not_nan x h]⟩
  | hbytes b => intro _ _; exact ⟨.bytes b, by simp [toDM], by simp [readBack, generic]⟩
  | htext s => intro _ _; exact ⟨.text s, by simp [toDM], by simp [readBack, generic]⟩
  | hjson j =>
    intro h _
    simp only [FieldValue.WF] at h
    exact ⟨jsonToDM j, by simp [toDM], by simp [generic, readBack_json fm j h]⟩
  | hvector bs =>
    intro h _
    simp only [FieldValue.WF, List.all_eq_true, decide_eq_true_eq] at h
    refine ⟨.array (bs.map (fun (b : Nat) => DM.int (b : Int))), by simp [toDM], ?_⟩
    simp [readBack, generic, readBackL_bits fm bs h]
  | harray vs ih =>
    intro h hn
    simp only [FieldValue.WF, WFL_iff] at h
    simp only [noNaN, noNaNL_iff] at hn
    obtain ⟨xs, h1, h2⟩ := codecL fm vs (fun v hv => ih v hv (h v hv) (hn v hv))
    exact ⟨.array xs, by simp [toDM, h1], by simp [readBack, generic, genericL_eq, h2]⟩
  | hmap kvs ih =>
    intro h hn
    simp only [FieldValue.WF, WFM_iff] at h
    simp only [noNaN, noNaNM_iff] at hn
    obtain ⟨xs, h1, h2⟩ := codecM fm kvs h.1 h.2.2 (fun kv hkv => ih kv hkv (h.2.1 kv hkv) (hn kv hkv))
    exact ⟨.map xs, by simp [toDM, h1], by simp [readBack, generic, genericM_eq, h2]⟩
  | hnull => intro _ _; exact ⟨.null, by simp [toDM], by simp [readBack, generic]⟩

end AndaVerif.Schema
