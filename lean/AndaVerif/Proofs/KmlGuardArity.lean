import AndaVerif.Proofs.KmlGuardBasic
/-
C16 helper lemmas, part 6: update-expression arity (`validate_update_expr`).
-/
namespace AndaVerif.KmlGuard

mutual
theorem UpdateExpr.validate_arityOk : ∀ e : UpdateExpr, e.validate = .ok () → e.arityOk = true
  | .var _, _ => by simp [UpdateExpr.arityOk]
  | .num _, _ => by simp [UpdateExpr.arityOk]
  | .param _, _ => by simp [UpdateExpr.arityOk]
  | .func f args, h => by
    simp only [UpdateExpr.validate] at h
    split at h
    · cases h
    · rename_i hl
      have hl' : args.length = f.arity := by simpa using hl
      simp [UpdateExpr.arityOk, hl', ExprList.validate_arityOk args h]
theorem ExprList.validate_arityOk : ∀ l : ExprList, l.validate = .ok () → l.arityOk = true
  | .nil, _ => by simp [ExprList.arityOk]
  | .cons e t, h => by
    simp only [ExprList.validate] at h
    split at h
    · cases h
    · rename_i u he
      cases u
      simp [ExprList.arityOk, UpdateExpr.validate_arityOk e he, ExprList.validate_arityOk t h]
end

theorem MutationValue.validate_arityOk {v : MutationValue} (h : v.validate = .ok ()) : v.arityOk = true := by
  cases v <;> simp [MutationValue.arityOk]
  rename_i e
  exact UpdateExpr.validate_arityOk e (by simpa [MutationValue.validate] using h)

theorem validateValues_arity : ∀ a : Assignments, validateValues a = .ok () → ∀ v ∈ assignValues a, v.arityOk = true := by
  intro a
  induction a with
  | nil => intro _ v hv; simp [assignValues] at hv
  | cons kv rest ih =>
    obtain ⟨k, w⟩ := kv
    intro h v hv
    unfold validateValues at h
    split at h
    · cases h
    · rename_i u hw
      cases u
      simp only [assignValues, List.map_cons, List.mem_cons] at hv
      rcases hv with rfl | hv
      · exact MutationValue.validate_arityOk hw
      · exact ih h v (by simpa [assignValues] using hv)

theorem checkAssignments_arity {a : Assignments} (h : checkAssignments a = .ok ()) : ∀ v ∈ assignValues a, v.arityOk = true :=
  validateValues_arity a (checkAssignments_split h).2

theorem checkOptAssignments_arity {o : Option Assignments} (h : checkOptAssignments o = .ok ()) :
    ∀ v ∈ optAssignValues o, v.arityOk = true := by
  cases o with
  | none => intro v hv; simp [optAssignValues] at hv
  | some a => exact checkAssignments_arity h

theorem checkFacets_arity : ∀ fs : List FacetAssignment, checkFacets fs = .ok () → ∀ v ∈ facetValues fs, v.arityOk = true := by
  intro fs
  induction fs with
  | nil => intro _ v hv; simp [facetValues] at hv
  | cons f rest ih =>
    intro h v hv
    unfold checkFacets at h
    split at h
    · cases h
    · rename_i u hf
      cases u
      simp only [facetValues, List.flatMap_cons, List.mem_append] at hv
      rcases hv with hv | hv
      · exact checkAssignments_arity hf v hv
      · exact ih h v (by simpa [facetValues] using hv)

theorem validateStructuralEdges_arity : ∀ es : List StructuralEdge, validateStructuralEdges es = .ok () →
    ∀ e ∈ es, e.value.arityOk = true := by
  intro es
  induction es with
  | nil => intro _ e he; cases he
  | cons x xs ih =>
    intro h e he
    unfold validateStructuralEdges at h
    split at h
    · cases h
    · rename_i u hx
      cases u
      rcases List.mem_cons.mp he with rfl | he
      · exact MutationValue.validate_arityOk hx
      · exact ih h e he

theorem validateRemovalValues_arity : ∀ rs : List StructuralRemoval, validateRemovalValues rs = .ok () →
    ∀ r ∈ rs, r.value.arityOk = true := by
  intro rs
  induction rs with
  | nil => intro _ r hr; cases hr
  | cons x xs ih =>
    intro h r hr
    unfold validateRemovalValues at h
    split at h
    · cases h
    · rename_i u hx
      cases u
      rcases List.mem_cons.mp hr with rfl | hr
      · exact MutationValue.validate_arityOk hx
      · exact ih h r hr

theorem checkOptEdges_arity {o : Option (List StructuralEdge)} (h : checkOptEdges o = .ok ()) :
    ∀ v ∈ optEdgeValues o, v.arityOk = true := by
  cases o with
  | none => intro v hv; simp [optEdgeValues] at hv
  | some es =>
    intro v hv
    simp only [optEdgeValues, List.mem_map] at hv
    obtain ⟨e, he, rfl⟩ := hv
    exact validateStructuralEdges_arity es h e he

theorem actionCheck_arity {a : UpdateAction} (h : actionCheck a = .ok ()) : ∀ v ∈ a.values, v.arityOk = true := by
  intro v hv
  cases a with
  | setFields asg => exact checkAssignments_arity (by simpa [actionCheck] using h) v (by simpa [UpdateAction.values] using hv)
  | setAttributes asg => exact checkAssignments_arity (by simpa [actionCheck] using h) v (by simpa [UpdateAction.values] using hv)
  | setFacet f => exact checkAssignments_arity (by simpa [actionCheck] using h) v (by simpa [UpdateAction.values] using hv)
  | unsetAttributes _ => simp [UpdateAction.values] at hv
  | unsetFacet _ => simp [UpdateAction.values] at hv
  | setStructural es =>
    simp only [UpdateAction.values, List.mem_map] at hv
    obtain ⟨e, he, rfl⟩ := hv
    exact validateStructuralEdges_arity es (by simpa [actionCheck] using h) e he
  | unsetStructural rs =>
    simp only [UpdateAction.values, List.mem_map] at hv
    obtain ⟨r, hr, rfl⟩ := hv
    simp only [actionCheck] at h
    split at h
    · cases h
    · exact validateRemovalValues_arity rs h r hr

theorem validateRecordCreate_arity {c : RecordCreate} (h : validateRecordCreate c = .ok ()) :
    ∀ v ∈ optAssignValues c.setFields ++ facetValues c.setFacets ++ optEdgeValues c.setStructural, v.arityOk = true := by
  simp only [validateRecordCreate, andThen_ok] at h
  intro v hv
  simp only [List.mem_append] at hv
  rcases hv with (hv | hv) | hv
  · exact checkOptAssignments_arity h.1 v hv
  · exact checkFacets_arity _ h.2.1 v hv
  · exact checkOptEdges_arity h.2.2 v hv

theorem validateClauseBody_arity {c : MutationClause} (h : validateClauseBody c = .ok ()) :
    ∀ v ∈ arityCheckedValuesOf c, v.arityOk = true := by
  intro v hv
  cases c with
  | createConcept c =>
    simp only [validateClauseBody, andThen_ok] at h
    simp only [arityCheckedValuesOf, valuesOf, List.mem_append] at hv
    rcases hv with ((hv | hv) | hv) | hv
    · exact checkOptAssignments_arity h.1 v hv
    · exact checkOptAssignments_arity h.2.1 v hv
    · exact checkFacets_arity _ h.2.2.1 v hv
    · exact checkOptEdges_arity h.2.2.2 v hv
  | upsertConcept c =>
    simp only [validateClauseBody] at h
    have hp := validateUpsert_parts h
    simp only [arityCheckedValuesOf, List.mem_append] at hv
    rcases hv with ((hv | hv) | hv) | hv
    · exact checkOptAssignments_arity hp.1 v hv
    · exact checkOptAssignments_arity hp.2.1 v hv
    · exact checkFacets_arity _ hp.2.2.1 v hv
    · exact checkOptEdges_arity hp.2.2.2.2.2 v hv
  | createEvidence c => exact validateRecordCreate_arity (by simpa [validateClauseBody] using h) v (by simpa [arityCheckedValuesOf, valuesOf] using hv)
  | createAssertion c => exact validateRecordCreate_arity (by simpa [validateClauseBody] using h) v (by simpa [arityCheckedValuesOf, valuesOf] using hv)
  | createActivity c => exact validateRecordCreate_arity (by simpa [validateClauseBody] using h) v (by simpa [arityCheckedValuesOf, valuesOf] using hv)
  | update c =>
    simp only [validateClauseBody, validateUpdate, andThen_ok] at h
    simp only [arityCheckedValuesOf, valuesOf] at hv
    obtain ⟨a, ha, hva⟩ := List.mem_flatMap.mp hv
    exact actionCheck_arity (validateActions_all _ h.1 a ha) v hva
  | transitionActivity c =>
    simp only [validateClauseBody, andThen_ok] at h
    simp only [arityCheckedValuesOf, valuesOf, List.mem_append] at hv
    rcases hv with hv | hv
    · exact checkOptAssignments_arity h.1 v hv
    · exact checkOptEdges_arity h.2 v hv
  | setRetention c =>
    simp only [validateClauseBody] at h
    exact checkAssignments_arity h v (by simpa [arityCheckedValuesOf, valuesOf] using hv)
  | ensureProposition c => simp [arityCheckedValuesOf, valuesOf] at hv
  | retractAssertion c => simp [arityCheckedValuesOf, valuesOf] at hv
  | supersedeAssertion c => simp [arityCheckedValuesOf, valuesOf] at hv
  | correctEvidence c => simp [arityCheckedValuesOf, valuesOf] at hv
  | archive c => simp [arityCheckedValuesOf, valuesOf] at hv
  | tombstone c => simp [arityCheckedValuesOf, valuesOf] at hv
  | purge c => simp [arityCheckedValuesOf, valuesOf] at hv
  | mergeConcept c => simp [arityCheckedValuesOf, valuesOf] at hv

end AndaVerif.KmlGuard
