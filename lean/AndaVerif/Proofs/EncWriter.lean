/-
C09: the hypotheses of `tamper_detected` are met by what the model's writer does (`put_opts`), and the
writer's output depends on the plaintext only through its length and the AEAD outputs.
-/
import AndaVerif.Proofs.EncTamper

namespace AndaVerif.Enc
open AndaVerif.Gen.EncAad

/-- The seal calls `put_opts` makes for the chunks, starting at chunk index `i`. -/
def chunkRecs (A : AEAD) (base : Bytes) (c : Nat) : Nat → List Bytes → List SealRec
  | _, [] => []
  | i, ch :: rest =>
    ⟨deriveNonceBytes base i, chunkAad c i, ch,
      (A.enc (deriveNonceBytes base i) (chunkAad c i) ch).1,
      (A.enc (deriveNonceBytes base i) (chunkAad c i) ch).2⟩ :: chunkRecs A base c (i + 1) rest

/-- All seal calls of one `put_opts`: the chunks, then the metadata seal. -/
def putRecs (A : AEAD) (c : Nat) (loc plain : Bytes) (f : Fresh) : List SealRec :=
  let doc := (writeObject A c loc plain f).2
  chunkRecs A f.baseNonce c 0 (chunks c plain) ++
    [⟨f.authNonce, metaAad loc doc, [], (A.enc f.authNonce (metaAad loc doc) []).1,
      (A.enc f.authNonce (metaAad loc doc) []).2⟩]

def putCommit (A : AEAD) (c : Nat) (loc plain : Bytes) (f : Fresh) : Commit :=
  ⟨loc, plain, c, (writeObject A c loc plain f).2⟩

theorem sealChunks_length (A : AEAD) (base : Bytes) (c : Nat) : ∀ (i : Nat) (chs : List Bytes),
    (sealChunks A base c i chs).length = chs.length
  | _, [] => rfl
  | i, _ :: rest => by simp [sealChunks, sealChunks_length A base c (i + 1) rest]

theorem chunkRecs_aad (A : AEAD) (base : Bytes) (c : Nat) : ∀ (i : Nat) (chs : List Bytes),
    ∀ r ∈ chunkRecs A base c i chs, ∃ j, r.aad = chunkAad c j
  | _, [], r, h => by simp [chunkRecs] at h
  | i, ch :: rest, r, h => by
    simp only [chunkRecs, List.mem_cons] at h
    rcases h with h | h
    · exact ⟨i, by rw [h]⟩
    · exact chunkRecs_aad A base c (i + 1) rest r h

theorem chunkRecs_sealed (A : AEAD) (base : Bytes) (c : Nat) : ∀ (i : Nat) (chs : List Bytes) (j : Nat) (ch : Bytes),
    chs[j]? = some ch → ∃ r ∈ chunkRecs A base c i chs, r.nonce = deriveNonceBytes base (i + j) ∧ r.pt = ch
  | _, [], j, ch, h => by simp at h
  | i, c0 :: rest, 0, ch, h => by
    simp only [List.getElem?_cons_zero, Option.some.injEq] at h
    exact ⟨_, List.mem_cons_self, by simp, h⟩
  | i, c0 :: rest, j + 1, ch, h => by
    simp only [List.getElem?_cons_succ] at h
    obtain ⟨r, hr, h1, h2⟩ := chunkRecs_sealed A base c (i + 1) rest j ch h
    refine ⟨r, List.mem_cons_of_mem _ hr, ?_, h2⟩
    rw [h1]; congr 1; omega

theorem chunksAux_length_le (c : Nat) : ∀ (fuel : Nat) (d : Bytes), (chunksAux c fuel d).length ≤ fuel
  | 0, _ => by simp [chunksAux]
  | fuel + 1, [] => by simp [chunksAux]
  | fuel + 1, b :: d => by
    simp only [chunksAux, List.length_cons]
    have := chunksAux_length_le c fuel ((b :: d).drop c)
    omega

/-- The AAD does not mention the seal itself. -/
theorem metaAad_sealMeta (A : AEAD) (loc loc' an : Bytes) (m : Meta) :
    metaAad loc' (sealMeta A loc an m) = metaAad loc' m := by
  rw [metaAad_eq, metaAad_eq]; rfl

/-- One `put_opts` produces an honest history for its commit. -/
theorem put_honest' (A : AEAD) (c : Nat) (loc plain : Bytes) (f : Fresh)
    (hc : 1 ≤ c) (hc' : c ≤ U64MAX)
    (hloc : loc.length < U64) (hplain : plain.length < U64) (hetag : f.eTag.length < U64)
    (hbase : f.baseNonce.length < U64) (hgen : f.generation.length < U64) (hts : f.committedAtMs < U64)
    (htag : ∀ n a p, (A.enc n a p).2.length < U64) :
    Honest (putRecs A c loc plain f) [putCommit A c loc plain f] := by
  have hdoc : (putCommit A c loc plain f).doc = (writeObject A c loc plain f).2 := rfl
  refine ⟨?_, ?_, ?_, ?_, ?_, ?_, ?_⟩
  · intro r hr
    simp only [putRecs, List.mem_append, List.mem_singleton] at hr
    rcases hr with hr | hr
    · obtain ⟨j, hj⟩ := chunkRecs_aad A _ c 0 _ r hr
      exact Or.inr ⟨c, j, hj⟩
    · exact Or.inl ⟨_, List.mem_singleton.mpr rfl, by rw [hr]; rfl⟩
  · intro k hk
    rw [List.mem_singleton.mp hk]
    have hn : (chunks c plain).length < U64 :=
      Nat.lt_of_le_of_lt (chunksAux_length_le c plain.length plain) hplain
    have htags : ∀ (i : Nat) (chs : List Bytes), ∀ y ∈ sealChunks A f.baseNonce c i chs, y.2.length < U64 := by
      intro i chs
      induction chs generalizing i with
      | nil => intro y hy; simp [sealChunks] at hy
      | cons ch rest ih =>
        intro y hy
        simp only [sealChunks, List.mem_cons] at hy
        rcases hy with hy | hy
        · rw [hy]; exact htag _ _ _
        · exact ih (i + 1) y hy
    have hcu : c < U64 := by unfold U64MAX at hc'; unfold U64; omega
    simp [putCommit, writeObject, sealMeta, Meta.fits, optFits, optNatFits, sealChunks_length,
      hloc, hplain, hetag, hbase, hgen, hts, hn, hcu]
    intro a b hab
    exact htags 0 _ (a, b) hab
  · intro k hk; rw [List.mem_singleton.mp hk]; rfl
  · intro k hk; rw [List.mem_singleton.mp hk]; exact ⟨rfl, hc, hc'⟩
  · intro k hk; rw [List.mem_singleton.mp hk]; rfl
  · intro k hk; rw [List.mem_singleton.mp hk]
    simp [putCommit, writeObject, sealMeta, sealChunks_length]
  · intro k hk i ch hch
    rw [List.mem_singleton.mp hk] at hch ⊢
    obtain ⟨r, hr, h1, h2⟩ := chunkRecs_sealed A f.baseNonce c 0 (chunks c plain) i ch hch
    refine ⟨r, ?_, ?_, h2⟩
    · simp only [putRecs, List.mem_append]; exact Or.inl hr
    · rw [h1]; simp [putCommit, writeObject, sealMeta]

def mkChunkRec (A : AEAD) (base : Bytes) (c i : Nat) (ch : Bytes) : SealRec :=
  ⟨deriveNonceBytes base i, chunkAad c i, ch,
    (A.enc (deriveNonceBytes base i) (chunkAad c i) ch).1,
    (A.enc (deriveNonceBytes base i) (chunkAad c i) ch).2⟩

theorem chunkRecs_mem (A : AEAD) (base : Bytes) (c : Nat) : ∀ (i : Nat) (chs : List Bytes) (r : SealRec),
    r ∈ chunkRecs A base c i chs → ∃ j ch, chs[j]? = some ch ∧ r = mkChunkRec A base c (i + j) ch
  | _, [], r, h => by simp [chunkRecs] at h
  | i, c0 :: rest, r, h => by
    simp only [chunkRecs, List.mem_cons] at h
    rcases h with h | h
    · exact ⟨0, c0, by simp, by rw [h]; rfl⟩
    · obtain ⟨j, ch, h1, h2⟩ := chunkRecs_mem A base c (i + 1) rest r h
      refine ⟨j + 1, ch, by simpa using h1, ?_⟩
      rw [h2]; congr 1; omega

/-- One `put_opts` is nonce-respecting as soon as its fresh metadata nonce is none of its chunk nonces:
inside the object, distinct chunks never share a nonce (`deriveNonceBytes_inj`). -/
theorem put_nonceRespecting' (A : AEAD) (c : Nat) (loc plain : Bytes) (f : Fresh)
    (hplain : plain.length < U64)
    (hauth : ∀ i, i < (chunks c plain).length → deriveNonceBytes f.baseNonce i ≠ f.authNonce) :
    NonceRespecting (putRecs A c loc plain f) := by
  have hn : (chunks c plain).length < U64 :=
    Nat.lt_of_le_of_lt (chunksAux_length_le c plain.length plain) hplain
  intro r1 h1 r2 h2 hnonce
  simp only [putRecs, List.mem_append, List.mem_singleton] at h1 h2
  rcases h1 with h1 | h1 <;> rcases h2 with h2 | h2
  · obtain ⟨j1, ch1, g1, e1⟩ := chunkRecs_mem A _ c 0 _ r1 h1
    obtain ⟨j2, ch2, g2, e2⟩ := chunkRecs_mem A _ c 0 _ r2 h2
    have b1 : j1 < (chunks c plain).length := (List.getElem?_eq_some_iff.mp g1).1
    have b2 : j2 < (chunks c plain).length := (List.getElem?_eq_some_iff.mp g2).1
    rw [e1, e2] at hnonce
    simp only [mkChunkRec, Nat.zero_add] at hnonce
    have : j1 = j2 := deriveNonceBytes_inj _ (by omega) (by omega) hnonce
    subst this
    rw [g1] at g2
    injection g2 with g2
    rw [e1, e2, g2]
  · exfalso
    obtain ⟨j1, ch1, g1, e1⟩ := chunkRecs_mem A _ c 0 _ r1 h1
    have b1 : j1 < (chunks c plain).length := (List.getElem?_eq_some_iff.mp g1).1
    rw [e1, h2] at hnonce
    simp only [mkChunkRec, Nat.zero_add] at hnonce
    exact hauth j1 b1 hnonce
  · exfalso
    obtain ⟨j2, ch2, g2, e2⟩ := chunkRecs_mem A _ c 0 _ r2 h2
    have b2 : j2 < (chunks c plain).length := (List.getElem?_eq_some_iff.mp g2).1
    rw [e2, h1] at hnonce
    simp only [mkChunkRec, Nat.zero_add] at hnonce
    exact hauth j2 b2 hnonce.symm
  · rw [h1, h2]

/-- What `put_opts` hands to the backend depends on the plaintext only through its length and through
what the AEAD returned for the chunks: two plaintexts of equal length whose chunks seal to the same
(ciphertext, tag) pairs produce byte-identical backend objects. -/
theorem writes_hide_plaintext' (A : AEAD) (c : Nat) (loc P P' : Bytes) (f : Fresh)
    (hlen : P.length = P'.length)
    (hseal : sealChunks A f.baseNonce c 0 (chunks c P) = sealChunks A f.baseNonce c 0 (chunks c P')) :
    writeObject A c loc P f = writeObject A c loc P' f := by
  unfold writeObject
  simp only [hlen, hseal]

end AndaVerif.Enc
