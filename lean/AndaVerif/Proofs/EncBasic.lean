/-
Helper lemmas for C09: little-endian encoders are injective and self-delimiting; nonce derivation.
-/
import AndaVerif.Model.Enc

namespace AndaVerif.Enc
open AndaVerif.Gen.EncAad

/-! ## `le64` / `le32` -/

@[simp] theorem le64_length (n : Nat) : (le64 n).length = 8 := rfl
@[simp] theorem le32_length (n : Nat) : (le32 n).length = 4 := rfl

theorem le64_inj {a b : Nat} (ha : a < U64) (hb : b < U64) (h : le64 a = le64 b) : a = b := by
  simp [le64] at h; unfold U64 at *; omega

theorem le32_inj {a b : Nat} (ha : a < 4294967296) (hb : b < 4294967296) (h : le32 a = le32 b) : a = b := by
  simp [le32] at h; omega

/-- A `u64` prefix can be split off unambiguously. -/
theorem le64_append_inj {a b : Nat} {x y : Bytes} (ha : a < U64) (hb : b < U64)
    (h : le64 a ++ x = le64 b ++ y) : a = b ∧ x = y := by
  have := List.append_inj h (by simp)
  exact ⟨le64_inj ha hb this.1, this.2⟩

/-! ## Nonce derivation -/

/-- No two chunk indices of one object share a nonce — for *all* 64-bit indices, wrap-around included. -/
theorem deriveNonce_inj (b : BitVec 96) (i j : BitVec 64) (h : deriveNonce b i = deriveNonce b j) : i = j := by
  unfold deriveNonce at h
  have h2 := congrArg (fun v => BitVec.extractLsb' 0 64 v) h
  simp only [BitVec.extractLsb'_append_eq_right] at h2
  exact (BitVec.add_right_inj _).mp h2

/-- The salt (high 32 bits) is kept. -/
theorem deriveNonce_salt (b : BitVec 96) (i : BitVec 64) :
    (deriveNonce b i).extractLsb' 64 32 = b.extractLsb' 64 32 := by
  unfold deriveNonce
  exact BitVec.extractLsb'_append_eq_left

/-- The counter (low 64 bits) is the base counter plus the index, modulo `2^64`. -/
theorem deriveNonce_ctr (b : BitVec 96) (i : BitVec 64) :
    (deriveNonce b i).extractLsb' 0 64 = b.extractLsb' 0 64 + i := by
  unfold deriveNonce
  exact BitVec.extractLsb'_append_eq_right

theorem nonceToBytes_inj (a b : BitVec 96) (h : nonceToBytes a = nonceToBytes b) : a = b := by
  unfold nonceToBytes at h
  have h1 := List.append_inj h (by simp)
  have hs := le32_inj (BitVec.isLt _) (BitVec.isLt _) h1.1
  have hc := le64_inj (by unfold U64; exact BitVec.isLt _) (by unfold U64; exact BitVec.isLt _) h1.2
  have hs' := BitVec.eq_of_toNat_eq hs
  have hc' := BitVec.eq_of_toNat_eq hc
  have split : ∀ x : BitVec 96, x = x.extractLsb' 64 32 ++ x.extractLsb' 0 64 := by
    intro x
    have := BitVec.extractLsb'_append_extractLsb'_eq_extractLsb' (x := x) (start₂ := 64) (start₁ := 0)
      (len₁ := 64) (len₂ := 32) (by omega)
    rw [this]; simp
  rw [split a, split b, hs', hc']

/-- On bytes: distinct chunk indices below `2^64` give distinct 12-byte nonces. -/
theorem deriveNonceBytes_inj (base : Bytes) {i j : Nat} (hi : i < U64) (hj : j < U64)
    (h : deriveNonceBytes base i = deriveNonceBytes base j) : i = j := by
  unfold deriveNonceBytes at h
  have := deriveNonce_inj _ _ _ (nonceToBytes_inj _ _ h)
  have := congrArg BitVec.toNat this
  simp only [BitVec.toNat_ofNat] at this
  unfold U64 at hi hj
  omega

@[simp] theorem deriveNonceBytes_length (base : Bytes) (i : Nat) : (deriveNonceBytes base i).length = 12 := by
  simp [deriveNonceBytes, nonceToBytes]

end AndaVerif.Enc
