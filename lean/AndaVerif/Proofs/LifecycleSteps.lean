import AndaVerif.Proofs.Lifecycle
/-
C06 — step-level facts used by the property theorems: which steps write, that the model's lifecycle
edges are edges of the table regenerated from the source, what happens to a thread that is not yet
admitted while the handle refuses admission.
-/
namespace AndaVerif.Lifecycle
open AndaVerif.Gen

/-- `(a, b)` is a `compare_exchange` / `store` edge of the generated table -/
def edgeIn (a b : L) : Bool := Lifecycle.edges.any (fun e => e.2.1 == a.code && e.2.2 == b.code)

theorem edgeIn_not_active (a : L) : edgeIn a .active = false := by
  cases a <;> decide

theorem poison_edge (l : L) : poisonL l = l ∨ edgeIn l (poisonL l) = true := by
  cases l <;> simp [poisonL] <;> decide

set_option maxHeartbeats 1000000 in
/-- every lifecycle change of the model is an edge of the generated table -/
theorem stepT_edge {i : Nat} {s s' : Shared} {t t' : Thread}
    (h : stepT i s t = some (s', t')) : s'.lc = s.lc ∨ edgeIn s.lc s'.lc = true := by
  unfold stepT at h
  split at h
  all_goals (repeat' split at h)
  all_goals (try (simp at h; done))
  all_goals (simp only [Option.some.injEq, Prod.mk.injEq] at h; obtain ⟨rfl, rfl⟩ := h)
  all_goals (try (left; simp [Shared.release, Shared.putObj, Shared.delObj]; done))
  all_goals (try (exact poison_edge s.lc))
  all_goals (cases hl : s.lc <;> simp_all <;> decide)

theorem cancelT_edge (i : Nat) (s : Shared) (t : Thread) :
    (cancelT i s t).1.lc = s.lc ∨ edgeIn s.lc (cancelT i s t).1.lc = true := by
  unfold cancelT
  split
  · left; rfl
  · left; rfl
  · by_cases ha : t.armed = true
    · simpa [ha, Shared.release] using poison_edge s.lc
    · left; simp [ha, Shared.release]

theorem apply_edge (c : Cfg) (e : Ev) : (c.apply e).s.lc = c.s.lc ∨ edgeIn c.s.lc (c.apply e).s.lc = true := by
  cases e with
  | spawn k b => left; rfl
  | step i =>
    simp only [Cfg.apply]
    cases hget : c.ts[i]? with
    | none => left; rfl
    | some t =>
      simp only
      cases hst : stepT i c.s t with
      | none => left; rfl
      | some p => exact stepT_edge hst
  | cancel i =>
    simp only [Cfg.apply]
    cases hget : c.ts[i]? with
    | none => left; rfl
    | some t => exact cancelT_edge i c.s t

/-- the lifecycle never returns to ACTIVE (consequence of `gen_no_edge_to_active`) -/
theorem apply_active (c : Cfg) (e : Ev) (h : (c.apply e).s.lc = .active) : c.s.lc = .active := by
  rcases apply_edge c e with h' | h'
  · rw [← h', h]
  · rw [h, edgeIn_not_active] at h'; exact absurd h' (by simp)

theorem run_active (c : Cfg) (evs : List Ev) (h : (c.run evs).s.lc = .active) : c.s.lc = .active := by
  induction evs generalizing c with
  | nil => exact h
  | cons e es ih => exact apply_active c e (ih (c.apply e) h)

/-! ### which steps write -/

/-- the step changed what is stored, or logged a mutation -/
def wrote (s s' : Shared) : Prop := s'.store ≠ s.store ∨ s'.log ≠ s.log

set_option maxHeartbeats 1000000 in
theorem stepT_wrote {i : Nat} {s s' : Shared} {t t' : Thread}
    (h : stepT i s t = some (s', t')) (hw : wrote s s') :
    (t.armed = true ∧ t.bodyRegion = true ∧ (t.holdsExcl = true ∨ t.holdsShared = true)) ∨
    (t.dropRegion = true ∧ t.holdsExcl = true) := by
  unfold stepT at h
  split at h
  all_goals (repeat' split at h)
  all_goals (try (simp at h; done))
  all_goals (simp only [Option.some.injEq, Prod.mk.injEq] at h; obtain ⟨rfl, rfl⟩ := h)
  all_goals (try (exfalso; simp [wrote, Shared.release] at hw; done))
  all_goals (simp_all [Thread.armed, Thread.bodyRegion, Thread.dropRegion, Thread.holdsExcl, Thread.holdsShared])
  all_goals (cases t.excl <;> simp)

theorem cancelT_silent (i : Nat) (s : Shared) (t : Thread) :
    (cancelT i s t).1.store = s.store ∧ (cancelT i s t).1.log = s.log := by
  unfold cancelT
  split
  · exact ⟨rfl, rfl⟩
  · exact ⟨rfl, rfl⟩
  · by_cases ha : t.armed = true <;> simp [ha, Shared.release]

/-- a step appends at most one log entry, tagged with the stepping thread -/
theorem stepT_log {i : Nat} {s s' : Shared} {t t' : Thread}
    (h : stepT i s t = some (s', t')) : s'.log = s.log ∨ ∃ w, s'.log = (i, s.lc, w) :: s.log := by
  unfold stepT at h
  split at h
  all_goals (repeat' split at h)
  all_goals (try (simp at h; done))
  all_goals (simp only [Option.some.injEq, Prod.mk.injEq] at h; obtain ⟨rfl, rfl⟩ := h)
  all_goals (simp [Shared.release, Shared.putObj, Shared.delObj])

/-! ### threads that are not admitted while the handle refuses admission -/

/-- a guarded mutator that has not passed `ensure_mutable` (queued on the gate, or holding it and about to check) -/
def Thread.queued (t : Thread) : Bool :=
  match t.pc with
  | .mStart | .mLeased => true
  | _ => false

/-- … or that was turned away / dropped -/
def Thread.unadmitted (t : Thread) : Bool :=
  match t.pc with
  | .mStart | .mLeased | .done (.rejState _) | .done .rejRo | .dropped => true
  | _ => false

theorem ensureMutable_blocked {s : Shared} (h : s.blocked = true) :
    ∃ r, ensureMutable s = some r ∧ (r = .rejRo ∨ ∃ l, r = .rejState l) := by
  unfold ensureMutable
  by_cases h1 : s.lc = .active
  · have : (s.dbRo || s.ro) = true := by
      simp [Shared.blocked, h1] at h
      rcases h with h | h <;> simp [h]
    simp [h1, this]
  · simp [h1]

theorem stepT_unadmitted {i : Nat} {s s' : Shared} {t t' : Thread}
    (h : stepT i s t = some (s', t')) (hb : s.blocked = true) (hu : t.unadmitted = true) :
    t'.unadmitted = true ∧ s'.log = s.log ∧ s'.store = s.store := by
  unfold Thread.unadmitted at hu
  split at hu
  · -- mStart
    rename_i hpc
    unfold stepT at h
    simp only [hpc] at h
    split at h <;> split at h <;> simp at h <;> obtain ⟨rfl, rfl⟩ := h <;> simp [Thread.unadmitted]
  · -- mLeased
    rename_i hpc
    obtain ⟨r, hr, hr'⟩ := ensureMutable_blocked hb
    unfold stepT at h
    simp only [hpc, hr] at h
    simp at h
    obtain ⟨rfl, rfl⟩ := h
    rcases hr' with rfl | ⟨l, rfl⟩ <;> simp [Thread.unadmitted, Shared.release]
  · rename_i hpc; unfold stepT at h; simp [hpc] at h
  · rename_i hpc; unfold stepT at h; simp [hpc] at h
  · rename_i hpc; unfold stepT at h; simp [hpc] at h
  · simp at hu

theorem cancelT_unadmitted (i : Nat) (s : Shared) (t : Thread) (hu : t.unadmitted = true) :
    (cancelT i s t).2.unadmitted = true := by
  unfold cancelT
  split
  · exact hu
  · exact hu
  · simp [Thread.unadmitted]

/-- the handle refuses admission in `c` and after every prefix of `evs` -/
def blockedAlong : Cfg → List Ev → Bool
  | c, [] => c.s.blocked
  | c, e :: es => c.s.blocked && blockedAlong (c.apply e) es

theorem apply_unadmitted {c : Cfg} {i : Nat} {t : Thread} (e : Ev)
    (hb : c.s.blocked = true) (hget : c.ts[i]? = some t) (hu : t.unadmitted = true) :
    ∃ t', (c.apply e).ts[i]? = some t' ∧ t'.unadmitted = true ∧
      writesBy i (c.apply e).s.log = writesBy i c.s.log := by
  have hi : i < c.ts.length := (List.getElem?_eq_some_iff.mp hget).1
  cases e with
  | spawn k b =>
    refine ⟨t, ?_, hu, rfl⟩
    simp only [Cfg.apply]
    rw [List.getElem?_append_left hi]; exact hget
  | step j =>
    simp only [Cfg.apply]
    cases hgj : c.ts[j]? with
    | none => exact ⟨t, hget, hu, rfl⟩
    | some u =>
      simp only
      cases hst : stepT j c.s u with
      | none => exact ⟨t, hget, hu, rfl⟩
      | some p =>
        obtain ⟨s', u'⟩ := p
        by_cases hji : j = i
        · subst hji
          rw [hget] at hgj; cases hgj
          obtain ⟨h1, h2, _⟩ := stepT_unadmitted hst hb hu
          exact ⟨u', by simp [List.getElem?_set_self hi], h1, by simp [h2]⟩
        · refine ⟨t, ?_, hu, ?_⟩
          · simp only; rw [List.getElem?_set_ne hji]; exact hget
          · rcases stepT_log hst with h | ⟨w, h⟩
            · simp [h]
            · simp only [h]; exact writesBy_cons_ne hji
  | cancel j =>
    simp only [Cfg.apply]
    cases hgj : c.ts[j]? with
    | none => exact ⟨t, hget, hu, rfl⟩
    | some u =>
      simp only
      by_cases hji : j = i
      · subst hji
        rw [hget] at hgj; cases hgj
        exact ⟨(cancelT j c.s t).2, by simp [List.getElem?_set_self hi], cancelT_unadmitted j c.s t hu,
          by rw [(cancelT_silent j c.s t).2]⟩
      · refine ⟨t, ?_, hu, ?_⟩
        · rw [List.getElem?_set_ne hji]; exact hget
        · rw [(cancelT_silent j c.s u).2]

theorem run_unadmitted {c : Cfg} {i : Nat} {t : Thread} (evs : List Ev)
    (hb : blockedAlong c evs = true) (hget : c.ts[i]? = some t) (hu : t.unadmitted = true) :
    ∃ t', (c.run evs).ts[i]? = some t' ∧ t'.unadmitted = true ∧
      writesBy i (c.run evs).s.log = writesBy i c.s.log := by
  induction evs generalizing c t with
  | nil => exact ⟨t, hget, hu, rfl⟩
  | cons e es ih =>
    simp only [blockedAlong, Bool.and_eq_true] at hb
    obtain ⟨t1, hg1, hu1, hw1⟩ := apply_unadmitted e hb.1 hget hu
    obtain ⟨t2, hg2, hu2, hw2⟩ := ih hb.2 hg1 hu1
    exact ⟨t2, hg2, hu2, by rw [← hw1]; exact hw2⟩

/-- once the lifecycle has left ACTIVE the handle refuses admission forever -/
theorem blockedAlong_of_retired (c : Cfg) (evs : List Ev) (h : c.s.lc ≠ .active) : blockedAlong c evs = true := by
  induction evs generalizing c with
  | nil => simp [blockedAlong, Shared.blocked, h]
  | cons e es ih =>
    simp only [blockedAlong, Bool.and_eq_true]
    refine ⟨by simp [Shared.blocked, h], ih (c.apply e) ?_⟩
    intro h'; exact h (apply_active c e h')

/-! ### DELETED is final; cancellation; delete -/

theorem closeRegion_body {t : Thread} (h : t.closeRegion = true) : t.bodyRegion = true := by
  unfold Thread.closeRegion at h
  split at h <;> simp_all [Thread.bodyRegion]

theorem mutBody_body {t : Thread} (h : t.mutBody = true) : t.bodyRegion = true := by
  unfold Thread.mutBody at h
  split at h <;> simp_all [Thread.bodyRegion]

theorem armed_body {t : Thread} (h : t.armed = true) : t.bodyRegion = true := by
  unfold Thread.armed at h
  split at h <;> simp_all [Thread.bodyRegion]

/-- under `Inv`, a DELETED handle stays DELETED and its log does not grow, whatever happens next -/
theorem eff_deleted {i : Nat} {s s' : Shared} {t : Thread} (hti : TI s i t) (he : Eff i s s' t)
    (hd : s.lc = .deleted) : s'.lc = .deleted ∧ s'.log = s.log := by
  have hb := hti.retired (.inr hd)
  have hdr := hti.deleted hd
  constructor
  · rcases he.lcDel hd with h | h
    · exact h
    · rw [hb] at h; exact absurd h (by simp)
  · rcases he.log with h | ⟨_, h⟩ | ⟨_, h⟩ | ⟨_, h⟩
    · exact h
    · have := mutBody_body h; rw [hb] at this; exact absurd this (by simp)
    · have := closeRegion_body h; rw [hb] at this; exact absurd this (by simp)
    · rw [hdr] at h; exact absurd h (by simp)

theorem apply_deleted {c : Cfg} (hinv : Inv c) (hd : c.s.lc = .deleted) (e : Ev) :
    (c.apply e).s.lc = .deleted ∧ (c.apply e).s.log = c.s.log := by
  cases e with
  | spawn k b => exact ⟨hd, rfl⟩
  | step i =>
    simp only [Cfg.apply]
    cases hget : c.ts[i]? with
    | none => exact ⟨hd, rfl⟩
    | some t =>
      simp only
      cases hst : stepT i c.s t with
      | none => exact ⟨hd, rfl⟩
      | some p => exact eff_deleted (hinv.thr i t hget) (stepT_eff hst) hd
  | cancel i =>
    simp only [Cfg.apply]
    cases hget : c.ts[i]? with
    | none => exact ⟨hd, rfl⟩
    | some t => exact eff_deleted (hinv.thr i t hget) (cancelT_eff i c.s t) hd

theorem run_deleted {c : Cfg} (hinv : Inv c) (hd : c.s.lc = .deleted) (evs : List Ev) :
    (c.run evs).s.lc = .deleted ∧ (c.run evs).s.log = c.s.log ∧ (c.run evs).s.store = [] := by
  induction evs generalizing c with
  | nil => exact ⟨hd, rfl, hinv.delEmpty hd⟩
  | cons e es ih =>
    have h1 := apply_deleted hinv hd e
    have h2 := ih (inv_apply hinv e) h1.1
    exact ⟨h2.1, by rw [← h1.2]; exact h2.2.1, h2.2.2⟩

/-- every thread is before its body, armed inside it, a started `drop_data`, or past its body -/
theorem pc_cases (t : Thread) :
    t.preBody = true ∨ t.armed = true ∨ t.dropStarted = true ∨ t.postBody = true := by
  cases h : t.pc <;> simp [Thread.preBody, Thread.armed, Thread.dropStarted, Thread.postBody, h]

theorem cancelT_lc_armed {i : Nat} {s : Shared} {t : Thread} (ha : t.armed = true) :
    (cancelT i s t).1.lc = poisonL s.lc := by
  unfold Thread.armed at ha
  split at ha <;> simp_all [cancelT, Thread.armed, Shared.release]

theorem cancelT_lc_unarmed {i : Nat} {s : Shared} {t : Thread} (ha : t.armed = false) :
    (cancelT i s t).1.lc = s.lc := by
  unfold cancelT
  split <;> simp [ha, Shared.release]

theorem stepT_drop_ok {i : Nat} {s s' : Shared} {t t' : Thread}
    (h : stepT i s t = some (s', t')) (hti : TI s i t) (hd : t.dropStarted = true) (hok : t'.pc = .done .ok) :
    s'.lc = .deleted ∧ s'.store = s.store := by
  unfold Thread.dropStarted at hd
  split at hd
  all_goals (try (simp at hd; done))
  all_goals (rename_i hpc; unfold stepT at h; simp only [hpc] at h)
  all_goals (repeat' split at h)
  all_goals (try (simp at h; done))
  all_goals (simp only [Option.some.injEq, Prod.mk.injEq] at h; obtain ⟨rfl, rfl⟩ := h)
  all_goals (try (simp at hok; done))
  all_goals (simp_all [Shared.release])
  all_goals (first | exact hti.relDel (by assumption) | skip)

end AndaVerif.Lifecycle
