import AndaVerif.Proofs.TxCommit
/-
The version log reconstructs the present, and later statements only append rows at greater
sequences: the two facts behind `AS OF`.
-/
namespace AndaVerif.Tx
open AndaVerif.Gen.NexusOrder

/-! ## `element_at` -/

theorem elementAt_mem {log : List VEntry} {i : Id} {c : Nat} {b : VEntry} (h : elementAt log i c = some b) :
    b ∈ log ∧ b.id = i ∧ b.seq ≤ c := by
  induction log generalizing b with
  | nil => cases h
  | cons v r ih =>
      simp only [elementAt] at h
      split at h
      · rename_i hm
        split at h
        · cases h; exact ⟨List.mem_cons_self, hm.1, hm.2⟩
        · rename_i b' hb'
          split at h
          · cases h; exact ⟨List.mem_cons_self, hm.1, hm.2⟩
          · cases h
            have := ih hb'
            exact ⟨List.mem_cons_of_mem _ this.1, this.2⟩
      · have := ih h
        exact ⟨List.mem_cons_of_mem _ this.1, this.2⟩

/-- rows above the coordinate do not matter -/
theorem elementAt_skip_newer (extra old : List VEntry) (i : Id) (c : Nat) (h : ∀ v ∈ extra, c < v.seq) :
    elementAt (extra ++ old) i c = elementAt old i c := by
  induction extra with
  | nil => rfl
  | cons v r ih =>
      have hv : c < v.seq := h v List.mem_cons_self
      simp only [List.cons_append, elementAt]
      rw [if_neg (by intro hm; omega)]
      exact ih (fun w hw => h w (List.mem_cons_of_mem _ hw))

/-- rows of other elements do not matter -/
theorem elementAt_skip_other (extra old : List VEntry) (i : Id) (c : Nat) (h : ∀ v ∈ extra, v.id ≠ i) :
    elementAt (extra ++ old) i c = elementAt old i c := by
  induction extra with
  | nil => rfl
  | cons v r ih =>
      simp only [List.cons_append, elementAt]
      rw [if_neg (by intro hm; exact h v List.mem_cons_self hm.1)]
      exact ih (fun w hw => h w (List.mem_cons_of_mem _ hw))

/-- a coordinate at or above every row reads like the greatest sequence -/
theorem elementAt_coord (log : List VEntry) (i : Id) (a c : Nat) (h : ∀ v ∈ log, v.seq ≤ a) (hac : a ≤ c) :
    elementAt log i c = elementAt log i a := by
  induction log with
  | nil => rfl
  | cons v r ih =>
      have hv := h v List.mem_cons_self
      simp only [elementAt]
      rw [ih (fun w hw => h w (List.mem_cons_of_mem _ hw))]
      have : (v.id = i ∧ v.seq ≤ c) ↔ (v.id = i ∧ v.seq ≤ a) := by
        constructor <;> (intro hm; exact ⟨hm.1, by omega⟩)
      simp only [this]

/-- the rows one commit appended (one per element, all at sequence `q`, above everything older) -/
theorem elementAt_fresh (extra old : List VEntry) (q : Nat) (hq : ∀ v ∈ extra, v.seq = q) (hold : ∀ v ∈ old, v.seq < q)
    (hn : (extra.map (·.id)).Nodup) (v : VEntry) (hv : v ∈ extra) : elementAt (extra ++ old) v.id q = some v := by
  induction extra with
  | nil => cases hv
  | cons w r ih =>
      simp only [List.map_cons, List.nodup_cons] at hn
      rcases List.mem_cons.mp hv with h | h
      · subst h
        have hcond : v.id = v.id ∧ v.seq ≤ q := ⟨rfl, by rw [hq v List.mem_cons_self]; exact Nat.le_refl _⟩
        rw [List.cons_append, elementAt, if_pos hcond]
        have hskip : elementAt (r ++ old) v.id q = elementAt old v.id q :=
          elementAt_skip_other r old v.id q (fun u hu heq => hn.1 (List.mem_map.mpr ⟨u, hu, heq⟩))
        rw [hskip]
        cases ho : elementAt old v.id q with
        | none => rfl
        | some b =>
            have hb := hold b (elementAt_mem ho).1
            have hvq := hq v List.mem_cons_self
            simp only [newer]
            have : decide (v.seq > b.seq) = true := by simp; omega
            simp [this]
      · have hne : w.id ≠ v.id := fun heq => hn.1 (List.mem_map.mpr ⟨v, h, heq.symm⟩)
        simp only [List.cons_append, elementAt]
        rw [if_neg (by intro hm; exact hne hm.1)]
        exact ih (fun u hu => hq u (List.mem_cons_of_mem _ hu)) hn.2 h

/-- destroying the rows of other elements does not matter -/
theorem elementAt_eraseAll_other (a : List Id) (log : List VEntry) (i : Id) (c : Nat) (h : i ∉ a) :
    elementAt (eraseAll a log) i c = elementAt log i c := by
  induction log with
  | nil => rfl
  | cons v r ih =>
      by_cases hv : v.id ∈ a
      · have hvi : v.id ≠ i := fun e => h (e ▸ hv)
        have : eraseAll a (v :: r) = eraseAll a r := by
          unfold eraseAll; rw [List.filter_cons]; simp [hv]
        rw [this, ih]
        simp only [elementAt]
        rw [if_neg (fun hm => hvi hm.1)]
      · rw [eraseAll_cons_keep a v r hv]
        simp only [elementAt, ih]

/-- destroying the rows of an element leaves nothing of it at any coordinate -/
theorem elementAt_eraseAll_self (a : List Id) (log : List VEntry) (i : Id) (c : Nat) (h : i ∈ a) :
    elementAt (eraseAll a log) i c = none := by
  cases hel : elementAt (eraseAll a log) i c with
  | none => rfl
  | some b =>
      obtain ⟨hm, hid, _⟩ := elementAt_mem hel
      exact absurd (hid ▸ h) (mem_eraseAll hm).2

/-! ## The history invariant -/

/-- every version row is at or below the Space sequence, and `element_at` at the present returns
exactly the rows a read can reach now -/
structure VInv (s : Store) : Prop where
  le : ∀ v ∈ s.vlog, v.seq ≤ s.seq
  cur : ∀ i, (elementAt s.vlog i s.seq).map (·.elem) = visible (s.elems i)

theorem init_VInv : VInv Store.init := { le := (by intro v hv; cases hv), cur := fun _ => rfl }

/-- a step that leaves the log and every visible row alone and moves the sequence up -/
theorem VInv.of_same {s s' : Store} (h : VInv s) (hv : s'.vlog = s.vlog) (hs : s.seq ≤ s'.seq)
    (he : ∀ i, visible (s'.elems i) = visible (s.elems i)) : VInv s' :=
  { le := by intro v hvm; rw [hv] at hvm; exact Nat.le_trans (h.le v hvm) hs,
    cur := by intro i; rw [hv, he i, elementAt_coord s.vlog i s.seq s'.seq h.le hs]; exact h.cur i }

theorem visible_written (q : Nat) (i : Id) (x : Staged) : visible (some (writtenElem q i x)) = some (writtenElem q i x) := by
  have := writtenElem_not_pending q i x
  simp [visible, this]

/-- a step that appended the rows of one loop at the next sequence (and destroyed the old rows of
some of the elements it wrote) -/
theorem VInv.of_loop {s s' : Store} {q : Nat} {extra : List VEntry} {erased : List Id} {w : List Change} (h : VInv s)
    (hq : q = s.seq + 1)
    (hseq : s'.seq = q) (hvl : s'.vlog = extra ++ eraseAll erased s.vlog) (hids : extra.map (·.id) = (w.map (·.id)).reverse)
    (her : ∀ i ∈ erased, i ∈ w.map (·.id))
    (hnd : (w.map (·.id)).Nodup)
    (hok : ∀ v ∈ extra, v.seq = q ∧ s'.elems v.id = some v.elem ∧ v.version = v.elem.version ∧ v.elem.state ≠ .pending)
    (hframe : ∀ i, (∀ c ∈ w, c.id ≠ i) → visible (s'.elems i) = visible (s.elems i)) : VInv s' := by
  have hnd' : (extra.map (·.id)).Nodup := by
    rw [hids]
    unfold List.Nodup at hnd ⊢
    rw [List.pairwise_reverse]
    exact hnd.imp (fun h => fun e => h e.symm)
  have hold : ∀ u ∈ eraseAll erased s.vlog, u.seq < q := fun u hu => by have := h.le u (mem_eraseAll hu).1; omega
  refine { le := ?_, cur := ?_ }
  · intro v hv
    rw [hvl] at hv
    rcases List.mem_append.mp hv with hv | hv
    · rw [(hok v hv).1, hseq]; exact Nat.le_refl _
    · have := hold v hv; omega
  · intro i
    rw [hvl, hseq]
    by_cases hi : i ∈ extra.map (·.id)
    · obtain ⟨v, hv, hvi⟩ := List.mem_map.mp hi
      subst hvi
      rw [elementAt_fresh extra _ q (fun u hu => (hok u hu).1) hold hnd' v hv]
      obtain ⟨_, hel, _, hst⟩ := hok v hv
      rw [hel]
      simp [visible, hst]
    · have hne : ∀ v ∈ extra, v.id ≠ i := fun v hv heq => hi (List.mem_map.mpr ⟨v, hv, heq⟩)
      rw [elementAt_skip_other extra _ i q hne]
      have hw : ∀ c ∈ w, c.id ≠ i := by
        intro c hc heq
        apply hi
        rw [hids]
        exact List.mem_reverse.mpr (List.mem_map.mpr ⟨c, hc, heq⟩)
      have hier : i ∉ erased := by
        intro hie
        obtain ⟨c, hc, hci⟩ := List.mem_map.mp (her i hie)
        exact hw c hc hci
      rw [elementAt_eraseAll_other erased s.vlog i q hier, hframe i hw, elementAt_coord s.vlog i s.seq q h.le (by omega)]
      exact h.cur i

/-! ## What a statement does to the log, to `WF` and to `VInv` -/

theorem planned_sinv {s : Store} (hwf : WF s) (st : Stmt) : SInv (planned s st) :=
  (SInv.begin hwf st.dry).plan st.clauses

/-- the final store of a commit: rows of unstaged shells removed, everything else as the loop left it -/
theorem committedStore_elems (s' : Store) (tx : Tx) (time : Nat) (w : List Change) (i : Id) :
    (committedStore s' tx time w).elems i =
      if i ∈ tx.shells ∧ i ∉ w.map (·.id) then none else s'.elems i := by
  simp only [committedStore, discardUnstaged, discardShells, discard_elems, List.mem_filter]
  by_cases h1 : i ∈ tx.shells <;> by_cases h2 : i ∈ w.map (·.id) <;> simp [h1, h2]

/-- the elements whose recorded versions a statement destroys: the purges a **committed** statement staged -/
def erasedOf (s : Store) (st : Stmt) : List Id :=
  match (exec s st).2 with
  | .done .. => erasedIds (planned s st).tx.staged
  | _ => []

/-- Everything about one executed statement that the property theorems use. -/
structure ExecSpec (s : Store) (st : Stmt) : Prop where
  wf : WF (exec s st).1
  seq : (exec s st).1.seq = s.seq + 1
  /-- the version log gains rows carrying the statement's sequence; it loses rows only when the
  statement got as far as the write loop, and then exactly those of the purges it had staged -/
  vlog : ∃ extra erased, (exec s st).1.vlog = extra ++ eraseAll erased s.vlog ∧ (∀ v ∈ extra, v.seq = s.seq + 1) ∧
      ((∀ e w, (exec s st).2 ≠ .refusedWrite e w) → erased = erasedOf s st)
  vinv : VInv s → VInv (exec s st).1

theorem loop_frame_visible {base : Store} {q : Nat} {d : Bool} {p : PS} (hinv : RInv base q d p)
    {s' : Store} {w : List Change} (hfr : ∀ i, (∀ c ∈ w, c.id ≠ i) → s'.elems i = p.s.elems i) (i : Id)
    (hi : ∀ c ∈ w, c.id ≠ i) : visible (s'.elems i) = visible (base.elems i) := by
  rw [hfr i hi]; exact hinv.visible_same i

theorem exec_spec {s : Store} (hwf : WF s) (st : Stmt) : ExecSpec s st := by
  have hinv := planned_inv hwf st
  have hsinv := planned_sinv hwf st
  have hbase : ∀ i, visible (({ s with seq := s.seq + 1 } : Store).elems i) = visible (s.elems i) := fun _ => rfl
  -- the three outcomes that leave log and visible rows alone
  have quiet : ∀ s1 : Store, WF s1 → s1.seq = s.seq + 1 → s1.vlog = s.vlog →
      (∀ i, visible (s1.elems i) = visible (s.elems i)) →
      WF s1 ∧ s1.seq = s.seq + 1 ∧ (∃ extra, s1.vlog = extra ++ eraseAll [] s.vlog ∧ ∀ v ∈ extra, v.seq = s.seq + 1) ∧ (VInv s → VInv s1) :=
    fun s1 h1 h2 h3 h4 => ⟨h1, h2, ⟨[], by simp [h3, eraseAll_nil], by intro v hv; cases hv⟩, fun hv => hv.of_same h3 (by omega) h4⟩
  -- in the quiet outcomes nothing is erased, and `erasedOf` says so
  suffices h : WF (exec s st).1 ∧ (exec s st).1.seq = s.seq + 1 ∧
      (∃ extra erased, (exec s st).1.vlog = extra ++ eraseAll erased s.vlog ∧ (∀ v ∈ extra, v.seq = s.seq + 1) ∧
        ((∀ e w, (exec s st).2 ≠ .refusedWrite e w) → erased = erasedOf s st)) ∧ (VInv s → VInv (exec s st).1) from
    ⟨h.1, h.2.1, h.2.2.1, h.2.2.2⟩
  have lift : ∀ (r : Store × Outcome), exec s st = r → (∀ q a b, r.2 ≠ .done q a b) →
      (WF r.1 ∧ r.1.seq = s.seq + 1 ∧ (∃ extra, r.1.vlog = extra ++ eraseAll [] s.vlog ∧ ∀ v ∈ extra, v.seq = s.seq + 1) ∧ (VInv s → VInv r.1)) →
      WF (exec s st).1 ∧ (exec s st).1.seq = s.seq + 1 ∧
      (∃ extra erased, (exec s st).1.vlog = extra ++ eraseAll erased s.vlog ∧ (∀ v ∈ extra, v.seq = s.seq + 1) ∧
        ((∀ e w, (exec s st).2 ≠ .refusedWrite e w) → erased = erasedOf s st)) ∧ (VInv s → VInv (exec s st).1) := by
    intro r hr hnd ⟨h1, h2, ⟨extra, h3, h4⟩, h5⟩
    rw [hr]
    refine ⟨h1, h2, ⟨extra, [], h3, h4, fun _ => ?_⟩, h5⟩
    unfold erasedOf
    rw [hr]
    cases hrr : r.2 with
    | done q a b => exact absurd hrr (hnd q a b)
    | refusedPlan e => rfl
    | refusedCheck e => rfl
    | refusedWrite e w => rfl
    | dryRun c => rfl
  rcases exec_cases s st with ⟨e', he, hr⟩ | ⟨he, hc⟩
  · exact lift _ hr (by intro q a b hh; cases hh)
      (quiet _ (discardShells_WF hinv.wf _) hinv.seq hinv.vlog (fun i => by rw [hinv.discard_raw i]))
  · cases hc with
    | dry hd' hr =>
        exact lift _ hr (by intro q a b hh; cases hh)
          (quiet _ (discardShells_WF hinv.wf _) hinv.seq hinv.vlog (fun i => by rw [hinv.discard_raw i]))
    | check hd' e' hk hr =>
        exact lift _ hr (by intro q a b hh; cases hh)
          (quiet _ (discardShells_WF hinv.wf _) hinv.seq hinv.vlog (fun i => by rw [hinv.discard_raw i]))
    | write hd' u hk s' w e' hw hr =>
        obtain ⟨w', extra, erased, sp⟩ := writeLoop_spec (planned s st).tx.seq (planned s st).tx.staged hsinv.keys (planned s st).s []
        rw [hw] at sp
        have hw' : w = w' := by have := sp.changes; simpa using this
        subst hw'
        have hm := writeLoop_meta (planned s st).tx.seq (planned s st).s (planned s st).tx.staged []
        rw [hw] at hm
        rw [hr]
        have hq : (planned s st).tx.seq = s.seq + 1 := hinv.txseq
        refine ⟨sp.wf hinv.wf, hm.2.1.trans hinv.seq, ⟨extra, erased, by rw [sp.vlog, hinv.vlog], fun v hv => by rw [(sp.extraOK v hv).1, hq],
          fun hno => absurd rfl (hno e' w)⟩, ?_⟩
        intro hv
        exact hv.of_loop hq (by rw [hq]; exact hm.2.1.trans hinv.seq) (by rw [sp.vlog, hinv.vlog]) sp.extraIds
          (fun i hi => (sp.erasedSub i hi).1) sp.nodup sp.extraOK
          (fun i hi => loop_frame_visible hinv sp.frame i hi)
    | done hd' u hk s' w hw hr =>
        obtain ⟨w', extra, erased, sp⟩ := writeLoop_spec (planned s st).tx.seq (planned s st).tx.staged hsinv.keys (planned s st).s []
        rw [hw] at sp
        have hw' : w = w' := by have := sp.changes; simpa using this
        subst hw'
        have hm := writeLoop_meta (planned s st).tx.seq (planned s st).s (planned s st).tx.staged []
        rw [hw] at hm
        rw [hr]
        have hq : (planned s st).tx.seq = s.seq + 1 := hinv.txseq
        have hkeep : ∀ v ∈ extra, (committedStore s' (planned s st).tx st.time w).elems v.id = s'.elems v.id := by
          intro v hv
          rw [committedStore_elems]
          have : v.id ∈ w.map (·.id) := by
            have : v.id ∈ extra.map (·.id) := List.mem_map.mpr ⟨v, hv, rfl⟩
            rw [sp.extraIds] at this
            exact List.mem_reverse.mp this
          simp [this]
        refine ⟨?_, hm.2.1.trans hinv.seq, ⟨extra, erased, by show s'.vlog = _; rw [sp.vlog, hinv.vlog], fun v hv => by rw [(sp.extraOK v hv).1, hq],
          fun _ => by rw [sp.erasedAll rfl]; unfold erasedOf; rw [hr]⟩, ?_⟩
        · have hwf' := sp.wf hinv.wf
          intro i hi
          rw [committedStore_elems]
          split
          · rfl
          · exact hwf' i (by simpa [committedStore, discardUnstaged, discardShells] using hi)
        · intro hv
          refine hv.of_loop (w := w) hq (hm.2.1.trans (hinv.seq.trans hq.symm))
            (by show s'.vlog = _; rw [sp.vlog, hinv.vlog]) sp.extraIds (fun i hi => (sp.erasedSub i hi).1) sp.nodup ?_ ?_
          · intro v hvm
            obtain ⟨h1, h2, h3, h4⟩ := sp.extraOK v hvm
            exact ⟨h1, by rw [hkeep v hvm]; exact h2, h3, h4⟩
          · intro i hi
            rw [committedStore_elems]
            split
            · rename_i hsh
              rw [hinv.fresh i hsh.1]
            · exact loop_frame_visible hinv sp.frame i hi

/-! ## Histories -/

theorem run_append (s : Store) (a b : List Stmt) : run s (a ++ b) = run (run s a) b := by
  induction a generalizing s with
  | nil => rfl
  | cons x r ih => simp only [List.cons_append, run]; exact ih _

theorem run_spec {s : Store} (hwf : WF s) (l : List Stmt) :
    WF (run s l) ∧ s.seq + l.length = (run s l).seq ∧ (VInv s → VInv (run s l)) ∧
    ∃ extra erased, (run s l).vlog = extra ++ eraseAll erased s.vlog ∧ ∀ v ∈ extra, s.seq < v.seq := by
  induction l generalizing s with
  | nil => exact ⟨hwf, rfl, id, [], [], by simp [run, eraseAll_nil], by intro v hv; cases hv⟩
  | cons st r ih =>
      have sp := exec_spec hwf st
      obtain ⟨h1, h2, h3, ex2, er2, h4, h5⟩ := ih sp.wf
      obtain ⟨ex1, er1, h6, h7, _⟩ := sp.vlog
      refine ⟨h1, ?_, fun hv => h3 (sp.vinv hv), ex2 ++ eraseAll er2 ex1, er1 ++ er2, ?_, ?_⟩
      · simp only [run, List.length_cons]; rw [← h2, sp.seq]; omega
      · simp only [run]; rw [h4, h6, eraseAll_append, eraseAll_eraseAll]; simp
      · intro v hv
        rcases List.mem_append.mp hv with hv | hv
        · have := h5 v hv; rw [sp.seq] at this; omega
        · rw [h7 v (mem_eraseAll hv).1]; omega

end AndaVerif.Tx
