import AndaVerif.Proofs.CollInv
/-
`Inv` — the collection invariant — and `inv_step`: every operation (accepted or rejected, with its
rollback) preserves it. Also the case lemmas (`add_cases`, `update_cases`) that the property
theorems reuse.
-/
namespace AndaVerif.Collection

structure Inv (s : State) : Prop where
  ids_docs : ∀ i, i ∈ s.ids ↔ (lookupD s.docs i).isSome = true
  ids_nodup : s.ids.Nodup
  ids_le : ∀ i ∈ s.ids, i ≤ s.maxId
  saved : s.savedMax ≤ s.maxId ∧ (s.dirty = false → ∀ i ∈ s.ids, i ≤ s.savedMax)
  valid : ∀ i d, lookupD s.docs i = some d → validate s.schema d = true
  bt : ∀ x ∈ s.ix.bt, GoodBt (lookupD s.docs) x
  tx : ∀ t ∈ s.ix.tx, GoodTx (lookupD s.docs) t
  hn : ∀ h ∈ s.ix.hn, GoodHn (lookupD s.docs) h
  healthy : s.poisoned = false

theorem inv_init (schema : List (Nat × FieldDef)) : Inv (init schema) where
  ids_docs := by intro i; simp [init, lookupD]
  ids_nodup := List.nodup_nil
  ids_le := by intro i hi; cases hi
  saved := ⟨Nat.le_refl _, fun _ i hi => by cases hi⟩
  valid := by intro i d h; simp [init, lookupD] at h
  bt := by intro x hx; cases hx
  tx := by intro x hx; cases hx
  hn := by intro x hx; cases hx
  healthy := rfl

theorem fresh_id (s : State) (hi : Inv s) : lookupD s.docs (s.maxId + 1) = none := by
  cases h : lookupD s.docs (s.maxId + 1) with
  | none => rfl
  | some d =>
    have := hi.ids_le _ ((hi.ids_docs _).2 (by rw [h]; rfl))
    omega

-- ------------------------------------------------------------------------------------------
-- add
-- ------------------------------------------------------------------------------------------

/-- the index phases of `add` -/
def addPhases (s : State) (d : List (Nat × FVal)) : Idx × Option Err × Bool :=
  let id := s.maxId + 1
  phases s.ix (addBtF id d) (addBtB id d) (addTxF id d) (addTxB id d) (addHnF id d) (addHnB id d)

theorem add_cases (s : State) (d : List (Nat × FVal)) (hp : s.poisoned = false) (hf : lookupD s.docs (s.maxId + 1) = none) :
    (validate s.schema d = false ∧ add s d = (s, .err .invalid)) ∨
    (validate s.schema d = true ∧ ∃ ix' e ok, addPhases s d = (ix', some e, ok) ∧
        add s d = ({ s with maxId := s.maxId + 1, ix := ix', poisoned := !ok }, .err e)) ∨
    (validate s.schema d = true ∧ ∃ ix' ok, addPhases s d = (ix', none, ok) ∧
        add s d = ({ s with maxId := s.maxId + 1, ix := ix', docs := s.docs ++ [(s.maxId + 1, d)],
                            ids := s.ids ++ [s.maxId + 1], dirty := true }, .id (s.maxId + 1))) := by
  cases hv : validate s.schema d with
  | false => left; simp [add, hp, hv]
  | true =>
    right
    rcases hph : addPhases s d with ⟨ix', oe, ok⟩
    have hph' := hph
    simp only [addPhases] at hph'
    cases oe with
    | some e =>
      left
      refine ⟨rfl, ix', e, ok, rfl, ?_⟩
      simp [add, hp, hv, hph']
    | none =>
      right
      refine ⟨rfl, ix', ok, rfl, ?_⟩
      simp [add, hp, hv, hph', hf]

theorem addPhases_spec (s : State) (d : List (Nat × FVal)) (hi : Inv s) (ix' : Idx) (oe : Option Err) (ok : Bool)
    (h : addPhases s d = (ix', oe, ok)) :
    let L := lookupD s.docs
    let id := s.maxId + 1
    (oe = none → (∀ x ∈ ix'.bt, GoodBt (updL L id (some d)) x) ∧ (∀ x ∈ ix'.tx, GoodTx (updL L id (some d)) x) ∧
      (∀ x ∈ ix'.hn, GoodHn (updL L id (some d)) x)) ∧
    (∀ e, oe = some e → (∀ x ∈ ix'.bt, GoodBt L x) ∧ (∀ x ∈ ix'.tx, GoodTx L x) ∧ (∀ x ∈ ix'.hn, GoodHn L x) ∧ ok = true ∧
      ((∃ x ∈ s.ix.bt, (addBtF id d x).err = some e) ∨ (∃ x ∈ s.ix.tx, (addTxF id d x).err = some e) ∨
        (∃ x ∈ s.ix.hn, (addHnF id d x).err = some e))) := by
  have hf := fresh_id s hi
  exact phases_spec s.ix _ _ _ _ _ _ _ _ _ _ _ _
    (addBt_ok (lookupD s.docs) (s.maxId + 1) d hf) (addTx_ok (lookupD s.docs) (s.maxId + 1) d hf)
    (addHn_ok (lookupD s.docs) (s.maxId + 1) d hf) hi.bt hi.tx hi.hn ix' oe ok h

theorem inv_add (s : State) (d : List (Nat × FVal)) (hi : Inv s) : Inv (add s d).1 := by
  have hf := fresh_id s hi
  rcases add_cases s d hi.healthy hf with ⟨_, h⟩ | ⟨_, ix', e, ok, hph, h⟩ | ⟨hv, ix', ok, hph, h⟩
  · rw [h]; exact hi
  · rw [h]
    obtain ⟨_, hs⟩ := addPhases_spec s d hi ix' (some e) ok hph
    obtain ⟨hb, ht, hh, hok, _⟩ := hs e rfl
    exact {
      ids_docs := hi.ids_docs
      ids_nodup := hi.ids_nodup
      ids_le := fun i h => Nat.le_succ_of_le (hi.ids_le i h)
      saved := ⟨Nat.le_succ_of_le hi.saved.1, hi.saved.2⟩
      valid := hi.valid
      bt := hb
      tx := ht
      hn := hh
      healthy := by simp [hok] }
  · rw [h]
    obtain ⟨hs, _⟩ := addPhases_spec s d hi ix' none ok hph
    obtain ⟨hb, ht, hh⟩ := hs rfl
    have hL : lookupD (s.docs ++ [(s.maxId + 1, d)]) = updL (lookupD s.docs) (s.maxId + 1) (some d) :=
      lookupD_append s.docs _ d hf
    have hnot : s.maxId + 1 ∉ s.ids := fun hm => by have := hi.ids_le _ hm; omega
    exact {
      ids_docs := by
        intro i
        simp only [hL, List.mem_append, List.mem_singleton]
        by_cases hii : i = s.maxId + 1
        · subst hii; simp [updL_same]
        · rw [updL_other _ _ _ _ hii, ← hi.ids_docs i]
          simp [hii]
      ids_nodup := by
        refine List.nodup_append.2 ⟨hi.ids_nodup, by simp, ?_⟩
        intro a ha b hb
        rw [List.mem_singleton] at hb
        subst hb
        exact fun h => hnot (h ▸ ha)
      ids_le := by
        intro i h
        simp only [List.mem_append, List.mem_singleton] at h
        rcases h with h | h
        · exact Nat.le_succ_of_le (hi.ids_le i h)
        · rw [h]; exact Nat.le_refl _
      saved := ⟨Nat.le_succ_of_le hi.saved.1, fun h => by simp at h⟩
      valid := by
        intro i d' hd
        simp only [hL] at hd
        by_cases hii : i = s.maxId + 1
        · subst hii
          rw [updL_same] at hd
          cases hd
          exact hv
        · rw [updL_other _ _ _ _ hii] at hd
          exact hi.valid i d' hd
      bt := by simp only [hL]; exact hb
      tx := by simp only [hL]; exact ht
      hn := by simp only [hL]; exact hh
      healthy := hi.healthy }

-- ------------------------------------------------------------------------------------------
-- update
-- ------------------------------------------------------------------------------------------

theorem getF_setF (d : List (Nat × FVal)) (f g : Nat) (v : FVal) :
    getF (setF d f v) g = if g = f then v else getF d g := by
  unfold getF setF
  simp only [lookupF]
  by_cases h : f = g
  · subst h; simp
  · have h' : ¬ g = f := fun e => h e.symm
    simp only [h, h', if_false]
    have : lookupF (d.filter (fun p => p.1 != f)) g = lookupF d g := by
      induction d with
      | nil => rfl
      | cons p r ih =>
        obtain ⟨a, w⟩ := p
        simp only [List.filter_cons]
        by_cases ha : a = f
        · subst ha
          simp only [bne_self_eq_false, Bool.false_eq_true, if_false, lookupF, h, ih]
        · have : (a != f) = true := by simpa using ha
          simp only [this, if_true, lookupF, ih]
    rw [this]

theorem applyFields_getF (schema : List (Nat × FieldDef)) (fs : List (Nat × FVal)) (o n : List (Nat × FVal))
    (h : applyFields schema o fs = some n) : ∀ f, f ∉ fs.map (fun p => p.1) → getF n f = getF o f := by
  induction fs generalizing o with
  | nil =>
    simp only [applyFields, Option.some.injEq] at h
    subst h
    exact fun _ _ => rfl
  | cons p rest ih =>
    obtain ⟨g, v⟩ := p
    simp only [applyFields] at h
    split at h
    · cases h
    · split at h
      · intro f hf
        simp only [List.map_cons, List.mem_cons, not_or] at hf
        rw [ih (setF o g v) h f hf.2, getF_setF]
        simp [hf.1]
      · cases h

/-- the index phases of `update` -/
def updPhases (s : State) (id : Nat) (o n : List (Nat × FVal)) (ch : List Nat) : Idx × Option Err × Bool :=
  phases s.ix (updBtF id o n ch) (updBtB id o n ch) (updTxF id o n ch) (updTxB id o n ch) (updHnF id o n ch) (updHnB id o n ch)

/-- what an `update` that reaches the index phases has established -/
structure UpdPre (s : State) (id : Nat) (fs : List (Nat × FVal)) (o n : List (Nat × FVal)) : Prop where
  mem : id ∈ s.ids
  nonempty : fs ≠ []
  old : lookupD s.docs id = some o
  new : applyFields s.schema o fs = some n
  valid : validate s.schema n = true

theorem update_cases (s : State) (id : Nat) (fs : List (Nat × FVal)) (hp : s.poisoned = false) :
    ((update s id fs).1 = s ∧ ∃ e, (update s id fs).2 = .err e ∧ (e = .notFound ∨ e = .generic ∨ e = .invalid)) ∨
    (∃ o n, UpdPre s id fs o n ∧ ∃ ix' e ok, updPhases s id o n (fs.map (fun p => p.1)) = (ix', some e, ok) ∧
        update s id fs = ({ s with ix := ix', poisoned := !ok }, .err e)) ∨
    (∃ o n, UpdPre s id fs o n ∧ ∃ ix' ok, updPhases s id o n (fs.map (fun p => p.1)) = (ix', none, ok) ∧
        update s id fs = ({ s with ix := ix', docs := putD s.docs id n, dirty := true }, .ok)) := by
  by_cases hm : id ∈ s.ids
  · by_cases hfe : fs = []
    · left; simp [update, hp, hm, hfe]
    · cases ho : lookupD s.docs id with
      | none => left; simp [update, hp, hm, hfe, ho]
      | some o =>
        cases hn : applyFields s.schema o fs with
        | none => left; simp [update, hp, hm, hfe, ho, hn]
        | some n =>
          cases hv : validate s.schema n with
          | false => left; simp [update, hp, hm, hfe, ho, hn, hv]
          | true =>
            right
            have pre : UpdPre s id fs o n := ⟨hm, hfe, ho, hn, hv⟩
            rcases hph : updPhases s id o n (fs.map (fun p => p.1)) with ⟨ix', oe, ok⟩
            have hph' := hph
            simp only [updPhases] at hph'
            cases oe with
            | some e =>
              left
              refine ⟨o, n, pre, ix', e, ok, hph, ?_⟩
              simp [update, hp, hm, hfe, ho, hn, hv, hph']
            | none =>
              right
              refine ⟨o, n, pre, ix', ok, hph, ?_⟩
              simp [update, hp, hm, hfe, ho, hn, hv, hph']
  · left; simp [update, hp, hm]

theorem updPhases_spec (s : State) (id : Nat) (fs : List (Nat × FVal)) (o n : List (Nat × FVal)) (hi : Inv s)
    (pre : UpdPre s id fs o n) (ix' : Idx) (oe : Option Err) (ok : Bool)
    (h : updPhases s id o n (fs.map (fun p => p.1)) = (ix', oe, ok)) :
    let L := lookupD s.docs
    let ch := fs.map (fun p => p.1)
    (oe = none → (∀ x ∈ ix'.bt, GoodBt (updL L id (some n)) x) ∧ (∀ x ∈ ix'.tx, GoodTx (updL L id (some n)) x) ∧
      (∀ x ∈ ix'.hn, GoodHn (updL L id (some n)) x)) ∧
    (∀ e, oe = some e → (∀ x ∈ ix'.bt, GoodBt L x) ∧ (∀ x ∈ ix'.tx, GoodTx L x) ∧ (∀ x ∈ ix'.hn, GoodHn L x) ∧ ok = true ∧
      ((∃ x ∈ s.ix.bt, (updBtF id o n ch x).err = some e) ∨ (∃ x ∈ s.ix.tx, (updTxF id o n ch x).err = some e) ∨
        (∃ x ∈ s.ix.hn, (updHnF id o n ch x).err = some e))) := by
  have hsame := applyFields_getF s.schema fs o n pre.new
  exact phases_spec s.ix _ _ _ _ _ _ _ _ _ _ _ _
    (updBt_ok s.schema (lookupD s.docs) id o n _ pre.old (hi.valid id o pre.old) pre.valid hsame)
    (updTx_ok (lookupD s.docs) id o n _ pre.old hsame)
    (updHn_ok (lookupD s.docs) id o n _ pre.old hsame) hi.bt hi.tx hi.hn ix' oe ok h

theorem inv_update (s : State) (id : Nat) (fs : List (Nat × FVal)) (hi : Inv s) : Inv (update s id fs).1 := by
  rcases update_cases s id fs hi.healthy with ⟨h, _⟩ | ⟨o, n, pre, ix', e, ok, hph, h⟩ | ⟨o, n, pre, ix', ok, hph, h⟩
  · rw [h]; exact hi
  · rw [h]
    obtain ⟨_, hs⟩ := updPhases_spec s id fs o n hi pre ix' (some e) ok hph
    obtain ⟨hb, ht, hh, hok, _⟩ := hs e rfl
    exact { hi with bt := hb, tx := ht, hn := hh, healthy := by simp [hok] }
  · rw [h]
    obtain ⟨hs, _⟩ := updPhases_spec s id fs o n hi pre ix' none ok hph
    obtain ⟨hb, ht, hh⟩ := hs rfl
    have hL : lookupD (putD s.docs id n) = updL (lookupD s.docs) id (some n) := lookupD_putD s.docs id n
    exact {
      ids_docs := by
        intro i
        simp only [hL]
        by_cases hii : i = id
        · subst hii
          simp [updL_same, pre.mem]
        · rw [updL_other _ _ _ _ hii]; exact hi.ids_docs i
      ids_nodup := hi.ids_nodup
      ids_le := hi.ids_le
      saved := ⟨hi.saved.1, fun h => by simp at h⟩
      valid := by
        intro i d' hd
        simp only [hL] at hd
        by_cases hii : i = id
        · subst hii
          rw [updL_same] at hd
          cases hd
          exact pre.valid
        · rw [updL_other _ _ _ _ hii] at hd
          exact hi.valid i d' hd
      bt := by simp only [hL]; exact hb
      tx := by simp only [hL]; exact ht
      hn := by simp only [hL]; exact hh
      healthy := hi.healthy }

-- ------------------------------------------------------------------------------------------
-- remove
-- ------------------------------------------------------------------------------------------

theorem inv_remove (s : State) (id : Nat) (hi : Inv s) : Inv (remove s id).1 := by
  unfold remove
  simp only [hi.healthy, Bool.false_eq_true, if_false]
  by_cases hm : s.ids.contains id = true
  · simp only [hm, Bool.not_true, Bool.false_eq_true, if_false]
    cases ho : lookupD s.docs id with
    | none =>
      -- not reachable under the invariant, the branch exists in the code
      exfalso
      have := (hi.ids_docs id).1 (by simpa using hm)
      rw [ho] at this
      cases this
    | some d =>
      simp only
      have hL : lookupD (delD s.docs id) = updL (lookupD s.docs) id none := lookupD_delD s.docs id
      exact {
        ids_docs := by
          intro i
          simp only [hL, List.mem_filter, bne_iff_ne, ne_eq]
          by_cases hii : i = id
          · subst hii; simp [updL_same]
          · rw [updL_other _ _ _ _ hii, ← hi.ids_docs i]; simp [hii]
        ids_nodup := hi.ids_nodup.filter _
        ids_le := fun i h => hi.ids_le i ((List.mem_filter.1 h).1)
        saved := ⟨hi.saved.1, fun h => by simp at h⟩
        valid := by
          intro i d' hd
          simp only [hL] at hd
          by_cases hii : i = id
          · subst hii; rw [updL_same] at hd; cases hd
          · rw [updL_other _ _ _ _ hii] at hd; exact hi.valid i d' hd
        bt := by
          simp only [hL]
          intro y hy
          obtain ⟨x, hx, rfl⟩ := List.mem_map.1 hy
          have hg := hi.bt x hx
          have h0 : ivalOf x.1 (lookupD s.docs id) = valueOf x.1 d := by rw [ho]; rfl
          exact good_update (lookupD s.docs) x.1 x.2 _ id none hg (Compat_null_right _)
            (by rw [h0]; exact (btRemove_eq_update _ _ _ _).symm)
        tx := by
          simp only [hL]
          intro y hy
          obtain ⟨t, ht, rfl⟩ := List.mem_map.1 hy
          have := good_tx_remove (lookupD s.docs) t id (hi.tx t ht)
          rw [ho] at this
          exact this
        hn := by
          simp only [hL]
          intro y hy
          obtain ⟨h, hh, rfl⟩ := List.mem_map.1 hy
          refine good_hn_remove (lookupD s.docs) h id _ (hi.hn h hh) ?_
          cases hv : vecOf h.field d with
          | none => right; rw [ho]; simp [oVecOf, hv]
          | some k => left; rfl
        healthy := by first | rfl | exact hi.healthy }
  · simp only [hm, Bool.not_false, if_true]
    exact hi

-- ------------------------------------------------------------------------------------------
-- index creation (backfill), removal, flush, reopen
-- ------------------------------------------------------------------------------------------

/-- the documents restricted to the ids already backfilled -/
def restrict (L : Nat → Option (List (Nat × FVal))) (S : List Nat) : Nat → Option (List (Nat × FVal)) :=
  fun i => if i ∈ S then L i else none

theorem restrict_cons_none (L) (S : List Nat) (i : Nat) (h : L i = none) : restrict L (i :: S) = restrict L S := by
  funext j
  simp only [restrict, List.mem_cons]
  by_cases hj : j = i
  · subst hj; simp [h]
  · simp [hj]

theorem restrict_cons_some (L) (S : List Nat) (i : Nat) :
    restrict L (i :: S) = updL (restrict L S) i (L i) := by
  funext j
  simp only [restrict, List.mem_cons, updL]
  by_cases hj : j = i
  · subst hj; simp
  · simp [hj]

theorem backfill_good {α : Type} (ins : α → Nat → List (Nat × FVal) → Except Err α) (docs : List (Nat × List (Nat × FVal)))
    (G : (Nat → Option (List (Nat × FVal))) → α → Prop)
    (hstep : ∀ a a' i d S, i ∉ S → lookupD docs i = some d → G (restrict (lookupD docs) S) a → ins a i d = .ok a' →
      G (restrict (lookupD docs) (i :: S)) a')
    (todo : List Nat) (S : List Nat) (a a' : α) (hnd : todo.Nodup) (hdis : ∀ i ∈ todo, i ∉ S)
    (hg : G (restrict (lookupD docs) S) a) (h : backfill ins docs todo a = .ok a') :
    ∃ S', (∀ i, i ∈ S' ↔ i ∈ todo ∨ i ∈ S) ∧ G (restrict (lookupD docs) S') a' := by
  induction todo generalizing S a with
  | nil =>
    simp only [backfill, Except.ok.injEq] at h
    subst h
    exact ⟨S, by simp, hg⟩
  | cons i rest ih =>
    have hnd' := (List.nodup_cons.1 hnd)
    have hiS : i ∉ S := hdis i (List.mem_cons_self ..)
    have hdis' : ∀ j ∈ rest, j ∉ i :: S := by
      intro j hj hm
      rcases List.mem_cons.1 hm with rfl | hm
      · exact hnd'.1 hj
      · exact hdis j (List.mem_cons_of_mem _ hj) hm
    simp only [backfill] at h
    split at h
    · rename_i hno
      obtain ⟨S', h1, h2⟩ := ih (i :: S) a hnd'.2 hdis' (by rw [restrict_cons_none _ _ _ hno]; exact hg) h
      refine ⟨S', fun j => ?_, h2⟩
      rw [h1 j]; simp only [List.mem_cons]
      constructor
      · rintro (h | h | h)
        · exact Or.inl (Or.inr h)
        · exact Or.inl (Or.inl h)
        · exact Or.inr h
      · rintro ((h | h) | h)
        · exact Or.inr (Or.inl h)
        · exact Or.inl h
        · exact Or.inr (Or.inr h)
    · rename_i d hd
      split at h
      · cases h
      · rename_i a1 ha1
        obtain ⟨S', h1, h2⟩ := ih (i :: S) a1 hnd'.2 hdis' (hstep a a1 i d S hiS hd hg ha1) h
        refine ⟨S', fun j => ?_, h2⟩
        rw [h1 j]; simp only [List.mem_cons]
        constructor
        · rintro (h | h | h)
          · exact Or.inl (Or.inr h)
          · exact Or.inl (Or.inl h)
          · exact Or.inr h
        · rintro ((h | h) | h)
          · exact Or.inr (Or.inl h)
          · exact Or.inl h
          · exact Or.inr (Or.inr h)

theorem mem_insertAsc (i : Nat) (l : List Nat) (x : Nat) : x ∈ insertAsc i l ↔ x = i ∨ x ∈ l := by
  induction l with
  | nil => simp [insertAsc]
  | cons j r ih =>
    simp only [insertAsc]
    split
    · simp
    · simp only [List.mem_cons, ih]
      constructor
      · rintro (h | h | h)
        · exact Or.inr (Or.inl h)
        · exact Or.inl h
        · exact Or.inr (Or.inr h)
      · rintro (h | h | h)
        · exact Or.inr (Or.inl h)
        · exact Or.inl h
        · exact Or.inr (Or.inr h)

theorem nodup_insertAsc (i : Nat) (l : List Nat) (hi : i ∉ l) (hl : l.Nodup) : (insertAsc i l).Nodup := by
  induction l with
  | nil => simp [insertAsc]
  | cons j r ih =>
    simp only [insertAsc]
    have hl' := List.nodup_cons.1 hl
    split
    · exact List.nodup_cons.2 ⟨hi, hl⟩
    · refine List.nodup_cons.2 ⟨?_, ih (fun h => hi (List.mem_cons_of_mem _ h)) hl'.2⟩
      rw [mem_insertAsc]
      rintro (h | h)
      · exact hi (by rw [h]; exact List.mem_cons_self ..)
      · exact hl'.1 h

theorem mem_sortAsc (l : List Nat) (x : Nat) : x ∈ sortAsc l ↔ x ∈ l := by
  induction l with
  | nil => simp [sortAsc]
  | cons j r ih =>
    simp only [sortAsc, List.foldr_cons] at ih ⊢
    rw [mem_insertAsc, ih]
    simp

theorem nodup_sortAsc (l : List Nat) (h : l.Nodup) : (sortAsc l).Nodup := by
  induction l with
  | nil => simp [sortAsc]
  | cons j r ih =>
    have h' := List.nodup_cons.1 h
    simp only [sortAsc, List.foldr_cons]
    exact nodup_insertAsc j _ (by have := mem_sortAsc r j; simp only [sortAsc] at this; rw [this]; exact h'.1) (ih h'.2)

theorem restrict_all (s : State) (hi : Inv s) (S : List Nat) (hS : ∀ i, i ∈ S ↔ i ∈ sortAsc s.ids ∨ i ∈ ([] : List Nat)) :
    restrict (lookupD s.docs) S = lookupD s.docs := by
  funext i
  simp only [restrict]
  split
  · rfl
  · rename_i hn
    cases h : lookupD s.docs i with
    | none => rfl
    | some d =>
      exfalso
      apply hn
      rw [hS i, mem_sortAsc]
      exact Or.inl ((hi.ids_docs i).2 (by rw [h]; rfl))

theorem restrict_nil (L : Nat → Option (List (Nat × FVal))) : restrict L [] = fun _ => none := by
  funext i; simp [restrict]

theorem createBt_good (s : State) (hi : Inv s) (df : BtDef) (r : List (Key × Nat))
    (h : backfill (insBt df) s.docs (sortAsc s.ids) [] = .ok r) : GoodBt (lookupD s.docs) (df, r) := by
  obtain ⟨S', h1, h2⟩ := backfill_good (insBt df) s.docs (fun L r => GoodBt L (df, r))
    (by
      intro a a' i d S hiS hd hg hins
      simp only [insBt] at hins
      rw [btInsert_eq_update] at hins
      have hnone : restrict (lookupD s.docs) S i = none := by simp [restrict, hiS]
      have := good_update (restrict (lookupD s.docs) S) df a a' i (some d) hg
        (by rw [hnone]; exact Compat_null_left _) (by rw [hnone]; exact hins)
      rw [restrict_cons_some, hd]
      exact this)
    (sortAsc s.ids) [] [] r (nodup_sortAsc _ hi.ids_nodup) (fun _ _ h => by cases h)
    (by
      rw [restrict_nil]
      exact ⟨fun k i => by simp [ivalOf, IVal.keys], fun _ k i j h => by cases h⟩)
    h
  rw [restrict_all s hi S' h1] at h2
  exact h2

theorem createTx_good (s : State) (hi : Inv s) (t0 t : Tx) (h0 : t0.docs = [] ∧ t0.post = [])
    (h : backfill insTx s.docs (sortAsc s.ids) t0 = .ok t) : GoodTx (lookupD s.docs) t := by
  obtain ⟨S', h1, h2⟩ := backfill_good insTx s.docs (fun L t => GoodTx L t)
    (by
      intro a a' i d S hiS hd hg hins
      simp only [insTx] at hins
      have hnone : restrict (lookupD s.docs) S i = none := by simp [restrict, hiS]
      obtain ⟨t', h3, h4⟩ := good_tx_insert (restrict (lookupD s.docs) S) a i (some d) hg (by rw [hnone]; rfl)
      have h3' : txInsertO a i (textOf a.fields d) = .ok t' := h3
      rw [hins] at h3'
      cases h3'
      rw [restrict_cons_some, hd]
      exact h4)
    (sortAsc s.ids) [] t0 t (nodup_sortAsc _ hi.ids_nodup) (fun _ _ h => by cases h)
    (by
      rw [restrict_nil]
      exact ⟨fun i => by simp [h0.1, oTextOf, toks], fun w i => by simp [h0.2, oTextOf, toks], by rw [h0.1]; exact List.nodup_nil⟩)
    h
  rw [restrict_all s hi S' h1] at h2
  exact h2

theorem createHn_good (s : State) (hi : Inv s) (h0 h : Hn) (hids : h0.ids = [])
    (hb : backfill insHn s.docs (sortAsc s.ids) h0 = .ok h) : GoodHn (lookupD s.docs) h := by
  obtain ⟨S', h1, h2⟩ := backfill_good insHn s.docs (fun L h => GoodHn L h)
    (by
      intro a a' i d S hiS hd hg hins
      simp only [insHn] at hins
      have hnone : restrict (lookupD s.docs) S i = none := by simp [restrict, hiS]
      have hdim : ∀ n, oVecOf a.field (some d) = some n → n = a.dim := by
        intro n hn
        have hn' : vecOf a.field d = some n := hn
        rw [hn'] at hins
        exact hnInsertO_dim a a' i n hins
      obtain ⟨h', h3, h4⟩ := good_hn_insert (restrict (lookupD s.docs) S) a i (some d) hg (by rw [hnone]; rfl) hdim
      have h3' : hnInsertO a i (vecOf a.field d) = .ok h' := h3
      rw [hins] at h3'
      cases h3'
      rw [restrict_cons_some, hd]
      exact h4)
    (sortAsc s.ids) [] h0 h (nodup_sortAsc _ hi.ids_nodup) (fun _ _ h => by cases h)
    (by
      rw [restrict_nil]
      exact ⟨fun i => by simp [hids, oVecOf], by rw [hids]; exact List.nodup_nil, fun i n hn => by simp [oVecOf] at hn⟩)
    hb
  rw [restrict_all s hi S' h1] at h2
  exact h2

theorem mem_register {α : Type} (c : Bool) (x y : α) (l : List α) :
    y ∈ (if c = true then x :: l else l ++ [x]) ↔ y = x ∨ y ∈ l := by
  cases c <;> simp [or_comm]

theorem inv_createBt (s : State) (name : Nat) (fields : List Nat) (hi : Inv s) : Inv (createBt s name fields).1 := by
  unfold createBt
  simp only [hi.healthy, Bool.false_eq_true, if_false]
  split
  · exact hi
  · split
    · exact hi
    · split
      · exact hi
      · split
        · exact hi
        · split
          · exact hi
          · rename_i r hr
            have hg := createBt_good s hi _ r hr
            refine { hi with bt := ?_, saved := ⟨hi.saved.1, fun h => by simp at h⟩, healthy := by first | rfl | exact hi.healthy }
            intro x hx
            rcases (mem_register _ _ _ _).1 hx with rfl | hx
            · exact hg
            · exact hi.bt x hx

theorem inv_createTx (s : State) (fields : List Nat) (hi : Inv s) : Inv (createTx s fields).1 := by
  unfold createTx
  simp only [hi.healthy, Bool.false_eq_true, if_false]
  split
  · exact hi
  · split
    · exact hi
    · split
      · exact hi
      · split
        · exact hi
        · rename_i t ht
          have hg := createTx_good s hi _ t ⟨rfl, rfl⟩ ht
          refine { hi with tx := ?_, saved := ⟨hi.saved.1, fun h => by simp at h⟩, healthy := by first | rfl | exact hi.healthy }
          intro x hx
          rcases List.mem_append.1 hx with hx | hx
          · exact hi.tx x hx
          · rw [List.mem_singleton] at hx; subst hx; exact hg

theorem inv_createHn (s : State) (field dim : Nat) (hi : Inv s) : Inv (createHn s field dim).1 := by
  unfold createHn
  simp only [hi.healthy, Bool.false_eq_true, if_false]
  split
  · exact hi
  · split
    · exact hi
    · split
      · exact hi
      · split
        · exact hi
        · rename_i h hh
          have hg := createHn_good s hi _ h rfl hh
          refine { hi with hn := ?_, saved := ⟨hi.saved.1, fun h => by simp at h⟩, healthy := by first | rfl | exact hi.healthy }
          intro x hx
          rcases List.mem_append.1 hx with hx | hx
          · exact hi.hn x hx
          · rw [List.mem_singleton] at hx; subst hx; exact hg

theorem inv_flush (s : State) (hi : Inv s) : Inv (flush s) := by
  unfold flush
  split
  · exact { hi with saved := ⟨Nat.le_refl _, fun _ i h => hi.ids_le i h⟩ }
  · exact hi

theorem flush_le (s : State) (hi : Inv s) : ∀ i ∈ (flush s).ids, i ≤ (flush s).savedMax := by
  unfold flush
  split
  · exact fun i h => hi.ids_le i h
  · rename_i hd
    exact hi.saved.2 (by simpa using hd)

theorem mem_insertByName (x y : BtDef × List (Key × Nat)) (l : List (BtDef × List (Key × Nat))) :
    y ∈ insertByName x l ↔ y = x ∨ y ∈ l := by
  induction l with
  | nil => simp [insertByName]
  | cons z r ih =>
    simp only [insertByName]
    split
    · simp
    · simp only [List.mem_cons, ih]
      constructor
      · rintro (h | h | h)
        · exact Or.inr (Or.inl h)
        · exact Or.inl h
        · exact Or.inr (Or.inr h)
      · rintro (h | h | h)
        · exact Or.inr (Or.inl h)
        · exact Or.inl h
        · exact Or.inr (Or.inr h)

theorem mem_reorder (bt : List (BtDef × List (Key × Nat))) (y : BtDef × List (Key × Nat)) : y ∈ reorder bt ↔ y ∈ bt := by
  unfold reorder
  have h1 : ∀ l : List (BtDef × List (Key × Nat)), y ∈ l.foldr insertByName [] ↔ y ∈ l := by
    intro l
    induction l with
    | nil => simp
    | cons z r ih => simp only [List.foldr_cons, mem_insertByName, ih, List.mem_cons]
  have h2 : ∀ (l acc : List (BtDef × List (Key × Nat))),
      y ∈ l.foldl (fun acc x => if x.1.unique then x :: acc else acc ++ [x]) acc ↔ y ∈ acc ∨ y ∈ l := by
    intro l
    induction l with
    | nil => simp
    | cons z r ih =>
      intro acc
      simp only [List.foldl_cons, ih, List.mem_cons]
      split
      · simp only [List.mem_cons]
        constructor
        · rintro ((h | h) | h)
          · exact Or.inr (Or.inl h)
          · exact Or.inl h
          · exact Or.inr (Or.inr h)
        · rintro (h | h | h)
          · exact Or.inl (Or.inr h)
          · exact Or.inl (Or.inl h)
          · exact Or.inr h
      · simp only [List.mem_append, List.mem_singleton]
        constructor
        · rintro ((h | h) | h)
          · exact Or.inl h
          · exact Or.inr (Or.inl h)
          · exact Or.inr (Or.inr h)
        · rintro (h | h | h)
          · exact Or.inl (Or.inl h)
          · exact Or.inl (Or.inr h)
          · exact Or.inr h
  rw [h2, h1]
  simp

/-- Every operation, accepted or rejected, preserves the invariant. -/
theorem inv_step (s : State) (op : Op) (hi : Inv s) : Inv (step s op).1 := by
  cases op with
  | add d => exact inv_add s d hi
  | update id fs => exact inv_update s id fs hi
  | remove id => exact inv_remove s id hi
  | createBt name fields => exact inv_createBt s name fields hi
  | createTx fields => exact inv_createTx s fields hi
  | createHn field dim => exact inv_createHn s field dim hi
  | removeBt name =>
    simp only [step, hi.healthy, Bool.false_eq_true, if_false]
    exact { hi with bt := fun x hx => hi.bt x ((List.mem_filter.1 hx).1),
                    saved := ⟨hi.saved.1, fun h i hm => hi.saved.2 (by revert h; cases s.dirty <;> simp) i hm⟩,
                    healthy := by first | rfl | exact hi.healthy }
  | removeTx fields =>
    simp only [step, hi.healthy, Bool.false_eq_true, if_false]
    exact { hi with tx := fun x hx => hi.tx x ((List.mem_filter.1 hx).1),
                    saved := ⟨hi.saved.1, fun h i hm => hi.saved.2 (by revert h; cases s.dirty <;> simp) i hm⟩,
                    healthy := by first | rfl | exact hi.healthy }
  | removeHn field =>
    simp only [step, hi.healthy, Bool.false_eq_true, if_false]
    exact { hi with hn := fun x hx => hi.hn x ((List.mem_filter.1 hx).1),
                    saved := ⟨hi.saved.1, fun h i hm => hi.saved.2 (by revert h; cases s.dirty <;> simp) i hm⟩,
                    healthy := by first | rfl | exact hi.healthy }
  | flush =>
    simp only [step, hi.healthy, Bool.false_eq_true, if_false]
    exact inv_flush s hi
  | reopen =>
    simp only [step, hi.healthy, Bool.false_eq_true, if_false]
    have hf := inv_flush s hi
    have hle := flush_le s hi
    exact { hf with ids_le := hle, saved := ⟨Nat.le_refl _, fun _ => hle⟩,
                    bt := fun x hx => hf.bt x ((mem_reorder _ x).1 hx),
                    healthy := by first | rfl | exact hf.healthy }

theorem inv_run (s : State) (ops : List Op) (hi : Inv s) : Inv (run s ops) := by
  induction ops generalizing s with
  | nil => exact hi
  | cons op rest ih => exact ih _ (inv_step s op hi)

end AndaVerif.Collection
