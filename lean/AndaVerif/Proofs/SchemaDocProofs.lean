import AndaVerif.Proofs.SchemaRoundtrip
import AndaVerif.Model.SchemaDoc
/-
Document level: the round trip of all fields by index, and index stability of `upgrade_with`.
-/
namespace AndaVerif.Schema

/-- the pieces of `storeLoad_canonical`, for reuse field by field -/
theorem roundtrip_parts (fm : FloatModel) (hfm : fm.Lawful) (ft : FieldType) (v : FieldValue)
    (hwf : v.WF fm = true) (hc : canonical fm true ft v = true)
    (hb : complexityOk Budget.default v = true) :
    ∃ dm r, toDM fm v = some dm ∧ readBack fm dm = some r ∧
      normalize fm ft (prune ft r) = v ∧ fieldValidate fm ft v = true := by
  obtain ⟨h1, h2, h3, h4⟩ := rt_all fm hfm ft v hwf hc
  obtain ⟨dm, h5, h6⟩ := codec fm hfm v hwf h4
  refine ⟨dm, generic fm v, h5, h6, by rw [h1, h2], ?_⟩
  unfold fieldValidate
  by_cases hn : v.isNull = true
  · rw [if_pos hn]
    have : v = .null := by revert hn; cases v <;> simp [FieldValue.isNull]
    subst this
    exact canonical_null fm ft hc
  · rw [if_neg hn]
    simp [validate, validateWith, hb, h3]

/-- a stored field: declared by the schema, canonical for its type, well-formed, in budget -/
def FieldOk (fm : FloatModel) (s : Schema) (e : Nat × FieldValue) : Prop :=
  ∃ f ∈ s.fields, f.idx = e.1 ∧ canonical fm true f.ty e.2 = true ∧ e.2.WF fm = true ∧
    complexityOk Budget.default e.2 = true

theorem le_listMax (xs : List Nat) (x : Nat) (h : x ∈ xs) : x ≤ listMax xs := by
  induction xs with
  | nil => cases h
  | cons y ys ih =>
    simp only [listMax]
    cases h with
    | head => exact Nat.le_max_left _ _
    | tail _ h => exact Nat.le_trans (ih h) (Nat.le_max_right _ _)

theorem idx_lt_end (s : Schema) (f : FieldEntry) (h : f ∈ s.fields) : f.idx < s.allocatedIdxEnd := by
  have h1 : f.idx ∈ s.idxs := List.mem_map.2 ⟨f, h, rfl⟩
  have h2 := le_listMax _ _ h1
  have hne : s.fields.isEmpty = false := by
    cases hs : s.fields with
    | nil => rw [hs] at h; cases h
    | cons _ _ => rfl
  simp only [Schema.allocatedIdxEnd, hne, Bool.false_eq_true, if_false]
  omega

theorem find_idx_of_mem (fs : List FieldEntry) (hd : fs.Pairwise (fun a b => a.idx ≠ b.idx)) (f : FieldEntry)
    (h : f ∈ fs) : fs.find? (fun x => x.idx == f.idx) = some f := by
  induction fs with
  | nil => cases h
  | cons g gs ih =>
    rw [List.pairwise_cons] at hd
    cases h with
    | head => simp [List.find?_cons]
    | tail _ hm =>
      have : (g.idx == f.idx) = false := by simpa using hd.1 f hm
      simp [List.find?_cons, this, ih hd.2 hm]

theorem byIdx_of_mem (s : Schema) (hd : s.fields.Pairwise (fun a b => a.idx ≠ b.idx)) (f : FieldEntry)
    (h : f ∈ s.fields) : s.byIdx f.idx = some f :=
  find_idx_of_mem s.fields hd f h

theorem storeDecode_ok (fm : FloatModel) (hfm : fm.Lawful) (s : Schema) (d : Doc)
    (h : ∀ e ∈ d, FieldOk fm s e) :
    ∃ r, Doc.storeDecode fm d = some r ∧ r.map (·.1) = d.map (·.1) ∧
      ∀ i x, (i, x) ∈ r → ∃ v f, (i, v) ∈ d ∧ f ∈ s.fields ∧ f.idx = i ∧
        normalize fm f.ty (prune f.ty x) = v ∧ fieldValidate fm f.ty v = true := by
  induction d with
  | nil => exact ⟨[], by simp [Doc.storeDecode], rfl, by simp⟩
  | cons e d ih =>
    obtain ⟨i, v⟩ := e
    obtain ⟨f, hf, hidx, hc, hwf, hb⟩ := h (i, v) (by simp)
    obtain ⟨dm, r0, h1, h2, h3, h4⟩ := roundtrip_parts fm hfm f.ty v hwf hc hb
    obtain ⟨r, hr, hk, hall⟩ := ih (fun e he => h e (by simp [he]))
    refine ⟨(i, r0) :: r, by simp [Doc.storeDecode, h1, h2, hr], by simp [hk], ?_⟩
    intro j x hx
    cases hx with
    | head => exact ⟨v, f, by simp, hf, hidx, h3, h4⟩
    | tail _ hm =>
      obtain ⟨v', f', h5, h6⟩ := hall j x hm
      exact ⟨v', f', by simp [h5], h6⟩

end AndaVerif.Schema

namespace AndaVerif.Schema

theorem storeDecode_renorm (fm : FloatModel) (hfm : fm.Lawful) (s : Schema)
    (hd : s.fields.Pairwise (fun a b => a.idx ≠ b.idx)) (d : Doc) (h : ∀ e ∈ d, FieldOk fm s e) :
    ∃ r, Doc.storeDecode fm d = some r ∧ r.map (·.1) = d.map (·.1) ∧ r.map (renorm fm s) = d := by
  induction d with
  | nil => exact ⟨[], by simp [Doc.storeDecode], rfl, rfl⟩
  | cons e d ih =>
    obtain ⟨i, v⟩ := e
    obtain ⟨f, hf, hidx, hc, hwf, hb⟩ := h (i, v) (by simp)
    obtain ⟨dm, r0, h1, h2, h3, _⟩ := roundtrip_parts fm hfm f.ty v hwf hc hb
    obtain ⟨r, hr, hk, hall⟩ := ih (fun e he => h e (by simp [he]))
    refine ⟨(i, r0) :: r, by simp [Doc.storeDecode, h1, h2, hr], by simp [hk], ?_⟩
    have hby : s.byIdx i = some f := by
      have := byIdx_of_mem s hd f hf
      simp only at hidx
      rwa [hidx] at this
    simp [renorm, hby, h3, hall]

theorem fieldValidate_of_ok (fm : FloatModel) (hfm : fm.Lawful) (ft : FieldType) (v : FieldValue)
    (hwf : v.WF fm = true) (hc : canonical fm true ft v = true)
    (hb : complexityOk Budget.default v = true) : fieldValidate fm ft v = true := by
  obtain ⟨_, _, _, _, _, h⟩ := roundtrip_parts fm hfm ft v hwf hc hb
  exact h

theorem lookup_nat_mem (d : Doc) (i : Nat) (v : FieldValue) (h : d.lookup i = some v) : (i, v) ∈ d := by
  induction d with
  | nil => simp at h
  | cons e d ih =>
    obtain ⟨j, x⟩ := e
    simp only [List.lookup_cons] at h
    cases hk : (i == j) with
    | true =>
      simp only [hk, Option.some.injEq] at h
      have : i = j := by simpa using hk
      subst this; subst h; simp
    | false =>
      simp only [hk] at h
      exact List.mem_cons_of_mem _ (ih h)

theorem lookup_nat_none (d : Doc) (i : Nat) (h : d.lookup i = none) : ∀ e ∈ d, e.1 ≠ i := by
  induction d with
  | nil => intro e he; cases he
  | cons e d ih =>
    obtain ⟨j, x⟩ := e
    simp only [List.lookup_cons] at h
    cases hk : (i == j) with
    | true => simp [hk] at h
    | false =>
      simp only [hk] at h
      intro e' he'
      cases he' with
      | head => simpa using fun e => (by simpa using hk : ¬ i = j) e.symm
      | tail _ hm => exact ih h e' hm

/-- **Document round trip**: all fields, by index. -/
theorem tryFromDoc_storeDecode (fm : FloatModel) (hfm : fm.Lawful) (s : Schema)
    (hd : s.fields.Pairwise (fun a b => a.idx ≠ b.idx)) (d : Doc)
    (hok : ∀ e ∈ d, FieldOk fm s e)
    (hreq : ∀ f ∈ s.fields, f.required = true → ∃ e ∈ d, e.1 = f.idx) :
    ∃ r, Doc.storeDecode fm d = some r ∧ tryFromDoc fm s r = some d := by
  obtain ⟨r, h1, hk, h3⟩ := storeDecode_renorm fm hfm s hd d hok
  refine ⟨r, h1, ?_⟩
  have hkeys : ∀ e ∈ r, ∃ f ∈ s.fields, f.idx = e.1 := by
    intro e he
    have : e.1 ∈ d.map (·.1) := by rw [← hk]; exact List.mem_map.2 ⟨e, he, rfl⟩
    obtain ⟨e', he', heq⟩ := List.mem_map.1 this
    obtain ⟨f, hf, hidx, _⟩ := hok e' he'
    exact ⟨f, hf, by rw [hidx, heq]⟩
  have hany : r.any (fun e => decide (e.1 ≥ s.allocatedIdxEnd)) = false := by
    rw [List.any_eq_false]
    intro e he
    obtain ⟨f, hf, hidx⟩ := hkeys e he
    have := idx_lt_end s f hf
    simp only [decide_eq_true_eq]; omega
  have hfilter : r.filter (fun e => s.idxs.contains e.1) = r := by
    rw [List.filter_eq_self]
    intro e he
    obtain ⟨f, hf, hidx⟩ := hkeys e he
    simp only [List.contains_iff_mem]
    exact hidx ▸ List.mem_map.2 ⟨f, hf, rfl⟩
  have hval : s.validate fm d = true := by
    simp only [Schema.validate, Bool.and_eq_true, List.all_eq_true]
    refine ⟨?_, ?_⟩
    · intro e he
      obtain ⟨f, hf, hidx, _⟩ := hok e he
      simp only [List.contains_iff_mem]
      exact hidx ▸ List.mem_map.2 ⟨f, hf, rfl⟩
    · intro f hf
      cases hl : d.lookup f.idx with
      | some v =>
        have hm := lookup_nat_mem d f.idx v hl
        obtain ⟨f', hf', hidx, hc, hwf, hb⟩ := hok _ hm
        have : f' = f := by
          have h1 := byIdx_of_mem s hd f' hf'
          have h2 := byIdx_of_mem s hd f hf
          simp only at hidx
          rw [hidx, h2] at h1
          exact (Option.some.inj h1).symm
        subst this
        exact fieldValidate_of_ok fm hfm _ v hwf hc hb
      | none =>
        simp only [Bool.not_eq_true']
        cases hr : f.required with
        | false => rfl
        | true =>
          obtain ⟨e, he, heq⟩ := hreq f hf hr
          exact absurd heq (lookup_nat_none d f.idx hl e he)
  unfold tryFromDoc
  simp only [hany, Bool.false_eq_true, if_false, hfilter]
  rw [h3, hval]
  simp

end AndaVerif.Schema
