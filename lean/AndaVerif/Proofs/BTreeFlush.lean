import AndaVerif.Model.BTreeFlush
/-
The crash theorem of the manifest commit protocol: what `load` returns depends only on the metadata
blob and on the objects it references, so fresh bucket PUTs before the commit and DELETEs of
unreferenced objects after it are invisible to every loader.
-/
namespace AndaVerif
namespace BTreeFlush

theorem getObj_dropObj_ne (o o' : Obj) (hne : o ≠ o') : ∀ objs : List (Obj × Payload),
    getObj (dropObj objs o') o = getObj objs o
  | [] => rfl
  | (o₁, p) :: r => by
    have ih := getObj_dropObj_ne o o' hne r
    unfold dropObj at ih ⊢
    simp only [List.filter_cons]
    by_cases h1 : o₁ = o'
    · subst h1
      have : ¬ o₁ = o := fun e => hne e.symm
      simp [getObj, this, ih]
    · have : (o₁ == o') = false := by simpa using h1
      simp only [this, Bool.not_false, if_true, getObj]
      split
      · rfl
      · exact ih

/-- the object a write targets, if any -/
def target : Write → Option Obj
  | .putObj o _ => some o
  | .delObj o => some o
  | .putMeta _ => none

theorem getObj_apply (D : Durable) (w : Write) (o : Obj) (h : target w ≠ some o) :
    getObj (D.apply w).objs o = getObj D.objs o := by
  cases w with
  | putObj o' p =>
    have hne : o ≠ o' := fun e => h (by simp [target, e])
    have : ¬ o' = o := fun e => hne e.symm
    simp [Durable.apply, getObj, this, getObj_dropObj_ne o o' hne]
  | putMeta m => rfl
  | delObj o' =>
    have hne : o ≠ o' := fun e => h (by simp [target, e])
    simp [Durable.apply, getObj_dropObj_ne o o' hne]

theorem loadObjs_congr (objs objs' : List (Obj × Payload)) : ∀ (os : List Obj) (acc : OMap),
    (∀ o ∈ os, getObj objs o = getObj objs' o) → loadObjs objs os acc = loadObjs objs' os acc
  | [], _, _ => rfl
  | o :: os, acc, h => by
    simp only [loadObjs]
    rw [h o (by simp)]
    split
    · exact loadObjs_congr objs objs' os acc (fun o' ho' => h o' (List.mem_cons_of_mem _ ho'))
    · exact loadObjs_congr objs objs' os _ (fun o' ho' => h o' (List.mem_cons_of_mem _ ho'))

/-- two stores with the same metadata that agree on every referenced object load the same -/
theorem load_congr (D D' : Durable) (hm : D'.md = D.md)
    (h : ∀ m, D.md = some m → ∀ o ∈ referenced m, getObj D'.objs o = getObj D.objs o) : load D' = load D := by
  unfold load
  rw [hm]
  cases hmd : D.md with
  | none => rfl
  | some m =>
    simp only [Option.map_some]
    rw [loadObjs_congr D'.objs D.objs (referenced m) [] (h m hmd)]

/-- a write that keeps the metadata and misses every referenced object -/
def Invisible (md : Option Meta) (w : Write) : Prop :=
  (∀ m, w ≠ .putMeta m) ∧ ∀ m, md = some m → ∀ o ∈ referenced m, target w ≠ some o

theorem invisible_of_freshPut (md : Option Meta) (w : Write) (h : isFreshPut md w = true) : Invisible md w := by
  cases w with
  | putObj o p =>
    refine ⟨fun m e => (by cases e), ?_⟩
    intro m hm o' ho' e
    simp only [target, Option.some.injEq] at e
    subst e
    simp [isFreshPut, hm] at h
    exact h ho'
  | putMeta m => simp [isFreshPut] at h
  | delObj o => simp [isFreshPut] at h

theorem invisible_of_safeDel (m : Meta) (w : Write) (h : isSafeDel m w = true) : Invisible (some m) w := by
  cases w with
  | delObj o =>
    refine ⟨fun m e => (by cases e), ?_⟩
    intro m' hm o' ho' e
    simp only [Option.some.injEq] at hm
    subst hm
    simp only [target, Option.some.injEq] at e
    subst e
    simp [isSafeDel] at h
    exact h ho'
  | putMeta m => simp [isSafeDel] at h
  | putObj o p => simp [isSafeDel] at h

theorem md_apply_invisible (D : Durable) (w : Write) (h : Invisible D.md w) : (D.apply w).md = D.md := by
  cases w with
  | putObj o p => rfl
  | delObj o => rfl
  | putMeta m => exact absurd rfl (h.1 m)

theorem load_applyAll_invisible : ∀ (ws : List Write) (D : Durable), (∀ w ∈ ws, Invisible D.md w) →
    load (applyAll D ws) = load D ∧ (applyAll D ws).md = D.md
  | [], D, _ => ⟨rfl, rfl⟩
  | w :: ws, D, h => by
    have hw := h w (by simp)
    have hmd := md_apply_invisible D w hw
    have ih := load_applyAll_invisible ws (D.apply w) (fun w' hw' => by rw [hmd]; exact h w' (List.mem_cons_of_mem _ hw'))
    have h1 : load (D.apply w) = load D :=
      load_congr D (D.apply w) hmd (fun m hm o ho => getObj_apply D w o (hw.2 m hm o ho))
    simp only [applyAll, List.foldl_cons] at ih ⊢
    exact ⟨ih.1.trans h1, ih.2.trans hmd⟩

theorem applyAll_append (D : Durable) (a b : List Write) : applyAll D (a ++ b) = applyAll (applyAll D a) b := by
  simp [applyAll, List.foldl_append]

theorem load_prefix (D : Durable) (ws : List Write) (h : flushShape D ws = true) (j : Nat) :
    load (applyAll D (ws.take j)) =
      if j ≤ commitIdx D ws then load D else load (applyAll D (ws.take (commitIdx D ws + 1))) := by
  have hsplit : ws.takeWhile (isFreshPut D.md) ++ ws.dropWhile (isFreshPut D.md) = ws :=
    List.takeWhile_append_dropWhile
  have hpre : ∀ w ∈ ws.takeWhile (isFreshPut D.md), Invisible D.md w := by
    intro w hw
    exact invisible_of_freshPut D.md w (List.all_eq_true.1 List.all_takeWhile w hw)
  unfold flushShape at h
  unfold commitIdx
  generalize ws.takeWhile (isFreshPut D.md) = pre at hsplit hpre
  generalize ws.dropWhile (isFreshPut D.md) = rest at hsplit h
  split at h
  · rename_i m dels
    subst hsplit
    have hdels : ∀ w ∈ dels, isSafeDel m w = true := List.all_eq_true.1 h
    have hD1 := load_applyAll_invisible pre D hpre
    have hcommit : (pre ++ Write.putMeta m :: dels).take (pre.length + 1) = pre ++ [Write.putMeta m] := by
      rw [List.take_length_add_append]; rfl
    split
    · rename_i hj
      rw [List.take_append_of_le_length hj]
      exact (load_applyAll_invisible (pre.take j) D (fun w hw => hpre w (List.mem_of_mem_take hw))).1
    · rename_i hj
      have hj' : j = pre.length + (j - pre.length - 1 + 1) := by omega
      rw [hcommit, hj', List.take_length_add_append, List.take_succ_cons]
      have : pre ++ Write.putMeta m :: List.take (j - pre.length - 1) dels
          = (pre ++ [Write.putMeta m]) ++ List.take (j - pre.length - 1) dels := by simp
      rw [this, applyAll_append]
      have hmd1 : (applyAll D (pre ++ [Write.putMeta m])).md = some m := by
        rw [applyAll_append]; rfl
      refine (load_applyAll_invisible _ _ ?_).1
      intro w hw
      rw [hmd1]
      exact invisible_of_safeDel m w (hdels w (List.mem_of_mem_take hw))
  · cases h

/-- bucket PUTs of a flush that never reached its commit (failed or interrupted) change nothing -/
theorem load_uncommitted (D : Durable) (ws : List Write) (h : ws.all (isFreshPut D.md) = true) :
    load (applyAll D ws) = load D :=
  (load_applyAll_invisible ws D (fun w hw => invisible_of_freshPut D.md w (List.all_eq_true.1 h w hw))).1

end BTreeFlush
end AndaVerif
