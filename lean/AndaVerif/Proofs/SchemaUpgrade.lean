import AndaVerif.Proofs.SchemaDocProofs
/-
`Schema::upgrade_with`: stable index allocation. Kept names keep their index, new names get an index
at or above the old allocation watermark, the watermark never decreases — hence along any chain of
upgrades (add / remove / re-add) no index is ever bound to two different fields.
-/
namespace AndaVerif.Schema

/-- what `assign` does to one entry -/
def Assigned (old : Schema) (lo hi : Nat) (f : FieldEntry) : Prop :=
  (∃ g, old.byName f.name = some g ∧ f.idx = g.idx) ∨
    (old.byName f.name = none ∧ lo ≤ f.idx ∧ f.idx < hi)

theorem assign_spec (old : Schema) : ∀ (fs : List FieldEntry) (next : Nat),
    next ≤ (Schema.upgradeWith.assign old next fs).2 ∧
      (Schema.upgradeWith.assign old next fs).1.map (·.name) = fs.map (·.name) ∧
      (∀ f ∈ (Schema.upgradeWith.assign old next fs).1,
        Assigned old next (Schema.upgradeWith.assign old next fs).2 f) ∧
      ((Schema.upgradeWith.assign old next fs).1.filter (fun f => (old.byName f.name).isNone)).Pairwise
        (fun a b => a.idx ≠ b.idx) := by
  intro fs
  induction fs with
  | nil => intro next; simp [Schema.upgradeWith.assign]
  | cons f rest ih =>
    intro next
    cases hb : old.byName f.name with
    | some g =>
      obtain ⟨h1, h2, h3, h4⟩ := ih next
      simp only [Schema.upgradeWith.assign, hb]
      refine ⟨h1, by simp [h2], ?_, ?_⟩
      · intro x hx
        cases hx with
        | head => exact .inl ⟨g, hb, rfl⟩
        | tail _ hm => exact h3 x hm
      · simpa [List.filter_cons, hb] using h4
    | none =>
      obtain ⟨h1, h2, h3, h4⟩ := ih (next + 1)
      simp only [Schema.upgradeWith.assign, hb]
      refine ⟨by omega, by simp [h2], ?_, ?_⟩
      · intro x hx
        cases hx with
        | head => exact .inr ⟨hb, Nat.le_refl _, by show next < _; omega⟩
        | tail _ hm =>
          rcases h3 x hm with h | ⟨ha, hb', hc⟩
          · exact .inl h
          · exact .inr ⟨ha, by omega, hc⟩
      · simp only [List.filter_cons, hb, Option.isNone_none, if_true, List.pairwise_cons]
        refine ⟨?_, h4⟩
        intro x hx
        have hx' := (List.mem_filter.1 hx)
        rcases h3 x hx'.1 with ⟨g, hg, _⟩ | ⟨_, hlo, _⟩
        · simp [hg] at hx'
        · show next ≠ x.idx; omega

theorem upgradeWith_spec (new old s' : Schema) (h : Schema.upgradeWith new old = some s') :
    old.allocatedIdxEnd ≤ s'.nextIdx ∧ s'.version = new.version ∧ old.version < s'.version ∧
      s'.fields.map (·.name) = new.fields.map (·.name) ∧
      (∀ f ∈ s'.fields, Assigned old old.allocatedIdxEnd s'.nextIdx f) ∧
      (s'.fields.filter (fun f => (old.byName f.name).isNone)).Pairwise (fun a b => a.idx ≠ b.idx) := by
  unfold Schema.upgradeWith at h
  by_cases hv : new.version > old.version
  · simp only [hv, decide_true, Bool.not_true, Bool.false_eq_true, if_false] at h
    by_cases hc : Schema.upgradeWith.check old old.allocatedIdxEnd new.fields = true
    · simp only [hc, if_true, Option.some.injEq] at h
      subst h
      obtain ⟨h1, h2, h3, h4⟩ := assign_spec old new.fields old.allocatedIdxEnd
      exact ⟨h1, rfl, hv, h2, h3, h4⟩
    · simp [hc] at h
  · simp [hv] at h

theorem watermark_le (s : Schema) : s.nextIdx ≤ s.allocatedIdxEnd := by
  unfold Schema.allocatedIdxEnd; exact Nat.le_max_left _ _

end AndaVerif.Schema

namespace AndaVerif.Schema

theorem byName_some (s : Schema) (n : String) (g : FieldEntry) (h : s.byName n = some g) :
    g ∈ s.fields ∧ g.name = n := by
  unfold Schema.byName at h
  exact ⟨List.mem_of_find?_eq_some h, by simpa using List.find?_some h⟩

/-- `BTreeMap` / `BTreeSet` invariants of a schema: distinct names, distinct indexes -/
structure SchemaWF (s : Schema) : Prop where
  names : s.fields.Pairwise (fun a b => a.name ≠ b.name)
  idxs : s.fields.Pairwise (fun a b => a.idx ≠ b.idx)

theorem pairwise_mem_ne {α : Type} (R : α → α → Prop) (hs : ∀ a b, R a b → R b a) (xs : List α)
    (hp : xs.Pairwise R) (a b : α) (ha : a ∈ xs) (hb : b ∈ xs) (hne : a ≠ b) : R a b := by
  induction xs with
  | nil => cases ha
  | cons x xs ih =>
    rw [List.pairwise_cons] at hp
    cases ha with
    | head =>
      cases hb with
      | head => exact absurd rfl hne
      | tail _ hb' => exact hp.1 b hb'
    | tail _ ha' =>
      cases hb with
      | head => exact hs _ _ (hp.1 a ha')
      | tail _ hb' => exact ih hp.2 ha' hb'

theorem upgrade_keeps_wf (new old s' : Schema) (hold : SchemaWF old)
    (hnew : new.fields.Pairwise (fun a b => a.name ≠ b.name))
    (h : Schema.upgradeWith new old = some s') : SchemaWF s' := by
  obtain ⟨_, _, _, hnames, hass, hfresh⟩ := upgradeWith_spec new old s' h
  have hn : s'.fields.Pairwise (fun a b => a.name ≠ b.name) := by
    have : (s'.fields.map (·.name)).Pairwise (· ≠ ·) := by
      rw [hnames]; exact List.pairwise_map.2 hnew
    exact List.pairwise_map.1 this
  refine ⟨hn, ?_⟩
  -- two entries with different names never share an index
  have key : ∀ a ∈ s'.fields, ∀ b ∈ s'.fields, a.name ≠ b.name → a.idx ≠ b.idx := by
    intro a ha b hb hne
    rcases hass a ha with ⟨ga, hga, hia⟩ | ⟨hna, hla, _⟩
    · obtain ⟨hgam, hgan⟩ := byName_some old _ ga hga
      rcases hass b hb with ⟨gb, hgb, hib⟩ | ⟨_, hlb, _⟩
      · obtain ⟨hgbm, hgbn⟩ := byName_some old _ gb hgb
        have hgne : ga.name ≠ gb.name := by rw [hgan, hgbn]; exact hne
        have : ga.idx ≠ gb.idx := by
          intro e
          have h1 := find_idx_of_mem old.fields hold.idxs ga hgam
          have h2 := find_idx_of_mem old.fields hold.idxs gb hgbm
          rw [e, h2] at h1
          exact hgne (by rw [Option.some.inj h1])
        rw [hia, hib]; exact this
      · have := idx_lt_end old ga hgam
        rw [hia]; omega
    · rcases hass b hb with ⟨gb, hgb, hib⟩ | ⟨hnb, _, _⟩
      · obtain ⟨hgbm, _⟩ := byName_some old _ gb hgb
        have := idx_lt_end old gb hgbm
        rw [hib]; omega
      · -- both fresh
        have ha' : a ∈ s'.fields.filter (fun f => (old.byName f.name).isNone) :=
          List.mem_filter.2 ⟨ha, by simp [hna]⟩
        have hb' : b ∈ s'.fields.filter (fun f => (old.byName f.name).isNone) :=
          List.mem_filter.2 ⟨hb, by simp [hnb]⟩
        have hne' : a ≠ b := fun e => hne (by rw [e])
        exact pairwise_mem_ne (fun a b => a.idx ≠ b.idx) (fun _ _ h e => h e.symm) _ hfresh a b ha' hb' hne'
  exact hn.imp_of_mem (fun {a b} ha hb hab => key a ha b hb hab)

/-- a chain of accepted upgrades; every new schema comes from the builder (distinct names) -/
inductive Chain : Schema → Schema → Prop
  | refl (s : Schema) : Chain s s
  | step {s t new u : Schema} : Chain s t →
      new.fields.Pairwise (fun a b => a.name ≠ b.name) →
      Schema.upgradeWith new t = some u → Chain s u

theorem chain_inv {s t : Schema} (hc : Chain s t) (hs : SchemaWF s) :
    SchemaWF t ∧ s.allocatedIdxEnd ≤ t.allocatedIdxEnd ∧
      ∀ g ∈ t.fields, g.idx < s.allocatedIdxEnd → ∃ f ∈ s.fields, f.name = g.name ∧ f.idx = g.idx := by
  induction hc with
  | refl => exact ⟨hs, Nat.le_refl _, fun g hg _ => ⟨g, hg, rfl, rfl⟩⟩
  | step hc' hnew hup ih =>
    rename_i t new u
    obtain ⟨hwf, hle, hback⟩ := ih
    obtain ⟨h1, _, _, _, hass, _⟩ := upgradeWith_spec new t u hup
    refine ⟨upgrade_keeps_wf new t u hwf hnew hup, ?_, ?_⟩
    · exact Nat.le_trans hle (Nat.le_trans h1 (watermark_le u))
    · intro g hg hlt
      rcases hass g hg with ⟨g', hg', hidx⟩ | ⟨_, hlo, _⟩
      · obtain ⟨hm, hn⟩ := byName_some t _ g' hg'
        obtain ⟨f, hf, hfn, hfi⟩ := hback g' hm (by omega)
        exact ⟨f, hf, by rw [hfn, hn], by rw [hfi, hidx]⟩
      · omega

end AndaVerif.Schema

namespace AndaVerif.Schema

/-- new (not inherited) fields of an accepted upgrade are optional -/
theorem check_fresh_optional (old : Schema) : ∀ (fs : List FieldEntry) (next : Nat),
    Schema.upgradeWith.check old next fs = true →
      ∀ f ∈ fs, old.byName f.name = none → f.required = false := by
  intro fs
  induction fs with
  | nil => intro _ _ f hf; cases hf
  | cons g rest ih =>
    intro next hc f hf hn
    cases hb : old.byName g.name with
    | some o =>
      simp only [Schema.upgradeWith.check, hb, Bool.and_eq_true] at hc
      cases hf with
      | head => rw [hb] at hn; cases hn
      | tail _ hm => exact ih next hc.2 f hm hn
    | none =>
      simp only [Schema.upgradeWith.check, hb, Bool.and_eq_true, Bool.not_eq_true'] at hc
      cases hf with
      | head => exact hc.1.1
      | tail _ hm => exact ih (next + 1) hc.2 f hm hn

theorem assign_keeps (old : Schema) : ∀ (fs : List FieldEntry) (next : Nat),
    ∀ f' ∈ (Schema.upgradeWith.assign old next fs).1, ∃ f ∈ fs, f'.name = f.name ∧ f'.ty = f.ty ∧ f'.unique = f.unique := by
  intro fs
  induction fs with
  | nil => intro next f' hf'; simp [Schema.upgradeWith.assign] at hf'
  | cons g rest ih =>
    intro next f' hf'
    cases hb : old.byName g.name with
    | some o =>
      simp only [Schema.upgradeWith.assign, hb] at hf'
      cases hf' with
      | head => exact ⟨g, by simp, rfl, rfl, rfl⟩
      | tail _ hm =>
        obtain ⟨f, hf, h⟩ := ih next f' hm
        exact ⟨f, by simp [hf], h⟩
    | none =>
      simp only [Schema.upgradeWith.assign, hb] at hf'
      cases hf' with
      | head => exact ⟨g, by simp, rfl, rfl, rfl⟩
      | tail _ hm =>
        obtain ⟨f, hf, h⟩ := ih (next + 1) f' hm
        exact ⟨f, by simp [hf], h⟩

theorem upgrade_fresh_optional (new old s' : Schema) (h : Schema.upgradeWith new old = some s') :
    ∀ f ∈ s'.fields, old.byName f.name = none → f.required = false := by
  unfold Schema.upgradeWith at h
  by_cases hv : new.version > old.version
  · simp only [hv, decide_true, Bool.not_true, Bool.false_eq_true, if_false] at h
    by_cases hc : Schema.upgradeWith.check old old.allocatedIdxEnd new.fields = true
    · simp only [hc, if_true, Option.some.injEq] at h
      subst h
      intro f' hf' hn
      obtain ⟨f, hf, hname, hty, _⟩ := assign_keeps old new.fields old.allocatedIdxEnd f' hf'
      have := check_fresh_optional old new.fields _ hc f hf (by rw [← hname]; exact hn)
      simpa [FieldEntry.required, hty] using this
    · simp [hc] at h
  · simp [hv] at h

theorem storeDecode_filter (fm : FloatModel) (p : Nat → Bool) : ∀ (d r : Doc),
    Doc.storeDecode fm d = some r →
      Doc.storeDecode fm (d.filter (fun e => p e.1)) = some (r.filter (fun e => p e.1)) := by
  intro d
  induction d with
  | nil => intro r h; simp [Doc.storeDecode] at h; subst h; simp [Doc.storeDecode]
  | cons e d ih =>
    intro r h
    obtain ⟨i, v⟩ := e
    simp only [Doc.storeDecode] at h
    cases h1 : toDM fm v with
    | none => simp [h1] at h
    | some dm =>
      cases h2 : readBack fm dm with
      | none => simp [h1, h2] at h
      | some x =>
        cases h3 : Doc.storeDecode fm d with
        | none => simp [h1, h2, h3] at h
        | some rs =>
          simp only [h1, h2, h3, Option.some.injEq] at h
          subst h
          have := ih rs h3
          by_cases hp : p i = true
          · simp [List.filter_cons, hp, Doc.storeDecode, h1, h2, this]
          · simp [List.filter_cons, hp, this]

theorem storeDecode_keys (fm : FloatModel) : ∀ (d r : Doc), Doc.storeDecode fm d = some r →
    r.map (·.1) = d.map (·.1) := by
  intro d
  induction d with
  | nil => intro r h; simp [Doc.storeDecode] at h; subst h; rfl
  | cons e d ih =>
    intro r h
    obtain ⟨i, v⟩ := e
    simp only [Doc.storeDecode] at h
    cases h1 : toDM fm v with
    | none => simp [h1] at h
    | some dm =>
      cases h2 : readBack fm dm with
      | none => simp [h1, h2] at h
      | some x =>
        cases h3 : Doc.storeDecode fm d with
        | none => simp [h1, h2, h3] at h
        | some rs =>
          simp only [h1, h2, h3, Option.some.injEq] at h
          subst h
          simp [ih rs h3]

/-- **Old documents stay readable, surviving fields unchanged** — for an accepted upgrade that
leaves the types of the surviving fields as they were (add / remove / re-add of top-level fields):
a document that was valid (canonical, complete) under the old schema decodes under the new one to
exactly its surviving fields; values of removed fields are dropped, nothing else changes. -/
theorem upgrade_preserves_same_types (fm : FloatModel) (hfm : fm.Lawful) (new old s' : Schema)
    (hold : SchemaWF old) (hnew : new.fields.Pairwise (fun a b => a.name ≠ b.name))
    (hup : Schema.upgradeWith new old = some s')
    (hty : ∀ f ∈ s'.fields, ∀ g, old.byName f.name = some g → f.ty = g.ty)
    (d : Doc) (hok : ∀ e ∈ d, FieldOk fm old e)
    (hreq : ∀ f ∈ old.fields, f.required = true → ∃ e ∈ d, e.1 = f.idx) :
    ∃ r, Doc.storeDecode fm d = some r ∧
      tryFromDoc fm s' r = some (d.filter (fun e => s'.idxs.contains e.1)) := by
  have hwf' := upgrade_keeps_wf new old s' hold hnew hup
  obtain ⟨hend, _, _, _, hass, _⟩ := upgradeWith_spec new old s' hup
  -- a surviving entry is inherited: same name, index and type as the old field it was written under
  have hsurv : ∀ e ∈ d, ∀ f' ∈ s'.fields, f'.idx = e.1 →
      ∃ g ∈ old.fields, g.idx = e.1 ∧ f'.name = g.name ∧ f'.ty = g.ty := by
    intro e he f' hf' hidx
    obtain ⟨g0, hg0, hg0i, _⟩ := hok e he
    rcases hass f' hf' with ⟨g, hg, hgi⟩ | ⟨_, hlo, _⟩
    · obtain ⟨hgm, hgn⟩ := byName_some old _ g hg
      exact ⟨g, hgm, by rw [← hgi, hidx], hgn.symm, hty f' hf' g hg⟩
    · have := idx_lt_end old g0 hg0
      omega
  have hok' : ∀ e ∈ d.filter (fun e => s'.idxs.contains e.1), FieldOk fm s' e := by
    intro e he
    obtain ⟨hed, hin⟩ := List.mem_filter.1 he
    simp only [List.contains_iff_mem] at hin
    obtain ⟨f', hf', hidx⟩ := List.mem_map.1 hin
    obtain ⟨g, hgm, hgi, _, hgt⟩ := hsurv e hed f' hf' hidx
    obtain ⟨g0, hg0, hg0i, hc, hwf, hb⟩ := hok e hed
    have : g0 = g := by
      have h1 := find_idx_of_mem old.fields hold.idxs g0 hg0
      have h2 := find_idx_of_mem old.fields hold.idxs g hgm
      rw [hg0i, ← hgi, h2] at h1
      exact (Option.some.inj h1).symm
    subst this
    exact ⟨f', hf', hidx, by rw [hgt]; exact hc, hwf, hb⟩
  have hreq' : ∀ f ∈ s'.fields, f.required = true →
      ∃ e ∈ d.filter (fun e => s'.idxs.contains e.1), e.1 = f.idx := by
    intro f' hf' hr
    rcases hass f' hf' with ⟨g, hg, hgi⟩ | ⟨hn, _, _⟩
    · obtain ⟨hgm, _⟩ := byName_some old _ g hg
      have hgr : g.required = true := by
        have := hty f' hf' g hg
        simpa [FieldEntry.required, this] using hr
      obtain ⟨e, he, hei⟩ := hreq g hgm hgr
      refine ⟨e, List.mem_filter.2 ⟨he, ?_⟩, by rw [hei, hgi]⟩
      simp only [List.contains_iff_mem]
      exact List.mem_map.2 ⟨f', hf', by rw [hgi, hei]⟩
    · have := upgrade_fresh_optional new old s' hup f' hf' hn
      rw [this] at hr; cases hr
  obtain ⟨r', hr', htry⟩ := tryFromDoc_storeDecode fm hfm s' hwf'.idxs _ hok' hreq'
  -- the stored bytes still carry the retired fields; decoding commutes with dropping them
  obtain ⟨r, hr, _, _⟩ := storeDecode_renorm fm hfm old hold.idxs d hok
  refine ⟨r, hr, ?_⟩
  have hfil := storeDecode_filter fm (fun i => s'.idxs.contains i) d r hr
  rw [hr'] at hfil
  have hr'eq : r' = r.filter (fun e => s'.idxs.contains e.1) := Option.some.inj hfil
  have hkeys := storeDecode_keys fm d r hr
  have hany : r.any (fun e => decide (e.1 ≥ s'.allocatedIdxEnd)) = false := by
    rw [List.any_eq_false]
    intro e he
    have : e.1 ∈ d.map (·.1) := by rw [← hkeys]; exact List.mem_map.2 ⟨e, he, rfl⟩
    obtain ⟨e', he', heq⟩ := List.mem_map.1 this
    obtain ⟨g, hg, hgi, _⟩ := hok e' he'
    have h1 := idx_lt_end old g hg
    have h2 := watermark_le s'
    simp only [decide_eq_true_eq]; omega
  -- `tryFromDoc` on `r` and on its filtered part agree
  have hany' : r'.any (fun e => decide (e.1 ≥ s'.allocatedIdxEnd)) = false := by
    rw [hr'eq, List.any_eq_false]
    intro e he
    exact (List.any_eq_false.1 hany) e (List.mem_filter.1 he).1
  unfold tryFromDoc at htry ⊢
  simp only [hany, hany', Bool.false_eq_true, if_false] at htry ⊢
  rw [hr'eq, List.filter_filter] at htry
  simpa using htry

end AndaVerif.Schema
