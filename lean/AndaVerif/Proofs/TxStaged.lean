import AndaVerif.Proofs.TxPlan
/-
What planning keeps true of the staged rows (the `BTreeMap<ElementId, Staged>` of a transaction):
one entry per id; a row loaded from the store carries the stored version and the stored immutable
columns (type, key, tuple, payload) and is never marked `create`; a row built by a clause is `create`.
-/
namespace AndaVerif.Tx

/-! ## The staged map -/

theorem stGet_mem {m : List (Id × Staged)} {i : Id} {x : Staged} (h : stGet m i = some x) : (i, x) ∈ m := by
  induction m with
  | nil => cases h
  | cons p r ih =>
      obtain ⟨j, y⟩ := p
      simp only [stGet] at h
      split at h
      · rename_i hj; cases h; subst hj; exact List.mem_cons_self
      · exact List.mem_cons_of_mem _ (ih h)

theorem stGet_none_keys {m : List (Id × Staged)} {i : Id} (h : stGet m i = none) : i ∉ m.map (·.1) := by
  induction m with
  | nil => simp
  | cons p r ih =>
      obtain ⟨j, y⟩ := p
      simp only [stGet] at h
      split at h
      · cases h
      · rename_i hj
        simp only [List.map_cons, List.mem_cons, not_or]
        exact ⟨fun e => hj e.symm, ih h⟩

theorem mem_stInsert {m : List (Id × Staged)} {i : Id} {x : Staged} {p : Id × Staged}
    (h : p ∈ stInsert m i x) : p = (i, x) ∨ p ∈ m := by
  induction m with
  | nil => simp [stInsert] at h; exact .inl h
  | cons q r ih =>
      obtain ⟨j, y⟩ := q
      simp only [stInsert] at h
      split at h
      · simp only [List.mem_cons] at h ⊢
        rcases h with h | h | h
        · exact .inl h
        · exact .inr (.inl h)
        · exact .inr (.inr h)
      · simp only [List.mem_cons] at h ⊢
        rcases h with h | h
        · exact .inr (.inl h)
        · rcases ih h with h | h
          · exact .inl h
          · exact .inr (.inr h)

theorem mem_stSet {m : List (Id × Staged)} {i : Id} {x : Staged} {p : Id × Staged}
    (h : p ∈ stSet m i x) : p = (i, x) ∨ p ∈ m := by
  unfold stSet at h
  split at h
  · simp only [stReplace, List.mem_map] at h
    obtain ⟨q, hq, he⟩ := h
    split at he
    · exact .inl he.symm
    · exact .inr (he ▸ hq)
  · exact mem_stInsert h

theorem keys_stReplace (m : List (Id × Staged)) (i : Id) (x : Staged) :
    (stReplace m i x).map (·.1) = m.map (·.1) := by
  induction m with
  | nil => rfl
  | cons p r ih =>
      simp only [stReplace, List.map_cons, List.map_map] at ih ⊢
      rw [ih]
      congr 1
      split
      · rename_i h; exact h.symm
      · rfl

theorem keys_stInsert_mem {m : List (Id × Staged)} {i : Id} {x : Staged} {j : Id}
    (h : j ∈ (stInsert m i x).map (·.1)) : j = i ∨ j ∈ m.map (·.1) := by
  simp only [List.mem_map] at h ⊢
  obtain ⟨p, hp, he⟩ := h
  rcases mem_stInsert hp with h | h
  · exact .inl (by rw [← he, h])
  · exact .inr ⟨p, h, he⟩

theorem keys_stInsert_nodup {m : List (Id × Staged)} {i : Id} {x : Staged}
    (hn : (m.map (·.1)).Nodup) (hi : i ∉ m.map (·.1)) : ((stInsert m i x).map (·.1)).Nodup := by
  induction m with
  | nil => simp [stInsert]
  | cons q r ih =>
      obtain ⟨j, y⟩ := q
      simp only [List.map_cons, List.nodup_cons, List.mem_cons, not_or] at hn hi
      simp only [stInsert]
      split
      · simp only [List.map_cons, List.nodup_cons, List.mem_cons, not_or]
        exact ⟨⟨hi.1, hi.2⟩, hn.1, hn.2⟩
      · simp only [List.map_cons, List.nodup_cons]
        refine ⟨?_, ih hn.2 hi.2⟩
        intro hm
        rcases keys_stInsert_mem hm with h | h
        · exact hi.1 h.symm
        · exact hn.1 h

theorem keys_stSet_nodup {m : List (Id × Staged)} (i : Id) (x : Staged)
    (hn : (m.map (·.1)).Nodup) : ((stSet m i x).map (·.1)).Nodup := by
  unfold stSet
  split
  · rw [keys_stReplace]; exact hn
  · rename_i h
    have : stGet m i = none := by
      cases hg : stGet m i with
      | none => rfl
      | some y => simp [hg] at h
    exact keys_stInsert_nodup hn (stGet_none_keys this)

/-! ## The invariant -/

/-- the immutable columns of a staged copy are those of the stored row — or they were wiped by a
staged purge, which also schedules the element's version rows for destruction -/
def Imm (e : Elem) (x : Staged) : Prop :=
  (e.row.ty = x.row.ty ∧ e.row.key = x.row.key ∧ e.row.tup = x.row.tup ∧ e.row.pay = x.row.pay) ∨
  (x.row.ty = 0 ∧ x.row.key = 0 ∧ x.row.tup = none ∧ x.row.pay = 0 ∧ x.erase = true)

/-- one staged entry against the store the transaction plans on -/
def EntryOK (s : Store) (p : Id × Staged) : Prop :=
  (p.2.isNew = true → p.2.op = .create ∨ p.2.op = .purge) ∧
  (p.2.isNew = false → p.2.op ≠ .create ∧
    ∃ e, s.elems p.1 = some e ∧ e.version = p.2.version ∧ Imm e p.2) ∧
  (p.2.erase = true → p.2.changed = true)

structure SInv (p : PS) : Prop where
  wf : WF p.s
  entries : ∀ q ∈ p.tx.staged, EntryOK p.s q
  keys : (p.tx.staged.map (·.1)).Nodup

def SPres (f : Store → Tx → PS) : Prop :=
  ∀ (s : Store) (tx : Tx) (e : Option Err), SInv { s := s, tx := tx, err := e } → SInv (f s tx)

theorem SInv.andThen {p : PS} (h : SInv p) {f : Store → Tx → PS} (hf : SPres f) : SInv (p.andThen f) := by
  unfold PS.andThen
  split
  · exact h
  · exact hf p.s p.tx p.err (by cases p; exact h)

theorem SPres.chain {f g : Store → Tx → PS} (hf : SPres f) (hg : SPres g) : SPres (fun s tx => (f s tx).andThen g) :=
  fun s tx e h => (hf s tx e h).andThen hg

/-- a step that leaves store and staged map alone -/
theorem SInv.same {s : Store} {tx tx' : Tx} {e e' : Option Err} (h : SInv { s := s, tx := tx, err := e })
    (hst : tx'.staged = tx.staged) : SInv { s := s, tx := tx', err := e' } :=
  { wf := h.wf, entries := by intro q hq; exact h.entries q (hst ▸ hq), keys := by show (tx'.staged.map _).Nodup; rw [hst]; exact h.keys }

/-- staging one more (or replacing one) entry that is fine -/
theorem SInv.set {s : Store} {tx : Tx} {e e' : Option Err} (h : SInv { s := s, tx := tx, err := e })
    (i : Id) (x : Staged) (hx : EntryOK s (i, x)) {tx' : Tx} (hst : tx'.staged = stSet tx.staged i x) :
    SInv { s := s, tx := tx', err := e' } :=
  { wf := h.wf,
    entries := by
      intro q hq
      have hq' : q ∈ stSet tx.staged i x := hst ▸ hq
      rcases mem_stSet hq' with hq | hq
      · rw [hq]; exact hx
      · exact h.entries q hq,
    keys := by show (tx'.staged.map _).Nodup; rw [hst]; exact keys_stSet_nodup i x h.keys }

theorem load_entry {s : Store} {tx tx' : Tx} {id : Id} {x : Staged} {e : Option Err}
    (h : SInv { s := s, tx := tx, err := e }) (hl : load s tx id = .ok (tx', x)) :
    SInv { s := s, tx := tx', err := none } ∧ EntryOK s (id, x) := by
  unfold load at hl
  split at hl
  · rename_i y hy
    cases hl
    exact ⟨h.same rfl, h.entries _ (stGet_mem hy)⟩
  · split at hl
    · cases hl
    · rename_i el hel
      cases hl
      have hx : EntryOK s (id, Staged.ofElem el) :=
        ⟨(by intro h; cases h), fun _ => ⟨(by intro h; cases h), el, hel, rfl, .inl ⟨rfl, rfl, rfl, rfl⟩⟩, (by intro h; cases h)⟩
      exact ⟨h.set id _ hx rfl, hx⟩

theorem expectVersion_sinv {s : Store} {tx tx' : Tx} {id : Id} {v : Nat} {e : Option Err}
    (h : SInv { s := s, tx := tx, err := e }) (hl : expectVersion s tx id v = .ok tx') :
    SInv { s := s, tx := tx', err := none } := by
  unfold expectVersion at hl
  split at hl
  · cases hl
  · rename_i tx1 x hld
    split at hl
    · cases hl; exact (load_entry h hld).1
    · cases hl

/-- an edit of a staged copy that keeps the immutable columns, the version and the purge mark -/
theorem EntryOK.edit {s : Store} {id : Id} {x y : Staged} (hx : EntryOK s (id, x)) (op : Op) (hop : op ≠ .create)
    (hnew : y.isNew = x.isNew) (hver : y.version = x.version) (hty : y.row.ty = x.row.ty) (hkey : y.row.key = x.row.key)
    (htup : y.row.tup = x.row.tup) (hpay : y.row.pay = x.row.pay) (hyop : y.op = if x.isNew then x.op else op)
    (her : y.erase = x.erase) (hch : y.changed = true) : EntryOK s (id, y) := by
  refine ⟨?_, ?_, fun _ => hch⟩
  · intro hn
    have hxn : x.isNew = true := hnew ▸ hn
    show y.op = .create ∨ y.op = .purge
    rw [hyop]; simp only [hxn, if_true]; exact hx.1 hxn
  · intro hn
    have hxn : x.isNew = false := hnew ▸ hn
    obtain ⟨_, e, he, hv, himm⟩ := hx.2.1 hxn
    refine ⟨?_, e, he, hv.trans hver.symm, ?_⟩
    · show y.op ≠ .create
      rw [hyop]; simp only [hxn, Bool.false_eq_true, if_false]; exact hop
    · rcases himm with ⟨h1, h2, h3, h4⟩ | ⟨h1, h2, h3, h4, h5⟩
      · exact .inl ⟨h1.trans hty.symm, h2.trans hkey.symm, h3.trans htup.symm, h4.trans hpay.symm⟩
      · exact .inr ⟨hty.trans h1, hkey.trans h2, htup.trans h3, hpay.trans h4, her.trans h5⟩

theorem spres_pFail (e : Err) : SPres (fun s tx => PS.fail s tx e) := fun _ _ _ h => h.same rfl

theorem spres_pGuard (b : Bool) (e : Err) : SPres (pGuard b e) := by
  intro s tx e' h; unfold pGuard; split <;> exact h.same rfl

theorem spres_pLoad (id : Id) : SPres (pLoad id) := by
  intro s tx e h
  unfold pLoad
  split
  · exact h.same rfl
  · rename_i hl; exact (load_entry h hl).1

theorem spres_pExpect (id : Id) (x : Option Nat) : SPres (pExpect id x) := by
  intro s tx e h
  unfold pExpect
  split
  · exact h.same rfl
  · split
    · exact h.same rfl
    · rename_i hl; exact expectVersion_sinv h hl

theorem spres_pBind (hh : Option Nat) (id : Id) : SPres (pBind hh id) := by
  intro s tx e h
  unfold pBind
  split
  · exact h.same rfl
  · unfold bindExisting; split <;> exact h.same rfl

theorem spres_pStageNew (id : Id) (row : Row) : SPres (pStageNew id row) := by
  intro s tx e h
  exact h.set id _ ⟨fun _ => .inl rfl, (by intro hn; cases hn), (by intro hn; cases hn)⟩ rfl

theorem spres_pAssign (id : Id) (v : Option Nat) : SPres (pAssign id v) := by
  intro s tx e h
  unfold pAssign
  split
  · exact h.same rfl
  · rename_i tx1 x hl
    obtain ⟨h1, hx⟩ := load_entry h hl
    split
    · exact h1
    · split
      · exact h1
      · refine h1.set id _ ?_ rfl
        exact hx.edit .update (by decide) rfl rfl rfl rfl rfl rfl rfl rfl rfl

theorem spres_pSetState (id : Id) (to : St) (x : Option St) : SPres (pSetState id to x) := by
  intro s tx e h
  unfold pSetState
  split
  · exact h.same rfl
  · rename_i tx1 y hl
    obtain ⟨h1, hy⟩ := load_entry h hl
    repeat' split
    all_goals first
      | exact h1.same rfl
      | exact h1
      | (refine h1.set id _ ?_ rfl; exact hy.edit _ (by decide) rfl rfl rfl rfl rfl rfl rfl rfl rfl)

theorem spres_pRetract (id : Id) (x : Option Nat) : SPres (pRetract id x) := by
  intro s tx e h
  unfold pRetract
  split
  · exact h.same rfl
  · rename_i tx1 y hl
    obtain ⟨h1, hy⟩ := load_entry h hl
    repeat' split
    all_goals first
      | exact h1.same rfl
      | exact h1
      | (refine h1.set id _ ?_ rfl; exact hy.edit _ (by decide) rfl rfl rfl rfl rfl rfl rfl rfl rfl)

theorem spres_pMergeInto (a b : Id) : SPres (pMergeInto a b) := by
  intro s tx e h
  unfold pMergeInto
  split
  · exact h.same rfl
  · rename_i tx1 y hl
    obtain ⟨h1, hy⟩ := load_entry h hl
    repeat' split
    all_goals first
      | exact h1.same rfl
      | exact h1
      | (refine h1.set a _ ?_ rfl; exact hy.edit _ (by decide) rfl rfl rfl rfl rfl rfl rfl rfl rfl)

theorem spres_pCheck2 (a b : Id) (pred : Staged → Staged → Option Err) : SPres (pCheck2 a b pred) := by
  intro s tx e h
  unfold pCheck2
  split
  · exact h.same rfl
  · rename_i tx1 x hl
    obtain ⟨h1, _⟩ := load_entry h hl
    split
    · exact h1.same rfl
    · rename_i tx2 y hl2
      obtain ⟨h2, _⟩ := load_entry h1 hl2
      split <;> exact h2.same rfl

theorem spres_pExpectStatus (id : Id) (x : Option Nat) : SPres (pExpectStatus id x) := by
  intro s tx e h
  unfold pExpectStatus
  split
  · exact h.same rfl
  · exact spres_pCheck2 _ _ _ _ _ _ h

theorem spres_pEdit (id : Id) (k : Option Kind) (g : Staged → Option Err) (f : Row → Row) (al : Bool) (op : Op)
    (hop : op ≠ .create) : SPres (pEdit id k g f al op) := by
  intro s tx e h
  unfold pEdit
  split
  · exact h.same rfl
  · rename_i tx1 y hl
    obtain ⟨h1, hy⟩ := load_entry h hl
    repeat' split
    all_goals first
      | exact h1.same rfl
      | exact h1
      | (refine h1.set id _ ?_ rfl; exact hy.edit op hop rfl rfl rfl rfl rfl rfl rfl rfl rfl)

theorem applyAct_imm (a : Act) (r : Row) :
    (applyAct a r).ty = r.ty ∧ (applyAct a r).key = r.key ∧ (applyAct a r).tup = r.tup ∧ (applyAct a r).pay = r.pay := by
  cases a <;> exact ⟨rfl, rfl, rfl, rfl⟩

theorem spres_pAct (id : Id) (a : Act) : SPres (pAct id a) := by
  intro s tx e h
  unfold pAct
  split
  · exact h.same rfl
  · rename_i tx1 x hl
    obtain ⟨h1, hx⟩ := load_entry h hl
    split
    · exact h1
    · refine h1.set id _ ?_ rfl
      obtain ⟨i1, i2, i3, i4⟩ := applyAct_imm a x.row
      exact hx.edit .update (by decide) rfl rfl i1 i2 i3 i4 rfl rfl rfl

theorem SInv.pActs (id : Id) (acts : List Act) {p : PS} (h : SInv p) : SInv (pActs id acts p) := by
  unfold Tx.pActs
  induction acts generalizing p with
  | nil => exact h
  | cons a r ih => exact ih (h.andThen (spres_pAct id a))

theorem spres_pPurge (id : Id) (b : Bool) : SPres (pPurge id b) := by
  intro s tx e h
  unfold pPurge
  split
  · exact h.same rfl
  · rename_i tx1 y hl
    obtain ⟨h1, hy⟩ := load_entry h hl
    repeat' split
    all_goals first
      | exact h1.same rfl
      | exact h1
      | skip
    refine h1.set id _ ?_ rfl
    refine ⟨?_, ?_, fun _ => rfl⟩
    · intro _; exact .inr rfl
    · intro hn
      obtain ⟨_, e', he', hv, _⟩ := hy.2.1 hn
      exact ⟨(by intro hh; cases hh), e', he', hv, .inr ⟨rfl, rfl, rfl, rfl, rfl⟩⟩

/-- minting a shell keeps the invariant: the new row sits at a free id -/
theorem SInv.mint {s : Store} {tx : Tx} {e : Option Err} (h : SInv { s := s, tx := tx, err := e }) (k : Kind) :
    SInv { s := (mintShell s tx k).1, tx := (mintShell s tx k).2.1, err := none } := by
  have hwf : WF s := h.wf
  have hfree : s.elems ⟨k, s.next k⟩ = none := hwf ⟨k, s.next k⟩ (Nat.le_refl _)
  refine { wf := ?_, entries := ?_, keys := h.keys }
  · intro i hi
    simp only [mintShell, setElem, bump] at hi ⊢
    split
    · rename_i heq; subst heq; simp at hi; omega
    · apply hwf; split at hi <;> omega
  · intro q hq
    have hq0 := h.entries q hq
    refine ⟨hq0.1, fun hn => ?_, hq0.2.2⟩
    obtain ⟨h1, el, hel, rest⟩ := hq0.2.1 hn
    refine ⟨h1, el, ?_, rest⟩
    simp only [mintShell, setElem]
    split
    · rename_i heq
      have hel' : s.elems q.1 = some el := hel
      rw [heq, hfree] at hel'; cases hel'
    · exact hel

theorem SPres.pMint (k : Kind) {cont : Id → Store → Tx → PS} (hc : ∀ id, SPres (cont id)) : SPres (pMint k cont) := by
  intro s tx e h
  unfold Tx.pMint
  exact hc _ _ _ none (h.mint k)

macro "spres_chain" h:ident : tactic => `(tactic|
  repeat' (first
    | exact spres_pGuard _ _ _ _ _ $h
    | exact spres_pLoad _ _ _ _ $h
    | exact spres_pExpect _ _ _ _ _ $h
    | exact spres_pBind _ _ _ _ _ $h
    | exact spres_pStageNew _ _ _ _ _ $h
    | exact spres_pSetState _ _ _ _ _ _ $h
    | exact spres_pRetract _ _ _ _ _ $h
    | exact spres_pPurge _ _ _ _ _ $h
    | exact spres_pAssign _ _ _ _ _ $h
    | exact spres_pEdit _ _ _ _ _ _ (by decide) _ _ _ $h
    | exact spres_pMergeInto _ _ _ _ _ $h
    | exact spres_pCheck2 _ _ _ _ _ _ $h
    | exact spres_pExpectStatus _ _ _ _ _ $h
    | exact spres_pFail _ _ _ _ $h
    | exact spres_pGuard _ _
    | exact spres_pLoad _
    | exact spres_pExpect _ _
    | exact spres_pBind _ _
    | exact spres_pStageNew _ _
    | exact spres_pAssign _ _
    | exact spres_pEdit _ _ _ _ _ _ (by decide)
    | exact spres_pMergeInto _ _
    | exact spres_pCheck2 _ _ _
    | exact spres_pExpectStatus _ _
    | apply SInv.andThen
    | apply SPres.pMint
    | (intro _id; apply SPres.chain)
    | apply SPres.chain))

theorem applyClause_spres (c : Clause) : SPres (applyClause c) := by
  intro s tx e h
  cases c with
  | update t acts expect bad =>
      simp only [applyClause]
      split
      · spres_chain h
      · apply SInv.pActs
        spres_chain h
  | _ => simp only [applyClause] <;> (repeat' split) <;> spres_chain h

theorem declareClause_spres (c : Clause) : SPres (declareClause c) := by
  intro s tx e h
  unfold declareClause
  split
  · unfold declare
    split
    · exact h.same rfl
    · exact (h.mint .concept).same rfl
  · unfold declare
    split
    · exact h.same rfl
    · exact (h.mint _).same rfl
  · exact h.same rfl

theorem SInv.declareAll (cs : List Clause) {p : PS} (h : SInv p) : SInv (declareAll cs p) := by
  unfold Tx.declareAll
  induction cs generalizing p with
  | nil => exact h
  | cons c cs ih => exact ih (h.andThen (declareClause_spres c))

theorem SInv.applyPass (pass : Nat) (cs : List Clause) {p : PS} (h : SInv p) : SInv (applyPass pass cs p) := by
  unfold Tx.applyPass
  induction cs generalizing p with
  | nil => exact h
  | cons c cs ih =>
      simp only [List.foldl_cons]
      split
      · exact ih (h.andThen (applyClause_spres c))
      · exact ih h

theorem SInv.plan (cs : List Clause) {p : PS} (h : SInv p) : SInv (plan cs p) :=
  (((h.declareAll cs).applyPass 0 cs).applyPass 1 cs).applyPass 2 cs

theorem SInv.begin {s : Store} (hwf : WF s) (dry : Bool) : SInv (begin s dry) :=
  { wf := hwf, entries := by intro q hq; simp [Tx.begin, PS.ok] at hq, keys := by simp [Tx.begin, PS.ok] }

end AndaVerif.Tx
