import AndaVerif.Model.CollSched
/-
Interleavings of writers over the unique postings: uniqueness under every schedule, and
"no leak": when every writer has finished, each id owns exactly what its outcome says.
-/
namespace AndaVerif.Collection

def UniqueG (r : List ((Nat × Key) × Nat)) : Prop := ∀ g i j, (g, i) ∈ r → (g, j) ∈ r → i = j

theorem conflictG_false (r : List ((Nat × Key) × Nat)) (id : Nat) (g : Nat × Key) (h : conflictG r id g = false) :
    ∀ j, (g, j) ∈ r → j = id := by
  intro j hj
  simp only [conflictG, List.any_eq_false, Bool.and_eq_true, beq_iff_eq, bne_iff_ne, ne_eq, not_and, Classical.not_not] at h
  exact h (g, j) hj rfl

theorem mem_addG (r : List ((Nat × Key) × Nat)) (id : Nat) (g : Nat × Key) (p : (Nat × Key) × Nat) :
    p ∈ addG r id g ↔ p ∈ r ∨ p = (g, id) := by
  unfold addG
  split
  · rename_i h
    have : (g, id) ∈ r := by simpa using h
    constructor
    · exact Or.inl
    · rintro (h | h)
      · exact h
      · subst h; exact this
  · simp

theorem mem_delG (r : List ((Nat × Key) × Nat)) (id : Nat) (g : Nat × Key) (p : (Nat × Key) × Nat) :
    p ∈ delG r id g ↔ p ∈ r ∧ ¬(p.1 = g ∧ p.2 = id) := by
  unfold delG
  simp only [List.mem_filter, Bool.not_eq_eq_eq_not, Bool.not_true, Bool.and_eq_false_imp, beq_iff_eq, beq_eq_false_iff_ne, ne_eq]
  constructor
  · rintro ⟨h, h2⟩
    exact ⟨h, fun ⟨a, b⟩ => h2 a b⟩
  · rintro ⟨h, h2⟩
    exact ⟨h, fun a b => h2 ⟨a, b⟩⟩

theorem addG_frame (r : List ((Nat × Key) × Nat)) (id : Nat) (g g' : Nat × Key) (j : Nat) (hj : j ≠ id) :
    (g', j) ∈ addG r id g ↔ (g', j) ∈ r := by
  simp only [mem_addG, Prod.mk.injEq]
  constructor
  · rintro (h | ⟨_, h⟩)
    · exact h
    · exact absurd h hj
  · exact Or.inl

theorem delG_frame (r : List ((Nat × Key) × Nat)) (id : Nat) (g g' : Nat × Key) (j : Nat) (hj : j ≠ id) :
    (g', j) ∈ delG r id g ↔ (g', j) ∈ r := by
  simp only [mem_delG]
  constructor
  · exact fun h => h.1
  · exact fun h => ⟨h, fun ⟨_, h2⟩ => hj h2⟩

/-- one atomic action only adds / removes pairs of the acting writer's id -/
theorem wstep_frame (r : List ((Nat × Key) × Nat)) (w : Writer) (g : Nat × Key) (j : Nat) (hj : j ≠ w.id) :
    (g, j) ∈ (wstep r w).1 ↔ (g, j) ∈ r := by
  obtain ⟨id, held, prog, done, drop, dropped, mode, prog0, drop0, released, poisoned⟩ := w
  simp only at hj
  cases mode with
  | run =>
    cases prog with
    | nil => rfl
    | cons a rest =>
      cases a with
      | chk g' => simp only [wstep]; split <;> rfl
      | ins g' =>
        simp only [wstep]
        split
        · rfl
        · exact addG_frame r id g' g j hj
      | rel g' => exact delG_frame r id g' g j hj
  | undo =>
    cases released with
    | cons g' rest =>
      simp only [wstep]
      split
      · rfl
      · exact addG_frame r id g' g j hj
    | nil =>
      cases done with
      | nil => rfl
      | cons g' rest => exact delG_frame r id g' g j hj
  | finish =>
    cases drop with
    | nil => rfl
    | cons g' rest => exact delG_frame r id g' g j hj
  | accepted => rfl
  | rejected => rfl

theorem wstep_id (r : List ((Nat × Key) × Nat)) (w : Writer) :
    (wstep r w).2.id = w.id ∧ (wstep r w).2.held = w.held ∧ (wstep r w).2.prog0 = w.prog0 ∧ (wstep r w).2.drop0 = w.drop0 := by
  obtain ⟨id, held, prog, done, drop, dropped, mode, prog0, drop0, released, poisoned⟩ := w
  cases mode with
  | run =>
    cases prog with
    | nil => exact ⟨rfl, rfl, rfl, rfl⟩
    | cons a rest =>
      cases a with
      | chk g => simp only [wstep]; split <;> exact ⟨rfl, rfl, rfl, rfl⟩
      | ins g => simp only [wstep]; split <;> exact ⟨rfl, rfl, rfl, rfl⟩
      | rel g => exact ⟨rfl, rfl, rfl, rfl⟩
  | undo =>
    cases released with
    | cons g rest => simp only [wstep]; split <;> exact ⟨rfl, rfl, rfl, rfl⟩
    | nil => cases done <;> exact ⟨rfl, rfl, rfl, rfl⟩
  | finish => cases drop <;> exact ⟨rfl, rfl, rfl, rfl⟩
  | accepted => exact ⟨rfl, rfl, rfl, rfl⟩
  | rejected => exact ⟨rfl, rfl, rfl, rfl⟩

theorem addG_unique (r : List ((Nat × Key) × Nat)) (id : Nat) (g : Nat × Key) (h : UniqueG r)
    (hc : conflictG r id g = false) : UniqueG (addG r id g) := by
  intro g' i j hi hj
  rw [mem_addG] at hi hj
  rcases hi with hi | hi <;> rcases hj with hj | hj
  · exact h g' i j hi hj
  · simp only [Prod.mk.injEq] at hj
    rw [hj.1] at hi
    rw [hj.2]
    exact conflictG_false r id g hc i hi
  · simp only [Prod.mk.injEq] at hi
    rw [hi.1] at hj
    rw [hi.2]
    exact (conflictG_false r id g hc j hj).symm
  · simp only [Prod.mk.injEq] at hi hj
    rw [hi.2, hj.2]

theorem delG_unique (r : List ((Nat × Key) × Nat)) (id : Nat) (g : Nat × Key) (h : UniqueG r) : UniqueG (delG r id g) :=
  fun g' i j hi hj => h g' i j ((mem_delG _ _ _ _).1 hi).1 ((mem_delG _ _ _ _).1 hj).1

theorem wstep_unique (r : List ((Nat × Key) × Nat)) (w : Writer) (h : UniqueG r) : UniqueG (wstep r w).1 := by
  obtain ⟨id, held, prog, done, drop, dropped, mode, prog0, drop0, released, poisoned⟩ := w
  cases mode with
  | run =>
    cases prog with
    | nil => exact h
    | cons a rest =>
      cases a with
      | chk g =>
        simp only [wstep]
        split <;> exact h
      | ins g =>
        simp only [wstep]
        split
        · exact h
        · rename_i hc
          exact addG_unique r id g h (by simpa using hc)
      | rel g => exact delG_unique r id g h
  | undo =>
    cases released with
    | cons g rest =>
      simp only [wstep]
      split
      · exact h
      · rename_i hc
        exact addG_unique r id g h (by simpa using hc)
    | nil =>
      cases done with
      | nil => exact h
      | cons g rest => exact delG_unique r id g h
  | finish =>
    cases drop with
    | nil => exact h
    | cons g rest => exact delG_unique r id g h
  | accepted => exact h
  | rejected => exact h

theorem stepAt_unique (r : List ((Nat × Key) × Nat)) (ws : List Writer) (n : Nat) (h : UniqueG r) :
    UniqueG (stepAt r ws n).1 := by
  induction ws generalizing n with
  | nil => exact h
  | cons w rest ih =>
    cases n with
    | zero => exact wstep_unique r w h
    | succ n => exact ih n

theorem runSchedule_unique (r : List ((Nat × Key) × Nat)) (ws : List Writer) (sched : List Nat) (h : UniqueG r) :
    UniqueG (runSchedule r ws sched).1 := by
  induction sched generalizing r ws with
  | nil => exact h
  | cons t rest ih => exact ih _ _ (stepAt_unique r ws t h)

-- ------------------------------------------------------------------------------------------
-- no leak
-- ------------------------------------------------------------------------------------------

/-- the pairs of the writer's id in the relation are exactly what its local state says -/
def Own (r : List ((Nat × Key) × Nat)) (w : Writer) : Prop :=
  ∀ g, (g, w.id) ∈ r ↔ (g ∈ w.held ∧ g ∉ w.dropped) ∨ g ∈ w.done

structure WInv (w : Writer) : Prop where
  hd : ∀ g ∈ w.done, g ∉ w.held
  nd : (insKeys w.prog ++ w.done).Nodup
  nh : ∀ g ∈ insKeys w.prog, g ∉ w.held
  dh : ∀ g ∈ w.drop, g ∈ w.held
  rej : w.mode = .rejected → w.done = [] ∧ w.dropped = []
  und : (w.mode = .undo ∨ w.mode = .run) → w.dropped = []
  acc : w.mode = .accepted → w.prog = [] ∧ w.drop = []
  fin : w.mode = .finish → w.prog = []
  k1 : (w.mode ≠ .undo ∧ w.mode ≠ .rejected) → ∀ g, g ∈ insKeys w.prog0 ↔ g ∈ insKeys w.prog ∨ g ∈ w.done
  k2 : ∀ g, g ∈ w.drop0 ↔ g ∈ w.drop ∨ g ∈ w.dropped
  /-- the writer releases old values only after its last insert (no `rel` in the program) -/
  nr : noRel w.prog = true
  rl : w.released = []

theorem wstep_self (r : List ((Nat × Key) × Nat)) (w : Writer) (hw : WInv w) (ho : Own r w) :
    WInv (wstep r w).2 ∧ Own (wstep r w).1 (wstep r w).2 := by
  obtain ⟨id, held, prog, done, drop, dropped, mode, prog0, drop0, released, poisoned⟩ := w
  obtain ⟨hd, nd, nh, dh, rej, und, acc, fin, k1, k2, nr, rl⟩ := hw
  simp only at hd nd nh dh rej und acc fin k1 k2 nr rl
  subst rl
  simp only [Own] at ho ⊢
  cases mode with
  | run =>
    have hk1 := k1 ⟨by decide, by decide⟩
    have hdr : dropped = [] := und (Or.inr rfl)
    cases prog with
    | nil =>
      simp only [wstep]
      exact ⟨⟨hd, nd, nh, dh, fun h => (by cases h), fun h => (by rcases h with h | h <;> cases h),
        fun h => (by cases h), fun _ => rfl, fun _ => hk1, k2, nr, rfl⟩, ho⟩
    | cons a rest =>
      cases a with
      | rel g => simp [noRel] at nr
      | chk g =>
        have nr' : noRel rest = true := by simpa [noRel] using nr
        simp only [wstep]
        simp only [insKeys] at nd nh hk1
        split
        · exact ⟨⟨hd, nd, nh, dh, fun h => (by cases h), fun _ => hdr, fun h => (by cases h),
            fun h => (by cases h), fun h => absurd rfl h.1, k2, nr, rfl⟩, ho⟩
        · exact ⟨⟨hd, nd, nh, dh, fun h => (by cases h), fun _ => hdr, fun h => (by cases h),
            fun h => (by cases h), fun _ => hk1, k2, nr', rfl⟩, ho⟩
      | ins g =>
        have nr' : noRel rest = true := by simpa [noRel] using nr
        simp only [wstep]
        simp only [insKeys] at nd nh hk1
        split
        · exact ⟨⟨hd, by simpa [insKeys] using nd, by simpa [insKeys] using nh, dh, fun h => (by cases h), fun _ => hdr,
            fun h => (by cases h), fun h => (by cases h), fun h => absurd rfl h.1, k2, nr, rfl⟩, ho⟩
        · have hgh : g ∉ held := nh g (List.mem_cons_self ..)
          refine ⟨⟨?_, ?_, fun g' hg' => nh g' (List.mem_cons_of_mem _ hg'), dh, fun h => (by cases h), fun _ => hdr,
            fun h => (by cases h), fun h => (by cases h), fun _ g' => ?_, k2, nr', rfl⟩, fun g' => ?_⟩
          · intro g' hg'
            rcases List.mem_cons.1 hg' with rfl | hg'
            · exact hgh
            · exact hd g' hg'
          · have : (insKeys rest ++ g :: done).Perm (g :: insKeys rest ++ done) := by
              simp
            exact this.nodup_iff.2 nd
          · rw [hk1 g']
            simp only [List.mem_cons]
            constructor
            · rintro ((h | h) | h)
              · exact Or.inr (Or.inl h)
              · exact Or.inl h
              · exact Or.inr (Or.inr h)
            · rintro (h | h | h)
              · exact Or.inl (Or.inr h)
              · exact Or.inl (Or.inl h)
              · exact Or.inr h
          · simp only [mem_addG, Prod.mk.injEq, and_true, List.mem_cons]
            rw [ho g']
            constructor
            · rintro ((h | h) | h)
              · exact Or.inl h
              · exact Or.inr (Or.inr h)
              · exact Or.inr (Or.inl h)
            · rintro (h | h | h)
              · exact Or.inl (Or.inl h)
              · exact Or.inr h
              · exact Or.inl (Or.inr h)
  | undo =>
    have hdr : dropped = [] := und (Or.inl rfl)
    cases done with
    | nil =>
      simp only [wstep]
      exact ⟨⟨hd, nd, nh, dh, fun _ => ⟨rfl, hdr⟩, fun h => (by rcases h with h | h <;> cases h),
        fun h => (by cases h), fun h => (by cases h), fun h => absurd rfl h.2, k2, nr, rfl⟩, ho⟩
    | cons g rest =>
      simp only [wstep]
      have h1 := List.nodup_append.1 nd
      have hg : g ∉ rest := (List.nodup_cons.1 h1.2.1).1
      have hgh : g ∉ held := hd g (List.mem_cons_self ..)
      refine ⟨⟨fun g' hg' => hd g' (List.mem_cons_of_mem _ hg'), ?_, nh, dh, fun h => (by cases h), fun _ => hdr,
        fun h => (by cases h), fun h => (by cases h), fun h => absurd rfl h.1, k2, nr, rfl⟩, fun g' => ?_⟩
      · exact List.nodup_append.2 ⟨h1.1, (List.nodup_cons.1 h1.2.1).2, fun a ha b hb => h1.2.2 a ha b (List.mem_cons_of_mem _ hb)⟩
      · simp only [mem_delG, and_true]
        rw [ho g']
        simp only [List.mem_cons]
        constructor
        · rintro ⟨h | h | h, hne⟩
          · exact Or.inl h
          · exact absurd h hne
          · exact Or.inr h
        · rintro (h | h)
          · exact ⟨Or.inl h, fun he => hgh (he ▸ h.1)⟩
          · exact ⟨Or.inr (Or.inr h), fun he => hg (he ▸ h)⟩
  | finish =>
    have hpr : prog = [] := fin rfl
    have hk1 := k1 ⟨by decide, by decide⟩
    cases drop with
    | nil =>
      simp only [wstep]
      exact ⟨⟨hd, nd, nh, dh, fun h => (by cases h), fun h => (by rcases h with h | h <;> cases h),
        fun _ => ⟨hpr, rfl⟩, fun h => (by cases h), fun _ => hk1, k2, nr, rfl⟩, ho⟩
    | cons g rest =>
      simp only [wstep]
      have hgh : g ∈ held := dh g (List.mem_cons_self ..)
      have hgd : g ∉ done := fun h => hd g h hgh
      refine ⟨⟨hd, nd, nh, fun g' hg' => dh g' (List.mem_cons_of_mem _ hg'), fun h => (by cases h),
        fun h => (by rcases h with h | h <;> cases h), fun h => (by cases h), fun _ => hpr, fun _ => hk1, fun g' => ?_, nr, rfl⟩,
        fun g' => ?_⟩
      · rw [k2 g']
        simp only [List.mem_cons]
        constructor
        · rintro ((h | h) | h)
          · exact Or.inr (Or.inl h)
          · exact Or.inl h
          · exact Or.inr (Or.inr h)
        · rintro (h | h | h)
          · exact Or.inl (Or.inr h)
          · exact Or.inl (Or.inl h)
          · exact Or.inr h
      · simp only [mem_delG, and_true]
        rw [ho g']
        simp only [List.mem_cons, not_or]
        constructor
        · rintro ⟨h | h, hne⟩
          · exact Or.inl ⟨h.1, hne, h.2⟩
          · exact Or.inr h
        · rintro (⟨h1, h2, h3⟩ | h)
          · exact ⟨Or.inl ⟨h1, h3⟩, h2⟩
          · exact ⟨Or.inr h, fun he => hgd (he ▸ h)⟩
  | accepted => exact ⟨⟨hd, nd, nh, dh, rej, und, acc, fin, k1, k2, nr, rfl⟩, ho⟩
  | rejected => exact ⟨⟨hd, nd, nh, dh, rej, und, acc, fin, k1, k2, nr, rfl⟩, ho⟩

theorem wstep_other (r : List ((Nat × Key) × Nat)) (w v : Writer) (hne : v.id ≠ w.id) (ho : Own r v) :
    Own (wstep r w).1 v := fun g => by rw [wstep_frame r w g v.id hne]; exact ho g

def CInv (r : List ((Nat × Key) × Nat)) (ws : List Writer) : Prop :=
  (ws.map (fun w => w.id)).Nodup ∧ ∀ w ∈ ws, WInv w ∧ Own r w

theorem stepAt_ids (r : List ((Nat × Key) × Nat)) (ws : List Writer) (n : Nat) :
    (stepAt r ws n).2.map (fun w => (w.id, w.held, w.prog0, w.drop0)) = ws.map (fun w => (w.id, w.held, w.prog0, w.drop0)) := by
  induction ws generalizing n with
  | nil => rfl
  | cons w rest ih =>
    cases n with
    | zero =>
      simp only [stepAt, List.map_cons]
      have := wstep_id r w
      rw [this.1, this.2.1, this.2.2.1, this.2.2.2]
    | succ n => simp only [stepAt, List.map_cons, ih n]

theorem stepAt_frame (r : List ((Nat × Key) × Nat)) (ws : List Writer) (n : Nat) (g : Nat × Key) (j : Nat)
    (hj : ∀ v ∈ ws, v.id ≠ j) : (g, j) ∈ (stepAt r ws n).1 ↔ (g, j) ∈ r := by
  induction ws generalizing n with
  | nil => rfl
  | cons w rest ih =>
    cases n with
    | zero => exact wstep_frame r w g j (fun h => hj w (List.mem_cons_self ..) h.symm)
    | succ n => exact ih n (fun v hv => hj v (List.mem_cons_of_mem _ hv))

theorem map_id_of_quad (a b : List Writer)
    (h : a.map (fun w => (w.id, w.held, w.prog0, w.drop0)) = b.map (fun w => (w.id, w.held, w.prog0, w.drop0))) :
    a.map (fun w => w.id) = b.map (fun w => w.id) := by
  have := congrArg (List.map (fun q : Nat × List (Nat × Key) × List Act × List (Nat × Key) => q.1)) h
  rw [List.map_map, List.map_map] at this
  exact this

theorem stepAt_cinv (r : List ((Nat × Key) × Nat)) (ws : List Writer) (n : Nat) (h : CInv r ws) :
    CInv (stepAt r ws n).1 (stepAt r ws n).2 := by
  refine ⟨by rw [map_id_of_quad _ _ (stepAt_ids r ws n)]; exact h.1, ?_⟩
  induction ws generalizing n with
  | nil => intro w hw; cases hw
  | cons w rest ih =>
    have hnd := List.nodup_cons.1 (by simpa using h.1 : (w.id :: rest.map (fun w => w.id)).Nodup)
    have hw := h.2 w (List.mem_cons_self ..)
    cases n with
    | zero =>
      intro v hv
      simp only [stepAt] at hv ⊢
      rcases List.mem_cons.1 hv with rfl | hv
      · exact wstep_self r w hw.1 hw.2
      · have hv' := h.2 v (List.mem_cons_of_mem _ hv)
        refine ⟨hv'.1, wstep_other r w v (fun he => hnd.1 ?_) hv'.2⟩
        rw [← he]
        exact List.mem_map.2 ⟨v, hv, rfl⟩
    | succ n =>
      intro v hv
      simp only [stepAt] at hv ⊢
      have hrest : CInv r rest := ⟨hnd.2, fun v hv => h.2 v (List.mem_cons_of_mem _ hv)⟩
      rcases List.mem_cons.1 hv with rfl | hv
      · refine ⟨hw.1, fun g => ?_⟩
        rw [stepAt_frame r rest n g v.id (fun u hu he => hnd.1 (by rw [← he]; exact List.mem_map.2 ⟨u, hu, rfl⟩))]
        exact hw.2 g
      · exact ih n hrest v hv

theorem runSchedule_cinv (r : List ((Nat × Key) × Nat)) (ws : List Writer) (sched : List Nat) (h : CInv r ws) :
    CInv (runSchedule r ws sched).1 (runSchedule r ws sched).2 := by
  induction sched generalizing r ws with
  | nil => exact h
  | cons t rest ih => exact ih _ _ (stepAt_cinv r ws t h)

theorem runSchedule_ids (r : List ((Nat × Key) × Nat)) (ws : List Writer) (sched : List Nat) :
    (runSchedule r ws sched).2.map (fun w => (w.id, w.held, w.prog0, w.drop0)) =
      ws.map (fun w => (w.id, w.held, w.prog0, w.drop0)) := by
  induction sched generalizing r ws with
  | nil => rfl
  | cons t rest ih =>
    simp only [runSchedule]
    rw [ih, stepAt_ids]

/-- what a finished writer owns -/
theorem finished_owns (r : List ((Nat × Key) × Nat)) (w : Writer) (hw : WInv w) (ho : Own r w) :
    (w.mode = .rejected → ∀ g, (g, w.id) ∈ r ↔ g ∈ w.held) ∧
    (w.mode = .accepted → ∀ g, (g, w.id) ∈ r ↔ (g ∈ w.held ∧ g ∉ w.drop0) ∨ g ∈ insKeys w.prog0) := by
  refine ⟨fun hm g => ?_, fun hm g => ?_⟩
  · rw [ho g, (hw.rej hm).1, (hw.rej hm).2]
    simp
  · have h1 := hw.k1 (by rw [hm]; exact ⟨by decide, by decide⟩) g
    have h2 := hw.k2 g
    rw [(hw.acc hm).1] at h1
    rw [(hw.acc hm).2] at h2
    simp only [insKeys, List.not_mem_nil, false_or] at h1 h2
    rw [ho g, h1, h2]

theorem insKeys_adder (keys : List (Nat × Key)) : insKeys (keys.map Act.chk ++ keys.map Act.ins) = keys := by
  have h1 : ∀ (l : List (Nat × Key)) (rest : List Act), insKeys (l.map Act.chk ++ rest) = insKeys rest := by
    intro l rest
    induction l with
    | nil => rfl
    | cons a l ih => simp only [List.map_cons, List.cons_append, insKeys, ih]
  have h2 : ∀ l : List (Nat × Key), insKeys (l.map Act.ins) = l := by
    intro l
    induction l with
    | nil => rfl
    | cons a l ih => simp only [List.map_cons, insKeys, ih]
  rw [h1, h2]

/-- a fresh `add` writer satisfies the invariant -/
theorem adder_winv (r : List ((Nat × Key) × Nat)) (id : Nat) (keys : List (Nat × Key)) (hk : keys.Nodup)
    (hfresh : ∀ g, (g, id) ∉ r) : WInv (adder id keys) ∧ Own r (adder id keys) := by
  refine ⟨{
    hd := fun g hg => by cases hg
    nd := by simp only [adder, insKeys_adder, List.append_nil]; exact hk
    nh := fun g _ hg => by cases hg
    dh := fun g hg => by cases hg
    rej := fun h => by cases h
    und := fun _ => rfl
    acc := fun h => by cases h
    fin := fun h => by cases h
    k1 := fun _ g => by simp [adder]
    k2 := fun g => by simp [adder]
    nr := by
      simp only [adder]
      have h1 : ∀ (l : List (Nat × Key)) (rest : List Act), noRel (l.map Act.chk ++ rest) = noRel rest := by
        intro l rest
        induction l with
        | nil => rfl
        | cons a l ih => simp only [List.map_cons, List.cons_append, noRel, ih]
      have h2 : ∀ l : List (Nat × Key), noRel (l.map Act.ins) = true := by
        intro l
        induction l with
        | nil => rfl
        | cons a l ih => simp only [List.map_cons, noRel, ih]
      rw [h1, h2]
    rl := rfl }, fun g => ?_⟩
  simp only [adder, List.not_mem_nil, false_and, or_self, iff_false]
  exact hfresh g

/-- any number of `add` writers with distinct fresh ids start in a configuration that satisfies the
invariant -/
theorem adders_cinv (r : List ((Nat × Key) × Nat)) (specs : List (Nat × List (Nat × Key)))
    (hids : (specs.map (fun p => p.1)).Nodup) (hkeys : ∀ p ∈ specs, p.2.Nodup)
    (hfresh : ∀ p ∈ specs, ∀ g, (g, p.1) ∉ r) : CInv r (specs.map (fun p => adder p.1 p.2)) := by
  refine ⟨?_, fun w hw => ?_⟩
  · rw [List.map_map]
    exact hids
  · obtain ⟨p, hp, rfl⟩ := List.mem_map.1 hw
    exact adder_winv r p.1 p.2 (hkeys p hp) (hfresh p hp)

theorem winners_distinct (r : List ((Nat × Key) × Nat)) (ws : List Writer) (hu : UniqueG r) (hc : CInv r ws)
    (w1 w2 : Writer) (h1 : w1 ∈ ws) (h2 : w2 ∈ ws) (a1 : w1.mode = .accepted) (a2 : w2.mode = .accepted)
    (g : Nat × Key) (g1 : g ∈ insKeys w1.prog0) (g2 : g ∈ insKeys w2.prog0) : w1.id = w2.id := by
  have o1 := (finished_owns r w1 (hc.2 w1 h1).1 (hc.2 w1 h1).2).2 a1 g
  have o2 := (finished_owns r w2 (hc.2 w2 h2).1 (hc.2 w2 h2).2).2 a2 g
  exact hu g w1.id w2.id (o1.2 (Or.inr g1)) (o2.2 (Or.inr g2))

-- ------------------------------------------------------------------------------------------
-- the full statement and the schedule that refutes it for today's `update_impl`
-- ------------------------------------------------------------------------------------------

/-- a configuration before any writer has moved -/
def StartOK (r : List ((Nat × Key) × Nat)) (ws : List Writer) : Prop :=
  (ws.map (fun w => w.id)).Nodup ∧
  ∀ w ∈ ws, w.mode = .run ∧ w.done = [] ∧ w.dropped = [] ∧ w.released = [] ∧ w.poisoned = false ∧
    (∀ g, (g, w.id) ∈ r ↔ g ∈ w.held)

/-- "a rejected writer keeps exactly what it held" for **every** writer program, early releases
included -/
def NoLeakFull : Prop :=
  ∀ (r : List ((Nat × Key) × Nat)) (ws : List Writer) (sched : List Nat), UniqueG r → StartOK r ws →
    ∀ w ∈ (runSchedule r ws sched).2, w.mode = .rejected →
      ∀ g, (g, w.id) ∈ (runSchedule r ws sched).1 ↔ g ∈ w.held

/-- doc 1 holds u = 5, e = 0; doc 2 holds u = 9, e = 1 (index 0 = `u`, index 1 = `e`) -/
def cxRel : List ((Nat × Key) × Nat) := [((0, .s 5), 1), ((1, .s 0), 1), ((0, .s 9), 2), ((1, .s 1), 2)]

/-- A: `update(doc 1, {u: 5 → 6, e: 0 → 1})` as the code runs it; B: `add {u: 5}` -/
def cxWriters : List Writer := [updaterEarly 1 [((0, .s 5), (0, .s 6)), ((1, .s 0), (1, .s 1))], adder 53 [(0, .s 5)]]

/-- A inserts u = 6 and releases u = 5; B pre-checks, inserts u = 5 and finishes; A is refused on
e = 1, its rollback can not re-take u = 5 -/
def cxSched : List Nat := [0, 0, 1, 1, 1, 1, 0, 0, 0]

theorem cx_outcome :
    (runSchedule cxRel cxWriters cxSched).1 = [((1, .s 0), 1), ((0, .s 9), 2), ((1, .s 1), 2), ((0, .s 6), 1), ((0, .s 5), 53)] ∧
    (runSchedule cxRel cxWriters cxSched).2.map (fun w => (w.id, w.mode, w.poisoned, w.held)) =
      [(1, .rejected, true, [(0, .s 5), (1, .s 0)]), (53, .accepted, false, [])] := by
  constructor <;> rfl

theorem cx_unique : UniqueG cxRel := by
  intro g i j hi hj
  simp only [cxRel, List.mem_cons, Prod.mk.injEq, List.not_mem_nil, or_false] at hi hj
  rcases hi with ⟨rfl, rfl⟩ | ⟨rfl, rfl⟩ | ⟨rfl, rfl⟩ | ⟨rfl, rfl⟩ <;>
    rcases hj with ⟨h, rfl⟩ | ⟨h, rfl⟩ | ⟨h, rfl⟩ | ⟨h, rfl⟩ <;> first | rfl | (simp at h)

theorem mem_owned (r : List ((Nat × Key) × Nat)) (i : Nat) (g : Nat × Key) :
    (g, i) ∈ r ↔ g ∈ (r.filter (fun p => p.2 == i)).map (fun p => p.1) := by
  simp only [List.mem_map, List.mem_filter, beq_iff_eq]
  constructor
  · intro h
    exact ⟨(g, i), ⟨h, rfl⟩, rfl⟩
  · rintro ⟨⟨g', j⟩, ⟨h1, h2⟩, h3⟩
    simp only at h2 h3
    subst h2 h3
    exact h1

theorem cx_start : StartOK cxRel cxWriters := by
  refine ⟨by decide, ?_⟩
  intro w hw
  simp only [cxWriters, List.mem_cons, List.not_mem_nil, or_false] at hw
  rcases hw with rfl | rfl
  · exact ⟨rfl, rfl, rfl, rfl, rfl, fun g => mem_owned cxRel 1 g⟩
  · exact ⟨rfl, rfl, rfl, rfl, rfl, fun g => mem_owned cxRel 53 g⟩

/-- writer A at the end of `cxSched` -/
def cxA : Writer :=
  { id := 1, held := [(0, .s 5), (1, .s 0)], prog := [.ins (1, .s 1), .rel (1, .s 0)], done := [], drop := [], dropped := [],
    mode := .rejected, prog0 := [.ins (0, .s 6), .rel (0, .s 5), .ins (1, .s 1), .rel (1, .s 0)], drop0 := [],
    released := [], poisoned := true }

theorem cx_A_final : (runSchedule cxRel cxWriters cxSched).2.head? = some cxA := by rfl

/-- The full statement is false of the code's `update`: the rejected updater no longer owns the
value its (unchanged) document still carries, another document owns it. -/
theorem noLeakFull_false : ¬ NoLeakFull := by
  intro h
  have hmem : cxA ∈ (runSchedule cxRel cxWriters cxSched).2 := List.mem_of_mem_head? cx_A_final
  have := h cxRel cxWriters cxSched cx_unique cx_start cxA hmem rfl (0, .s 5)
  rw [cx_outcome.1] at this
  have hl : ((0, Key.s 5), cxA.id) ∉ [((1, Key.s 0), 1), ((0, Key.s 9), 2), ((1, Key.s 1), 2), ((0, Key.s 6), 1), ((0, Key.s 5), 53)] := by
    decide
  exact hl (this.2 (by decide))

end AndaVerif.Collection
