/-
C09: the metadata AAD (`metadata_auth_aad`) is an injective encoding of the logical path and of every
field of the document except the seal itself.  Proved for the field order regenerated from the source
(`Gen.EncAad.gen_metaAadLayout`).
-/
import AndaVerif.Proofs.EncBasic

namespace AndaVerif.Enc
open AndaVerif.Gen.EncAad

theorem pushBytes_append_inj {v w x y : Bytes} (hv : v.length < U64) (hw : w.length < U64)
    (h : pushBytes v ++ x = pushBytes w ++ y) : v = w ∧ x = y := by
  unfold pushBytes at h
  rw [List.append_assoc, List.append_assoc] at h
  obtain ⟨hl, h2⟩ := le64_append_inj hv hw h
  exact List.append_inj h2 hl

theorem pushOptStr_append_inj {a b : Option Bytes} {x y : Bytes} (ha : optFits a = true) (hb : optFits b = true)
    (h : pushOptStr a ++ x = pushOptStr b ++ y) : a = b ∧ x = y := by
  cases a <;> cases b <;> simp [pushOptStr, optFits] at *
  · exact h
  · rename_i v w
    obtain ⟨e, r⟩ := pushBytes_append_inj ha hb h
    exact ⟨e, r⟩

theorem pushOptU64_append_inj {a b : Option Nat} {x y : Bytes} (ha : optNatFits a = true) (hb : optNatFits b = true)
    (h : pushOptU64 a ++ x = pushOptU64 b ++ y) : a = b ∧ x = y := by
  cases a <;> cases b <;> simp [pushOptU64, optNatFits] at *
  · exact h
  · exact le64_append_inj ha hb h

theorem pushOptU8_append_inj {a b : Option Nat} {x y : Bytes}
    (h : pushOptU8 a ++ x = pushOptU8 b ++ y) : a = b ∧ x = y := by
  cases a <;> cases b <;> simp [pushOptU8] at * <;> exact h

theorem eachPushBytes_append_inj : ∀ {l l' : List Bytes} {x y : Bytes},
    l.length = l'.length → (∀ t ∈ l, t.length < U64) → (∀ t ∈ l', t.length < U64) →
    (l.map pushBytes).flatten ++ x = (l'.map pushBytes).flatten ++ y → l = l' ∧ x = y
  | [], [], _, _, _, _, _, h => ⟨rfl, by simpa using h⟩
  | [], _ :: _, _, _, hl, _, _, _ => by simp at hl
  | _ :: _, [], _, _, hl, _, _, _ => by simp at hl
  | a :: l, b :: l', x, y, hl, ha, hb, h => by
    simp only [List.map_cons, List.flatten_cons, List.append_assoc] at h
    obtain ⟨e, r⟩ := pushBytes_append_inj (ha a (by simp)) (hb b (by simp)) h
    obtain ⟨e2, r2⟩ := eachPushBytes_append_inj (by simpa using hl)
      (fun t ht => ha t (by simp [ht])) (fun t ht => hb t (by simp [ht])) r
    exact ⟨by rw [e, e2], r2⟩

/-- The optional tail: `".g" ++ push_bytes(generation)` and `".m" ++ committed_at_ms`, each only when present. -/
def aadTail (g : Option Bytes) (m : Option Nat) : Bytes :=
  (match g with | some b => [46, 103] ++ pushBytes b | none => []) ++
  (match m with | some n => [46, 109] ++ le64 n | none => [])

theorem aadTail_inj {g g' : Option Bytes} {m m' : Option Nat}
    (hg : optFits g = true) (hg' : optFits g' = true) (hm : optNatFits m = true) (hm' : optNatFits m' = true)
    (h : aadTail g m = aadTail g' m') : g = g' ∧ m = m' := by
  have tailM : ∀ {a b : Option Nat}, optNatFits a = true → optNatFits b = true →
      (match a with | some n => [46, 109] ++ le64 n | none => ([] : Bytes)) =
      (match b with | some n => [46, 109] ++ le64 n | none => []) → a = b := by
    intro a b ha hb h
    cases a <;> cases b <;> simp [optNatFits, le64] at *
    rename_i p q; unfold U64 at *; omega
  cases g <;> cases g'
  · simp only [aadTail, List.nil_append] at h
    exact ⟨rfl, tailM hm hm' h⟩
  · exfalso
    cases m <;> simp [aadTail, pushBytes, le64] at h
  · exfalso
    cases m' <;> simp [aadTail, pushBytes, le64] at h
  · rename_i b b'
    simp only [aadTail, List.append_assoc, List.cons_append, List.nil_append, List.cons.injEq, true_and] at h
    simp only [optFits, decide_eq_true_eq] at hg hg'
    obtain ⟨e, r⟩ := pushBytes_append_inj hg hg' h
    exact ⟨by rw [e], tailM hm hm' r⟩

/-- `metadata_auth_aad` as the explicit concatenation the generated layout denotes. -/
theorem metaAad_eq (loc : Bytes) (m : Meta) :
    metaAad loc m =
      [97, 110, 100, 97, 95, 111, 98, 106, 101, 99, 116, 95, 115, 116, 111, 114, 101, 46, 101, 110, 99, 114,
        121, 112, 116, 101, 100, 46, 109, 101, 116, 97, 100, 97, 116, 97, 46, 118, 49] ++
      (pushBytes loc ++ (le64 m.size ++ (pushOptStr m.eTag ++ (pushOptStr m.originalTag ++
      (pushOptStr m.originalVersion ++ (pushBytes m.aesNonce ++ (pushOptU64 m.chunkSize ++
      (pushOptU8 m.chunkAadVersion ++ (le64 m.aesTags.length ++ ((m.aesTags.map pushBytes).flatten ++
      aadTail m.generation m.committedAtMs)))))))))) := by
  unfold metaAad
  rw [gen_metaAadLayout]
  cases hg : m.generation <;> cases hm : m.committedAtMs <;>
    simp [encItem, fieldVal, aadTail, hg, hm]

theorem metaAad_inj {loc loc' : Bytes} {m m' : Meta} (hf : m.fits loc = true) (hf' : m'.fits loc' = true)
    (h : metaAad loc m = metaAad loc' m') : loc = loc' ∧ m.unsealed = m'.unsealed := by
  rw [metaAad_eq, metaAad_eq] at h
  simp only [Meta.fits, Bool.and_eq_true, decide_eq_true_eq, List.all_eq_true] at hf hf'
  obtain ⟨⟨⟨⟨⟨⟨⟨⟨⟨⟨f1, f2⟩, f3⟩, f4⟩, f5⟩, f6⟩, f7⟩, f8⟩, f9⟩, f10⟩, f11⟩ := hf
  obtain ⟨⟨⟨⟨⟨⟨⟨⟨⟨⟨g1, g2⟩, g3⟩, g4⟩, g5⟩, g6⟩, g7⟩, g8⟩, g9⟩, g10⟩, g11⟩ := hf'
  have h := List.append_cancel_left h
  obtain ⟨e1, h⟩ := pushBytes_append_inj f1 g1 h
  obtain ⟨e2, h⟩ := le64_append_inj f2 g2 h
  obtain ⟨e3, h⟩ := pushOptStr_append_inj f3 g3 h
  obtain ⟨e4, h⟩ := pushOptStr_append_inj f4 g4 h
  obtain ⟨e5, h⟩ := pushOptStr_append_inj f5 g5 h
  obtain ⟨e6, h⟩ := pushBytes_append_inj f6 g6 h
  obtain ⟨e7, h⟩ := pushOptU64_append_inj f9 g9 h
  obtain ⟨e8, h⟩ := pushOptU8_append_inj h
  obtain ⟨e9, h⟩ := le64_append_inj f7 g7 h
  obtain ⟨e10, h⟩ := eachPushBytes_append_inj e9 (fun t ht => by simpa using f8 t ht)
    (fun t ht => by simpa using g8 t ht) h
  obtain ⟨e11, e12⟩ := aadTail_inj f10 g10 f11 g11 h
  refine ⟨e1, ?_⟩
  cases m; cases m'
  simp_all [Meta.unsealed]

end AndaVerif.Enc
