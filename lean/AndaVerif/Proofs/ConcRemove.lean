import AndaVerif.Proofs.ConcMeta
/-
Concurrent removes of one document: at most one of them ever reads the document (and therefore
returns it); once a remove deleted the object the id is dead for good — ids are never reused.
-/
namespace AndaVerif.ConcColl

theorem stepThread_rm (sh : Shared) (t : Nat) (th : Thread) (sh' : Shared) (th' : Thread)
    (h : stepThread sh t th = some (sh', th')) (id : Nat) (hop : th.op = .rm id) :
    (th'.old = th.old ∨
      (th.pc = .getWait ∧ th'.pc = .intentWait ∧ ∃ d v, sh.store id = some (d, v) ∧ th'.old = some d)) ∧
    (th.pc = .intentWait → th'.pc = .delWait ∧ th'.old = th.old) ∧
    (th.pc = .delWait → th'.pc = .done ∧ sh'.store id = none ∧ th'.old = th.old ∧
      th'.res = some (.doc (th.old.getD default))) ∧
    (∀ d, th'.res = some (.doc d) → th.res = some (.doc d) ∨ th.pc = .delWait) := by
  step_cases h
  all_goals simp_all

/-- the object of `id` is gone and no in-flight add can bring it back -/
def Dead (c : Cfg) (id : Nat) : Prop :=
  c.sh.store id = none ∧ id ≤ c.sh.maxId ∧
  ∀ (x : Nat) (th : Thread), c.th[x]? = some th → th.isAdd = true → th.pc.active = true → th.id ≠ id

structure RemoveInv (c : Cfg) : Prop where
  /-- a remove that read the document is inside its critical section, or has deleted it for good -/
  holder : ∀ (x : Nat) (th : Thread) (id : Nat), c.th[x]? = some th → th.op = .rm id → th.old ≠ none →
    (th.crit = some id ∧ (th.pc = .intentWait ∨ th.pc = .delWait)) ∨ (th.pc = .done ∧ Dead c id)
  /-- only a remove that read the document returns it, and it returns what it read -/
  res : ∀ (x : Nat) (th : Thread) (id : Nat) (d : Doc), c.th[x]? = some th → th.op = .rm id →
    th.res = some (.doc d) → th.old = some d ∧ th.pc = .done
  /-- at most one remove of a document reads it -/
  one : ∀ (x y : Nat) (thx thy : Thread) (id : Nat), c.th[x]? = some thx → c.th[y]? = some thy →
    thx.op = .rm id → thy.op = .rm id → thx.old ≠ none → thy.old ≠ none → x = y

theorem RemoveInv.init (c : Cfg)
    (hidle : ∀ (x : Nat) (th : Thread), c.th[x]? = some th → th.old = none ∧ th.res = none) : RemoveInv c := by
  refine ⟨?_, ?_, ?_⟩
  · intro x th id hx _ ho; exact absurd (hidle x th hx).1 ho
  · intro x th id d hx _ hr; simp [(hidle x th hx).2] at hr
  · intro x y thx thy id hx _ _ _ ho; exact absurd (hidle x thx hx).1 ho

theorem Dead.step {M0 t : Nat} {c c' : Cfg} {id : Nat} (hd : Dead c id) (ids : IdsInv M0 c)
    (h : step t c = some c') : Dead c' id := by
  have ids' : IdsInv M0 c' := ids.step h
  obtain ⟨th, sh', th', hth, hst, rfl⟩ := step_elim h
  obtain ⟨hop, hnd, hni, _, _, _, _⟩ := stepThread_gate _ _ _ _ _ hst
  obtain ⟨hna, ha⟩ := stepThread_alloc _ _ _ _ _ hst
  have hself : (c.th.set t th')[t]? = some th' := getElem?_set_self' _ _ _ _ hth
  obtain ⟨hs, hle, hfl⟩ := hd
  have hmono : c.sh.maxId ≤ sh'.maxId := by
    rcases hk : th.isAdd with _ | _
    · rw [hna hk]; exact Nat.le_refl _
    · obtain ⟨h1, h2, _⟩ := ha hk
      by_cases hi : th.pc = .idle
      · rcases h1 hi with ⟨_, hm, _⟩ | ⟨_, hm⟩ <;> omega
      · rw [(h2 hi).2]; exact Nat.le_refl _
  refine ⟨?_, Nat.le_trans hle hmono, ?_⟩
  · rcases stepThread_store _ _ _ _ _ hst id with he | ⟨_, hn | hsome⟩ | ⟨hk, hpc, hi, _⟩
    · show sh'.store id = none
      rw [he]; exact hs
    · exact hn
    · exact absurd hs hsome
    · exact absurd hi.symm (hfl t th hth hk (by simp [hpc, Pc.active]))
  · intro x thx hx hk hact
    by_cases hxt : x = t
    · subst hxt
      rw [hself] at hx; cases hx
      have hk0 : th.isAdd = true := (isAdd_of_op hop) ▸ hk
      obtain ⟨h1, h2, _⟩ := ha hk0
      by_cases hi : th.pc = .idle
      · rcases h1 hi with ⟨_, _, hdone, _⟩ | ⟨he, _⟩
        · simp [hdone, Pc.active] at hact
        · rw [he]; omega
      · rw [(h2 hi).1]
        exact hfl x th hth hk0 (by rw [Pc.active_iff]; exact ⟨hi, hnd⟩)
    · rw [getElem?_set_ne' _ _ _ _ hxt] at hx
      exact hfl x thx hx hk hact

theorem RemoveInv.step {M0 t : Nat} {c c' : Cfg} (inv : RemoveInv c) (lk : LockInv c) (st : StoreInv c)
    (rs : ReadStab c) (ids : IdsInv M0 c) (h : step t c = some c') : RemoveInv c' := by
  have hstep := h
  obtain ⟨th, sh', th', hth, hst, rfl⟩ := step_elim h
  obtain ⟨hop, hnd, hni, _, _, _, _⟩ := stepThread_gate _ _ _ _ _ hst
  have hself : (c.th.set t th')[t]? = some th' := getElem?_set_self' _ _ _ _ hth
  -- facts about the stepping thread when it is a remove of `id`
  have hholder_t : ∀ id, th'.op = .rm id → th'.old ≠ none →
      (th'.crit = some id ∧ (th'.pc = .intentWait ∨ th'.pc = .delWait)) ∨
      (th'.pc = .done ∧ Dead ({ sh := sh', th := c.th.set t th', clock := c.clock + 1, stamps := c.stamps.set t (stampOf c.clock th th' (c.stamps.getD t {})) } : Cfg) id) := by
    intro id hop' ho'
    have hop0 : th.op = .rm id := hop ▸ hop'
    obtain ⟨hold, hint, hdel, _⟩ := stepThread_rm _ _ _ _ _ hst id hop0
    rcases hold with hsame | ⟨_, hpc', _⟩
    · rw [hsame] at ho'
      rcases inv.holder t th id hth hop0 ho' with ⟨_, hpc | hpc⟩ | ⟨hdone, _⟩
      · left
        obtain ⟨hpc', _⟩ := hint hpc
        exact ⟨by simp [Thread.crit, hop', hpc'], Or.inr hpc'⟩
      · right
        obtain ⟨hpc', hsn, _, _⟩ := hdel hpc
        refine ⟨hpc', hsn, ?_, ?_⟩
        · -- the object existed before the delete
          have := rs t th hth
          unfold Thread.RS at this
          simp only [hop0] at this
          obtain ⟨d, v, _, hs⟩ := this (Or.inr hpc)
          have hle := st.dom id (by simp [hs])
          have := (ids.step hstep).mono
          obtain ⟨hna, ha⟩ := stepThread_alloc _ _ _ _ _ hst
          have : th.isAdd = false := by simp [Thread.isAdd, hop0]
          show id ≤ sh'.maxId
          rw [hna this]; exact hle
        · intro x thx hx hk hact
          have hxt : x ≠ t := by
            intro hxt; subst hxt
            rw [hself] at hx; cases hx
            simp [Thread.isAdd, hop'] at hk
          rw [getElem?_set_ne' _ _ _ _ hxt] at hx
          have hfree := st.free x thx hx hk hact
          have := rs t th hth
          unfold Thread.RS at this
          simp only [hop0] at this
          obtain ⟨d, v, _, hs⟩ := this (Or.inr hpc)
          intro heq
          rw [heq, hs] at hfree; cases hfree
      · exact absurd hdone hnd
    · left
      exact ⟨by simp [Thread.crit, hop', hpc'], Or.inl hpc'⟩
  refine ⟨?_, ?_, ?_⟩
  · intro x thx id hx hopx ho
    by_cases hxt : x = t
    · subst hxt
      rw [hself] at hx; cases hx
      exact hholder_t id hopx ho
    · rw [getElem?_set_ne' _ _ _ _ hxt] at hx
      rcases inv.holder x thx id hx hopx ho with hl | ⟨hdone, hdead⟩
      · exact Or.inl hl
      · exact Or.inr ⟨hdone, hdead.step ids hstep⟩
  · intro x thx id d hx hopx hr
    by_cases hxt : x = t
    · subst hxt
      rw [hself] at hx; cases hx
      have hop0 : th.op = .rm id := hop ▸ hopx
      obtain ⟨_, _, hdel, hres⟩ := stepThread_rm _ _ _ _ _ hst id hop0
      rcases hres d hr with hold | hpc
      · exact absurd (inv.res x th id d hth hop0 hold).2 hnd
      · obtain ⟨hpc', _, ho', hr'⟩ := hdel hpc
        rw [hr'] at hr
        have hd : th.old.getD default = d := by simpa using hr
        -- at delWait the document was read
        have := rs x th hth
        unfold Thread.RS at this
        simp only [hop0] at this
        obtain ⟨d0, _, ho0, _⟩ := this (Or.inr hpc)
        rw [ho0] at hd; simp at hd
        exact ⟨by rw [ho', ho0, hd], hpc'⟩
    · rw [getElem?_set_ne' _ _ _ _ hxt] at hx
      exact inv.res x thx id d hx hopx hr
  · -- at most one reader of the document
    have key : ∀ (y : Nat) (thy : Thread) (id : Nat), y ≠ t → c.th[y]? = some thy → thy.op = .rm id →
        thy.old ≠ none → th'.op = .rm id → th'.old ≠ none → th.old ≠ none := by
      intro y thy id hyt hy hopy hoy hop' ho'
      have hop0 : th.op = .rm id := hop ▸ hop'
      obtain ⟨hold, _, _, _⟩ := stepThread_rm _ _ _ _ _ hst id hop0
      rcases hold with hsame | ⟨hpc, _, d, v, hs, _⟩
      · rw [← hsame]; exact ho'
      · -- `t` is reading now: nobody else may have read it
        exfalso
        have hct : th.crit = some id := by simp [Thread.crit, hop0, hpc]
        rcases inv.holder y thy id hy hopy hoy with ⟨hcy, _⟩ | ⟨_, hdead⟩
        · exact hyt (lk.excl y t thy th id id hy hth hcy hct rfl)
        · rw [hdead.1] at hs; cases hs
    intro x y thx thy id hx hy hopx hopy hox hoy
    by_cases hxt : x = t
    · subst hxt
      by_cases hyt : y = x
      · exact hyt.symm
      · rw [hself] at hx; cases hx
        rw [getElem?_set_ne' _ _ _ _ hyt] at hy
        have := key y thy id hyt hy hopy hoy hopx hox
        exact inv.one x y th thy id hth hy (hop ▸ hopx) hopy this hoy
    · rw [getElem?_set_ne' _ _ _ _ hxt] at hx
      by_cases hyt : y = t
      · subst hyt
        rw [hself] at hy; cases hy
        have := key x thx id hxt hx hopx hox hopy hoy
        exact inv.one x y thx th id hx hth hopx (hop ▸ hopy) hox this
      · rw [getElem?_set_ne' _ _ _ _ hyt] at hy
        exact inv.one x y thx thy id hx hy hopx hopy hox hoy

end AndaVerif.ConcColl
