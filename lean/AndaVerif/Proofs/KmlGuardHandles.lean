import AndaVerif.Proofs.KmlGuardExact
/-
C16 helper lemmas, part 4: handle declaration and resolution in `validate_plan`.
-/
namespace AndaVerif.KmlGuard

mutual
theorem BoundValue.anyLeaf_handles (ph : String → Bool) : ∀ v : BoundValue, v.anyLeaf ph never = v.handles.any ph
  | .value _ => by simp [BoundValue.anyLeaf, BoundValue.handles]
  | .param _ => by simp [BoundValue.anyLeaf, BoundValue.handles]
  | .handle _ => by simp [BoundValue.anyLeaf, BoundValue.handles]
  | .var _ => by simp [BoundValue.anyLeaf, BoundValue.handles, never]
  | .arr items => by simp only [BoundValue.anyLeaf, BoundValue.handles]; exact BoundList.anyLeaf_handles ph items
  | .obj fields => by simp only [BoundValue.anyLeaf, BoundValue.handles]; exact BoundFields.anyLeaf_handles ph fields
theorem BoundList.anyLeaf_handles (ph : String → Bool) : ∀ l : BoundList, l.anyLeaf ph never = l.handles.any ph
  | .nil => by simp [BoundList.anyLeaf, BoundList.handles]
  | .cons v t => by
    simp only [BoundList.anyLeaf, BoundList.handles, List.any_append]
    rw [BoundValue.anyLeaf_handles ph v, BoundList.anyLeaf_handles ph t]
theorem BoundFields.anyLeaf_handles (ph : String → Bool) : ∀ l : BoundFields, l.anyLeaf ph never = l.handles.any ph
  | .nil => by simp [BoundFields.anyLeaf, BoundFields.handles]
  | .cons _ v t => by
    simp only [BoundFields.anyLeaf, BoundFields.handles, List.any_append]
    rw [BoundValue.anyLeaf_handles ph v, BoundFields.anyLeaf_handles ph t]
end

mutual
theorem UpdateExpr.anyRead_never : ∀ e : UpdateExpr, e.anyRead never = false
  | .var _ => by simp [UpdateExpr.anyRead, never]
  | .num _ => by simp [UpdateExpr.anyRead]
  | .param _ => by simp [UpdateExpr.anyRead]
  | .func _ args => by simp only [UpdateExpr.anyRead]; exact ExprList.anyRead_never args
theorem ExprList.anyRead_never : ∀ l : ExprList, l.anyRead never = false
  | .nil => by simp [ExprList.anyRead]
  | .cons e t => by simp [ExprList.anyRead, UpdateExpr.anyRead_never e, ExprList.anyRead_never t]
end

theorem MutationValue.mentions_handles {h : String} {v : MutationValue} (hm : v.mentions h = true) : h ∈ v.handles := by
  have key : v.anyLeaf (· == h) never = v.handles.any (· == h) := by
    cases v with
    | value _ => simp [MutationValue.anyLeaf, MutationValue.handles]
    | param _ => simp [MutationValue.anyLeaf, MutationValue.handles]
    | handle _ => simp [MutationValue.anyLeaf, MutationValue.handles]
    | var _ => simp [MutationValue.anyLeaf, MutationValue.handles, never]
    | arr items => simp only [MutationValue.anyLeaf, MutationValue.handles]; exact BoundList.anyLeaf_handles _ items
    | obj fields => simp only [MutationValue.anyLeaf, MutationValue.handles]; exact BoundFields.anyLeaf_handles _ fields
    | expr e => simp [MutationValue.anyLeaf, MutationValue.handles, UpdateExpr.anyRead_never e]
  simp only [MutationValue.mentions] at hm
  rw [key, List.any_eq_true] at hm
  obtain ⟨x, hx, hxe⟩ := hm
  have : x = h := by simpa using hxe
  exact this ▸ hx

theorem BoundFields.mentions_handles {h : String} {o : BoundFields} (hm : o.anyLeaf (· == h) never = true) : h ∈ o.handles := by
  rw [BoundFields.anyLeaf_handles, List.any_eq_true] at hm
  obtain ⟨x, hx, hxe⟩ := hm
  have : x = h := by simpa using hxe
  exact this ▸ hx

/-! membership in the per-block collectors -/

theorem assignmentsHandles_mem {a : Assignments} {v : MutationValue} (hv : v ∈ assignValues a) :
    ∀ h ∈ v.handles, h ∈ assignmentsHandles a := by
  induction a with
  | nil => simp [assignValues] at hv
  | cons kv rest ih =>
    obtain ⟨k, w⟩ := kv
    intro h hh
    simp only [assignValues, List.map_cons, List.mem_cons] at hv
    simp only [assignmentsHandles, List.mem_append]
    rcases hv with rfl | hv
    · exact Or.inl hh
    · exact Or.inr (ih (by simpa [assignValues] using hv) h hh)

theorem optAssignmentsHandles_mem {o : Option Assignments} {v : MutationValue} (hv : v ∈ optAssignValues o) :
    ∀ h ∈ v.handles, h ∈ optAssignmentsHandles o := by
  cases o with
  | none => simp [optAssignValues] at hv
  | some a => exact assignmentsHandles_mem (by simpa [optAssignValues] using hv)

theorem facetsHandles_mem {fs : List FacetAssignment} {v : MutationValue} (hv : v ∈ facetValues fs) :
    ∀ h ∈ v.handles, h ∈ facetsHandles fs := by
  induction fs with
  | nil => simp [facetValues] at hv
  | cons f rest ih =>
    intro h hh
    simp only [facetValues, List.flatMap_cons, List.mem_append] at hv
    simp only [facetsHandles, List.mem_append]
    rcases hv with hv | hv
    · exact Or.inl (assignmentsHandles_mem hv h hh)
    · exact Or.inr (ih (by simpa [facetValues] using hv) h hh)

theorem edgesHandles_value_mem {es : List StructuralEdge} {e : StructuralEdge} (he : e ∈ es) :
    ∀ h ∈ e.value.handles, h ∈ edgesHandles es := by
  induction es with
  | nil => cases he
  | cons x xs ih =>
    intro h hh
    simp only [edgesHandles, List.mem_append]
    rcases List.mem_cons.mp he with rfl | he
    · exact Or.inl (Or.inl hh)
    · exact Or.inr (ih he h hh)

theorem edgesHandles_options_mem {es : List StructuralEdge} {o : BoundFields} (ho : o ∈ edgeOptions es) :
    ∀ h ∈ o.handles, h ∈ edgesHandles es := by
  induction es with
  | nil => simp [edgeOptions] at ho
  | cons x xs ih =>
    intro h hh
    simp only [edgesHandles, List.mem_append]
    simp only [edgeOptions, List.filterMap_cons] at ho
    cases hx : x.options with
    | none =>
      rw [hx] at ho
      exact Or.inr (ih (by simpa [edgeOptions] using ho) h hh)
    | some ox =>
      rw [hx] at ho
      rcases List.mem_cons.mp ho with rfl | ho
      · exact Or.inl (Or.inr hh)
      · exact Or.inr (ih (by simpa [edgeOptions] using ho) h hh)

theorem optEdgesHandles_value_mem {o : Option (List StructuralEdge)} {v : MutationValue} (hv : v ∈ optEdgeValues o) :
    ∀ h ∈ v.handles, h ∈ optEdgesHandles o := by
  cases o with
  | none => simp [optEdgeValues] at hv
  | some es =>
    simp only [optEdgeValues, List.mem_map] at hv
    obtain ⟨e, he, rfl⟩ := hv
    exact edgesHandles_value_mem he

theorem optEdgesHandles_options_mem {o : Option (List StructuralEdge)} {b : BoundFields} (hb : b ∈ optEdgeOptions o) :
    ∀ h ∈ b.handles, h ∈ optEdgesHandles o := by
  cases o with
  | none => simp [optEdgeOptions] at hb
  | some es => exact edgesHandles_options_mem (by simpa [optEdgeOptions] using hb)

theorem removalsHandles_mem {rs : List StructuralRemoval} {r : StructuralRemoval} (hr : r ∈ rs) :
    ∀ h ∈ r.value.handles, h ∈ removalsHandles rs := by
  induction rs with
  | nil => cases hr
  | cons x xs ih =>
    intro h hh
    simp only [removalsHandles, List.mem_append]
    rcases List.mem_cons.mp hr with rfl | hr
    · exact Or.inl hh
    · exact Or.inr (ih hr h hh)

theorem action_handles_value_mem {a : UpdateAction} {v : MutationValue} (hv : v ∈ a.values) :
    ∀ h ∈ v.handles, h ∈ a.handles := by
  intro h hh
  cases a with
  | setFields asg => exact assignmentsHandles_mem (by simpa [UpdateAction.values] using hv) h hh
  | setAttributes asg => exact assignmentsHandles_mem (by simpa [UpdateAction.values] using hv) h hh
  | setFacet f => exact assignmentsHandles_mem (by simpa [UpdateAction.values] using hv) h hh
  | unsetAttributes _ => simp [UpdateAction.values] at hv
  | unsetFacet _ => simp [UpdateAction.values] at hv
  | setStructural es =>
    simp only [UpdateAction.values, List.mem_map] at hv
    obtain ⟨e, he, rfl⟩ := hv
    exact edgesHandles_value_mem he h hh
  | unsetStructural rs =>
    simp only [UpdateAction.values, List.mem_map] at hv
    obtain ⟨r, hr, rfl⟩ := hv
    exact removalsHandles_mem hr h hh

theorem action_handles_options_mem {a : UpdateAction} {o : BoundFields} (ho : o ∈ a.options) :
    ∀ h ∈ o.handles, h ∈ a.handles := by
  intro h hh
  cases a <;> simp [UpdateAction.options] at ho
  rename_i es
  exact edgesHandles_options_mem ho h hh

theorem actionsHandles_mem {as : List UpdateAction} {a : UpdateAction} (ha : a ∈ as) : ∀ h ∈ a.handles, h ∈ actionsHandles as := by
  induction as with
  | nil => cases ha
  | cons x xs ih =>
    intro h hh
    simp only [actionsHandles, List.mem_append]
    rcases List.mem_cons.mp ha with rfl | ha
    · exact Or.inl hh
    · exact Or.inr (ih ha h hh)

theorem elementHandles_mem {h : String} {r : ElementRef} (hr : ElementRef.handle h = r) : h ∈ elementHandles r := by
  subst hr
  simp [elementHandles]

/-- `collect_clause_handles` finds every handle the specification says a clause mentions -/
theorem collectClauseHandles_complete {h : String} {c : MutationClause} (hm : ClauseMentions h c) :
    h ∈ collectClauseHandles c := by
  rcases hm with ht | ⟨v, hv, hvm⟩ | ⟨o, ho, hom⟩
  · cases c <;> simp only [targetsOf, List.mem_cons, List.not_mem_nil, or_false] at ht <;>
      simp only [collectClauseHandles, List.mem_append]
    all_goals first
      | exact Or.inl (elementHandles_mem ht)
      | exact elementHandles_mem ht
      | (rcases ht with ht | ht
         · exact Or.inl (elementHandles_mem ht)
         · exact Or.inr (elementHandles_mem ht))
      | exact Or.inl (Or.inl (elementHandles_mem ht))
  · have hh := MutationValue.mentions_handles hvm
    cases c <;> simp only [valuesOf, List.mem_append, List.not_mem_nil] at hv <;>
      simp only [collectClauseHandles, List.mem_append]
    case createConcept c =>
      rcases hv with ((hv | hv) | hv) | hv
      · exact Or.inl (Or.inl (Or.inl (optAssignmentsHandles_mem hv h hh)))
      · exact Or.inl (Or.inl (Or.inr (optAssignmentsHandles_mem hv h hh)))
      · exact Or.inl (Or.inr (facetsHandles_mem hv h hh))
      · exact Or.inr (optEdgesHandles_value_mem hv h hh)
    case upsertConcept c =>
      rcases hv with (((hv | hv) | hv) | hv) | hv
      · exact Or.inl (Or.inl (Or.inl (Or.inl (optAssignmentsHandles_mem hv h hh))))
      · exact Or.inl (Or.inl (Or.inl (Or.inr (optAssignmentsHandles_mem hv h hh))))
      · exact Or.inl (Or.inl (Or.inr (facetsHandles_mem hv h hh)))
      · exact Or.inl (Or.inr (optEdgesHandles_value_mem hv h hh))
      · refine Or.inr ?_
        cases hu : c.unsetStructural with
        | none => simp [hu, optRemovalValues] at hv
        | some rs =>
          simp only [hu, optRemovalValues, List.mem_map] at hv
          obtain ⟨r, hr, rfl⟩ := hv
          exact removalsHandles_mem hr h hh
    case createEvidence c =>
      rcases hv with (hv | hv) | hv
      · exact Or.inl (Or.inl (optAssignmentsHandles_mem hv h hh))
      · exact Or.inl (Or.inr (facetsHandles_mem hv h hh))
      · exact Or.inr (optEdgesHandles_value_mem hv h hh)
    case createAssertion c =>
      rcases hv with (hv | hv) | hv
      · exact Or.inl (Or.inl (optAssignmentsHandles_mem hv h hh))
      · exact Or.inl (Or.inr (facetsHandles_mem hv h hh))
      · exact Or.inr (optEdgesHandles_value_mem hv h hh)
    case createActivity c =>
      rcases hv with (hv | hv) | hv
      · exact Or.inl (Or.inl (optAssignmentsHandles_mem hv h hh))
      · exact Or.inl (Or.inr (facetsHandles_mem hv h hh))
      · exact Or.inr (optEdgesHandles_value_mem hv h hh)
    case update c =>
      obtain ⟨a, ha, hva⟩ := List.mem_flatMap.mp hv
      exact Or.inr (actionsHandles_mem ha h (action_handles_value_mem hva h hh))
    case transitionActivity c =>
      rcases hv with hv | hv
      · exact Or.inl (Or.inr (optAssignmentsHandles_mem hv h hh))
      · exact Or.inr (optEdgesHandles_value_mem hv h hh)
    case setRetention c =>
      exact Or.inr (assignmentsHandles_mem hv h hh)
  · have hh := BoundFields.mentions_handles hom
    cases c <;> simp only [optionsOf, List.not_mem_nil] at ho <;>
      simp only [collectClauseHandles, List.mem_append]
    case createConcept c => exact Or.inr (optEdgesHandles_options_mem ho h hh)
    case upsertConcept c => exact Or.inl (Or.inr (optEdgesHandles_options_mem ho h hh))
    case createEvidence c => exact Or.inr (optEdgesHandles_options_mem ho h hh)
    case createAssertion c => exact Or.inr (optEdgesHandles_options_mem ho h hh)
    case createActivity c => exact Or.inr (optEdgesHandles_options_mem ho h hh)
    case update c =>
      obtain ⟨a, ha, hoa⟩ := List.mem_flatMap.mp ho
      exact Or.inr (actionsHandles_mem ha h (action_handles_options_mem hoa h hh))
    case transitionActivity c => exact Or.inr (optEdgesHandles_options_mem ho h hh)

/-! the two plan-level loops -/

theorem handle_eq_declares (c : MutationClause) : c.handle = declares c := by
  cases c <;> rfl

theorem planHandles_ok : ∀ (cs : List MutationClause) (acc hs : List String), planHandles cs acc = .ok hs →
    (∀ h, h ∈ hs ↔ h ∈ acc ∨ h ∈ declaredHandles cs) ∧ (declaredHandles cs).Nodup ∧
      (∀ h ∈ declaredHandles cs, h ∉ acc) := by
  intro cs
  induction cs with
  | nil =>
    intro acc hs h
    simp only [planHandles] at h
    cases h
    simp [declaredHandles]
  | cons c cs ih =>
    intro acc hs h
    unfold planHandles at h
    rw [handle_eq_declares] at h
    cases hd : declares c with
    | none =>
      rw [hd] at h
      simp only at h
      have := ih acc hs h
      simpa [declaredHandles, hd] using this
    | some x =>
      rw [hd] at h
      simp only at h
      split at h
      · cases h
      · rename_i hx
        have hx' : x ∉ acc := by simpa using hx
        obtain ⟨i1, i2, i3⟩ := ih (x :: acc) hs h
        have hdecl : declaredHandles (c :: cs) = x :: declaredHandles cs := by simp [declaredHandles, hd]
        rw [hdecl]
        refine ⟨?_, ?_, ?_⟩
        · intro y
          rw [i1 y]
          simp only [List.mem_cons]
          constructor
          · rintro ((rfl | hy) | hy)
            · exact Or.inr (Or.inl rfl)
            · exact Or.inl hy
            · exact Or.inr (Or.inr hy)
          · rintro (hy | rfl | hy)
            · exact Or.inl (Or.inr hy)
            · exact Or.inl (Or.inl rfl)
            · exact Or.inr hy
        · refine List.nodup_cons.mpr ⟨?_, i2⟩
          intro hxin
          exact i3 x hxin (List.mem_cons_self)
        · intro y hy
          rcases List.mem_cons.mp hy with rfl | hy
          · exact hx'
          · intro hya
            exact i3 y hy (List.mem_cons_of_mem _ hya)

theorem firstUnbound_ok (allowed : List String) : ∀ hs : List String, firstUnbound allowed hs = .ok () → ∀ h ∈ hs, h ∈ allowed := by
  intro hs
  induction hs with
  | nil => intro _ h hh; cases hh
  | cons x xs ih =>
    intro hok h hh
    unfold firstUnbound at hok
    split at hok
    · rename_i hx
      rcases List.mem_cons.mp hh with rfl | hh
      · simpa using hx
      · exact ih hok h hh
    · cases hok

theorem checkReferences_ok (plan : List String) : ∀ cs : List MutationClause, checkReferences plan cs = .ok () →
    ∀ c ∈ cs, ∀ h ∈ collectClauseHandles c, h ∈ plan ∨ ∃ ws, selectionOf c = some ws ∧ h ∈ ws.vars := by
  intro cs
  induction cs with
  | nil => intro _ c hc; cases hc
  | cons x xs ih =>
    intro hok c hc h hh
    unfold checkReferences at hok
    simp only at hok
    split at hok
    · cases hok
    · rename_i u hx
      cases u
      rcases List.mem_cons.mp hc with rfl | hc
      · have := firstUnbound_ok _ _ hx h hh
        rw [clauseWhere_eq_selectionOf] at this
        rcases List.mem_append.mp this with hp | hw
        · exact Or.inl hp
        · cases hs : selectionOf c with
          | none => simp [hs] at hw
          | some ws =>
            rw [hs] at hw
            exact Or.inr ⟨ws, rfl, hw⟩
      · exact ih hok c hc h hh

end AndaVerif.KmlGuard
