import AndaVerif.Proofs.ObjStoreRefine
/-
Call sequences: refinement along a whole history, token freshness.
-/
namespace AndaVerif.ObjStore
open Gen.SidecarOrder

/-- one step of a client history: a call at a clock reading, or a re-open of the wrapper (cold cache) -/
inductive Op where
  | call (now : Nat) (c : Call)
  | reopen
  deriving Repr

def opW (w : W) : Op → W × Option Out
  | .call now c => let r := wStep w now c; (r.1, some r.2)
  | .reopen => (w.reopen, none)

/-- the reference is run with the tokens (and clock readings) the wrapper assigns -/
def opR (w : W) (r : Ref) : Op → Ref × Option Out
  | .call now c => let x := refStep r (commitTok w now c) now c; (x.1, some x.2)
  | .reopen => (r, none)

def optOutEq : Option Out → Option Out → Prop
  | some a, some b => OutEq a b
  | none, none => True
  | _, _ => False

/-- no call of the history has one of the known divergent shapes in the state it is issued in -/
def Conforms : W → Ref → List Op → Prop
  | _, _, [] => True
  | w, r, op :: ops =>
      (match op with | .call _ c => ¬ KnownDivergence r c | .reopen => True) ∧
      Conforms (opW w op).1 (opR w r op).1 ops

instance decKnownDivergence (r : Ref) (c : Call) : Decidable (KnownDivergence r c) := by
  cases c with
  | put k m d => cases m <;> (simp only [KnownDivergence]; infer_instance)
  | getRanges k rs => simp only [KnownDivergence]; cases aget r k <;> infer_instance
  | delete k => simp only [KnownDivergence]; infer_instance
  | rename s d cr => simp only [KnownDivergence]; infer_instance
  | mput k ps => exact isFalse (fun h => h)
  | get k o => exact isFalse (fun h => h)
  | copy s d cr => exact isFalse (fun h => h)
  | list p o => exact isFalse (fun h => h)
  | listDelim p => exact isFalse (fun h => h)

instance decConforms : ∀ (w : W) (r : Ref) (ops : List Op), Decidable (Conforms w r ops)
  | _, _, [] => isTrue trivial
  | w, r, op :: ops =>
      have h1 : Decidable (match op with | .call _ c => ¬ KnownDivergence r c | .reopen => True) := by
        cases op <;> infer_instance
      match h1, decConforms (opW w op).1 (opR w r op).1 ops with
      | isTrue a, isTrue b => isTrue ⟨a, b⟩
      | isFalse a, _ => isFalse (fun h => a h.1)
      | _, isFalse b => isFalse (fun h => b h.2)

/-- every answer along the history is the reference's answer -/
def AnswersAgree : W → Ref → List Op → Prop
  | _, _, [] => True
  | w, r, op :: ops => optOutEq (opW w op).2 (opR w r op).2 ∧ AnswersAgree (opW w op).1 (opR w r op).1 ops

theorem Sim.reopen {w : W} {r : Ref} (h : Sim w r) : Sim w.reopen r :=
  ⟨h.inv.reopen, h.modern, h.refNodup, h.agree⟩

theorem refines_along {w : W} {r : Ref} (h : Sim w r) (ops : List Op) (hc : Conforms w r ops) :
    AnswersAgree w r ops := by
  induction ops generalizing w r with
  | nil => trivial
  | cons op ops ih =>
      obtain ⟨hc1, hc2⟩ := hc
      cases op with
      | call now c =>
          have := refine_step h now c hc1
          exact ⟨this.2, ih this.1 hc2⟩
      | reopen => exact ⟨trivial, ih h.reopen hc2⟩

/-! ### token freshness -/

/-- the per-commit seed hashed into a token -/
def tokSeed : Tok → Nat
  | .put s _ => s
  | .copy s _ => s
  | _ => 0

/-- does the call mint a generation and commit it (as seen from its answer)? -/
def committedTok (w : W) (now : Nat) (c : Call) : Option Tok :=
  match c, (wStep w now c).2 with
  | .put _ _ _, .put _ => some (commitTok w now c)
  | .mput _ _, .put _ => some (commitTok w now c)
  | .copy _ _ _, .unit => some (commitTok w now c)
  | .rename src dst _, .unit => if src = dst then none else some (commitTok w now c)
  | _, _ => none

theorem commitTok_seed (w : W) (now : Nat) (c : Call) (t : Tok) (h : committedTok w now c = some t) :
    tokSeed t = w.nextId + 1 := by
  unfold committedTok at h
  cases c with
  | put k m d =>
      cases ho : (wStep w now (.put k m d)).2 <;> simp [ho] at h
      subst h
      simp [commitTok, mkPutTok, gen_put_tag_seeded, tokSeed]
  | mput k ps =>
      cases ho : (wStep w now (.mput k ps)).2 <;> simp [ho] at h
      subst h
      simp [commitTok, mkPutTok, gen_complete_tag_seeded, tokSeed]
  | copy s d cr =>
      cases ho : (wStep w now (.copy s d cr)).2 <;> simp [ho] at h
      subst h
      simp [commitTok, mkCopyTok, gen_copy_tag_seeded, tokSeed]
  | rename s d cr =>
      cases ho : (wStep w now (.rename s d cr)).2 <;> simp [ho] at h
      obtain ⟨_, h⟩ := h
      subst h
      simp [commitTok, mkCopyTok, gen_copy_tag_seeded, tokSeed]
  | get k o => cases ho : (wStep w now (.get k o)).2 <;> simp at h
  | getRanges k rs => cases ho : (wStep w now (.getRanges k rs)).2 <;> simp at h
  | delete k => cases ho : (wStep w now (.delete k)).2 <;> simp at h
  | list p o => cases ho : (wStep w now (.list p o)).2 <;> simp at h
  | listDelim p => cases ho : (wStep w now (.listDelim p)).2 <;> simp at h

end AndaVerif.ObjStore

namespace AndaVerif.ObjStore
open Gen.SidecarOrder

/-- a call mints at most one generation; a call that commits a fresh generation mints exactly one -/
theorem wStep_nextId {w : W} (hw : WInv w) (now : Nat) (c : Call) :
    ((wStep w now c).1.nextId = w.nextId ∨ (wStep w now c).1.nextId = w.nextId + 1) ∧
    (∀ t, committedTok w now c = some t → (wStep w now c).1.nextId = w.nextId + 1) := by
  cases c with
  | put k m d => exact ⟨Or.inr rfl, fun _ _ => rfl⟩
  | mput k ps => exact ⟨Or.inr rfl, fun _ _ => rfl⟩
  | get k o =>
      refine ⟨Or.inl (readLoop_state hw k _ _).2.2.1, fun t h => ?_⟩
      unfold committedTok at h
      cases ho : (wStep w now (.get k o)).2 <;> simp at h
  | getRanges k rs =>
      refine ⟨?_, fun t h => ?_⟩
      · simp only [wStep]
        by_cases hr : rs.isEmpty
        · simp [hr]
        · simp only [hr, Bool.false_eq_true, if_false]; exact Or.inl (readLoop_state hw k _ _).2.2.1
      · unfold committedTok at h
        cases ho : (wStep w now (.getRanges k rs)).2 <;> simp at h
  | delete k =>
      refine ⟨Or.inl rfl, fun t h => ?_⟩
      unfold committedTok at h
      cases ho : (wStep w now (.delete k)).2 <;> simp at h
  | copy src dst create =>
      obtain ⟨w1, hr, hw1, hbe, hn, hf⟩ := resolveSource_spec hw src
      cases hd : docAt w.be src with
      | none =>
          have hst : wStep w now (.copy src dst create) = (w1, .err .notFound) := by
            simp only [wStep]; rw [hr, hd]
          refine ⟨Or.inl (by rw [hst]; exact hn), fun t h => ?_⟩
          unfold committedTok at h
          rw [hst] at h
          simp at h
      | some d =>
          have hst : (wStep w now (.copy src dst create)).1.nextId = w.nextId + 1 := by
            simp only [wStep]; rw [hr, hd]; simp [runPlan, hn]
          exact ⟨Or.inr hst, fun _ _ => hst⟩
  | rename src dst create =>
      by_cases hsd : src = dst
      · subst hsd
        obtain ⟨w1, hg, hw1, hbe, hn, hf⟩ := getMeta_spec hw src
        have hst : (wStep w now (.rename src src create)).1.nextId = w.nextId := by
          simp only [wStep, rename_guard_self, if_true]
          rw [hg]
          cases docAt w.be src with
          | none => exact hn
          | some d => cases create <;> exact hn
        refine ⟨Or.inl hst, fun t h => ?_⟩
        unfold committedTok at h
        cases ho : (wStep w now (.rename src src create)).2 <;> simp [ho] at h
      · obtain ⟨w1, hr, hw1, hbe, hn, hf⟩ := resolveSource_spec hw src
        cases hd : docAt w.be src with
        | none =>
            have hst : wStep w now (.rename src dst create) = (w1, .err .notFound) := by
              simp only [wStep, rename_guard, rename_order_std, if_true]; simp only [hsd, if_false]; rw [hr, hd]
            refine ⟨Or.inl (by rw [hst]; exact hn), fun t h => ?_⟩
            unfold committedTok at h
            rw [hst] at h
            simp at h
        | some d =>
            have hst : (wStep w now (.rename src dst create)).1.nextId = w.nextId + 1 := by
              simp only [wStep, rename_guard, rename_order_std, if_true]
              simp only [hsd, if_false]
              rw [hr, hd]
              simp only []
              rcases planCopyCommit_steps w1 w1.cache now d (payloadPath src d.gen) dst create with
                ⟨_, hout, _⟩ | ⟨_, hout, _⟩
              · simp [runPlan, hout, hn]
              · simp only [runPlan, hout]
                split <;> simp [hn]
            exact ⟨Or.inr hst, fun _ _ => hst⟩
  | list pre off =>
      refine ⟨Or.inl rfl, fun t h => ?_⟩
      unfold committedTok at h
      cases ho : (wStep w now (.list pre off)).2 <;> simp at h
  | listDelim pre =>
      refine ⟨Or.inl rfl, fun t h => ?_⟩
      unfold committedTok at h
      cases ho : (wStep w now (.listDelim pre)).2 <;> simp at h

/-- the tokens of the commits of a history, in order -/
def tokensOf : W → List Op → List Tok
  | _, [] => []
  | w, .call now c :: ops => (committedTok w now c).toList ++ tokensOf (wStep w now c).1 ops
  | w, .reopen :: ops => tokensOf w.reopen ops

theorem tokensOf_fresh {w : W} (hw : WInv w) (ops : List Op) :
    (tokensOf w ops).Nodup ∧ ∀ t ∈ tokensOf w ops, w.nextId < tokSeed t := by
  induction ops generalizing w with
  | nil => simp [tokensOf]
  | cons op ops ih =>
      cases op with
      | reopen =>
          simp only [tokensOf]
          exact ih hw.reopen
      | call now c =>
          simp only [tokensOf]
          obtain ⟨hnd, hlt⟩ := ih (wStep_inv hw now c)
          obtain ⟨hmono, hbump⟩ := wStep_nextId hw now c
          have hle : w.nextId ≤ (wStep w now c).1.nextId := by rcases hmono with h | h <;> omega
          cases hct : committedTok w now c with
          | none =>
              simp only [Option.toList_none, List.nil_append]
              exact ⟨hnd, fun t ht => Nat.lt_of_le_of_lt hle (hlt t ht)⟩
          | some t0 =>
              have hs := commitTok_seed w now c t0 hct
              have hb := hbump t0 hct
              simp only [Option.toList_some, List.singleton_append, List.nodup_cons, List.mem_cons]
              refine ⟨⟨?_, hnd⟩, ?_⟩
              · intro hmem
                have := hlt t0 hmem
                omega
              · rintro t (ht | ht)
                · subst ht; omega
                · exact Nat.lt_of_le_of_lt hle (hlt t ht)

end AndaVerif.ObjStore

namespace AndaVerif.ObjStore
open Gen.SidecarOrder

/-! ### the token of the latest commit of a key, read off the observable history -/

/-- how one answered call changes "the token of the latest commit of `k`" (`none` = no object):
a successful put / multipart complete on `k`, a successful copy or rename onto `k` set it to the
token minted for that call; a successful delete of `k` or rename away from `k` clears it -/
def effectTok (tok : Tok) (c : Call) (o : Out) (k : Path) (cur : Option Tok) : Option Tok :=
  match c, o with
  | .put k' _ _, .put _ => if k = k' then some tok else cur
  | .mput k' _, .put _ => if k = k' then some tok else cur
  | .copy _ dst _, .unit => if k = dst then some tok else cur
  | .rename src dst _, .unit => if k = src then none else if k = dst then some tok else cur
  | .delete k', .unit => if k = k' then none else cur
  | _, _ => cur

theorem effectTok_congr (tok : Tok) (c : Call) (a b : Out) (k : Path) (cur : Option Tok) (h : OutEq a b) :
    effectTok tok c a k cur = effectTok tok c b k cur := by
  cases a <;> cases b <;> simp only [OutEq] at h <;> (try cases h) <;> (try rfl)
  all_goals (cases c <;> rfl)

/-- on the reference store the entry's token is, by definition, the token of the latest commit -/
theorem refStep_tok (r : Ref) (tok : Tok) (now : Nat) (c : Call) (k : Path) :
    (aget (refStep r tok now c).1 k).map (·.tok) =
      effectTok tok c (refStep r tok now c).2 k ((aget r k).map (·.tok)) := by
  cases c with
  | put k' mode data =>
      cases mode with
      | overwrite =>
          simp only [refStep, effectTok, aget_aset]
          by_cases hk : k = k' <;> simp [hk]
      | create =>
          simp only [refStep]
          cases hg : aget r k' with
          | some e => simp [effectTok]
          | none => simp only [effectTok, aget_aset]; by_cases hk : k = k' <;> simp [hk]
      | update et hv =>
          simp only [refStep]
          cases hg : aget r k' with
          | none => simp [effectTok]
          | some e =>
              cases et with
              | none => simp [effectTok]
              | some t =>
                  by_cases ht : t = e.tok
                  · simp only [ht, if_true, effectTok, aget_aset]; by_cases hk : k = k' <;> simp [hk]
                  · simp [ht, effectTok]
  | mput k' parts =>
      simp only [refStep, effectTok, aget_aset]
      by_cases hk : k = k' <;> simp [hk]
  | get k' o =>
      simp only [refStep]
      cases aget r k' with
      | none => simp [effectTok]
      | some e =>
          simp only []
          cases checkPreconditions o (some e.tok) e.time with
          | error er => simp [effectTok]
          | ok u =>
              simp only []
              cases readRange e.data o.range with
              | error er => simp [effectTok]
              | ok v => simp [effectTok]
  | getRanges k' rs =>
      simp only [refStep]
      cases aget r k' with
      | none => simp [effectTok]
      | some e =>
          simp only []
          cases memGetRanges e.data rs <;> simp [effectTok]
  | delete k' =>
      simp only [refStep, effectTok, aget_adel]
      by_cases hk : k = k' <;> simp [hk]
  | copy src dst create =>
      simp only [refStep]
      cases aget r src with
      | none => simp [effectTok]
      | some e =>
          simp only []
          by_cases hc : (create && (aget r dst).isSome) = true
          · simp [hc, effectTok]
          · simp only [hc, Bool.false_eq_true, if_false, effectTok, aget_aset]
            by_cases hk : k = dst <;> simp [hk]
  | rename src dst create =>
      simp only [refStep]
      cases aget r src with
      | none => simp [effectTok]
      | some e =>
          simp only []
          by_cases hc : (create && (aget r dst).isSome) = true
          · simp [hc, effectTok]
          · simp only [hc, Bool.false_eq_true, if_false, effectTok, aget_adel, aget_aset]
            by_cases hk : k = src
            · simp [hk]
            · by_cases hk2 : k = dst
              · subst hk2; simp [hk]
              · simp [hk, hk2]
  | list pre off => simp [refStep, effectTok]
  | listDelim pre => simp [refStep, effectTok]

/-- the token of the latest commit of `k`, folded over the wrapper's own answers -/
def latestTok (k : Path) : W → List Op → Option Tok → Option Tok
  | _, [], cur => cur
  | w, .call now c :: ops, cur =>
      latestTok k (wStep w now c).1 ops (effectTok (commitTok w now c) c (wStep w now c).2 k cur)
  | w, .reopen :: ops, cur => latestTok k w.reopen ops cur

/-- the two final states of a history -/
def finalStates : W → Ref → List Op → W × Ref
  | w, r, [] => (w, r)
  | w, r, op :: ops => finalStates (opW w op).1 (opR w r op).1 ops

theorem final_sim_and_tok {w : W} {r : Ref} (h : Sim w r) (ops : List Op) (hc : Conforms w r ops) (k : Path) :
    Sim (finalStates w r ops).1 (finalStates w r ops).2 ∧
    (aget (finalStates w r ops).2 k).map (·.tok) = latestTok k w ops ((aget r k).map (·.tok)) := by
  induction ops generalizing w r with
  | nil => exact ⟨h, rfl⟩
  | cons op ops ih =>
      obtain ⟨hc1, hc2⟩ := hc
      cases op with
      | reopen => exact ih h.reopen hc2
      | call now c =>
          have hs := refine_step h now c hc1
          have := ih hs.1 hc2
          refine ⟨this.1, ?_⟩
          simp only [finalStates, latestTok, opW, opR] at this ⊢
          rw [this.2, refStep_tok, effectTok_congr _ _ _ _ _ _ hs.2]

end AndaVerif.ObjStore
