import AndaVerif.Model.Tx
/-
`seq_at_time` (a left fold keeping the greatest sequence among the rows committed at or before the
instant): bounds used by `as_of_tx_time_agree`.
-/
namespace AndaVerif.Tx

/-- `seq_at_time` of a list scanned oldest-to-newest, as a recursive maximum -/
theorem seqAtTime_le_max (j : List JEntry) (t m : Nat) (h : ∀ e ∈ j, e.seq ≤ m) (acc : Nat) (ha : acc ≤ m) :
    j.foldl (fun acc e => if e.time ≤ t ∧ e.seq > acc then e.seq else acc) acc ≤ m := by
  induction j generalizing acc with
  | nil => exact ha
  | cons e r ih =>
      simp only [List.foldl_cons]
      apply ih (fun x hx => h x (List.mem_cons_of_mem _ hx))
      split
      · exact h e List.mem_cons_self
      · exact ha

theorem seqAtTime_ge (j : List JEntry) (t : Nat) (acc : Nat) :
    acc ≤ j.foldl (fun acc e => if e.time ≤ t ∧ e.seq > acc then e.seq else acc) acc := by
  induction j generalizing acc with
  | nil => exact Nat.le_refl _
  | cons e r ih =>
      simp only [List.foldl_cons]
      refine Nat.le_trans ?_ (ih _)
      split
      · omega
      · exact Nat.le_refl _

theorem seqAtTime_ge_mem (j : List JEntry) (t : Nat) (acc : Nat) (e : JEntry) (he : e ∈ j) (ht : e.time ≤ t) :
    e.seq ≤ j.foldl (fun acc e => if e.time ≤ t ∧ e.seq > acc then e.seq else acc) acc := by
  induction j generalizing acc with
  | nil => cases he
  | cons x r ih =>
      simp only [List.foldl_cons]
      rcases List.mem_cons.mp he with h | h
      · subst h
        refine Nat.le_trans ?_ (seqAtTime_ge r t _)
        split
        · exact Nat.le_refl _
        · rename_i hn
          have : ¬ e.seq > acc := fun hgt => hn ⟨ht, hgt⟩
          omega
      · exact ih _ h

end AndaVerif.Tx
