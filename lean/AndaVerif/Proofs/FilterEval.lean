import AndaVerif.Proofs.FilterLists
/-
Specification of `filterById` and `evalF` (C03): every evaluation returns either the full match
set (some order, no repetition) or — for the arms that stop early while walking ids in id order —
exactly the requested end of the ascending match list.
-/
namespace AndaVerif.Filter

/-- Post-condition of one evaluation with bound `l` in direction `d`. -/
def Post (ids : List Nat) (p : Nat → Bool) (l : Nat) (d : Bool) (r : List Nat) : Prop :=
  SetSpec ids p r ∨ r = takeEnd d l (ids.filter p)

theorem Post.unbounded {ids : List Nat} {p : Nat → Bool} {d : Bool} {r : List Nat}
    (hids : ids.Pairwise (· < ·)) (h : Post ids p 0 d r) : SetSpec ids p r := by
  rcases h with h | h
  · exact h
  · subst h; simpa [takeEnd] using setSpec_filter p hids

theorem Post.congr {ids : List Nat} {p q : Nat → Bool} {l : Nat} {d : Bool} {r : List Nat}
    (h : Post ids p l d r) (hpq : ∀ i, i ∈ ids → p i = q i) : Post ids q l d r := by
  rcases h with h | h
  · exact Or.inl (setSpec_congr h hpq)
  · right; rw [h]; congr 1; exact List.filter_congr (fun i hi => hpq i hi)

/-- A bounded walk over `ids.filter g` yields the requested end of `ids.filter (g ∧ inC)`. -/
theorem walk_post (ids : List Nat) (g : Nat → Bool) (cands : Option (List Nat)) (l : Nat) (d : Bool) :
    Post ids (fun i => g i && inC cands i) l d (walk (ids.filter g) cands l d) := by
  right
  rw [walk_eq, List.filter_filter]
  congr 1
  apply List.filter_congr
  intro i _
  exact Bool.and_comm _ _

theorem toNat_cast_eq (i : Nat) (v : Int) : ((i : Int) == v) = (decide (0 ≤ v) && (i == v.toNat)) := by
  rw [Bool.eq_iff_iff]
  simp only [beq_iff_eq, Bool.and_eq_true, decide_eq_true_eq]
  omega

-- ------------------------------------------------------------------------------------------
-- `filter_by_id`
-- ------------------------------------------------------------------------------------------

theorem incl_keys_eq (ids : List Nat) (hids : ids.Pairwise (· < ·)) (ks : List Int) :
    (isort (dedup ((ks.filter (fun k => decide (0 ≤ k))).map Int.toNat))).filter (fun i => ids.contains i)
      = ids.filter (fun (i : Nat) => ks.contains (i : Int)) := by
  apply strict_ext
  · exact (strict_isort _ (nodup_dedup _)).filter _
  · exact hids.filter _
  · intro i
    simp only [List.mem_filter, mem_isort, mem_dedup, List.mem_map, List.contains_iff_mem, decide_eq_true_eq]
    constructor
    · rintro ⟨⟨k, ⟨hk, hk0⟩, rfl⟩, hi⟩
      refine ⟨hi, ?_⟩
      have : ((k.toNat : Nat) : Int) = k := Int.toNat_of_nonneg hk0
      rw [this]; exact hk
    · rintro ⟨hi, hk⟩
      exact ⟨⟨(i : Int), ⟨hk, by omega⟩, by simp⟩, hi⟩

mutual
theorem filterById_post (ids : List Nat) (hids : ids.Pairwise (· < ·)) :
    ∀ (q : RQ) (cands : Option (List Nat)) (l : Nat) (d : Bool),
      Post ids (fun i => q.matches (i : Int) && inC cands i) l d (filterById ids q cands l d)
  | .eq v, cands, l, d => by
      left
      simp only [filterById]
      split
      · rename_i h
        simp only [Bool.and_eq_true, decide_eq_true_eq, List.contains_iff_mem] at h
        refine ⟨by simp, fun i => ?_⟩
        simp only [List.mem_singleton, RQ.matches, toNat_cast_eq, Bool.and_eq_true, decide_eq_true_eq, beq_iff_eq]
        constructor
        · rintro rfl; exact ⟨h.1.2, ⟨h.1.1, rfl⟩, h.2⟩
        · rintro ⟨_, ⟨_, e⟩, _⟩; exact e
      · rename_i h
        refine ⟨by simp, fun i => ?_⟩
        simp only [List.not_mem_nil, false_iff, RQ.matches, toNat_cast_eq, Bool.and_eq_true, decide_eq_true_eq, beq_iff_eq]
        rintro ⟨hi, ⟨h0, e⟩, hc⟩
        subst e
        apply h
        simp [h0, hi, hc]
  | .gt v, cands, l, d => by simpa [filterById, RQ.matches] using walk_post ids (fun i => decide (v < (i : Int))) cands l d
  | .ge v, cands, l, d => by simpa [filterById, RQ.matches] using walk_post ids (fun i => decide (v ≤ (i : Int))) cands l d
  | .lt v, cands, l, d => by simpa [filterById, RQ.matches] using walk_post ids (fun i => decide ((i : Int) < v)) cands l d
  | .le v, cands, l, d => by simpa [filterById, RQ.matches] using walk_post ids (fun i => decide ((i : Int) ≤ v)) cands l d
  | .between a b, cands, l, d => by
      simp only [filterById]
      split
      · rename_i h
        left
        refine ⟨by simp, fun i => ?_⟩
        have : ¬ a ≤ b := by omega
        simp [RQ.matches, this]
      · rename_i h
        have hab : a ≤ b := by omega
        have := walk_post ids (fun i => decide (a ≤ (i : Int)) && decide ((i : Int) ≤ b)) cands l d
        refine this.congr (fun i _ => ?_)
        simp [RQ.matches, hab]
  | .incl ks, cands, l, d => by
      simp only [filterById]
      rw [incl_keys_eq ids hids ks]
      simpa [RQ.matches] using walk_post ids (fun (i : Nat) => ks.contains (i : Int)) cands l d
  | .and qs, cands, l, d => by
      left
      simp only [filterById]
      exact filterByIdAnd_spec ids hids qs cands d
  | .or qs, cands, l, d => by
      left
      simp only [filterById]
      have := filterByIdOr_spec ids hids qs cands d [] (by simp) (by simp)
      refine setSpec_congr this (fun i _ => ?_)
      simp [RQ.matches]
  | .not q, cands, l, d => by
      simp only [filterById]
      have hex := (filterById_post ids hids q none 0 d).unbounded hids
      have := walk_post ids (fun i => !(filterById ids q none 0 d).contains i) cands l d
      refine this.congr (fun i hi => ?_)
      have h2 := hex.2 i
      simp only [inC, Bool.and_true] at h2
      simp only [RQ.matches]
      congr 1
      by_cases hm : q.matches (i : Int) = true
      · have : i ∈ filterById ids q none 0 d := h2.mpr ⟨hi, hm⟩
        simp [hm, this]
      · have : i ∉ filterById ids q none 0 d := fun h => hm (h2.mp h).2
        simp [hm, this]

theorem filterByIdAnd_spec (ids : List Nat) (hids : ids.Pairwise (· < ·)) :
    ∀ (qs : List RQ) (cands : Option (List Nat)) (d : Bool),
      SetSpec ids (fun i => (RQ.and qs).matches (i : Int) && inC cands i) (filterByIdAnd ids qs cands d)
  | [], cands, d => by
      simp only [filterByIdAnd]
      exact ⟨by simp, fun i => by simp [RQ.matches]⟩
  | q :: qs, cands, d => by
      simp only [filterByIdAnd]
      have h0 := (filterById_post ids hids q cands 0 d).unbounded hids
      have hrt : SetSpec ids (fun i => q.matches (i : Int) && inC cands i) (dedup (filterById ids q cands 0 d)) :=
        ⟨nodup_dedup _, fun i => by rw [mem_dedup]; exact h0.2 i⟩
      have := filterByIdAndRest_spec ids hids qs cands d _ (fun i => q.matches (i : Int) && inC cands i) hrt
        (fun i hi => by simp only [Bool.and_eq_true] at hi; exact hi.2)
      refine setSpec_congr this (fun i _ => ?_)
      simp only [RQ.matches, RQ.matchesAll, List.isEmpty_cons, Bool.not_false, Bool.true_and]
      cases q.matches (i : Int) <;> cases inC cands i <;> simp

theorem filterByIdAndRest_spec (ids : List Nat) (hids : ids.Pairwise (· < ·)) :
    ∀ (qs : List RQ) (cands : Option (List Nat)) (d : Bool) (rt : List Nat) (p : Nat → Bool),
      SetSpec ids p rt → (∀ i, p i = true → inC cands i = true) →
      SetSpec ids (fun i => p i && RQ.matchesAll qs (i : Int)) (filterByIdAndRest ids qs cands d rt)
  | [], cands, d, rt, p, h, _ => by
      simp only [filterByIdAndRest, RQ.matchesAll, Bool.and_true]
      exact h
  | q :: qs, cands, d, rt, p, h, hpc => by
      simp only [filterByIdAndRest]
      have hk := (filterById_post ids hids q cands 0 d).unbounded hids
      have hrt' : SetSpec ids (fun i => p i && q.matches (i : Int))
          (rt.filter (fun i => (filterById ids q cands 0 d).contains i)) := by
        refine ⟨h.1.filter _, fun i => ?_⟩
        simp only [List.mem_filter, List.contains_iff_mem, h.2 i, hk.2 i, Bool.and_eq_true]
        constructor
        · rintro ⟨⟨hi, hp⟩, _, hq, _⟩; exact ⟨hi, hp, hq⟩
        · rintro ⟨hi, hp, hq⟩; exact ⟨⟨hi, hp⟩, hi, hq, hpc i hp⟩
      split
      · rename_i hemp
        have hnil : rt.filter (fun i => (filterById ids q cands 0 d).contains i) = [] := by
          simpa [List.isEmpty_iff] using hemp
        refine ⟨by simp, fun i => ?_⟩
        simp only [List.not_mem_nil, false_iff, RQ.matchesAll]
        rintro ⟨hi, hp⟩
        have hpq : (p i && q.matches (i : Int)) = true := by
          simp only [Bool.and_eq_true] at hp ⊢; exact ⟨hp.1, hp.2.1⟩
        have := (hrt'.2 i).mpr ⟨hi, hpq⟩
        rw [hnil] at this
        simp at this
      · have := filterByIdAndRest_spec ids hids qs cands d _ (fun i => p i && q.matches (i : Int)) hrt'
          (fun i hi => by simp only [Bool.and_eq_true] at hi; exact hpc i hi.1)
        refine setSpec_congr this (fun i _ => ?_)
        simp only [RQ.matchesAll, Bool.and_assoc]

theorem filterByIdOr_spec (ids : List Nat) (hids : ids.Pairwise (· < ·)) :
    ∀ (qs : List RQ) (cands : Option (List Nat)) (d : Bool) (acc : List Nat),
      acc.Nodup → (∀ i ∈ acc, i ∈ ids) →
      SetSpec ids (fun i => acc.contains i || (RQ.matchesAny qs (i : Int) && inC cands i))
        (filterByIdOr ids qs cands d acc)
  | [], cands, d, acc, hn, hsub => by
      simp only [filterByIdOr, RQ.matchesAny, Bool.false_and, Bool.or_false]
      exact ⟨hn, fun i => by simp only [List.contains_iff_mem]; exact ⟨fun h => ⟨hsub i h, h⟩, fun h => h.2⟩⟩
  | q :: qs, cands, d, acc, hn, hsub => by
      simp only [filterByIdOr]
      have hk := (filterById_post ids hids q cands 0 d).unbounded hids
      have := filterByIdOr_spec ids hids qs cands d (pushUnique acc (filterById ids q cands 0 d))
        (nodup_pushUnique _ _ hn)
        (fun i hi => by
          rcases (mem_pushUnique _ _ _).mp hi with h | h
          · exact hsub i h
          · exact ((hk.2 i).mp h).1)
      refine setSpec_congr this (fun i hi => ?_)
      have hm := mem_pushUnique acc (filterById ids q cands 0 d) i
      have hk2 := hk.2 i
      simp only [RQ.matchesAny]
      by_cases h1 : i ∈ acc
      · have : i ∈ pushUnique acc (filterById ids q cands 0 d) := hm.mpr (Or.inl h1)
        simp [h1, this]
      · by_cases h2 : i ∈ filterById ids q cands 0 d
        · have : i ∈ pushUnique acc (filterById ids q cands 0 d) := hm.mpr (Or.inr h2)
          have h3 := (hk2.mp h2).2
          simp only [Bool.and_eq_true] at h3
          simp [h1, this, h3.1, h3.2]
        · have : i ∉ pushUnique acc (filterById ids q cands 0 d) := fun h => (hm.mp h).elim h1 h2
          have h3 : ¬ (q.matches (i : Int) && inC cands i) = true := fun h => h2 (hk2.mpr ⟨hi, h⟩)
          simp only [Bool.and_eq_true, not_and, Bool.not_eq_true] at h3
          cases hq : q.matches (i : Int) <;> simp_all
end

-- ------------------------------------------------------------------------------------------
-- B-tree field scan
-- ------------------------------------------------------------------------------------------

theorem mem_fieldScan (m : OMap) (q : RQ) (cands : Option (List Nat)) (d : Bool) (i : Nat) :
    i ∈ fieldScan m q cands d ↔ (m.any (fun kp => q.matches kp.1 && kp.2.contains i) = true ∧ inC cands i = true) := by
  unfold fieldScan
  simp only [mem_dedup]
  have key : ∀ (gs : List (List Nat)), i ∈ (if d = true then gs.reverse else gs).flatten ↔ i ∈ gs.flatten := by
    intro gs; cases d <;> simp [List.mem_flatten]
  rw [key]
  simp only [List.mem_flatten, List.mem_map, List.mem_filter, List.any_eq_true, Bool.and_eq_true,
    List.contains_iff_mem]
  constructor
  · rintro ⟨l, ⟨kp, ⟨hkp, hq⟩, rfl⟩, hi⟩
    rw [List.mem_filter] at hi
    exact ⟨⟨kp, hkp, hq, hi.1⟩, hi.2⟩
  · rintro ⟨⟨kp, hkp, hq, hi⟩, hc⟩
    exact ⟨_, ⟨kp, ⟨hkp, hq⟩, rfl⟩, List.mem_filter.mpr ⟨hi, hc⟩⟩

theorem nodup_fieldScan (m : OMap) (q : RQ) (cands : Option (List Nat)) (d : Bool) :
    (fieldScan m q cands d).Nodup := nodup_dedup _

-- ------------------------------------------------------------------------------------------
-- `filter_by_field_with`
-- ------------------------------------------------------------------------------------------

mutual
theorem denote_mem_ids (c : Coll) (hwf : c.WF) : ∀ (f : Filter) (i : Nat), denote c f i = true → i ∈ c.ids
  | .id q, i, h => by
      simp only [denote, Bool.and_eq_true, List.contains_iff_mem] at h; exact h.1
  | .field ix q, i, h => by
      simp only [denote] at h
      split at h
      · simp at h
      · rename_i m hm
        simp only [List.any_eq_true, Bool.and_eq_true, List.contains_iff_mem] at h
        obtain ⟨kp, hkp, _, hi⟩ := h
        exact hwf.2 ix m hm kp hkp i hi
  | .or fs, i, h => by simp only [denote] at h; exact denoteAny_mem_ids c hwf fs i h
  | .and fs, i, h => by
      simp only [denote, Bool.and_eq_true, Bool.not_eq_true', ] at h
      match fs, h with
      | [], h => simp at h
      | f :: fs, h =>
        simp only [denoteAll, Bool.and_eq_true] at h
        exact denote_mem_ids c hwf f i h.2.1
  | .not f, i, h => by
      simp only [denote, Bool.and_eq_true, List.contains_iff_mem] at h; exact h.1
theorem denoteAny_mem_ids (c : Coll) (hwf : c.WF) : ∀ (fs : List Filter) (i : Nat), denoteAny c fs i = true → i ∈ c.ids
  | [], i, h => by simp [denoteAny] at h
  | f :: fs, i, h => by
      simp only [denoteAny, Bool.or_eq_true] at h
      rcases h with h | h
      · exact denote_mem_ids c hwf f i h
      · exact denoteAny_mem_ids c hwf fs i h
end

mutual
theorem evalF_post (c : Coll) (hwf : c.WF) :
    ∀ (f : Filter) (cands : Option (List Nat)) (l : Nat) (d : Bool) (r : List Nat),
      evalF c f cands l d = .ok r → Post c.ids (fun i => denote c f i && inC cands i) l d r
  | .id q, cands, l, d, r, h => by
      simp only [evalF, Except.ok.injEq] at h
      subst h
      refine (filterById_post c.ids hwf.1 q cands l d).congr (fun i hi => ?_)
      simp [denote, hi]
  | .field ix q, cands, l, d, r, h => by
      simp only [evalF] at h
      split at h
      · simp at h
      · rename_i m hm
        simp only [Except.ok.injEq] at h
        subst h
        left
        refine ⟨nodup_fieldScan _ _ _ _, fun i => ?_⟩
        rw [mem_fieldScan]
        simp only [denote, hm, Bool.and_eq_true]
        constructor
        · rintro ⟨ha, hc⟩
          refine ⟨?_, ha, hc⟩
          simp only [List.any_eq_true, Bool.and_eq_true, List.contains_iff_mem] at ha
          obtain ⟨kp, hkp, _, hi⟩ := ha
          exact hwf.2 ix m hm kp hkp i hi
        · rintro ⟨_, ha, hc⟩; exact ⟨ha, hc⟩
  | .or fs, cands, l, d, r, h => by
      simp only [evalF] at h
      left
      have := evalOr_spec c hwf fs cands d [] r h (by simp) (by simp)
      refine setSpec_congr this (fun i _ => ?_)
      simp [denote]
  | .and fs, cands, l, d, r, h => by
      simp only [evalF] at h
      left
      exact evalAnd_spec c hwf fs cands d r h
  | .not f, cands, l, d, r, h => by
      simp only [evalF] at h
      split at h
      · simp at h
      · rename_i ex hex
        simp only [Except.ok.injEq] at h
        subst h
        have hs := (evalF_post c hwf f none 0 d ex hex).unbounded hwf.1
        have hw := walk_post c.ids (fun i => !ex.contains i) cands l d
        have hw' : Post c.ids (fun i => denote c (.not f) i && inC cands i) l d
            (walk (c.ids.filter (fun i => !ex.contains i)) cands l d) := by
          refine hw.congr (fun i hi => ?_)
          have h2 := hs.2 i
          simp only [inC, Bool.and_true] at h2
          simp only [denote]
          congr 1
          by_cases hm : denote c f i = true
          · have : i ∈ ex := h2.mpr ⟨hi, hm⟩
            simp [hm, this, hi]
          · have : i ∉ ex := fun h => hm (h2.mp h).2
            simp [hm, this, hi]
        -- the walk result is ascending, so the final `sort_unstable` is the identity
        have hsorted : (walk (c.ids.filter (fun i => !ex.contains i)) cands l d).Pairwise (· < ·) := by
          rw [walk_eq]
          exact ((hwf.1.filter _).filter _).sublist (takeEnd_sublist _ _ _)
        rw [isort_of_strict _ hsorted]
        exact hw'

theorem evalOr_spec (c : Coll) (hwf : c.WF) :
    ∀ (fs : List Filter) (cands : Option (List Nat)) (d : Bool) (acc r : List Nat),
      evalOr c fs cands d acc = .ok r → acc.Nodup → (∀ i ∈ acc, i ∈ c.ids) →
      SetSpec c.ids (fun i => acc.contains i || (denoteAny c fs i && inC cands i)) r
  | [], cands, d, acc, r, h, hn, hsub => by
      simp only [evalOr, Except.ok.injEq] at h
      subst h
      refine ⟨(perm_isort acc).nodup_iff.mpr hn, fun i => ?_⟩
      simp only [mem_isort, denoteAny, Bool.false_and, Bool.or_false, List.contains_iff_mem]
      exact ⟨fun h => ⟨hsub i h, h⟩, fun h => h.2⟩
  | f :: fs, cands, d, acc, r, h, hn, hsub => by
      simp only [evalOr] at h
      split at h
      · simp at h
      · rename_i r0 hr0
        have hk := (evalF_post c hwf f cands 0 d r0 hr0).unbounded hwf.1
        have := evalOr_spec c hwf fs cands d (pushUnique acc r0) r h
          (nodup_pushUnique _ _ hn)
          (fun i hi => by
            rcases (mem_pushUnique _ _ _).mp hi with h | h
            · exact hsub i h
            · exact ((hk.2 i).mp h).1)
        refine setSpec_congr this (fun i hi => ?_)
        have hm := mem_pushUnique acc r0 i
        have hk2 := hk.2 i
        simp only [denoteAny]
        by_cases h1 : i ∈ acc
        · have : i ∈ pushUnique acc r0 := hm.mpr (Or.inl h1)
          simp [h1, this]
        · by_cases h2 : i ∈ r0
          · have : i ∈ pushUnique acc r0 := hm.mpr (Or.inr h2)
            have h3 := (hk2.mp h2).2
            simp only [Bool.and_eq_true] at h3
            simp [h1, this, h3.1, h3.2]
          · have : i ∉ pushUnique acc r0 := fun h => (hm.mp h).elim h1 h2
            have h3 : ¬ (denote c f i && inC cands i) = true := fun h => h2 (hk2.mpr ⟨hi, h⟩)
            simp only [Bool.and_eq_true, not_and, Bool.not_eq_true] at h3
            cases hq : denote c f i <;> simp_all

theorem evalAnd_spec (c : Coll) (hwf : c.WF) :
    ∀ (fs : List Filter) (cands : Option (List Nat)) (d : Bool) (r : List Nat),
      evalAnd c fs cands d = .ok r →
      SetSpec c.ids (fun i => denote c (.and fs) i && inC cands i) r
  | [], cands, d, r, h => by
      simp only [evalAnd, Except.ok.injEq] at h
      subst h
      exact ⟨by simp, fun i => by simp [denote]⟩
  | f :: fs, cands, d, r, h => by
      simp only [evalAnd] at h
      split at h
      · simp at h
      · rename_i r0 hr0
        have h0 := (evalF_post c hwf f cands 0 d r0 hr0).unbounded hwf.1
        have hrt : SetSpec c.ids (fun i => denote c f i && inC cands i) (isort (dedup r0)) :=
          ⟨(perm_isort _).nodup_iff.mpr (nodup_dedup _), fun i => by rw [mem_isort, mem_dedup]; exact h0.2 i⟩
        have := evalAndRest_spec c hwf fs d _ r (fun i => denote c f i && inC cands i) h hrt
        refine setSpec_congr this (fun i _ => ?_)
        simp only [denote, denoteAll, List.isEmpty_cons, Bool.not_false, Bool.true_and]
        cases denote c f i <;> cases inC cands i <;> simp

theorem evalAndRest_spec (c : Coll) (hwf : c.WF) :
    ∀ (fs : List Filter) (d : Bool) (rt r : List Nat) (p : Nat → Bool),
      evalAndRest c fs d rt = .ok r → SetSpec c.ids p rt →
      SetSpec c.ids (fun i => p i && denoteAll c fs i) r
  | [], d, rt, r, p, h, hrt => by
      simp only [evalAndRest, Except.ok.injEq] at h
      subst h
      simpa [denoteAll] using hrt
  | f :: fs, d, rt, r, p, h, hrt => by
      simp only [evalAndRest] at h
      split at h
      · simp at h
      · rename_i r0 hr0
        have hk := (evalF_post c hwf f (some rt) 0 d r0 hr0).unbounded hwf.1
        have hrt' : SetSpec c.ids (fun i => p i && denote c f i) (isort (dedup r0)) := by
          refine ⟨(perm_isort _).nodup_iff.mpr (nodup_dedup _), fun i => ?_⟩
          rw [mem_isort, mem_dedup, hk.2 i]
          simp only [inC, List.contains_iff_mem, Bool.and_eq_true]
          constructor
          · rintro ⟨hi, hd, hr⟩; exact ⟨hi, ((hrt.2 i).mp hr).2, hd⟩
          · rintro ⟨hi, hp, hd⟩; exact ⟨hi, hd, (hrt.2 i).mpr ⟨hi, hp⟩⟩
        split at h
        · rename_i hemp
          simp only [Except.ok.injEq] at h
          subst h
          have hnil : isort (dedup r0) = [] := by simpa [List.isEmpty_iff] using hemp
          refine ⟨by simp, fun i => ?_⟩
          simp only [List.not_mem_nil, false_iff, denoteAll]
          rintro ⟨hi, hp⟩
          have hpq : (p i && denote c f i) = true := by
            simp only [Bool.and_eq_true] at hp ⊢; exact ⟨hp.1, hp.2.1⟩
          have := (hrt'.2 i).mpr ⟨hi, hpq⟩
          rw [hnil] at this
          simp at this
        · have := evalAndRest_spec c hwf fs d _ r (fun i => p i && denote c f i) h hrt'
          refine setSpec_congr this (fun i _ => ?_)
          simp only [denoteAll, Bool.and_assoc]
end

end AndaVerif.Filter
