import AndaVerif.Proofs.BeliefRepeat
import Mathlib.Logic.Relation
/-
The groups are the connected components of the "shares an actor or an Evidence id" graph, and a
group's confidence is the strongest confidence among the candidates of its component.
Invariant on the abstraction (`aadd`), transferred to the concrete groups through `absG`.
-/
namespace AndaVerif.Belief

/-- Two keys are linked when one candidate carries both. -/
def Linked (items : List (Finset Key)) (k k' : Key) : Prop := ∃ K ∈ items, k ∈ K ∧ k' ∈ K

/-- Connected in the graph whose edges are `Linked`. -/
def Conn (items : List (Finset Key)) : Key → Key → Prop := Relation.ReflTransGen (Linked items)

theorem Linked.symm {items : List (Finset Key)} {k k' : Key} (h : Linked items k k') : Linked items k' k := by
  obtain ⟨K, hK, h1, h2⟩ := h; exact ⟨K, hK, h2, h1⟩

theorem Conn.symm {items : List (Finset Key)} {k k' : Key} (h : Conn items k k') : Conn items k' k := by
  induction h with
  | refl => exact Relation.ReflTransGen.refl
  | tail _ hl ih => exact Relation.ReflTransGen.head hl.symm ih

theorem Conn.mono {items items' : List (Finset Key)} (hsub : ∀ K ∈ items, K ∈ items') {k k' : Key}
    (h : Conn items k k') : Conn items' k k' := by
  refine Relation.ReflTransGen.mono ?_ _ _ h
  rintro a b ⟨K, hK, h1, h2⟩; exact ⟨K, hsub K hK, h1, h2⟩

def atogether (M : List AG) (k k' : Key) : Prop := ∃ a ∈ M, k ∈ a.1 ∧ k' ∈ a.1

def ADisj (M : List AG) : Prop := M.Pairwise (fun a b => Disjoint a.1 b.1)

/-- The invariant of the grouping loop. -/
structure GInv (M : List AG) (items : List (Finset Key × Int)) : Prop where
  disj : ADisj M
  nonempty : ∀ a ∈ M, a.1.Nonempty
  sound : ∀ k k', atogether M k k' → Conn (items.map (·.1)) k k'
  complete : ∀ k k', Linked (items.map (·.1)) k k' → atogether M k k'
  cover : ∀ it ∈ items, ∃ a ∈ M, it.1 ⊆ a.1
  maxWitness : ∀ a ∈ M, ∃ it ∈ items, it.1 ⊆ a.1 ∧ it.2 = a.2
  maxBound : ∀ a ∈ M, ∀ it ∈ items, ¬ Disjoint it.1 a.1 → it.2 ≤ a.2

theorem ADisj.eq_of_mem {M : List AG} (h : ADisj M) {a b : AG} (ha : a ∈ M) (hb : b ∈ M) {k : Key}
    (hka : k ∈ a.1) (hkb : k ∈ b.1) : a = b := by
  by_contra hne
  have : Std.Symm (fun a b : AG => Disjoint a.1 b.1) := ⟨fun _ _ h => h.symm⟩
  have := List.Pairwise.forall (R := fun a b : AG => Disjoint a.1 b.1) h ha hb hne
  exact (Finset.disjoint_left.1 this) hka hkb

theorem ahit_iff {K : Finset Key} {a : AG} : ahit K a = true ↔ ∃ k, k ∈ a.1 ∧ k ∈ K := by
  simp [ahit, Finset.not_disjoint_iff]

theorem ahit_false_iff {K : Finset Key} {a : AG} : ahit K a = false ↔ Disjoint a.1 K := by
  simp [ahit]

theorem amax_mem (c : Int) (L : List AG) : amax c L = c ∨ ∃ a ∈ L, amax c L = a.2 := by
  induction L with
  | nil => exact Or.inl rfl
  | cons a L ih =>
    have : amax c (a :: L) = max a.2 (amax c L) := rfl
    rw [this]
    rcases max_choice a.2 (amax c L) with h | h
    · exact Or.inr ⟨a, List.mem_cons_self, h⟩
    · rcases ih with h' | ⟨x, hx, h'⟩
      · exact Or.inl (h.trans h')
      · exact Or.inr ⟨x, List.mem_cons_of_mem _ hx, h.trans h'⟩

theorem amax_ge (c : Int) (L : List AG) : c ≤ amax c L := (amax_le_iff.1 le_rfl).1
theorem amax_ge_mem (c : Int) {L : List AG} {a : AG} (h : a ∈ L) : a.2 ≤ amax c L := (amax_le_iff.1 le_rfl).2 a h

/-- One iteration preserves the invariant. -/
theorem GInv.step {M : List AG} {items : List (Finset Key × Int)} (inv : GInv M items)
    (K : Finset Key) (c : Int) (hK : K.Nonempty) : GInv (aadd K c M) (items ++ [(K, c)]) := by
  have hmem : ∀ {a : AG}, a ∈ aadd K c M ↔
      a = (K ∪ unionAll (M.filter (ahit K)), amax c (M.filter (ahit K))) ∨ (a ∈ M ∧ ahit K a = false) := by
    intro a; simp [aadd, List.mem_filter]
  have hsub : ∀ h ∈ M, ahit K h = true → h.1 ⊆ K ∪ unionAll (M.filter (ahit K)) := by
    intro h hh hhit k hk
    rw [Finset.mem_union, mem_unionAll]
    exact Or.inr ⟨h, List.mem_filter.2 ⟨hh, hhit⟩, hk⟩
  have hitems : ∀ {K' : Finset Key}, K' ∈ (items ++ [(K, c)]).map (·.1) ↔ K' ∈ items.map (·.1) ∨ K' = K := by
    intro K'; simp
  -- every key of the merged group is connected to every key of the new candidate
  have hconnK : ∀ k, k ∈ K ∪ unionAll (M.filter (ahit K)) → ∀ j ∈ K,
      Conn ((items ++ [(K, c)]).map (·.1)) k j := by
    intro k hk j hj
    rw [Finset.mem_union, mem_unionAll] at hk
    rcases hk with hk | ⟨h, hh, hkh⟩
    · exact Relation.ReflTransGen.single ⟨K, hitems.2 (Or.inr rfl), hk, hj⟩
    · obtain ⟨hhM, hhit⟩ := List.mem_filter.1 hh
      obtain ⟨i, hih, hiK⟩ := ahit_iff.1 hhit
      have h1 : Conn (items.map (·.1)) k i := inv.sound k i ⟨h, hhM, hkh, hih⟩
      have h1' := Conn.mono (items' := (items ++ [(K, c)]).map (·.1)) (fun K' hK' => hitems.2 (Or.inl hK')) h1
      exact h1'.tail ⟨K, hitems.2 (Or.inr rfl), hiK, hj⟩
  refine ⟨?_, ?_, ?_, ?_, ?_, ?_, ?_⟩
  · -- disjointness
    unfold ADisj aadd
    rw [List.pairwise_cons]
    refine ⟨?_, inv.disj.filter _⟩
    intro b hb
    obtain ⟨hbM, hbmiss⟩ := List.mem_filter.1 hb
    have hbmiss : ahit K b = false := by simpa using hbmiss
    rw [Finset.disjoint_left]
    intro k hk hkb
    rw [Finset.mem_union, mem_unionAll] at hk
    rcases hk with hk | ⟨h, hh, hkh⟩
    · exact (Finset.disjoint_left.1 (ahit_false_iff.1 hbmiss)) hkb hk
    · obtain ⟨hhM, hhit⟩ := List.mem_filter.1 hh
      have : h = b := inv.disj.eq_of_mem hhM hbM hkh hkb
      rw [this, hbmiss] at hhit; exact Bool.false_ne_true hhit
  · -- non-empty groups
    intro a ha
    rcases hmem.1 ha with rfl | ⟨haM, _⟩
    · exact hK.mono Finset.subset_union_left
    · exact inv.nonempty a haM
  · -- sound
    rintro k k' ⟨a, ha, hk, hk'⟩
    rcases hmem.1 ha with rfl | ⟨haM, _⟩
    · obtain ⟨j, hj⟩ := hK
      exact (hconnK k hk j hj).trans (hconnK k' hk' j hj).symm
    · exact Conn.mono (fun K' hK' => hitems.2 (Or.inl hK')) (inv.sound k k' ⟨a, haM, hk, hk'⟩)
  · -- complete
    rintro k k' ⟨K', hK', hk, hk'⟩
    rcases hitems.1 hK' with hold | rfl
    · obtain ⟨a, haM, h1, h2⟩ := inv.complete k k' ⟨K', hold, hk, hk'⟩
      cases hhit : ahit K a
      · exact ⟨a, hmem.2 (Or.inr ⟨haM, hhit⟩), h1, h2⟩
      · exact ⟨_, hmem.2 (Or.inl rfl), hsub a haM hhit h1, hsub a haM hhit h2⟩
    · exact ⟨_, hmem.2 (Or.inl rfl), Finset.mem_union_left _ hk, Finset.mem_union_left _ hk'⟩
  · -- cover
    intro it hit
    rcases List.mem_append.1 hit with hold | hnew
    · obtain ⟨a, haM, hsubset⟩ := inv.cover it hold
      cases hhit : ahit K a
      · exact ⟨a, hmem.2 (Or.inr ⟨haM, hhit⟩), hsubset⟩
      · exact ⟨_, hmem.2 (Or.inl rfl), hsubset.trans (hsub a haM hhit)⟩
    · have : it = (K, c) := by simpa using hnew
      subst this
      exact ⟨_, hmem.2 (Or.inl rfl), Finset.subset_union_left⟩
  · -- the maximum is attained
    intro a ha
    rcases hmem.1 ha with rfl | ⟨haM, _⟩
    · rcases amax_mem c (M.filter (ahit K)) with h | ⟨h, hh, hmax⟩
      · exact ⟨(K, c), by simp, Finset.subset_union_left, h.symm⟩
      · obtain ⟨hhM, hhit⟩ := List.mem_filter.1 hh
        obtain ⟨it, hit, hsubset, hc⟩ := inv.maxWitness h hhM
        exact ⟨it, List.mem_append_left _ hit, hsubset.trans (hsub h hhM hhit), by rw [hc, hmax]⟩
    · obtain ⟨it, hit, hsubset, hc⟩ := inv.maxWitness a haM
      exact ⟨it, List.mem_append_left _ hit, hsubset, hc⟩
  · -- and bounds every candidate of the component
    intro a ha it hit hov
    rcases hmem.1 ha with rfl | ⟨haM, hamiss⟩
    · rcases List.mem_append.1 hit with hold | hnew
      · -- an old candidate sits inside one old group; that group is touched
        obtain ⟨b, hbM, hsubset⟩ := inv.cover it hold
        obtain ⟨k, hk1, hk2⟩ := Finset.not_disjoint_iff.1 hov
        have hbhit : ahit K b = true := by
          rw [Finset.mem_union, mem_unionAll] at hk2
          rcases hk2 with hk2 | ⟨h, hh, hkh⟩
          · exact ahit_iff.2 ⟨k, hsubset hk1, hk2⟩
          · obtain ⟨hhM, hhit⟩ := List.mem_filter.1 hh
            have : h = b := inv.disj.eq_of_mem hhM hbM hkh (hsubset hk1)
            rw [← this]; exact hhit
        have h1 : it.2 ≤ b.2 :=
          inv.maxBound b hbM it hold (Finset.not_disjoint_iff.2 ⟨k, hk1, hsubset hk1⟩)
        exact h1.trans (amax_ge_mem c (List.mem_filter.2 ⟨hbM, hbhit⟩))
      · have : it = (K, c) := by simpa using hnew
        subst this
        exact amax_ge c _
    · rcases List.mem_append.1 hit with hold | hnew
      · exact inv.maxBound a haM it hold hov
      · have : it = (K, c) := by simpa using hnew
        subst this
        exact absurd (ahit_false_iff.1 hamiss).symm hov

theorem GInv.init : GInv [] [] := by
  refine ⟨List.Pairwise.nil, by simp, ?_, ?_, by simp, by simp, by simp⟩
  · rintro _ _ ⟨a, ha, _⟩; cases ha
  · rintro _ _ ⟨K, hK, _⟩; cases hK

/-- The key sets and confidences of the candidates, as the loop consumes them. -/
def itemsOf (cands : List Cand) : List (Finset Key × Int) := cands.map (fun c => (c.keys.toFinset, c.conf))

theorem Cand.keys_nonempty (c : Cand) : c.keys.toFinset.Nonempty :=
  ⟨c.actor, by simp [Cand.keys]⟩

theorem GInv.aGroups {M : List AG} {items : List (Finset Key × Int)} (inv : GInv M items) (cands : List Cand) :
    GInv (aGroups M cands) (items ++ itemsOf cands) := by
  induction cands generalizing M items with
  | nil => simpa [AndaVerif.Belief.aGroups, itemsOf] using inv
  | cons c rest ih =>
    have := ih (inv.step c.keys.toFinset c.conf c.keys_nonempty)
    simpa [AndaVerif.Belief.aGroups, itemsOf, List.append_assoc] using this

/-- The invariant is a property of the multiset of groups. -/
theorem GInv.of_perm {M M' : List AG} {items : List (Finset Key × Int)} (inv : GInv M items)
    (h : M.Perm M') : GInv M' items := by
  have hsym : ∀ {x y : AG}, Disjoint x.1 y.1 → Disjoint y.1 x.1 := fun h => h.symm
  refine ⟨(h.pairwise_iff hsym).1 inv.disj, fun a ha => inv.nonempty a (h.mem_iff.2 ha), ?_, ?_, ?_, ?_, ?_⟩
  · rintro k k' ⟨a, ha, h1, h2⟩; exact inv.sound k k' ⟨a, h.mem_iff.2 ha, h1, h2⟩
  · intro k k' hl; obtain ⟨a, ha, h1, h2⟩ := inv.complete k k' hl; exact ⟨a, h.mem_iff.1 ha, h1, h2⟩
  · intro it hit; obtain ⟨a, ha, hs⟩ := inv.cover it hit; exact ⟨a, h.mem_iff.1 ha, hs⟩
  · intro a ha; exact inv.maxWitness a (h.mem_iff.2 ha)
  · intro a ha; exact inv.maxBound a (h.mem_iff.2 ha)

/-- The invariant holds of the groups the code computes. -/
theorem groupsSpec_inv (cands : List Cand) : GInv ((groupsSpec [] cands).map absG) (itemsOf cands) := by
  have := (GInv.init.aGroups cands).of_perm (abs_groupsSpec [] cands).symm
  simpa using this

/-- Connected keys sit in one group, as soon as one of them was seen. -/
theorem GInv.together_of_conn {M : List AG} {items : List (Finset Key × Int)} (inv : GInv M items)
    {k k' : Key} (hk : ∃ a ∈ M, k ∈ a.1) (hc : Conn (items.map (·.1)) k k') : atogether M k k' := by
  induction hc with
  | refl => obtain ⟨a, ha, hka⟩ := hk; exact ⟨a, ha, hka, hka⟩
  | tail _ hl ih =>
    obtain ⟨a, ha, h1, h2⟩ := ih
    obtain ⟨b, hb, h3, h4⟩ := inv.complete _ _ hl
    have : a = b := inv.disj.eq_of_mem ha hb h2 h3
    subst this
    exact ⟨a, ha, h1, h4⟩

/-- Two keys are connected through candidates sharing keys (list-level reading of `Conn`). -/
def Connected (side : List Cand) : Key → Key → Prop :=
  Relation.ReflTransGen (fun k k' => ∃ c ∈ side, k ∈ c.keys ∧ k' ∈ c.keys)

theorem linked_itemsOf (side : List Cand) :
    Linked ((itemsOf side).map (·.1)) = fun k k' => ∃ c ∈ side, k ∈ c.keys ∧ k' ∈ c.keys := by
  funext k k'
  apply propext
  simp only [Linked, itemsOf, List.map_map, List.mem_map, Function.comp]
  constructor
  · rintro ⟨K, ⟨c, hc, rfl⟩, h1, h2⟩; exact ⟨c, hc, by simpa using h1, by simpa using h2⟩
  · rintro ⟨c, hc, h1, h2⟩; exact ⟨_, ⟨c, hc, rfl⟩, by simpa using h1, by simpa using h2⟩

theorem conn_itemsOf (side : List Cand) : Conn ((itemsOf side).map (·.1)) = Connected side := by
  unfold Conn Connected; rw [linked_itemsOf]

theorem atogether_absG {G : List Group} {k k' : Key} :
    atogether (G.map absG) k k' ↔ ∃ g ∈ G, k ∈ g.1 ∧ k' ∈ g.1 := by
  simp only [atogether, List.mem_map, absG]
  constructor
  · rintro ⟨a, ⟨g, hg, rfl⟩, h1, h2⟩; exact ⟨g, hg, by simpa using h1, by simpa using h2⟩
  · rintro ⟨g, hg, h1, h2⟩; exact ⟨_, ⟨g, hg, rfl⟩, by simpa using h1, by simpa using h2⟩

/-- **The groups are the connected components, each with the strongest confidence of its
component** — on the concrete groups of the merge loop. -/
theorem groupsSpec_components (side : List Cand) :
    let G := groupsSpec [] side
    G.Pairwise (fun g h => ∀ k, k ∈ g.1 → k ∉ h.1) ∧
    (∀ k, (∃ g ∈ G, k ∈ g.1) ↔ ∃ c ∈ side, k ∈ c.keys) ∧
    (∀ k k', (∃ g ∈ G, k ∈ g.1 ∧ k' ∈ g.1) ↔ ((∃ c ∈ side, k ∈ c.keys) ∧ Connected side k k')) ∧
    (∀ g ∈ G, (∃ c ∈ side, (∀ k ∈ c.keys, k ∈ g.1) ∧ c.conf = g.2) ∧
      ∀ c ∈ side, (∃ k ∈ c.keys, k ∈ g.1) → c.conf ≤ g.2) := by
  intro G
  have inv := groupsSpec_inv side
  have hcov : ∀ k, (∃ g ∈ G, k ∈ g.1) ↔ ∃ c ∈ side, k ∈ c.keys := by
    intro k
    have := covered_groupsSpec (gs := []) (cands := side) (k := k)
    simpa [covered] using this
  refine ⟨?_, hcov, ?_, ?_⟩
  · have := inv.disj
    unfold ADisj at this
    rw [List.pairwise_map] at this
    refine this.imp ?_
    intro g h hd k hk hk'
    exact (Finset.disjoint_left.1 hd) (by simpa [absG] using hk) (by simpa [absG] using hk')
  · intro k k'
    rw [← conn_itemsOf, ← atogether_absG]
    constructor
    · intro ht
      refine ⟨?_, inv.sound k k' ht⟩
      obtain ⟨g, hg, h1, _⟩ := atogether_absG.1 ht
      exact (hcov k).1 ⟨g, hg, h1⟩
    · rintro ⟨hk, hc⟩
      obtain ⟨g, hg, hkg⟩ := (hcov k).2 hk
      exact inv.together_of_conn ⟨absG g, List.mem_map_of_mem hg, by simpa [absG] using hkg⟩ hc
  · intro g hg
    have hga : absG g ∈ (groupsSpec [] side).map absG := List.mem_map_of_mem hg
    constructor
    · obtain ⟨it, hit, hsub, hc⟩ := inv.maxWitness (absG g) hga
      simp only [itemsOf, List.mem_map] at hit
      obtain ⟨c, hc', rfl⟩ := hit
      refine ⟨c, hc', ?_, hc⟩
      intro k hk
      have := hsub (by simpa using hk : k ∈ c.keys.toFinset)
      simpa [absG] using this
    · rintro c hc ⟨k, hk, hkg⟩
      refine inv.maxBound (absG g) hga (c.keys.toFinset, c.conf) ?_ ?_
      · simp only [itemsOf, List.mem_map]; exact ⟨c, hc, rfl⟩
      · rw [Finset.not_disjoint_iff]
        exact ⟨k, by simpa using hk, by simpa [absG] using hkg⟩

end AndaVerif.Belief
