import AndaVerif.Proofs.CollStep
/-
Rejected operations: the registry keeps its shape (same index definitions in the same order),
documents and ids are untouched; where a rejection can come from.
-/
namespace AndaVerif.Collection

theorem backAll_map {α β : Type} (back : α → α × Bool) (κ : α → β) (hb : ∀ x, κ (back x).1 = κ x) (l : List α) :
    (backAll back l).1.map κ = l.map κ := by
  simp only [backAll, List.map_map]
  exact List.map_congr_left (fun x _ => hb x)

theorem phases_map {β γ δ : Type} (ix : Idx)
    (fB : BtDef × List (Key × Nat) → Fwd (BtDef × List (Key × Nat))) (bB : BtDef × List (Key × Nat) → (BtDef × List (Key × Nat)) × Bool)
    (fT : Tx → Fwd Tx) (bT : Tx → Tx × Bool) (fH : Hn → Fwd Hn) (bH : Hn → Hn × Bool)
    (κB : BtDef × List (Key × Nat) → β) (κT : Tx → γ) (κH : Hn → δ)
    (h1 : ∀ x, κB (fB x).res = κB x) (h2 : ∀ x, κB (bB x).1 = κB x)
    (h3 : ∀ x, κT (fT x).res = κT x) (h4 : ∀ x, κT (bT x).1 = κT x)
    (h5 : ∀ x, κH (fH x).res = κH x) (h6 : ∀ x, κH (bH x).1 = κH x) :
    (phases ix fB bB fT bT fH bH).1.bt.map κB = ix.bt.map κB ∧
    (phases ix fB bB fT bT fH bH).1.tx.map κT = ix.tx.map κT ∧
    (phases ix fB bB fT bT fH bH).1.hn.map κH = ix.hn.map κH := by
  have pb := phase_map fB bB κB h1 h2 ix.bt
  have pt := phase_map fT bT κT h3 h4 ix.tx
  have ph := phase_map fH bH κH h5 h6 ix.hn
  unfold phases
  split
  · rename_i bt1 e ok hp
    rw [hp] at pb
    exact ⟨pb, rfl, rfl⟩
  · rename_i bt1 _ hp
    rw [hp] at pb
    split
    · rename_i tx1 e ok hq
      rw [hq] at pt
      exact ⟨by simp only; rw [backAll_map bB κB h2]; exact pb, pt, rfl⟩
    · rename_i tx1 _ hq
      rw [hq] at pt
      split
      · rename_i hn1 e ok hr
        rw [hr] at ph
        exact ⟨by simp only; rw [backAll_map bB κB h2]; exact pb, by simp only; rw [backAll_map bT κT h4]; exact pt, ph⟩
      · rename_i hn1 _ hr
        rw [hr] at ph
        exact ⟨pb, pt, ph⟩

-- the definition part of each index survives every forward / backward step -------------------

theorem addBtF_def (id : Nat) (d : List (Nat × FVal)) (x : BtDef × List (Key × Nat)) : (addBtF id d x).res.1 = x.1 := by
  unfold addBtF
  simp only
  split <;> rfl

theorem updBtF_def (id : Nat) (o n : List (Nat × FVal)) (ch : List Nat) (x : BtDef × List (Key × Nat)) :
    (updBtF id o n ch x).res.1 = x.1 := by
  unfold updBtF
  split
  · split <;> rfl
  · rfl

theorem updBtB_def (id : Nat) (o n : List (Nat × FVal)) (ch : List Nat) (x : BtDef × List (Key × Nat)) :
    (updBtB id o n ch x).1.1 = x.1 := by
  unfold updBtB
  split
  · split <;> rfl
  · rfl

theorem txInsertO_fields' (t : Tx) (id : Nat) (o : Option (List Nat)) :
    (match txInsertO t id o with | .ok t' => t'.fields | .error _ => t.fields) = t.fields := by
  cases h : txInsertO t id o with
  | error e => rfl
  | ok t' => exact txInsertO_fields t t' id o h

theorem addTxF_def (id : Nat) (d : List (Nat × FVal)) (t : Tx) : (addTxF id d t).res.fields = t.fields := by
  unfold addTxF
  cases h : txInsertO t id (textOf t.fields d) with
  | error e => rfl
  | ok t' => exact txInsertO_fields t t' id _ h

theorem txReinsert_def (t : Tx) (id : Nat) (o : Option (List Nat)) : (txReinsert t id o).1.fields = t.fields := by
  unfold txReinsert
  cases h : txInsertO t id o with
  | error e => rfl
  | ok t' => exact txInsertO_fields t t' id _ h

theorem updTxF_def (id : Nat) (o n : List (Nat × FVal)) (ch : List Nat) (t : Tx) : (updTxF id o n ch t).res.fields = t.fields := by
  unfold updTxF
  split
  · simp only
    cases h : txInsertO (txRemoveO t id (textOf t.fields o)) id (textOf t.fields n) with
    | error e => simp only [txReinsert_def, txRemoveO_fields]
    | ok t' => simp only [txInsertO_fields _ t' id _ h, txRemoveO_fields]
  · rfl

theorem updTxB_def (id : Nat) (o n : List (Nat × FVal)) (ch : List Nat) (t : Tx) : (updTxB id o n ch t).1.fields = t.fields := by
  unfold updTxB
  split
  · rw [txReinsert_def, txRemoveO_fields]
  · rfl

def hnDef (h : Hn) : Nat × Nat := (h.field, h.dim)

theorem hnRemoveO_def (h : Hn) (id : Nat) (o : Option Nat) : hnDef (hnRemoveO h id o) = hnDef h := by
  cases o <;> rfl

theorem hnInsertO_def (h h' : Hn) (id : Nat) (o : Option Nat) (hi : hnInsertO h id o = .ok h') : hnDef h' = hnDef h := by
  have := hnInsertO_field h h' id o hi
  simp only [hnDef, this.1, this.2]

theorem hnReinsert_def (h : Hn) (id : Nat) (o : Option Nat) : hnDef (hnReinsert h id o).1 = hnDef h := by
  unfold hnReinsert
  cases hi : hnInsertO h id o with
  | error e => rfl
  | ok h' => exact hnInsertO_def h h' id o hi

theorem addHnF_def (id : Nat) (d : List (Nat × FVal)) (h : Hn) : hnDef (addHnF id d h).res = hnDef h := by
  unfold addHnF
  cases hi : hnInsertO h id (vecOf h.field d) with
  | error e => exact hnRemoveO_def h id _
  | ok h' => exact hnInsertO_def h h' id _ hi

theorem updHnF_def (id : Nat) (o n : List (Nat × FVal)) (ch : List Nat) (h : Hn) : hnDef (updHnF id o n ch h).res = hnDef h := by
  unfold updHnF
  split
  · simp only
    cases hi : hnInsertO (hnRemoveO h id (vecOf h.field o)) id (vecOf h.field n) with
    | error e => simp only [hnReinsert_def, hnRemoveO_def]
    | ok h' => simp only [hnInsertO_def _ h' id _ hi, hnRemoveO_def]
  · rfl

theorem updHnB_def (id : Nat) (o n : List (Nat × FVal)) (ch : List Nat) (h : Hn) : hnDef (updHnB id o n ch h).1 = hnDef h := by
  unfold updHnB
  split
  · rw [hnReinsert_def, hnRemoveO_def]
  · rfl

theorem addPhases_defs (s : State) (d : List (Nat × FVal)) :
    (addPhases s d).1.bt.map (fun x => x.1) = s.ix.bt.map (fun x => x.1) ∧
    (addPhases s d).1.tx.map (fun t => t.fields) = s.ix.tx.map (fun t => t.fields) ∧
    (addPhases s d).1.hn.map hnDef = s.ix.hn.map hnDef :=
  phases_map s.ix _ _ _ _ _ _ (fun x => x.1) (fun t => t.fields) hnDef
    (addBtF_def _ d) (fun _ => rfl) (addTxF_def _ d) (fun t => txRemoveO_fields t _ _)
    (addHnF_def _ d) (fun h => hnRemoveO_def h _ _)

theorem updPhases_defs (s : State) (id : Nat) (o n : List (Nat × FVal)) (ch : List Nat) :
    (updPhases s id o n ch).1.bt.map (fun x => x.1) = s.ix.bt.map (fun x => x.1) ∧
    (updPhases s id o n ch).1.tx.map (fun t => t.fields) = s.ix.tx.map (fun t => t.fields) ∧
    (updPhases s id o n ch).1.hn.map hnDef = s.ix.hn.map hnDef :=
  phases_map s.ix _ _ _ _ _ _ (fun x => x.1) (fun t => t.fields) hnDef
    (updBtF_def id o n ch) (updBtB_def id o n ch) (updTxF_def id o n ch) (updTxB_def id o n ch)
    (updHnF_def id o n ch) (updHnB_def id o n ch)

/-- the part of a state that a rejected operation may not touch, literally -/
def Frame (s s' : State) : Prop :=
  s'.schema = s.schema ∧ s'.docs = s.docs ∧ s'.ids = s.ids ∧
  s'.ix.bt.map (fun x => x.1) = s.ix.bt.map (fun x => x.1) ∧
  s'.ix.tx.map (fun t => t.fields) = s.ix.tx.map (fun t => t.fields) ∧
  s'.ix.hn.map hnDef = s.ix.hn.map hnDef

theorem Frame.refl (s : State) : Frame s s := ⟨rfl, rfl, rfl, rfl, rfl, rfl⟩

theorem createBt_res (s : State) (name : Nat) (fields : List Nat) :
    (∃ e, createBt s name fields = (s, .err e)) ∨ (∃ s', createBt s name fields = (s', .ok)) := by
  unfold createBt
  repeat' split
  all_goals first | exact Or.inl ⟨_, rfl⟩ | exact Or.inr ⟨_, rfl⟩ | skip
  all_goals
    dsimp only
    split
    · exact Or.inl ⟨_, rfl⟩
    · exact Or.inr ⟨_, rfl⟩

theorem createTx_res (s : State) (fields : List Nat) :
    (∃ e, createTx s fields = (s, .err e)) ∨ (∃ s', createTx s fields = (s', .ok)) := by
  unfold createTx
  repeat' split
  all_goals first | exact Or.inl ⟨_, rfl⟩ | exact Or.inr ⟨_, rfl⟩

theorem createHn_res (s : State) (field dim : Nat) :
    (∃ e, createHn s field dim = (s, .err e)) ∨ (∃ s', createHn s field dim = (s', .ok)) := by
  unfold createHn
  repeat' split
  all_goals first | exact Or.inl ⟨_, rfl⟩ | exact Or.inr ⟨_, rfl⟩

/-- A rejected operation keeps the frame (documents, ids, registry shape). -/
theorem rejected_frame (s : State) (op : Op) (hi : Inv s) (e : Err) (h : (step s op).2 = .err e) :
    Frame s (step s op).1 := by
  have hp := hi.healthy
  cases op with
  | add d =>
    simp only [step] at h ⊢
    rcases add_cases s d hp (fresh_id s hi) with ⟨_, ha⟩ | ⟨_, ix', e', ok, hph, ha⟩ | ⟨_, ix', ok, _, ha⟩
    · rw [ha]; exact Frame.refl s
    · rw [ha]
      have := addPhases_defs s d
      rw [hph] at this
      exact ⟨rfl, rfl, rfl, this.1, this.2.1, this.2.2⟩
    · rw [ha] at h; cases h
  | update id fs =>
    simp only [step] at h ⊢
    rcases update_cases s id fs hp with ⟨ha, _⟩ | ⟨o, n, _, ix', e', ok, hph, ha⟩ | ⟨o, n, _, ix', ok, _, ha⟩
    · rw [ha]; exact Frame.refl s
    · rw [ha]
      have := updPhases_defs s id o n (fs.map (fun p => p.1))
      rw [hph] at this
      exact ⟨rfl, rfl, rfl, this.1, this.2.1, this.2.2⟩
    · rw [ha] at h; cases h
  | remove id =>
    exfalso
    simp only [step, remove, hp, Bool.false_eq_true, if_false] at h
    split at h
    · cases h
    · split at h <;> cases h
  | createBt name fields =>
    simp only [step] at h ⊢
    rcases createBt_res s name fields with ⟨e', he⟩ | ⟨s', hs⟩
    · rw [he]; exact Frame.refl s
    · rw [hs] at h; cases h
  | createTx fields =>
    simp only [step] at h ⊢
    rcases createTx_res s fields with ⟨e', he⟩ | ⟨s', hs⟩
    · rw [he]; exact Frame.refl s
    · rw [hs] at h; cases h
  | createHn field dim =>
    simp only [step] at h ⊢
    rcases createHn_res s field dim with ⟨e', he⟩ | ⟨s', hs⟩
    · rw [he]; exact Frame.refl s
    · rw [hs] at h; cases h
  | removeBt name => simp [step, hp] at h
  | removeTx fields => simp [step, hp] at h
  | removeHn field => simp [step, hp] at h
  | flush => simp [step, hp] at h
  | reopen => simp [step, hp] at h

-- where a rejection of `add` can come from ---------------------------------------------------

theorem addBtF_err (id : Nat) (d : List (Nat × FVal)) (x : BtDef × List (Key × Nat)) (e : Err)
    (h : (addBtF id d x).err = some e) :
    e = .exists ∧ x.1.unique = true ∧ ∃ k ∈ (valueOf x.1 d).keys, ∃ j, (k, j) ∈ x.2 ∧ j ≠ id := by
  cases hr : btInsert x.1.unique x.2 id (valueOf x.1 d) with
  | ok r' => simp [addBtF, hr] at h
  | error e' =>
    simp only [addBtF, hr, Option.some.injEq] at h
    subst h
    obtain ⟨h1, h2, k, hk, hc⟩ := btInsert_err _ _ _ _ _ hr
    exact ⟨h1, h2, k, hk, (conflict_iff _ _ _).1 hc⟩

theorem addTxF_noerr (L : Nat → Option (List (Nat × FVal))) (id : Nat) (d : List (Nat × FVal)) (hid : L id = none)
    (t : Tx) (ht : GoodTx L t) : (addTxF id d t).err = none := by
  obtain ⟨t', h1, _⟩ := good_tx_insert L t id (some d) ht (by rw [hid]; rfl)
  have h1' : txInsertO t id (textOf t.fields d) = .ok t' := h1
  simp [addTxF, h1']

theorem addHnF_err (L : Nat → Option (List (Nat × FVal))) (id : Nat) (d : List (Nat × FVal)) (hid : L id = none)
    (h : Hn) (hh : GoodHn L h) (e : Err) (he : (addHnF id d h).err = some e) :
    e = .index ∧ ∃ n, vecOf h.field d = some n ∧ n ≠ h.dim := by
  cases hr : hnInsertO h id (vecOf h.field d) with
  | ok h' => simp [addHnF, hr] at he
  | error e' =>
    simp only [addHnF, hr, Option.some.injEq] at he
    subst he
    rcases hn_insert_err h id _ _ hr with ⟨h1, n, h2, h3⟩ | ⟨_, h2⟩
    · exact ⟨h1, n, h2, h3⟩
    · exfalso
      have := (hh.1 id).1 h2
      rw [hid] at this
      simp [oVecOf] at this

end AndaVerif.Collection
