import AndaVerif.Proofs.CollRel
/-
"An index agrees with the documents": `GoodBt / GoodTx / GoodHn L x` for a document lookup function
`L : id → Option doc`, and how the index operations move an index from agreeing with `L` to agreeing
with `L` changed at one id (`updL`). Plus the generic lemmas about `phase` / `phases` (forward walk
with rollback).
-/
namespace AndaVerif.Collection

/-- the document map changed at one id -/
def updL (L : Nat → Option (List (Nat × FVal))) (id : Nat) (nd : Option (List (Nat × FVal))) :
    Nat → Option (List (Nat × FVal)) :=
  fun i => if i = id then nd else L i

theorem updL_same (L) (id : Nat) (nd) : updL L id nd id = nd := by simp [updL]
theorem updL_other (L) (id : Nat) (nd) (i : Nat) (h : i ≠ id) : updL L id nd i = L i := by simp [updL, h]

theorem updL_updL (L) (id : Nat) (a b) : updL (updL L id a) id b = updL L id b := by
  funext i
  simp only [updL]
  split <;> rfl

theorem updL_self (L : Nat → Option (List (Nat × FVal))) (id : Nat) : updL L id (L id) = L := by
  funext i
  simp only [updL]
  split
  · rename_i h; rw [h]
  · rfl

-- ------------------------------------------------------------------------------------------
-- B-tree
-- ------------------------------------------------------------------------------------------

def ivalOf (df : BtDef) : Option (List (Nat × FVal)) → IVal
  | none => .null
  | some d => valueOf df d

/-- the posting relation is exactly the one recomputed from the documents, and a unique index has
one owner per key -/
def GoodBt (L : Nat → Option (List (Nat × FVal))) (x : BtDef × List (Key × Nat)) : Prop :=
  (∀ k i, (k, i) ∈ x.2 ↔ k ∈ (ivalOf x.1 (L i)).keys) ∧
  (x.1.unique = true → ∀ k i j, (k, i) ∈ x.2 → (k, j) ∈ x.2 → i = j)

theorem Compat_null_left (v : IVal) : Compat .null v := by cases v <;> simp [Compat]
theorem Compat_null_right (v : IVal) : Compat v .null := by cases v <;> simp [Compat]

theorem good_update (L) (df : BtDef) (r r' : List (Key × Nat)) (id : Nat) (nd : Option (List (Nat × FVal)))
    (hg : GoodBt L (df, r)) (hc : Compat (ivalOf df (L id)) (ivalOf df nd))
    (h : btUpdate df.unique r id (ivalOf df (L id)) (ivalOf df nd) = .ok r') :
    GoodBt (updL L id nd) (df, r') := by
  obtain ⟨h1, h2, h3⟩ := btUpdate_ok df.unique r r' id _ _ (fun k => hg.1 k id) hc h
  refine ⟨fun k i => ?_, fun hu k i j hi hj => ?_⟩
  · by_cases hi : i = id
    · subst hi
      simp only [updL_same]
      exact h1 k
    · simp only [updL_other _ _ _ _ hi]
      rw [h2 k i hi]
      exact hg.1 k i
  · simp only at hi hj hu
    have key : ∀ j, j ≠ id → (k, id) ∈ r' → (k, j) ∈ r' → False := by
      intro j hjne hid hj
      have hkn := (h1 k).1 hid
      have hjr := (h2 k j hjne).1 hj
      by_cases hko : k ∈ (ivalOf df (L id)).keys
      · exact hjne (hg.2 hu k j id hjr ((hg.1 k id).2 hko))
      · exact hjne ((conflict_false_iff r id k).1 (h3 hu k hkn hko) j hjr)
    by_cases hii : i = id
    · by_cases hjj : j = id
      · rw [hii, hjj]
      · subst hii
        exact absurd (key j hjj hi hj) id
    · by_cases hjj : j = id
      · subst hjj
        exact absurd (key i hii hj hi) id
      · exact hg.2 hu k i j ((h2 k i hii).1 hi) ((h2 k j hjj).1 hj)

/-- Restoring the previous value can not be refused, and re-establishes agreement with the
previous documents (the B-tree part of "rollback never poisons"). -/
theorem good_restore (L0) (df : BtDef) (r0 r1 : List (Key × Nat)) (id : Nat) (nd : Option (List (Nat × FVal)))
    (hg0 : GoodBt L0 (df, r0)) (hg1 : GoodBt (updL L0 id nd) (df, r1))
    (hc : Compat (ivalOf df nd) (ivalOf df (L0 id))) :
    ∃ r2, btUpdate df.unique r1 id (ivalOf df nd) (ivalOf df (L0 id)) = .ok r2 ∧ GoodBt L0 (df, r2) := by
  cases h : btUpdate df.unique r1 id (ivalOf df nd) (ivalOf df (L0 id)) with
  | error e =>
    exfalso
    obtain ⟨_, hu, k, hk, hcf⟩ := btUpdate_err df.unique r1 id _ _ e hc h
    obtain ⟨j, hj, hjne⟩ := (conflict_iff r1 id k).1 hcf
    have hj0 : (k, j) ∈ r0 := by
      have := (hg1.1 k j).1 hj
      rw [updL_other _ _ _ _ hjne] at this
      exact (hg0.1 k j).2 this
    exact hjne (hg0.2 hu k j id hj0 ((hg0.1 k id).2 hk))
  | ok r2 =>
    refine ⟨r2, rfl, ?_⟩
    have h' : btUpdate df.unique r1 id (ivalOf df (updL L0 id nd id)) (ivalOf df (L0 id)) = .ok r2 := by
      rw [updL_same]; exact h
    have := good_update (updL L0 id nd) df r1 r2 id (L0 id) hg1 (by rw [updL_same]; exact hc) h'
    rw [updL_updL, updL_self] at this
    exact this

-- ------------------------------------------------------------------------------------------
-- BM25
-- ------------------------------------------------------------------------------------------

def oTextOf (fields : List Nat) : Option (List (Nat × FVal)) → Option (List Nat)
  | none => none
  | some d => textOf fields d

def toks : Option (List Nat) → List Nat
  | none => []
  | some ws => ws

def GoodTx (L : Nat → Option (List (Nat × FVal))) (t : Tx) : Prop :=
  (∀ i, i ∈ t.docs ↔ toks (oTextOf t.fields (L i)) ≠ []) ∧
  (∀ w i, (w, i) ∈ t.post ↔ w ∈ toks (oTextOf t.fields (L i))) ∧
  t.docs.Nodup

theorem mem_addTok (r : List (Nat × Nat)) (id : Nat) (k : Nat) (p : Nat × Nat) :
    p ∈ addTok r id k ↔ p ∈ r ∨ p = (k, id) := by
  unfold addTok
  split
  · rename_i h
    have : (k, id) ∈ r := by simpa using h
    constructor
    · exact Or.inl
    · rintro (h | h)
      · exact h
      · subst h; exact this
  · simp

theorem mem_foldl_addTok (ks : List Nat) (r : List (Nat × Nat)) (id : Nat) (p : Nat × Nat) :
    p ∈ ks.foldl (fun r k => addTok r id k) r ↔ p ∈ r ∨ (p.2 = id ∧ p.1 ∈ ks) := by
  induction ks generalizing r with
  | nil => simp
  | cons k ks ih =>
    simp only [List.foldl_cons, ih, mem_addTok, List.mem_cons]
    constructor
    · rintro ((h | h) | h)
      · exact Or.inl h
      · subst h; exact Or.inr ⟨rfl, Or.inl rfl⟩
      · exact Or.inr ⟨h.1, Or.inr h.2⟩
    · rintro (h | ⟨h1, h2 | h2⟩)
      · exact Or.inl (Or.inl h)
      · refine Or.inl (Or.inr ?_)
        cases p; simp_all
      · exact Or.inr ⟨h1, h2⟩

theorem txRemoveO_fields (t : Tx) (id : Nat) (o : Option (List Nat)) : (txRemoveO t id o).fields = t.fields := by
  cases o <;> rfl

theorem txInsertO_fields (t t' : Tx) (id : Nat) (o : Option (List Nat)) (h : txInsertO t id o = .ok t') :
    t'.fields = t.fields := by
  cases o with
  | none => simp only [txInsertO, Except.ok.injEq] at h; rw [← h]
  | some ws =>
    simp only [txInsertO, txInsert] at h
    split at h
    · simp only [Except.ok.injEq] at h; rw [← h]
    · split at h
      · cases h
      · simp only [Except.ok.injEq] at h; rw [← h]

/-- removing the hook's text of the current document clears the id from the index -/
theorem good_tx_remove (L) (t : Tx) (id : Nat) (hg : GoodTx L t) :
    GoodTx (updL L id none) (txRemoveO t id (oTextOf t.fields (L id))) := by
  obtain ⟨h1, h2, h3⟩ := hg
  cases ho : oTextOf t.fields (L id) with
  | none =>
    simp only [txRemoveO]
    refine ⟨fun i => ?_, fun w i => ?_, h3⟩
    · by_cases hi : i = id
      · subst hi
        rw [h1 i, ho, updL_same]
        simp [toks, oTextOf]
      · rw [updL_other _ _ _ _ hi]; exact h1 i
    · by_cases hi : i = id
      · subst hi
        rw [h2 w i, ho, updL_same]
        simp [toks, oTextOf]
      · rw [updL_other _ _ _ _ hi]; exact h2 w i
  | some ws =>
    simp only [txRemoveO, txRemove]
    refine ⟨fun i => ?_, fun w i => ?_, h3.filter _⟩
    · simp only [List.mem_filter, bne_iff_ne, ne_eq]
      by_cases hi : i = id
      · subst hi
        simp [updL_same, toks, oTextOf]
      · rw [updL_other _ _ _ _ hi, h1 i]
        simp [hi]
    · simp only [List.mem_filter, Bool.not_eq_eq_eq_not, Bool.not_true, Bool.and_eq_false_imp, beq_iff_eq,
        List.contains_eq_mem, decide_eq_false_iff_not]
      by_cases hi : i = id
      · subst hi
        rw [h2 w i, ho]
        simp [updL_same, toks, oTextOf]
      · rw [updL_other _ _ _ _ hi, h2 w i]
        simp [hi]

/-- inserting the hook's text of a document at an id the index does not know can not be refused -/
theorem good_tx_insert (L) (t : Tx) (id : Nat) (nd : Option (List (Nat × FVal))) (hg : GoodTx L t)
    (hid : toks (oTextOf t.fields (L id)) = []) :
    ∃ t', txInsertO t id (oTextOf t.fields nd) = .ok t' ∧ GoodTx (updL L id nd) t' := by
  obtain ⟨h1, h2, h3⟩ := hg
  have hnd : id ∉ t.docs := by rw [h1 id]; simp [hid]
  cases ho : oTextOf t.fields nd with
  | none =>
    refine ⟨t, rfl, fun i => ?_, fun w i => ?_, h3⟩
    · by_cases hi : i = id
      · subst hi
        rw [updL_same, ho]
        simp only [toks, ne_eq, not_true_eq_false, iff_false]
        exact hnd
      · rw [updL_other _ _ _ _ hi]; exact h1 i
    · by_cases hi : i = id
      · subst hi
        rw [updL_same, ho, h2 w i, hid]
        simp [toks]
      · rw [updL_other _ _ _ _ hi]; exact h2 w i
  | some ws =>
    simp only [txInsertO, txInsert]
    by_cases he : ws.isEmpty = true
    · have hws : ws = [] := List.isEmpty_iff.mp he
      subst hws
      refine ⟨t, by simp, fun i => ?_, fun w i => ?_, h3⟩
      · by_cases hi : i = id
        · subst hi
          rw [updL_same, ho]
          simp only [toks, ne_eq, not_true_eq_false, iff_false]
          exact hnd
        · rw [updL_other _ _ _ _ hi]; exact h1 i
      · by_cases hi : i = id
        · subst hi
          rw [updL_same, ho, h2 w i, hid]
          simp [toks]
        · rw [updL_other _ _ _ _ hi]; exact h2 w i
    · have hc : t.docs.contains id = false := by simpa using hnd
      have hne : ws ≠ [] := fun h => he (by simp [h])
      refine ⟨{ t with docs := id :: t.docs, post := ws.foldl (fun p w => addTok p id w) t.post }, by simp [he, hnd], fun i => ?_, fun w i => ?_, ?_⟩
      · simp only [List.mem_cons]
        by_cases hi : i = id
        · subst hi
          rw [updL_same, ho]
          simp [toks, hne]
        · rw [updL_other _ _ _ _ hi, ← h1 i]
          simp [hi]
      · simp only
        rw [mem_foldl_addTok]
        by_cases hi : i = id
        · subst hi
          rw [updL_same, ho, h2 w i, hid]
          simp [toks]
        · rw [updL_other _ _ _ _ hi, h2 w i]
          simp [hi]
      · exact List.nodup_cons.2 ⟨hnd, h3⟩

-- ------------------------------------------------------------------------------------------
-- HNSW
-- ------------------------------------------------------------------------------------------

def oVecOf (field : Nat) : Option (List (Nat × FVal)) → Option Nat
  | none => none
  | some d => vecOf field d

def GoodHn (L : Nat → Option (List (Nat × FVal))) (h : Hn) : Prop :=
  (∀ i, i ∈ h.ids ↔ (oVecOf h.field (L i)).isSome = true) ∧ h.ids.Nodup ∧
  (∀ i n, oVecOf h.field (L i) = some n → n = h.dim)

theorem hnRemoveO_field (h : Hn) (id : Nat) (o : Option Nat) :
    (hnRemoveO h id o).field = h.field ∧ (hnRemoveO h id o).dim = h.dim := by
  cases o <;> exact ⟨rfl, rfl⟩

theorem hnInsertO_field (h h' : Hn) (id : Nat) (o : Option Nat) (hi : hnInsertO h id o = .ok h') :
    h'.field = h.field ∧ h'.dim = h.dim := by
  cases o with
  | none => simp only [hnInsertO, Except.ok.injEq] at hi; rw [← hi]; exact ⟨rfl, rfl⟩
  | some n =>
    simp only [hnInsertO, hnInsert] at hi
    split at hi
    · cases hi
    · split at hi
      · cases hi
      · simp only [Except.ok.injEq] at hi; rw [← hi]; exact ⟨rfl, rfl⟩

theorem good_hn_remove (L) (h : Hn) (id : Nat) (o : Option Nat) (hg : GoodHn L h)
    (ho : o.isSome = true ∨ (oVecOf h.field (L id)).isSome = false) :
    GoodHn (updL L id none) (hnRemoveO h id o) := by
  obtain ⟨h1, h2, h3⟩ := hg
  have hdim : ∀ i n, oVecOf h.field (updL L id none i) = some n → n = h.dim := by
    intro i n hn
    by_cases hi : i = id
    · subst hi; rw [updL_same] at hn; simp [oVecOf] at hn
    · rw [updL_other _ _ _ _ hi] at hn; exact h3 i n hn
  cases o with
  | none =>
    have hno : (oVecOf h.field (L id)).isSome = false := by
      rcases ho with ho | ho
      · simp at ho
      · exact ho
    refine ⟨fun i => ?_, h2, hdim⟩
    simp only [hnRemoveO]
    by_cases hi : i = id
    · subst hi
      rw [h1 i, updL_same, hno]
      simp [oVecOf]
    · rw [updL_other _ _ _ _ hi]; exact h1 i
  | some n =>
    refine ⟨fun i => ?_, h2.filter _, hdim⟩
    simp only [hnRemoveO, hnRemove, List.mem_filter, bne_iff_ne, ne_eq]
    by_cases hi : i = id
    · subst hi
      simp [updL_same, oVecOf]
    · rw [updL_other _ _ _ _ hi, h1 i]
      simp [hi]

/-- inserting at an id the index does not know: refused exactly on a dimension mismatch -/
theorem good_hn_insert (L) (h : Hn) (id : Nat) (nd : Option (List (Nat × FVal))) (hg : GoodHn L h)
    (hid : (oVecOf h.field (L id)).isSome = false) :
    (∀ n, oVecOf h.field nd = some n → n = h.dim) →
      ∃ h', hnInsertO h id (oVecOf h.field nd) = .ok h' ∧ GoodHn (updL L id nd) h' := by
  intro hd
  obtain ⟨h1, h2, h3⟩ := hg
  have hnd : id ∉ h.ids := by rw [h1 id, hid]; simp
  have hdim : ∀ i n, oVecOf h.field (updL L id nd i) = some n → n = h.dim := by
    intro i n hn
    by_cases hi : i = id
    · subst hi; rw [updL_same] at hn; exact hd n hn
    · rw [updL_other _ _ _ _ hi] at hn; exact h3 i n hn
  cases ho : oVecOf h.field nd with
  | none =>
    refine ⟨h, rfl, fun i => ?_, h2, hdim⟩
    by_cases hi : i = id
    · subst hi
      rw [updL_same, ho, h1 i, hid]
      simp
    · rw [updL_other _ _ _ _ hi]; exact h1 i
  | some n =>
    have hn : n = h.dim := hd n ho
    have hc : h.ids.contains id = false := by simpa using hnd
    refine ⟨{ h with ids := id :: h.ids }, by simp [hnInsertO, hnInsert, hn, hnd], fun i => ?_, List.nodup_cons.2 ⟨hnd, h2⟩, hdim⟩
    simp only [List.mem_cons]
    by_cases hi : i = id
    · subst hi
      rw [updL_same, ho]
      simp
    · rw [updL_other _ _ _ _ hi, ← h1 i]
      simp [hi]

theorem hn_insert_err (h : Hn) (id : Nat) (o : Option Nat) (e : Err) (hi : hnInsertO h id o = .error e) :
    (e = .index ∧ ∃ n, o = some n ∧ n ≠ h.dim) ∨ (e = .exists ∧ id ∈ h.ids) := by
  cases o with
  | none => simp [hnInsertO] at hi
  | some n =>
    simp only [hnInsertO, hnInsert] at hi
    split at hi
    · rename_i hne
      cases hi
      exact Or.inl ⟨rfl, n, rfl, by simpa using hne⟩
    · split at hi
      · rename_i hc
        cases hi
        exact Or.inr ⟨rfl, by simpa using hc⟩
      · cases hi

-- ------------------------------------------------------------------------------------------
-- phase / phases
-- ------------------------------------------------------------------------------------------

/-- what the forward step and the undo of one index family guarantee, from `P` (agrees with the old
documents) to `Q` (agrees with the new ones) -/
structure PhaseOK {α : Type} (fwd : α → Fwd α) (back : α → α × Bool) (P Q : α → Prop) : Prop where
  ok : ∀ x, P x → (fwd x).err = none → Q (fwd x).res
  err : ∀ x, P x → ∀ e, (fwd x).err = some e → P (fwd x).res ∧ (fwd x).restored = true
  back : ∀ x, P x → (fwd x).err = none → P (back (fwd x).res).1 ∧ (back (fwd x).res).2 = true

theorem phase_none {α : Type} (fwd : α → Fwd α) (back : α → α × Bool) (l l' : List α) (b : Bool)
    (h : phase fwd back l = (l', none, b)) :
    l' = l.map (fun x => (fwd x).res) ∧ ∀ x ∈ l, (fwd x).err = none := by
  induction l generalizing l' b with
  | nil =>
    simp only [phase, Prod.mk.injEq] at h
    exact ⟨by rw [← h.1]; rfl, fun x hx => by cases hx⟩
  | cons x rest ih =>
    simp only [phase] at h
    split at h
    · simp at h
    · rename_i hx
      split at h
      · rename_i rest' b' hr
        simp only [Prod.mk.injEq] at h
        obtain ⟨ih1, ih2⟩ := ih rest' b' hr
        refine ⟨by rw [← h.1, ih1]; rfl, fun y hy => ?_⟩
        rcases List.mem_cons.1 hy with rfl | hy
        · exact hx
        · exact ih2 y hy
      · simp at h

theorem phase_some {α : Type} (fwd : α → Fwd α) (back : α → α × Bool) (P Q : α → Prop)
    (hp : PhaseOK fwd back P Q) (l l' : List α) (e : Err) (b : Bool)
    (hl : ∀ x ∈ l, P x) (h : phase fwd back l = (l', some e, b)) :
    (∀ y ∈ l', P y) ∧ b = true ∧ ∃ x ∈ l, (fwd x).err = some e := by
  induction l generalizing l' b with
  | nil => simp [phase] at h
  | cons x rest ih =>
    have hx := hl x (List.mem_cons_self ..)
    have hrest : ∀ y ∈ rest, P y := fun y hy => hl y (List.mem_cons_of_mem _ hy)
    simp only [phase] at h
    split at h
    · rename_i e' he
      simp only [Prod.mk.injEq, Option.some.injEq] at h
      obtain ⟨h1, h2, h3⟩ := h
      subst h2
      have := hp.err x hx e' he
      refine ⟨fun y hy => ?_, by rw [← h3]; exact this.2, x, List.mem_cons_self .., he⟩
      rw [← h1] at hy
      rcases List.mem_cons.1 hy with rfl | hy
      · exact this.1
      · exact hrest y hy
    · rename_i he
      split at h
      · simp at h
      · rename_i rest' e' ok hr
        simp only [Prod.mk.injEq, Option.some.injEq] at h
        obtain ⟨h1, h2, h3⟩ := h
        subst h2
        obtain ⟨ih1, ih2, x', hx', hx'e⟩ := ih rest' ok hrest hr
        have hb := hp.back x hx he
        refine ⟨fun y hy => ?_, by rw [← h3, ih2, hb.2]; rfl, x', List.mem_cons_of_mem _ hx', hx'e⟩
        rw [← h1] at hy
        rcases List.mem_cons.1 hy with rfl | hy
        · exact hb.1
        · exact ih1 y hy

theorem phase_map {α β : Type} (fwd : α → Fwd α) (back : α → α × Bool) (κ : α → β)
    (hf : ∀ x, κ (fwd x).res = κ x) (hb : ∀ x, κ (back x).1 = κ x) (l : List α) :
    (phase fwd back l).1.map κ = l.map κ := by
  induction l with
  | nil => rfl
  | cons x rest ih =>
    simp only [phase]
    split
    · simp [hf]
    · split
      · rename_i rest' b hr
        rw [hr] at ih
        simp only at ih
        simp [hf, ih]
      · rename_i rest' e ok hr
        rw [hr] at ih
        simp only at ih
        simp [hf, hb, ih]

theorem backAll_spec {α : Type} (fwd : α → Fwd α) (back : α → α × Bool) (P Q : α → Prop)
    (hp : PhaseOK fwd back P Q) (l : List α) (hl : ∀ x ∈ l, P x) (hok : ∀ x ∈ l, (fwd x).err = none) :
    (∀ y ∈ (backAll back (l.map (fun x => (fwd x).res))).1, P y) ∧
      (backAll back (l.map (fun x => (fwd x).res))).2 = true := by
  simp only [backAll, List.map_map, List.mem_map, Function.comp, List.all_map, List.all_eq_true]
  refine ⟨?_, fun x hx => (hp.back x (hl x hx) (hok x hx)).2⟩
  rintro y ⟨x, hx, rfl⟩
  exact (hp.back x (hl x hx) (hok x hx)).1

theorem phases_spec (ix : Idx)
    (fB : BtDef × List (Key × Nat) → Fwd (BtDef × List (Key × Nat))) (bB : BtDef × List (Key × Nat) → (BtDef × List (Key × Nat)) × Bool)
    (fT : Tx → Fwd Tx) (bT : Tx → Tx × Bool) (fH : Hn → Fwd Hn) (bH : Hn → Hn × Bool)
    (PB QB : BtDef × List (Key × Nat) → Prop) (PT QT : Tx → Prop) (PH QH : Hn → Prop)
    (hB : PhaseOK fB bB PB QB) (hT : PhaseOK fT bT PT QT) (hH : PhaseOK fH bH PH QH)
    (hb : ∀ x ∈ ix.bt, PB x) (ht : ∀ x ∈ ix.tx, PT x) (hh : ∀ x ∈ ix.hn, PH x)
    (ix' : Idx) (oe : Option Err) (ok : Bool) (h : phases ix fB bB fT bT fH bH = (ix', oe, ok)) :
    (oe = none → (∀ x ∈ ix'.bt, QB x) ∧ (∀ x ∈ ix'.tx, QT x) ∧ (∀ x ∈ ix'.hn, QH x)) ∧
    (∀ e, oe = some e → (∀ x ∈ ix'.bt, PB x) ∧ (∀ x ∈ ix'.tx, PT x) ∧ (∀ x ∈ ix'.hn, PH x) ∧ ok = true ∧
      ((∃ x ∈ ix.bt, (fB x).err = some e) ∨ (∃ x ∈ ix.tx, (fT x).err = some e) ∨ (∃ x ∈ ix.hn, (fH x).err = some e))) := by
  unfold phases at h
  split at h
  · rename_i bt1 e okb hpb
    simp only [Prod.mk.injEq] at h
    obtain ⟨h1, h2, h3⟩ := h
    subst h1 h2 h3
    obtain ⟨p1, p2, p3⟩ := phase_some fB bB PB QB hB ix.bt bt1 e okb hb hpb
    exact ⟨fun h => (by cases h), fun e' he => by cases he; exact ⟨p1, ht, hh, p2, Or.inl p3⟩⟩
  · rename_i bt1 _ hpb
    obtain ⟨b1, b2⟩ := phase_none fB bB ix.bt bt1 _ hpb
    have hQB : ∀ x ∈ bt1, QB x := by
      rw [b1]; intro y hy
      obtain ⟨x, hx, rfl⟩ := List.mem_map.1 hy
      exact hB.ok x (hb x hx) (b2 x hx)
    split at h
    · rename_i tx1 e okt hpt
      simp only [Prod.mk.injEq] at h
      obtain ⟨h1, h2, h3⟩ := h
      subst h1 h2 h3
      obtain ⟨p1, p2, p3⟩ := phase_some fT bT PT QT hT ix.tx tx1 e okt ht hpt
      have hbk := backAll_spec fB bB PB QB hB ix.bt hb b2
      rw [← b1] at hbk
      exact ⟨fun h => (by cases h), fun e' he => by cases he; exact ⟨hbk.1, p1, hh, by rw [p2, hbk.2]; rfl, Or.inr (Or.inl p3)⟩⟩
    · rename_i tx1 _ hpt
      obtain ⟨t1, t2⟩ := phase_none fT bT ix.tx tx1 _ hpt
      have hQT : ∀ x ∈ tx1, QT x := by
        rw [t1]; intro y hy
        obtain ⟨x, hx, rfl⟩ := List.mem_map.1 hy
        exact hT.ok x (ht x hx) (t2 x hx)
      split at h
      · rename_i hn1 e okh hph
        simp only [Prod.mk.injEq] at h
        obtain ⟨h1, h2, h3⟩ := h
        subst h1 h2 h3
        obtain ⟨p1, p2, p3⟩ := phase_some fH bH PH QH hH ix.hn hn1 e okh hh hph
        have hbk := backAll_spec fB bB PB QB hB ix.bt hb b2
        rw [← b1] at hbk
        have htk := backAll_spec fT bT PT QT hT ix.tx ht t2
        rw [← t1] at htk
        exact ⟨fun h => (by cases h), fun e' he => by cases he; exact ⟨hbk.1, htk.1, p1, by rw [p2, hbk.2, htk.2]; rfl, Or.inr (Or.inr p3)⟩⟩
      · rename_i hn1 _ hph
        obtain ⟨n1, n2⟩ := phase_none fH bH ix.hn hn1 _ hph
        simp only [Prod.mk.injEq] at h
        obtain ⟨h1, h2, _⟩ := h
        subst h1 h2
        refine ⟨fun _ => ⟨hQB, hQT, ?_⟩, fun e he => (by cases he)⟩
        rw [n1]; intro y hy
        obtain ⟨x, hx, rfl⟩ := List.mem_map.1 hy
        exact hH.ok x (hh x hx) (n2 x hx)

end AndaVerif.Collection
