import AndaVerif.Proofs.Bm25Query
/-
Histories: what the postings hold after any sequence of insert / remove(any text) / purge_ids,
expressed through a ghost state (the token set of the current text of every live document, and the
entries a remove with non-original text left behind).
-/
namespace AndaVerif
namespace Bm25

/-- `hasEntry` on a bare posting map -/
def hasEntryP (ps : Postings) (t i : Nat) : Bool :=
  match get? ps t with
  | some es => es.any (fun e => e.1 == i)
  | none => false

theorem hasEntry_eq (s : Index) (t i : Nat) : hasEntry s t i = hasEntryP s.postings t i := rfl

theorem get?_cons {α : Type} (k : Nat) (v : α) (m : List (Nat × α)) (x : Nat) :
    get? ((k, v) :: m) x = if k = x then some v else get? m x := rfl

theorem hasEntryP_nil (t i : Nat) : hasEntryP [] t i = false := rfl

theorem hasEntryP_cons (k : Nat) (es : Entries) (ps : Postings) (t i : Nat) :
    hasEntryP ((k, es) :: ps) t i = if k = t then es.any (fun e => e.1 == i) else hasEntryP ps t i := by
  unfold hasEntryP; rw [get?_cons]; by_cases h : k = t <;> simp [h]

theorem hasEntryP_of_not_key {ps : Postings} {t i : Nat} (h : t ∉ ps.map (·.1)) : hasEntryP ps t i = false := by
  unfold hasEntryP; rw [get?_none_iff.2 h]

/-! ### addEntry / addAll -/

theorem keys_addEntry (ps : Postings) (t : Nat) (e : Nat × Nat) :
    ∀ k, k ∈ (addEntry ps t e).map (·.1) ↔ k ∈ ps.map (·.1) ∨ k = t := by
  induction ps with
  | nil => intro k; simp [addEntry]
  | cons p ps ih =>
    obtain ⟨k', es⟩ := p
    intro k
    unfold addEntry
    split
    · rename_i h; subst h; simp; intro h; exact Or.inl h
    · simp only [List.map_cons, List.mem_cons, ih k]
      constructor
      · rintro (h | h | h) <;> simp [h]
      · rintro ((h | h) | h) <;> simp [h]

theorem nodup_addEntry (ps : Postings) (t : Nat) (e : Nat × Nat) (h : (ps.map (·.1)).Nodup) :
    ((addEntry ps t e).map (·.1)).Nodup := by
  induction ps with
  | nil => simp [addEntry]
  | cons p ps ih =>
    obtain ⟨k', es⟩ := p
    simp only [List.map_cons, List.nodup_cons] at h
    unfold addEntry
    split
    · simpa using h
    · rename_i hk
      simp only [List.map_cons, List.nodup_cons]
      refine ⟨?_, ih h.2⟩
      intro hm
      rcases (keys_addEntry ps t e k').1 hm with h1 | h1
      · exact h.1 h1
      · exact hk h1

theorem hasEntryP_addEntry (ps : Postings) (t : Nat) (e : Nat × Nat) (t' i : Nat) :
    hasEntryP (addEntry ps t e) t' i = (hasEntryP ps t' i || (t' == t && e.1 == i)) := by
  induction ps with
  | nil =>
    simp only [addEntry, hasEntryP_cons, hasEntryP_nil]
    by_cases h : t = t'
    · subst h; simp
    · have : (t' == t) = false := by simp [Ne.symm h]
      simp [h, this]
  | cons p ps ih =>
    obtain ⟨k, es⟩ := p
    unfold addEntry
    by_cases hk : k = t
    · subst hk
      simp only [if_true, hasEntryP_cons]
      by_cases h : k = t'
      · subst h
        by_cases hc : es.contains e = true
        · simp only [hc, if_true, beq_self_eq_true, Bool.true_and]
          cases hi : (e.1 == i) with
          | false => simp
          | true =>
            simp only [Bool.or_true, List.any_eq_true]
            exact ⟨e, by simpa using hc, hi⟩
        · have hc' : e ∉ es := by simpa using hc
          simp [hc', List.any_append]
      · have : (t' == k) = false := by simp [Ne.symm h]
        simp [h, this]
    · simp only [hk, if_false, hasEntryP_cons]
      by_cases h : k = t'
      · subst h
        have : (k == t) = false := by simp [hk]
        simp [this]
      · simp [h, ih]

theorem nodup_addAll (id : Nat) : ∀ (tf : List (Nat × Nat)) (ps : Postings), (ps.map (·.1)).Nodup →
    ((addAll ps id tf).map (·.1)).Nodup
  | [], ps, h => by simpa [addAll] using h
  | (t, f) :: tf, ps, h => by
    unfold addAll
    exact nodup_addAll id tf _ (nodup_addEntry ps t (id, f) h)

theorem hasEntryP_addAll (id : Nat) : ∀ (tf : List (Nat × Nat)) (ps : Postings) (t' i : Nat),
    hasEntryP (addAll ps id tf) t' i = (hasEntryP ps t' i || (id == i && (tf.map (·.1)).contains t'))
  | [], ps, t', i => by simp [addAll]
  | (t, f) :: tf, ps, t', i => by
    unfold addAll
    rw [hasEntryP_addAll id tf, hasEntryP_addEntry]
    simp only [List.map_cons, List.contains_cons]
    cases hasEntryP ps t' i <;> cases h1 : (t' == t) <;> cases h2 : (id == i) <;> simp [h1, h2]

/-! ### removeFrom / removeAll -/

theorem filter_length_eq {α : Type} {p : α → Bool} {l : List α} (h : (l.filter p).length = l.length) :
    l.filter p = l := by
  induction l with
  | nil => rfl
  | cons x xs ih =>
    by_cases hx : p x = true
    · simp only [List.filter_cons, hx, if_true, List.length_cons, Nat.add_right_cancel_iff] at h
      simp [List.filter_cons, hx, ih h]
    · simp only [List.filter_cons, hx, List.length_cons] at h
      have := List.length_filter_le p xs
      simp at h; omega

theorem any_dropDoc (es : Entries) (id i : Nat) :
    (dropDoc es id).any (fun e => e.1 == i) = (es.any (fun e => e.1 == i) && !(id == i)) := by
  unfold dropDoc
  induction es with
  | nil => simp
  | cons e es ih =>
    by_cases h : e.1 = id
    · simp only [List.filter_cons, h, bne_self_eq_false, Bool.false_eq_true, if_false, List.any_cons, ih]
      cases hi : (id == i) <;> simp
    · have : (e.1 != id) = true := by simp [h]
      simp only [List.filter_cons, this, if_true, List.any_cons, ih]
      by_cases hi : id = i
      · subst hi
        have : (e.1 == id) = false := by simp [h]
        simp [this]
      · have : (id == i) = false := by simp [hi]
        simp [this]

theorem keys_removeFrom_sub (ps : Postings) (t id : Nat) :
    ((removeFrom ps t id).map (·.1)).Sublist (ps.map (·.1)) := by
  induction ps with
  | nil => simp [removeFrom]
  | cons p ps ih =>
    obtain ⟨k, es⟩ := p
    unfold removeFrom
    by_cases hk : k = t
    · simp only [hk, if_true]
      split
      · simp
      · split
        · simp
        · simp
    · simp only [hk, if_false, List.map_cons]
      exact ih.cons₂ _

theorem hasEntryP_removeFrom (ps : Postings) (t id t' i : Nat) (hn : (ps.map (·.1)).Nodup) :
    hasEntryP (removeFrom ps t id) t' i = (hasEntryP ps t' i && !(t' == t && id == i)) := by
  induction ps with
  | nil => simp [removeFrom, hasEntryP_nil]
  | cons p ps ih =>
    obtain ⟨k, es⟩ := p
    simp only [List.map_cons, List.nodup_cons] at hn
    unfold removeFrom
    by_cases hk : k = t
    · subst hk
      simp only [if_true]
      by_cases ht : k = t'
      · subst ht
        simp only [beq_self_eq_true, Bool.true_and]
        have hps : hasEntryP ps k i = false := hasEntryP_of_not_key hn.1
        split
        · rename_i hl
          have hf := filter_length_eq hl
          have := any_dropDoc es id i
          unfold dropDoc at this
          rw [hf] at this
          simp only [hasEntryP_cons, if_true]
          exact this
        · split
          · rename_i he
            have he' : dropDoc es id = [] := by simpa using he
            have := any_dropDoc es id i
            rw [he'] at this
            simp only [hasEntryP_cons, if_true, hps]
            simpa using this
          · simp only [hasEntryP_cons, if_true]
            exact any_dropDoc es id i
      · have hb : (t' == k) = false := by simp [Ne.symm ht]
        simp only [hb, Bool.false_and, Bool.not_false, Bool.and_true]
        split
        · rfl
        · split
          · simp [hasEntryP_cons, ht]
          · simp [hasEntryP_cons, ht]
    · simp only [hk, if_false, hasEntryP_cons]
      by_cases ht : k = t'
      · subst ht
        have hb : (k == t) = false := by simp [hk]
        simp [hb]
      · simp [ht, ih hn.2]

theorem nodup_removeAll (id : Nat) : ∀ (tf : List (Nat × Nat)) (ps : Postings), (ps.map (·.1)).Nodup →
    ((removeAll ps id tf).map (·.1)).Nodup
  | [], ps, h => by simpa [removeAll] using h
  | (t, f) :: tf, ps, h => by
    unfold removeAll
    exact nodup_removeAll id tf _ (h.sublist (keys_removeFrom_sub ps t id))

theorem hasEntryP_removeAll (id : Nat) : ∀ (tf : List (Nat × Nat)) (ps : Postings) (t' i : Nat),
    (ps.map (·.1)).Nodup →
    hasEntryP (removeAll ps id tf) t' i = (hasEntryP ps t' i && !(id == i && (tf.map (·.1)).contains t'))
  | [], ps, t', i, _ => by simp [removeAll]
  | (t, f) :: tf, ps, t', i, h => by
    unfold removeAll
    rw [hasEntryP_removeAll id tf _ t' i (h.sublist (keys_removeFrom_sub ps t id)), hasEntryP_removeFrom ps t id t' i h]
    simp only [List.map_cons, List.contains_cons]
    cases hasEntryP ps t' i <;> cases h1 : (t' == t) <;> cases h2 : (id == i) <;> simp [h1, h2]

/-! ### purge / prune -/

theorem keepPruned_some {p q : Nat × Entries} {f : Nat × Nat → Bool}
    (h : keepPruned p (p.2.filter f) = some q) : q.1 = p.1 ∧ q.2 = p.2.filter f := by
  unfold keepPruned at h
  split at h
  · rename_i hl
    cases h
    exact ⟨rfl, (filter_length_eq hl).symm⟩
  · split at h
    · cases h
    · cases h; exact ⟨rfl, rfl⟩

theorem keepPruned_none {p : Nat × Entries} {f : Nat × Nat → Bool}
    (h : keepPruned p (p.2.filter f) = none) : p.2.filter f = [] := by
  unfold keepPruned at h
  split at h
  · cases h
  · split at h
    · rename_i he; simpa using he
    · cases h

theorem keys_pruned_sub (ps : Postings) (f : Nat × Nat → Bool) :
    ((ps.filterMap (fun p => keepPruned p (p.2.filter f))).map (·.1)).Sublist (ps.map (·.1)) := by
  induction ps with
  | nil => simp
  | cons p ps ih =>
    simp only [List.filterMap_cons]
    cases h : keepPruned p (p.2.filter f) with
    | none => simpa using ih.cons _
    | some q =>
      have := (keepPruned_some h).1
      simp only [List.map_cons, this]
      exact ih.cons₂ _

theorem any_filter_fst (es : Entries) (f : Nat × Nat → Bool) (g : Nat → Bool) (hf : ∀ e, f e = g e.1) (i : Nat) :
    (es.filter f).any (fun e => e.1 == i) = (es.any (fun e => e.1 == i) && g i) := by
  induction es with
  | nil => simp
  | cons e es ih =>
    by_cases he : e.1 = i
    · subst he
      cases hg : g e.1 with
      | true => simp [List.filter_cons, hf, hg]
      | false => simp [List.filter_cons, hf, hg, ih]
    · have hb : (e.1 == i) = false := by simp [he]
      cases hfe : f e with
      | true => simp [List.filter_cons, hfe, hb, ih]
      | false => simp [List.filter_cons, hfe, hb, ih]

theorem hasEntryP_pruned (ps : Postings) (f : Nat × Nat → Bool) (g : Nat → Bool) (hf : ∀ e, f e = g e.1)
    (t i : Nat) (hn : (ps.map (·.1)).Nodup) :
    hasEntryP (ps.filterMap (fun p => keepPruned p (p.2.filter f))) t i = (hasEntryP ps t i && g i) := by
  induction ps with
  | nil => simp [hasEntryP_nil]
  | cons p ps ih =>
    obtain ⟨k, es⟩ := p
    simp only [List.map_cons, List.nodup_cons] at hn
    simp only [List.filterMap_cons]
    cases h : keepPruned (k, es) (es.filter f) with
    | none =>
      have he := keepPruned_none h
      simp only [] at he
      simp only [hasEntryP_cons]
      by_cases hk : k = t
      · subst hk
        have h1 : hasEntryP (ps.filterMap (fun p => keepPruned p (p.2.filter f))) k i = false :=
          hasEntryP_of_not_key (fun hm => hn.1 ((keys_pruned_sub ps f).subset hm))
        have h2 := any_filter_fst es f g hf i
        rw [he] at h2
        simp only [if_true, h1]
        simpa using h2
      · simp [hk, ih hn.2]
    | some q =>
      have hq := keepPruned_some h
      obtain ⟨qk, qes⟩ := q
      simp only [] at hq
      obtain ⟨rfl, rfl⟩ := hq
      simp only [hasEntryP_cons]
      by_cases hk : qk = t
      · simp [hk, any_filter_fst es f g hf i]
      · simp [hk, ih hn.2]

/-! ### liveness -/

theorem hasKey_nil {α : Type} (i : Nat) : hasKey ([] : List (Nat × α)) i = false := rfl

theorem hasKey_cons {α : Type} (k : Nat) (v : α) (m : List (Nat × α)) (i : Nat) :
    hasKey ((k, v) :: m) i = (k == i || hasKey m i) := by
  unfold hasKey; rw [get?_cons]; by_cases h : k = i <;> simp [h]

theorem hasKey_append_single {α : Type} (m : List (Nat × α)) (id : Nat) (v : α) (i : Nat) :
    hasKey (m ++ [(id, v)]) i = (hasKey m i || id == i) := by
  induction m with
  | nil => simp [hasKey_cons, hasKey_nil]
  | cons p m ih => obtain ⟨k, w⟩ := p; simp [hasKey_cons, ih, Bool.or_assoc]

theorem hasKey_filter_key {α : Type} (m : List (Nat × α)) (g : Nat → Bool) (i : Nat) :
    hasKey (m.filter (fun p => g p.1)) i = (hasKey m i && g i) := by
  induction m with
  | nil => simp [hasKey_nil]
  | cons p m ih =>
    obtain ⟨k, w⟩ := p
    by_cases hk : k = i
    · subst hk
      cases hg : g k with
      | true => simp [List.filter_cons, hg, hasKey_cons]
      | false => simp [List.filter_cons, hg, hasKey_cons, ih]
    · have hb : (k == i) = false := by simp [hk]
      cases hg : g k with
      | true => simp [List.filter_cons, hg, hasKey_cons, hb, ih]
      | false => simp [List.filter_cons, hg, hasKey_cons, hb, ih]

theorem hasKey_eraseKey {α : Type} (m : List (Nat × α)) (id i : Nat) :
    hasKey (eraseKey m id) i = (hasKey m i && !(id == i)) := by
  unfold eraseKey
  rw [hasKey_filter_key m (fun k => k != id) i]
  by_cases h : i = id
  · subst h; simp
  · have h1 : (id == i) = false := by simp [Ne.symm h]
    simp [h, h1]

/-! ### the ghost state of a history -/

theorem gstep_insert_fail (g : Ghost) (id : Nat) (tf : List (Nat × Nat))
    (h : tf.isEmpty = true ∨ (g.cur id).isSome = true) : gstep g (.insert id tf) = g := by
  unfold gstep; rcases h with h | h <;> simp [h]

theorem gstep_insert_ok (g : Ghost) (id : Nat) (tf : List (Nat × Nat)) (he : tf.isEmpty = false)
    (hc : g.cur id = none) : gstep g (.insert id tf) =
      { cur := fun i => if id = i then some (tf.map (·.1)) else g.cur i
        stale := fun i t => if id = i then g.stale i t && !(tf.map (·.1)).contains t else g.stale i t } := by
  unfold gstep; simp [he, hc]

structure Rep (s : Index) (g : Ghost) : Prop where
  live : ∀ i, s.live i = (g.cur i).isSome
  entry : ∀ t i, hasEntryP s.postings t i = (g.has i t || g.stale i t)
  keys : (s.postings.map (·.1)).Nodup

theorem Rep.init : Rep Index.empty Ghost.init :=
  ⟨fun _ => rfl, fun _ _ => rfl, by simp [Index.empty]⟩

theorem Rep.step {s : Index} {g : Ghost} (h : Rep s g) (op : Op) : Rep (step s op) (gstep g op) := by
  cases op with
  | insert id tf =>
    show Rep (match Bm25.insert s id tf with | .ok s' => s' | .error _ => s) (gstep g (.insert id tf))
    unfold Bm25.insert
    by_cases he : tf.isEmpty = true
    · rw [gstep_insert_fail g id tf (Or.inl he)]
      simp only [he, if_true]; exact h
    · by_cases hl : s.live id = true
      · have : (g.cur id).isSome = true := by rw [← h.live id]; exact hl
        rw [gstep_insert_fail g id tf (Or.inr this)]
        simp only [he, hl, if_true]
        exact h
      · have hc : (g.cur id).isSome = false := by rw [← h.live id]; simpa using hl
        have hcn : g.cur id = none := by simpa using hc
        rw [gstep_insert_ok g id tf (by simpa using he) hcn]
        simp only [he, hl]
        refine ⟨fun i => ?_, fun t i => ?_, nodup_addAll id tf _ h.keys⟩
        · show hasKey (s.docTokens ++ [(id, sumSnd tf)]) i = _
          rw [hasKey_append_single]
          by_cases hi : id = i
          · subst hi; simp
          · have hb : (id == i) = false := by simp [hi]
            have := h.live i
            unfold Index.live at this
            simp [hi, hb, this]
        · show hasEntryP (addAll s.postings id tf) t i = _
          rw [hasEntryP_addAll, h.entry t i]
          by_cases hi : id = i
          · subst hi
            have hh : g.has id t = false := by unfold Ghost.has; rw [hcn]
            rw [hh]
            simp only [Ghost.has, if_true, beq_self_eq_true, Bool.true_and, Bool.false_or]
            cases g.stale id t <;> cases (tf.map (·.1)).contains t <;> rfl
          · have hb : (id == i) = false := by simp [hi]
            simp [Ghost.has, hi, hb]
  | remove id tf =>
    show Rep (Bm25.remove s id tf).1 (gstep g (.remove id tf))
    have hent : ∀ t i, hasEntryP (removeAll s.postings id tf) t i
        = ((gstep g (.remove id tf)).has i t || (gstep g (.remove id tf)).stale i t) := by
      intro t i
      rw [hasEntryP_removeAll id tf _ t i h.keys, h.entry t i]
      unfold gstep Ghost.has
      by_cases hi : id = i
      · subst hi
        simp only [if_true, beq_self_eq_true, Bool.true_and, Bool.false_or]
        generalize (match g.cur id with | some T => T.contains t | none => false) = x
        cases x <;> cases g.stale id t <;> cases (tf.map (·.1)).contains t <;> simp
      · have hb : (id == i) = false := by simp [hi]
        simp [hi, hb]
    unfold Bm25.remove
    cases hg : get? s.docTokens id with
    | some n =>
      simp only []
      refine ⟨fun i => ?_, hent, nodup_removeAll id tf _ h.keys⟩
      show hasKey (eraseKey s.docTokens id) i = _
      rw [hasKey_eraseKey]
      have := h.live i
      unfold Index.live at this
      unfold gstep
      by_cases hi : id = i
      · subst hi; simp
      · have hb : (id == i) = false := by simp [hi]
        simp [hi, hb, this]
    | none =>
      simp only []
      refine ⟨fun i => ?_, hent, nodup_removeAll id tf _ h.keys⟩
      show s.live i = _
      unfold gstep
      by_cases hi : id = i
      · subst hi
        have : s.live id = false := by unfold Index.live hasKey; rw [hg]; rfl
        simp [this]
      · simp [hi, h.live i]
  | purge ids =>
    show Rep (purgeIds s ids).1 (gstep g (.purge ids))
    unfold purgeIds
    by_cases he : ids.isEmpty = true
    · have : ids = [] := by simpa using he
      subst this
      simp only [List.isEmpty_nil, if_true]
      exact ⟨fun i => by simp [gstep, h.live i], fun t i => by simp [gstep, Ghost.has, h.entry t i], h.keys⟩
    · simp only [he]
      refine ⟨fun i => ?_, fun t i => ?_, h.keys.sublist (keys_pruned_sub _ _)⟩
      · show hasKey (s.docTokens.filter (fun p => !ids.contains p.1)) i = _
        rw [hasKey_filter_key s.docTokens (fun k => !ids.contains k) i]
        have := h.live i
        unfold Index.live at this
        unfold gstep
        by_cases hm : i ∈ ids
        · simp [hm]
        · simp [hm, this]
      · show hasEntryP (s.postings.filterMap (purgePosting ids)) t i = _
        have := hasEntryP_pruned s.postings (fun e => !ids.contains e.1) (fun k => !ids.contains k) (fun _ => rfl) t i h.keys
        unfold purgePosting
        rw [this, h.entry t i]
        unfold gstep Ghost.has
        by_cases hm : i ∈ ids
        · simp [hm]
        · simp [hm]

theorem Rep.run {s : Index} {g : Ghost} (h : Rep s g) (ops : List Op) : Rep (run s ops) (grun g ops) := by
  induction ops generalizing s g with
  | nil => exact h
  | cons op ops ih => exact ih (h.step op)

theorem gstep_remove_stale (g : Ghost) (id : Nat) (tf : List (Nat × Nat)) (i t : Nat) :
    (gstep g (.remove id tf)).stale i t
      = if id = i then (g.stale i t || g.has i t) && !(tf.map (·.1)).contains t else g.stale i t := rfl

theorem gstep_purge_stale (g : Ghost) (ids : List Nat) (i t : Nat) :
    (gstep g (.purge ids)).stale i t = if ids.contains i then false else g.stale i t := rfl

theorem no_stale_of_cover : ∀ (ops : List Op) (g : Ghost), removesCover g ops →
    (∀ i t, g.stale i t = false) → ∀ i t, (grun g ops).stale i t = false
  | [], g, _, h0 => h0
  | .insert id tf :: ops, g, hc, h0 => by
    refine no_stale_of_cover ops _ hc (fun i t => ?_)
    by_cases hf : tf.isEmpty = true ∨ (g.cur id).isSome = true
    · rw [gstep_insert_fail g id tf hf]; exact h0 i t
    · have he : tf.isEmpty = false := by
        cases h : tf.isEmpty with
        | true => exact absurd (Or.inl h) hf
        | false => rfl
      have hn : g.cur id = none := by
        cases h : g.cur id with
        | none => rfl
        | some T => exact absurd (Or.inr (by rw [h]; rfl)) hf
      rw [gstep_insert_ok g id tf he hn]
      by_cases hi : id = i <;> simp [hi, h0]
  | .remove id tf :: ops, g, hc, h0 => by
    refine no_stale_of_cover ops _ hc.2 (fun i t => ?_)
    rw [gstep_remove_stale]
    by_cases hi : id = i
    · subst hi
      simp only [if_true, h0, Bool.false_or]
      unfold Ghost.has
      cases hT : g.cur id with
      | none => simp
      | some T =>
        by_cases ht : t ∈ T
        · have hcov := hc.1
          unfold removeCovers at hcov
          rw [hT] at hcov
          have := (List.all_eq_true.1 hcov) t ht
          simp only [List.contains_iff_mem] at this
          simp [this]
        · simp [ht]
    · simp [hi, h0]
  | .purge ids :: ops, g, hc, h0 => by
    refine no_stale_of_cover ops _ hc (fun i t => ?_)
    rw [gstep_purge_stale]
    by_cases hm : ids.contains i = true <;> simp [hm, h0]

end Bm25
end AndaVerif
