import AndaVerif.Proofs.CollNoop
/-
What the invariant means for an observer: the plain-terms agreement `Agrees`, query exactness,
counts, uniqueness among live documents, where a rejection comes from, and that a rejected
operation is invisible.
-/
namespace AndaVerif.Collection

/-- index ⟷ document agreement in plain terms (both directions: no hole, no phantom) -/
structure Agrees (s : State) : Prop where
  bt : ∀ x ∈ s.ix.bt, ∀ k i, (k, i) ∈ x.2 ↔ ∃ d, lookupD s.docs i = some d ∧ k ∈ (valueOf x.1 d).keys
  tx : ∀ t ∈ s.ix.tx, ∀ w i, (w, i) ∈ t.post ↔ ∃ d ws, lookupD s.docs i = some d ∧ textOf t.fields d = some ws ∧ w ∈ ws
  txDocs : ∀ t ∈ s.ix.tx, ∀ i, i ∈ t.docs ↔ ∃ d ws, lookupD s.docs i = some d ∧ textOf t.fields d = some ws ∧ ws ≠ []
  hn : ∀ h ∈ s.ix.hn, ∀ i, i ∈ h.ids ↔ ∃ d n, lookupD s.docs i = some d ∧ vecOf h.field d = some n
  ids : ∀ i, i ∈ s.ids ↔ ∃ d, lookupD s.docs i = some d

theorem ivalOf_keys (df : BtDef) (od : Option (List (Nat × FVal))) (k : Key) :
    k ∈ (ivalOf df od).keys ↔ ∃ d, od = some d ∧ k ∈ (valueOf df d).keys := by
  cases od with
  | none => simp [ivalOf, IVal.keys]
  | some d => simp [ivalOf]

theorem toks_mem (fields : List Nat) (od : Option (List (Nat × FVal))) (w : Nat) :
    w ∈ toks (oTextOf fields od) ↔ ∃ d ws, od = some d ∧ textOf fields d = some ws ∧ w ∈ ws := by
  cases od with
  | none => simp [toks, oTextOf]
  | some d =>
    cases h : textOf fields d with
    | none => simp [toks, oTextOf, h]
    | some ws => simp [toks, oTextOf, h]

theorem toks_ne (fields : List Nat) (od : Option (List (Nat × FVal))) :
    toks (oTextOf fields od) ≠ [] ↔ ∃ d ws, od = some d ∧ textOf fields d = some ws ∧ ws ≠ [] := by
  cases od with
  | none => simp [toks, oTextOf]
  | some d =>
    cases h : textOf fields d with
    | none => simp [toks, oTextOf, h]
    | some ws => simp [toks, oTextOf, h]

theorem oVecOf_some (field : Nat) (od : Option (List (Nat × FVal))) :
    (oVecOf field od).isSome = true ↔ ∃ d n, od = some d ∧ vecOf field d = some n := by
  cases od with
  | none => simp [oVecOf]
  | some d =>
    cases h : vecOf field d with
    | none => simp [oVecOf, h]
    | some n => simp [oVecOf, h]

theorem inv_agrees (s : State) (hi : Inv s) : Agrees s where
  bt := fun x hx k i => by rw [(hi.bt x hx).1 k i, ivalOf_keys]
  tx := fun t ht w i => by rw [(hi.tx t ht).2.1 w i, toks_mem]
  txDocs := fun t ht i => by rw [(hi.tx t ht).1 i, toks_ne]
  hn := fun h hh i => by rw [(hi.hn h hh).1 i, oVecOf_some]
  ids := fun i => by
    rw [hi.ids_docs i]
    cases lookupD s.docs i <;> simp

theorem mem_btQuery (r : List (Key × Nat)) (q : Key → Bool) (i : Nat) :
    i ∈ btQuery r q ↔ ∃ k, (k, i) ∈ r ∧ q k = true := by
  simp only [btQuery, List.mem_map, List.mem_filter]
  constructor
  · rintro ⟨⟨k, j⟩, ⟨hm, hq⟩, rfl⟩
    exact ⟨k, hm, hq⟩
  · rintro ⟨k, hm, hq⟩
    exact ⟨(k, i), ⟨hm, hq⟩, rfl⟩

theorem mem_txQuery (t : Tx) (w i : Nat) : i ∈ txQuery t w ↔ (w, i) ∈ t.post := by
  simp only [txQuery, List.mem_map, List.mem_filter, beq_iff_eq]
  constructor
  · rintro ⟨⟨w', j⟩, ⟨hm, hq⟩, rfl⟩
    simp only at hq
    subst hq
    exact hm
  · intro hm
    exact ⟨(w, i), ⟨hm, rfl⟩, rfl⟩

theorem same_length_of_nodup {l₁ l₂ : List Nat} (h1 : l₁.Nodup) (h2 : l₂.Nodup) (h : ∀ a, a ∈ l₁ ↔ a ∈ l₂) :
    l₁.length = l₂.length :=
  ((List.perm_ext_iff_of_nodup h1 h2).2 h).length_eq

/-- no two live documents share a key of a unique index -/
theorem live_docs_unique (s : State) (hi : Inv s) (x : BtDef × List (Key × Nat)) (hx : x ∈ s.ix.bt)
    (hu : x.1.unique = true) (k : Key) (i j : Nat) (di dj : List (Nat × FVal))
    (h1 : lookupD s.docs i = some di) (h2 : lookupD s.docs j = some dj)
    (k1 : k ∈ (valueOf x.1 di).keys) (k2 : k ∈ (valueOf x.1 dj).keys) : i = j := by
  have hg := hi.bt x hx
  exact hg.2 hu k i j ((hg.1 k i).2 (by rw [h1]; exact k1)) ((hg.1 k j).2 (by rw [h2]; exact k2))

/-- A uniqueness rejection of `add` always names a key that a *live* document holds. -/
theorem add_exists_has_live_holder (s : State) (hi : Inv s) (d : List (Nat × FVal)) (h : (add s d).2 = .err .exists) :
    ∃ x ∈ s.ix.bt, x.1.unique = true ∧ ∃ k ∈ (valueOf x.1 d).keys, ∃ j dj,
      lookupD s.docs j = some dj ∧ k ∈ (valueOf x.1 dj).keys := by
  have hf := fresh_id s hi
  rcases add_cases s d hi.healthy hf with ⟨_, ha⟩ | ⟨_, ix', e, ok, hph, ha⟩ | ⟨_, ix', ok, _, ha⟩
  · rw [ha] at h; cases h
  · rw [ha] at h
    simp only [Out.err.injEq] at h
    subst h
    obtain ⟨_, hs⟩ := addPhases_spec s d hi ix' (some .exists) ok hph
    obtain ⟨_, _, _, _, src⟩ := hs .exists rfl
    rcases src with ⟨x, hx, he⟩ | ⟨t, ht, he⟩ | ⟨hh, hhm, he⟩
    · obtain ⟨_, hu, k, hk, j, hj, _⟩ := addBtF_err _ d x _ he
      obtain ⟨dj, h1, h2⟩ := ((inv_agrees s hi).bt x hx k j).1 hj
      exact ⟨x, hx, hu, k, hk, j, dj, h1, h2⟩
    · rw [addTxF_noerr (lookupD s.docs) _ d hf t (hi.tx t ht)] at he
      cases he
    · have := (addHnF_err (lookupD s.docs) _ d hf hh (hi.hn hh hhm) _ he).1
      cases this
  · rw [ha] at h; cases h

/-- `add` of a valid document is accepted whenever no live document holds one of its keys in a
unique index and its vector has the dimension of every vector index. -/
theorem add_accepted_when_free (s : State) (hi : Inv s) (d : List (Nat × FVal)) (hv : validate s.schema d = true)
    (hfree : ∀ x ∈ s.ix.bt, x.1.unique = true → ∀ k ∈ (valueOf x.1 d).keys, ∀ j dj,
      lookupD s.docs j = some dj → k ∉ (valueOf x.1 dj).keys)
    (hdim : ∀ h ∈ s.ix.hn, ∀ n, vecOf h.field d = some n → n = h.dim) :
    (add s d).2 = .id (s.maxId + 1) := by
  have hf := fresh_id s hi
  rcases add_cases s d hi.healthy hf with ⟨hv', _⟩ | ⟨_, ix', e, ok, hph, ha⟩ | ⟨_, ix', ok, _, ha⟩
  · rw [hv] at hv'; cases hv'
  · exfalso
    obtain ⟨_, hs⟩ := addPhases_spec s d hi ix' (some e) ok hph
    obtain ⟨_, _, _, _, src⟩ := hs e rfl
    rcases src with ⟨x, hx, he⟩ | ⟨t, ht, he⟩ | ⟨hh, hhm, he⟩
    · obtain ⟨_, hu, k, hk, j, hj, _⟩ := addBtF_err _ d x _ he
      obtain ⟨dj, h1, h2⟩ := ((inv_agrees s hi).bt x hx k j).1 hj
      exact hfree x hx hu k hk j dj h1 h2
    · rw [addTxF_noerr (lookupD s.docs) _ d hf t (hi.tx t ht)] at he
      cases he
    · obtain ⟨_, n, h1, h2⟩ := addHnF_err (lookupD s.docs) _ d hf hh (hi.hn hh hhm) _ he
      exact h2 (hdim hh hhm n h1)
  · rw [ha]

/-- the observable content of two states is the same: same documents, same ids, same registry,
and index by index the same postings (as sets) -/
structure ObsEq (s s' : State) : Prop where
  frame : Frame s s'
  bt : ∀ x ∈ s.ix.bt, ∀ x' ∈ s'.ix.bt, x'.1 = x.1 → ∀ p, p ∈ x'.2 ↔ p ∈ x.2
  tx : ∀ t ∈ s.ix.tx, ∀ t' ∈ s'.ix.tx, t'.fields = t.fields → (∀ p, p ∈ t'.post ↔ p ∈ t.post) ∧ (∀ i, i ∈ t'.docs ↔ i ∈ t.docs)
  hn : ∀ h ∈ s.ix.hn, ∀ h' ∈ s'.ix.hn, h'.field = h.field → ∀ i, i ∈ h'.ids ↔ i ∈ h.ids

theorem obsEq_of_inv (s s' : State) (hi : Inv s) (hi' : Inv s') (hf : Frame s s') : ObsEq s s' where
  frame := hf
  bt := by
    intro x hx x' hx' hdef p
    obtain ⟨k, i⟩ := p
    rw [(hi'.bt x' hx').1 k i, (hi.bt x hx).1 k i, hdef, hf.2.1]
  tx := by
    intro t ht t' ht' hdef
    refine ⟨fun p => ?_, fun i => ?_⟩
    · obtain ⟨w, i⟩ := p
      rw [(hi'.tx t' ht').2.1 w i, (hi.tx t ht).2.1 w i, hdef, hf.2.1]
    · rw [(hi'.tx t' ht').1 i, (hi.tx t ht).1 i, hdef, hf.2.1]
  hn := by
    intro h hh h' hh' hdef i
    rw [(hi'.hn h' hh').1 i, (hi.hn h hh).1 i, hdef, hf.2.1]

end AndaVerif.Collection

namespace AndaVerif.Collection

theorem step_schema (s : State) (op : Op) : (step s op).1.schema = s.schema := by
  cases op with
  | add d =>
    simp only [step, add]
    repeat' split
    all_goals rfl
  | update id fs =>
    simp only [step, update]
    repeat' split
    all_goals rfl
  | remove id =>
    simp only [step, remove]
    repeat' split
    all_goals rfl
  | createBt name fields =>
    simp only [step]
    rcases createBt_res s name fields with ⟨e', he⟩ | ⟨s', hs⟩
    · rw [he]
    · unfold createBt
      repeat' split
      all_goals first | rfl | skip
      all_goals
        dsimp only
        split <;> rfl
  | createTx fields =>
    simp only [step, createTx]
    repeat' split
    all_goals rfl
  | createHn field dim =>
    simp only [step, createHn]
    repeat' split
    all_goals rfl
  | removeBt name => simp only [step]; split <;> rfl
  | removeTx fields => simp only [step]; split <;> rfl
  | removeHn field => simp only [step]; split <;> rfl
  | flush => simp only [step, flush]; repeat' split
             all_goals rfl
  | reopen => simp only [step, flush]; repeat' split
              all_goals rfl

/-- what `create_btree_index` registers -/
theorem createBt_new_index (s : State) (name : Nat) (fields : List Nat) (x : BtDef × List (Key × Nat))
    (hx : x ∈ (createBt s name fields).1.ix.bt) :
    x ∈ s.ix.bt ∨ (x.1.name = name ∧ x.1.fields = fields ∧
      x.1.unique = (if fields.length == 1 then fields.all (fieldUnique s.schema) else true)) := by
  unfold createBt at hx
  split at hx
  · exact Or.inl hx
  split at hx
  · exact Or.inl hx
  split at hx
  · exact Or.inl hx
  split at hx
  · exact Or.inl hx
  split at hx
  · exact Or.inl hx
  dsimp only at hx
  split at hx
  · exact Or.inl hx
  · rcases (mem_register _ _ _ _).1 hx with rfl | hx
    · exact Or.inr ⟨rfl, rfl, rfl⟩
    · exact Or.inl hx

theorem run_schema (s : State) (ops : List Op) : (run s ops).schema = s.schema := by
  induction ops generalizing s with
  | nil => rfl
  | cons op rest ih => simp only [run]; rw [ih, step_schema]

end AndaVerif.Collection
