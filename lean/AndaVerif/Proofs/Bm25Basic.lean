import AndaVerif.Model.Bm25
/-
Helper lemmas for C11: list-sets, association lists, the counters invariant, the comparator as a
lexicographic key order, insertion sort / top-k.
-/
namespace AndaVerif
namespace Bm25

/-! ### list-sets -/

theorem mem_dedup {x : Nat} : ∀ {l : List Nat}, x ∈ dedup l ↔ x ∈ l
  | [] => by simp [dedup]
  | y :: ys => by
    unfold dedup
    split
    · rename_i h
      have := @mem_dedup x ys
      simp only [List.contains_iff_mem] at h
      constructor
      · intro hx; exact List.mem_cons_of_mem _ (this.1 hx)
      · intro hx
        rcases List.mem_cons.1 hx with rfl | hx
        · exact this.2 h
        · exact this.2 hx
    · have := @mem_dedup x ys
      simp [this]

theorem nodup_dedup : ∀ (l : List Nat), (dedup l).Nodup
  | [] => by simp [dedup]
  | y :: ys => by
    unfold dedup
    split
    · exact nodup_dedup ys
    · rename_i h
      simp only [List.contains_iff_mem] at h
      exact List.nodup_cons.2 ⟨fun hm => h (mem_dedup.1 hm), nodup_dedup ys⟩

theorem mem_union {x : Nat} {a b : List Nat} : x ∈ union a b ↔ x ∈ a ∨ x ∈ b := by
  unfold union
  simp only [List.mem_append, List.mem_filter, List.contains_iff_mem, Bool.not_eq_eq_eq_not,
    Bool.not_true, decide_eq_false_iff_not]
  by_cases h : x ∈ a <;> simp [h]

theorem mem_inter {x : Nat} {a b : List Nat} : x ∈ inter a b ↔ x ∈ a ∧ x ∈ b := by
  unfold inter; simp [List.mem_filter]

theorem mem_diff {x : Nat} {a b : List Nat} : x ∈ diff a b ↔ x ∈ a ∧ x ∉ b := by
  unfold diff; simp [List.mem_filter]

theorem nodup_union {a b : List Nat} (ha : a.Nodup) (hb : b.Nodup) : (union a b).Nodup := by
  unfold union
  refine List.nodup_append.2 ⟨ha, hb.filter _, ?_⟩
  intro x hx y hy hxy
  subst hxy
  simp [List.mem_filter] at hy
  exact hy.2 hx

theorem nodup_inter {a b : List Nat} (ha : a.Nodup) : (inter a b).Nodup := ha.filter _
theorem nodup_diff {a b : List Nat} (ha : a.Nodup) : (diff a b).Nodup := ha.filter _

/-! ### association lists -/

theorem get?_none_iff {α : Type} {m : List (Nat × α)} {x : Nat} : get? m x = none ↔ x ∉ m.map (·.1) := by
  induction m with
  | nil => simp [get?]
  | cons p m ih =>
    obtain ⟨k, v⟩ := p
    unfold get?
    by_cases h : k = x
    · simp [h]
    · simp only [h, if_false, ih, List.map_cons, List.mem_cons]
      constructor
      · intro h1 h2; rcases h2 with h2 | h2
        · exact h h2.symm
        · exact h1 h2
      · intro h1 h2; exact h1 (Or.inr h2)

theorem hasKey_iff {α : Type} {m : List (Nat × α)} {x : Nat} : hasKey m x = true ↔ x ∈ m.map (·.1) := by
  unfold hasKey
  cases h : get? m x with
  | none => simp [get?_none_iff.1 h]
  | some v =>
    simp only [Option.isSome_some, true_iff]
    apply Classical.byContradiction
    intro hn
    rw [get?_none_iff.2 hn] at h
    cases h

theorem get?_mem {α : Type} {m : List (Nat × α)} {x : Nat} {v : α} (h : get? m x = some v) : (x, v) ∈ m := by
  induction m with
  | nil => simp [get?] at h
  | cons p m ih =>
    obtain ⟨k, w⟩ := p
    unfold get? at h
    by_cases hk : k = x
    · simp [hk] at h; subst hk; subst h; simp
    · simp [hk] at h; exact List.mem_cons_of_mem _ (ih h)

theorem get?_of_mem_nodup {α : Type} {m : List (Nat × α)} {x : Nat} {v : α}
    (hn : (m.map (·.1)).Nodup) (h : (x, v) ∈ m) : get? m x = some v := by
  induction m with
  | nil => cases h
  | cons p m ih =>
    obtain ⟨k, w⟩ := p
    simp only [List.map_cons, List.nodup_cons] at hn
    unfold get?
    rcases List.mem_cons.1 h with h | h
    · cases h; simp
    · have : k ≠ x := by
        intro hk; subst hk
        exact hn.1 (List.mem_map.2 ⟨(k, v), h, rfl⟩)
      simp [this, ih hn.2 h]

/-! ### counters -/

theorem sumSnd_append (a b : List (Nat × Nat)) : sumSnd (a ++ b) = sumSnd a + sumSnd b := by
  induction a with
  | nil => simp [sumSnd]
  | cons p a ih => simp [sumSnd, ih]; omega

theorem sumSnd_filter_split (m : List (Nat × Nat)) (p : Nat × Nat → Bool) :
    sumSnd m = sumSnd (m.filter p) + sumSnd (m.filter (fun x => !p x)) := by
  induction m with
  | nil => simp [sumSnd]
  | cons x m ih =>
    by_cases h : p x = true
    · simp [List.filter_cons, h, sumSnd]; omega
    · simp only [Bool.not_eq_true] at h
      simp [List.filter_cons, h, sumSnd]; omega

theorem sumSnd_eraseKey {m : List (Nat × Nat)} {x n : Nat} (hn : (m.map (·.1)).Nodup)
    (h : get? m x = some n) : sumSnd m = n + sumSnd (eraseKey m x) := by
  induction m with
  | nil => simp [get?] at h
  | cons p m ih =>
    obtain ⟨k, w⟩ := p
    simp only [List.map_cons, List.nodup_cons] at hn
    unfold get? at h
    by_cases hk : k = x
    · subst hk
      simp at h; subst h
      have hno : m.filter (fun p => p.1 != k) = m := by
        apply List.filter_eq_self.2
        intro a ha
        have : a.1 ≠ k := fun e => hn.1 (List.mem_map.2 ⟨a, ha, e⟩)
        simpa using this
      have e : eraseKey ((k, w) :: m) k = m := by simp [eraseKey, List.filter_cons, hno]
      rw [e]; simp [sumSnd]
    · simp [hk] at h
      have := ih hn.2 h
      have e : eraseKey ((k, w) :: m) x = (k, w) :: eraseKey m x := by
        simp [eraseKey, List.filter_cons, hk]
      rw [e]; simp only [sumSnd]; omega

/-- the counters every score is derived from agree with the per-document lengths -/
structure Counters (s : Index) : Prop where
  nodup : (s.docTokens.map (·.1)).Nodup
  total : s.totalTokens = sumSnd s.docTokens

theorem Counters.empty : Counters Index.empty := ⟨by simp [Index.empty], by simp [Index.empty, sumSnd]⟩

theorem Counters.insert {s s' : Index} {id : Nat} {tf : List (Nat × Nat)} (h : Counters s)
    (hi : insert s id tf = .ok s') : Counters s' := by
  unfold Bm25.insert at hi
  split at hi
  · cases hi
  · split at hi
    · cases hi
    · rename_i hlive
      simp only [Except.ok.injEq] at hi
      subst hi
      constructor
      · simp only [List.map_append, List.map_cons, List.map_nil]
        refine List.nodup_append.2 ⟨h.nodup, by simp, ?_⟩
        intro a ha b hb hab
        simp at hb; subst hb; subst hab
        exact hlive (by simpa [Index.live] using hasKey_iff.2 ha)
      · simp [sumSnd_append, sumSnd, h.total]

theorem Counters.remove {s : Index} (id : Nat) (tf : List (Nat × Nat)) (h : Counters s) :
    Counters (remove s id tf).1 := by
  unfold Bm25.remove
  split
  · rename_i n hn
    constructor
    · simp only [eraseKey]
      exact (h.nodup.sublist (List.Sublist.map _ List.filter_sublist))
    · have := sumSnd_eraseKey h.nodup hn
      simp [h.total]; omega
  · exact ⟨h.nodup, h.total⟩

theorem Counters.purge {s : Index} (ids : List Nat) (h : Counters s) : Counters (purgeIds s ids).1 := by
  unfold purgeIds
  split
  · exact h
  · constructor
    · exact (h.nodup.sublist (List.Sublist.map _ List.filter_sublist))
    · have e : sumSnd s.docTokens = sumSnd (s.docTokens.filter (fun p => ids.contains p.1))
          + sumSnd (s.docTokens.filter (fun p => !ids.contains p.1)) := sumSnd_filter_split _ _
      show s.totalTokens - sumSnd (s.docTokens.filter (fun p => ids.contains p.1))
        = sumSnd (s.docTokens.filter (fun p => !ids.contains p.1))
      rw [h.total]; omega

theorem Counters.step {s : Index} (op : Op) (h : Counters s) : Counters (step s op) := by
  cases op with
  | insert id tf =>
    show Counters (match Bm25.insert s id tf with | .ok s' => s' | .error _ => s)
    cases hi : Bm25.insert s id tf with
    | ok s' => exact h.insert hi
    | error e => exact h
  | remove id tf => exact h.remove id tf
  | purge ids => exact h.purge ids

theorem Counters.run {s : Index} (ops : List Op) (h : Counters s) : Counters (run s ops) := by
  induction ops generalizing s with
  | nil => exact h
  | cons op ops ih => exact ih (h.step op)

/-! ### the comparator is a lexicographic order on a key -/

/-- NaN flag, negated `total_cmp` key (descending score; 0 for NaN), document id -/
def rankKey (a : Scored) : Nat × Int × Nat :=
  if isNaN a.2 then (1, 0, a.1) else (0, - totalKey a.2, a.1)

def lex3 (x y : Nat × Int × Nat) : Prop :=
  x.1 < y.1 ∨ (x.1 = y.1 ∧ (x.2.1 < y.2.1 ∨ (x.2.1 = y.2.1 ∧ x.2.2 < y.2.2)))

theorem compare_int_lt {a b : Int} : compare a b = .lt ↔ a < b := by
  show compareOfLessAndEq a b = .lt ↔ a < b
  unfold compareOfLessAndEq
  by_cases h : a < b
  · simp [h]
  · by_cases h2 : a = b <;> simp [h, h2]

theorem compare_int_eq {a b : Int} : compare a b = .eq ↔ a = b := by
  show compareOfLessAndEq a b = .eq ↔ a = b
  unfold compareOfLessAndEq
  by_cases h : a < b
  · simp [h]; omega
  · by_cases h2 : a = b <;> simp [h, h2]

theorem compare_nat_lt {a b : Nat} : compare a b = .lt ↔ a < b := Nat.compare_eq_lt

/-- the comparator the regenerated arm table denotes -/
theorem cmpScored_eq (a b : Scored) : cmpScored a b =
    (match isNaN a.2, isNaN b.2 with
     | true, true => compare a.1 b.1
     | true, false => .gt
     | false, true => .lt
     | false, false => (compare (totalKey b.2) (totalKey a.2)).then (compare a.1 b.1)) := by
  unfold cmpScored
  rw [Gen.Bm25Order.gen_cmpArms]
  cases isNaN a.2 <;> cases isNaN b.2 <;> rfl

theorem ltScored_iff (a b : Scored) : ltScored a b = true ↔ lex3 (rankKey a) (rankKey b) := by
  unfold ltScored
  rw [cmpScored_eq]
  unfold rankKey lex3
  cases ha : isNaN a.2 <;> cases hb : isNaN b.2 <;> simp [compare_nat_lt]
  · -- both ordinary
    cases hc : compare (totalKey b.2) (totalKey a.2) with
    | lt => have := compare_int_lt.1 hc; simp [Ordering.then]; omega
    | eq => have := compare_int_eq.1 hc; simp [Ordering.then, compare_nat_lt]; omega
    | gt =>
      have h1 : ¬ totalKey b.2 < totalKey a.2 := fun h => by rw [compare_int_lt.2 h] at hc; cases hc
      have h2 : ¬ totalKey b.2 = totalKey a.2 := fun h => by rw [compare_int_eq.2 h] at hc; cases hc
      simp [Ordering.then]; omega

theorem lex3_irrefl (x : Nat × Int × Nat) : ¬ lex3 x x := by unfold lex3; omega
theorem lex3_trans {x y z : Nat × Int × Nat} (h1 : lex3 x y) (h2 : lex3 y z) : lex3 x z := by
  unfold lex3 at *; omega
theorem lex3_total {x y : Nat × Int × Nat} (h : x.2.2 ≠ y.2.2) : lex3 x y ∨ lex3 y x := by
  unfold lex3; omega

theorem rankKey_id (a : Scored) : (rankKey a).2.2 = a.1 := by
  unfold rankKey; split <;> rfl

/-! ### insertion sort, top-k -/

theorem insertSorted_perm (x : Scored) (l : List Scored) : (insertSorted x l).Perm (x :: l) := by
  induction l with
  | nil => simp [insertSorted]
  | cons y ys ih =>
    unfold insertSorted
    split
    · exact (List.Perm.cons y ih).trans (List.Perm.swap x y ys)
    · exact List.Perm.refl _

theorem sortScored_perm (l : List Scored) : (sortScored l).Perm l := by
  induction l with
  | nil => simp [sortScored]
  | cons x xs ih =>
    unfold sortScored
    exact (insertSorted_perm x _).trans (List.Perm.cons x ih)

/-- "not after": `a` may stand before `b` -/
def leScored (a b : Scored) : Prop := ltScored b a = false

theorem leScored_trans {a b c : Scored} (h1 : leScored a b) (h2 : leScored b c) : leScored a c := by
  unfold leScored at *
  apply Classical.byContradiction
  intro h
  simp only [Bool.not_eq_false] at h
  rw [ltScored_iff] at h
  have n1 : ¬ lex3 (rankKey b) (rankKey a) := by rw [← ltScored_iff]; simp [h1]
  have n2 : ¬ lex3 (rankKey c) (rankKey b) := by rw [← ltScored_iff]; simp [h2]
  unfold lex3 at *; omega

theorem leScored_of_lt {a b : Scored} (h : ltScored a b = true) : leScored a b := by
  unfold leScored
  apply Classical.byContradiction
  intro hn
  simp only [Bool.not_eq_false] at hn
  rw [ltScored_iff] at h hn
  exact lex3_irrefl _ (lex3_trans h hn)

theorem insertSorted_sorted (x : Scored) (l : List Scored) (h : l.Pairwise leScored) :
    (insertSorted x l).Pairwise leScored := by
  induction l with
  | nil => simp [insertSorted]
  | cons y ys ih =>
    unfold insertSorted
    have hy := List.pairwise_cons.1 h
    split
    · rename_i hlt
      refine List.pairwise_cons.2 ⟨?_, ih hy.2⟩
      intro z hz
      rcases List.mem_cons.1 ((insertSorted_perm x ys).subset hz) with rfl | hz
      · exact leScored_of_lt hlt
      · exact hy.1 z hz
    · rename_i hlt
      simp only [Bool.not_eq_true] at hlt
      refine List.pairwise_cons.2 ⟨?_, h⟩
      intro z hz
      rcases List.mem_cons.1 hz with rfl | hz
      · exact hlt
      · exact leScored_trans hlt (hy.1 z hz)

theorem sortScored_sorted (l : List Scored) : (sortScored l).Pairwise leScored := by
  induction l with
  | nil => simp [sortScored]
  | cons x xs ih => unfold sortScored; exact insertSorted_sorted x _ ih

theorem sortScored_of_sorted : ∀ (l : List Scored), l.Pairwise leScored → sortScored l = l
  | [], _ => rfl
  | x :: xs, h => by
    have hx := List.pairwise_cons.1 h
    unfold sortScored
    rw [sortScored_of_sorted xs hx.2]
    cases xs with
    | nil => rfl
    | cons y ys =>
      unfold insertSorted
      have : ltScored y x = false := hx.1 y List.mem_cons_self
      simp [this]

theorem ltScored_asymm {a b : Scored} (h1 : ltScored a b = true) (h2 : ltScored b a = true) : False := by
  rw [ltScored_iff] at h1 h2
  exact lex3_irrefl _ (lex3_trans h1 h2)

/-- two strictly sorted arrangements of the same entries are the same list -/
theorem sorted_perm_eq : ∀ (l₁ l₂ : List Scored), l₁.Perm l₂ →
    l₁.Pairwise (fun a b => ltScored a b = true) → l₂.Pairwise (fun a b => ltScored a b = true) → l₁ = l₂
  | [], l₂, hp, _, _ => by simpa using hp.symm.eq_nil
  | x :: xs, [], hp, _, _ => by simpa using hp.eq_nil
  | x :: xs, y :: ys, hp, h1, h2 => by
    have hx := List.pairwise_cons.1 h1
    have hy := List.pairwise_cons.1 h2
    have hxy : x = y := by
      apply Classical.byContradiction
      intro hne
      have hxm : x ∈ y :: ys := hp.subset List.mem_cons_self
      have hym : y ∈ x :: xs := hp.symm.subset List.mem_cons_self
      have hx' : x ∈ ys := by
        rcases List.mem_cons.1 hxm with h | h
        · exact absurd h hne
        · exact h
      have hy' : y ∈ xs := by
        rcases List.mem_cons.1 hym with h | h
        · exact absurd h.symm hne
        · exact h
      exact ltScored_asymm (hx.1 y hy') (hy.1 x hx')
    subst hxy
    rw [sorted_perm_eq xs ys (List.Perm.cons_inv hp) hx.2 hy.2]

/-- with pairwise distinct ids, "sorted" is strict -/
theorem strict_of_sorted {l : List Scored} (hs : l.Pairwise leScored) (hd : (l.map (·.1)).Nodup) :
    l.Pairwise (fun a b => ltScored a b = true) := by
  induction l with
  | nil => simp
  | cons x xs ih =>
    have hx := List.pairwise_cons.1 hs
    simp only [List.map_cons, List.nodup_cons] at hd
    refine List.pairwise_cons.2 ⟨fun y hy => ?_, ih hx.2 hd.2⟩
    have hne : x.1 ≠ y.1 := fun e => hd.1 (List.mem_map.2 ⟨y, hy, e.symm⟩)
    have hle : ltScored y x = false := hx.1 y hy
    have ht : lex3 (rankKey x) (rankKey y) ∨ lex3 (rankKey y) (rankKey x) :=
      lex3_total (by rw [rankKey_id, rankKey_id]; exact hne)
    rcases ht with h | h
    · exact (ltScored_iff x y).2 h
    · rw [(ltScored_iff y x).2 h] at hle; cases hle

theorem mem_sortScored {x : Scored} {l : List Scored} : x ∈ sortScored l ↔ x ∈ l :=
  (sortScored_perm l).mem_iff

theorem length_sortScored (l : List Scored) : (sortScored l).length = l.length :=
  (sortScored_perm l).length_eq

/-- `select_nth_unstable_by(k-1)` may leave **any** arrangement `a` of the result map whose first `k`
entries are all "not after" the rest; truncating to `k` and sorting gives the first `k` of the fully
sorted map — whatever the arrangement was. -/
theorem select_truncate_sort (l a : List Scored) (k : Nat) (hd : (l.map (·.1)).Nodup) (hp : a.Perm l)
    (hsel : ∀ x ∈ a.take k, ∀ y ∈ a.drop k, leScored x y) :
    sortScored (a.take k) = (sortScored l).take k := by
  have hperm : (sortScored (a.take k) ++ sortScored (a.drop k)).Perm l := by
    have h1 : (sortScored (a.take k) ++ sortScored (a.drop k)).Perm (a.take k ++ a.drop k) :=
      List.Perm.append (sortScored_perm _) (sortScored_perm _)
    rw [List.take_append_drop] at h1
    exact h1.trans hp
  have hsorted : (sortScored (a.take k) ++ sortScored (a.drop k)).Pairwise leScored := by
    rw [List.pairwise_append]
    exact ⟨sortScored_sorted _, sortScored_sorted _,
      fun x hx y hy => hsel x (mem_sortScored.1 hx) y (mem_sortScored.1 hy)⟩
  have hdr : ((sortScored (a.take k) ++ sortScored (a.drop k)).map (·.1)).Nodup :=
    (hperm.map (·.1)).nodup_iff.2 hd
  have hdl : ((sortScored l).map (·.1)).Nodup := ((sortScored_perm l).map (·.1)).nodup_iff.2 hd
  have heq : sortScored (a.take k) ++ sortScored (a.drop k) = sortScored l :=
    sorted_perm_eq _ _ (hperm.trans (sortScored_perm l).symm)
      (strict_of_sorted hsorted hdr) (strict_of_sorted (sortScored_sorted l) hdl)
  rw [← heq]
  by_cases hk : k ≤ a.length
  · have hlen : (sortScored (a.take k)).length = k := by
      rw [length_sortScored, List.length_take]; omega
    rw [List.take_append_of_le_length (by rw [hlen]; exact Nat.le_refl _)]
    exact (List.take_of_length_le (by rw [hlen]; exact Nat.le_refl _)).symm
  · have hdrop : a.drop k = [] := List.drop_eq_nil_of_le (by omega)
    have hnil : sortScored ([] : List Scored) = [] := rfl
    have hlen : (sortScored (a.take k)).length ≤ k := by
      rw [length_sortScored, List.length_take]; exact Nat.min_le_left _ _
    rw [hdrop, hnil, List.append_nil]
    exact (List.take_of_length_le hlen).symm

/-- `top_k_results` with the regenerated step list = the first `k` of the sorted result map -/
theorem topK_eq (scored : List Scored) (k : Nat) :
    topK scored k = if k = 0 then [] else (sortScored scored).take k := by
  unfold topK
  by_cases hk : k = 0
  · simp [hk]
  · simp only [hk, if_false]
    rw [Gen.Bm25Order.gen_topKShape]
    simp only [runTopK, runTopKStep]
    by_cases hl : scored.length > k
    · simp only [hl, if_true]
      exact sortScored_of_sorted _ ((sortScored_sorted scored).sublist (List.take_sublist _ _))
    · simp only [hl, if_false]
      have h1 : scored.take k = scored := List.take_of_length_le (by omega)
      have h2 : (sortScored scored).take k = sortScored scored :=
        List.take_of_length_le (by rw [(sortScored_perm scored).length_eq]; omega)
      rw [h1, h2]

end Bm25
end AndaVerif
