import AndaVerif.Model.Bm25
/-
Helper lemmas for C11: list-sets, association lists, the counters invariant, the comparator as a
lexicographic key order, insertion sort / top-k.
-/
namespace AndaVerif
namespace Bm25

/-! ### list-sets -/

theorem mem_dedup {x : Nat} : ∀ {l : List Nat}, x ∈ dedup l ↔ x ∈ l
  | [] => by simp [dedup]
  | y :: ys => by
    unfold dedup
    split
    · rename_i h
      have := @mem_dedup x ys
      simp only [List.contains_iff_mem] at h
      constructor
      · intro hx; exact List.mem_cons_of_mem _ (this.1 hx)
      · intro hx
        rcases List.mem_cons.1 hx with rfl | hx
        · exact this.2 h
        · exact this.2 hx
    · have := @mem_dedup x ys
      simp [this]

theorem nodup_dedup : ∀ (l : List Nat), (dedup l).Nodup
  | [] => by simp [dedup]
  | y :: ys => by
    unfold dedup
    split
    · exact nodup_dedup ys
    · rename_i h
      simp only [List.contains_iff_mem] at h
      exact List.nodup_cons.2 ⟨fun hm => h (mem_dedup.1 hm), nodup_dedup ys⟩

theorem mem_union {x : Nat} {a b : List Nat} : x ∈ union a b ↔ x ∈ a ∨ x ∈ b := by
  unfold union
  simp only [List.mem_append, List.mem_filter, List.contains_iff_mem, Bool.not_eq_eq_eq_not,
    Bool.not_true, decide_eq_false_iff_not]
  by_cases h : x ∈ a <;> simp [h]

theorem mem_inter {x : Nat} {a b : List Nat} : x ∈ inter a b ↔ x ∈ a ∧ x ∈ b := by
  unfold inter; simp [List.mem_filter]

theorem mem_diff {x : Nat} {a b : List Nat} : x ∈ diff a b ↔ x ∈ a ∧ x ∉ b := by
  unfold diff; simp [List.mem_filter]

theorem nodup_union {a b : List Nat} (ha : a.Nodup) (hb : b.Nodup) : (union a b).Nodup := by
  unfold union
  refine List.nodup_append.2 ⟨ha, hb.filter _, ?_⟩
  intro x hx y hy hxy
  subst hxy
  simp [List.mem_filter] at hy
  exact hy.2 hx

theorem nodup_inter {a b : List Nat} (ha : a.Nodup) : (inter a b).Nodup := ha.filter _
theorem nodup_diff {a b : List Nat} (ha : a.Nodup) : (diff a b).Nodup := ha.filter _

/-! ### association lists -/

theorem get?_none_iff {α : Type} {m : List (Nat × α)} {x : Nat} : get? m x = none ↔ x ∉ m.map (·.1) := by
  induction m with
  | nil => simp [get?]
  | cons p m ih =>
    obtain ⟨k, v⟩ := p
    unfold get?
    by_cases h : k = x
    · simp [h]
    · simp only [h, if_false, ih, List.map_cons, List.mem_cons]
      constructor
      · intro h1 h2; rcases h2 with h2 | h2
        · exact h h2.symm
        · exact h1 h2
      · intro h1 h2; exact h1 (Or.inr h2)

theorem hasKey_iff {α : Type} {m : List (Nat × α)} {x : Nat} : hasKey m x = true ↔ x ∈ m.map (·.1) := by
  unfold hasKey
  cases h : get? m x with
  | none => simp [get?_none_iff.1 h]
  | some v =>
    simp only [Option.isSome_some, true_iff]
    apply Classical.byContradiction
    intro hn
    rw [get?_none_iff.2 hn] at h
    cases h

theorem get?_mem {α : Type} {m : List (Nat × α)} {x : Nat} {v : α} (h : get? m x = some v) : (x, v) ∈ m := by
  induction m with
  | nil => simp [get?] at h
  | cons p m ih =>
    obtain ⟨k, w⟩ := p
    unfold get? at h
    by_cases hk : k = x
    · simp [hk] at h; subst hk; subst h; simp
    · simp [hk] at h; exact List.mem_cons_of_mem _ (ih h)

theorem get?_of_mem_nodup {α : Type} {m : List (Nat × α)} {x : Nat} {v : α}
    (hn : (m.map (·.1)).Nodup) (h : (x, v) ∈ m) : get? m x = some v := by
  induction m with
  | nil => cases h
  | cons p m ih =>
    obtain ⟨k, w⟩ := p
    simp only [List.map_cons, List.nodup_cons] at hn
    unfold get?
    rcases List.mem_cons.1 h with h | h
    · cases h; simp
    · have : k ≠ x := by
        intro hk; subst hk
        exact hn.1 (List.mem_map.2 ⟨(k, v), h, rfl⟩)
      simp [this, ih hn.2 h]

/-! ### counters -/

theorem sumSnd_append (a b : List (Nat × Nat)) : sumSnd (a ++ b) = sumSnd a + sumSnd b := by
  induction a with
  | nil => simp [sumSnd]
  | cons p a ih => simp [sumSnd, ih]; omega

theorem sumSnd_filter_split (m : List (Nat × Nat)) (p : Nat × Nat → Bool) :
    sumSnd m = sumSnd (m.filter p) + sumSnd (m.filter (fun x => !p x)) := by
  induction m with
  | nil => simp [sumSnd]
  | cons x m ih =>
    by_cases h : p x = true
    · simp [List.filter_cons, h, sumSnd]; omega
    · simp only [Bool.not_eq_true] at h
      simp [List.filter_cons, h, sumSnd]; omega

theorem sumSnd_eraseKey {m : List (Nat × Nat)} {x n : Nat} (hn : (m.map (·.1)).Nodup)
    (h : get? m x = some n) : sumSnd m = n + sumSnd (eraseKey m x) := by
  induction m with
  | nil => simp [get?] at h
  | cons p m ih =>
    obtain ⟨k, w⟩ := p
    simp only [List.map_cons, List.nodup_cons] at hn
    unfold get? at h
    by_cases hk : k = x
    · subst hk
      simp at h; subst h
      have hno : m.filter (fun p => p.1 != k) = m := by
        apply List.filter_eq_self.2
        intro a ha
        have : a.1 ≠ k := fun e => hn.1 (List.mem_map.2 ⟨a, ha, e⟩)
        simpa using this
      have e : eraseKey ((k, w) :: m) k = m := by simp [eraseKey, List.filter_cons, hno]
      rw [e]; simp [sumSnd]
    · simp [hk] at h
      have := ih hn.2 h
      have e : eraseKey ((k, w) :: m) x = (k, w) :: eraseKey m x := by
        simp [eraseKey, List.filter_cons, hk]
      rw [e]; simp only [sumSnd]; omega

/-- the counters every score is derived from agree with the per-document lengths -/
structure Counters (s : Index) : Prop where
  nodup : (s.docTokens.map (·.1)).Nodup
  total : s.totalTokens = sumSnd s.docTokens

theorem Counters.empty : Counters Index.empty := ⟨by simp [Index.empty], by simp [Index.empty, sumSnd]⟩

theorem Counters.insert {s s' : Index} {id : Nat} {tf : List (Nat × Nat)} (h : Counters s)
    (hi : insert s id tf = .ok s') : Counters s' := by
  unfold Bm25.insert at hi
  split at hi
  · cases hi
  · split at hi
    · cases hi
    · rename_i hlive
      simp only [Except.ok.injEq] at hi
      subst hi
      constructor
      · simp only [List.map_append, List.map_cons, List.map_nil]
        refine List.nodup_append.2 ⟨h.nodup, by simp, ?_⟩
        intro a ha b hb hab
        simp at hb; subst hb; subst hab
        exact hlive (by simpa [Index.live] using hasKey_iff.2 ha)
      · simp [sumSnd_append, sumSnd, h.total]

theorem Counters.remove {s : Index} (id : Nat) (tf : List (Nat × Nat)) (h : Counters s) :
    Counters (remove s id tf).1 := by
  unfold Bm25.remove
  split
  · rename_i n hn
    constructor
    · simp only [eraseKey]
      exact (h.nodup.sublist (List.Sublist.map _ List.filter_sublist))
    · have := sumSnd_eraseKey h.nodup hn
      simp [h.total]; omega
  · exact ⟨h.nodup, h.total⟩

theorem Counters.purge {s : Index} (ids : List Nat) (h : Counters s) : Counters (purgeIds s ids).1 := by
  unfold purgeIds
  split
  · exact h
  · constructor
    · exact (h.nodup.sublist (List.Sublist.map _ List.filter_sublist))
    · have e : sumSnd s.docTokens = sumSnd (s.docTokens.filter (fun p => ids.contains p.1))
          + sumSnd (s.docTokens.filter (fun p => !ids.contains p.1)) := sumSnd_filter_split _ _
      show s.totalTokens - sumSnd (s.docTokens.filter (fun p => ids.contains p.1))
        = sumSnd (s.docTokens.filter (fun p => !ids.contains p.1))
      rw [h.total]; omega

theorem Counters.step {s : Index} (op : Op) (h : Counters s) : Counters (step s op) := by
  cases op with
  | insert id tf =>
    show Counters (match Bm25.insert s id tf with | .ok s' => s' | .error _ => s)
    cases hi : Bm25.insert s id tf with
    | ok s' => exact h.insert hi
    | error e => exact h
  | remove id tf => exact h.remove id tf
  | purge ids => exact h.purge ids

theorem Counters.run {s : Index} (ops : List Op) (h : Counters s) : Counters (run s ops) := by
  induction ops generalizing s with
  | nil => exact h
  | cons op ops ih => exact ih (h.step op)

/-! ### the comparator is a lexicographic order on a key -/

/-- NaN flag, negated `total_cmp` key (descending score; 0 for NaN), document id -/
def rankKey (a : Scored) : Nat × Int × Nat :=
  if isNaN a.2 then (1, 0, a.1) else (0, - totalKey a.2, a.1)

def lex3 (x y : Nat × Int × Nat) : Prop :=
  x.1 < y.1 ∨ (x.1 = y.1 ∧ (x.2.1 < y.2.1 ∨ (x.2.1 = y.2.1 ∧ x.2.2 < y.2.2)))

theorem compare_int_lt {a b : Int} : compare a b = .lt ↔ a < b := by
  show compareOfLessAndEq a b = .lt ↔ a < b
  unfold compareOfLessAndEq
  by_cases h : a < b
  · simp [h]
  · by_cases h2 : a = b <;> simp [h, h2]

theorem compare_int_eq {a b : Int} : compare a b = .eq ↔ a = b := by
  show compareOfLessAndEq a b = .eq ↔ a = b
  unfold compareOfLessAndEq
  by_cases h : a < b
  · simp [h]; omega
  · by_cases h2 : a = b <;> simp [h, h2]

theorem compare_nat_lt {a b : Nat} : compare a b = .lt ↔ a < b := Nat.compare_eq_lt

theorem ltScored_iff (a b : Scored) : ltScored a b = true ↔ lex3 (rankKey a) (rankKey b) := by
  unfold ltScored cmpScored rankKey lex3
  cases ha : isNaN a.2 <;> cases hb : isNaN b.2 <;> simp [compare_nat_lt]
  · -- both ordinary
    cases hc : compare (totalKey b.2) (totalKey a.2) with
    | lt => have := compare_int_lt.1 hc; simp [Ordering.then]; omega
    | eq => have := compare_int_eq.1 hc; simp [Ordering.then, compare_nat_lt]; omega
    | gt =>
      have h1 : ¬ totalKey b.2 < totalKey a.2 := fun h => by rw [compare_int_lt.2 h] at hc; cases hc
      have h2 : ¬ totalKey b.2 = totalKey a.2 := fun h => by rw [compare_int_eq.2 h] at hc; cases hc
      simp [Ordering.then]; omega

theorem lex3_irrefl (x : Nat × Int × Nat) : ¬ lex3 x x := by unfold lex3; omega
theorem lex3_trans {x y z : Nat × Int × Nat} (h1 : lex3 x y) (h2 : lex3 y z) : lex3 x z := by
  unfold lex3 at *; omega
theorem lex3_total {x y : Nat × Int × Nat} (h : x.2.2 ≠ y.2.2) : lex3 x y ∨ lex3 y x := by
  unfold lex3; omega

theorem rankKey_id (a : Scored) : (rankKey a).2.2 = a.1 := by
  unfold rankKey; split <;> rfl

/-! ### insertion sort, top-k -/

theorem insertSorted_perm (x : Scored) (l : List Scored) : (insertSorted x l).Perm (x :: l) := by
  induction l with
  | nil => simp [insertSorted]
  | cons y ys ih =>
    unfold insertSorted
    split
    · exact (List.Perm.cons y ih).trans (List.Perm.swap x y ys)
    · exact List.Perm.refl _

theorem sortScored_perm (l : List Scored) : (sortScored l).Perm l := by
  induction l with
  | nil => simp [sortScored]
  | cons x xs ih =>
    unfold sortScored
    exact (insertSorted_perm x _).trans (List.Perm.cons x ih)

/-- "not after": `a` may stand before `b` -/
def leScored (a b : Scored) : Prop := ltScored b a = false

theorem leScored_trans {a b c : Scored} (h1 : leScored a b) (h2 : leScored b c) : leScored a c := by
  unfold leScored at *
  apply Classical.byContradiction
  intro h
  simp only [Bool.not_eq_false] at h
  rw [ltScored_iff] at h
  have n1 : ¬ lex3 (rankKey b) (rankKey a) := by rw [← ltScored_iff]; simp [h1]
  have n2 : ¬ lex3 (rankKey c) (rankKey b) := by rw [← ltScored_iff]; simp [h2]
  unfold lex3 at *; omega

theorem leScored_of_lt {a b : Scored} (h : ltScored a b = true) : leScored a b := by
  unfold leScored
  apply Classical.byContradiction
  intro hn
  simp only [Bool.not_eq_false] at hn
  rw [ltScored_iff] at h hn
  exact lex3_irrefl _ (lex3_trans h hn)

theorem insertSorted_sorted (x : Scored) (l : List Scored) (h : l.Pairwise leScored) :
    (insertSorted x l).Pairwise leScored := by
  induction l with
  | nil => simp [insertSorted]
  | cons y ys ih =>
    unfold insertSorted
    have hy := List.pairwise_cons.1 h
    split
    · rename_i hlt
      refine List.pairwise_cons.2 ⟨?_, ih hy.2⟩
      intro z hz
      rcases List.mem_cons.1 ((insertSorted_perm x ys).subset hz) with rfl | hz
      · exact leScored_of_lt hlt
      · exact hy.1 z hz
    · rename_i hlt
      simp only [Bool.not_eq_true] at hlt
      refine List.pairwise_cons.2 ⟨?_, h⟩
      intro z hz
      rcases List.mem_cons.1 hz with rfl | hz
      · exact hlt
      · exact leScored_trans hlt (hy.1 z hz)

theorem sortScored_sorted (l : List Scored) : (sortScored l).Pairwise leScored := by
  induction l with
  | nil => simp [sortScored]
  | cons x xs ih => unfold sortScored; exact insertSorted_sorted x _ ih

end Bm25
end AndaVerif
