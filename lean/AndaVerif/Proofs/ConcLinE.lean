import AndaVerif.Proofs.ConcLinD
/-
Linearization, part E: preservation of `LinInv` by every action, its validity initially, and the
statement for complete runs.
-/
namespace AndaVerif.ConcColl

theorem LinInv.step {M0 : Nat} {H0 : List (Nat × Doc)} {conf : Config} {ops : List Op} {a0 : SpecState}
    {t : Nat} {c c' : Cfg} (inv : LinInv conf ops a0 c) (all : AllInv M0 H0 c) (cl : CleanInv c)
    (ok : OpsOK M0 ops) (h : step t c = some c') : LinInv conf ops a0 c' := by
  have all' : AllInv M0 H0 c' := all.step h
  have cl' : CleanInv c' := cl.step all.mta all.rs h
  obtain ⟨th, sh', th', hth, hst, rfl⟩ := step_elim h
  obtain ⟨hop, hnd, hni, hconf, _, _, _⟩ := stepThread_gate _ _ _ _ _ hst
  have hself : (c.th.set t th')[t]? = some th' := getElem?_set_self' _ _ _ _ hth
  have hother : ∀ x, x ≠ t → (c.th.set t th')[x]? = c.th[x]? := fun x hx => getElem?_set_ne' _ _ _ _ hx
  have pre := linPre_of_inv all cl inv ok t th hth hnd
  obtain ⟨hidx', hlin⟩ := stepThread_lin _ _ _ _ _ hst pre
  have hnoU := inv.noU t th hth
  have hcoarse := cl.coarse
  obtain ⟨hv00, hv01, hv1⟩ := stepThread_view _ _ _ _ _ hst hcoarse hnoU
  have hexp := inv.expected t th hth hnd
  obtain ⟨hexp', hdone', hlogexp⟩ := stepThread_pred _ _ _ _ _ hst hcoarse hnoU hexp
  have hnoPre : th'.res ≠ some (.err .precond) := (cl'.noErr t th' hself).1
  have hnoFree : ¬ (th.isAdd = true ∧ th.pc = .createWait ∧ c.sh.store th.id ≠ none) := by
    rintro ⟨hk, hpc, hs⟩
    exact hs (all.store.free t th hth hk (by simp [hpc, Pc.active]))
  -- the log: silent or one new entry for `t`, who had none
  have hpred0 : sh'.glog ≠ c.sh.glog → th.pred = none := fun hne => by rw [hexp, hlogexp hne]
  have hnot_in : th.pred = none → ∀ r, (t, r) ∉ c.sh.glog := by
    intro hp r hm
    obtain ⟨th2, h2, hp2⟩ := (inv.mem t r).mp hm
    rw [hth] at h2; cases h2
    rw [hp] at hp2; cases hp2
  have hopsOf' : ∀ (x : Nat) (thx : Thread), (c.th.set t th')[x]? = some thx → ops[x]? = some thx.op := by
    intro x thx hx
    by_cases hxt : x = t
    · subst hxt; rw [hself] at hx; cases hx; rw [hop]; exact inv.opsOf x th hth
    · rw [hother x hxt] at hx; exact inv.opsOf x thx hx
  refine
    { opsOf := hopsOf', confEq := by show sh'.conf = conf; rw [hconf]; exact inv.confEq, noU := ?_, idsAbs := ?_, idx := hidx',
      view := ?_, noview := ?_, explains := ?_, mem := ?_, nodup := ?_, expected := ?_, done := ?_,
      doneRes := ?_, readPred := ?_, pidsF3 := ?_, flushPc := ?_ }
  · intro x thx hx
    by_cases hxt : x = t
    · subst hxt; rw [hself] at hx; cases hx; exact stepThread_idxU _ _ _ _ _ hst hcoarse
    · rw [hother x hxt] at hx; exact inv.noU x thx hx
  · exact fun i => stepThread_idsAbs _ _ _ _ _ hst inv.idsAbs i
  · -- pending views agree with the ghost documents
    intro x thx id v hx hv
    by_cases hxt : x = t
    · subst hxt
      rw [hself] at hx; cases hx
      rcases hvt : th.view with _ | ⟨id0, v0⟩
      · exact (by rw [(hv01 id v hvt hv).1]; simp [setDoc])
      · have := (hv1 id0 v0 hvt).1; rw [this] at hv; cases hv
    · rw [hother x hxt] at hx
      have hg := inv.view x thx id v hx hv
      rcases hvt : th.view with _ | ⟨id0, v0⟩
      · rcases hvt' : th'.view with _ | ⟨id1, v1⟩
        · show sh'.gdocs id = v
          rw [(hv00 hvt hvt').1]; exact hg
        · show sh'.gdocs id = v
          rw [(hv01 id1 v1 hvt hvt').1]
          have hne : id ≠ id1 := by
            intro he
            subst he
            have hx' : (c.th.set t th')[x]? = some thx := by rw [hother x hxt]; exact hx
            exact hxt (view_excl all' hopsOf' ok x t thx th' id v v1 hx' hself hv hvt')
          simp [setDoc, hne, hg]
      · show sh'.gdocs id = v
        rw [(hv1 id0 v0 hvt).2.1]; exact hg
  · -- documents without a pending view: ghost = backend
    intro id hnv
    have hnv_other : ∀ (x : Nat) (thx : Thread) (v : Option Doc), x ≠ t → c.th[x]? = some thx → thx.view ≠ some (id, v) := by
      intro x thx v hxt hx
      exact hnv x thx v (by rw [hother x hxt]; exact hx)
    have hnv_t : ∀ v, th'.view ≠ some (id, v) := fun v => hnv t th' v hself
    rcases hvt : th.view with _ | ⟨id0, v0⟩
    · rcases hvt' : th'.view with _ | ⟨id1, v1⟩
      · obtain ⟨hg, hs⟩ := hv00 hvt hvt'
        show sh'.gdocs id = (sh'.store id).map (·.1)
        rw [hg, hs]
        apply inv.noview id
        intro x thx v hx
        by_cases hxt : x = t
        · subst hxt; rw [hth] at hx; cases hx; rw [hvt]; simp
        · exact hnv_other x thx v hxt hx
      · obtain ⟨hg, hs⟩ := hv01 id1 v1 hvt hvt'
        have hne : id ≠ id1 := by
          intro he; subst he; exact hnv_t v1 hvt'
        show sh'.gdocs id = (sh'.store id).map (·.1)
        rw [hg, hs]
        simp only [setDoc, hne, if_false]
        apply inv.noview id
        intro x thx v hx
        by_cases hxt : x = t
        · subst hxt; rw [hth] at hx; cases hx; rw [hvt]; simp
        · exact hnv_other x thx v hxt hx
    · obtain ⟨_, hg, hsother, hsid⟩ := hv1 id0 v0 hvt
      show sh'.gdocs id = (sh'.store id).map (·.1)
      rw [hg]
      by_cases he : id = id0
      · subst he
        rw [inv.view t th id v0 hth hvt]
        rcases hsid with h1 | h1 | h1
        · exact h1.symm
        · exact absurd h1 hnoPre
        · exact absurd h1 hnoFree
      · rw [hsother id he]
        apply inv.noview id
        intro x thx v hx
        by_cases hxt : x = t
        · subst hxt; rw [hth] at hx; cases hx; rw [hvt]
          simp only [ne_eq, Option.some.injEq, Prod.mk.injEq, not_and]
          intro h1; exact absurd h1.symm he
        · exact hnv_other x thx v hxt hx
  · -- the log stays a legal sequential history
    rcases hlin with ⟨hl, hg, _⟩ | ⟨r, hl, _, hspec⟩
    · show Explains conf ops sh'.glog a0 (gstate sh')
      rw [hl, hg]; exact inv.explains
    · show Explains conf ops sh'.glog a0 (gstate sh')
      rw [hl]
      refine Explains.cons _ t r th.op a0 (gstate c.sh) (gstate sh') inv.explains (inv.opsOf t th hth) ?_
      rw [← inv.confEq]; exact hspec
  · -- the log lists exactly the predicted return values
    intro x r
    rcases hlin with ⟨hl, _, hp⟩ | ⟨r0, hl, hp, _⟩
    · show (x, r) ∈ sh'.glog ↔ _
      rw [hl, inv.mem x r]
      by_cases hxt : x = t
      · subst hxt; rw [hself]; simp [hth, hp]
      · rw [hother x hxt]
    · show (x, r) ∈ sh'.glog ↔ _
      have hp0 := hpred0 (by rw [hl]; exact fun h => by simpa using congrArg List.length h)
      rw [hl]
      simp only [List.mem_cons, Prod.mk.injEq]
      by_cases hxt : x = t
      · subst hxt
        rw [hself]
        simp only [true_and, Option.some.injEq, exists_eq_left', hp]
        constructor
        · rintro (h1 | h1)
          · exact h1.symm
          · exact absurd h1 (hnot_in hp0 r)
        · intro h1; exact Or.inl h1.symm
      · rw [hother x hxt, ← inv.mem x r]
        simp [hxt]
  · rcases hlin with ⟨hl, _, _⟩ | ⟨r0, hl, _, _⟩
    · show (sh'.glog.map (·.1)).Nodup
      rw [hl]; exact inv.nodup
    · show (sh'.glog.map (·.1)).Nodup
      have hp0 := hpred0 (by rw [hl]; exact fun h => by simpa using congrArg List.length h)
      rw [hl]
      simp only [List.map_cons, List.nodup_cons]
      refine ⟨?_, inv.nodup⟩
      intro hm
      simp only [List.mem_map] at hm
      obtain ⟨⟨a, b⟩, hm, ha⟩ := hm
      simp only at ha
      subst ha
      exact hnot_in hp0 b hm
  · intro x thx hx hpc
    by_cases hxt : x = t
    · subst hxt; rw [hself] at hx; cases hx; exact hexp' hpc
    · rw [hother x hxt] at hx; exact inv.expected x thx hx hpc
  · intro x thx hx hpc hk
    by_cases hxt : x = t
    · subst hxt; rw [hself] at hx; cases hx
      have hk0 : th.isMut = true ∨ th.isFlush = true := by
        rw [isMut_of_op hop, isFlush_of_op hop] at hk; exact hk
      rcases hdone' hpc hk0 with h1 | h1 | h1
      · exact h1
      · exact absurd h1 hnoPre
      · exact absurd h1 hnoFree
    · rw [hother x hxt] at hx; exact inv.done x thx hx hpc hk
  · intro x thx hx hpc
    by_cases hxt : x = t
    · subst hxt; rw [hself] at hx; cases hx
      exact (stepThread_doneRes _ _ _ _ _ hst).1 hpc
    · rw [hother x hxt] at hx; exact inv.doneRes x thx hx hpc
  · intro x thx hx hm hf
    by_cases hxt : x = t
    · subst hxt; rw [hself] at hx; cases hx
      rw [isMut_of_op hop] at hm; rw [isFlush_of_op hop] at hf
      rw [(stepThread_doneRes _ _ _ _ _ hst).2 hm hf]
      exact inv.readPred x th hth hm hf
    · rw [hother x hxt] at hx; exact inv.readPred x thx hx hm hf
  · intro x thx hx hopx hp
    by_cases hxt : x = t
    · subst hxt; rw [hself] at hx; cases hx
      have hop0 : th.op = .flush := hop ▸ hopx
      rcases stepThread_pids _ _ _ _ _ hst hop0 with ⟨h1, h2⟩ | h1
      · rw [h2]; rw [h1] at hp; exact inv.pidsF3 x th hth hop0 hp
      · exact h1
    · rw [hother x hxt] at hx; exact inv.pidsF3 x thx hx hopx hp
  · intro x thx hx hopx
    by_cases hxt : x = t
    · subst hxt; rw [hself] at hx; cases hx
      exact stepThread_flushPc _ _ _ _ _ hst (hop ▸ hopx)
    · rw [hother x hxt] at hx; exact inv.flushPc x thx hx hopx

/-- the ghost state of a handle on which nothing has been logged yet -/
structure GhostInit (sh : Shared) : Prop where
  docs : sh.gdocs = fun i => (sh.store i).map (·.1)
  log : sh.glog = []

/-- documents, bitmap and unique indexes of a handle agree (property C02 for the initial state) -/
structure Agree (sh : Shared) : Prop where
  ids : ∀ i, i ∈ sh.ids ↔ sh.store i ≠ none
  idxK : sh.conf.idxK = true → ∀ k i, (k, i) ∈ sh.idxK ↔ ∃ d v, sh.store i = some (d, v) ∧ d.k = k
  idxU : sh.conf.idxU = true → ∀ u i, (u, i) ∈ sh.idxU ↔ ∃ d v, sh.store i = some (d, v) ∧ d.u = u

theorem gstate_init (sh : Shared) (g0 : GhostInit sh) : gstate sh = specOf sh := by
  simp [gstate, specOf, g0.docs]

theorem LinInv.init (sh : Shared) (ag : Agree sh) (g0 : GhostInit sh) (ops : List Op) :
    LinInv sh.conf ops (specOf sh) (start sh ops) := by
  have hi : ∀ (x : Nat) (th : Thread), (start sh ops).th[x]? = some th →
      ∃ op, ops[x]? = some op ∧ th = mkThread op := by
    intro x th h
    simp only [start, List.getElem?_map, Option.map_eq_some_iff] at h
    obtain ⟨op, ho, rfl⟩ := h
    exact ⟨op, ho, rfl⟩
  have hview : ∀ (x : Nat) (th : Thread), (start sh ops).th[x]? = some th → th.view = none := by
    intro x th h
    obtain ⟨op, _, rfl⟩ := hi x th h
    unfold Thread.view mkThread
    split <;> simp
  refine
    { opsOf := ?_, confEq := rfl, noU := ?_, idsAbs := ag.ids, idx := ?_, view := ?_, noview := ?_,
      explains := ?_, mem := ?_, nodup := ?_, expected := ?_, done := ?_, doneRes := ?_, readPred := ?_,
      pidsF3 := ?_, flushPc := ?_ }
  · intro x th h; obtain ⟨op, ho, rfl⟩ := hi x th h; simpa [mkThread] using ho
  · intro x th h; obtain ⟨op, _, rfl⟩ := hi x th h; simp [mkThread]
  · refine ⟨fun hK k i => ?_, fun hU u i => ?_⟩
    · show (k, i) ∈ sh.idxK ↔ ∃ d, sh.gdocs i = some d ∧ d.k = k
      rw [ag.idxK hK k i, g0.docs]
      simp only [Option.map_eq_some_iff]
      constructor
      · rintro ⟨d, v, hs, hk⟩; exact ⟨d, ⟨(d, v), hs, rfl⟩, hk⟩
      · rintro ⟨d, ⟨⟨d', v⟩, hs, rfl⟩, hk⟩; exact ⟨d', v, hs, hk⟩
    · show (u, i) ∈ sh.idxU ↔ ∃ d, sh.gdocs i = some d ∧ d.u = u
      rw [ag.idxU hU u i, g0.docs]
      simp only [Option.map_eq_some_iff]
      constructor
      · rintro ⟨d, v, hs, hk⟩; exact ⟨d, ⟨(d, v), hs, rfl⟩, hk⟩
      · rintro ⟨d, ⟨⟨d', v⟩, hs, rfl⟩, hk⟩; exact ⟨d', v, hs, hk⟩
  · intro x th id v h hv; rw [hview x th h] at hv; cases hv
  · intro id _; show sh.gdocs id = _; rw [g0.docs]; rfl
  · show Explains sh.conf ops sh.glog (specOf sh) (gstate sh)
    rw [g0.log, gstate_init sh g0]; exact Explains.nil _
  · intro x r
    show (x, r) ∈ sh.glog ↔ _
    rw [g0.log]
    simp only [List.not_mem_nil, false_iff]
    rintro ⟨th, h, hp⟩
    obtain ⟨op, _, rfl⟩ := hi x th h
    simp [mkThread] at hp
  · show (sh.glog.map (·.1)).Nodup
    rw [g0.log]; simp
  · intro x th h _
    obtain ⟨op, _, rfl⟩ := hi x th h
    unfold Thread.expected mkThread
    split <;> simp
  · intro x th h hpc; obtain ⟨op, _, rfl⟩ := hi x th h; simp [mkThread] at hpc
  · intro x th h hpc; obtain ⟨op, _, rfl⟩ := hi x th h; simp [mkThread] at hpc
  · intro x th h _ _; obtain ⟨op, _, rfl⟩ := hi x th h; simp [mkThread]
  · intro x th h _ hp; obtain ⟨op, _, rfl⟩ := hi x th h; simp [mkThread] at hp
  · intro x th h _; obtain ⟨op, _, rfl⟩ := hi x th h; simp [mkThread, Pc.isFlushPc]

/-- `LinInv` (with everything it rests on) holds after every schedule. -/
theorem linInv_run (sh : Shared) (wf : WF sh) (ag : Agree sh) (g0 : GhostInit sh)
    (hfine : sh.conf.fine = false) (ops : List Op) (ok : OpsOK sh.maxId ops) (s : List Nat) :
    LinInv sh.conf ops (specOf sh) (run s (start sh ops)) ∧ AllInv sh.maxId sh.hist (run s (start sh ops)) := by
  have : (AllInv sh.maxId sh.hist (run s (start sh ops)) ∧ CleanInv (run s (start sh ops))) ∧
      LinInv sh.conf ops (specOf sh) (run s (start sh ops)) :=
    Sched.sched_inv step
      (fun c => (AllInv sh.maxId sh.hist c ∧ CleanInv c) ∧ LinInv sh.conf ops (specOf sh) c)
      (fun _ _ _ inv h => ⟨⟨inv.1.1.step h, inv.1.2.step inv.1.1.mta inv.1.1.rs h⟩, inv.2.step inv.1.1 inv.1.2 ok h⟩) s _
      ⟨⟨AllInv.init sh wf ops,
        ⟨hfine, wf.clean, fun x th h => by simp [(start_idle sh ops x th h).2.2.1]⟩⟩,
       LinInv.init sh ag g0 ops⟩
  exact ⟨this.2, this.1.1⟩

end AndaVerif.ConcColl
