import AndaVerif.Proofs.HnswStore
/-
C12 helper lemmas: `load` establishes `LoadedInv` on EVERY durable state; it cannot fail on a
durable state all of whose blobs are valid; every write of a flush keeps the blobs valid; and — the
part that depends on the generated order nodes → ids → metadata → purge — no prefix of a flush
leaves the ids object naming an id without a blob.
-/
namespace AndaVerif.Hnsw

/-! ### blob map -/

theorem getBlob_filter (blobs : List (Nat × Blob)) (i j : Nat) :
    getBlob (blobs.filter (fun p => p.1 != i)) j = if i = j then none else getBlob blobs j := by
  induction blobs with
  | nil => simp [getBlob]
  | cons p r ih =>
    obtain ⟨k, b⟩ := p
    by_cases hk : k = i
    · subst hk
      simp only [List.filter_cons, bne_self_eq_false, Bool.false_eq_true, if_false, ih, getBlob]
      by_cases hj : k = j
      · simp [hj]
      · simp [hj]
    · have : (k != i) = true := by simpa using hk
      simp only [List.filter_cons, this, if_true, getBlob, ih]
      by_cases hj : k = j
      · subst hj; simp [Ne.symm hk]
      · simp [hj]

theorem getBlob_put (blobs : List (Nat × Blob)) (i j : Nat) (b : Blob) :
    getBlob ((i, b) :: blobs.filter (fun p => p.1 != i)) j = if i = j then some b else getBlob blobs j := by
  simp only [getBlob, getBlob_filter]
  by_cases h : i = j <;> simp [h]

/-! ### the loader stream -/

def idsOf (D : Durable) : List Nat := match D.ids with | some l => l | none => []

def missingIds (D : Durable) : List Nat := (idsOf D).filter (fun i => (getBlob D.blobs i).isNone)

def presentIds (D : Durable) : List Nat := (idsOf D).filter (fun i => (getBlob D.blobs i).isSome)

theorem loadNodes_spec {ml : Nat} {blobs : List (Nat × Blob)} :
    ∀ (ids : List Nat) {ns : NodeMap} {miss : List Nat}, loadNodes ml blobs ids = .ok (ns, miss) →
      keys ns = ids.filter (fun i => (getBlob blobs i).isSome) ∧
      miss = ids.filter (fun i => (getBlob blobs i).isNone) ∧
      ∀ p ∈ ns, ∃ b, getBlob blobs p.1 = some b ∧ validBlob ml p.1 b = true ∧ p.2 = { layer := b.layer, nbrs := b.nbrs } := by
  intro ids
  induction ids with
  | nil =>
    intro ns miss h
    simp only [loadNodes, Except.ok.injEq, Prod.mk.injEq] at h
    obtain ⟨h1, h2⟩ := h
    subst h1; subst h2
    simp [keys]
  | cons i r ih =>
    intro ns miss h
    unfold loadNodes at h
    split at h
    · simp at h
    · rename_i ns0 miss0 hr
      obtain ⟨k0, m0, c0⟩ := ih hr
      split at h
      · rename_i hb
        simp only [Except.ok.injEq, Prod.mk.injEq] at h
        obtain ⟨h1, h2⟩ := h
        subst h1; subst h2
        refine ⟨?_, ?_, c0⟩
        · simp [hb, k0]
        · simp [hb, m0]
      · rename_i b hb
        split at h
        · rename_i hv
          simp only [Except.ok.injEq, Prod.mk.injEq] at h
          obtain ⟨h1, h2⟩ := h
          subst h1; subst h2
          refine ⟨?_, ?_, ?_⟩
          · simpa [hb, keys] using k0
          · simp [hb, m0]
          · intro p hp
            rcases List.mem_cons.mp hp with hp | hp
            · subst hp
              exact ⟨b, hb, hv, rfl⟩
            · exact c0 p hp
        · simp at h

def BlobsValid (ml : Nat) (blobs : List (Nat × Blob)) : Prop :=
  ∀ i b, getBlob blobs i = some b → validBlob ml i b = true

theorem loadNodes_ok {ml : Nat} {blobs : List (Nat × Blob)} (h : BlobsValid ml blobs) :
    ∀ ids : List Nat, ∃ r, loadNodes ml blobs ids = .ok r := by
  intro ids
  induction ids with
  | nil => exact ⟨_, rfl⟩
  | cons i r ih =>
    obtain ⟨⟨ns, miss⟩, hr⟩ := ih
    unfold loadNodes
    rw [hr]
    dsimp only
    cases hb : getBlob blobs i with
    | none => exact ⟨_, rfl⟩
    | some b =>
      dsimp only
      rw [h i b hb]
      exact ⟨_, rfl⟩

/-! ### LoadedInv -/

structure LoadedInv (D : Durable) (s : Index) : Prop where
  /-- the id set is the durable id set minus the ids whose blob is missing -/
  ids_eq : s.ids = presentIds D
  /-- the node map has exactly these keys -/
  dom_eq : keys s.nodes = s.ids
  /-- no edge to a dropped id -/
  no_edge : ∀ p ∈ s.nodes, ∀ l ∈ p.2.nbrs, ∀ x ∈ l, x ∉ missingIds D
  /-- the entry point is a loaded node, or the graph is empty -/
  entry_ok : EntryOk s
  /-- tombstones and configuration are the metadata object's -/
  meta_eq : ∀ m, D.metaObj = some m → s.removed = m.removed ∧ s.maxLayers = clampLayers m.maxLayers
  /-- every node is its blob, minus the pruned edges -/
  content : ∀ p ∈ s.nodes, ∃ b, getBlob D.blobs p.1 = some b ∧ p.2.layer = b.layer ∧
    p.2.nbrs = b.nbrs.map (fun l => l.filter (fun x => !(missingIds D).contains x))

theorem keys_pruneMissing (miss : List Nat) (m : NodeMap) : keys (pruneMissing miss m) = keys m := by
  simp [keys, pruneMissing, List.map_map, Function.comp_def]

theorem filter_not_contains_nil (l : List Nat) : l.filter (fun x => !([] : List Nat).contains x) = l := by
  simp

theorem filter_present (ids : List Nat) (f : Nat → Bool) :
    ids.filter (fun x => !(ids.filter (fun i => !f i)).contains x) = ids.filter f := by
  apply List.filter_congr
  intro x hx
  cases hf : f x
  · simp [hf, hx]
  · simp [hf]

theorem load_inv {D : Durable} {pick : Nat × Nat} {s : Index} (h : load D pick = .ok s) : LoadedInv D s := by
  unfold load at h
  split at h
  · rename_i m ids hm hi
    have hidsOf : idsOf D = ids := by simp [idsOf, hi]
    dsimp only at h
    split at h
    · -- empty id set: early return
      rename_i hemp
      simp only [Except.ok.injEq] at h
      subst h
      have hnil : ids = [] := by simpa using hemp
      subst hnil
      refine ⟨?_, ?_, ?_, ?_, ?_, ?_⟩
      · simp [presentIds, hidsOf]
      · simp [keys]
      · intro p hp; simp at hp
      · left; rfl
      · intro m' hm'
        rw [hm] at hm'
        simp only [Option.some.injEq] at hm'
        subst hm'
        exact ⟨rfl, rfl⟩
      · intro p hp; simp at hp
    · split at h
      · simp at h
      · rename_i ns miss hl
        obtain ⟨hk, hmiss, hc⟩ := loadNodes_spec ids hl
        have hmissD : missingIds D = miss := by
          simp only [missingIds, hidsOf, hmiss]
        have hmeta : ∀ (sr : List Nat) (sm : Nat) (m' : Meta), sr = m.removed → sm = clampLayers m.maxLayers →
            D.metaObj = some m' → sr = m'.removed ∧ sm = clampLayers m'.maxLayers := by
          intro sr sm m' h1 h2 hm'
          rw [hm] at hm'
          simp only [Option.some.injEq] at hm'
          subst hm'
          exact ⟨h1, h2⟩
        split at h
        · -- some blobs are missing
          rename_i hne
          simp only [Except.ok.injEq] at h
          subst h
          refine ⟨?_, ?_, ?_, ?_, ?_, ?_⟩
          · simp only [presentIds, hidsOf, hmiss]
            have := filter_present ids (fun i => (getBlob D.blobs i).isSome)
            simpa using this
          · simp only [keys_pruneMissing, hk, hmiss]
            have := filter_present ids (fun i => (getBlob D.blobs i).isSome)
            simpa using this.symm
          · intro p hp l hlm x hx
            rw [hmissD]
            simp only [pruneMissing, List.mem_map] at hp
            obtain ⟨q, hq, rfl⟩ := hp
            simp only [List.mem_map] at hlm
            obtain ⟨l0, hl0, rfl⟩ := hlm
            simp only [List.mem_filter, Bool.not_eq_true', List.contains_eq_mem, decide_eq_false_iff_not] at hx
            exact hx.2
          · unfold EntryOk
            dsimp only
            cases hch : choose (pruneMissing miss ns) pick with
            | none => left; exact choose_none hch
            | some p => right; exact choose_mem hch
          · intro m' hm'
            exact hmeta _ _ m' rfl rfl hm'
          · intro p hp
            simp only [pruneMissing, List.mem_map] at hp
            obtain ⟨q, hq, rfl⟩ := hp
            obtain ⟨b, hb, _, hq2⟩ := hc q hq
            refine ⟨b, hb, ?_, ?_⟩
            · simp [hq2]
            · simp [hq2, hmissD]
        · rename_i hne
          have hnil : miss = [] := by simpa using hne
          have hpres : ids.filter (fun i => (getBlob D.blobs i).isSome) = ids := by
            rw [List.filter_eq_self]
            intro i hi'
            cases hb : getBlob D.blobs i with
            | some b => rfl
            | none =>
              have : i ∈ ids.filter (fun i => (getBlob D.blobs i).isNone) := by
                simp [List.mem_filter, hi', hb]
              rw [← hmiss, hnil] at this
              simp at this
          have hcont : ∀ p ∈ ns, ∃ b, getBlob D.blobs p.1 = some b ∧ p.2.layer = b.layer ∧
              p.2.nbrs = b.nbrs.map (fun l => l.filter (fun x => !(missingIds D).contains x)) := by
            intro p hp
            obtain ⟨b, hb, _, hp2⟩ := hc p hp
            refine ⟨b, hb, by simp [hp2], ?_⟩
            have hid : (fun l : List Nat => l.filter (fun _ => true)) = id := by
              funext l; simp
            simp [hp2, hmissD, hnil, hid]
          have hnoedge : ∀ p ∈ ns, ∀ l ∈ p.2.nbrs, ∀ x ∈ l, x ∉ missingIds D := by
            intro p _ l _ x _
            rw [hmissD, hnil]
            simp
          split at h
          · -- dangling entry point: repaired
            simp only [Except.ok.injEq] at h
            subst h
            refine ⟨?_, ?_, hnoedge, ?_, ?_, hcont⟩
            · simp only [presentIds, hidsOf, hpres]
            · simp only [hk, hpres]
            · unfold EntryOk
              dsimp only
              cases hch : choose ns pick with
              | none => left; exact choose_none hch
              | some p => right; exact choose_mem hch
            · intro m' hm'
              exact hmeta _ _ m' rfl rfl hm'
          · rename_i hent
            simp only [Except.ok.injEq] at h
            subst h
            refine ⟨?_, ?_, hnoedge, ?_, ?_, hcont⟩
            · simp only [presentIds, hidsOf, hpres]
            · simp only [hk, hpres]
            · right
              dsimp only
              have : (getNode ns (m.entry.1, min m.entry.2 (clampLayers m.maxLayers - 1)).1).isSome = true := by
                cases hg : getNode ns (m.entry.1, min m.entry.2 (clampLayers m.maxLayers - 1)).1 with
                | none => simp [hg] at hent
                | some n => rfl
              exact getNode_isSome_iff.mp this
            · intro m' hm'
              exact hmeta _ _ m' rfl rfl hm'
  · simp at h

/-! ### load cannot fail when every blob is valid -/

structure DurableWF (ml : Nat) (D : Durable) : Prop where
  hasMeta : ∃ m, D.metaObj = some m ∧ clampLayers m.maxLayers = ml
  hasIds : ∃ l, D.ids = some l
  valid : BlobsValid ml D.blobs

theorem load_ok {ml : Nat} {D : Durable} (h : DurableWF ml D) (pick : Nat × Nat) : ∃ s, load D pick = .ok s := by
  obtain ⟨m, hm, hml⟩ := h.hasMeta
  obtain ⟨ids, hi⟩ := h.hasIds
  unfold load
  rw [hm, hi]
  dsimp only
  split
  · exact ⟨_, rfl⟩
  · obtain ⟨⟨ns, miss⟩, hr⟩ := loadNodes_ok (hml ▸ h.valid) ids
    rw [hr]
    dsimp only
    split
    · exact ⟨_, rfl⟩
    · split <;> exact ⟨_, rfl⟩

/-! ### writes keep the durable state loadable -/

def WriteOk (ml : Nat) : Write → Prop
  | .node i b => validBlob ml i b = true
  | .metaPut m => clampLayers m.maxLayers = ml
  | _ => True

theorem applyWrite_wf {ml : Nat} {D : Durable} {w : Write} (h : DurableWF ml D) (hw : WriteOk ml w) :
    DurableWF ml (applyWrite D w) := by
  cases w with
  | node i b =>
    refine ⟨h.hasMeta, h.hasIds, ?_⟩
    intro j b' hj
    simp only [applyWrite, getBlob_put] at hj
    by_cases hij : i = j
    · subst hij
      simp only [if_true, Option.some.injEq] at hj
      subst hj
      exact hw
    · simp only [hij, if_false] at hj
      exact h.valid j b' hj
  | ids l => exact ⟨h.hasMeta, ⟨l, rfl⟩, h.valid⟩
  | metaPut m => exact ⟨⟨m, rfl, hw⟩, h.hasIds, h.valid⟩
  | del i =>
    refine ⟨h.hasMeta, h.hasIds, ?_⟩
    intro j b' hj
    simp only [applyWrite, getBlob_filter] at hj
    by_cases hij : i = j
    · simp [hij] at hj
    · simp only [hij, if_false] at hj
      exact h.valid j b' hj

theorem applyWrites_wf {ml : Nat} : ∀ (ws : List Write) {D : Durable}, DurableWF ml D → (∀ w ∈ ws, WriteOk ml w) →
    DurableWF ml (applyWrites D ws) := by
  intro ws
  induction ws with
  | nil => intro D h _; exact h
  | cons w r ih =>
    intro D h hw
    simp only [applyWrites, List.foldl_cons]
    exact ih (applyWrite_wf h (hw w (List.mem_cons_self ..))) (fun w' hw' => hw w' (List.mem_cons_of_mem _ hw'))

/-- every node has `layer + 1` neighbour lists and a layer below `max_layers`
(what `insert` builds and `validate_loaded_node` checks) -/
def NodesWF (ml : Nat) (m : NodeMap) : Prop :=
  ∀ i n, getNode m i = some n → n.nbrs.length = n.layer + 1 ∧ n.layer < ml

theorem flushWrites_eq (s : Index) :
    flushWrites s = if flushPending s then nodeWrites s ++ [.ids s.ids, .metaPut (metaOf s)] else [] := by
  simp [flushWrites, Gen.HnswOrder.gen_flush_order, phaseWrites]

theorem mem_nodeWrites {s : Index} {w : Write} (h : w ∈ nodeWrites s) :
    ∃ i n, i ∈ s.dirty ∧ getNode s.nodes i = some n ∧ w = .node i (blobOf i n) := by
  simp only [nodeWrites, List.mem_filterMap] at h
  obtain ⟨i, hi, hw⟩ := h
  cases hg : getNode s.nodes i with
  | none => simp [hg] at hw
  | some n =>
    simp only [hg, Option.some.injEq] at hw
    exact ⟨i, n, hi, hg, hw.symm⟩

theorem wrapperWrites_ok (s : Index) (hs : NodesWF (clampLayers s.maxLayers) s.nodes) :
    ∀ w ∈ wrapperWrites s, WriteOk (clampLayers s.maxLayers) w := by
  intro w hw
  simp only [wrapperWrites, List.mem_append, flushWrites_eq] at hw
  rcases hw with hw | hw
  · split at hw
    · simp only [List.mem_append, List.mem_cons, List.not_mem_nil, or_false] at hw
      rcases hw with hw | hw | hw
      · obtain ⟨i, n, _, hg, rfl⟩ := mem_nodeWrites hw
        have := hs i n hg
        simp [WriteOk, validBlob, blobOf, this.1, this.2]
      · subst hw; trivial
      · subst hw; simp [WriteOk, metaOf]
    · simp at hw
  · simp only [purgeWrites, List.mem_map] at hw
    obtain ⟨i, _, rfl⟩ := hw
    trivial

/-! ### the generated order nodes → ids → metadata → purge never leaves an id without its blob -/

/-- every id the ids object names has a blob -/
def Cov (D : Durable) : Prop := ∀ i ∈ idsOf D, (getBlob D.blobs i).isSome = true

/-- every live id of the in-memory index has a blob -/
def Full (s : Index) (D : Durable) : Prop := ∀ i ∈ s.ids, (getBlob D.blobs i).isSome = true

theorem missing_nil_of_cov {D : Durable} (h : Cov D) : missingIds D = [] := by
  unfold missingIds
  rw [List.filter_eq_nil_iff]
  intro i hi
  have := h i hi
  cases hb : getBlob D.blobs i <;> simp_all

theorem applyWrites_append (D : Durable) (a b : List Write) :
    applyWrites D (a ++ b) = applyWrites (applyWrites D a) b := by
  simp [applyWrites, List.foldl_append]

def IsNodeWrite : Write → Prop
  | .node _ _ => True
  | _ => False

theorem applyWrites_nodes : ∀ (ws : List Write) (D : Durable), (∀ w ∈ ws, IsNodeWrite w) →
    idsOf (applyWrites D ws) = idsOf D ∧ (applyWrites D ws).metaObj = D.metaObj ∧
    (∀ i, (getBlob D.blobs i).isSome = true → (getBlob (applyWrites D ws).blobs i).isSome = true) ∧
    (∀ i b, Write.node i b ∈ ws → (getBlob (applyWrites D ws).blobs i).isSome = true) := by
  intro ws
  induction ws with
  | nil => intro D _; simp [applyWrites]
  | cons w r ih =>
    intro D hw
    have hwn := hw w (List.mem_cons_self ..)
    cases w with
    | node j bj =>
      have hr := ih (applyWrite D (.node j bj)) (fun w' hw' => hw w' (List.mem_cons_of_mem _ hw'))
      simp only [applyWrites, List.foldl_cons] at hr ⊢
      obtain ⟨h1, h2, h3, h4⟩ := hr
      have hgrow : ∀ i, (getBlob D.blobs i).isSome = true →
          (getBlob (applyWrite D (.node j bj)).blobs i).isSome = true := by
        intro i hi
        simp only [applyWrite, getBlob_put]
        by_cases hji : j = i <;> simp [hji, hi]
      refine ⟨by rw [h1]; rfl, by rw [h2]; rfl, fun i hi => h3 i (hgrow i hi), ?_⟩
      intro i b hm
      rcases List.mem_cons.mp hm with hm | hm
      · simp only [Write.node.injEq] at hm
        apply h3
        simp only [applyWrite, getBlob_put]
        simp [hm.1]
      · exact h4 i b hm
    | ids l => exact absurd hwn (by simp [IsNodeWrite])
    | metaPut m => exact absurd hwn (by simp [IsNodeWrite])
    | del i => exact absurd hwn (by simp [IsNodeWrite])

/-- state of the durable objects once the ids object has been replaced -/
structure AfterIds (s : Index) (m0 : Option Meta) (D : Durable) : Prop where
  full : Full s D
  ids_new : idsOf D = s.ids
  meta_old_or_new : D.metaObj = m0 ∨ D.metaObj = some (metaOf s)

def Phase2Ok (s : Index) : Write → Prop
  | .metaPut m => m = metaOf s
  | .del i => i ∉ s.ids
  | _ => False

theorem applyWrites_phase2 {s : Index} {m0 : Option Meta} : ∀ (ws : List Write) (D : Durable),
    (∀ w ∈ ws, Phase2Ok s w) → AfterIds s m0 D → AfterIds s m0 (applyWrites D ws) := by
  intro ws
  induction ws with
  | nil => intro D _ h; exact h
  | cons w r ih =>
    intro D hw h
    simp only [applyWrites, List.foldl_cons]
    apply ih _ (fun w' hw' => hw w' (List.mem_cons_of_mem _ hw'))
    have hwo := hw w (List.mem_cons_self ..)
    cases w with
    | node j bj => exact absurd hwo (by simp [Phase2Ok])
    | ids l => exact absurd hwo (by simp [Phase2Ok])
    | metaPut m =>
      simp only [Phase2Ok] at hwo
      subst hwo
      exact ⟨h.full, h.ids_new, Or.inr rfl⟩
    | del i =>
      simp only [Phase2Ok] at hwo
      refine ⟨?_, h.ids_new, h.meta_old_or_new⟩
      intro j hj
      simp only [applyWrite, getBlob_filter]
      have hne : i ≠ j := fun e => hwo (e ▸ hj)
      simp only [hne, if_false]
      exact h.full j hj

theorem AfterIds.cov {s : Index} {m0 : Option Meta} {D : Durable} (h : AfterIds s m0 D) : Cov D := by
  intro i hi
  rw [h.ids_new] at hi
  exact h.full i hi

theorem take_append_cases {α : Type} (A B : List α) :
    ∀ k, (∃ j, (A ++ B).take k = A.take j) ∨ (∃ j, (A ++ B).take k = A ++ B.take j) := by
  induction A with
  | nil => intro k; right; exact ⟨k, by simp⟩
  | cons a r ih =>
    intro k
    cases k with
    | zero => left; exact ⟨0, by simp⟩
    | succ k =>
      rcases ih k with ⟨j, hj⟩ | ⟨j, hj⟩
      · left; exact ⟨j + 1, by simp [hj]⟩
      · right; exact ⟨j, by simp [hj]⟩

theorem purgeDeletes_eq (s : Index) (i : Nat) : purgeDeletes s i = (getNode s.nodes i).isNone := by
  simp [purgeDeletes, Gen.HnswOrder.gen_purge_rule]

theorem purge_phase2 (s : Index) (hlive : ∀ i ∈ s.ids, (getNode s.nodes i).isSome = true) :
    ∀ w ∈ purgeWrites s, Phase2Ok s w := by
  intro w hw
  simp only [purgeWrites, List.mem_map, List.mem_filter] at hw
  obtain ⟨i, ⟨_, hnone⟩, rfl⟩ := hw
  rw [purgeDeletes_eq] at hnone
  simp only [Phase2Ok]
  intro hi
  have := hlive i hi
  cases hg : getNode s.nodes i <;> simp_all

/-- what a cut of one flush (+ purge) can leave: either the ids and metadata objects are still the
old ones and blobs were only added, or the ids object is the new one, every live id has its blob,
and the metadata object is the old or the new one. -/
theorem flush_prefix_state (D : Durable) (s : Index) (hcov : Cov D)
    (hS : ∀ i ∈ s.ids, (getBlob D.blobs i).isSome = true ∨ (i ∈ s.dirty ∧ (getNode s.nodes i).isSome = true))
    (hlive : ∀ i ∈ s.ids, (getNode s.nodes i).isSome = true)
    (hnp : flushPending s = false → idsOf D = s.ids) (cut : Nat) :
    let D' := applyWrites D ((wrapperWrites s).take cut)
    (idsOf D' = idsOf D ∧ D'.metaObj = D.metaObj ∧ Cov D') ∨ AfterIds s D.metaObj D' := by
  intro D'
  have hP := purge_phase2 s hlive
  by_cases hpend : flushPending s = true
  · have hww : wrapperWrites s = nodeWrites s ++ (Write.ids s.ids :: Write.metaPut (metaOf s) :: purgeWrites s) := by
      simp [wrapperWrites, flushWrites_eq, hpend]
    have hA : ∀ w ∈ nodeWrites s, IsNodeWrite w := by
      intro w hw
      obtain ⟨i, n, _, _, rfl⟩ := mem_nodeWrites hw
      trivial
    rcases take_append_cases (nodeWrites s) (Write.ids s.ids :: Write.metaPut (metaOf s) :: purgeWrites s) cut with
      ⟨j, hj⟩ | ⟨j, hj⟩
    · -- the cut is inside the node blobs
      left
      have hD' : D' = applyWrites D ((nodeWrites s).take j) := by
        show applyWrites D ((wrapperWrites s).take cut) = _
        rw [hww, hj]
      obtain ⟨h1, h2, h3, _⟩ := applyWrites_nodes ((nodeWrites s).take j) D
        (fun w hw => hA w (List.mem_of_mem_take hw))
      rw [hD']
      refine ⟨h1, h2, ?_⟩
      intro i hi
      rw [h1] at hi
      exact h3 i (hcov i hi)
    · -- all node blobs are durable
      obtain ⟨h1, h2, h3, h4⟩ := applyWrites_nodes (nodeWrites s) D hA
      have hfull : Full s (applyWrites D (nodeWrites s)) := by
        intro i hi
        rcases hS i hi with hb | ⟨hd, hl⟩
        · exact h3 i hb
        · cases hg : getNode s.nodes i with
          | none => simp [hg] at hl
          | some n =>
            apply h4 i (blobOf i n)
            simp only [nodeWrites, List.mem_filterMap]
            exact ⟨i, hd, by simp [hg]⟩
      have hD' : D' = applyWrites (applyWrites D (nodeWrites s))
          ((Write.ids s.ids :: Write.metaPut (metaOf s) :: purgeWrites s).take j) := by
        show applyWrites D ((wrapperWrites s).take cut) = _
        rw [hww, hj, applyWrites_append]
      rw [hD']
      cases j with
      | zero =>
        left
        have hnil : applyWrites (applyWrites D (nodeWrites s))
            ((Write.ids s.ids :: Write.metaPut (metaOf s) :: purgeWrites s).take 0) = applyWrites D (nodeWrites s) := by
          simp [applyWrites]
        rw [hnil]
        exact ⟨h1, h2, fun i hi => h3 i (hcov i (h1 ▸ hi))⟩
      | succ j =>
        right
        have hcons : applyWrites (applyWrites D (nodeWrites s))
            ((Write.ids s.ids :: Write.metaPut (metaOf s) :: purgeWrites s).take (j + 1)) =
            applyWrites (applyWrite (applyWrites D (nodeWrites s)) (Write.ids s.ids))
              ((Write.metaPut (metaOf s) :: purgeWrites s).take j) := by
          simp [applyWrites]
        rw [hcons]
        have h0 : AfterIds s D.metaObj (applyWrite (applyWrites D (nodeWrites s)) (Write.ids s.ids)) :=
          ⟨hfull, rfl, Or.inl h2⟩
        apply applyWrites_phase2 _ _ _ h0
        intro w hw
        have := List.mem_of_mem_take hw
        rcases List.mem_cons.mp this with hw' | hw'
        · subst hw'; simp [Phase2Ok]
        · exact hP w hw'
  · -- nothing pending: only the purge runs
    have hpf : flushPending s = false := by simpa using hpend
    right
    have hdirty : s.dirty = [] := by
      simp only [flushPending, Bool.not_eq_false', Bool.and_eq_true, decide_eq_true_eq, List.isEmpty_iff] at hpf
      exact hpf.2
    have h0 : AfterIds s D.metaObj D := by
      refine ⟨?_, hnp hpf, Or.inl rfl⟩
      intro i hi
      rcases hS i hi with hb | ⟨hd, _⟩
      · exact hb
      · rw [hdirty] at hd; simp at hd
    have hww : wrapperWrites s = purgeWrites s := by
      simp [wrapperWrites, flushWrites_eq, hpf]
    show AfterIds s D.metaObj (applyWrites D ((wrapperWrites s).take cut))
    rw [hww]
    exact applyWrites_phase2 _ _ (fun w hw => hP w (List.mem_of_mem_take hw)) h0

/-! ### decidable forms of the hypotheses (used by the non-vacuity examples and the driver) -/

theorem getNode_some_mem {m : NodeMap} {i : Nat} {n : Node} (h : getNode m i = some n) : (i, n) ∈ m := by
  induction m with
  | nil => simp [getNode] at h
  | cons p r ih =>
    obtain ⟨j, nd⟩ := p
    simp only [getNode] at h
    by_cases hj : j = i
    · simp only [hj, if_true, Option.some.injEq] at h
      subst h; subst hj
      exact List.mem_cons_self ..
    · simp only [hj, if_false] at h
      exact List.mem_cons_of_mem _ (ih h)

theorem getBlob_some_mem {m : List (Nat × Blob)} {i : Nat} {b : Blob} (h : getBlob m i = some b) : (i, b) ∈ m := by
  induction m with
  | nil => simp [getBlob] at h
  | cons p r ih =>
    obtain ⟨j, nd⟩ := p
    simp only [getBlob] at h
    by_cases hj : j = i
    · simp only [hj, if_true, Option.some.injEq] at h
      subst h; subst hj
      exact List.mem_cons_self ..
    · simp only [hj, if_false] at h
      exact List.mem_cons_of_mem _ (ih h)

def nodesWFb (ml : Nat) (m : NodeMap) : Bool :=
  m.all (fun p => p.2.nbrs.length == p.2.layer + 1 && decide (p.2.layer < ml))

theorem NodesWF_of_b {ml : Nat} {m : NodeMap} (h : nodesWFb ml m = true) : NodesWF ml m := by
  intro i n hg
  have := List.all_eq_true.mp h (i, n) (getNode_some_mem hg)
  simpa using this

def blobsValidb (ml : Nat) (blobs : List (Nat × Blob)) : Bool := blobs.all (fun p => validBlob ml p.1 p.2)

theorem BlobsValid_of_b {ml : Nat} {blobs : List (Nat × Blob)} (h : blobsValidb ml blobs = true) : BlobsValid ml blobs := by
  intro i b hg
  exact List.all_eq_true.mp h (i, b) (getBlob_some_mem hg)

theorem presentIds_of_cov {D : Durable} (h : Cov D) : presentIds D = idsOf D := by
  unfold presentIds
  rw [List.filter_eq_self]
  exact h

end AndaVerif.Hnsw
