import AndaVerif.Proofs.DurFlush
/-
C01 helper lemmas, part 5: `Collection::open`. From ANY durable state inside `DurInv` — whatever
mixture of half-finished operations, half-finished flushes and half-finished earlier recoveries
produced it — load · replay · repair-scan yields a handle in `Sync` with the durable state:
the bitmap is exactly the set of stored documents, the in-memory indexes are exactly their keys,
the id allocator is above every stored document.
-/
namespace AndaVerif.Durability
open AndaVerif.Gen.CollectionOrder

theorem scan_wm : scanUsesWatermark = true := by decide

/-- `v'` extends `v`: an index that is clean in `v'` was clean in `v` and did not change -/
def Ext (v v' : Volatile) : Prop :=
  ∀ ix, ix ∉ v'.dirty → ix ∉ v.dirty ∧ ∀ i k, k.1 = ix → v'.idx i k = v.idx i k

theorem Ext.refl (v : Volatile) : Ext v v := fun _ h => ⟨h, fun _ _ _ => rfl⟩

theorem Ext.trans {a b c : Volatile} (h1 : Ext a b) (h2 : Ext b c) : Ext a c := by
  intro ix h
  obtain ⟨hb, e2⟩ := h2 ix h
  obtain ⟨ha, e1⟩ := h1 ix hb
  exact ⟨ha, fun i k hk => by rw [e2 i k hk, e1 i k hk]⟩

theorem Ext.del (v : Volatile) (id : Nat) (ks : List (Nat × Nat)) {v' : Volatile}
    (hi : v'.idx = idxDel v.idx id ks) (hd : v'.dirty = touchDel v.idx v.dirty id ks) : Ext v v' := by
  intro ix h
  rw [hd] at h
  exact ⟨(not_mem_touchDel h).1, fun i k hk => by rw [hi]; exact idxDel_clean h i k hk⟩

theorem Ext.add (v : Volatile) (id : Nat) (ks : List (Nat × Nat)) {v' : Volatile}
    (hi : v'.idx = idxAdd v.idx id ks) (hd : v'.dirty = touchAdd v.idx v.dirty id ks) : Ext v v' := by
  intro ix h
  rw [hd] at h
  exact ⟨(not_mem_touchAdd h).1, fun i k hk => by rw [hi]; exact idxAdd_clean h i k hk⟩

/-! ### first loop of the replay: both images leave the indexes -/

def anyImg (its : List Intent) (i : Nat) (k : Nat × Nat) : Bool :=
  its.any (fun it => it.id == i && imgHas it k)

def aff (its : List Intent) (i : Nat) : Bool := its.any (fun it => it.id == i)

theorem removeImages_spec (v : Volatile) (it : Intent) :
    Ext v (removeImages v it) ∧ (removeImages v it).ids = v.ids ∧ (removeImages v it).maxId = v.maxId ∧
      (removeImages v it).version = v.version ∧ (removeImages v it).savedVer = v.savedVer ∧
      (removeImages v it).wm = v.wm ∧ (removeImages v it).cp = v.cp ∧
      (removeImages v it).poisoned = v.poisoned ∧ (removeImages v it).closed = v.closed ∧
      ∀ i k, (removeImages v it).idx i k = (v.idx i k && !(it.id == i && imgHas it k)) := by
  refine ⟨?_, rfl, rfl, rfl, rfl, rfl, rfl, rfl, rfl, ?_⟩
  · unfold removeImages
    exact (Ext.del v it.id _ (v' := { v with idx := idxDel v.idx it.id _, dirty := touchDel v.idx v.dirty it.id _ }) rfl rfl).trans
      (Ext.del _ it.id _ rfl rfl)
  · intro i k
    unfold removeImages imgHas
    simp only [idxDel]
    by_cases hi : i = it.id
    · subst hi
      cases hp : it.prev <;> cases hn : it.next <;> simp [keysOf, Bool.and_assoc]
    · have : (it.id == i) = false := by simp; exact fun h => hi h.symm
      simp [hi, this]

theorem removeImages_fold (its : List Intent) : ∀ v : Volatile,
    Ext v (its.foldl removeImages v) ∧ (its.foldl removeImages v).ids = v.ids ∧
      (its.foldl removeImages v).maxId = v.maxId ∧ (its.foldl removeImages v).version = v.version ∧
      (its.foldl removeImages v).savedVer = v.savedVer ∧ (its.foldl removeImages v).wm = v.wm ∧
      (its.foldl removeImages v).cp = v.cp ∧
      (its.foldl removeImages v).poisoned = v.poisoned ∧ (its.foldl removeImages v).closed = v.closed ∧
      ∀ i k, (its.foldl removeImages v).idx i k = (v.idx i k && !anyImg its i k) := by
  induction its with
  | nil => intro v; simp [anyImg, Ext.refl]
  | cons it r ih =>
    intro v
    obtain ⟨e, a1, a2, a3, a4, a5, a6, a7, a8, a9⟩ := ih (removeImages v it)
    obtain ⟨e0, b1, b2, b3, b4, b5, b6, b7, b8, b9⟩ := removeImages_spec v it
    simp only [List.foldl_cons]
    refine ⟨e0.trans e, a1.trans b1, a2.trans b2, a3.trans b3, a4.trans b4, a5.trans b5, a6.trans b6, a7.trans b7, a8.trans b8, ?_⟩
    intro i k
    rw [a9, b9]
    simp only [anyImg, List.any_cons]
    cases v.idx i k <;> cases (it.id == i && imgHas it k) <;> simp

/-! ### second loop: the stored document is authoritative for every affected id -/

theorem reconcileId_spec (D : Durable) (v : Volatile) (id : Nat) :
    Ext v (reconcileId D v id) ∧ v.maxId ≤ (reconcileId D v id).maxId ∧
      ((D.docs id).isSome = true → id ≤ (reconcileId D v id).maxId) ∧
      (reconcileId D v id).version = v.version ∧ (reconcileId D v id).savedVer = v.savedVer ∧
      (reconcileId D v id).wm = v.wm ∧ (reconcileId D v id).cp = v.cp ∧
      (reconcileId D v id).poisoned = v.poisoned ∧ (reconcileId D v id).closed = v.closed ∧
      (∀ i, (reconcileId D v id).ids i = if i = id then (D.docs i).isSome else v.ids i) ∧
      ∀ i k, (reconcileId D v id).idx i k = (v.idx i k || (decide (i = id) && keysOf (D.docs i) k)) := by
  unfold reconcileId
  cases hd : D.docs id with
  | none =>
    refine ⟨Ext.refl _, Nat.le_refl _, by simp, rfl, rfl, rfl, rfl, rfl, rfl, ?_, ?_⟩
    · intro i
      by_cases hi : i = id
      · subst hi; simp [setB, hd]
      · simp [setB, hi]
    · intro i k
      by_cases hi : i = id
      · subst hi; simp [hd, keysOf]
      · simp [hi]
  | some cur =>
    refine ⟨?_, Nat.le_max_left _ _, fun _ => Nat.le_max_right _ _, rfl, rfl, rfl, rfl, rfl, rfl, ?_, ?_⟩
    · exact (Ext.del v id cur.keys (v' := { v with idx := idxDel v.idx id cur.keys, dirty := touchDel v.idx v.dirty id cur.keys }) rfl rfl).trans
        (Ext.add _ id cur.keys rfl rfl)
    · intro i
      by_cases hi : i = id
      · subst hi; simp [setB, hd]
      · simp [setB, hi]
    · intro i k
      simp only [idxAdd, idxDel]
      by_cases hi : i = id
      · subst hi
        simp only [if_true, hd, keysOf, decide_true, Bool.true_and]
        cases v.idx i k <;> cases decide (k ∈ cur.keys) <;> rfl
      · simp [hi]

theorem reconcile_fold (D : Durable) (its : List Intent) : ∀ v : Volatile,
    let v' := its.foldl (fun v it => reconcileId D v it.id) v
    Ext v v' ∧ v.maxId ≤ v'.maxId ∧ (∀ i, aff its i = true → (D.docs i).isSome = true → i ≤ v'.maxId) ∧
      v'.version = v.version ∧ v'.savedVer = v.savedVer ∧ v'.wm = v.wm ∧ v'.cp = v.cp ∧
      v'.poisoned = v.poisoned ∧ v'.closed = v.closed ∧
      (∀ i, v'.ids i = if aff its i then (D.docs i).isSome else v.ids i) ∧
      ∀ i k, v'.idx i k = (v.idx i k || (aff its i && keysOf (D.docs i) k)) := by
  induction its with
  | nil => intro v; simp [aff, Ext.refl]
  | cons it r ih =>
    intro v
    obtain ⟨e, a1, a2, a3, a4, a5, a6, a7, a8, a9, a10⟩ := ih (reconcileId D v it.id)
    obtain ⟨e0, b1, b2, b3, b4, b5, b6, b7, b8, b9, b10⟩ := reconcileId_spec D v it.id
    simp only [List.foldl_cons]
    refine ⟨e0.trans e, Nat.le_trans b1 a1, ?_, a3.trans b3, a4.trans b4, a5.trans b5, a6.trans b6, a7.trans b7, a8.trans b8, ?_, ?_⟩
    · intro i ha hs
      simp only [aff, List.any_cons, Bool.or_eq_true, beq_iff_eq] at ha
      rcases ha with ha | ha
      · subst ha; exact Nat.le_trans (b2 hs) a1
      · exact a2 i ha hs
    · intro i
      rw [a9, b9]
      simp only [aff, List.any_cons]
      by_cases hi : it.id = i
      · subst hi; simp
      · have : (it.id == i) = false := by simpa using hi
        have hi' : ¬ i = it.id := fun h => hi h.symm
        simp [this, hi']
    · intro i k
      rw [a10, b10]
      simp only [aff, List.any_cons]
      by_cases hi : it.id = i
      · subst hi
        cases v.idx it.id k <;> cases keysOf (D.docs it.id) k <;> simp
      · have : (it.id == i) = false := by simpa using hi
        have hi' : ¬ i = it.id := fun h => hi h.symm
        simp [this, hi']

/-! ### the repair scan -/

theorem repairId_spec (D : Durable) (s : Volatile × Nat) (id : Nat) :
    Ext s.1 (repairId D s id).1 ∧ s.1.maxId ≤ (repairId D s id).1.maxId ∧
      ((D.docs id).isSome = true → id ≤ (repairId D s id).1.maxId) ∧
      s.1.version ≤ (repairId D s id).1.version ∧
      ((repairId D s id).1.version = s.1.version → (repairId D s id).1.ids = s.1.ids) ∧
      (repairId D s id).1.savedVer = s.1.savedVer ∧
      (repairId D s id).1.wm = s.1.wm ∧ (repairId D s id).1.cp = s.1.cp ∧ (repairId D s id).1.pending = s.1.pending ∧
      (repairId D s id).1.poisoned = s.1.poisoned ∧ (repairId D s id).1.closed = s.1.closed ∧
      (∀ i, (repairId D s id).1.ids i = (s.1.ids i || (decide (i = id) && (D.docs i).isSome))) ∧
      ∀ i k, (repairId D s id).1.idx i k = (s.1.idx i k || (decide (i = id) && keysOf (D.docs i) k)) := by
  unfold repairId
  cases hd : D.docs id with
  | none =>
    refine ⟨Ext.refl _, Nat.le_refl _, by simp, Nat.le_refl _, fun _ => rfl, rfl, rfl, rfl, rfl, rfl, rfl, ?_, ?_⟩
    · intro i
      by_cases hi : i = id
      · subst hi; simp [hd]
      · simp [hi]
    · intro i k
      by_cases hi : i = id
      · subst hi; simp [hd, keysOf]
      · simp [hi]
  | some doc =>
    refine ⟨Ext.add s.1 id doc.keys rfl rfl, Nat.le_max_left _ _, fun _ => Nat.le_max_right _ _, ?_, ?_, rfl, rfl, rfl, rfl, rfl, rfl, ?_, ?_⟩
    · simp only; split <;> omega
    · simp only
      cases hn : s.1.ids id <;> simp
    · intro i
      simp only
      by_cases hi : i = id
      · subst hi
        cases hn : s.1.ids i <;> simp [setB, hd, hn]
      · cases hn : s.1.ids id <;> simp [setB, hi]
    · intro i k
      simp only [idxAdd]
      by_cases hi : i = id
      · subst hi; simp [hd, keysOf]
      · simp [hi]

theorem repair_fold (D : Durable) (l : List Nat) : ∀ s : Volatile × Nat,
    let s' := l.foldl (repairId D) s
    Ext s.1 s'.1 ∧ s.1.maxId ≤ s'.1.maxId ∧ (∀ i ∈ l, (D.docs i).isSome = true → i ≤ s'.1.maxId) ∧
      s.1.version ≤ s'.1.version ∧ (s'.1.version = s.1.version → s'.1.ids = s.1.ids) ∧
      s'.1.savedVer = s.1.savedVer ∧ s'.1.wm = s.1.wm ∧ s'.1.cp = s.1.cp ∧ s'.1.pending = s.1.pending ∧
      s'.1.poisoned = s.1.poisoned ∧ s'.1.closed = s.1.closed ∧
      (∀ i, s'.1.ids i = (s.1.ids i || (decide (i ∈ l) && (D.docs i).isSome))) ∧
      ∀ i k, s'.1.idx i k = (s.1.idx i k || (decide (i ∈ l) && keysOf (D.docs i) k)) := by
  induction l with
  | nil => intro s; simp [Ext.refl]
  | cons a r ih =>
    intro s
    obtain ⟨e, a1, a2, a3, a4, a5, a6, a7, a8, a9, a10, a11, a12⟩ := ih (repairId D s a)
    obtain ⟨e0, b1, b2, b3, b4, b5, b6, b7, b8, b9, b10, b11, b12⟩ := repairId_spec D s a
    simp only [List.foldl_cons]
    refine ⟨e0.trans e, Nat.le_trans b1 a1, ?_, Nat.le_trans b3 a3, ?_, a5.trans b5, a6.trans b6, a7.trans b7, a8.trans b8, a9.trans b9, a10.trans b10, ?_, ?_⟩
    · intro i hi hs
      rcases List.mem_cons.mp hi with h | h
      · subst h; exact Nat.le_trans (b2 hs) a1
      · exact a2 i h hs
    · intro hv
      have h1 : (repairId D s a).1.version = s.1.version := by omega
      have h2 : (List.foldl (repairId D) (repairId D s a) r).1.version = (repairId D s a).1.version := by omega
      rw [a4 h2, b4 h1]
    · intro i
      rw [a11, b11]
      by_cases hi : i = a
      · subst hi; cases s.1.ids i <;> cases (D.docs i).isSome <;> simp
      · simp [hi, Bool.or_assoc]
    · intro i k
      rw [a12, b12]
      by_cases hi : i = a
      · subst hi; cases s.1.idx i k <;> cases keysOf (D.docs i) k <;> simp
      · simp [hi, Bool.or_assoc]

/-! ### recovery converges -/

theorem aff_iff (D : Durable) (i : Nat) : aff D.intents i = true ↔ hasIntent D i := by
  simp [aff, hasIntent]

theorem anyImg_iff (D : Durable) (i : Nat) (k : Nat × Nat) : anyImg D.intents i k = true ↔ imgKey D i k := by
  simp [anyImg, imgKey]

theorem anyImg_aff {its : List Intent} {i : Nat} {k : Nat × Nat} (h : anyImg its i k = true) : aff its i = true := by
  simp only [anyImg, aff, List.any_eq_true, Bool.and_eq_true] at h ⊢
  obtain ⟨it, hm, hid, _⟩ := h
  exact ⟨it, hm, hid⟩

/-- the handle `Collection::open` builds (before the flush that follows it) -/
structure Recovered (D : Durable) (V : Volatile) : Prop where
  sync : SyncV D V
  alive : V.dead = false
  pending : V.pending = D.intents.map (·.seq)

theorem recoverV_good {D : Durable} (hD : DurInv D) : Recovered D (recoverV D) := by
  unfold recoverV
  -- replay
  have hrep : ∃ v2 : Volatile, replay D (loadV D) = v2 ∧
      Ext (loadV D) v2 ∧ D.metaMax ≤ v2.maxId ∧ (∀ i, aff D.intents i = true → (D.docs i).isSome = true → i ≤ v2.maxId) ∧
      D.metaVer ≤ v2.version ∧ (v2.version = D.metaVer → D.intents = []) ∧ v2.savedVer = D.metaVer ∧
      v2.wm = max D.wm D.metaMax ∧ v2.cp = D.cp ∧ v2.pending = D.intents.map (·.seq) ∧
      v2.poisoned = false ∧ v2.closed = false ∧
      (∀ i, v2.ids i = if aff D.intents i then (D.docs i).isSome else D.ids i) ∧
      ∀ i k, v2.idx i k = ((D.idx i k && !anyImg D.intents i k) || (aff D.intents i && keysOf (D.docs i) k)) := by
    refine ⟨_, rfl, ?_⟩
    unfold replay
    by_cases he : D.intents.isEmpty = true
    · have he' : D.intents = [] := by simpa using he
      simp only [he, if_true]
      refine ⟨Ext.refl _, Nat.le_refl _, ?_, Nat.le_refl _, fun _ => he', rfl, rfl, rfl, by simp [loadV, he'], rfl, rfl, ?_, ?_⟩
      · intro i ha; simp [aff, he'] at ha
      · intro i; simp [aff, he', loadV]
      · intro i k; simp [aff, anyImg, he', loadV]
    · simp only [he, Bool.false_eq_true, if_false]
      obtain ⟨e1, a1, a2, a3, a4, a5, a6, a7, a8, a9⟩ := removeImages_fold D.intents (loadV D)
      obtain ⟨e2, b1, b2, b3, b4, b5, b6, b7, b8, b9, b10⟩ := reconcile_fold D D.intents (D.intents.foldl removeImages (loadV D))
      refine ⟨?_, ?_, ?_, ?_, ?_, ?_, ?_, ?_, by triv, ?_, ?_, ?_, ?_⟩
      · exact fun ix h => (e1.trans e2) ix h
      · rw [a2] at b1; exact b1
      · exact b2
      · show D.metaVer ≤ _ + 1; rw [b3, a3]; simp [loadV]
      · intro hv
        have : (List.foldl (fun v it => reconcileId D v it.id) (List.foldl removeImages (loadV D) D.intents) D.intents).version + 1 = D.metaVer := hv
        rw [b3, a3] at this; simp [loadV] at this
      · show _ = D.metaVer; rw [b4, a4]; rfl
      · show _ = max D.wm D.metaMax; rw [b5, a5]; rfl
      · show _ = D.cp; rw [b6, a6]; rfl
      · show _ = false; rw [b7, a7]; rfl
      · show _ = false; rw [b8, a8]; rfl
      · intro i; show _ = _; rw [b9, a1]; rfl
      · intro i k; show _ = _; rw [b10, a9]; rfl
  obtain ⟨v2, hv2, e2, m2, am2, ver2, verz2, sav2, wm2, cp2, pend2, poi2, clo2, ids2, idx2⟩ := hrep
  rw [hv2]
  -- scan
  unfold scan
  simp only [scan_wm, if_true]
  generalize hW : List.range' (v2.cp + 1) (max v2.maxId v2.wm - v2.cp) = W
  have hmemW : ∀ i, i ∈ W ↔ D.cp < i ∧ i ≤ max v2.maxId v2.wm := by
    intro i
    subst hW
    rw [List.mem_range', cp2]
    constructor
    · rintro ⟨j, hj, rfl⟩; omega
    · intro ⟨h1, h2⟩; exact ⟨i - (D.cp + 1), by omega, by omega⟩
  obtain ⟨e3, c1, c2, c3, c4, c5, c6, c7, c8, c9, c10, c11, c12⟩ := repair_fold D W (v2, 0)
  simp only at e3 c1 c2 c3 c4 c5 c6 c7 c8 c9 c10 c11 c12
  generalize hs3 : List.foldl (repairId D) (v2, 0) W = s3 at *
  -- the final handle differs from `s3.1` only in `version`
  have hbound : ∀ i, (D.docs i).isSome = true → i ≤ max v2.maxId v2.wm := by
    intro i hs
    have := hD.docs_le i hs
    simp only [bound] at this
    omega
  have hinW : ∀ i, (D.docs i).isSome = true → D.cp < i → i ∈ W := fun i hs hc => (hmemW i).2 ⟨hc, hbound i hs⟩
  have hids : ∀ i, s3.1.ids i = (D.docs i).isSome := by
    intro i
    rw [c11, ids2]
    cases hs : (D.docs i).isSome with
    | true =>
      by_cases ha : aff D.intents i = true
      · simp [ha]
      · have ha' : aff D.intents i = false := by simpa using ha
        cases hi : D.ids i with
        | true => simp [ha', hi]
        | false =>
          rcases hD.orphan i hs hi with h | h
          · simp [ha', hi, hinW i hs h]
          · exact absurd ((aff_iff D i).2 h) ha
    | false =>
      have hn : D.docs i = none := by simpa using hs
      by_cases ha : aff D.intents i = true
      · simp [ha, hs]
      · have ha' : aff D.intents i = false := by simpa using ha
        cases hi : D.ids i with
        | true => exact absurd ((aff_iff D i).2 (hD.dead i hn hi)) ha
        | false => simp [ha', hi]
  have hidx : ∀ i k, s3.1.idx i k = keysOf (D.docs i) k := by
    intro i k
    rw [c12, idx2]
    cases hK : keysOf (D.docs i) k with
    | true =>
      have hs : (D.docs i).isSome = true := by
        cases hd : D.docs i with
        | none => simp [hd, keysOf] at hK
        | some _ => rfl
      by_cases ha : aff D.intents i = true
      · simp [ha]
      · have ha' : aff D.intents i = false := by simpa using ha
        have hni : anyImg D.intents i k = false := by
          cases h : anyImg D.intents i k with
          | false => rfl
          | true => exact absurd (anyImg_aff h) ha
        cases hx : D.idx i k with
        | true => simp [hni]
        | false =>
          rcases hD.missing i k hK hx with h | h
          · simp [ha', hinW i hs h]
          · exact absurd ((aff_iff D i).2 h) ha
    | false =>
      cases hx : D.idx i k with
      | false => simp
      | true =>
        have := (anyImg_iff D i k).2 (hD.stale i k hx hK)
        simp [this]
  have hmax : ∀ i, (D.docs i).isSome = true → i ≤ s3.1.maxId := by
    intro i hs
    by_cases hc : D.cp < i
    · exact c2 i (hinW i hs hc) hs
    · have := hD.cp_le
      omega
  have hclean : ∀ ix, ix ∉ s3.1.dirty → ∀ id k, k.1 = ix → D.idx id k = s3.1.idx id k := by
    intro ix h id k hk
    have := (e2.trans e3) ix h
    rw [this.2 id k hk]
    rfl
  have hsaved : s3.1.version ≤ s3.1.savedVer → ∀ id, D.ids id = s3.1.ids id := by
    intro hle id
    rw [c5, sav2] at hle
    have hv : s3.1.version = v2.version := by omega
    have hv2' : v2.version = D.metaVer := by omega
    have hint := verz2 hv2'
    rw [c4 hv, ids2]
    simp [aff, hint]
  have hfin : ∀ V : Volatile, (V = s3.1 ∨ V = { s3.1 with version := s3.1.version + 1 }) → Recovered D V := by
    intro V hV
    have e_ids : V.ids = s3.1.ids := by rcases hV with h | h <;> rw [h]
    have e_max : V.maxId = s3.1.maxId := by rcases hV with h | h <;> rw [h]
    have e_wm : V.wm = s3.1.wm := by rcases hV with h | h <;> rw [h]
    have e_idx : V.idx = s3.1.idx := by rcases hV with h | h <;> rw [h]
    have e_dirty : V.dirty = s3.1.dirty := by rcases hV with h | h <;> rw [h]
    have e_cp : V.cp = s3.1.cp := by rcases hV with h | h <;> rw [h]
    have e_sav : V.savedVer = s3.1.savedVer := by rcases hV with h | h <;> rw [h]
    have e_pend : V.pending = s3.1.pending := by rcases hV with h | h <;> rw [h]
    have e_poi : V.poisoned = s3.1.poisoned := by rcases hV with h | h <;> rw [h]
    have e_clo : V.closed = s3.1.closed := by rcases hV with h | h <;> rw [h]
    have e_ver : s3.1.version ≤ V.version := by rcases hV with h | h <;> rw [h] <;> simp
    refine ⟨⟨⟨⟨?_, ?_, ?_, ?_, ?_, ?_, ?_, ?_⟩, ?_⟩, ?_⟩, ?_, ?_⟩
    · rw [e_max]; omega
    · intro i hs; rw [e_max]; exact hmax i hs
    · rw [e_wm, c6, wm2]; simp only [bound]; omega
    · rw [e_wm, c6, wm2]; omega
    · intro i; rw [e_ids]; exact hids i
    · intro i k; rw [e_idx]; exact hidx i k
    · intro ix h id k hk; rw [e_idx]; exact hclean ix (by rw [← e_dirty]; exact h) id k hk
    · rw [e_cp, c7, cp2]
    · intro hle id
      rw [e_ids]
      exact hsaved (by rw [e_sav] at hle; omega) id
    · rw [e_sav, c5, sav2]; omega
    · simp [Volatile.dead, e_poi, e_clo, c9, c10, poi2, clo2]
    · rw [e_pend, c8, pend2]
  split
  · exact hfin _ (Or.inr rfl)
  · exact hfin _ (Or.inl rfl)

end AndaVerif.Durability
