import AndaVerif.Model.Hnsw
/-
Helper lemmas for C12: invariants of `search_layer`'s loop (soundness for every graph) and the
decreasing measure that shows the fuel `nodes.len() + 1` is never exhausted.
-/
namespace AndaVerif.Hnsw

/-! ### node map -/

theorem getNode_some_mem_keys {m : NodeMap} {i : Nat} {n : Node} (h : getNode m i = some n) : i ∈ keys m := by
  induction m with
  | nil => simp [getNode] at h
  | cons p r ih =>
    obtain ⟨j, nd⟩ := p
    simp only [getNode] at h
    by_cases hj : j = i
    · simp [keys, hj]
    · simp only [hj, if_false] at h
      have := ih h
      simp only [keys, List.map_cons, List.mem_cons] at this ⊢
      exact Or.inr this

theorem getNode_isSome_iff {m : NodeMap} {i : Nat} : (getNode m i).isSome ↔ i ∈ keys m := by
  induction m with
  | nil => simp [getNode, keys]
  | cons p r ih =>
    obtain ⟨j, nd⟩ := p
    simp only [getNode, keys, List.map_cons, List.mem_cons]
    by_cases hj : j = i
    · simp [hj]
    · simp only [hj, if_false]
      rw [ih]
      constructor
      · intro h; exact Or.inr h
      · intro h
        rcases h with h | h
        · exact absurd h.symm hj
        · exact h

/-! ### the two heap orders -/

theorem entLt_iff (a b : Ent) : entLt a b = true ↔ a.1 < b.1 ∨ (a.1 = b.1 ∧ a.2 < b.2) := by
  simp [entLt]

theorem entLt_trans {a b c : Ent} (h1 : entLt a b = true) (h2 : entLt b c = true) : entLt a c = true := by
  rw [entLt_iff] at *
  omega

theorem entLt_of_not {a b : Ent} (h : ¬ entLt a b = true) (hne : a ≠ b) : entLt b a = true := by
  rw [entLt_iff] at *
  obtain ⟨a1, a2⟩ := a
  obtain ⟨b1, b2⟩ := b
  simp only [ne_eq, Prod.mk.injEq] at hne
  simp only at h ⊢
  omega

theorem mem_insDesc {e x : Ent} {l : List Ent} : x ∈ insDesc e l ↔ x = e ∨ x ∈ l := by
  induction l with
  | nil => simp [insDesc]
  | cons y r ih =>
    simp only [insDesc]
    split
    · simp
    · simp only [List.mem_cons, ih]
      constructor
      · rintro (h | h | h)
        · exact Or.inr (Or.inl h)
        · exact Or.inl h
        · exact Or.inr (Or.inr h)
      · rintro (h | h | h)
        · exact Or.inr (Or.inl h)
        · exact Or.inl h
        · exact Or.inr (Or.inr h)

theorem length_insDesc (e : Ent) (l : List Ent) : (insDesc e l).length = l.length + 1 := by
  induction l with
  | nil => simp [insDesc]
  | cons y r ih =>
    simp only [insDesc]
    split <;> simp [ih]

theorem length_insCand (e : Ent) (l : List Ent) : (insCand e l).length = l.length + 1 := by
  induction l with
  | nil => simp [insCand]
  | cons y r ih =>
    simp only [insCand]
    split <;> simp [ih]

/-- descending (heap-top first) -/
def Desc (l : List Ent) : Prop := l.Pairwise (fun a b => entLt b a = true)

theorem insDesc_desc {e : Ent} {l : List Ent} (hl : Desc l) (hne : ∀ x ∈ l, x ≠ e) : Desc (insDesc e l) := by
  induction l with
  | nil => simp [insDesc, Desc]
  | cons y r ih =>
    unfold Desc at hl ih ⊢
    rw [List.pairwise_cons] at hl
    simp only [insDesc]
    split
    · rename_i hlt
      rw [List.pairwise_cons]
      refine ⟨?_, List.pairwise_cons.mpr hl⟩
      intro b hb
      rcases List.mem_cons.mp hb with hb | hb
      · subst hb; exact hlt
      · exact entLt_trans (hl.1 b hb) hlt
    · rename_i hlt
      rw [List.pairwise_cons]
      refine ⟨?_, ih hl.2 (fun x hx => hne x (List.mem_cons_of_mem _ hx))⟩
      intro b hb
      rcases mem_insDesc.mp hb with hb | hb
      · subst hb
        exact entLt_of_not hlt (hne y (List.mem_cons_self ..))
      · exact hl.1 b hb

theorem Desc.tail {l : List Ent} (h : Desc l) : Desc l.tail := by
  unfold Desc at *
  cases l with
  | nil => simp
  | cons x r => exact (List.pairwise_cons.mp h).2

/-! ### soundness invariant of the loop -/

structure RInv (get : Nat → Option Node) (dist : Nat → Option Nat) (s : LState) : Prop where
  ok : ∀ e ∈ s.results, e.2 ∈ s.visited ∧ (get e.2).isSome = true ∧ dist e.2 = some e.1
  desc : Desc s.results

theorem visitNbr_inv {get : Nat → Option Node} {dist : Nat → Option Nat} {ef : Nat} {s : LState} (v : Nat)
    (h : RInv get dist s) : RInv get dist (visitNbr get dist ef s v) := by
  have hweak : RInv get dist { s with visited := v :: s.visited } :=
    ⟨fun e he => ⟨List.mem_cons_of_mem _ (h.ok e he).1, (h.ok e he).2⟩, h.desc⟩
  unfold visitNbr
  split
  · exact h
  · rename_i hvis
    dsimp only
    split
    · exact hweak
    · rename_i nd hget
      split
      · exact hweak
      · rename_i d hd
        split
        · exact hweak
        · rename_i top rest hres
          split
          · have hne : ∀ x ∈ s.results, x ≠ (d, v) := by
              intro x hx hxe
              have := (h.ok x hx).1
              rw [hxe] at this
              simp only [List.contains_eq_mem, decide_eq_true_eq] at hvis
              exact hvis this
            have hd' : Desc (insDesc (d, v) s.results) := insDesc_desc h.desc hne
            have hok : ∀ e ∈ insDesc (d, v) s.results,
                e.2 ∈ v :: s.visited ∧ (get e.2).isSome = true ∧ dist e.2 = some e.1 := by
              intro e he
              rcases mem_insDesc.mp he with he | he
              · subst he
                exact ⟨List.mem_cons_self .., by simp [hget], hd⟩
              · exact ⟨List.mem_cons_of_mem _ (h.ok e he).1, (h.ok e he).2⟩
            constructor
            · intro e he
              dsimp only at he ⊢
              split at he
              · exact hok e (List.mem_of_mem_tail he)
              · exact hok e he
            · dsimp only
              split
              · exact hd'.tail
              · exact hd'
          · exact hweak

theorem foldl_visitNbr_inv {get : Nat → Option Node} {dist : Nat → Option Nat} {ef : Nat} (vs : List Nat) :
    ∀ {s : LState}, RInv get dist s → RInv get dist (vs.foldl (visitNbr get dist ef) s) := by
  induction vs with
  | nil => intro s h; exact h
  | cons v r ih => intro s h; exact ih (visitNbr_inv v h)

theorem layerLoop_inv {get : Nat → Option Node} {dist : Nat → Option Nat} {layer ef : Nat} :
    ∀ (fuel : Nat) {s s' : LState}, RInv get dist s → layerLoop get dist layer ef fuel s = some s' →
      RInv get dist s' := by
  intro fuel
  induction fuel with
  | zero => intro s s' _ h; simp [layerLoop] at h
  | succ n ih =>
    intro s s' hinv h
    unfold layerLoop at h
    split at h
    · simp only [Option.some.injEq] at h; subst h; exact hinv
    · rename_i d p cs hc
      have hpop : RInv get dist { s with cands := cs } := ⟨hinv.ok, hinv.desc⟩
      split at h
      · simp only [Option.some.injEq] at h; subst h; exact hpop
      · exact ih (foldl_visitNbr_inv _ hpop) h

/-- ascending by `(distance, id)` -/
def Asc (l : List Ent) : Prop := l.Pairwise (fun a b => entLt a b = true)

theorem Desc.reverse_asc {l : List Ent} (h : Desc l) : Asc l.reverse := by
  unfold Desc at h; unfold Asc
  rw [List.pairwise_reverse]
  exact h

/-- what `search_layer` guarantees on every graph -/
structure LayerSound (m : NodeMap) (dist : Nat → Option Nat) (res : List Ent) : Prop where
  live : ∀ e ∈ res, (getNode m e.2).isSome = true
  dist_eq : ∀ e ∈ res, dist e.2 = some e.1
  asc : Asc res

theorem searchLayer_sound {m : NodeMap} {dist : Nat → Option Nat} {ep layer ef : Nat} {res : List Ent}
    (h : searchLayer m dist ep layer ef = .ok res) : LayerSound m dist res := by
  unfold searchLayer at h
  dsimp only at h
  split at h
  · simp at h
  · rename_i nd hget
    split at h
    · simp at h
    · rename_i d0 hd0
      split at h
      · simp at h
      · rename_i s hs
        simp only [Except.ok.injEq] at h
        subst h
        have h0 : RInv (getNode m) dist ⟨[ep], [(d0, ep)], [(d0, ep)]⟩ := by
          constructor
          · intro e he
            simp only [List.mem_singleton] at he
            subst he
            exact ⟨by simp, by simp [hget], hd0⟩
          · simp [Desc]
        have hinv := layerLoop_inv _ h0 hs
        exact ⟨fun e he => (hinv.ok e (List.mem_reverse.mp he)).2.1,
               fun e he => (hinv.ok e (List.mem_reverse.mp he)).2.2,
               hinv.desc.reverse_asc⟩

theorem LayerSound.take {m : NodeMap} {dist : Nat → Option Nat} {res : List Ent} (k : Nat)
    (h : LayerSound m dist res) : LayerSound m dist (res.take k) :=
  ⟨fun e he => h.live e (List.mem_of_mem_take he), fun e he => h.dist_eq e (List.mem_of_mem_take he),
   List.Pairwise.sublist (List.take_sublist k res) h.asc⟩

theorem LayerSound.nil {m : NodeMap} {dist : Nat → Option Nat} : LayerSound m dist [] :=
  ⟨by simp, by simp, by simp [Asc]⟩

theorem searchAttempt_sound {m : NodeMap} {entry : Nat × Nat} {dist : Nat → Option Nat} {k efSearch : Nat}
    {res : List Ent} (h : searchAttempt m entry dist k efSearch = .ok res) :
    LayerSound m dist res ∧ res.length ≤ k := by
  unfold searchAttempt at h
  split at h
  · simp at h
  · split at h
    · simp at h
    · rename_i r hr
      simp only [Except.ok.injEq] at h
      subst h
      exact ⟨(searchLayer_sound hr).take k, List.length_take_le k r⟩

theorem searchTry_sound {m : NodeMap} {entry : Nat × Nat} {dist : Nat → Option Nat} {k efSearch : Nat} :
    ∀ (more : Nat) {res : List Ent}, searchTry m entry dist k efSearch more = .ok res →
      LayerSound m dist res ∧ res.length ≤ k := by
  intro more
  induction more with
  | zero =>
    intro res h
    unfold searchTry at h
    split at h
    · simp only [Except.ok.injEq] at h; subst h; exact ⟨LayerSound.nil, by simp⟩
    · exact searchAttempt_sound h
  | succ n ih =>
    intro res h
    unfold searchTry at h
    split at h
    · simp only [Except.ok.injEq] at h; subst h; exact ⟨LayerSound.nil, by simp⟩
    · split at h
      · exact ih h
      · exact searchAttempt_sound h

/-- ascending by `(d, id)` with `dist id = d` on every entry gives distinct ids -/
theorem asc_nodup_ids {dist : Nat → Option Nat} {res : List Ent} (hasc : Asc res)
    (hd : ∀ e ∈ res, dist e.2 = some e.1) : (res.map (·.2)).Nodup := by
  induction res with
  | nil => simp
  | cons x r ih =>
    unfold Asc at hasc
    rw [List.pairwise_cons] at hasc
    simp only [List.map_cons, List.nodup_cons]
    refine ⟨?_, ih hasc.2 (fun e he => hd e (List.mem_cons_of_mem _ he))⟩
    intro hmem
    obtain ⟨y, hy, hyx⟩ := List.mem_map.mp hmem
    have h1 := hd x (List.mem_cons_self ..)
    have h2 := hd y (List.mem_cons_of_mem _ hy)
    have hlt := hasc.1 y hy
    rw [entLt_iff] at hlt
    rw [hyx, h1] at h2
    simp only [Option.some.injEq] at h2
    omega

theorem asc_nondecreasing {res : List Ent} (hasc : Asc res) : res.Pairwise (fun a b => a.1 ≤ b.1) := by
  unfold Asc at hasc
  refine hasc.imp ?_
  intro a b hab
  rw [entLt_iff] at hab
  omega

/-! ### termination: the fuel `nodes.len() + 1` suffices -/

def unvisited (ks vis : List Nat) : Nat := (ks.filter (fun i => !vis.contains i)).length

def mu (ks : List Nat) (s : LState) : Nat := s.cands.length + unvisited ks s.visited

theorem filter_len_le {p q : Nat → Bool} (h : ∀ x, q x = true → p x = true) (l : List Nat) :
    (l.filter q).length ≤ (l.filter p).length := by
  induction l with
  | nil => simp
  | cons k r ih =>
    have hk := h k
    simp only [List.filter_cons]
    cases hq : q k <;> cases hp : p k <;> simp_all <;> omega

theorem filter_len_lt {p q : Nat → Bool} (h : ∀ x, q x = true → p x = true) (l : List Nat) (a : Nat)
    (ha : a ∈ l) (hpa : p a = true) (hqa : q a = false) : (l.filter q).length < (l.filter p).length := by
  induction l with
  | nil => simp at ha
  | cons k r ih =>
    have hle := filter_len_le h r
    simp only [List.filter_cons]
    rcases List.mem_cons.mp ha with hak | hak
    · subst hak
      simp only [hpa, hqa, if_true, List.length_cons, Bool.false_eq_true, if_false]
      omega
    · have := ih hak
      have hk := h k
      cases hq : q k <;> cases hp : p k <;> simp_all <;> omega

theorem unvisited_cons_le (ks vis : List Nat) (v : Nat) : unvisited ks (v :: vis) ≤ unvisited ks vis := by
  unfold unvisited
  apply filter_len_le
  intro x hx
  simp only [List.contains_cons, Bool.not_eq_true', Bool.or_eq_false_iff] at hx
  have := hx.2
  simp only [List.contains_eq_mem, decide_eq_false_iff_not] at this
  simp [this]

theorem unvisited_cons_lt (ks vis : List Nat) (v : Nat) (hk : v ∈ ks) (hv : vis.contains v = false) :
    unvisited ks (v :: vis) < unvisited ks vis := by
  unfold unvisited
  apply filter_len_lt _ ks v hk
  · simp only [List.contains_eq_mem, decide_eq_false_iff_not] at hv
    simp [hv]
  · simp
  · intro x hx
    simp only [List.contains_cons, Bool.not_eq_true', Bool.or_eq_false_iff] at hx
    have := hx.2
    simp only [List.contains_eq_mem, decide_eq_false_iff_not] at this
    simp [this]

theorem visitNbr_mu {get : Nat → Option Node} {dist : Nat → Option Nat} {ef : Nat} {ks : List Nat}
    (hks : ∀ v n, get v = some n → v ∈ ks) (s : LState) (v : Nat) :
    mu ks (visitNbr get dist ef s v) ≤ mu ks s := by
  have hweak : mu ks { s with visited := v :: s.visited } ≤ mu ks s := by
    have := unvisited_cons_le ks s.visited v
    simp only [mu]; omega
  unfold visitNbr
  split
  · exact Nat.le_refl _
  · rename_i hvis
    dsimp only
    split
    · exact hweak
    · rename_i nd hget
      split
      · exact hweak
      · split
        · exact hweak
        · split
          · have hlt := unvisited_cons_lt ks s.visited v (hks v nd hget) (by simpa using hvis)
            simp only [mu, length_insCand]
            omega
          · exact hweak

theorem foldl_visitNbr_mu {get : Nat → Option Node} {dist : Nat → Option Nat} {ef : Nat} {ks : List Nat}
    (hks : ∀ v n, get v = some n → v ∈ ks) (vs : List Nat) :
    ∀ (s : LState), mu ks (vs.foldl (visitNbr get dist ef) s) ≤ mu ks s := by
  induction vs with
  | nil => intro s; exact Nat.le_refl _
  | cons v r ih =>
    intro s
    exact Nat.le_trans (ih _) (visitNbr_mu hks s v)

theorem layerLoop_isSome {get : Nat → Option Node} {dist : Nat → Option Nat} {layer ef : Nat} {ks : List Nat}
    (hks : ∀ v n, get v = some n → v ∈ ks) :
    ∀ (fuel : Nat) (s : LState), mu ks s < fuel → (layerLoop get dist layer ef fuel s).isSome = true := by
  intro fuel
  induction fuel with
  | zero => intro s h; omega
  | succ n ih =>
    intro s h
    unfold layerLoop
    split
    · simp
    · rename_i d p cs hc
      split
      · simp
      · apply ih
        have h1 := foldl_visitNbr_mu (dist := dist) (ef := ef) hks (nbrsAt get p layer) { s with cands := cs }
        have h2 : mu ks { s with cands := cs } + 1 = mu ks s := by
          simp only [mu, hc, List.length_cons]; omega
        omega

theorem unvisited_singleton_lt (ks : List Nat) (v : Nat) (hk : v ∈ ks) : unvisited ks [v] < ks.length := by
  have h1 := unvisited_cons_lt ks [] v hk (by simp)
  have h2 : unvisited ks [] ≤ ks.length := by
    unfold unvisited
    exact List.length_filter_le _ _
  omega

theorem searchLayer_ne_fuel (m : NodeMap) (dist : Nat → Option Nat) (ep layer ef : Nat) :
    searchLayer m dist ep layer ef ≠ .error .fuel := by
  unfold searchLayer
  dsimp only
  split
  · simp
  · rename_i nd hget
    split
    · simp
    · rename_i d0 hd0
      have hsome := layerLoop_isSome (get := getNode m) (dist := dist) (layer := layer) (ef := max ef 1)
        (ks := keys m) (fun v n h => getNode_some_mem_keys h) (m.length + 1)
        ⟨[ep], [(d0, ep)], [(d0, ep)]⟩ (by
          have := unvisited_singleton_lt (keys m) ep (getNode_some_mem_keys hget)
          simp only [mu, List.length_cons, List.length_nil]
          simp only [keys, List.length_map] at this
          simp only [keys]
          omega)
      split
      · rename_i hnone
        rw [hnone] at hsome
        simp at hsome
      · simp

theorem descend_ne_fuel (m : NodeMap) (dist : Nat → Option Nat) :
    ∀ (ls : List Nat) (cur cd : Nat), descend m dist ls cur cd ≠ .error .fuel := by
  intro ls
  induction ls with
  | nil => intro cur cd; simp [descend]
  | cons l r ih =>
    intro cur cd
    unfold descend
    split
    · rename_i e he
      intro hc
      simp only [Except.error.injEq] at hc
      subst hc
      exact searchLayer_ne_fuel _ _ _ _ _ he
    · split
      · split
        · exact ih _ _
        · exact ih _ _
      · exact ih _ _

theorem searchAttempt_ne_fuel (m : NodeMap) (entry : Nat × Nat) (dist : Nat → Option Nat) (k efSearch : Nat) :
    searchAttempt m entry dist k efSearch ≠ .error .fuel := by
  unfold searchAttempt
  split
  · rename_i e he
    intro hc
    simp only [Except.error.injEq] at hc
    subst hc
    exact descend_ne_fuel _ _ _ _ _ he
  · split
    · rename_i e he
      intro hc
      simp only [Except.error.injEq] at hc
      subst hc
      exact searchLayer_ne_fuel _ _ _ _ _ he
    · simp

theorem searchTry_ne_fuel (m : NodeMap) (entry : Nat × Nat) (dist : Nat → Option Nat) (k efSearch : Nat) :
    ∀ more, searchTry m entry dist k efSearch more ≠ .error .fuel := by
  intro more
  induction more with
  | zero =>
    unfold searchTry
    split
    · simp
    · exact searchAttempt_ne_fuel _ _ _ _ _
  | succ n ih =>
    unfold searchTry
    split
    · simp
    · split
      · exact ih
      · exact searchAttempt_ne_fuel _ _ _ _ _

/-! ### totality: with a live entry point and computable distances the search answers, non-empty -/

theorem insDesc_ne_nil (e : Ent) (l : List Ent) : insDesc e l ≠ [] := by
  cases l with
  | nil => simp [insDesc]
  | cons x r => simp only [insDesc]; split <;> simp

theorem visitNbr_results_ne {get : Nat → Option Node} {dist : Nat → Option Nat} {ef : Nat} (hef : 0 < ef)
    {s : LState} (v : Nat) (h : s.results ≠ []) : (visitNbr get dist ef s v).results ≠ [] := by
  unfold visitNbr
  split
  · exact h
  · dsimp only
    split
    · exact h
    · split
      · exact h
      · split
        · exact h
        · rename_i top rest hres
          split
          · dsimp only
            split
            · rename_i d _ _ _ hlen
              intro hnil
              have hl := length_insDesc (d, v) s.results
              have : (insDesc (d, v) s.results).tail.length = 0 := by rw [hnil]; rfl
              rw [List.length_tail] at this
              omega
            · exact insDesc_ne_nil _ _
          · exact h

theorem foldl_visitNbr_results_ne {get : Nat → Option Node} {dist : Nat → Option Nat} {ef : Nat} (hef : 0 < ef)
    (vs : List Nat) : ∀ {s : LState}, s.results ≠ [] → (vs.foldl (visitNbr get dist ef) s).results ≠ [] := by
  induction vs with
  | nil => intro s h; exact h
  | cons v r ih => intro s h; exact ih (visitNbr_results_ne hef v h)

theorem layerLoop_results_ne {get : Nat → Option Node} {dist : Nat → Option Nat} {layer ef : Nat} (hef : 0 < ef) :
    ∀ (fuel : Nat) {s s' : LState}, s.results ≠ [] → layerLoop get dist layer ef fuel s = some s' → s'.results ≠ [] := by
  intro fuel
  induction fuel with
  | zero => intro s s' _ h; simp [layerLoop] at h
  | succ n ih =>
    intro s s' hne h
    unfold layerLoop at h
    split at h
    · simp only [Option.some.injEq] at h; subst h; exact hne
    · split at h
      · simp only [Option.some.injEq] at h; subst h; exact hne
      · rename_i d p cs _ _
        have hpop : ({ s with cands := cs } : LState).results ≠ [] := hne
        exact ih (foldl_visitNbr_results_ne hef _ hpop) h

theorem searchLayer_total {m : NodeMap} {dist : Nat → Option Nat} {ep : Nat} (layer ef : Nat)
    (hep : ep ∈ keys m) (hd : (dist ep).isSome = true) :
    ∃ res, searchLayer m dist ep layer ef = .ok res ∧ res ≠ [] := by
  have hget : (getNode m ep).isSome = true := getNode_isSome_iff.mpr hep
  have hnf := searchLayer_ne_fuel m dist ep layer ef
  unfold searchLayer at hnf ⊢
  dsimp only at hnf ⊢
  cases hg : getNode m ep with
  | none => simp [hg] at hget
  | some nd =>
    simp only [hg] at hnf ⊢
    cases hde : dist ep with
    | none => simp [hde] at hd
    | some d0 =>
      simp only [hde] at hnf ⊢
      cases hl : layerLoop (getNode m) dist layer (max ef 1) (m.length + 1) ⟨[ep], [(d0, ep)], [(d0, ep)]⟩ with
      | none => simp [hl] at hnf
      | some s =>
        refine ⟨s.results.reverse, rfl, ?_⟩
        have := layerLoop_results_ne (by omega : 0 < max ef 1) _ (by simp) hl
        simpa using this

theorem descend_total {m : NodeMap} {dist : Nat → Option Nat} (hd : ∀ i ∈ keys m, (dist i).isSome = true) :
    ∀ (ls : List Nat) (cur cd : Nat), cur ∈ keys m →
      ∃ c d, descend m dist ls cur cd = .ok (c, d) ∧ c ∈ keys m := by
  intro ls
  induction ls with
  | nil => intro cur cd hc; exact ⟨cur, cd, rfl, hc⟩
  | cons l r ih =>
    intro cur cd hc
    obtain ⟨near, hnear, _⟩ := searchLayer_total (m := m) (dist := dist) l 1 hc (hd cur hc)
    unfold descend
    rw [hnear]
    dsimp only
    cases near with
    | nil => exact ih cur cd hc
    | cons e rest =>
      obtain ⟨d, id⟩ := e
      have hid : id ∈ keys m :=
        getNode_isSome_iff.mp ((searchLayer_sound hnear).live (d, id) (List.mem_cons_self ..))
      dsimp only
      split
      · exact ih id d hid
      · exact ih cur cd hc

theorem searchAttempt_total {m : NodeMap} {entry : Nat × Nat} {dist : Nat → Option Nat} (k efSearch : Nat)
    (he : entry.1 ∈ keys m) (hd : ∀ i ∈ keys m, (dist i).isSome = true) (hk : 0 < k) :
    ∃ res, searchAttempt m entry dist k efSearch = .ok res ∧ res ≠ [] := by
  obtain ⟨c, d, hdesc, hc⟩ := descend_total hd (layersDown entry.2) entry.1 f32MaxKey he
  obtain ⟨res, hres, hne⟩ := searchLayer_total (m := m) (dist := dist) 0 (max efSearch (min k maxEfSearch)) hc (hd c hc)
  unfold searchAttempt
  rw [hdesc]
  dsimp only
  rw [hres]
  refine ⟨res.take k, rfl, ?_⟩
  cases res with
  | nil => exact absurd rfl hne
  | cons x r =>
    cases k with
    | zero => omega
    | succ k => simp

theorem searchTry_total {m : NodeMap} {entry : Nat × Nat} {dist : Nat → Option Nat} (k efSearch : Nat)
    (hne : m ≠ []) (he : entry.1 ∈ keys m) (hd : ∀ i ∈ keys m, (dist i).isSome = true) (hk : 0 < k) :
    ∀ more, ∃ res, searchTry m entry dist k efSearch more = .ok res ∧ res ≠ [] := by
  intro more
  obtain ⟨res, hres, hr⟩ := searchAttempt_total (m := m) (entry := entry) (dist := dist) k efSearch he hd hk
  have hemp : m.isEmpty = false := by
    cases m with
    | nil => exact absurd rfl hne
    | cons _ _ => rfl
  cases more with
  | zero =>
    unfold searchTry
    simp only [hemp, Bool.false_eq_true, if_false]
    exact ⟨res, hres, hr⟩
  | succ n =>
    unfold searchTry
    simp only [hemp, Bool.false_eq_true, if_false, hres]
    exact ⟨res, rfl, hr⟩

/-- distinct elements drawn from a list are at most as many as the list is long -/
theorem nodup_subset_length {l : List Nat} : ∀ {l' : List Nat}, l.Nodup → (∀ x ∈ l, x ∈ l') → l.length ≤ l'.length := by
  induction l with
  | nil => intro l' _ _; simp
  | cons x r ih =>
    intro l' hn hs
    rw [List.nodup_cons] at hn
    have hx : x ∈ l' := hs x (List.mem_cons_self ..)
    have hsub : ∀ y ∈ r, y ∈ l'.erase x := by
      intro y hy
      have hne : y ≠ x := fun e => hn.1 (e ▸ hy)
      exact (List.mem_erase_of_ne hne).mpr (hs y (List.mem_cons_of_mem _ hy))
    have := ih hn.2 hsub
    rw [List.length_erase_of_mem hx] at this
    have hpos : 0 < l'.length := List.length_pos_of_mem hx
    simp only [List.length_cons]
    omega

end AndaVerif.Hnsw
