import AndaVerif.Proofs.ObjStoreConcInv
/-
Under any interleaving of the collector with writers, a key none of the writers targets reads the
same object throughout.
-/
namespace AndaVerif.ObjStore.Conc
open AndaVerif.ObjStore Gen.SidecarOrder

def keyOf : BPath → Path
  | .mt k => k
  | .gen k _ => k
  | .data k => k

theorem keyOf_payloadPath (k : Path) (g : Option Gen) : keyOf (payloadPath k g) = k := by
  cases g <;> rfl

/-- changing (writing or deleting) an object of another key changes no read of `x` -/
theorem readCold_aset_other (be : Backend) (p : BPath) (e : BEnt) (x : Path) (h : keyOf p ≠ x) :
    readCold (aset be p e) x = readCold be x := by
  apply readCold_congr
  · exact aget_aset_ne _ _ _ _ (fun heq => h (by rw [← heq]; rfl))
  · intro d _
    exact aget_aset_ne _ _ _ _ (fun heq => h (by rw [← heq]; exact keyOf_payloadPath x d.gen))

theorem readCold_adel_other (be : Backend) (p : BPath) (x : Path) (h : keyOf p ≠ x) :
    readCold (adel be p) x = readCold be x := by
  apply readCold_congr
  · exact aget_adel_ne _ _ _ (fun heq => h (by rw [← heq]; rfl))
  · intro d _
    exact aget_adel_ne _ _ _ (fun heq => h (by rw [← heq]; exact keyOf_payloadPath x d.gen))

/-- what one writer action can do to the backend: nothing, write an object of its own key, delete an
object of its own key, or delete its `replaced` path -/
def BeChange (c c' : Cfg) (t : Wr) : Prop :=
  c'.be = c.be ∨ (∃ p e, keyOf p = t.k ∧ c'.be = aset c.be p e) ∨
  (∃ p, (keyOf p = t.k ∨ t.replaced = some p) ∧ c'.be = adel c.be p)

theorem wrStep_effect {c c' : Cfg} {t t' : Wr} {a : WAct} (h : wrStep c t a = some (c', t')) :
    t'.k = t.k ∧ c'.ws = c.ws ∧ BeChange c c' t := by
  cases a with
  | mint =>
      simp only [wrStep] at h
      split at h
      · cases h
      · cases h
        exact ⟨rfl, rfl, Or.inl rfl⟩
  | track =>
      simp only [wrStep] at h
      split at h
      · split at h
        · cases h
        · split at h
          · cases h
          · cases h
            exact ⟨rfl, rfl, Or.inl rfl⟩
      · cases h
  | enter =>
      simp only [wrStep] at h
      split at h
      · cases h
      · cases h
        exact ⟨rfl, rfl, Or.inl rfl⟩
  | payload =>
      simp only [wrStep] at h
      split at h
      · rename_i g hg
        split at h
        · cases h
        · split at h
          · cases h
          · split at h
            · cases h
              exact ⟨rfl, rfl, Or.inr (Or.inl ⟨_, _, rfl, rfl⟩)⟩
            · split at h
              · cases h
                exact ⟨rfl, rfl, Or.inr (Or.inl ⟨_, _, rfl, rfl⟩)⟩
              · cases h
      · cases h
  | commit =>
      simp only [wrStep] at h
      split at h
      · cases h
      · split at h
        · cases h
          exact ⟨rfl, rfl, Or.inr (Or.inr ⟨.mt t.k, Or.inl rfl, rfl⟩)⟩
        · split at h
          · cases h
            exact ⟨rfl, rfl, Or.inr (Or.inl ⟨.mt t.k, _, rfl, rfl⟩)⟩
          · cases h
  | reclaim =>
      simp only [wrStep] at h
      split at h
      · cases h
      · split at h
        · rename_i old hold
          by_cases hne : some old ≠ (if t.del = true then none else Option.map (fun g => BPath.gen t.k g) t.g)
          · rw [if_pos hne] at h
            cases h
            exact ⟨rfl, rfl, Or.inr (Or.inr ⟨old, Or.inr hold, rfl⟩)⟩
          · rw [if_neg hne] at h
            cases h
            exact ⟨rfl, rfl, Or.inl rfl⟩
        · cases h
          exact ⟨rfl, rfl, Or.inl rfl⟩
  | untrack =>
      simp only [wrStep] at h
      split at h
      · split at h
        · cases h
        · split at h
          · cases h
          · cases h
            exact ⟨rfl, rfl, Or.inl rfl⟩
      · cases h
  | abort =>
      simp only [wrStep] at h
      split at h
      · cases h
      · cases h
        exact ⟨rfl, rfl, Or.inl rfl⟩

/-- one step of any thread leaves the read of a key no writer targets unchanged, and writers keep
their keys -/
theorem step_untouched {c : Cfg} (h : CInv c) (x : Path)
    (hx : ∀ (i : Nat) (t : Wr), c.ws[i]? = some t → t.k ≠ x) (ch : Choice) :
    readCold (step c ch).be x = readCold c.be x ∧
    (∀ (i : Nat) (t : Wr), (step c ch).ws[i]? = some t → t.k ≠ x) := by
  cases ch with
  | tick => exact ⟨rfl, hx⟩
  | r i =>
      simp only [step]
      cases c.rs[i]? <;> exact ⟨rfl, hx⟩
  | gcList cands =>
      simp only [step]
      split
      · cases c.gc <;> exact ⟨rfl, hx⟩
      · exact ⟨rfl, hx⟩
  | gcStep =>
      simp only [step]
      cases hgc : c.gc with
      | idle => exact ⟨rfl, hx⟩
      | sweeping cs => cases cs <;> exact ⟨rfl, hx⟩
      | cand p stage rest =>
          simp only []
          rw [gcCheck_std]
          match stage with
          | 0 => simp only []; split <;> exact ⟨rfl, hx⟩
          | 1 => simp only []; split <;> exact ⟨rfl, hx⟩
          | 2 =>
              simp only []
              have hp := (h.cands p (by rw [hgc]; simp [gcCands])).1
              exact ⟨readCold_adel_unref _ _ (isPayloadPath_ne_mt hp) (h.armed p 2 rest hgc (Nat.le_refl 2)) x, hx⟩
          | n + 3 => exact ⟨rfl, hx⟩
  | w i a =>
      simp only [step]
      cases hi : c.ws[i]? with
      | none => exact ⟨rfl, hx⟩
      | some t =>
          simp only []
          cases hs : wrStep c t a with
          | none => exact ⟨rfl, hx⟩
          | some r =>
              obtain ⟨c', t'⟩ := r
              obtain ⟨hk, hws, hbe⟩ := wrStep_effect hs
              have htx : t.k ≠ x := hx i t hi
              simp only []
              refine ⟨?_, ?_⟩
              · rcases hbe with h0 | ⟨p, e, hp, h1⟩ | ⟨p, hp, h1⟩
                · rw [h0]
                · rw [h1]; exact readCold_aset_other _ _ _ _ (by rw [hp]; exact htx)
                · rw [h1]
                  apply readCold_adel_other
                  rcases hp with hp | hp
                  · rw [hp]; exact htx
                  · obtain ⟨_, _, go, hgo⟩ := h.replShape i t p hi hp
                    rw [hgo, keyOf_payloadPath]; exact htx
              · intro j u hu
                rw [hws] at hu
                rcases getElem?_set_cases _ _ _ _ _ hu with ⟨_, rfl⟩ | ⟨_, hu'⟩
                · rw [hk]; exact htx
                · exact hx j u hu'

theorem run_untouched {c : Cfg} (h : CInv c) (x : Path)
    (hx : ∀ (i : Nat) (t : Wr), c.ws[i]? = some t → t.k ≠ x) (s : List Choice) :
    readCold (runSchedule c s).be x = readCold c.be x := by
  induction s generalizing c with
  | nil => rfl
  | cons ch s ih =>
      obtain ⟨h1, h2⟩ := step_untouched h x hx ch
      simp only [runSchedule, List.foldl_cons]
      have := ih (inv_step h ch) h2
      simp only [runSchedule] at this
      rw [this, h1]

end AndaVerif.ObjStore.Conc
