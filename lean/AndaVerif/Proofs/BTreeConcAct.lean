import AndaVerif.Proofs.BTreeConcBasic
/-
The transitions of `BTreeConc.step`, one constructor per branch, so that every invariant is proved
by one case analysis over named actions instead of over nested matches.
-/
namespace AndaVerif
namespace BTreeConc

/-- `Act c t th sh' th' evs`: thread `t` (currently `th`) can take its next action in `c`; the shared
state becomes `sh'`, the thread `th'`, and `evs` is appended to the history. -/
inductive Act (c : Cfg) (t : Nat) (th : Thread) : Shared → Thread → List Ev → Prop
  | insErr (d k sp rest p) (hpc : th.pc = .idle) (hprog : th.prog = .insert d k sp :: rest)
      (hg : noCompactor c = true) (hp : pget c.sh.post k = some p) (hu : c.sh.unique = true) (hd : d ∉ p.ids) :
      Act c t th c.sh (finish th .errExists) [⟨t, true, d, k, false⟩]
  | insHas (d k sp rest p) (hpc : th.pc = .idle) (hprog : th.prog = .insert d k sp :: rest)
      (hg : noCompactor c = true) (hp : pget c.sh.post k = some p) (hd : d ∈ p.ids) :
      Act c t th c.sh { th with pc := .ins1 false false p.bucket } [⟨t, true, d, k, false⟩]
  | insApp (d k sp rest p) (hpc : th.pc = .idle) (hprog : th.prog = .insert d k sp :: rest)
      (hg : noCompactor c = true) (hp : pget c.sh.post k = some p) (hu : c.sh.unique = false) (hd : d ∉ p.ids) :
      Act c t th { c.sh with post := pset c.sh.post k { p with ids := p.ids ++ [d] } }
        { th with pc := .ins1 false true p.bucket } [⟨t, true, d, k, true⟩]
  | insNew (d k sp rest) (hpc : th.pc = .idle) (hprog : th.prog = .insert d k sp :: rest)
      (hg : noCompactor c = true) (hp : pget c.sh.post k = none) :
      Act c t th { c.sh with post := pset c.sh.post k ⟨c.sh.maxBucket, [d]⟩ }
        { th with pc := .ins1 true true c.sh.maxBucket } [⟨t, true, d, k, true⟩]
  | ins1Add (isNew size target d k sp rest p) (hpc : th.pc = .ins1 isNew size target)
      (hprog : th.prog = .insert d k sp :: rest) (hn : isNew = true) (hp : pget c.sh.post k = some p) :
      Act c t th { c.sh with btree := k :: c.sh.btree } { th with pc := .ins2 size target } []
  | ins1Skip (isNew size target d k sp rest) (hpc : th.pc = .ins1 isNew size target)
      (hprog : th.prog = .insert d k sp :: rest)
      (hc : isNew = false ∨ pget c.sh.post k = none ∨ k ∈ c.sh.btree) :
      Act c t th c.sh { th with pc := .ins2 size target } []
  | ins2NoSize (target d k sp rest) (hpc : th.pc = .ins2 false target) (hprog : th.prog = .insert d k sp :: rest) :
      Act c t th c.sh { th with pc := .ins3 false none } []
  | ins2List (target d k rest) (hpc : th.pc = .ins2 true target) (hprog : th.prog = .insert d k false :: rest) :
      Act c t th { c.sh with listed := (target, k) :: c.sh.listed } { th with pc := .ins3 true none } []
  | ins2SpillSome (target d k rest p) (hpc : th.pc = .ins2 true target) (hprog : th.prog = .insert d k true :: rest)
      (hp : pget c.sh.post k = some p) :
      Act c t th { c.sh with maxBucket := c.sh.maxBucket + 1,
                             post := pset c.sh.post k { p with bucket := c.sh.maxBucket + 1 },
                             listed := unlist c.sh.listed target k }
        { th with pc := .ins3 true (some (c.sh.maxBucket + 1)) } []
  | ins2SpillNone (target d k rest) (hpc : th.pc = .ins2 true target) (hprog : th.prog = .insert d k true :: rest)
      (hp : pget c.sh.post k = none) :
      Act c t th { c.sh with maxBucket := c.sh.maxBucket + 1, listed := unlist c.sh.listed target k }
        { th with pc := .ins3 false none } []
  | ins3Some (size n d k sp rest) (hpc : th.pc = .ins3 size (some n)) (hprog : th.prog = .insert d k sp :: rest) :
      Act c t th { c.sh with listed := (n, k) :: c.sh.listed } { th with pc := .ins4 size } []
  | ins3None (size d k sp rest) (hpc : th.pc = .ins3 size none) (hprog : th.prog = .insert d k sp :: rest) :
      Act c t th c.sh { th with pc := .ins4 size } []
  | ins4 (size d k sp rest) (hpc : th.pc = .ins4 size) (hprog : th.prog = .insert d k sp :: rest) :
      Act c t th c.sh (finish th (.okB size)) []
  | remHit (d k rest p) (hpc : th.pc = .idle) (hprog : th.prog = .remove d k :: rest)
      (hg : noCompactor c = true) (hp : pget c.sh.post k = some p) (hd : d ∈ p.ids) :
      Act c t th { c.sh with post := pset c.sh.post k { p with ids := p.ids.filter (fun x => !(x == d)) } }
        { th with pc := .rem1 true (p.ids.filter (fun x => !(x == d))).isEmpty p.bucket } [⟨t, false, d, k, true⟩]
  | remMiss (d k rest p) (hpc : th.pc = .idle) (hprog : th.prog = .remove d k :: rest)
      (hg : noCompactor c = true) (hp : pget c.sh.post k = some p) (hd : d ∉ p.ids) :
      Act c t th c.sh { th with pc := .rem1 false false p.bucket } [⟨t, false, d, k, false⟩]
  | remAbsent (d k rest) (hpc : th.pc = .idle) (hprog : th.prog = .remove d k :: rest)
      (hg : noCompactor c = true) (hp : pget c.sh.post k = none) :
      Act c t th c.sh { th with pc := .rem1 false false 0 } [⟨t, false, d, k, false⟩]
  | rem1No (e b d k rest) (hpc : th.pc = .rem1 false e b) (hprog : th.prog = .remove d k :: rest) :
      Act c t th c.sh (finish th (.removed false)) []
  | rem1Erase (b d k rest p) (hpc : th.pc = .rem1 true true b) (hprog : th.prog = .remove d k :: rest)
      (hp : pget c.sh.post k = some p) (he : p.ids = []) :
      Act c t th { c.sh with post := perase c.sh.post k } { th with pc := .rem2 true b } []
  | rem1Keep (b d k rest) (hpc : th.pc = .rem1 true true b) (hprog : th.prog = .remove d k :: rest)
      (hp : pget c.sh.post k = none ∨ ∃ p, pget c.sh.post k = some p ∧ p.ids ≠ []) :
      Act c t th c.sh { th with pc := .rem2 false b } []
  | rem1Skip (b d k rest) (hpc : th.pc = .rem1 true false b) (hprog : th.prog = .remove d k :: rest) :
      Act c t th c.sh { th with pc := .rem3 false b } []
  | rem2Drop (b d k rest) (hpc : th.pc = .rem2 true b) (hprog : th.prog = .remove d k :: rest)
      (hp : pget c.sh.post k = none) :
      Act c t th { c.sh with btree := c.sh.btree.filter (fun x => !(x == k)) } { th with pc := .rem3 true b } []
  | rem2Keep (er b d k rest) (hpc : th.pc = .rem2 er b) (hprog : th.prog = .remove d k :: rest)
      (hc : er = false ∨ (pget c.sh.post k).isSome = true) :
      Act c t th c.sh { th with pc := .rem3 er b } []
  | rem3Drop (b d k rest) (hpc : th.pc = .rem3 true b) (hprog : th.prog = .remove d k :: rest)
      (hc : pget c.sh.post k = none ∨ ∃ p, pget c.sh.post k = some p ∧ p.bucket ≠ b) :
      Act c t th { c.sh with listed := unlist c.sh.listed b k } (finish th (.removed true)) []
  | rem3Keep (er b d k rest) (hpc : th.pc = .rem3 er b) (hprog : th.prog = .remove d k :: rest) :
      Act c t th c.sh (finish th (.removed true)) []
  | cmpSkip (assign rest) (hpc : th.pc = .idle) (hprog : th.prog = .compact true assign :: rest)
      (hg : allIdle c = true) :
      Act c t th c.sh (finish th .compacted) []
  | cmpStart (assign rest) (hpc : th.pc = .idle) (hprog : th.prog = .compact false assign :: rest)
      (hg : allIdle c = true) :
      Act c t th c.sh { th with pc := .cmp1 } []
  | cmp1Empty (skip assign rest) (hpc : th.pc = .cmp1) (hprog : th.prog = .compact skip assign :: rest)
      (he : c.sh.post.isEmpty = true) :
      Act c t th { c.sh with listed := [], maxBucket := 0 } (finish th .compacted) []
  | cmp1Clear (skip assign rest) (hpc : th.pc = .cmp1) (hprog : th.prog = .compact skip assign :: rest) :
      Act c t th { c.sh with listed := [] } { th with pc := .cmp2 } []
  | cmp2 (skip assign rest) (hpc : th.pc = .cmp2) (hprog : th.prog = .compact skip assign :: rest) :
      Act c t th { c.sh with post := c.sh.post.map (fun e => (e.1, { e.2 with bucket := assign e.1 })),
                             listed := c.sh.post.map (fun e => (assign e.1, e.1)) }
        { th with pc := .cmp3 } []
  | cmp3 (skip assign rest) (hpc : th.pc = .cmp3) (hprog : th.prog = .compact skip assign :: rest) :
      Act c t th { c.sh with maxBucket := (c.sh.post.map (fun e => assign e.1)).foldl max 0 }
        (finish th .compacted) []

end BTreeConc
end AndaVerif
