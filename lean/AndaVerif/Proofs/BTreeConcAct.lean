import AndaVerif.Proofs.BTreeConcBasic
/-
The transitions of `BTreeConc.step`, one constructor per branch, so that every invariant is proved
by one case analysis over named actions instead of over nested matches.
-/
namespace AndaVerif
namespace BTreeConc

/-- `Act c t th sh' th' evs`: thread `t` (currently `th`) can take its next action in `c`; the shared
state becomes `sh'`, the thread `th'`, and `evs` is appended to the history. -/
inductive Act (c : Cfg) (t : Nat) (th : Thread) : Shared → Thread → List Ev → Prop
  | insErr (d k sp rest p) (hpc : th.pc = .idle) (hprog : th.prog = .insert d k sp :: rest)
      (hg : noCompactor c = true) (hp : pget c.sh.post k = some p) (hu : c.sh.unique = true) (hd : d ∉ p.ids) :
      Act c t th c.sh (finish th .errExists) [⟨t, true, d, k, false⟩]
  | insHas (d k sp rest p) (hpc : th.pc = .idle) (hprog : th.prog = .insert d k sp :: rest)
      (hg : noCompactor c = true) (hp : pget c.sh.post k = some p) (hd : d ∈ p.ids) :
      Act c t th c.sh { th with pc := .ins1 false false p.bucket } [⟨t, true, d, k, false⟩]
  | insApp (d k sp rest p) (hpc : th.pc = .idle) (hprog : th.prog = .insert d k sp :: rest)
      (hg : noCompactor c = true) (hp : pget c.sh.post k = some p) (hu : c.sh.unique = false) (hd : d ∉ p.ids) :
      Act c t th { c.sh with post := pset c.sh.post k { p with ids := p.ids ++ [d] } }
        { th with pc := .ins1 false true p.bucket } [⟨t, true, d, k, true⟩]
  | insNew (d k sp rest) (hpc : th.pc = .idle) (hprog : th.prog = .insert d k sp :: rest)
      (hg : noCompactor c = true) (hp : pget c.sh.post k = none) :
      Act c t th { c.sh with post := pset c.sh.post k ⟨c.sh.maxBucket, [d]⟩ }
        { th with pc := .ins1 true true c.sh.maxBucket } [⟨t, true, d, k, true⟩]
  | ins1Add (isNew size target d k sp rest p) (hpc : th.pc = .ins1 isNew size target)
      (hprog : th.prog = .insert d k sp :: rest) (hn : isNew = true) (hp : pget c.sh.post k = some p) :
      Act c t th { c.sh with btree := k :: c.sh.btree } { th with pc := .ins2 size target } []
  | ins1Skip (isNew size target d k sp rest) (hpc : th.pc = .ins1 isNew size target)
      (hprog : th.prog = .insert d k sp :: rest)
      (hc : isNew = false ∨ pget c.sh.post k = none ∨ k ∈ c.sh.btree) :
      Act c t th c.sh { th with pc := .ins2 size target } []
  | ins2NoSize (target d k sp rest) (hpc : th.pc = .ins2 false target) (hprog : th.prog = .insert d k sp :: rest) :
      Act c t th c.sh { th with pc := .ins3 false none } []
  | ins2List (target d k rest) (hpc : th.pc = .ins2 true target) (hprog : th.prog = .insert d k false :: rest) :
      Act c t th { c.sh with listed := (target, k) :: c.sh.listed } { th with pc := .ins3 true none } []
  | ins2SpillSome (target d k rest p) (hpc : th.pc = .ins2 true target) (hprog : th.prog = .insert d k true :: rest)
      (hp : pget c.sh.post k = some p) :
      Act c t th { c.sh with maxBucket := c.sh.maxBucket + 1,
                             post := pset c.sh.post k { p with bucket := c.sh.maxBucket + 1 },
                             listed := unlist c.sh.listed target k }
        { th with pc := .ins3 true (some (c.sh.maxBucket + 1)) } []
  | ins2SpillNone (target d k rest) (hpc : th.pc = .ins2 true target) (hprog : th.prog = .insert d k true :: rest)
      (hp : pget c.sh.post k = none) :
      Act c t th { c.sh with maxBucket := c.sh.maxBucket + 1, listed := unlist c.sh.listed target k }
        { th with pc := .ins3 false none } []
  | ins3Some (size n d k sp rest) (hpc : th.pc = .ins3 size (some n)) (hprog : th.prog = .insert d k sp :: rest) :
      Act c t th { c.sh with listed := (n, k) :: c.sh.listed } { th with pc := .ins4 size } []
  | ins3None (size d k sp rest) (hpc : th.pc = .ins3 size none) (hprog : th.prog = .insert d k sp :: rest) :
      Act c t th c.sh { th with pc := .ins4 size } []
  | ins4 (size d k sp rest) (hpc : th.pc = .ins4 size) (hprog : th.prog = .insert d k sp :: rest) :
      Act c t th c.sh (finish th (.okB size)) []
  | remHit (d k rest p) (hpc : th.pc = .idle) (hprog : th.prog = .remove d k :: rest)
      (hg : noCompactor c = true) (hp : pget c.sh.post k = some p) (hd : d ∈ p.ids) :
      Act c t th { c.sh with post := pset c.sh.post k { p with ids := p.ids.filter (fun x => !(x == d)) } }
        { th with pc := .rem1 true (p.ids.filter (fun x => !(x == d))).isEmpty p.bucket } [⟨t, false, d, k, true⟩]
  | remMiss (d k rest p) (hpc : th.pc = .idle) (hprog : th.prog = .remove d k :: rest)
      (hg : noCompactor c = true) (hp : pget c.sh.post k = some p) (hd : d ∉ p.ids) :
      Act c t th c.sh { th with pc := .rem1 false false p.bucket } [⟨t, false, d, k, false⟩]
  | remAbsent (d k rest) (hpc : th.pc = .idle) (hprog : th.prog = .remove d k :: rest)
      (hg : noCompactor c = true) (hp : pget c.sh.post k = none) :
      Act c t th c.sh { th with pc := .rem1 false false 0 } [⟨t, false, d, k, false⟩]
  | rem1No (e b d k rest) (hpc : th.pc = .rem1 false e b) (hprog : th.prog = .remove d k :: rest) :
      Act c t th c.sh (finish th (.removed false)) []
  | rem1Erase (b d k rest p) (hpc : th.pc = .rem1 true true b) (hprog : th.prog = .remove d k :: rest)
      (hp : pget c.sh.post k = some p) (he : p.ids = []) :
      Act c t th { c.sh with post := perase c.sh.post k } { th with pc := .rem2 true b } []
  | rem1Keep (b d k rest) (hpc : th.pc = .rem1 true true b) (hprog : th.prog = .remove d k :: rest)
      (hp : pget c.sh.post k = none ∨ ∃ p, pget c.sh.post k = some p ∧ p.ids ≠ []) :
      Act c t th c.sh { th with pc := .rem2 false b } []
  | rem1Skip (b d k rest) (hpc : th.pc = .rem1 true false b) (hprog : th.prog = .remove d k :: rest) :
      Act c t th c.sh { th with pc := .rem3 false b } []
  | rem2Drop (b d k rest) (hpc : th.pc = .rem2 true b) (hprog : th.prog = .remove d k :: rest)
      (hp : pget c.sh.post k = none) :
      Act c t th { c.sh with btree := c.sh.btree.filter (fun x => !(x == k)) } { th with pc := .rem3 true b } []
  | rem2Keep (er b d k rest) (hpc : th.pc = .rem2 er b) (hprog : th.prog = .remove d k :: rest)
      (hc : er = false ∨ (pget c.sh.post k).isSome = true) :
      Act c t th c.sh { th with pc := .rem3 er b } []
  | rem3Drop (b d k rest) (hpc : th.pc = .rem3 true b) (hprog : th.prog = .remove d k :: rest)
      (hc : pget c.sh.post k = none ∨ ∃ p, pget c.sh.post k = some p ∧ p.bucket ≠ b) :
      Act c t th { c.sh with listed := unlist c.sh.listed b k } (finish th (.removed true)) []
  | rem3Keep (er b d k rest) (hpc : th.pc = .rem3 er b) (hprog : th.prog = .remove d k :: rest) :
      Act c t th c.sh (finish th (.removed true)) []
  | cmpSkip (assign rest) (hpc : th.pc = .idle) (hprog : th.prog = .compact true assign :: rest)
      (hg : allIdle c = true) :
      Act c t th c.sh (finish th .compacted) []
  | cmpStart (assign rest) (hpc : th.pc = .idle) (hprog : th.prog = .compact false assign :: rest)
      (hg : allIdle c = true) :
      Act c t th c.sh { th with pc := .cmp1 } []
  | cmp1Empty (skip assign rest) (hpc : th.pc = .cmp1) (hprog : th.prog = .compact skip assign :: rest)
      (he : c.sh.post.isEmpty = true) :
      Act c t th { c.sh with listed := [], maxBucket := 0 } (finish th .compacted) []
  | cmp1Clear (skip assign rest) (hpc : th.pc = .cmp1) (hprog : th.prog = .compact skip assign :: rest) :
      Act c t th { c.sh with listed := [] } { th with pc := .cmp2 } []
  | cmp2 (skip assign rest) (hpc : th.pc = .cmp2) (hprog : th.prog = .compact skip assign :: rest) :
      Act c t th { c.sh with post := c.sh.post.map (fun e => (e.1, { e.2 with bucket := assign e.1 })),
                             listed := c.sh.post.map (fun e => (assign e.1, e.1)) }
        { th with pc := .cmp3 } []
  | cmp3 (skip assign rest) (hpc : th.pc = .cmp3) (hprog : th.prog = .compact skip assign :: rest) :
      Act c t th { c.sh with maxBucket := (c.sh.post.map (fun e => assign e.1)).foldl max 0 }
        (finish th .compacted) []

theorem step_act (t : Nat) (c c' : Cfg) (h : step t c = some c') :
    ∃ th sh' th' evs, c.threads[t]? = some th ∧ Act c t th sh' th' evs ∧
      c' = { sh := sh', threads := c.threads.set t th', hist := evs ++ c.hist } := by
  unfold step at h
  split at h
  · cases h
  · rename_i th hth
    refine ⟨th, ?_⟩
    split at h
    · cases h
    · -- idle, insert
      rename_i d k sp rest hpc hprog
      split at h
      · cases h
      · rename_i hg
        have hg' : noCompactor c = true := by simpa using hg
        split at h
        · rename_i p hp
          split at h
          · rename_i hu
            simp only [Bool.and_eq_true, Bool.not_eq_true', List.contains_eq_mem, decide_eq_false_iff_not] at hu
            cases h
            exact ⟨_, _, _, hth, Act.insErr d k sp rest p hpc hprog hg' hp hu.1 hu.2, rfl⟩
          · rename_i hu
            split at h
            · rename_i hd
              cases h
              exact ⟨_, _, _, hth, Act.insHas d k sp rest p hpc hprog hg' hp (by simpa using hd), rfl⟩
            · rename_i hd
              have hd' : d ∉ p.ids := by simpa using hd
              have hu' : c.sh.unique = false := by
                cases hun : c.sh.unique with
                | false => rfl
                | true => exfalso; apply hu; simp [hun, hd']
              cases h
              exact ⟨_, _, _, hth, Act.insApp d k sp rest p hpc hprog hg' hp hu' hd', rfl⟩
        · rename_i hp
          cases h
          exact ⟨_, _, _, hth, Act.insNew d k sp rest hpc hprog hg' hp, rfl⟩
    · -- ins1
      rename_i isNew size target d k sp rest hpc hprog
      simp only at h
      split at h
      · rename_i hc
        simp only [Bool.and_eq_true, Bool.not_eq_true'] at hc
        obtain ⟨p, hp⟩ := Option.isSome_iff_exists.1 hc.1.2
        cases h
        exact ⟨_, _, _, hth, Act.ins1Add isNew size target d k sp rest p hpc hprog hc.1.1 hp, rfl⟩
      · rename_i hc
        cases h
        refine ⟨_, _, _, hth, Act.ins1Skip isNew size target d k sp rest hpc hprog ?_, rfl⟩
        cases hn : isNew with
        | false => exact Or.inl rfl
        | true =>
          cases hp : pget c.sh.post k with
          | none => exact Or.inr (Or.inl rfl)
          | some p =>
            refine Or.inr (Or.inr ?_)
            cases hb : c.sh.btree.contains k with
            | true => simpa using hb
            | false =>
              have : k ∉ c.sh.btree := by simpa using hb
              exfalso; apply hc; simp [hn, hp, this]
    · -- ins2
      rename_i size target d k sp rest hpc hprog
      split at h
      · rename_i hs
        have : size = false := by simpa using hs
        subst this
        cases h
        exact ⟨_, _, _, hth, Act.ins2NoSize target d k sp rest hpc hprog, rfl⟩
      · rename_i hs
        have : size = true := by simpa using hs
        subst this
        split at h
        · rename_i hsp
          have : sp = false := by simpa using hsp
          subst this
          cases h
          exact ⟨_, _, _, hth, Act.ins2List target d k rest hpc hprog, rfl⟩
        · rename_i hsp
          have : sp = true := by simpa using hsp
          subst this
          simp only at h
          split at h
          · rename_i p hp
            cases h
            exact ⟨_, _, _, hth, Act.ins2SpillSome target d k rest p hpc hprog hp, rfl⟩
          · rename_i hp
            cases h
            exact ⟨_, _, _, hth, Act.ins2SpillNone target d k rest hpc hprog hp, rfl⟩
    · -- ins3
      rename_i size nb d k sp rest hpc hprog
      split at h
      · rename_i n
        cases h
        exact ⟨_, _, _, hth, Act.ins3Some size n d k sp rest hpc hprog, rfl⟩
      · cases h
        exact ⟨_, _, _, hth, Act.ins3None size d k sp rest hpc hprog, rfl⟩
    · -- ins4
      rename_i size d k sp rest hpc hprog
      cases h
      exact ⟨_, _, _, hth, Act.ins4 size d k sp rest hpc hprog, rfl⟩
    · -- idle, remove
      rename_i d k rest hpc hprog
      split at h
      · cases h
      · rename_i hg
        have hg' : noCompactor c = true := by simpa using hg
        split at h
        · rename_i p hp
          split at h
          · rename_i hd
            simp only at h
            cases h
            exact ⟨_, _, _, hth, Act.remHit d k rest p hpc hprog hg' hp (by simpa using hd), rfl⟩
          · rename_i hd
            cases h
            exact ⟨_, _, _, hth, Act.remMiss d k rest p hpc hprog hg' hp (by simpa using hd), rfl⟩
        · rename_i hp
          cases h
          exact ⟨_, _, _, hth, Act.remAbsent d k rest hpc hprog hg' hp, rfl⟩
    · -- rem1
      rename_i removed empty b d k rest hpc hprog
      split at h
      · rename_i hr
        have : removed = false := by simpa using hr
        subst this
        cases h
        exact ⟨_, _, _, hth, Act.rem1No empty b d k rest hpc hprog, rfl⟩
      · rename_i hr
        have : removed = true := by simpa using hr
        subst this
        split at h
        · rename_i he
          subst he
          split at h
          · rename_i p hp
            split at h
            · rename_i hemp
              cases h
              exact ⟨_, _, _, hth, Act.rem1Erase b d k rest p hpc hprog hp (by simpa using hemp), rfl⟩
            · rename_i hemp
              cases h
              exact ⟨_, _, _, hth, Act.rem1Keep b d k rest hpc hprog (Or.inr ⟨p, hp, by simpa using hemp⟩), rfl⟩
          · rename_i hp
            cases h
            exact ⟨_, _, _, hth, Act.rem1Keep b d k rest hpc hprog (Or.inl hp), rfl⟩
        · rename_i he
          have : empty = false := by simpa using he
          subst this
          cases h
          exact ⟨_, _, _, hth, Act.rem1Skip b d k rest hpc hprog, rfl⟩
    · -- rem2
      rename_i er b d k rest hpc hprog
      simp only at h
      split at h
      · rename_i hc
        simp only [Bool.and_eq_true, Option.isNone_iff_eq_none] at hc
        obtain ⟨h1, h2⟩ := hc
        subst h1
        cases h
        exact ⟨_, _, _, hth, Act.rem2Drop b d k rest hpc hprog h2, rfl⟩
      · rename_i hc
        cases h
        refine ⟨_, _, _, hth, Act.rem2Keep er b d k rest hpc hprog ?_, rfl⟩
        cases he : er with
        | false => exact Or.inl rfl
        | true =>
          cases hp : pget c.sh.post k with
          | none => exfalso; apply hc; simp [he, hp]
          | some p => exact Or.inr rfl
    · -- rem3
      rename_i er b d k rest hpc hprog
      cases hp : pget c.sh.post k with
      | none =>
        simp only [hp] at h
        cases he : er with
        | true =>
          subst he
          simp only [Bool.and_self, if_true] at h
          cases h
          exact ⟨_, _, _, hth, Act.rem3Drop b d k rest hpc hprog (Or.inl hp), rfl⟩
        | false =>
          subst he
          simp only [Bool.false_and, Bool.false_eq_true, if_false] at h
          cases h
          exact ⟨_, _, _, hth, Act.rem3Keep false b d k rest hpc hprog, rfl⟩
      | some p =>
        simp only [hp] at h
        by_cases hc : (er && !(p.bucket == b)) = true
        · simp only [hc, if_true] at h
          simp only [Bool.and_eq_true, Bool.not_eq_true', beq_eq_false_iff_ne, ne_eq] at hc
          obtain ⟨h1, h2⟩ := hc
          subst h1
          cases h
          exact ⟨_, _, _, hth, Act.rem3Drop b d k rest hpc hprog (Or.inr ⟨p, hp, h2⟩), rfl⟩
        · simp only [hc] at h
          cases h
          exact ⟨_, _, _, hth, Act.rem3Keep er b d k rest hpc hprog, rfl⟩
    · -- idle, compact
      rename_i skip assign rest hpc hprog
      split at h
      · cases h
      · rename_i hg
        have hg' : allIdle c = true := by simpa using hg
        split at h
        · rename_i hs
          subst hs
          cases h
          exact ⟨_, _, _, hth, Act.cmpSkip assign rest hpc hprog hg', rfl⟩
        · rename_i hs
          have : skip = false := by simpa using hs
          subst this
          cases h
          exact ⟨_, _, _, hth, Act.cmpStart assign rest hpc hprog hg', rfl⟩
    · -- cmp1
      rename_i skip assign rest hpc hprog
      split at h
      · rename_i he
        cases h
        exact ⟨_, _, _, hth, Act.cmp1Empty skip assign rest hpc hprog he, rfl⟩
      · cases h
        exact ⟨_, _, _, hth, Act.cmp1Clear skip assign rest hpc hprog, rfl⟩
    · -- cmp2
      rename_i skip assign rest hpc hprog
      cases h
      exact ⟨_, _, _, hth, Act.cmp2 skip assign rest hpc hprog, rfl⟩
    · -- cmp3
      rename_i skip assign rest hpc hprog
      cases h
      exact ⟨_, _, _, hth, Act.cmp3 skip assign rest hpc hprog, rfl⟩
    · cases h

end BTreeConc
end AndaVerif
