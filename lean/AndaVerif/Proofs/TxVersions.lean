import AndaVerif.Proofs.TxWrites
/-
What a committed statement did, element by element; the journal along a history; tuple uniqueness.
-/
namespace AndaVerif.Tx
open AndaVerif.Gen.NexusOrder

/-- two association lists with the same duplicate-free key column, the first contained in the
second, are equal -/
theorem list_eq_of_keys {α β : Type} : ∀ {a b : List (α × β)}, a.map (·.1) = b.map (·.1) → (b.map (·.1)).Nodup →
    (∀ k ∈ a, k ∈ b) → a = b
  | [], [], _, _, _ => rfl
  | [], _ :: _, h, _, _ => by simp at h
  | _ :: _, [], h, _, _ => by simp at h
  | x :: a', y :: b', h, hn, hm => by
      simp only [List.map_cons, List.cons.injEq] at h
      simp only [List.map_cons, List.nodup_cons] at hn
      have hxy : x = y := by
        rcases List.mem_cons.mp (hm x List.mem_cons_self) with h1 | h1
        · exact h1
        · exact absurd (List.mem_map.mpr ⟨x, h1, h.1⟩) hn.1
      subst hxy
      congr 1
      refine list_eq_of_keys h.2 hn.2 ?_
      intro k hk
      rcases List.mem_cons.mp (hm k (List.mem_cons_of_mem _ hk)) with h1 | h1
      · exfalso
        apply hn.1
        rw [← h.2]
        exact List.mem_map.mpr ⟨k, hk, by rw [h1]⟩
      · exact h1

/-- the version-log row a change record stands for -/
def Change.key (q : Nat) (c : Change) : Id × Nat × Nat := (c.id, c.version, q)
def VEntry.key (v : VEntry) : Id × Nat × Nat := (v.id, v.version, v.seq)

structure DoneSpec (s : Store) (st : Stmt) (q : Nat) (status : JStatus) (w : List Change) : Prop where
  seqs : q = s.seq + 1 ∧ (exec s st).1.seq = q
  statusIff : (status = .noEffect ↔ w = []) ∧ (status = .committed ↔ w ≠ [])
  journal : (exec s st).1.journal = { seq := q, status := status, changes := w, time := st.time } :: s.journal
  /-- each element at most once -/
  once : (w.map (·.id)).Nodup
  /-- elements outside the change list are not written — the raw rows are what they were -/
  frame : ∀ i, (∀ c ∈ w, c.id ≠ i) → (exec s st).1.elems i = s.elems i
  /-- every changed element carries the version of its change record and the commit's sequence,
  and has left the shell state -/
  stamped : ∀ c ∈ w, ∃ e, (exec s st).1.elems c.id = some e ∧ e.version = c.version ∧ e.seq = q ∧ e.state ≠ .pending
  /-- a created element starts at version 1 at an id that held nothing; an element that existed
  rises by exactly one and is never reported as a creation -/
  versions : ∀ c ∈ w, (c.op = .create → c.version = 1 ∧ s.elems c.id = none) ∧
      (∀ e0, s.elems c.id = some e0 → c.version = e0.version + 1 ∧ c.op ≠ .create)
  /-- a change keeps the immutable columns (type, key, tuple, payload) — unless the statement purges
  the element, and then its old version rows are destroyed -/
  immutable : ∀ c ∈ w, ∀ e0 e1, s.elems c.id = some e0 → (exec s st).1.elems c.id = some e1 →
      (e1.row.pay = e0.row.pay ∧ e1.row.tup = e0.row.tup ∧ e1.row.key = e0.row.key ∧ e1.row.ty = e0.row.ty) ∨
      c.id ∈ erasedOf s st
  /-- one version row per change, in order, all at the commit's sequence; the old rows stay, except
  those of the purged elements — which are among the changed ones -/
  vlog : ∃ extra, (exec s st).1.vlog = extra ++ eraseAll (erasedOf s st) s.vlog ∧
      extra.map VEntry.key = (w.map (Change.key q)).reverse ∧ ∀ v ∈ extra, (exec s st).1.elems v.id = some v.elem
  erasedChanged : ∀ i ∈ erasedOf s st, i ∈ w.map (·.id)

theorem exec_done {s : Store} (hwf : WF s) (st : Stmt) (q : Nat) (status : JStatus) (w : List Change)
    (h : (exec s st).2 = .done q status w) : DoneSpec s st q status w := by
  have hinv := planned_inv hwf st
  have hsinv := planned_sinv hwf st
  have hero : erasedOf s st = erasedIds (planned s st).tx.staged := by unfold erasedOf; rw [h]
  rcases exec_cases s st with ⟨e', he, hr⟩ | ⟨he, hc⟩
  · rw [hr] at h; simp at h
  · have hp := planned_planinv hwf st he
    cases hc with
    | dry hd hr => rw [hr] at h; simp at h
    | check hd e' hk hr => rw [hr] at h; simp at h
    | write hd u hk s' w' e' hw hr => rw [hr] at h; simp at h
    | done hd u hk s' w0 hw hr =>
        obtain ⟨w', extra, erased, sp⟩ := writeLoop_spec (planned s st).tx.seq (planned s st).tx.staged hsinv.keys (planned s st).s []
        rw [hw] at sp
        have hw' : w0 = w' := by have := sp.changes; simpa using this
        subst hw'
        have herased : erased = erasedOf s st := by rw [hero]; exact sp.erasedAll rfl
        have hm := writeLoop_meta (planned s st).tx.seq (planned s st).s (planned s st).tx.staged []
        rw [hw] at hm
        have hq : (planned s st).tx.seq = s.seq + 1 := hinv.txseq
        rw [hr] at h
        simp only [Outcome.done.injEq] at h
        obtain ⟨h1, h2, h3⟩ := h
        subst h3
        have hex : (exec s st).1 = committedStore s' (planned s st).tx st.time w0 := by rw [hr]
        have hkeep : ∀ i, i ∈ w0.map (·.id) → (committedStore s' (planned s st).tx st.time w0).elems i = s'.elems i := by
          intro i hi
          rw [committedStore_elems]; simp [hi]
        refine { seqs := ⟨by rw [← h1, hq], ?_⟩, statusIff := ?_, journal := ?_, once := sp.nodup, frame := ?_, stamped := ?_,
                 versions := ?_, immutable := ?_, vlog := ?_, erasedChanged := ?_ }
        · rw [hex]
          show s'.seq = q
          rw [← h1, hq]; exact hm.2.1.trans hinv.seq
        · rw [← h2]
          cases w0 with
          | nil => simp
          | cons c r => simp
        · rw [hex]
          show journalEntry (planned s st).tx st.time w0 :: s'.journal = _
          rw [hm.1, hinv.journal, ← h1, ← h2]; rfl
        · intro i hi
          rw [hex, committedStore_elems]
          split
          · rename_i hsh; exact (hinv.fresh i hsh.1).symm
          · rw [sp.frame i hi]
            have := hinv.raw i
            rename_i hsh
            by_cases hmem : i ∈ (planned s st).tx.shells
            · exfalso; apply hsh; refine ⟨hmem, ?_⟩
              intro hm'
              obtain ⟨c, hc, hci⟩ := List.mem_map.mp hm'
              exact hi c hc hci
            · simp only [hmem, if_false] at this; exact this
        · intro c hc
          obtain ⟨x, hx, hch, hceq, hel, _⟩ := sp.written c hc
          refine ⟨writtenElem (planned s st).tx.seq c.id x, ?_, ?_, ?_, writtenElem_not_pending _ _ _⟩
          · rw [hex, hkeep c.id (List.mem_map.mpr ⟨c, hc, rfl⟩)]; exact hel
          · rw [hceq]; rfl
          · show (planned s st).tx.seq = q; rw [← h1]
        · intro c hc
          obtain ⟨x, hx, hch, hceq, hel, _⟩ := sp.written c hc
          have hok := hsinv.entries _ hx
          constructor
          · intro hop
            have hnew : x.isNew = true := by
              cases hn : x.isNew with
              | true => rfl
              | false => exact absurd (by rw [hceq] at hop; exact hop) (hok.2.1 hn).1
            exact ⟨by rw [hceq]; simp [changeOf, hnew], hinv.fresh c.id (hp.n.newShell _ hx hnew)⟩
          · intro e0 he0
            have hnew : x.isNew = false := by
              cases hn : x.isNew with
              | false => rfl
              | true =>
                  have := hinv.fresh c.id (hp.n.newShell _ hx hn)
                  rw [show ({ s with seq := s.seq + 1 } : Store).elems c.id = s.elems c.id from rfl, he0] at this
                  cases this
            obtain ⟨hopc, e, hee, hver, _⟩ := hok.2.1 hnew
            have hnsh : c.id ∉ (planned s st).tx.shells := by
              intro hm'
              have := hinv.fresh c.id hm'
              rw [show ({ s with seq := s.seq + 1 } : Store).elems c.id = s.elems c.id from rfl, he0] at this
              cases this
            have hraw := hinv.raw c.id
            simp only [hnsh, if_false] at hraw
            rw [show ({ s with seq := s.seq + 1 } : Store).elems c.id = s.elems c.id from rfl, he0] at hraw
            have : some e = some e0 := by rw [← hee]; exact hraw
            cases this
            exact ⟨by rw [hceq]; simp [changeOf, hnew, hver], by rw [hceq]; exact hopc⟩
        · intro c hc e0 e1 he0 he1
          obtain ⟨x, hx, hch, hceq, hel, _⟩ := sp.written c hc
          have hok := hsinv.entries _ hx
          have hnew : x.isNew = false := by
            cases hn : x.isNew with
            | false => rfl
            | true =>
                have := hinv.fresh c.id (hp.n.newShell _ hx hn)
                rw [show ({ s with seq := s.seq + 1 } : Store).elems c.id = s.elems c.id from rfl, he0] at this
                cases this
          obtain ⟨_, e, hee, _, himm⟩ := hok.2.1 hnew
          have hnsh : c.id ∉ (planned s st).tx.shells := by
            intro hm'
            have := hinv.fresh c.id hm'
            rw [show ({ s with seq := s.seq + 1 } : Store).elems c.id = s.elems c.id from rfl, he0] at this
            cases this
          have hraw := hinv.raw c.id
          simp only [hnsh, if_false] at hraw
          rw [show ({ s with seq := s.seq + 1 } : Store).elems c.id = s.elems c.id from rfl, he0] at hraw
          have h01 : some e = some e0 := by rw [← hee]; exact hraw
          cases h01
          rw [hex, hkeep c.id (List.mem_map.mpr ⟨c, hc, rfl⟩), hel] at he1
          cases he1
          rcases himm with ⟨hty, hkey, htup, hpay⟩ | ⟨_, _, _, _, her⟩
          · exact .inl ⟨hpay.symm, htup.symm, hkey.symm, hty.symm⟩
          · right
            rw [hero]
            have her' : x.erase = true := her
            exact List.mem_map.mpr ⟨(c.id, x), List.mem_filter.mpr ⟨hx, by simp [hch, her']⟩, rfl⟩
        · refine ⟨extra, by rw [hex]; show s'.vlog = _; rw [sp.vlog, hinv.vlog, herased], ?_, ?_⟩
          rotate_left
          · intro v hv
            have hvid : v.id ∈ w0.map (·.id) := by
              have : v.id ∈ extra.map (·.id) := List.mem_map.mpr ⟨v, hv, rfl⟩
              rw [sp.extraIds] at this
              exact List.mem_reverse.mp this
            rw [hex, hkeep v.id hvid]
            exact (sp.extraOK v hv).2.1
          -- one row per change: ids in reverse order of the changes, versions / sequences from the stored rows
          have hlen : extra.map (·.id) = (w0.map (·.id)).reverse := sp.extraIds
          have hrow : ∀ v ∈ extra, ∃ c ∈ w0, v.key = c.key q := by
            intro v hv
            have hvid : v.id ∈ (w0.map (·.id)).reverse := by rw [← hlen]; exact List.mem_map.mpr ⟨v, hv, rfl⟩
            obtain ⟨c, hc, hci⟩ := List.mem_map.mp (List.mem_reverse.mp hvid)
            obtain ⟨x, hx, hch, hceq, hel, _⟩ := sp.written c hc
            obtain ⟨hvs, hvel, hvv, _⟩ := sp.extraOK v hv
            rw [← hci, hel] at hvel
            refine ⟨c, hc, ?_⟩
            have hve : v.elem = writtenElem (planned s st).tx.seq c.id x := (Option.some.inj hvel).symm
            simp only [VEntry.key, Change.key, Prod.mk.injEq]
            refine ⟨hci.symm, ?_, by rw [hvs, ← h1]⟩
            rw [hvv, hve, hceq]; rfl
          -- two lists with the same (duplicate-free) id column whose rows agree per id are equal
          have hnd : ((w0.map (Change.key q)).reverse.map (·.1)).Nodup := by
            have : (w0.map (Change.key q)).reverse.map (·.1) = (w0.map (·.id)).reverse := by
              simp [List.map_reverse, Change.key, Function.comp_def]
            rw [this]
            have h0 := sp.nodup
            unfold List.Nodup at h0 ⊢
            rw [List.pairwise_reverse]
            exact h0.imp (fun h => fun e => h e.symm)
          have hids : (extra.map VEntry.key).map (·.1) = (w0.map (Change.key q)).reverse.map (·.1) := by
            have : (w0.map (Change.key q)).reverse.map (·.1) = (w0.map (·.id)).reverse := by
              simp [List.map_reverse, Change.key, Function.comp_def]
            rw [this, ← hlen]; simp [VEntry.key, Function.comp_def]
          have hmemR : ∀ k ∈ extra.map VEntry.key, k ∈ (w0.map (Change.key q)).reverse := by
            intro k hk
            obtain ⟨v, hv, hvk⟩ := List.mem_map.mp hk
            obtain ⟨c, hc, hcv⟩ := hrow v hv
            rw [← hvk, hcv]
            exact List.mem_reverse.mpr (List.mem_map.mpr ⟨c, hc, rfl⟩)
          exact list_eq_of_keys hids hnd hmemR
        · intro i hi
          rw [← herased] at hi
          exact (sp.erasedSub i hi).1

end AndaVerif.Tx
