import AndaVerif.Proofs.ConcAll
/-
Convergence of what is persisted: whenever the flush watermark has caught up with the metadata
version (`last_saved_version = stats.version`) and no flush is between its metadata PUT and its ids
PUT, the persisted ids object is the current id set and the persisted metadata object is the
snapshot of the current state — so a reopen reads the state the handle is in.
-/
namespace AndaVerif.ConcColl

/-- a metadata snapshot without `max_document_id` (the allocator also advances for adds that fail,
without a version bump, so the persisted value may lag: ids are burnt, never reused while the handle
lives) -/
def MetaSnap.core (m : MetaSnap) : Nat × Nat × Nat × Nat × Nat × List (Nat × Nat) :=
  (m.numDocs, m.statVer, m.inserts, m.updates, m.deletes, m.ext)

def Thread.extActive (th : Thread) : Bool :=
  match th.op with | .ext _ _ => th.pc == .extWait || th.pc == .extPut | _ => false
def Thread.atFIds (th : Thread) : Bool := match th.op with | .flush => th.pc == .fIds | _ => false

theorem stepThread_saved (sh : Shared) (t : Nat) (th : Thread) (sh' : Shared) (th' : Thread)
    (h : stepThread sh t th = some (sh', th')) :
    sh.statVer ≤ sh'.statVer ∧
    (th.isFlush = false → sh'.savedVer = sh.savedVer ∧ sh'.pIds = sh.pIds ∧
      ((sh'.statVer = sh.statVer ∧ (snapshot sh').core = (snapshot sh).core ∧ sh'.ids = sh.ids) ∨ sh.statVer < sh'.statVer) ∧
      (th.extActive = false → sh'.pMeta = sh.pMeta) ∧
      (th'.extActive = true → th.extActive = true ∨ sh.statVer < sh'.statVer)) ∧
    (th.isFlush = true → sh'.statVer = sh.statVer ∧ (snapshot sh').core = (snapshot sh).core ∧ sh'.ids = sh.ids ∧
      th'.extActive = false ∧
      (th.pc ≠ .fMeta → sh'.savedVer = sh.savedVer ∧ sh'.pMeta = sh.pMeta) ∧
      (th.pc = .fMeta → th'.pc ≠ .done → sh'.savedVer = max sh.savedVer th.snap.statVer ∧ sh'.pMeta = some th.snap ∧ sh'.pIds = sh.pIds) ∧
      (th.pc = .fMeta → th'.pc = .done → sh'.savedVer = sh.savedVer ∧ sh'.pMeta = sh.pMeta ∧ sh'.pIds = sh.pIds) ∧
      (th.pc ≠ .fIds → th.pc ≠ .fMeta → sh'.pIds = sh.pIds) ∧
      (th.pc = .fIds → sh'.pIds = th.pids ∧ th'.atFIds = false) ∧
      (th'.atFIds = true → th.pc = .fMeta)) := by
  step_cases h
  all_goals (try simp_all [Thread.isFlush, Thread.extActive, Thread.atFIds, snapshot, MetaSnap.core])
  all_goals (try omega)
  all_goals (unfold rmBitmap; split <;> simp_all <;> (try omega))
  all_goals (intro a ha he; subst he; contradiction)

/-- `M` … the persisted objects are current whenever the watermark has caught up -/
structure SavedInv (c : Cfg) : Prop where
  le : c.sh.savedVer ≤ c.sh.statVer
  /-- an extension writer in flight has bumped the version since the last flush -/
  ext : ∀ (x : Nat) (th : Thread), c.th[x]? = some th → th.extActive = true → c.sh.savedVer < c.sh.statVer
  cur : (∀ (x : Nat) (th : Thread), c.th[x]? = some th → th.atFIds = false) →
    c.sh.savedVer = c.sh.statVer →
    c.sh.pIds = some c.sh.ids ∧ c.sh.pMeta.map MetaSnap.core = some (snapshot c.sh).core
  fidsF3 : ∀ (x : Nat) (th : Thread), c.th[x]? = some th → th.atFIds = true → th.f3 = true

/-- what the handle state must satisfy initially: nothing newer than what is persisted, or dirty -/
structure SavedInit (sh : Shared) : Prop where
  le : sh.savedVer ≤ sh.statVer
  cur : sh.savedVer = sh.statVer → sh.pIds = some sh.ids ∧ sh.pMeta.map MetaSnap.core = some (snapshot sh).core

theorem SavedInv.init (sh : Shared) (si : SavedInit sh) (ops : List Op) : SavedInv (start sh ops) := by
  refine ⟨si.le, ?_, fun _ h => si.cur h, ?_⟩
  · intro x th hx ha
    have := (start_idle sh ops x th hx).1
    unfold Thread.extActive at ha
    split at ha <;> simp [this] at ha
  · intro x th hx ha
    have := (start_idle sh ops x th hx).1
    unfold Thread.atFIds at ha
    split at ha <;> simp [this] at ha

theorem SavedInv.step {t : Nat} {c c' : Cfg} (inv : SavedInv c) (g : GateInv c) (fl : FlushInv c)
    (h : step t c = some c') : SavedInv c' := by
  obtain ⟨th, sh', th', hth, hst, rfl⟩ := step_elim h
  obtain ⟨hop, hnd, hni, _, _, _, _⟩ := stepThread_gate _ _ _ _ _ hst
  obtain ⟨hmono, hmut, hflush⟩ := stepThread_saved _ _ _ _ _ hst
  have hself : (c.th.set t th')[t]? = some th' := getElem?_set_self' _ _ _ _ hth
  have hother : ∀ x, x ≠ t → (c.th.set t th')[x]? = c.th[x]? := fun x hx => getElem?_set_ne' _ _ _ _ hx
  rcases hk : th.isFlush with _ | _
  · -- a mutation or a read
    obtain ⟨hsv, hpi, hchg, hpm, hext'⟩ := hmut hk
    have hnofids : th.atFIds = false := by
      unfold Thread.atFIds; unfold Thread.isFlush at hk; split at hk <;> simp_all
    have hnofids' : th'.atFIds = false := by
      unfold Thread.atFIds; unfold Thread.isFlush at hk; rw [hop]; split at hk <;> simp_all
    refine ⟨by show sh'.savedVer ≤ sh'.statVer; rw [hsv]; exact Nat.le_trans inv.le hmono, ?_, ?_, ?_⟩
    rotate_left 2
    · intro x thx hx ha
      by_cases hxt : x = t
      · subst hxt; rw [hself] at hx; cases hx; rw [hnofids'] at ha; cases ha
      · rw [hother x hxt] at hx; exact inv.fidsF3 x thx hx ha
    · intro x thx hx ha
      show sh'.savedVer < sh'.statVer
      rw [hsv]
      by_cases hxt : x = t
      · subst hxt; rw [hself] at hx; cases hx
        rcases hext' ha with h1 | h1
        · exact Nat.lt_of_lt_of_le (inv.ext x th hth h1) hmono
        · exact Nat.lt_of_le_of_lt inv.le h1
      · rw [hother x hxt] at hx
        exact Nat.lt_of_lt_of_le (inv.ext x thx hx ha) hmono
    · intro hno heq
      show sh'.pIds = some sh'.ids ∧ sh'.pMeta.map MetaSnap.core = some (snapshot sh').core
      have heq' : sh'.savedVer = sh'.statVer := heq
      rw [hsv] at heq'
      rcases hchg with ⟨hst', hsn, hids⟩ | hlt
      · have hsame : c.sh.savedVer = c.sh.statVer := by rw [heq', hst']
        have hno0 : ∀ (x : Nat) (thx : Thread), c.th[x]? = some thx → thx.atFIds = false := by
          intro x thx hx
          by_cases hxt : x = t
          · subst hxt; rw [hth] at hx; cases hx; exact hnofids
          · exact hno x thx (by rw [hother x hxt]; exact hx)
        obtain ⟨h1, h2⟩ := inv.cur hno0 hsame
        have hnotext : th.extActive = false := by
          rcases he : th.extActive with _ | _
          · rfl
          · have := inv.ext t th hth he; omega
        rw [hpi, hids, hsn, hpm hnotext]
        exact ⟨h1, h2⟩
      · have := inv.le; omega
  · -- the flush
    obtain ⟨hsv, hsn, hids, hnoext, hnm, hm, hmd, hpo, hfi, hfids'⟩ := hflush hk
    have hopf : th.op = .flush := by unfold Thread.isFlush at hk; split at hk <;> simp_all
    have hact_excl : ∀ (x : Nat) (thx : Thread), x ≠ t → c.th[x]? = some thx → th.pc ≠ .idle →
        thx.extActive = false ∧ thx.atFIds = false := by
      intro x thx hxt hx hpc
      have hact : th.pc.active = true := by rw [Pc.active_iff]; exact ⟨hpc, hnd⟩
      have hw := (g.writer t).mpr ⟨th, hth, hk, hact⟩
      have hr := g.excl (by simp [hw])
      constructor
      · rcases he : thx.extActive with _ | _
        · rfl
        · exfalso
          have hm' : thx.isMut = true ∧ thx.pc.active = true := by
            unfold Thread.extActive at he; unfold Thread.isMut
            split at he <;> simp_all [Pc.active]
            rcases he with h | h <;> simp [h]
          have := (g.readers x).mpr ⟨thx, hx, hm'.1, hm'.2⟩
          simp [hr] at this
      · rcases he : thx.atFIds with _ | _
        · rfl
        · exfalso
          have hf' : thx.isFlush = true ∧ thx.pc.active = true := by
            unfold Thread.atFIds at he; unfold Thread.isFlush
            split at he <;> simp_all [Pc.active]
          have := (g.writer x).mpr ⟨thx, hx, hf'.1, hf'.2⟩
          rw [hw] at this
          exact hxt (Option.some.inj this).symm
    refine ⟨?_, ?_, ?_, ?_⟩
    rotate_left 3
    · intro x thx hx ha
      by_cases hxt : x = t
      · subst hxt; rw [hself] at hx; cases hx
        have hpm := hfids' ha
        obtain ⟨_, _, _, _, hmeta, _⟩ := stepThread_flush _ _ _ _ _ hst hopf
        have hnd' : th'.pc ≠ .done := by
          unfold Thread.atFIds at ha; rw [hop, hopf] at ha; simp at ha; simp [ha]
        exact (hmeta hpm hnd').2.1
      · rw [hother x hxt] at hx; exact inv.fidsF3 x thx hx ha
    · show sh'.savedVer ≤ sh'.statVer
      rw [hsv]
      by_cases hpm : th.pc = .fMeta
      · by_cases hd : th'.pc = .done
        · rw [(hmd hpm hd).1]; exact inv.le
        · rw [(hm hpm hd).1]
          have := (fl t th hth hopf).2.1 hpm
          rw [this]; simp only [snapshot]; have := inv.le; omega
      · rw [(hnm hpm).1]; exact inv.le
    · intro x thx hx ha
      show sh'.savedVer < sh'.statVer
      by_cases hxt : x = t
      · subst hxt; rw [hself] at hx; cases hx; rw [hnoext] at ha; cases ha
      · rw [hother x hxt] at hx
        have hlt := inv.ext x thx hx ha
        -- an extension writer in flight excludes an active flush: the flush is idle and stays out
        have hidle : th.pc = .idle := by
          by_cases hi : th.pc = .idle
          · exact hi
          · have := (hact_excl x thx hxt hx hi).1; rw [ha] at this; cases this
        rw [hsv, (hnm (by simp [hidle])).1]; exact hlt
    · intro hno heq
      show sh'.pIds = some sh'.ids ∧ sh'.pMeta.map MetaSnap.core = some (snapshot sh').core
      have heq' : sh'.savedVer = c.sh.statVer := by have : sh'.savedVer = sh'.statVer := heq; rw [hsv] at this; exact this
      have hnof' : th'.atFIds = false := hno t th' hself
      rw [hids, hsn]
      by_cases hpm : th.pc = .fMeta
      · by_cases hd : th'.pc = .done
        · obtain ⟨h1, h2, h3⟩ := hmd hpm hd
          have hno0 : ∀ (x : Nat) (thx : Thread), c.th[x]? = some thx → thx.atFIds = false := by
            intro x thx hx
            by_cases hxt : x = t
            · subst hxt; rw [hth] at hx; cases hx; simp [Thread.atFIds, hopf, hpm]
            · exact hno x thx (by rw [hother x hxt]; exact hx)
          rw [h3, h2]; exact inv.cur hno0 (by rw [← h1]; exact heq')
        · -- the metadata PUT leads to fIds: excluded by the hypothesis
          exfalso
          have := stepThread_flush _ _ _ _ _ hst hopf
          obtain ⟨_, _, _, _, hmeta, _⟩ := this
          have hpc' := (hmeta hpm hd).1
          simp [Thread.atFIds, hop, hopf, hpc'] at hnof'
      · obtain ⟨h1, h2⟩ := hnm hpm
        by_cases hfids : th.pc = .fIds
        · -- the ids PUT: everything persisted is the frozen state
          obtain ⟨hp, _⟩ := hfi hfids
          obtain ⟨_, _, i2, _⟩ := fl t th hth hopf
          have hf3 : th.f3 = true := inv.fidsF3 t th hth (by simp [Thread.atFIds, hopf, hfids])
          obtain ⟨hpids, hpmeta⟩ := i2 hf3 (Or.inl hfids)
          rw [hp, hpids, h2, hpmeta]
          exact ⟨rfl, rfl⟩
        · have hno0 : ∀ (x : Nat) (thx : Thread), c.th[x]? = some thx → thx.atFIds = false := by
            intro x thx hx
            by_cases hxt : x = t
            · subst hxt; rw [hth] at hx; cases hx; simp [Thread.atFIds, hopf, hfids]
            · exact hno x thx (by rw [hother x hxt]; exact hx)
          rw [hpo hfids hpm, h2]
          exact inv.cur hno0 (by rw [← h1]; exact heq')

theorem savedInv_run (sh : Shared) (wf : WF sh) (si : SavedInit sh) (ops : List Op) (s : List Nat) :
    SavedInv (run s (start sh ops)) := by
  have : AllInv sh.maxId sh.hist (run s (start sh ops)) ∧ SavedInv (run s (start sh ops)) :=
    Sched.sched_inv step (fun c => AllInv sh.maxId sh.hist c ∧ SavedInv c)
      (fun _ _ _ inv h => ⟨inv.1.step h, inv.2.step inv.1.gate inv.1.flush h⟩) s _
      ⟨AllInv.init sh wf ops, SavedInv.init sh si ops⟩
  exact this.2

end AndaVerif.ConcColl
