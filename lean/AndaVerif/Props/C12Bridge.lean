import AndaVerif.Props.C12
import AndaVerif.Model.Collection
import AndaVerif.Props.C08
/-
C12 ↔ C02: the collection-level model (`Model/Collection.lean`, property C02) treats an HNSW index as
its ID SET — `Hn = ⟨field, dim, ids⟩` with `hnInsert` (dimension check, then `AlreadyExists`, else the
id is consed onto `ids`) and `hnRemove` (filter) — and never looks inside.  That is an assumption about
`anda_db_hnsw::HnswIndex`.  This file discharges it with the C12 model of the real index
(`insertAbs` / `remove` / `searchF32` / `load`, tied to the code by the C12 correspondence): whatever
graph the construction builds (`node`, `edits`), whatever replacement entry point or re-linker is
used, the id set of the C12 index evolves EXACTLY as C02's `Hn.ids`, errors included and in the same
order of checks; a search returns only members of that set, distinct and at most `k`; and `load_all`
re-establishes the agreement id set = node map.

`abs` is the abstraction function; `valid` of `insertAbs` is C02's `n == dim` (C02 abstracts a vector to
its dimension; non-finite components are refused before the collection reaches the index, C13).
-/
namespace AndaVerif.Hnsw

open AndaVerif.Collection in
/-- the C02 view of a C12 index -/
def abs (field dim : Nat) (s : Index) : AndaVerif.Collection.Hn := { field := field, dim := dim, ids := s.ids }

/-- `Hnsw::insert` of the C02 model is refined by `HnswIndex::insert` of the C12 model -/
theorem c02_hnInsert_refined (field dim : Nat) (s : Index) (hs : IdsSync s) (id n : Nat) (node : Node)
    (edits : List (Nat × Node)) (pick : Nat × Nat) :
    match AndaVerif.Collection.hnInsert (abs field dim s) id n with
    | .ok h' =>
        (insertAbs s id node edits pick (n == dim)).2 = true ∧
        abs field dim (insertAbs s id node edits pick (n == dim)).1 = h' ∧
        IdsSync (insertAbs s id node edits pick (n == dim)).1
    | .error e =>
        (insertAbs s id node edits pick (n == dim)).2 = false ∧
        (insertAbs s id node edits pick (n == dim)).1 = s ∧
        (e = .index ↔ (n == dim) = false) ∧ (e = .exists ↔ ((n == dim) = true ∧ id ∈ s.ids)) := by
  obtain ⟨hflag, hrej, hacc, hsync⟩ := hnsw_spec_insert s hs id node edits pick (n == dim)
  unfold AndaVerif.Collection.hnInsert abs
  dsimp only
  by_cases hd : n = dim
  · subst hd
    simp only [bne_self_eq_false, Bool.false_eq_true, if_false, beq_self_eq_true] at hflag hrej hacc hsync ⊢
    by_cases hc : s.ids.contains id = true
    · simp only [hc, if_true]
      have hf : (insertAbs s id node edits pick true).2 = false := by
        have := hflag; simp only [hc, Bool.not_true, Bool.and_false] at this
        simpa using this
      have : id ∈ s.ids := by simpa using hc
      exact ⟨by simpa using hf, hrej (by simpa using hf), by simp, by simp [this]⟩
    · have hc' : s.ids.contains id = false := by simpa using hc
      simp only [hc', Bool.false_eq_true, if_false]
      have ht : (insertAbs s id node edits pick true).2 = true := by
        have := hflag; simp only [hc', Bool.not_false, Bool.and_true] at this
        simpa using this
      refine ⟨by simpa using ht, ?_, by simpa using hsync⟩
      have := hacc (by simpa using ht)
      rw [this]
  · have hb : (n == dim) = false := by simpa using hd
    have hne : (n != dim) = true := by simpa using hd
    simp only [hne, if_true]
    have hf : (insertAbs s id node edits pick (n == dim)).2 = false := by
      rw [hflag, hb]; rfl
    exact ⟨hf, hrej hf, by simp [hb], by simp [hb]⟩

/-- `Hnsw::remove` of the C02 model is refined by `HnswIndex::remove` of the C12 model -/
theorem c02_hnRemove_refined (field dim : Nat) (s : Index) (hs : IdsSync s) (id : Nat) (pick : Nat × Nat)
    (relink : Nat → Nat → List Nat → List Nat) :
    abs field dim (remove s id pick relink).1 = AndaVerif.Collection.hnRemove (abs field dim s) id ∧
    (remove s id pick relink).2 = (abs field dim s).ids.contains id ∧
    IdsSync (remove s id pick relink).1 := by
  obtain ⟨hflag, hids, hsync⟩ := hnsw_spec_remove s hs id pick relink
  refine ⟨?_, hflag, hsync⟩
  unfold AndaVerif.Collection.hnRemove abs
  simp only [hids]

/-- what C02 concludes from `vector_one_entry_per_doc` ("a search, which only returns entries, returns
only such documents"): a C12 search returns only ids of the C02 id set, distinct, at most `k` -/
theorem c02_search_returns_entries (field dim : Nat) (s : Index) (hs : IdsSync s) (dist : Nat → Option Nat)
    (k efSearch : Nat) (finite dimOk : Bool) (res : List Ent)
    (h : searchF32 s.nodes s.entry dist k efSearch finite dimOk = .ok res) :
    res.length ≤ k ∧ (res.map (·.2)).Nodup ∧ ∀ e ∈ res, e.2 ∈ (abs field dim s).ids :=
  hnsw_spec_search s hs dist k efSearch finite dimOk res h

/-- the agreement id set = node map, which the refinement needs, holds for the created index, is
preserved by both operations (above) and re-established by every `load_all` -/
theorem c02_sync_established (mls : Nat) (D : Durable) (pick : Nat × Nat) (s : Index) :
    IdsSync (createS mls) ∧ (load D pick = .ok s → IdsSync s) :=
  ⟨fun i => by simp [createS, keys], hnsw_spec_load D pick s⟩

/-- non-vacuity: two inserts and a removal, C02 view and C12 view side by side -/
def exB : Index :=
  (remove (insertAbs (insertAbs (createS 16) 7 ⟨0, [[]]⟩ [] (0, 0) true).1 9 ⟨0, [[7]]⟩ [(7, ⟨0, [[9]]⟩)] (0, 0) true).1
    7 (9, 0) (fun _ _ l => l)).1

example : (abs 1 4 exB).ids = [9] := by decide
example : AndaVerif.Collection.hnInsert (abs 1 4 exB) 9 4 = .error .exists := by rfl
example : AndaVerif.Collection.hnInsert (abs 1 4 exB) 5 3 = .error .index := by rfl
example : (insertAbs exB 9 ⟨0, [[]]⟩ [] (0, 0) true).2 = false ∧ (insertAbs exB 5 ⟨0, [[]]⟩ [] (0, 0) false).2 = false := by decide

/-! ## C12 ↔ C08: the atomic object write the flush model assumes

`Model/HnswStore.applyWrite` makes each durable write of a flush (one node blob, the ids object, the
metadata object, one purge deletion) a single atomic step: a crash leaves that object whole — old or
new.  The collection wrapper performs each of them as ONE call of the object-store wrapper
(`put_bytes` with `Overwrite` for node blobs, `Update(version)` for ids / metadata, `delete` for the
purge), and C08 proves exactly this of every such call at every cut of its backend steps, in every
reachable wrapper state.  The corollaries below specialise `C08.crash_atomic_reachable` /
`delete_atomic` to the calls a C12 write maps to (any key, any payload, any put mode).

Not covered here (said in notes/C12.md): that a write leaves the OTHER keys unchanged is C08's
refinement of its reference store (`ObjStoreSpec`), which is not exported per key in a form this file
could cite; the C12 harness observes it on the real `Storage` (wrapper route, `read_durable`). -/

/-- the object-store call a C12 durable write is performed by -/
def callOf (key : AndaVerif.ObjStore.Path) (mode : AndaVerif.ObjStore.PutMode) (payload : AndaVerif.ObjStore.Bytes) :
    Write → AndaVerif.ObjStore.Call
  | .del _ => .delete key
  | _ => .put key mode payload

open AndaVerif.ObjStore in
/-- every C12 write, cut anywhere inside the wrapper call that performs it, leaves every object
readable as it was before or as it is after the completed call — never a mixture -/
theorem c08_write_atomic (fl : AndaVerif.Gen.SidecarOrder.Wrapper) (es : List Event) (now : Nat) (key : Path) (mode : PutMode) (payload : Bytes)
    (w12 : Write) (n : Nat) (x : Path) :
    let w := run { W.init with flavor := fl } es
    readCold (crashState w now (callOf key mode payload w12) n).be x = readCold w.be x ∨
    readCold (crashState w now (callOf key mode payload w12) n).be x =
      readCold (wStep w now (callOf key mode payload w12)).1.be x :=
  crash_atomic_reachable fl es now (callOf key mode payload w12) n x

open AndaVerif.ObjStore in
/-- a purge deletion cut anywhere leaves the blob whole or gone -/
theorem c08_purge_atomic (fl : AndaVerif.Gen.SidecarOrder.Wrapper) (es : List Event) (now : Nat) (key : Path) (mode : PutMode) (payload : Bytes)
    (i n : Nat) :
    let w := run { W.init with flavor := fl } es
    readCold (applyPrefix now w.be (stepsOf w now (callOf key mode payload (.del i))) n) key = readCold w.be key ∨
    readCold (applyPrefix now w.be (stepsOf w now (callOf key mode payload (.del i))) n) key = none :=
  delete_atomic _ (AndaVerif.ObjStore.reachable_inv fl es) now key n

end AndaVerif.Hnsw
