import AndaVerif.Model.KmlExec
import AndaVerif.Model.KmlSafe
import AndaVerif.Proofs.KmlGuardBasic
import AndaVerif.Proofs.KmlExecBasic
/-
C16, the part the parser cannot decide: an UPDATE whose target kind is known only at run time.
Theorems over `Model/KmlExec` (the executor's kind gate, interpreted from tables regenerated from
`anda_cognitive_nexus/src/kml/update.rs`) and the parser's generated tables.
-/
namespace AndaVerif.KmlExec

open AndaVerif.Gen

/-- **Run-time kind gate.** Whatever the kind of the element an UPDATE reaches, an action that is
not refused by `apply_action` touches: Core fields only on a kind of `fieldsKinds` (= Concept) and
only fields of `writableCore`; structure only on a kind of `structuralKinds` (= Concept);
attributes only on a kind of `attributeKinds`. -/
theorem runtime_kind_gate (k : ElemKind) (a : Action) (p : Plane) (h : applyAction k a = .ok p) :
    (∀ fs, p = .core fs → k.name ∈ KmlExecTables.fieldsKinds ∧ ∀ f ∈ fs, f ∈ writableCore) ∧
    (p = .structural → k.name ∈ KmlExecTables.structuralKinds) ∧
    (p = .attributes → k.name ∈ KmlExecTables.attributeKinds) := by
  have gate : ∀ kinds body, gated kinds k body = .ok p → k.name ∈ kinds ∧ body = .ok p := by
    intro kinds body hg
    unfold gated at hg
    split at hg
    · rename_i hc
      exact ⟨by simpa using hc, hg⟩
    · cases hg
  cases a with
  | setFields fs =>
    simp only [applyAction, Action.variant, lookup, KmlExecTables.actionApplier] at h
    simp at h
    obtain ⟨hk, hb⟩ := gate _ _ h
    split at hb
    · cases hb
    · rename_i written hw
      cases hb
      obtain ⟨hw1, hw2⟩ := setFieldsLoop_ok fs written hw
      refine ⟨?_, (fun hp => by cases hp), (fun hp => by cases hp)⟩
      intro fs' hfs
      cases hfs
      refine ⟨hk, ?_⟩
      intro f hf
      rw [hw1] at hf
      obtain ⟨x, hx, rfl⟩ := List.mem_map.mp hf
      exact fieldRule_ok_writable (hw2 x hx)
  | setAttributes =>
    simp only [applyAction, Action.variant, lookup, KmlExecTables.actionApplier] at h
    simp at h
    obtain ⟨hk, hb⟩ := gate _ _ h
    cases hb
    exact ⟨(fun fs hp => by cases hp), (fun hp => by cases hp), fun _ => hk⟩
  | unsetAttributes =>
    simp only [applyAction, Action.variant, lookup, KmlExecTables.actionApplier] at h
    simp at h
    obtain ⟨hk, hb⟩ := gate _ _ h
    cases hb
    exact ⟨(fun fs hp => by cases hp), (fun hp => by cases hp), fun _ => hk⟩
  | setFacet =>
    simp only [applyAction, Action.variant, lookup, KmlExecTables.actionApplier] at h
    simp at h
    obtain ⟨_, hb⟩ := gate _ _ h
    cases hb
    exact ⟨(fun fs hp => by cases hp), (fun hp => by cases hp), (fun hp => by cases hp)⟩
  | unsetFacet =>
    simp only [applyAction, Action.variant, lookup, KmlExecTables.actionApplier] at h
    simp at h
    obtain ⟨_, hb⟩ := gate _ _ h
    cases hb
    exact ⟨(fun fs hp => by cases hp), (fun hp => by cases hp), (fun hp => by cases hp)⟩
  | setStructural =>
    simp only [applyAction, Action.variant, lookup, KmlExecTables.actionApplier] at h
    simp at h
    obtain ⟨hk, hb⟩ := gate _ _ h
    cases hb
    exact ⟨(fun fs hp => by cases hp), fun _ => hk, (fun hp => by cases hp)⟩
  | unsetStructural =>
    simp only [applyAction, Action.variant, lookup, KmlExecTables.actionApplier] at h
    simp at h
    obtain ⟨hk, hb⟩ := gate _ _ h
    cases hb
    exact ⟨(fun fs hp => by cases hp), fun _ => hk, (fun hp => by cases hp)⟩

/-- the Core fields `set_fields` can write are disjoint from every engine-owned name and from the
immutable payload of every kind (generated tables of both crates) -/
theorem writable_core_is_harmless :
    ∀ f ∈ writableCore, f ∉ KipGuardTables.protectedFields ∧ f ∉ KipGuardTables.assertionImmutable ∧
      f ∉ KipGuardTables.evidenceImmutable ∧ f ∉ KipGuardTables.propositionImmutable := by
  decide

/-- the gates let only Concept through for Core fields and structure, and no record kind owns
author-writable attributes -/
theorem gates_are_concept_only :
    KmlExecTables.fieldsKinds = ["Concept"] ∧ KmlExecTables.structuralKinds = ["Concept"] ∧
    "Assertion" ∉ KmlExecTables.attributeKinds ∧ "Evidence" ∉ KmlExecTables.attributeKinds ∧
    "Activity" ∉ KmlExecTables.attributeKinds := by
  decide

/-- **No UPDATE rewrites engine-owned state or immutable payload at run time, whatever the target
turns out to be** — for every action of every UPDATE the parser let through (indeed of any UPDATE),
every run-time binding of its right-hand sides and every kind of the element it reaches: the action
is refused, or the Core fields it writes are none of `PROTECTED_FIELDS`, `ASSERTION_IMMUTABLE`,
`EVIDENCE_IMMUTABLE`, `PROPOSITION_IMMUTABLE`, and it touches Core fields or structure only if the
element is a Concept. -/
theorem update_cannot_rewrite_payload_at_run_time (shapeOf : KmlGuard.MutationValue → JsonShape)
    (u : KmlGuard.UpdateStatement) (a : KmlGuard.UpdateAction) (_ha : a ∈ u.actions) (k : ElemKind) (p : Plane)
    (h : applyAction k (ofUpdateAction shapeOf a) = .ok p) :
    (∀ fs, p = .core fs → k = .concept ∧ ∀ f ∈ fs, f ∉ KipGuardTables.protectedFields ∧
        f ∉ KipGuardTables.assertionImmutable ∧ f ∉ KipGuardTables.evidenceImmutable ∧
        f ∉ KipGuardTables.propositionImmutable) ∧
    (p = .structural → k = .concept) ∧
    (p = .attributes → k = .concept ∨ k = .proposition) := by
  obtain ⟨h1, h2, h3⟩ := runtime_kind_gate k _ p h
  refine ⟨?_, ?_, ?_⟩
  · intro fs hp
    obtain ⟨hk, hf⟩ := h1 fs hp
    refine ⟨?_, fun f hfm => writable_core_is_harmless f (hf f hfm)⟩
    cases k <;> simp [ElemKind.name, KmlExecTables.fieldsKinds] at hk ⊢
  · intro hp
    have hk := h2 hp
    cases k <;> simp [ElemKind.name, KmlExecTables.structuralKinds] at hk ⊢
  · intro hp
    have hk := h3 hp
    cases k <;> simp [ElemKind.name, KmlExecTables.attributeKinds] at hk ⊢

/-- records are closed: on an Assertion, Evidence or Activity every SET FIELDS, SET/UNSET
ATTRIBUTES and SET/UNSET STRUCTURAL is refused with the kind's revision code; on a Proposition every
SET FIELDS and SET/UNSET STRUCTURAL is. -/
theorem records_are_closed (fs : List (String × JsonShape)) :
    applyAction .assertion (.setFields fs) = .error "EpistemicRevisionRequired" ∧
    applyAction .evidence (.setFields fs) = .error "EvidenceCorrectionRequired" ∧
    applyAction .activity (.setFields fs) = .error "InvalidLifecycleTransition" ∧
    applyAction .proposition (.setFields fs) = .error "ImmutableField" ∧
    (∀ k, k ≠ .concept → applyAction k .setStructural = .error (immutableTarget k) ∧
      applyAction k .unsetStructural = .error (immutableTarget k)) ∧
    (∀ k, k ≠ .concept → k ≠ .proposition → applyAction k .setAttributes = .error (immutableTarget k) ∧
      applyAction k .unsetAttributes = .error (immutableTarget k)) := by
  refine ⟨by rfl, by rfl, by rfl, by rfl, ?_, ?_⟩
  · intro k hk
    cases k <;> first | exact absurd rfl hk | decide
  · intro k hk hp
    cases k <;> first | exact absurd rfl hk | exact absurd rfl hp | decide

/-! non-vacuity -/
example : applyAction .concept (.setFields [("aliases", .arr), ("name", .str)]) = .ok (.core ["aliases", "name"]) := by decide
example : applyAction .concept (.setFields [("name", .other)]) = .error "TypeMismatch" := by decide
example : applyAction .concept (.setFields [("key", .str)]) = .error "ImmutableField" := by decide
example : applyAction .concept (.setFields [("governance", .str)]) = .error "TypeMismatch" := by decide
example : applyAction .assertion (.setFields [("stance", .str)]) = .error "EpistemicRevisionRequired" := by decide
example : applyAction .proposition .setAttributes = .ok .attributes := by decide
example : applyAction .evidence .setFacet = .ok .facets := by decide

end AndaVerif.KmlExec
