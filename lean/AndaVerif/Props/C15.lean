/-
C15 — KIP parsing is total, bounded, deterministic and classifies by content.

Property theorems over the model of the lexical layer (`Model/KipLex.lean`): the budget pre-scan
`validate_parser_budget` and the head-keyword classification.  The recursive-descent grammar itself
is not modelled (see notes/C15.md): for the parser proper the harness `vh-c15` is a test oracle; the
theorems below are what bounds the recursion that oracle has to survive.
-/
import AndaVerif.Proofs.KipLex
import AndaVerif.Proofs.KipClassify
import AndaVerif.Proofs.KipJson

namespace AndaVerif.Props.C15
open AndaVerif.Model.KipLex AndaVerif.Proofs.KipLex AndaVerif.Proofs.KipClassify
open AndaVerif.Model.KipJson AndaVerif.Proofs.KipJson
open AndaVerif.Gen.KipLimits

/-! ## The generated tables are the ones the model was written for -/

/-- The character literals `validate_parser_budget` (and the private helpers it calls) keys on in the
current source are exactly the model's key characters, and both refusals are strict (`>`). Which closer
pops which opener, and the state machine itself, are tied by the correspondence harness. -/
theorem gen_brackets_match_model :
    budgetChars = keyChars ∧ lengthRefusedWhen = ">" ∧ depthRefusedWhen = ">" := by decide

/-- The model depends on a character only through its being one of the key characters: any two
other characters drive the pre-scan identically. -/
theorem budget_key_chars (d : Nat) (st : BState) (c c' : Char)
    (h : c ∉ keyChars) (h' : c' ∉ keyChars) : step d st c = step d st c' := by
  simp only [keyChars, List.mem_cons, List.not_mem_nil, or_false, not_or] at h h'
  obtain ⟨a1, a2, a3, a4, a5, a6, a7, a8, a9, a10⟩ := h
  obtain ⟨b1, b2, b3, b4, b5, b6, b7, b8, b9, b10⟩ := h'
  simp [step, isOpener, closerOf, a1, a2, a3, a4, a5, a6, a7, a8, a9, a10,
    b1, b2, b3, b4, b5, b6, b7, b8, b9, b10]

/-- Where a `//` comment ends: the pre-scan's rule and the rule of every comment skipper of
parser.rs / parser/*.rs, as read from the current source, are the same set of characters, and it is the
model's (`'\n'`; the end of the input ends a comment everywhere). A span that one of them takes for
comment and another for live input would hide brackets from the depth guard. -/
theorem gen_comment_syntax_match_model :
    commentIntro = ['/', '/'] ∧ prescanCommentEnds = skipperCommentEnds ∧ skippersAgree = true ∧
    skipperCommentEnds = ['\n'] := by decide

/-- The hypothesis the budget theorems about parsers rest on, in the form they use it. -/
def CommentEndsAgree : Prop :=
  prescanCommentEnds = skipperCommentEnds ∧ skippersAgree = true ∧
  ∀ c, c ∈ skipperCommentEnds ↔ c = '\n'

theorem gen_comment_ends_agree : CommentEndsAgree := by
  refine ⟨gen_comment_syntax_match_model.2.1, gen_comment_syntax_match_model.2.2.1, ?_⟩
  intro c
  rw [gen_comment_syntax_match_model.2.2.2]
  simp

/-- The limits are the documented ones (256 KiB, 64 levels), and every entry point is budgeted. -/
theorem gen_limits_documented :
    maxKipInputLen = 256 * 1024 ∧ maxKipNestingDepth = 64 ∧
    budgetedEntryPoints = ["parse_kip", "parse_kql", "parse_kml", "parse_meta", "parse_json"] := by
  decide

/-! ## budget_total — the pre-scan is a total function with exactly three outcomes

Termination is by construction (`scan` is structural recursion over the input); what is stated is
the complete case split of the verdict, in terms of the *reference* lexer. -/

theorem budget_total (L d : Nat) (s : List Char) :
    (validateBudget L d s = .error .tooLong ↔ L < utf8Len s) ∧
    (validateBudget L d s = .error .tooDeep ↔
      utf8Len s ≤ L ∧ stackRun d [] (codeBrackets s) = .error .tooDeep) ∧
    (validateBudget L d s = .ok () ↔
      utf8Len s ≤ L ∧ ∃ stk, stackRun d [] (codeBrackets s) = .ok stk) := by
  have hsync : codeBracketsOf (scanTagged {} s) = codeBrackets s := by
    rw [(sync_all s).1]; rfl
  have hstack := scan_stack d s {}
  rw [hsync] at hstack
  unfold validateBudget
  by_cases hl : utf8Len s > L
  · simp [hl]; omega
  · have hl' : utf8Len s ≤ L := by omega
    simp only [hl, if_false]
    cases hsc : scan d {} s with
    | ok st =>
      rw [hsc] at hstack
      simp only [stackOf] at hstack
      simp [hl', ← hstack]
    | error e =>
      rw [hsc] at hstack
      simp only [stackOf] at hstack
      have he := stackRun_error_is_tooDeep hstack.symm
      subst he
      simp [hl', ← hstack]

example : validateBudget 100 2 "FIND(?x) // ((((\n WHERE { ?x {a: \"[[[[\"} }".toList = .ok () := by decide
example : validateBudget 100 2 "{{{".toList = .error .tooDeep := by decide
example : validateBudget 3 2 "FIND".toList = .error .tooLong := by decide

/-! ## budget_sync — quotes and brackets inside comments and strings cannot desynchronise it -/

/-- The automaton's classification of every character (code / string / comment) is the reference
lexer's, for every input. -/
theorem budget_sync (s : List Char) : scanTagged {} s = refLex s := (sync_all s).1

/-- … and the classification is a classification *of the input*: nothing dropped, nothing added. -/
theorem budget_sync_covers (s : List Char) : (scanTagged {} s).map (·.1) = s := (covers_all s).1

example : (refLex "a(\"(\\\")\" // \")\n)/".toList).map (·.2) =
    [.code, .code, .str, .str, .str, .str, .str, .str, .code, .comment, .comment, .comment,
     .comment, .comment, .comment, .code, .code] := by
  rw [← budget_sync]; decide

/-! ## budget_bounds_depth — accepted ⇒ within the documented limits -/

/-- If the pre-scan accepts, the input is at most `L` bytes long and, after every prefix of its
bracket tokens (brackets that are code according to the reference lexer), the nesting — openers
minus closers, a lower bound of the automaton's stack because unmatched closers do not pop — is at
most `d`; and the depth a strict recursive-descent matcher reaches before it stops is at most `d`. -/
theorem budget_bounds_depth (L d : Nat) (s : List Char) (h : validateBudget L d s = .ok ()) :
    utf8Len s ≤ L ∧
    (∀ p, p <+: codeBrackets s → netDepth p ≤ (d : Int)) ∧
    strictDepth [] (codeBrackets s) 0 ≤ d := by
  obtain ⟨hl, stk, hs⟩ := ((budget_total L d s).2.2).1 h
  refine ⟨hl, ?_, stackRun_ok_strictDepth hs (Nat.zero_le _)⟩
  intro p hp
  have := stackRun_ok_netDepth hs (Nat.zero_le _) p hp
  simpa using this

/-- Contrapositive, the way the property reads: inputs beyond the documented length or nesting
limits are refused before parsing. -/
theorem budget_refuses_beyond_limits (L d : Nat) (s : List Char) :
    (L < utf8Len s → validateBudget L d s = .error .tooLong) ∧
    (∀ p, p <+: codeBrackets s → (d : Int) < netDepth p → validateBudget L d s ≠ .ok ()) := by
  refine ⟨fun h => ((budget_total L d s).1).2 h, ?_⟩
  intro p hp hd hok
  have := (budget_bounds_depth L d s hok).2.1 p hp
  omega

/-- The guard is not stricter than documented either: on a text whose brackets match (which every
text the grammar accepts does), it refuses exactly when the real nesting exceeds the limit. -/
theorem budget_exact_on_matched (L d : Nat) (s : List Char)
    (hlen : utf8Len s ≤ L) (hm : strictReads [] (codeBrackets s) = true) :
    validateBudget L d s = .ok () ↔ strictDepth [] (codeBrackets s) 0 ≤ d := by
  rw [((budget_total L d s).2.2)]
  simp only [hlen, true_and]
  exact stackRun_exact_on_matched hm (Nat.le_refl _) (Nat.zero_le _)

/-- The same three facts for the limits of the current source tree. -/
theorem budget_bounds_depth_kip (s : List Char) (h : validateBudgetKip s = .ok ()) :
    utf8Len s ≤ 256 * 1024 ∧
    (∀ p, p <+: codeBrackets s → netDepth p ≤ 64) ∧
    strictDepth [] (codeBrackets s) 0 ≤ 64 := by
  have := budget_bounds_depth maxKipInputLen maxKipNestingDepth s h
  simpa [maxKipInputLen, maxKipNestingDepth] using this

example : validateBudget 100 3 "{ [ ( } ) ] }".toList = .error .tooDeep ∨
          validateBudget 100 3 "{ [ ( } ) ] }".toList = .ok () := by decide
example : strictDepth [] (codeBracketsOf (scanTagged {} "{ a: [1, (2)] } // )))".toList)) 0 = 3 := by decide

/-! ## budget_linear — one pass, no backtracking -/

/-- Scanning `a ++ b` is scanning `a`, then `b` from the state reached; an error on a prefix is the
verdict for every extension. -/
theorem budget_linear (d : Nat) (a b : List Char) (st : BState) :
    scan d st (a ++ b) =
      match scan d st a with
      | .ok st' => scan d st' b
      | .error e => .error e := scan_append d a b st

theorem budget_prefix_refusal (d : Nat) (a b : List Char) (e : BudgetErr)
    (h : scan d {} a = .error e) : scan d {} (a ++ b) = .error e := by
  rw [budget_linear, h]

/-- The byte length is between one and four times the number of characters. -/
theorem budget_length_bounds (s : List Char) : s.length ≤ utf8Len s ∧ utf8Len s ≤ 4 * s.length :=
  utf8Len_bounds s

/-! ## budget_trivia_invariant — comments and whitespace between tokens do not move the depth guard -/

/-- Inserting any trivia (whitespace, complete `//` comments — whatever quotes and brackets they
contain) at a position where the pre-scan is in code with no `/` pending leaves the rest of the scan,
hence the depth verdict, unchanged. (The length test sees the longer text, of course.) -/
theorem budget_trivia_invariant (d : Nat) (a t b : List Char) (st : BState)
    (ha : scan d {} a = .ok st) (hcode : st.lex = {}) (ht : Trivia t) :
    scan d {} (a ++ (t ++ b)) = scan d {} (a ++ b) := by
  rw [budget_linear, budget_linear d a b, ha]
  simp only []
  obtain ⟨stk, l⟩ := st
  simp only at hcode
  subst hcode
  exact scan_trivia d ht stk b

example : validateBudget 100 1 "f(x) // \" ((((( [\n\t(y)".toList = .ok () ∧
          validateBudget 100 1 "f(x) (y)".toList = .ok () ∧
          validateBudget 100 1 "f(x ((y)".toList = .error .tooDeep := by decide

/-! ## classify — the family is decided by the text alone

`classify` is the first step of every family's parser (`ws(word(HEAD))`): if `parse_kip` returns a
command of family `F`, or `parse_F` accepts, the text starts — after trivia — with a head keyword of
`F` at a word boundary (this link is the correspondence check of `vh-c15`). -/

/-- No head keyword of the current source folds to a prefix of another one, none occurs twice; the
extra boundary characters and the `alt` order are the ones the model was written for. -/
theorem gen_heads_prefix_free :
    prefixFree headTable = true ∧ boundaryExtra = ['"', '?', '_'] ∧ kipAltOrder = ["kql", "kml", "meta"] := by
  decide

/-- Keyword case: any ASCII re-casing of the text (of any of its letters) leaves the family unchanged. -/
theorem classify_invariant_case (uni : Char → Bool) (s t : List Char)
    (h : s.map foldNat = t.map foldNat) : classify uni s = classify uni t := by
  unfold classify
  exact classifyIn_case uni headTable _ _ (skip_case s t h).1

/-- Leading trivia (whitespace, complete `//` comments with anything inside) leaves it unchanged. -/
theorem classify_invariant_trivia (uni : Char → Bool) (t s : List Char) (ht : Trivia t) :
    classify uni (t ++ s) = classify uni s := by
  unfold classify
  rw [skipTrivia_trivia ht]

/-- Both at once (the name used in DESIGN.md): re-casing and leading trivia together. -/
theorem classify_invariant (uni : Char → Bool) (pre s t : List Char) (hpre : Trivia pre)
    (h : s.map foldNat = t.map foldNat) : classify uni (pre ++ s) = classify uni t := by
  rw [classify_invariant_trivia uni pre s hpre]
  exact classify_invariant_case uni s t h

/-- At most one head keyword matches a text, whatever follows it. -/
theorem classify_exclusive (uni : Char → Bool) (s : List Char) (e1 e2 : Family × List Char)
    (m1 : e1 ∈ headTable) (m2 : e2 ∈ headTable)
    (h1 : matchWord uni e1.2 s = true) (h2 : matchWord uni e2.2 s = true) : e1 = e2 :=
  unique_match uni headTable gen_heads_prefix_free.1 s m1 m2 h1 h2

/-- … so the order in which `parse_kip`'s `alt` tries the three families cannot matter. -/
theorem classify_alt_order_irrelevant (uni : Char → Bool) (tbl' : List (Family × List Char))
    (hperm : tbl'.Perm headTable) (s : List Char) :
    classifyIn uni tbl' (skipTrivia s) = classify uni s :=
  classifyIn_perm uni headTable tbl' gen_heads_prefix_free.1 hperm _

/-- A head keyword, in any case, after any trivia, followed by trivia or the end of the text, gives
its family — whatever comes next (the rest of the grammar cannot change the family). -/
theorem classify_head (uni : Char → Bool) (huni : ∀ c, isWhitespace c = true → uni c = false)
    (e : Family × List Char) (me : e ∈ headTable) (pre kw t rest : List Char)
    (hkw : kw.map foldNat = e.2.map foldNat) (hpre : Trivia pre) (ht : Trivia t)
    (hsep : t ≠ [] ∨ rest = []) : classify uni (pre ++ (kw ++ (t ++ rest))) = some e.1 := by
  rw [classify_invariant_trivia uni pre _ hpre]
  have hcase : (kw ++ (t ++ rest)).map foldNat = (e.2 ++ (t ++ rest)).map foldNat := by
    simp [hkw]
  rw [classify_invariant_case uni _ _ hcase]
  -- the keyword itself matches, and what follows is a boundary
  have hmk : ∀ (k x : List Char), matchKeyword k (k ++ x) = some x := by
    intro k x; induction k with
    | nil => rfl
    | cons a as ih => simp [matchKeyword, ih]
  have hb : wordBoundary uni (t ++ rest) = true := by
    cases ht with
    | nil =>
      rcases hsep with h | h
      · exact absurd rfl h
      · subst h; rfl
    | ws c t' hc _ =>
      have h1 : isAlnum uni c = false := by
        unfold isAlnum
        by_cases hlt : c.toNat < 0x80
        · simp only [hlt, if_true]
          simp only [isWhitespace, Bool.or_eq_true, Bool.and_eq_true, decide_eq_true_eq, beq_iff_eq] at hc
          simp only [isAsciiAlnum, Bool.or_eq_false_iff, Bool.and_eq_false_iff, decide_eq_false_iff_not]
          omega
        · simp only [hlt, if_false]; exact huni c hc
      have h2 : (c == '_') = false ∧ (c == '?') = false ∧ (c == '"') = false := by
        refine ⟨?_, ?_, ?_⟩ <;>
          (simp only [beq_eq_false_iff_ne, ne_eq]; intro he; subst he; revert hc; decide)
      simp [wordBoundary, h1, h2]
    | comment body t' _ _ =>
      have : isAlnum uni '/' = false := by
        unfold isAlnum; rw [if_pos (by decide)]; decide
      simp [wordBoundary, this]
  have hm : matchWord uni e.2 (e.2 ++ (t ++ rest)) = true := by
    unfold matchWord; rw [hmk]; exact hb
  -- the trivia skipper leaves a text that starts with a letter alone
  have hletters : ∀ x ∈ headTable, ∀ y, skipTrivia (x.2 ++ y) = x.2 ++ y := by
    intro x hx y
    have hall : headTable.all (fun x => match x.2 with
        | c :: _ => !isWhitespace c && !(c == '/')
        | [] => false) = true := by decide
    have hx' := List.all_eq_true.mp hall x hx
    obtain ⟨c, cs, hx2, hw, hs⟩ : ∃ c cs, x.2 = c :: cs ∧ isWhitespace c = false ∧ (c == '/') = false := by
      cases hx2 : x.2 with
      | nil => rw [hx2] at hx'; cases hx'
      | cons c cs =>
        rw [hx2] at hx'
        simp only [Bool.and_eq_true, Bool.not_eq_true'] at hx'
        exact ⟨c, cs, rfl, hx'.1, hx'.2⟩
    rw [hx2, List.cons_append, skipTrivia_cons, hw, hs]; simp
  unfold classify
  rw [hletters e me]
  unfold classifyIn
  cases hf : headTable.find? (fun x => matchWord uni x.2 (e.2 ++ (t ++ rest))) with
  | none => exact absurd hm (List.find?_eq_none.mp hf e me)
  | some e' =>
    have hp : matchWord uni e'.2 (e.2 ++ (t ++ rest)) = true := by
      have := List.find?_some hf
      simpa using this
    have := classify_exclusive uni _ e' e (List.mem_of_find?_eq_some hf) me hp hm
    rw [this]

example : classify (fun _ => false) "  // a \" ( comment\n\tfInD(?x) WHERE {}".toList = some .kql := by decide
example : classify (fun _ => false) "FINDX(?x)".toList = none := by decide
example : classify (fun _ => false) "set?x".toList = none := by decide
example : classify (fun c => c == 'é') "FINDé".toList = none ∧
          classify (fun _ => false) "FIND (".toList = some .kql := by decide
example : Trivia " //x\n\t".toList :=
  .ws ' ' _ (by decide) (.comment ['x'] _ (by decide) (.ws '\t' _ (by decide) .nil))

/-! ## Multi-word keywords: the gap between the words admits the same trivia as every other gap

Before /repo commit b2b3330 `trivia1` used `multispace1` and this statement was false of the code
(`AS<U+000C>OF` was refused, witness kept as corpus case 32). The model of `words` / `trivia1` is tied
to the code by the translator (`trivia1Whitespace`) and by the `w` requests of the harness. -/

/-- The whitespace class of `trivia1` in the current source is the one the model uses. -/
theorem gen_trivia1_match_model : trivia1Whitespace = "char::is_whitespace" := by decide

/-- Any non-empty trivia is accepted between two words and leaves what `skip_ws_and_comments` leaves. -/
theorem words_trivia1_accepts (t s : List Char) (ht : Trivia t) (hne : t ≠ []) :
    trivia1 (t ++ s) = some (skipTrivia s) := by
  have hskip := skipTrivia_trivia ht s
  cases ht with
  | nil => exact absurd rfl hne
  | ws c t' hc ht' =>
    simp only [List.cons_append, trivia1, hc, if_true]
    rw [List.cons_append, skipTrivia_cons, hc] at hskip
    simp only [if_true] at hskip
    rw [← hskip]
    -- dropping leading whitespace first does not change what skipTrivia returns
    have hdrop : ∀ l : List Char, skipTrivia (l.dropWhile isWhitespace) = skipTrivia l := by
      intro l
      induction l with
      | nil => rfl
      | cons a as ih =>
        by_cases ha : isWhitespace a = true
        · rw [List.dropWhile_cons_of_pos ha, ih, skipTrivia_cons a as, ha]; simp
        · rw [List.dropWhile_cons_of_neg ha]
    rw [hdrop]
  | comment body t' hb ht' =>
    have hm : isWhitespace '/' = false := by decide
    simp only [List.cons_append, trivia1, hm]
    simp only [Bool.false_eq_true, if_false, beq_self_eq_true, if_true]
    rw [← hskip]
    simp

/-- Full statement: any two non-empty trivia are interchangeable between the words of a keyword. -/
theorem words_trivia_uniform (uni : Char → Bool) (w1 w2 t1 t2 rest : List Char)
    (h1 : Trivia t1) (n1 : t1 ≠ []) (h2 : Trivia t2) (n2 : t2 ≠ []) :
    matchWords uni [w1, w2] (w1 ++ (t1 ++ (w2 ++ rest))) =
      matchWords uni [w1, w2] (w1 ++ (t2 ++ (w2 ++ rest))) := by
  have hmk : ∀ (k x : List Char), matchKeyword k (k ++ x) = some x := by
    intro k x; induction k with
    | nil => rfl
    | cons a as ih => simp [matchKeyword, ih]
  simp only [matchWords, matchWordsTail, hmk, words_trivia1_accepts _ _ h1 n1,
    words_trivia1_accepts _ _ h2 n2]

example : matchWords (fun _ => false) ["AS".toList, "OF".toList] "as\x0c// c\n of ".toList = true ∧
          matchWords (fun _ => false) ["AS".toList, "OF".toList] "ASOF".toList = false ∧
          matchWords (fun _ => false) ["AS".toList, "OF".toList] "AS /OF".toList = false := by decide

/-! ## classify — every other leading character

After trivia a command starts with an ASCII letter or it belongs to no family: a byte order mark, a
digit, a quote, `?`, `:`, a bracket, a lone `/`, any non-ASCII character — all refused by every family. -/

theorem classify_needs_letter (uni : Char → Bool) (c : Char) (s : List Char)
    (hw : isWhitespace c = false) (hs : c ≠ '/') (hl : isAsciiLetter c = false) :
    classify uni (c :: s) = none := by
  have hs' : (c == '/') = false := by simpa using hs
  have hskip : skipTrivia (c :: s) = c :: s := by rw [skipTrivia_cons, hw, hs']; simp
  unfold classify classifyIn
  rw [hskip]
  have hall : headTable.all (fun x => match x.2 with
      | k :: _ => isAsciiLetter k
      | [] => false) = true := by decide
  have hnone : headTable.find? (fun e => matchWord uni e.2 (c :: s)) = none := by
    apply List.find?_eq_none.mpr
    intro e he
    have hx := List.all_eq_true.mp hall e he
    cases hk : e.2 with
    | nil => rw [hk] at hx; cases hx
    | cons k ks =>
      rw [hk] at hx
      have hx' : isAsciiLetter k = true := hx
      simp only [matchWord, matchKeyword]
      by_cases hf : (foldNat k == foldNat c) = true
      · exfalso
        rcases foldNat_eq_cases (beq_iff_eq.mp hf) with rfl | ⟨_, hc⟩
        · rw [hl] at hx'; cases hx'
        · rw [hl] at hc; cases hc
      · simp [hf]
  rw [hnone]

example : classify (fun _ => false) "\uFEFFFIND(?x)".toList = none ∧
          classify (fun _ => false) "/ FIND".toList = none ∧
          classify (fun _ => false) "\"FIND\"".toList = none := by decide

/-! ## parse_json — the JSON sub-parser (parser/json.rs), modelled combinator by combinator

The model (`Model/KipJson.lean`) is compared with `anda_kip::parse_json` answer for answer by the harness
(`j` requests: verdict and canonical value). Its recursion runs on a fuel that counts nesting; the two
theorems below say that this fuel is only a termination device and what it bounds. -/

/-- More fuel never changes an answer: whenever the parser with nesting fuel `n` has an answer (did not
run out), every larger fuel gives the same one. -/
theorem json_fuel_irrelevant (n k : Nat) (s : List Char) (h : pValue n s ≠ .oof) :
    pValue (n + k) s = pValue n s := pValue_mono n k s h

/-- Hence "the" answer of the model is well defined: any two fuels that suffice agree. -/
theorem json_answer_unique (n m : Nat) (s : List Char) (hn : pValue n s ≠ .oof) (hm : pValue m s ≠ .oof) :
    pValue n s = pValue m s := by
  rcases Nat.le_total n m with h | h
  · obtain ⟨k, rfl⟩ := Nat.exists_eq_add_of_le h
    exact (json_fuel_irrelevant n k s hn).symm
  · obtain ⟨k, rfl⟩ := Nat.exists_eq_add_of_le h
    exact json_fuel_irrelevant m k s hm

/-- The recursion depth bounds the tree: a value parsed with nesting fuel `n` nests at most `n` deep
(so a recursive `Drop` / `Clone` / encoder of the tree recurses no deeper than the parser did). -/
theorem json_depth_le_fuel (n : Nat) (s : List Char) (v : Json) (r : List Char)
    (h : pValue n s = .ok v r) : v.depth ≤ n := pValue_depth n s v r h

/-- `parse_json` refuses what the budget refuses before any parsing, and what it returns is a tree of
bounded depth from a text within the documented limits. -/
theorem parse_json_budgeted_of (_hends : CommentEndsAgree) (s : List Char) :
    (validateBudgetKip s = .error .tooLong → parseJson s = .tooLong) ∧
    (validateBudgetKip s = .error .tooDeep → parseJson s = .tooDeep) ∧
    (∀ v, parseJson s = .ok v →
      validateBudgetKip s = .ok () ∧ utf8Len s ≤ 256 * 1024 ∧
      strictDepth [] (codeBrackets s) 0 ≤ 64 ∧ v.depth ≤ jsonFuel) := by
  refine ⟨fun h => by simp [parseJson, h], fun h => by simp [parseJson, h], ?_⟩
  intro v h
  unfold parseJson at h
  cases hb : validateBudgetKip s with
  | error e => cases e <;> simp [hb] at h
  | ok u =>
    cases u
    simp only [hb] at h
    have hbd := budget_bounds_depth_kip s hb
    refine ⟨rfl, hbd.1, hbd.2.2, ?_⟩
    cases hp : pValue jsonFuel (skipTrivia s) with
    | ok w rest =>
      simp only [hp] at h
      split at h
      · injection h with h; subst h
        exact json_depth_le_fuel _ _ _ _ hp
      · cases h
    | err => simp [hp] at h
    | fail => simp [hp] at h
    | oof => simp [hp] at h

-- (kept small: the kernel evaluates these; multi-element lists and objects are exercised through the
-- compiled driver by the correspondence run)
/-- … with the hypothesis discharged by the fact regenerated from the current source: the model's
`skipTrivia` (used by the JSON model) and its pre-scan end a comment at the same characters as the
code's skippers and pre-scan do. If the source's two rules ever differ, `gen_comment_syntax_match_model`
fails and this theorem is no longer available. -/
theorem parse_json_budgeted (s : List Char) :
    (validateBudgetKip s = .error .tooLong → parseJson s = .tooLong) ∧
    (validateBudgetKip s = .error .tooDeep → parseJson s = .tooDeep) ∧
    (∀ v, parseJson s = .ok v →
      validateBudgetKip s = .ok () ∧ utf8Len s ≤ 256 * 1024 ∧
      strictDepth [] (codeBrackets s) 0 ≤ 64 ∧ v.depth ≤ jsonFuel) :=
  parse_json_budgeted_of gen_comment_ends_agree s

/-- The model's own two rules agree by construction: the pre-scan leaves a comment exactly where the
trivia skipper does (both at `'\n'`), for every comment body. -/
theorem model_comment_ends_agree (d : Nat) (stk : List Char) (body rest : List Char) (h : '\n' ∉ body) :
    scan d { stack := stk, lex := { inLineComment := true } } (body ++ '\n' :: rest) =
      scan d { stack := stk, lex := {} } rest ∧
    skipLine (body ++ '\n' :: rest) = skipTrivia rest :=
  ⟨scan_comment_body d stk body rest h, skipLine_body body rest h⟩

example : (match pValue 2 "[[1]]".toList with | .oof => true | _ => false) = true ∧
          (match pValue 3 "[[1]]".toList with | .ok _ [] => true | _ => false) = true := by decide
example : (match pValue 9 "[,]".toList with | .ok (.arr []) [] => true | _ => false) = true := by decide
example : (match pValue 3 "\"b\\u00e9\"".toList with | .ok (.str ['b', 'é']) [] => true | _ => false) = true := by
  decide
example : (match pValue 3 "-0".toList with | .ok (.int 0) [] => true | _ => false) = true ∧
          (match pValue 9 "01".toList with | .err => true | _ => false) = true ∧
          (match pValue 9 "\"\\ud83d\"".toList with | .fail => true | _ => false) = true := by decide

end AndaVerif.Props.C15
