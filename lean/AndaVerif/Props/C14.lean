/-
C14 — Service keys confine callers to their database; reads never write.

Theorems over `Model/ServerAuth` (the authorisation rules, the server state, the request pipeline
of `build_router` / `require_auth` / `execute_rpc` / `dispatch_*`), universally quantified over
configurations, server states, requests and histories; and kernel-checked facts over the method
tables regenerated from the source (`Gen/ServerMethods`).

Not here (see notes/C14.md): handler bodies of the database scope ("a Read handler writes nothing"
is established per method on the real router by the harness), timing.
-/
import AndaVerif.Proofs.ServerAuth

namespace AndaVerif.ServerAuth.C14
open AndaVerif.ServerAuth
open AndaVerif.Gen.ServerMethods

/-! ## Facts about the generated tables (finite, `decide`) -/

/-- Every name is parsed to one variant; every variant of the two enums has exactly one parse row
and exactly one dispatch row; every handler the tables name has a meaning in the model. -/
theorem table_exhaustive :
    (parseNames rootParse).Nodup ∧ (parseNames dbParse).Nodup ∧
    sameSet (parseVariants rootParse) rootVariants = true ∧
    sameSet (parseVariants dbParse) dbVariants = true ∧
    sameSet (dispatchVariants rootDispatch) rootVariants = true ∧
    sameSet (dispatchVariants dbDispatch) dbVariants = true ∧
    rootDispatch.all (fun row => ["state.info", "state.db_names", "root::create", "root::register[Open]",
      "root::register[Connect]", "root::close", "root::set_api_key", "root::remove_api_key"].contains row.handler) = true :=
  ⟨gen_root_names_unique, gen_db_names_unique, gen_root_parse_covers_enum, gen_db_parse_covers_enum,
   gen_root_dispatch_covers_enum, gen_db_dispatch_covers_enum, by decide⟩

def readNames (t : List ParseRow) : List String :=
  (t.filter (fun r => r.effect == .read)).map (·.name)

/-- The methods the service treats as cancellable read-only are exactly the frozen list whose
write-freedom the harness establishes on the real router (every lifecycle state, every principal).
Adding a method or flipping a label changes the generated table and breaks this obligation. -/
theorem read_methods_cancellable_only :
    readNames rootParse = ["db.list", "info"] ∧
    readNames dbParse = ["collection.get_extension", "collection.list", "collection.metadata", "collection.stats",
      "db.get_extension", "db.metadata", "db.stats", "doc.count", "doc.exists", "doc.get", "doc.get_many",
      "doc.query_ids", "doc.query_last_ids", "doc.search", "doc.search_ids", "info"] ∧
    mutatingPolicy = ["spawn_mutation", "dispatch"] ∧
    readPolicy = ["admit_read", "cancel_select", "dispatch"] := by
  decide

/-- Name → variant → handler of the root scope, as frozen when the proofs were written
(the translator sorts the rows, so the order of match arms in the source does not matter). -/
theorem root_table_frozen :
    rootParse.map (fun r => (r.name, r.variant)) =
      [("db.close", "DbClose"), ("db.connect", "DbConnect"), ("db.create", "DbCreate"), ("db.list", "DbList"),
       ("db.open", "DbOpen"), ("db.remove_api_key", "DbRemoveApiKey"), ("db.set_api_key", "DbSetApiKey"),
       ("info", "Info")] ∧
    rootDispatch.map (fun r => (r.variant, r.handler)) =
      [("DbClose", "root::close"), ("DbConnect", "root::register[Connect]"), ("DbCreate", "root::create"),
       ("DbList", "state.db_names"), ("DbOpen", "root::register[Open]"), ("DbRemoveApiKey", "root::remove_api_key"),
       ("DbSetApiKey", "root::set_api_key"), ("Info", "state.info")] := by
  decide

/-- Name → variant → handler of the database scope, as frozen when the proofs were written: adding,
removing, renaming or re-wiring a method changes the generated table and breaks this obligation
(the new table is then what the harness enumerates). -/
theorem db_table_frozen :
    dbParse.map (fun r => (r.name, r.variant)) =
      [("collection.create", "CollectionCreate"), ("collection.delete", "CollectionDelete"),
       ("collection.ensure", "CollectionEnsure"), ("collection.flush", "CollectionFlush"),
       ("collection.get_extension", "CollectionGetExtension"), ("collection.list", "CollectionList"),
       ("collection.metadata", "CollectionMetadata"),
       ("collection.remove_extension", "CollectionRemoveExtension"),
       ("collection.save_extension", "CollectionSaveExtension"),
       ("collection.set_read_only", "CollectionSetReadOnly"), ("collection.stats", "CollectionStats"),
       ("db.flush", "DbFlush"), ("db.get_extension", "DbGetExtension"), ("db.metadata", "DbMetadata"),
       ("db.remove_extension", "DbRemoveExtension"), ("db.save_extension", "DbSaveExtension"),
       ("db.set_read_only", "DbSetReadOnly"), ("db.stats", "DbStats"), ("doc.add", "DocAdd"),
       ("doc.add_many", "DocAddMany"), ("doc.count", "DocCount"), ("doc.exists", "DocExists"),
       ("doc.get", "DocGet"), ("doc.get_many", "DocGetMany"), ("doc.query_ids", "DocQueryIds"),
       ("doc.query_last_ids", "DocQueryLastIds"), ("doc.remove", "DocRemove"), ("doc.search", "DocSearch"),
       ("doc.search_ids", "DocSearchIds"), ("doc.update", "DocUpdate"), ("info", "Info")] ∧
    dbDispatch.map (fun r => (r.variant, r.handler)) =
      [("CollectionCreate", "collection::create"), ("CollectionDelete", "collection::delete"),
       ("CollectionEnsure", "collection::ensure"), ("CollectionFlush", "collection::flush"),
       ("CollectionGetExtension", "collection::get_extension"), ("CollectionList", "db.metadata.collections"),
       ("CollectionMetadata", "collection::metadata"),
       ("CollectionRemoveExtension", "collection::remove_extension"),
       ("CollectionSaveExtension", "collection::save_extension"),
       ("CollectionSetReadOnly", "collection::set_read_only"), ("CollectionStats", "collection::stats"),
       ("DbFlush", "db::flush"), ("DbGetExtension", "db::get_extension"), ("DbMetadata", "db.metadata"),
       ("DbRemoveExtension", "db::remove_extension"), ("DbSaveExtension", "db::save_extension"),
       ("DbSetReadOnly", "db::set_read_only"), ("DbStats", "db.stats"), ("DocAdd", "document::add"),
       ("DocAddMany", "document::add_many"), ("DocCount", "document::count"),
       ("DocExists", "document::exists"), ("DocGet", "document::get"), ("DocGetMany", "document::get_many"),
       ("DocQueryIds", "document::query_ids"), ("DocQueryLastIds", "document::query_last_ids"),
       ("DocRemove", "document::remove"), ("DocSearch", "document::search"),
       ("DocSearchIds", "document::search_ids"), ("DocUpdate", "document::update"),
       ("Info", "state.scoped_info")] := by
  decide

/-- In `dispatch_db` the `info` arm is the only one that is handed the principal and the only one
that touches the server state; every other arm works on `db` — the database `get_db(db_name)`
returned for the *path's* name — and the request parameters only. -/
theorem principal_only_to_info :
    (dbDispatch.filter (·.usesPrincipal)).map (·.variant) = ["Info"] ∧
    (dbDispatch.filter (·.usesState)).map (·.variant) = ["Info"] ∧
    (dbDispatch.filter (·.usesDbName)).map (·.variant) = ["Info"] ∧
    dbDispatch.all (fun r => r.variant == "Info" || r.usesDb) = true ∧
    dbDispatch.all (fun r => !(r.handler == "state.scoped_info") || r.usesPrincipal) = true ∧
    dbLookupArg = "db_name" ∧ dispatchDbTakesPrincipal = true ∧ dispatchRootTakesPrincipal = false := by
  decide

/-- Entry points, order inside `execute_rpc`, the auth route layer and the router, as frozen:
`POST /` → `Scope::Root` + `RootMethod::parse` + `dispatch_root` (principal dropped);
`POST /{db_name}` → `Scope::Database(<the Path capture>)` + `DbMethod::parse` +
`dispatch_db(<the Path capture>, <the closure's principal>)` (sources are recorded by role — `path`,
`closure:principal` — not by the names of locals);
authorisation precedes body parsing, method lookup and dispatch; every route is added before the
`require_auth` route layer. -/
theorem wiring_frozen :
    wiring = [⟨"rpc_root", "Root", "", "RootMethod", "dispatch_root", false, ""⟩,
              ⟨"rpc_db", "Database", "path", "DbMethod", "dispatch_db", true, "path"⟩] ∧
    executeOrder = ["authorize", "parse_body", "parse_method", "dispatch"] ∧
    executeForwardsAuthorizedPrincipal = true ∧
    requireAuth = ["skip_non_post", "authorize_scope_from_params", "reject_with_error"] ∧
    scopeCapture = "db_name" ∧
    bearerPrefix.toList.map (·.toNat) = bearerPrefixBytes ∧
    routerChain = [("route", "GET / get_info"), ("route", "POST / rpc_root"), ("route", "POST /{db_name} rpc_db"),
                   ("route_layer", "require_auth"), ("layer", "DefaultBodyLimit"), ("layer", "normalize_rejections"),
                   ("layer", "total_timeout"), ("with_state", "state")] := by
  decide

/-- The one rejection and how keys are compared, as the source has them now: `unauthorized()` is
`401 unauthorized "invalid or missing API key"`; it is the only error `authorize` (with its private
helpers inlined) constructs and `Admin` / `Database` the only principals it answers;
`ApiKeyHash::verify` hashes the presented key and compares digests with `constant_time_eq`; the
unbound branch burns `TIMING_DUMMY.verify` behind `black_box`. (Timing itself is not modelled.) -/
theorem rejection_constants_frozen :
    unauthorizedStatus = 401 ∧ unauthorizedCode = "unauthorized" ∧
    unauthorizedMessage = "invalid or missing API key" ∧
    authorizeOnlyErrorIsUnauthorized = true ∧ authorizePrincipals = ["Admin", "Database"] ∧
    verifyIsConstantTime = true ∧ timingDummyBurned = true := by
  decide

/-! ## The authorisation rules -/

/-- A `Database` principal is produced exactly when an admin key is configured, the scope is a
database, and the presented token is the key bound to that database and is not the admin key. -/
theorem authorize_database_iff (admin bound : Option String) (scope : Scope) (presented : Option String) :
    authorize admin bound scope presented = .ok .database ↔
      ∃ a n p, admin = some a ∧ scope = .database n ∧ presented = some p ∧ bound = some p ∧ p ≠ a := by
  constructor
  · exact authorize_ok_database admin bound scope presented
  · rintro ⟨a, n, p, rfl, rfl, rfl, rfl, hne⟩
    exact authorize_database_of a n p hne

example : authorize (some "adm") (some "ka") (.database "a") (some "ka") = .ok .database := by decide
example : authorize (some "adm") (some "kb") (.database "b") (some "ka") = .error .unauthorized := by decide
example : authorize (some "adm") (some "ka") .root (some "ka") = .error .unauthorized := by decide

/-! ## Key equality must depend on the whole key -/

/-- auth.rs / state.rs as they are now: `ApiKeyHash::from_key` feeds `<key>.as_bytes()` — the whole
key, unsliced, untrimmed, unfolded — to the hasher exactly once and keeps the whole digest; `verify`
compares the two whole digests; `constant_time_eq` refuses different lengths; every `from_key(..)`
call site passes a plain variable. Together with collision freedom of SHA3-256 (assumed) this is
the injectivity the theorems below need. -/
theorem from_key_whole_key_frozen :
    fromKeyHashesWholeKey = true ∧ verifyComparesWholeDigest = true ∧ constantTimeEqChecksLength = true ∧
    fromKeyCallSitesPassWholeKey = true := by
  decide

/-- **key_equality_iff_injective.** The model's "digest equality = key equality" is right for a digest
function `h` **exactly when** `h` is injective: the digest-explicit `authorizeH h` agrees with
`authorize` on all inputs iff no two different keys share a digest. -/
theorem key_equality_iff_injective {D : Type} [DecidableEq D] (h : String → D) :
    (∀ (admin bound : Option String) (scope : Scope) (presented : Option String),
      authorizeH h (admin.map h) (bound.map h) scope presented = authorize admin bound scope presented) ↔
    (∀ a b, h a = h b → a = b) := by
  constructor
  · intro hall a b hab
    have := hall (some a) none .root (some b)
    by_cases e : a = b
    · exact e
    · exfalso
      simp [authorizeH, authorize, presentedIsH, presentedIs, verify, hab, e] at this
  · intro hinj admin bound scope presented
    exact authorizeH_eq_authorize h hinj admin bound scope presented

/-- **from_key_injective_confines.** With an injective digest the digest-explicit rule yields a
per-database principal only for a token that is BYTE-EQUAL to the key bound to the addressed
database (and differs from the admin key), and `Admin` only for the admin key itself — whatever
prefixes, case or blanks the keys share. -/
theorem from_key_injective_confines {D : Type} [DecidableEq D] (h : String → D) (hinj : ∀ a b, h a = h b → a = b)
    (admin bound : Option String) (scope : Scope) (presented : Option String) :
    (authorizeH h (admin.map h) (bound.map h) scope presented = .ok .database →
      ∃ a n p, admin = some a ∧ scope = .database n ∧ presented = some p ∧ bound = some p ∧ p ≠ a) ∧
    (authorizeH h (admin.map h) (bound.map h) scope presented = .ok .admin →
      admin = none ∨ ∃ a, admin = some a ∧ presented = some a) := by
  rw [authorizeH_eq_authorize h hinj]
  exact ⟨authorize_ok_database _ _ _ _, authorize_ok_admin _ _ _ _⟩

/-- **prefix_digest_breaks_confinement.** The counterexample model: with a digest that looks at the
first 16 characters only, a tenant key sharing them with the admin key is `Admin` on the root scope,
the key of database `a` opens database `b`, and a rotated-away key keeps working — while `authorize`
(whole-key equality) rejects all three. -/
theorem prefix_digest_breaks_confinement :
    let h := prefixDigest 16
    let adm := "0123456789abcdef:admin"
    let ka := "0123456789abcdef:qa"
    let kb := "0123456789abcdef:zb"
    authorizeH h (some (h adm)) none .root (some ka) = .ok .admin ∧
    authorize (some adm) none .root (some ka) = .error .unauthorized ∧
    authorizeH h (some (h "x-other-admin-key")) (some (h kb)) (.database "b") (some ka) = .ok .database ∧
    authorize (some "x-other-admin-key") (some kb) (.database "b") (some ka) = .error .unauthorized ∧
    authorizeH h (some (h "x-other-admin-key")) (some (h "0123456789abcdef:v2")) (.database "a")
      (some "0123456789abcdef:v1") = .ok .database := by
  decide +kernel

/-! ## Confinement -/

/- `ConfinedReply n r reply` (defined in `Proofs/ServerAuth`): what a response may carry towards the
holder of the key of database `n` — errors that mention only `n` or the caller's own method name,
handlers of `n`, and the scoped `info` view `{primary_db: none, databases: [n]}`. -/

/-- **db_key_confined.** A request that was authorised as a per-database principal
* was a `POST /{n}` whose bearer token is the key bound to `n` (and not the admin key),
* left the server state (bindings, open set, registry, store, read-only switch of the primary)
  exactly as it was — given that the primary database is not bound, which holds in every reachable
  state (`no_admin_implies_no_bound`; see `db_key_confined_reachable`),
* and was answered only by database-scope handlers of `n`, by `n`'s scoped `info` view, or by an
  error that names nothing but `n` and the caller's own method name —
  no root-scope method is reachable from it. -/
theorem db_key_confined (cfg : Cfg) (s : State) (r : Request)
    (hwf : lookup s.bound cfg.primary = none)
    (h : (handle cfg s r).2.principal = some .database) :
    ∃ n k a, r.verb = .post ∧ r.target = .db n ∧ bearerToken r.auth = some k ∧
      lookup s.bound n = some k ∧ cfg.admin = some a ∧ k ≠ a ∧
      (handle cfg s r).1 = s ∧ ConfinedReply n r (handle cfg s r).2.reply := by
  cases ht : r.target <;> cases hv : r.verb <;> unfold handle at h ⊢ <;> simp only [ht, hv] at h ⊢ <;>
    try (cases h; done)
  · -- POST /
    have ha := rpc_principal_inv _ _ _ _ _ h
    unfold authorizeState at ha
    exact absurd ha (authorize_root_not_database _ _ _)
  · -- POST /{n}
    rename_i n
    have ha := rpc_principal_inv _ _ _ _ _ h
    have ha' := ha
    unfold authorizeState at ha'
    obtain ⟨a, n', p, hadm, hs, hp, hb, hne⟩ := authorize_ok_database _ _ _ _ ha'
    have hb' : lookup s.bound n = some p := hb
    have hnp : n ≠ cfg.primary := by
      intro e
      rw [e, hwf] at hb'
      cases hb' 
    refine ⟨n, p, a, ?_, ?_, hp, hb, hadm, hne, rpc_database_state_ne _ _ _ _ hnp, ?_⟩
    · first | trivial | rfl
    · first | trivial | rfl
    · rcases rpc_database_reply cfg s n r .database ha with h1 | h1 | ⟨m, ps, hb', h1⟩ | ⟨v, e, ps, h1⟩
      · rw [h1]; simp [ConfinedReply]
      · rw [h1]; simp [ConfinedReply]
      · rw [h1]; exact ⟨ps, hb'⟩
      · rw [h1]; exact dispatchDb_confined cfg s n v e ps r

/-- the hypotheses of `db_key_confined` are met: the key holder of `a` asks for `info` -/
example :
    let cfg : Cfg := ⟨some "adm", "prim", 8⟩
    let s : State := ⟨[("a", "ka"), ("b", "kb")], ["prim", "a", "b"], ["a", "b"], ["prim", "a", "b"], false, ["a", "b"], [("a", "ka"), ("b", "kb")], [("a", "ka"), ("b", "kb")], ["a", "b"], none, false⟩
    let r : Request := ⟨.post, .db "a", some (bearerPrefixBytes ++ [107, 97]), some .json, none, .rpc "info" ⟨none, none, none⟩, "g"⟩
    (handle cfg s r).2 = ⟨.json, .root (.info none ["a"]), some .database⟩ := by decide

/-- **root_admin_only.** Whatever changed the server state, and whatever was answered by a
root-scope handler, was authorised as `Admin` (the admin key, or an instance without one). -/
theorem root_admin_only (cfg : Cfg) (s : State) (r : Request) (hwf : lookup s.bound cfg.primary = none) :
    ((handle cfg s r).1 ≠ s → (handle cfg s r).2.principal = some .admin) ∧
    (r.target = .root → r.verb = .post → (handle cfg s r).2.principal ≠ none →
      (handle cfg s r).2.principal = some .admin ∧
      (cfg.admin = none ∨ ∃ a, cfg.admin = some a ∧ bearerToken r.auth = some a)) := by
  constructor
  · intro hne
    cases hp : (handle cfg s r).2.principal with
    | none =>
      exfalso; apply hne
      unfold handle at hp ⊢
      split at hp
      · rfl
      · rfl
      · rw [rpc_principal_none _ _ _ _ hp]
      · rw [rpc_principal_none _ _ _ _ hp]
      · rfl
      · rfl
    | some p =>
      cases p with
      | admin => rfl
      | database =>
        obtain ⟨_, _, _, _, _, _, _, _, _, hs, _⟩ := db_key_confined cfg s r hwf hp
        exact absurd hs hne
  · intro ht hv hp
    unfold handle at hp ⊢
    rw [ht, hv] at hp ⊢
    simp only at hp ⊢
    cases hq : (rpc cfg s .root r).2.principal with
    | none => exact absurd hq hp
    | some p =>
      have ha := rpc_principal_inv _ _ _ _ _ hq
      unfold authorizeState at ha
      cases p with
      | database => exact absurd ha (authorize_root_not_database _ _ _)
      | admin => exact ⟨rfl, authorize_ok_admin _ _ _ _ ha⟩

/-- **Non-interference.** What a caller who is not the admin gets from `POST /{n}` is a function
of `n`'s own binding and of whether `n` is open — nothing else in the server state (other
databases, their bindings, the registry, what exists in the store) can influence the response. -/
theorem db_key_noninterference (cfg : Cfg) (s₁ s₂ : State) (r : Request) (n : String)
    (ht : r.target = .db n)
    (hb : lookup s₁.bound n = lookup s₂.bound n)
    (ho : s₁.opened.contains n = s₂.opened.contains n)
    (hp : (handle cfg s₁ r).2.principal ≠ some .admin) :
    (handle cfg s₂ r).2 = (handle cfg s₁ r).2 := by
  unfold handle at hp ⊢
  rw [ht] at hp ⊢
  cases hv : r.verb with
  | get => simp
  | other => simp
  | post =>
    rw [hv] at hp
    simp only at hp ⊢
    have hauth : authorizeState cfg s₂ (.database n) (bearerToken r.auth) =
        authorizeState cfg s₁ (.database n) (bearerToken r.auth) := by
      unfold authorizeState; simp only [hb]
    cases ha : authorizeState cfg s₁ (.database n) (bearerToken r.auth) with
    | error e =>
      rw [rpc_rejected cfg s₁ _ r e ha, rpc_rejected cfg s₂ _ r e (hauth ▸ ha)]
    | ok p =>
      have hpp : p = .database := by
        cases p with
        | database => rfl
        | admin => exact absurd (rpc_principal _ _ _ _ _ ha) hp
      subst hpp
      have ha₂ := hauth ▸ ha
      have hd : ∀ v e ps, (dispatchDb cfg s₂ n .database v e ps).2 = (dispatchDb cfg s₁ n .database v e ps).2 := by
        intro v e ps
        unfold dispatchDb
        rw [ho]
        split
        · rfl
        · split
          · rfl
          · rename_i row hrow
            have hr := (List.all_eq_true.1 principal_only_to_info.2.2.2.2.1) row (dispatchIn_mem _ _ _ hrow)
            split
            · rename_i hh
              have hup : row.usesPrincipal = true := by simpa [hh] using hr
              simp [hup, scopedInfo]
            · rfl
      unfold rpc
      simp only [ha, ha₂]
      split
      · rfl
      · split
        · rfl
        · split
          · rfl
          · simp only [hd]

/-! ## Uniform rejection -/

/-- The decision takes the key map but not the database registry: whether the addressed database
exists, is open, is registered or was never created is not an input of authorisation. -/
theorem authorization_ignores_existence (cfg : Cfg) (s s' : State) (scope : Scope) (t : Option String)
    (h : s.bound = s'.bound) : authorizeState cfg s scope t = authorizeState cfg s' scope t := by
  unfold authorizeState; rw [h]

/-- **uniform_rejection.** Any two rejected RPC requests that negotiate the same response encoding
are answered with *equal* responses and leave the state untouched — whatever the two server
states, addressed names (existing, bound to another key, unbound, missing, malformed), routes,
methods, bodies and presented tokens were. -/
theorem uniform_rejection (cfg : Cfg) (s₁ s₂ : State) (r₁ r₂ : Request)
    (hv₁ : r₁.verb = .post) (hv₂ : r₂.verb = .post)
    (ht₁ : r₁.target = .root ∨ ∃ n, r₁.target = .db n) (ht₂ : r₂.target = .root ∨ ∃ n, r₂.target = .db n)
    (hacc : r₁.accept = r₂.accept) (hct : r₁.contentType = r₂.contentType)
    (h₁ : (handle cfg s₁ r₁).2.principal = none) (h₂ : (handle cfg s₂ r₂).2.principal = none) :
    (handle cfg s₁ r₁).2 = (handle cfg s₂ r₂).2 ∧
    (handle cfg s₁ r₁).2.reply = .err .unauthorized ∧
    (handle cfg s₁ r₁).1 = s₁ ∧ (handle cfg s₂ r₂).1 = s₂ := by
  have key : ∀ (s : State) (r : Request), r.verb = .post → (r.target = .root ∨ ∃ n, r.target = .db n) →
      (handle cfg s r).2.principal = none → handle cfg s r = (s, rejected r) := by
    intro s r hv ht hp
    unfold handle at hp ⊢
    rcases ht with ht | ⟨n, ht⟩
    · rw [ht, hv] at hp ⊢
      exact rpc_principal_none _ _ _ _ hp
    · rw [ht, hv] at hp ⊢
      exact rpc_principal_none _ _ _ _ hp
  rw [key s₁ r₁ hv₁ ht₁ h₁, key s₂ r₂ hv₂ ht₂ h₂]
  simp [rejected, hacc, hct]

/-- When is a request rejected: exactly when neither the admin key nor the key bound to the
addressed database was presented (an admin key being configured). -/
theorem rejected_of_wrong_token (cfg : Cfg) (s : State) (r : Request) (n a : String)
    (hv : r.verb = .post) (ht : r.target = .db n) (hadm : cfg.admin = some a)
    (hna : bearerToken r.auth ≠ some a)
    (hnb : lookup s.bound n = none ∨ bearerToken r.auth = none ∨ lookup s.bound n ≠ bearerToken r.auth) :
    handle cfg s r = (s, rejected r) := by
  unfold handle
  rw [ht, hv]
  simp only
  apply rpc_rejected cfg s _ r .unauthorized
  unfold authorizeState
  rw [hadm]
  exact authorize_rejects a _ _ _ hna hnb

example :
    let cfg : Cfg := ⟨some "adm", "prim", 8⟩
    let s₁ : State := ⟨[("a", "ka"), ("b", "kb")], ["prim", "a", "b"], ["a", "b"], ["prim", "a", "b"], false, ["a", "b"], [("a", "ka"), ("b", "kb")], [("a", "ka"), ("b", "kb")], ["a", "b"], none, false⟩
    let s₂ : State := ⟨[], ["prim"], [], ["prim"], true, [], [], [], [], none, false⟩
    let tok := some (bearerPrefixBytes ++ [107, 97])   -- "Bearer ka"
    -- key of `a` on `b` (exists, bound to another key)  vs  no token on a database that does not exist
    (handle cfg s₁ ⟨.post, .db "b", tok, some .cbor, none, .rpc "doc.get" ⟨none, none, none⟩, "g"⟩).2 =
    (handle cfg s₂ ⟨.post, .db "nope", none, some .cbor, none, .rpc "db.create" ⟨some "x", none, none⟩, "g"⟩).2 := by
  decide

/-- **uniform_rejection_wire.** On the wire — status, the complete header set, the body bytes —
every rejection is the one constant `rejectionWire enc` of its negotiated encoding: two rejected
RPC requests that negotiate the same encoding are answered byte-identically, whatever the states,
addressed names (existing, bound to another key, unbound, missing, malformed), methods, bodies and
tokens were. (The harness compares `rejectionWire` with the real router's bytes on every run.) -/
theorem uniform_rejection_wire (cfg : Cfg) (s₁ s₂ : State) (r₁ r₂ : Request)
    (hv₁ : r₁.verb = .post) (hv₂ : r₂.verb = .post)
    (ht₁ : r₁.target = .root ∨ ∃ n, r₁.target = .db n) (ht₂ : r₂.target = .root ∨ ∃ n, r₂.target = .db n)
    (hacc : r₁.accept = r₂.accept) (hct : r₁.contentType = r₂.contentType)
    (h₁ : (handle cfg s₁ r₁).2.principal = none) (h₂ : (handle cfg s₂ r₂).2.principal = none) :
    render (handle cfg s₁ r₁).2 = some (rejectionWire (negotiateOr r₁.accept r₁.contentType .cbor)) ∧
    render (handle cfg s₂ r₂).2 = render (handle cfg s₁ r₁).2 := by
  obtain ⟨heq, hrep, _, _⟩ := uniform_rejection cfg s₁ s₂ r₁ r₂ hv₁ hv₂ ht₁ ht₂ hacc hct h₁ h₂
  have henc : (handle cfg s₁ r₁).2.enc = negotiateOr r₁.accept r₁.contentType .cbor := by
    unfold handle at h₁ ⊢
    rcases ht₁ with ht | ⟨n, ht⟩
    · rw [ht, hv₁] at h₁ ⊢
      have e := rpc_principal_none cfg s₁ .root r₁ h₁
      show (rpc cfg s₁ .root r₁).2.enc = _
      rw [e]; rfl
    · rw [ht, hv₁] at h₁ ⊢
      have e := rpc_principal_none cfg s₁ (.database n) r₁ h₁
      show (rpc cfg s₁ (.database n) r₁).2.enc = _
      rw [e]; rfl
  refine ⟨?_, by rw [heq]⟩
  unfold render
  rw [hrep, henc]

/-- the constant, byte for byte (JSON): 401, exactly two headers, 72 bytes -/
example : rejectionWire .json =
    ⟨401, [("content-length", "72"), ("content-type", "application/json")],
     asciiBytes "{\"error\":{\"code\":\"unauthorized\",\"message\":\"invalid or missing API key\"}}"⟩ := by decide

example : (rejectionWire .cbor).status = 401 ∧ (rejectionWire .cbor).body.length = 62 ∧
    (rejectionWire .cbor).headers = [("content-length", "62"), ("content-type", "application/cbor")] := by decide

/-! ## Routing: path, query and body parameters -/

/-- **routing_ignores_query.** Whatever follows the first `?` of the request target — e.g.
`?db_name=other&name=other` — has no influence on the route and on the database addressed. -/
theorem routing_ignores_query (p q : List Nat) (hp : ∀ b ∈ p, b ≠ 63) :
    routePath (p ++ 63 :: q) = routePath p :=
  routePath_eq_of_pathOnly _ _ (by rw [pathOnly_append_query p q hp, pathOnly_of_no_query p hp])

/-- **root_scope_only_slash.** The root scope is addressed by the path `/` and nothing else; a
database scope by exactly one non-empty raw segment, whose percent-decoding (as UTF-8) *is* the
name the binding is looked up with and `get_db` is called with. -/
theorem root_scope_only_slash (t : List Nat) :
    (routePath t = .root ↔ pathOnly t = [47]) ∧
    (∀ n, routePath t = .db n → ∃ seg, pathOnly t = 47 :: seg ∧ seg ≠ [] ∧ seg.contains 47 = false ∧
      utf8Decode (percentDecode seg) = some n) :=
  ⟨routePath_root t, fun n h => routePath_db t n h⟩

/-- **db_key_confined_raw.** `db_key_confined` for a request given by its raw target: the database a
per-database principal acts on is the decoded path segment — not a name in the query, and (the
model's handlers take none) not a name in the body. -/
theorem db_key_confined_raw (cfg : Cfg) (s : State) (r : Request) (target : List Nat)
    (hwf : lookup s.bound cfg.primary = none)
    (h : (handle cfg s (routed r target)).2.principal = some .database) :
    ∃ n k seg, routePath target = .db n ∧ pathOnly target = 47 :: seg ∧
      utf8Decode (percentDecode seg) = some n ∧
      lookup s.bound n = some k ∧ bearerToken r.auth = some k ∧
      (handle cfg s (routed r target)).1 = s ∧
      ConfinedReply n (routed r target) (handle cfg s (routed r target)).2.reply := by
  obtain ⟨n, k, a, _, ht, htok, hl, _, _, hs, hc⟩ := db_key_confined cfg s (routed r target) hwf h
  have ht' : routePath target = .db n := ht
  obtain ⟨seg, hp, _, _, hd⟩ := routePath_db target n ht'
  exact ⟨n, k, seg, ht', hp, hd, hl, htok, hs, hc⟩

example : routePath (asciiBytes "/tenant_a?db_name=tenant_b&name=tenant_b") = .db "tenant_a" := by decide
example : routePath (asciiBytes "/?db_name=tenant_a") = .root := by decide
example : routePath (asciiBytes "/%74enant%5fa") = .db "tenant_a" := by decide
example : routePath (asciiBytes "/a%2Fb") = .db "a/b" := by decide
example : routePath (asciiBytes "/%C3") = .badUtf8 ∧ routePath (asciiBytes "/%ED%A0%80") = .badUtf8 ∧
    routePath (asciiBytes "/%C0%AF") = .badUtf8 := by decide
example : routePath (asciiBytes "/a/") = .unrouted ∧ routePath (asciiBytes "//") = .unrouted ∧
    routePath (asciiBytes "/a/../b") = .unrouted := by decide

/-! ## Storage addressing -/

/-- **handler_addresses_path_db.** The only database whose storage a request can reach through a
handler is the one its path names, and only while that database is open: whatever the principal,
method and parameters. Every other answer (`touchedDb = none`) is given without storage access.
(Handler bodies are not modelled; that a handler holding the `AndaDB` of `n` stays under the prefix
`n/` — and that `touchedDb = none` means no access — is compared with the recording store on every
request of the database route.) -/
theorem handler_addresses_path_db (cfg : Cfg) (s : State) (r : Request) (n : String)
    (h : touchedDb (handle cfg s r).2 = some n) :
    r.verb = .post ∧ r.target = .db n ∧ s.opened.contains n = true := by
  cases ht : r.target <;> cases hv : r.verb <;> unfold handle at h <;> simp only [ht, hv] at h <;>
    try (cases h; done)
  · rw [touchedDb_rpc_root] at h; cases h
  · rename_i m
    obtain ⟨e, ho⟩ := touchedDb_rpc_database _ _ _ _ _ h
    subst e
    exact ⟨rfl, rfl, ho⟩

/-- **db_key_touches_only_own.** A per-database principal's request reaches storage, if at all,
only under the prefix of the database its key is bound to. -/
theorem db_key_touches_only_own (cfg : Cfg) (s : State) (r : Request) (n' : String)
    (hwf : lookup s.bound cfg.primary = none)
    (hp : (handle cfg s r).2.principal = some .database)
    (h : touchedDb (handle cfg s r).2 = some n') :
    ∃ k, r.target = .db n' ∧ lookup s.bound n' = some k ∧ bearerToken r.auth = some k ∧ n' ≠ cfg.primary := by
  obtain ⟨n, k, _, _, ht, htok, hl, _, _, _, _⟩ := db_key_confined cfg s r hwf hp
  obtain ⟨_, ht', _⟩ := handler_addresses_path_db cfg s r n' h
  rw [ht] at ht'
  cases ht'
  refine ⟨k, ht, hl, htok, ?_⟩
  intro e
  rw [e, hwf] at hl
  cases hl

/-! ## Revocation and rotation -/

/-- **revocation_immediate.** Once `db.remove_api_key n` has answered, the key that was bound to
`n` (like any other non-admin token) is rejected on `n` by the very next request; rotating the key
with `db.set_api_key` rejects the previous key in the same way. Other databases' bindings are not
touched by either. -/
theorem revocation_immediate (cfg : Cfg) (s s' : State) (n a k : String) (hadm : cfg.admin = some a) (hk : k ≠ a) :
    (∀ b, removeDbApiKey s n = (s', .ok (.removed b)) →
        authorizeState cfg s' (.database n) (some k) = .error .unauthorized ∧
        ∀ x, x ≠ n → lookup s'.bound x = lookup s.bound x) ∧
    (∀ k₂ fresh res, setDbApiKey cfg s n (some k₂) fresh = (s', .ok res) → k ≠ k₂ →
        authorizeState cfg s' (.database n) (some k) = .error .unauthorized ∧
        authorizeState cfg s' (.database n) (some k₂) ≠ .error .unauthorized ∧
        ∀ x, x ≠ n → lookup s'.bound x = lookup s.bound x) := by
  constructor
  · intro b h
    unfold removeDbApiKey at h
    split at h
    · cases h
    · dsimp only at h
      split at h
      · rename_i hok
        cases h
        have hb := ((storeApiKey_fields s n none).1 hok).1
        refine ⟨?_, fun x hx => by rw [hb]; exact lookup_eraseKey_ne _ _ _ hx⟩
        unfold authorizeState
        rw [hadm, hb]
        exact authorize_rejects a _ _ _ (by simp [hk]) (.inl (lookup_eraseKey_self _ _))
      · cases h
  · intro k₂ fresh res h hne
    unfold setDbApiKey at h
    simp only [Option.getD_some] at h
    split at h
    · cases h
    · rename_i hchk
      split at h
      · cases h
      · split at h
        · rename_i hok
          cases h
          have hb := ((storeApiKey_fields s n (some k₂)).1 hok).1
          simp only [storeTarget] at hb
          refine ⟨?_, ?_, fun x hx => by rw [hb]; exact lookup_setKey_ne _ _ _ _ hx⟩
          · unfold authorizeState
            rw [hadm, hb]
            simp only [lookup_setKey_self]
            exact authorize_rejects a _ _ _ (by simp [hk])
              (.inr (.inr (by simp only [ne_eq, Option.some.injEq]; exact fun e => hne e.symm)))
          · unfold authorizeState
            rw [hadm, hb]
            simp only [lookup_setKey_self]
            by_cases e : k₂ = a
            · subst e
              have : presentedIs k₂ (some k₂) = true := (presentedIs_iff _ _).2 rfl
              simp [authorize, this]
            · rw [authorize_database_of a n k₂ e]
              simp
        · cases h

/-- `revocation_immediate` through the HTTP pipeline: if *some* request was answered with the result
of `db.remove_api_key` for database `n`, then the next request on `POST /{n}` that does not carry
the admin key — the revoked key, any other key, none — gets the uniform rejection. -/
theorem revocation_immediate_http (cfg : Cfg) (s : State) (ra r : Request) (n a m : String)
    (k : Option String) (ro : Option Bool) (b : Bool)
    (hadm : cfg.admin = some a)
    (hbody : ra.body = .rpc m ⟨some n, k, ro⟩)
    (hrep : (handle cfg s ra).2.reply = .root (.removed b))
    (hv : r.verb = .post) (ht : r.target = .db n) (htok : bearerToken r.auth ≠ some a) :
    handle cfg (handle cfg s ra).1 r = ((handle cfg s ra).1, rejected r) := by
  have hun : lookup (handle cfg s ra).1.bound n = none := by
    obtain ⟨verb, target, auth, ct, accept, body, fresh⟩ := ra
    simp only at hbody
    subst hbody
    unfold handle at hrep ⊢
    cases target <;> cases verb <;> simp only at hrep ⊢ <;> try (cases hrep; done)
    · obtain ⟨m', ps, hd, hb, hh⟩ := rpc_root_result _ _ _ _ hrep
      simp only at hb
      cases hb
      obtain ⟨n', hn', hrem⟩ := rootHandler_removed _ _ _ _ _ _ _ hh
      simp only at hn'
      cases hn'
      exact removeDbApiKey_unbinds _ _ _ _ hrem
    · exact absurd hrep (rpc_database_not_removed _ _ _ _ _)
  exact rejected_of_wrong_token cfg _ r n a hv ht hadm htok (.inl hun)

/-- **No in-memory-only revocation or binding.** While the key map cannot be persisted (the primary
database is read-only) no request changes any binding: the management calls roll back and answer
500, so what is enforced in memory is always what a restart would reload. -/
theorem persistence_failure_keeps_bindings (cfg : Cfg) (s : State) (r : Request) (hro : s.primaryRO = true) :
    (handle cfg s r).1.bound = s.bound := by
  unfold handle
  split
  · rfl
  · rfl
  · rcases rpc_root_state cfg s r with h | ⟨hd, ps, h⟩
    · rw [h]
    · rw [h]; exact rootHandler_bound_of_ro cfg s hd ps r.fresh hro
  · exact rpc_database_bound _ _ _ _
  · rfl
  · rfl

def exCfg : Cfg := ⟨some "adm", "prim", 8⟩
def exAdmin (m n : String) (k : Option String) : Event :=
  .request ⟨.post, .root, some (bearerPrefixBytes ++ [97, 100, 109]), some .cbor, none, .rpc m ⟨some n, k, none⟩, "gen"⟩

/-! ## Time of check = time of use (a body that arrives later) -/

/-- api/mod.rs as it is now: the handler side authorises again when the body has been buffered —
`execute_rpc` (helpers inlined) contains `let p = state.authorize(scope, bearer_token(headers))?;`,
its entry points take the buffered `Bytes`, and exactly that principal reaches every `dispatch(..)`.
This is what `handleSplit` (decision at `finish`, nothing carried over from header time) models; a
principal taken from request extensions, a default on error, or no second call flips a fact here. -/
theorem authorize_at_execution_frozen :
    executeAuthorizesAtExecution = true ∧ handlerRunsAfterBody = true ∧
    executeForwardsAuthorizedPrincipal = true := by
  decide

/-- **revocation_cuts_inflight.** A request whose head arrived in ANY earlier state `sBegin` — with a key
that was valid then — and whose body arrives in a state `sNow` in which its token is neither the admin
key nor the key bound to the addressed database is answered with the uniform rejection and changes
nothing: no request finishing after a revocation / rotation is served under the old key. -/
theorem revocation_cuts_inflight (cfg : Cfg) (sBegin sNow : State) (r : Request) (n a : String)
    (hv : r.verb = .post) (ht : r.target = .db n) (hadm : cfg.admin = some a)
    (hna : bearerToken r.auth ≠ some a)
    (hnb : lookup sNow.bound n = none ∨ bearerToken r.auth = none ∨ lookup sNow.bound n ≠ bearerToken r.auth) :
    handleSplit cfg sBegin sNow r = (sNow, rejected r) := by
  unfold handleSplit
  rw [hv, ht]
  simp only
  cases authorizeState cfg sBegin (.database n) (bearerToken r.auth) with
  | error e => rfl
  | ok p => exact rejected_of_wrong_token cfg sNow r n a hv ht hadm hna hnb

/-- … in particular after an acknowledged `db.remove_api_key n`, whatever was in flight. -/
theorem revocation_cuts_inflight_after_removal (cfg : Cfg) (s sBegin : State) (ra r : Request) (n a m : String)
    (k : Option String) (ro : Option Bool) (b : Bool)
    (hadm : cfg.admin = some a)
    (hbody : ra.body = .rpc m ⟨some n, k, ro⟩)
    (hrep : (handle cfg s ra).2.reply = .root (.removed b))
    (hv : r.verb = .post) (ht : r.target = .db n) (htok : bearerToken r.auth ≠ some a) :
    handleSplit cfg sBegin (handle cfg s ra).1 r = ((handle cfg s ra).1, rejected r) := by
  have hnow := revocation_immediate_http cfg s ra r n a m k ro b hadm hbody hrep hv ht htok
  unfold handleSplit
  rw [hv, ht]
  simp only
  cases authorizeState cfg sBegin (.database n) (bearerToken r.auth) with
  | error e => rfl
  | ok p => exact hnow

/-- non-vacuity: the head of `doc.get` arrives with the key of `a`, the key is revoked, the body arrives:
rejected — while the same request finished before the revocation reaches the handler -/
example :
    let s₀ := run exCfg (init exCfg) [exAdmin "db.create" "a" (some "ka")]
    let s₁ := run exCfg s₀ [exAdmin "db.remove_api_key" "a" none]
    let r : Request := ⟨.post, .db "a", some (bearerPrefixBytes ++ [107, 97]), some .cbor, none, .rpc "doc.get" ⟨none, none, none⟩, "g"⟩
    (handleSplit exCfg s₀ s₁ r).2 = rejected r ∧
    (handleSplit exCfg s₀ s₀ r).2.reply = .handler "a" "DocGet" "document::get" .read none := by
  decide +kernel

/-! ## Acknowledged ⇒ durable (storage faults, retries, crashes) -/

/-- state.rs, as it is now: on the way from `set_db_api_key` through `store_api_key` and
`persist_api_keys` to `save_extension_from` (and from `persist_registry` to it) there is no early
non-error `return` and no enclosing conditional other than `if let Some(db) = <primary>` — the model's
`persistKeys` / `persistRegistry` have no skip path because the code has none; since commit 39a09a9
`remove_db_api_key` stores unconditionally as well. An "unchanged, skip" test added to any of these
flips a fact here. -/
theorem persistence_paths_frozen :
    persistKeysUnconditional = true ∧ persistRegistryUnconditional = true ∧ storeAlwaysPersists = true ∧
    setAlwaysStores = true ∧ removeStoresConditionally = false := by
  decide

/-- **acknowledged_implies_durable.** Whatever the state — a read-only primary, an armed fault, an
engine copy of the extensions left over from an earlier failed PUT — if a request is answered with
the result of `db.set_api_key`, or of `db.remove_api_key` (`true` or `false`: the removal is
persisted either way), then the durable key map equals the enforced one at that moment. (A 5xx answer
acknowledges nothing.) -/
theorem acknowledged_implies_durable (cfg : Cfg) (s : State) (r : Request) (res : RootResult)
    (hrep : (handle cfg s r).2.reply = .root res)
    (hres : (∃ n g, res = .keySet n g) ∨ (∃ b, res = .removed b)) :
    (handle cfg s r).1.durableBound = (handle cfg s r).1.bound := by
  obtain ⟨verb, target, auth, ct, accept, body, fresh⟩ := r
  unfold handle at hrep ⊢
  cases target <;> cases verb <;> simp only at hrep ⊢ <;> try (cases hrep; done)
  · obtain ⟨m, ps, hd, _, hh⟩ := rpc_root_result _ _ _ _ hrep
    exact rootHandler_ack _ _ _ _ _ _ _ hh hres
  · rename_i n
    exfalso
    cases ha : authorizeState cfg s (.database n) (bearerToken auth) with
    | error e => rw [rpc_rejected cfg s _ ⟨.post, .db n, auth, ct, accept, body, fresh⟩ e ha] at hrep; cases hrep
    | ok p =>
      rcases rpc_database_reply cfg s n ⟨.post, .db n, auth, ct, accept, body, fresh⟩ p ha with h1 | h1 | ⟨_, _, _, h1⟩ | ⟨v, e, ps, h1⟩
      · rw [h1] at hrep; cases hrep
      · rw [h1] at hrep; cases hrep
      · rw [h1] at hrep; cases hrep
      · rw [h1] at hrep
        unfold dispatchDb at hrep
        split at hrep
        · cases hrep
        · split at hrep
          · cases hrep
          · split at hrep
            · unfold scopedInfo at hrep
              split at hrep <;> cases hrep <;> rcases hres with ⟨_, _, e'⟩ | ⟨_, e'⟩ <;> cases e'
            · cases hrep

/-- **acknowledged_survives_crash.** … so a crash right after the answer — and, because only an
admin request can change the durable map again (`root_admin_only`), at any later point before the
next management request — restarts into exactly the acknowledged bindings: a revoked or rotated-away
key is still rejected, a newly set key works. -/
theorem acknowledged_survives_crash (cfg : Cfg) (s : State) (r : Request) (res : RootResult)
    (hrep : (handle cfg s r).2.reply = .root res)
    (hres : (∃ n g, res = .keySet n g) ∨ (∃ b, res = .removed b)) :
    (crash cfg (handle cfg s r).1).bound = (handle cfg s r).1.bound :=
  acknowledged_implies_durable cfg s r res hrep hres

/-- **retry_persists.** There is no "unchanged, skip" path: with the primary writable and no fault
armed, persisting the key map always performs the PUT — whatever the engine's copy or the durable
map already hold (for instance the very value, left by a failed first attempt) — so an identical
retry of a failed request makes its change durable. -/
theorem retry_persists (s : State) (hro : s.primaryRO = false) (hf : s.faultIn = none) :
    (persistKeys s).2 = true ∧ (persistKeys s).1.durableBound = s.bound ∧ (persistKeys s).1.bound = s.bound :=
  persistKeys_no_fault s hro hf

def exFault (k : Nat) : Event := .fault k
def exKeyOf (history : List Event) (n : String) : Option String :=
  lookup (run exCfg (init exCfg) history).bound n

/-- the class scenario on the model: rotate `a` from `ka` to `kb` with the first PUT failing (500:
the old key stays enforced), retry (200), crash — the rotated-away key is gone, the new one bound -/
example :
    exKeyOf [exAdmin "db.create" "a" (some "ka"), exFault 0, exAdmin "db.set_api_key" "a" (some "kb")] "a" = some "ka" ∧
    exKeyOf [exAdmin "db.create" "a" (some "ka"), exFault 0, exAdmin "db.set_api_key" "a" (some "kb"),
             exAdmin "db.set_api_key" "a" (some "kb"), .crash] "a" = some "kb" ∧
    exKeyOf [exAdmin "db.create" "a" (some "ka"), exFault 0, exAdmin "db.remove_api_key" "a" none,
             exAdmin "db.remove_api_key" "a" none, .crash] "a" = none := by decide +kernel

/-- **durable_equals_enforced.** Fault model "a failed PUT did not land": after every history of
requests, clean restarts, crashes and armed faults of that kind, the durable key map — and the
engine's in-memory copy of the extension — EQUAL the enforced one. (Since commit 5c65d83
`store_api_key` puts the restored map back into the engine's copy when persisting fails; before it
this was false, see notes/C14.md finding 2.) -/
theorem durable_equals_enforced (cfg : Cfg) (history : List Event) (hh : NoLandingFault history) :
    (run cfg (init cfg) history).durableBound = (run cfg (init cfg) history).bound ∧
    (run cfg (init cfg) history).extBound = (run cfg (init cfg) history).bound :=
  let h := run_Sync cfg (init cfg) history (init_Sync cfg) hh
  ⟨h.2.1, h.1⟩

/-- **acknowledged_implies_durable_full.** Hence, under that fault model, *every* answer — every 2xx
of a key-management request, including `db.remove_api_key` answering `false` from the in-memory map
without persisting, and for that matter every 5xx — leaves the durable key map equal to the enforced
one, so a crash at any point restarts into exactly the bindings that were being enforced. -/
theorem acknowledged_implies_durable_full (cfg : Cfg) (history : List Event) (hh : NoLandingFault history)
    (r : Request) :
    (handle cfg (run cfg (init cfg) history) r).1.durableBound = (handle cfg (run cfg (init cfg) history) r).1.bound ∧
    (crash cfg (handle cfg (run cfg (init cfg) history) r).1).bound = (handle cfg (run cfg (init cfg) history) r).1.bound := by
  have h := handle_Sync cfg _ r (run_Sync cfg (init cfg) history (init_Sync cfg) hh)
  exact ⟨h.2.1, h.2.1⟩

/-- the former finding, now a regression example: the key of a `db.set_api_key` that answered 500 does
not resurface after another database was registered, the removal answered `false`, and a crash -/
example :
    exKeyOf [exAdmin "db.create" "a" none, exFault 0, exAdmin "db.set_api_key" "a" (some "kx"),
             exAdmin "db.create" "c" none, exAdmin "db.remove_api_key" "a" none, .crash] "a" = none := by
  decide +kernel

/-- **acknowledged_implies_durable_any_fault.** For key REMOVALS (and acknowledged sets) no fault model
is needed at all: whatever faults were armed before — including faults whose metadata PUT landed
although a failure was reported (`Event.faultLanding`: the PUT of `storage_meta.cbor` failing after
`db_meta.cbor` was written) — an answered `db.remove_api_key` (`true` or `false`) leaves the durable
key map equal to the enforced one, with the database unbound in both. -/
theorem acknowledged_implies_durable_any_fault (cfg : Cfg) (history : List Event) (r : Request) (b : Bool)
    (hrep : (handle cfg (run cfg (init cfg) history) r).2.reply = .root (.removed b)) :
    (handle cfg (run cfg (init cfg) history) r).1.durableBound = (handle cfg (run cfg (init cfg) history) r).1.bound ∧
    (crash cfg (handle cfg (run cfg (init cfg) history) r).1).bound = (handle cfg (run cfg (init cfg) history) r).1.bound := by
  have h := acknowledged_implies_durable cfg _ r _ hrep (.inr ⟨b, rfl⟩)
  exact ⟨h, h⟩

/-- the former counterexample (a landed PUT reported as failed, then the no-op removal), now a
regression example: after the crash nothing is bound -/
example :
    exKeyOf [exAdmin "db.create" "a" none, .faultLanding 0, exAdmin "db.set_api_key" "a" (some "kx"),
             exAdmin "db.remove_api_key" "a" none, .crash] "a" = none := by
  decide +kernel

/-- What remains, precisely: a `db.set_api_key` answered 5xx under a landing fault has an UNKNOWN
outcome until the next acknowledged request that writes the metadata object — if the process crashes
before any such request, the requested key is what the restart loads, although memory (and every
answer so far) enforced the old state. This is inherent in a reported failure of a write that
landed; the acknowledged identical retry, an acknowledged removal, or any other successful metadata
PUT settle it (`acknowledged_implies_durable`, `acknowledged_implies_durable_any_fault`). -/
theorem unacknowledged_set_unknown_outcome :
    exKeyOf [exAdmin "db.create" "a" none, .faultLanding 0, exAdmin "db.set_api_key" "a" (some "kx")] "a" = none ∧
    exKeyOf [exAdmin "db.create" "a" none, .faultLanding 0, exAdmin "db.set_api_key" "a" (some "kx"), .crash] "a"
      = some "kx" ∧
    exKeyOf [exAdmin "db.create" "a" none, .faultLanding 0, exAdmin "db.set_api_key" "a" (some "kx"),
             exAdmin "db.create" "c" none, .crash] "a" = none := by
  decide +kernel

/-! ## Invariants over all histories -/

/-- **no_admin_implies_no_bound.** After *every* history of requests (by anybody, to any route,
with any method, parameters and token), clean restarts, crashes and armed storage faults, starting
from a fresh server:
an instance without an admin key holds no per-database binding at all (so rule 1 — "everybody is
Admin" — can never disagree with a binding), and the primary database, which stores the registry
and the key digests, is never delegated to a per-database key. -/
theorem no_admin_implies_no_bound (cfg : Cfg) (history : List Event) :
    (cfg.admin = none → (run cfg (init cfg) history).bound = []) ∧
    lookup (run cfg (init cfg) history).bound cfg.primary = none :=
  (run_Inv cfg (init cfg) history (init_Inv cfg)).1

/-- Consequence: in every reachable state no request is ever authorised as a per-database
principal *on the primary database* — whatever token it carries. -/
theorem primary_never_delegated (cfg : Cfg) (history : List Event) (r : Request)
    (ht : r.target = .db cfg.primary) :
    (handle cfg (run cfg (init cfg) history) r).2.principal ≠ some .database := by
  intro h
  obtain ⟨n, k, _, _, htn, _, hl, _⟩ := db_key_confined cfg _ r (no_admin_implies_no_bound cfg history).2 h
  rw [ht] at htn
  cases htn
  rw [(no_admin_implies_no_bound cfg history).2] at hl
  cases hl

/-- `db_key_confined` and `root_admin_only` in every reachable state, without side condition. -/
theorem db_key_confined_reachable (cfg : Cfg) (history : List Event) (r : Request)
    (h : (handle cfg (run cfg (init cfg) history) r).2.principal = some .database) :
    ∃ n k a, r.verb = .post ∧ r.target = .db n ∧ bearerToken r.auth = some k ∧
      lookup (run cfg (init cfg) history).bound n = some k ∧ cfg.admin = some a ∧ k ≠ a ∧ n ≠ cfg.primary ∧
      (handle cfg (run cfg (init cfg) history) r).1 = run cfg (init cfg) history ∧
      ConfinedReply n r (handle cfg (run cfg (init cfg) history) r).2.reply := by
  have hwf := (no_admin_implies_no_bound cfg history).2
  obtain ⟨n, k, a, h1, h2, h3, h4, h5, h6, h7, h8⟩ := db_key_confined cfg _ r hwf h
  refine ⟨n, k, a, h1, h2, h3, h4, h5, h6, ?_, h7, h8⟩
  intro e
  rw [e, hwf] at h4
  cases h4

/-- a non-trivial reachable state: two tenants created with keys, one rotated to a generated key,
one closed (its binding is kept), a restart, and a refused attempt to bind the primary -/
example :
    run exCfg (init exCfg) [exAdmin "db.create" "a" (some "ka"), exAdmin "db.create" "b" (some "kb"),
        exAdmin "db.set_api_key" "a" none, exAdmin "db.close" "b" none, .restart,
        exAdmin "db.set_api_key" "prim" (some "kp")] =
      ⟨[("a", "gen"), ("b", "kb")], ["prim", "a"], ["a"], ["b", "a", "prim"], false, ["a"],
       [("a", "gen"), ("b", "kb")], [("a", "gen"), ("b", "kb")], ["a"], none, false⟩ := by decide +kernel

/-! ## Encodings -/

/-- **encoding_irrelevant.** CBOR or JSON as the request encoding (a body that parses being
given) changes neither the decision, nor the reply, nor the resulting state — only the encoding of
the response. -/
theorem encoding_irrelevant (cfg : Cfg) (s : State) (r : Request) (e₁ e₂ : Enc) :
    (handle cfg s { r with contentType := some e₁ }).1 = (handle cfg s { r with contentType := some e₂ }).1 ∧
    (handle cfg s { r with contentType := some e₁ }).2.reply = (handle cfg s { r with contentType := some e₂ }).2.reply ∧
    (handle cfg s { r with contentType := some e₁ }).2.principal = (handle cfg s { r with contentType := some e₂ }).2.principal := by
  obtain ⟨verb, target, auth, ct, accept, body, fresh⟩ := r
  have key : ∀ (scope : Scope) (e : Enc),
      (rpc cfg s scope ⟨verb, target, auth, some e, accept, body, fresh⟩).1 =
        (rpc cfg s scope ⟨verb, target, auth, some .cbor, accept, body, fresh⟩).1 ∧
      (rpc cfg s scope ⟨verb, target, auth, some e, accept, body, fresh⟩).2.reply =
        (rpc cfg s scope ⟨verb, target, auth, some .cbor, accept, body, fresh⟩).2.reply ∧
      (rpc cfg s scope ⟨verb, target, auth, some e, accept, body, fresh⟩).2.principal =
        (rpc cfg s scope ⟨verb, target, auth, some .cbor, accept, body, fresh⟩).2.principal := by
    intro scope e
    unfold rpc
    simp only
    cases authorizeState cfg s scope (bearerToken auth) with
    | error x => exact ⟨rfl, rfl, rfl⟩
    | ok p =>
      simp only
      cases body with
      | malformed => exact ⟨rfl, rfl, rfl⟩
      | rpc m ps =>
        simp only
        cases scope with
        | root =>
          simp only
          repeat' split
          all_goals simp_all
        | database n =>
          simp only
          repeat' split
          all_goals simp_all
  unfold handle
  cases target <;> cases verb
  all_goals first
    | exact ⟨rfl, rfl, rfl⟩
    | exact ⟨((key _ e₁).1).trans ((key _ e₂).1).symm, ((key _ e₁).2.1).trans ((key _ e₂).2.1).symm,
        ((key _ e₁).2.2).trans ((key _ e₂).2.2).symm⟩

end AndaVerif.ServerAuth.C14
