import AndaVerif.Props.C11
import AndaVerif.Props.C08
/-
C11 ↔ C08: the crash model of the BM25 flush is what C08 proves of the object store.

`Model/Bm25Flush.lean` treats every backend mutation of a flush (a bucket object PUT, the metadata
PUT, a DELETE of an obsolete object) as ONE atomic step: `load_prefix_bm25` quantifies over the cuts
*between* writes. C08 proves (`cutsWhole_stepsOf`, from `crash_atomic`) that every single-key call of
the real store wrapper, cut at ANY of its backend steps, leaves a store whose whole cold view is the
view before the call or the view after the completed call. This file connects the two: whatever
function of the cold view decodes the BM25 durable state, a crash *inside* a write of a flush loads
exactly as a crash before or after that write — hence, by `load_prefix_bm25`, as the last committed
snapshot or as the new one, in full.
-/
namespace AndaVerif.Bm25.Bridge

open AndaVerif.ObjStore

/-- the whole cold view of a backend -/
def coldView (be : Backend) : Path → Option REnt := fun x => readCold be x

/-- C08's whole-view atomicity, as an equation between views -/
theorem cut_view_old_or_new (w : W) (hw : WInv w) (now : Nat) (c : Call) (hc : c.singleKey = true) (n : Nat) :
    coldView (applyPrefix now w.be (stepsOf w now c) n) = coldView w.be ∨
    coldView (applyPrefix now w.be (stepsOf w now c) n) = coldView (applySteps now w.be (stepsOf w now c)) := by
  rcases cutsWhole_stepsOf hw now c hc n with h | h
  · left; funext x; exact h x
  · right; funext x; exact h x

/-- **A store write of a flush is atomic for the BM25 loader.** For every reachable store state, every
single-key call (put in any mode, multipart put, delete, copy), every cut of its backend steps and
every decoder `decode` of the cold view into the BM25 durable state: loading after the cut gives what
loading before the call gives, or what loading after the completed call gives. -/
theorem store_write_atomic_for_load (w : W) (hw : WInv w) (now : Nat) (c : Call) (hc : c.singleKey = true)
    (n : Nat) (decode : (Path → Option REnt) → Durable) :
    load (decode (coldView (applyPrefix now w.be (stepsOf w now c) n))) = load (decode (coldView w.be)) ∨
    load (decode (coldView (applyPrefix now w.be (stepsOf w now c) n)))
      = load (decode (coldView (applySteps now w.be (stepsOf w now c)))) := by
  rcases cut_view_old_or_new w hw now c hc n with h | h
  · left; rw [h]
  · right; rw [h]

/-- **Crash inside the `j`-th write of a flush.** If the store holds the BM25 state `D` plus the first
`j` writes of a flush `ws` of the shape `flush_with` produces, and the call `c` realises write `j`,
then a crash at any backend step of `c` loads as the last committed snapshot (`load D`) or as the
completely flushed state — the assumption "a write is one atomic step" of `load_prefix_bm25` is
discharged by C08. -/
theorem crash_inside_flush_write (w : W) (hw : WInv w) (now : Nat) (c : Call) (hc : c.singleKey = true) (n : Nat)
    (decode : (Path → Option REnt) → Durable) (D : Durable) (ws : List Write) (j : Nat)
    (hshape : flushShape D ws = true)
    (hbefore : decode (coldView w.be) = applyAll D (ws.take j))
    (hafter : decode (coldView (applySteps now w.be (stepsOf w now c))) = applyAll D (ws.take (j + 1))) :
    load (decode (coldView (applyPrefix now w.be (stepsOf w now c) n))) = load D ∨
    load (decode (coldView (applyPrefix now w.be (stepsOf w now c) n))) = load (applyAll D ws) := by
  have key : ∀ k, load (applyAll D (ws.take k)) = load D ∨ load (applyAll D (ws.take k)) = load (applyAll D ws) := by
    intro k
    rw [load_prefix_bm25 D ws hshape k]
    split
    · left; rfl
    · right; rfl
  rcases store_write_atomic_for_load w hw now c hc n decode with h | h
  · rw [h, hbefore]; exact key j
  · rw [h, hafter]; exact key (j + 1)

/-- every state of every history of store calls, re-opens and crashes satisfies the hypothesis `WInv` -/
theorem hypothesis_reachable (fl : Gen.SidecarOrder.Wrapper) (es : List Event) :
    WInv (AndaVerif.ObjStore.run { W.init with flavor := fl } es) :=
  reachable_inv fl es

end AndaVerif.Bm25.Bridge
